import Fv.Lemmas.SyncRwInv2
/-!
Preservation of the basic `HybridRwLock` invariant, part 3: futures (exclusive access, phases,
heap-node ownership, read/write kind).
-/
namespace Fv.Sync.RwLock
open Fv.Sync
variable {cfg : Cfg} {s s' : State} {t : Tid} {l : Lbl}

theorem futNodePc_futPc {pc : Pc} (h : futNodePc pc = true) : futPc pc = true := by
  cases pc <;> first | rfl | exact h | cases h
theorem futUnlPc_futPc {pc : Pc} (h : futUnlPc pc = true) : futPc pc = true := by
  cases pc with
  | ff1 a => cases a <;> first | rfl | cases h
  | ff2 a => cases a <;> first | rfl | cases h
  | llRel a => cases a <;> first | rfl | cases h
  | dLoad => rfl
  | _ => cases h

set_option maxHeartbeats 16000000 in
/-- what the stepping thread knows about the future it operates on after its step -/
theorem fut_local (hi : Inv s) (h : Step cfg s t l s') :
    ∀ f, (s'.th t).cur = some f → futPc (s'.th t).pc = true →
      (s'.fut f).busy = true
      ∧ (opOn s t f ∨ ((s.fut f).busy = false ∧ (s.th t).pc = .idle))
      ∧ (s'.th t).wr = (s'.fut f).wr
      ∧ (((s'.th t).pc = .taLoad .asyncFirst ∨ (s'.th t).pc = .taCas .asyncFirst) → (s'.fut f).phase = .fresh)
      ∧ (((s'.th t).pc = .taLoad .pollTry ∨ (s'.th t).pc = .taCas .pollTry ∨ (s'.th t).pc = .boPark) →
          ((s'.fut f).phase = .startedNoNode ∨ (s'.fut f).phase = .startedNode))
      ∧ (futNodePc (s'.th t).pc = true → (s'.fut f).phase = .startedNode)
      ∧ (futUnlPc (s'.th t).pc = true → (s'.wl.node (.fut f)).linked = false) := by
  have a1 := hi.syncCur t; have a2 := hi.asyncCur t; have a5 := hi.ffOk t
  have b1 : ∀ f, (s.th t).cur = some f → futPc (s.th t).pc = true → (s.fut f).busy = true :=
    fun f hc hp => (hi.busy t f hc hp).1
  have b2 := hi.phFresh t; have b3 := hi.phStarted t; have b4 := hi.phNode t; have b5 := hi.futUnl t
  have b6 := hi.futWr t
  unfold opOn
  clear hi
  step_cases h
  all_goals (try norm_state)
  all_goals rg

theorem busy_step (hi : Inv s) (h : Step cfg s t l s') : PBusy s' := by
  have ho := step_th_other h
  have hloc := fut_local hi h
  have hfo := step_fut_other h (hi.syncCur t) (hi.asyncCur t)
  intro u f hc hp
  by_cases hu : u = t
  · subst hu
    obtain ⟨hb, horig, -⟩ := hloc f hc hp
    refine ⟨hb, ?_⟩
    intro v hvc hvp
    by_cases hv : v = u
    · exact hv
    · rw [ho v hv] at hvc hvp
      rcases horig with ⟨hoc, hop⟩ | ⟨hnb, -⟩
      · exact (hi.busy u f hoc hop).2 v hvc hvp
      · have := (hi.busy v f hvc hvp).1; rw [hnb] at this; cases this
  · rw [ho u hu] at hc hp
    obtain ⟨hb, huniq⟩ := hi.busy u f hc hp
    have hnt : ¬ opOn s t f := fun ⟨h1, h2⟩ => hu (huniq t h1 h2).symm
    refine ⟨by rw [(hfo f hb hnt).1]; exact hb, ?_⟩
    intro v hvc hvp
    by_cases hv : v = t
    · subst hv
      obtain ⟨-, horig, -⟩ := hloc f hvc hvp
      rcases horig with hop | ⟨hnb, -⟩
      · exact absurd hop hnt
      · rw [hnb] at hb; cases hb
    · rw [ho v hv] at hvc hvp; exact huniq v hvc hvp

theorem ph_step (hi : Inv s) (h : Step cfg s t l s') :
    PFutWr s' ∧ PPhFresh s' ∧ PPhStarted s' ∧ PPhNode s' ∧ PFutUnl s' := by
  have ho := step_th_other h
  have hloc := fut_local hi h
  have hfo := step_fut_other h (hi.syncCur t) (hi.asyncCur t)
  have other : ∀ u f, u ≠ t → (s.th u).cur = some f → futPc (s.th u).pc = true →
      s'.fut f = s.fut f ∧ ((s'.wl.node (.fut f)).linked = true → (s.wl.node (.fut f)).linked = true) := by
    intro u f hu hc hp
    obtain ⟨hb, huniq⟩ := hi.busy u f hc hp
    have := hfo f hb (fun ⟨h1, h2⟩ => hu (huniq t h1 h2).symm)
    exact ⟨this.1, this.2.1⟩
  refine ⟨?_, ?_, ?_, ?_, ?_⟩ <;> intro u f hc hp <;> by_cases hu : u = t
  · subst hu
    exact (hloc f hc hp).2.2.1
  · rw [ho u hu] at hc hp ⊢
    rw [(other u f hu hc hp).1]; exact hi.futWr u f hc hp
  · subst hu
    have hfp : futPc (s'.th u).pc = true := by rcases hp with hp | hp <;> rw [hp] <;> rfl
    exact (hloc f hc hfp).2.2.2.1 hp
  · rw [ho u hu] at hc hp
    have hfp : futPc (s.th u).pc = true := by rcases hp with hp | hp <;> rw [hp] <;> rfl
    rw [(other u f hu hc hfp).1]; exact hi.phFresh u f hc hp
  · subst hu
    have hfp : futPc (s'.th u).pc = true := by rcases hp with hp | hp | hp <;> rw [hp] <;> rfl
    exact (hloc f hc hfp).2.2.2.2.1 hp
  · rw [ho u hu] at hc hp
    have hfp : futPc (s.th u).pc = true := by rcases hp with hp | hp | hp <;> rw [hp] <;> rfl
    rw [(other u f hu hc hfp).1]; exact hi.phStarted u f hc hp
  · subst hu
    exact (hloc f hc (futNodePc_futPc hp)).2.2.2.2.2.1 hp
  · rw [ho u hu] at hc hp
    rw [(other u f hu hc (futNodePc_futPc hp)).1]; exact hi.phNode u f hc hp
  · subst hu
    exact (hloc f hc (futUnlPc_futPc hp)).2.2.2.2.2.2 hp
  · rw [ho u hu] at hc hp
    have hold := hi.futUnl u f hc hp
    cases hl : (s'.wl.node (.fut f)).linked
    · rfl
    · have := (other u f hu hc (futUnlPc_futPc hp)).2 hl
      rw [hold] at this; cases this

set_option maxHeartbeats 16000000 in
theorem futNode_step (hi : Inv s) (h : Step cfg s t l s') : PFutNode s' := by
  intro f
  have a1 := hi.syncCur t; have a2 := hi.asyncCur t; have a5 := hi.ffOk t
  have b4 := hi.phNode t; have b5 := hi.futUnl t; have b2 := hi.phFresh t; have b3 := hi.phStarted t
  have c := hi.futNode f
  clear hi
  step_cases h
  all_goals (try norm_state)
  all_goals (first | exact c | rg)

set_option maxHeartbeats 16000000 in
theorem futNodeWr_step (hi : Inv s) (h : Step cfg s t l s') : PFutNodeWr s' := by
  intro f
  have a1 := hi.syncCur t; have a2 := hi.asyncCur t; have a5 := hi.ffOk t
  have b4 := hi.phNode t; have b2 := hi.phFresh t; have b3 := hi.phStarted t; have b6 := hi.futWr t
  have c := hi.futNodeWr f
  clear hi
  step_cases h
  all_goals (try norm_state)
  all_goals (first | exact c | rg)

end Fv.Sync.RwLock
