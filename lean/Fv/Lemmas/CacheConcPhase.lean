import Fv.Lemmas.CacheConc
/-! Real-time well-formedness of the ghost history of the concurrent cache model: the events of
each thread form a sequence of operations `inv op · lin? · ret r` where the linearization event
matches the operation's kind, key and arguments, lies between the invocation and the response,
and determines the response. (Evictions performed by a thread inside `insert`'s cooperative
maintenance or inside a maintenance call are `forget` events of that thread.) -/
namespace Fv.Cache.Conc
set_option linter.unusedSimpArgs false

def tidOf : HEv → Nat
  | .inv t _ => t | .ret t _ => t | .rd t _ _ => t | .rdExp t _ => t | .wr t _ _ => t | .rm t _ _ => t
  | .upd t _ _ _ => t | .nf t _ => t | .oiIns t _ _ => t | .oiOcc t _ _ => t | .forget t _ _ => t
  | .clear t => t

inductive Ph where
  | idle
  | called (op : Op)
  | lin (op : Op) (r : Option Nat)
deriving DecidableEq, Repr

/-- `some r` iff `e` is a legal linearization event of `op`, with response `r` -/
def linRes : Op → HEv → Option (Option Nat)
  | .get k, .rd _ k' r => if k' = k then some r else none
  | .get k, .rdExp _ k' => if k' = k then some none else none
  | .peek k, .rd _ k' r => if k' = k then some r else none
  | .peek k, .rdExp _ k' => if k' = k then some none else none
  | .insert k v _ _, .wr _ k' v' => if k' = k ∧ v' = v then some none else none
  | .remove k, .rm _ k' r => if k' = k then some r else none
  | .compute k d, .upd _ k' _ d' => if k' = k ∧ d' = d then some (some 1) else none
  | .compute k _, .nf _ k' => if k' = k then some none else none
  | .tryCompute k d, .upd _ k' _ d' => if k' = k ∧ d' = d then some (some 1) else none
  | .tryCompute k _, .nf _ k' => if k' = k then some none else none
  | .orInsert k v _, .oiIns _ k' v' => if k' = k ∧ v' = v then some (some v) else none
  | .orInsert k _ _, .oiOcc _ k' v' => if k' = k then some (some v') else none
  | .clear, .clear _ => some none
  | _, _ => none

def phStep (p : Ph) (e : HEv) : Option Ph :=
  match e with
  | .inv _ op => (match p with | .idle => some (.called op) | _ => none)
  | .ret _ r =>
    (match p with
     | .lin _ r' => if r = r' then some .idle else none
     | .called (.maint _ _ _) => if r = none then some .idle else none
     | .called (.tryCompute _ _) => if r = some 0 then some .idle else none
     | _ => none)
  | .forget _ _ _ => (match p with | .idle => none | _ => some p)
  | e => (match p with | .called op => (linRes op e).map (.lin op) | _ => none)

def foldPh (p : Option Ph) (evs : List HEv) : Option Ph := evs.foldl (fun acc e => acc.bind (phStep · e)) p

/-- the phase of thread `t` after the history (`none`: its projection is ill-formed) -/
def phaseOf (t : Nat) (h : List HEv) : Option Ph :=
  h.foldl (fun acc e => if tidOf e = t then acc.bind (phStep · e) else acc) (some .idle)

def inMaint (m : MCtx) : Ph → Prop
  | .called (.maint sh _ f) => sh = m.sh ∧ f = m.full
  | .lin (.insert _ _ _ _) none => m.full = false
  | _ => False

/-- which phases are compatible with a program counter -/
def compat (p : Ph) : PC → Prop
  | .idle => p = .idle
  | .done _ => p = .idle
  | .rd k false => p = .called (.get k)
  | .rd k true => p = .called (.peek k)
  | .ins k v c _ _ => ∃ o, p = .called (.insert k v c o)
  | .insSub k c _ => ∃ v o, p = .lin (.insert k v c o) none
  | .insEv k c => ∃ v o, p = .lin (.insert k v c o) none
  | .insAdd k c => ∃ v o, p = .lin (.insert k v c o) none
  | .insMaint k => ∃ v c o, p = .lin (.insert k v c o) none
  | .rm k => p = .called (.remove k)
  | .rmPol k v _ _ => p = .lin (.remove k) (some v)
  | .rmSub k v _ _ => p = .lin (.remove k) (some v)
  | .rmNote k v _ => p = .lin (.remove k) (some v)
  | .cmp k d true => p = .called (.compute k d)
  | .cmp k d false => p = .called (.tryCompute k d)
  | .oi k v c => p = .called (.orInsert k v c)
  | .oiEv k v c => p = .lin (.orInsert k v c) (some v)
  | .oiAdd k v c => p = .lin (.orInsert k v c) (some v)
  | .clr _ _ => p = .called .clear
  | .mLock sh l f => p = .called (.maint sh l f)
  | .mDrain m _ _ => inMaint m p
  | .mAdmit m _ => inMaint m p
  | .mVictim m _ _ _ _ => inMaint m p
  | .mSub m _ _ _ => inMaint m p
  | .mNote m _ _ => inMaint m p
  | .mTtl m => inMaint m p
  | .mTtlMap m _ => inMaint m p
  | .mTti m => inMaint m p
  | .mCapLoad m => inMaint m p
  | .mCapEvict m _ => inMaint m p
  | .mCapMap m _ _ => inMaint m p
  | .mCapSub m _ => inMaint m p
  | .mUnlock m => inMaint m p

structure InvP (s : State) : Prop where
  wf : ∀ t, ∃ p, phaseOf t s.hist = some p ∧ compat p (s.pc t)

theorem invP_init : InvP init := ⟨fun _ => ⟨.idle, rfl, rfl⟩⟩

theorem phaseOf_append_self (t : Nat) (h evs : List HEv) (hev : ∀ e ∈ evs, tidOf e = t) :
    phaseOf t (h ++ evs) = foldPh (phaseOf t h) evs := by
  unfold phaseOf foldPh
  rw [List.foldl_append]
  generalize List.foldl _ (some Ph.idle) h = acc
  induction evs generalizing acc with
  | nil => rfl
  | cons e es ih =>
    simp only [List.foldl_cons]
    rw [if_pos (hev e (by simp))]
    exact ih (fun e' h' => hev e' (by simp [h'])) _

theorem phaseOf_append_other (t u : Nat) (h evs : List HEv) (hev : ∀ e ∈ evs, tidOf e = t) (hu : u ≠ t) :
    phaseOf u (h ++ evs) = phaseOf u h := by
  unfold phaseOf
  rw [List.foldl_append]
  generalize List.foldl _ (some Ph.idle) h = acc
  induction evs generalizing acc with
  | nil => rfl
  | cons e es ih =>
    simp only [List.foldl_cons]
    have : ¬ tidOf e = u := by rw [hev e (by simp)]; exact fun e => hu e.symm
    rw [if_neg this]
    exact ih (fun e' h' => hev e' (by simp [h'])) _

/-- thread `t` appends `evs` (all its own events) and moves to PC `x` -/
theorem invP_frame {s s' : State} (hi : InvP s) (t : Nat) (x : PC) (evs : List HEv)
    (hh : s'.hist = s.hist ++ evs) (hpc : s'.pc = upd s.pc t x) (hev : ∀ e ∈ evs, tidOf e = t)
    (hstep : ∀ p, compat p (s.pc t) → ∃ p', foldPh (some p) evs = some p' ∧ compat p' x) : InvP s' := by
  constructor
  intro u
  obtain ⟨p, hp, hc⟩ := hi.wf u
  by_cases hu : u = t
  · subst hu
    obtain ⟨p', h1, h2⟩ := hstep p hc
    refine ⟨p', ?_, ?_⟩
    · rw [hh, phaseOf_append_self u _ _ hev, hp]; exact h1
    · rw [hpc, upd_same]; exact h2
  · refine ⟨p, ?_, ?_⟩
    · rw [hh, phaseOf_append_other t u _ _ hev hu]; exact hp
    · rw [hpc, upd_other _ _ _ _ hu]; exact hc

theorem invP_nohist {s s' : State} (hi : InvP s) (t : Nat) (x : PC)
    (hh : s'.hist = s.hist) (hpc : s'.pc = upd s.pc t x)
    (hstep : ∀ p, compat p (s.pc t) → compat p x) : InvP s' :=
  invP_frame hi t x [] (by simp [hh]) hpc (by simp) (fun p hp => ⟨p, rfl, hstep p hp⟩)

theorem foldPh_forgets (t : Nat) (r : List (Nat × Entry)) (p : Ph) (hp : p ≠ .idle) :
    foldPh (some p) (forgetEvs t r) = some p := by
  unfold foldPh forgetEvs
  induction r with
  | nil => rfl
  | cons a r ih =>
    simp only [List.map_cons, List.foldl_cons, Option.bind_some]
    have : phStep p (HEv.forget t a.1 a.2.val) = some p := by
      cases p <;> simp_all [phStep]
    rw [this]; exact ih

theorem inMaint_ne_idle {m : MCtx} {p : Ph} (h : inMaint m p) : p ≠ .idle := by
  intro e; subst e; exact h

theorem compat_afterWrites {m : MCtx} {p : Ph} (h : inMaint m p) : compat p (afterWrites m) := by
  unfold afterWrites; split <;> exact h
theorem compat_nextAdmit {m : MCtx} {p : Ph} (ws) (h : inMaint m p) : compat p (nextAdmit m ws) := by
  unfold nextAdmit; split <;> first | exact compat_afterWrites h | exact h
theorem compat_startDrain {m : MCtx} {p : Ph} (l) (h : inMaint m p) : compat p (startDrain m l) := by
  unfold startDrain; split <;> first | exact compat_nextAdmit _ h | exact h
theorem compat_afterSub {m : MCtx} {p : Ph} (ws ns) (h : inMaint m p) : compat p (afterSub m ws ns) := by
  unfold afterSub; split <;> first | exact compat_nextAdmit _ h | exact h
theorem compat_afterVictim {m : MCtx} {p : Ph} (ws vs tot ns) (h : inMaint m p) : compat p (afterVictim m ws vs tot ns) := by
  unfold afterVictim; split <;> exact h


theorem forget_one (t k : Nat) (e : Entry) : [HEv.forget t k e.val] = forgetEvs t [(k, e)] := rfl

syntax "maint_compat " ident : tactic
macro_rules | `(tactic| maint_compat $hp) => `(tactic|
  first
  | exact $hp
  | exact compat_nextAdmit _ $hp
  | exact compat_afterSub _ _ $hp
  | exact compat_afterVictim _ _ _ _ $hp
  | exact compat_startDrain _ $hp
  | exact compat_afterWrites $hp)

syntax "invp_hstep" : tactic
macro_rules | `(tactic| invp_hstep) => `(tactic|
  (intro p hp
   simp_all only [compat]
   first
   | (simp [foldPh, phStep, linRes, compat, inMaint]
      done)
   | (obtain ⟨_, _, _, hq⟩ := hp
      subst hq
      simp [foldPh, phStep, linRes, compat, inMaint]
      done)
   | (obtain ⟨_, _, hq⟩ := hp
      subst hq
      simp [foldPh, phStep, linRes, compat, inMaint]
      done)
   | (obtain ⟨_, hq⟩ := hp
      subst hq
      simp [foldPh, phStep, linRes, compat, inMaint]
      done)
   | (subst hp
      simp [foldPh, phStep, linRes, compat, inMaint]
      done)
   | (refine ⟨p, ?_, ?_⟩
      · first | rfl | (rw [forget_one]; exact foldPh_forgets _ _ _ (inMaint_ne_idle hp))
      · maint_compat hp)))

syntax "invp_close " ident : tactic
macro_rules | `(tactic| invp_close $hi) => `(tactic|
  first
  | exact $hi
  | (refine invP_frame $hi _ _ _ rfl rfl ?_ ?_
     · intro e he; simp at he; rcases he with h1 | h1 <;> (subst h1; rfl)
     · invp_hstep)
  | (refine invP_frame $hi _ _ _ rfl rfl ?_ ?_
     · intro e he; simp at he; subst he; rfl
     · invp_hstep)
  | (refine invP_frame $hi _ _ [] (by simp) rfl (by simp) ?_
     invp_hstep))

syntax "invp_step " ident ident ident : tactic
macro_rules | `(tactic| invp_step $hi $h $f) => `(tactic|
  (unfold $f at $h:ident
   repeat' split at $h:ident
   all_goals (simp at $h:ident; try subst $h:ident)
   all_goals invp_close $hi))


theorem compat_startPC (c : Cfg) (n : Nat) (op : Op) : compat (.called op) (startPC c n op) := by
  cases op <;> simp [startPC, compat]

theorem invP_call {c : Cfg} {s s' : State} {t : Nat} {op : Op} {a : Bool} (hi : InvP s) (h : stepCall c s t op a = some s') : InvP s' := by
  unfold stepCall at h
  repeat' split at h
  all_goals (simp at h; try subst h)
  all_goals
    refine invP_frame hi _ _ _ rfl rfl (by intro e he; simp at he; subst he; rfl) ?_
    intro p hp
    simp_all only [compat]
    exact ⟨_, rfl, compat_startPC _ _ op⟩

theorem invP_coopLock {c : Cfg} {s s' : State} {t : Nat} (hi : InvP s) (h : stepCoopLock c s t = some s') : InvP s' := by
  unfold stepCoopLock at h
  repeat' split at h
  all_goals (simp at h; try subst h)
  refine invP_nohist hi _ _ rfl rfl ?_
  intro p hp
  simp_all only [compat]
  obtain ⟨v, c', o, hq⟩ := hp
  subst hq
  exact compat_startDrain _ (by simp [inMaint])

theorem invP_mLock {s s' : State} {t : Nat} (hi : InvP s) (h : stepMLock s t = some s') : InvP s' := by
  unfold stepMLock at h
  repeat' split at h
  all_goals (simp at h; try subst h)
  refine invP_nohist hi _ _ rfl rfl ?_
  intro p hp
  simp_all only [compat]
  exact compat_startDrain _ (by simp [inMaint])

theorem invP_unlock {s s' : State} {t : Nat} (hi : InvP s) (h : stepUnlock s t = some s') : InvP s' := by
  unfold stepUnlock at h
  repeat' split at h
  all_goals (simp at h; try subst h)
  refine invP_frame hi _ _ _ rfl rfl (by intro e he; simp at he; subst he; rfl) ?_
  intro p hp
  simp_all only [compat]
  cases p with
  | idle => exact absurd hp (by simp [inMaint])
  | called op => cases op <;> simp_all [inMaint, foldPh, phStep, compat]
  | lin op r =>
    cases op <;> cases r <;> simp_all [inMaint, foldPh, phStep, compat]

theorem invP_ttlMap {c : Cfg} {s s' : State} {t : Nat} {sent : Bool} (hi : InvP s)
    (h : stepTtlMap c s t sent = some s') : InvP s' := by
  unfold stepTtlMap at h
  split at h
  · simp at h; subst h
    refine invP_frame hi _ _ _ rfl rfl (by intro e he; simp [forgetEvs] at he; obtain ⟨_, _, _, rfl⟩ := he; rfl) ?_
    intro p hp
    simp_all only [compat]
    exact ⟨p, foldPh_forgets _ _ _ (inMaint_ne_idle hp), hp⟩
  · simp at h

theorem invP_ttiMap {c : Cfg} {s s' : State} {t : Nat} {vs : List Nat} {sent : Bool} (hi : InvP s)
    (h : stepTtiMap c s t vs sent = some s') : InvP s' := by
  unfold stepTtiMap at h
  split at h
  · split at h
    · simp at h; subst h
      refine invP_nohist hi _ _ rfl rfl ?_
      intro p hp
      simp_all only [compat]
    · simp at h; subst h
      refine invP_frame hi _ _ _ rfl rfl (by intro e he; simp [forgetEvs] at he; obtain ⟨_, _, _, rfl⟩ := he; rfl) ?_
      intro p hp
      simp_all only [compat]
      exact ⟨p, foldPh_forgets _ _ _ (inMaint_ne_idle hp), hp⟩
  · simp at h

theorem invP_read {c : Cfg} {s s' : State} {t : Nat} (hi : InvP s) (h : stepRead c s t = some s') : InvP s' := by
  unfold stepRead at h
  split at h
  · rename_i k peek hpc
    cases peek
    all_goals
      repeat' split at h
      all_goals (simp at h; try subst h)
      all_goals invp_close hi
  · simp at h

theorem invP_capMap {c : Cfg} {s s' : State} {t : Nat} {sent : Bool} (hi : InvP s)
    (h : stepCapMap c s t sent = some s') : InvP s' := by
  unfold stepCapMap at h
  split at h
  · simp at h; subst h
    refine invP_frame hi _ _ _ rfl rfl (by intro e he; simp [forgetEvs] at he; obtain ⟨_, _, _, rfl⟩ := he; rfl) ?_
    intro p hp
    simp_all only [compat]
    exact ⟨p, foldPh_forgets _ _ _ (inMaint_ne_idle hp), hp⟩
  · simp at h

theorem invP_compute {s s' : State} {t : Nat} {fail : Bool} (hi : InvP s) (h : stepCompute s t fail = some s') : InvP s' := by
  unfold stepCompute at h
  split at h
  · rename_i k d loop hpc
    cases loop
    all_goals
      repeat' split at h
      all_goals (simp at h; try subst h)
      all_goals invp_close hi
  · simp at h

theorem invP_step {c : Cfg} {s s' : State} {t : Nat} {l : Label} (hi : InvP s) (h : step c s t l = some s') :
    InvP s' := by
  replace h := step_step0 h
  cases l <;> simp only [step0] at h
  case call op a => exact invP_call hi h
  case advance d => simp at h; subst h; exact ⟨hi.wf⟩
  case read => exact invP_read hi h
  case insMap => invp_step hi h stepInsMap
  case insSub => invp_step hi h stepInsSub
  case insEv => invp_step hi h stepInsEv
  case insAdd => invp_step hi h stepInsAdd
  case coopSkip => invp_step hi h stepCoopSkip
  case coopLock => exact invP_coopLock hi h
  case rmMap => invp_step hi h stepRmMap
  case rmPol => invp_step hi h stepRmPol
  case rmSub => invp_step hi h stepRmSub
  case rmNote sent => invp_step hi h stepRmNote
  case compute fail => exact invP_compute hi h
  case oiMap => invp_step hi h stepOiMap
  case oiEv => invp_step hi h stepOiEv
  case oiAdd => invp_step hi h stepOiAdd
  case clear => invp_step hi h stepClear
  case clrAcq i => invp_step hi h stepClrAcq
  case clrGet i => invp_step hi h stepClrGet
  case mLock => exact invP_mLock hi h
  case recv => invp_step hi h stepRecv
  case admit d => invp_step hi h stepAdmit
  case victim => invp_step hi h stepVictim
  case evSub => invp_step hi h stepEvSub
  case evNote sent => invp_step hi h stepEvNote
  case ttlAdvance e => invp_step hi h stepTtlAdvance
  case ttlMap sent => exact invP_ttlMap hi h
  case ttiMap vs sent => exact invP_ttiMap hi h
  case capLoad => invp_step hi h stepCapLoad
  case capEvict v r => invp_step hi h stepCapEvict
  case capMap sent => exact invP_capMap hi h
  case capSub => invp_step hi h stepCapSub
  case unlock => exact invP_unlock hi h

theorem invP_reach {c : Cfg} {s : State} (h : Reach c s) : InvP s := by
  induction h with
  | init => exact invP_init
  | step _ hs ih => exact invP_step ih hs

end Fv.Cache.Conc
