import Fv.Chan.SpscB
/-! Ring-safety invariant of the step-level SPSC model (helper lemmas for `Fv.Props.SpscB`). -/
namespace Fv.Chan.SpscB

/-- Key arithmetic fact of the masked ring: two indices less than one lap apart never share a slot. -/
theorem mod_ne_of_lt {a b m : Nat} (h1 : a < b) (h2 : b - a < m) : a % m ≠ b % m := by
  intro h
  have h3 : (b - a) % m = 0 := Nat.sub_mod_eq_zero_of_mod_eq h.symm
  rw [Nat.mod_eq_of_lt h2] at h3
  omega

theorem pow2ge_ge (fuel : Nat) : ∀ n, n ≤ fuel → n ≤ pow2ge n fuel := by
  induction fuel with
  | zero => intro n h; simp [pow2ge]; omega
  | succ f ih =>
    intro n h
    simp only [pow2ge]
    split
    · omega
    · have := ih ((n + 1) / 2) (by omega)
      omega

theorem cap_le_physOf (cap : Nat) : cap ≤ physOf cap := by
  have := pow2ge_ge cap cap (Nat.le_refl _)
  simp only [physOf]; omega

@[simp] theorem upd_same {α} (f : Role → α) (r : Role) (a : α) : upd f r a r = a := by simp [upd]
theorem upd_apply {α} (f : Role → α) (r q : Role) (a : α) : upd f r a q = if q = r then a else f q := rfl
theorem updN_apply {α} (f : Nat → α) (i j : Nat) (a : α) : updN f i a j = if j = i then a else f j := rfl

theorem window_succ (sl : Nat → Option Nat) (phys lo n : Nat) :
    window sl phys lo (n + 1) = sl (lo % phys) :: window sl phys (lo + 1) n := rfl

theorem window_snoc (sl : Nat → Option Nat) (phys : Nat) : ∀ n lo,
    window sl phys lo (n + 1) = window sl phys lo n ++ [sl ((lo + n) % phys)] := by
  intro n
  induction n with
  | zero => intro lo; simp [window]
  | succ n ih =>
    intro lo
    rw [window_succ, ih (lo + 1), window_succ]
    simp [Nat.add_assoc, Nat.add_comm 1 n]

theorem window_updN_outside (sl : Nat → Option Nat) (phys i : Nat) (x : Option Nat) : ∀ n lo,
    (∀ k, k < n → (lo + k) % phys ≠ i) → window (updN sl i x) phys lo n = window sl phys lo n := by
  intro n
  induction n with
  | zero => intro lo _; rfl
  | succ n ih =>
    intro lo h
    rw [window_succ, window_succ, ih (lo + 1)]
    · have := h 0 (by omega)
      simp [updN_apply] at this ⊢
      simp [this]
    · intro k hk
      have := h (k + 1) (by omega)
      rwa [Nat.add_assoc, Nat.add_comm 1 k]

theorem window_length (sl : Nat → Option Nat) (phys : Nat) : ∀ n lo, (window sl phys lo n).length = n := by
  intro n; induction n with
  | zero => intro lo; rfl
  | succ n ih => intro lo; simp [window, ih]

/-- writing the slot at `tail` does not disturb the published window `[head, tail)` -/
theorem window_write_tail {sl : Nat → Option Nat} {phys head tail : Nat} (x : Option Nat)
    (h1 : head ≤ tail) (h2 : tail - head < phys) :
    window (updN sl (tail % phys) x) phys head (tail - head) = window sl phys head (tail - head) := by
  apply window_updN_outside
  intro k hk
  exact mod_ne_of_lt (by omega) (by omega)

/-- clearing the slot at `head` does not disturb `[head+1, tail)` -/
theorem window_clear_head {sl : Nat → Option Nat} {phys head tail : Nat} (x : Option Nat)
    (h1 : head < tail) (h2 : tail - head ≤ phys) :
    window (updN sl (head % phys) x) phys (head + 1) (tail - (head + 1)) = window sl phys (head + 1) (tail - (head + 1)) := by
  apply window_updN_outside
  intro k hk
  exact (mod_ne_of_lt (by omega) (by omega)).symm

@[simp, grind =] theorem other_other (r : Role) : other (other r) = r := by cases r <;> rfl
@[simp, grind =] theorem other_P : other .P = .C := rfl
@[simp, grind =] theorem other_C : other .C = .P := rfl

/-- publishing one more slot extends the window at its end -/
theorem window_publish (sl : Nat → Option Nat) (phys : Nat) {head tail : Nat} (h : head ≤ tail) :
    window sl phys head (tail + 1 - head) = window sl phys head (tail - head) ++ [sl (tail % phys)] := by
  have e : tail + 1 - head = (tail - head) + 1 := by omega
  rw [e, window_snoc]
  have e2 : head + (tail - head) = tail := by omega
  rw [e2]

/-- consuming the oldest slot: the window loses its first element -/
theorem window_consume (sl : Nat → Option Nat) (phys : Nat) {head tail : Nat} (h1 : head < tail) (h2 : tail - head ≤ phys) :
    window sl phys head (tail - head) =
      sl (head % phys) :: window (updN sl (head % phys) none) phys (head + 1) (tail - (head + 1)) := by
  have e : tail - head = (tail - (head + 1)) + 1 := by omega
  rw [e, window_succ, window_clear_head none h1 h2]

/-- every slot of the published window holds a value -/
theorem window_head_some {A B : List Nat} {sl : Nat → Option Nat} {phys head n : Nat}
    (h : A.map some = B.map some ++ window sl phys head n) (hn : 0 < n) : ∃ v, sl (head % phys) = some v := by
  obtain ⟨m, rfl⟩ : ∃ m, n = m + 1 := ⟨n - 1, by omega⟩
  rw [window_succ] at h
  have : sl (head % phys) ∈ A.map some := by rw [h]; simp
  obtain ⟨v, _, hv⟩ := List.mem_map.mp this
  exact ⟨v, hv.symm⟩

def isPush : Mic → Bool
  | .pushLdTail | .pushLdHead | .pushStTail => true
  | _ => false

def isPop : Mic → Bool
  | .popLdHead | .popLdTail | .popStHead => true
  | _ => false

def isRet : Mic → Bool
  | .ret _ => true
  | _ => false

/-! ### control invariant: which call sites can be at which micro position -/

def inNotify (k : K) : Prop :=
  k = .sA ∨ k = .sOk ∨ k = .tS ∨ k = .rA ∨ k = .rOk ∨ k = .tR ∨ k = .tR2 ∨ k = .toA ∨ k = .toL ∨ k = .toL2

/-- `okAt k m`: call site `k` can be at micro position `m`. -/
def okAt (k : K) : Mic → Prop
  | .idle => k = .idle
  | .pushLdTail | .pushLdHead | .pushStTail => k = .sA ∨ k = .sL ∨ k = .tS
  | .popLdHead | .popLdTail | .popStHead =>
      k = .rA ∨ k = .rL ∨ k = .rL2 ∨ k = .tR ∨ k = .tR2 ∨ k = .toA ∨ k = .toL ∨ k = .toL2 ∨ k = .drn
  | .nfFence | .nfLdGate => inNotify k
  | .wkLock | .wkStGate _ | .wkStFlag | .wkUnlock _ | .wkUnpark => inNotify k ∨ k = .cl ∨ k = .dr
  | .rgLock | .rgStGate | .rgUnlock | .rgFence => k = .sL ∨ k = .rL
  | .urLock | .urStGate | .urUnlock => k = .sOk ∨ k = .sClosed ∨ k = .rOk ∨ k = .rDisc ∨ k = .rTo
  | .park | .swapFlag | .spin => k = .sL ∨ k = .rL
  | .ldClosed => k = .sA ∨ k = .tS ∨ k = .rA ∨ k = .tR ∨ k = .toA
  | .ldDropped => k = .sA ∨ k = .sL ∨ k = .tS
  | .ldCount => k = .rL ∨ k = .tR ∨ k = .toL
  | .casClosed => k = .cl
  | .swapClosed => k = .dr
  | .stDropped | .subCount => k = .cl ∨ k = .dr
  | .lenLdHead | .lenLdTail => k = .pr
  | .ret _ => k ≠ .idle

/-- the role a call site belongs to (`none`: either) -/
def kSide : K → Option Role
  | .sA | .sL | .sOk | .sClosed | .tS => some .P
  | .rA | .rL | .rL2 | .rOk | .rDisc | .rTo | .tR | .tR2 | .toA | .toL | .toL2 => some .C
  | _ => none

structure CInv (s : State) : Prop where
  ok : ∀ r, okAt (s.loc r).k (s.loc r).m
  side : ∀ r q, kSide (s.loc r).k = some q → q = r
  goneQuiet : ∀ r, s.gone r = true → (s.loc r).k = .drn ∨ (s.loc r).m = .idle ∨ isRet (s.loc r).m = true
  drnOther : ∀ r, (s.loc r).k = .drn → s.gone r = true ∧ s.gone (other r) = true ∧ (s.loc (other r)).k ≠ .drn
  drained : s.drained ≠ [] → s.gone .P = true ∧ s.gone .C = true

theorem cinv_init (cap : Nat) (pp pc : List Op) : CInv (init cap pp pc) := by
  constructor <;> simp [init, okAt, kSide]

/-! ### ring invariant -/

/-- micro positions the ring invariant says something about -/
def constrained : Mic → Bool
  | .pushLdHead | .pushStTail | .popLdTail | .popStHead => true
  | _ => false

structure RInv (s : State) : Prop where
  capPos : 0 < s.cap
  capPhys : s.cap ≤ s.phys
  ht : s.head ≤ s.tail
  occ : s.tail - s.head ≤ s.cap
  ch : s.cachedHead ≤ s.head
  ct1 : s.head ≤ s.cachedTail
  ct2 : s.cachedTail ≤ s.tail
  seq : s.pushed.map some = (s.popped ++ s.drained).map some ++ window s.slots s.phys s.head (s.tail - s.head)
  pushLh : ∀ r, (s.loc r).m = .pushLdHead → (s.loc r).t = s.tail
  pushSt : ∀ r, (s.loc r).m = .pushStTail →
      (s.loc r).t = s.tail ∧ s.tail - s.head < s.cap ∧ s.slots (s.tail % s.phys) = some (s.loc r).v
  popLt : ∀ r, (s.loc r).m = .popLdTail → (s.loc r).h = s.head
  popSt : ∀ r, (s.loc r).m = .popStHead →
      (s.loc r).h = s.head ∧ s.head < s.cachedTail ∧ s.slots (s.head % s.phys) = some (s.loc r).v

theorem rinv_init (cap : Nat) (pp pc : List Op) (h : 0 < cap) : RInv (init cap pp pc) := by
  constructor <;> simp [init, window, cap_le_physOf, h]

/-- the ring part of the state -/
def ringOf (s : State) :=
  (s.cap, s.phys, s.tail, s.head, s.cachedHead, s.cachedTail, s.slots, s.pushed, s.popped, s.drained)

/-- **Frame rule**: a step that leaves the ring fields alone and does not move any thread into (or
change the locals of a thread at) a constrained micro position preserves the ring invariant. -/
theorem rinv_frame {s s' : State} (hi : RInv s) (hr : ringOf s' = ringOf s)
    (hl : ∀ q, constrained (s'.loc q).m = true → s'.loc q = s.loc q) : RInv s' := by
  obtain ⟨h1, h2, h3, h4, h5, h6, h7, h8, h9, h10, h11, h12⟩ := hi
  simp only [ringOf, Prod.mk.injEq] at hr
  obtain ⟨e1, e2, e3, e4, e5, e6, e7, e8, e9, e10⟩ := hr
  refine ⟨?_, ?_, ?_, ?_, ?_, ?_, ?_, ?_, ?_, ?_, ?_, ?_⟩
  all_goals (try simp only [e1, e2, e3, e4, e5, e6, e7, e8, e9, e10])
  all_goals (first | assumption | skip)
  · intro r hm; have := hl r (by simp [hm, constrained]); rw [this] at hm ⊢; exact h9 r hm
  · intro r hm; have := hl r (by simp [hm, constrained]); rw [this] at hm ⊢; exact h10 r hm
  · intro r hm; have := hl r (by simp [hm, constrained]); rw [this] at hm ⊢; exact h11 r hm
  · intro r hm; have := hl r (by simp [hm, constrained]); rw [this] at hm ⊢; exact h12 r hm

theorem push_P {s : State} (hc : CInv s) {r : Role} (h : isPush (s.loc r).m = true) : r = .P := by
  have h1 := hc.ok r
  have h2 := hc.side r
  cases hm : (s.loc r).m <;> simp [hm, isPush, okAt] at h h1
  all_goals (rcases h1 with h1 | h1 | h1 <;> (have := h2 .P (by simp [h1, kSide]); exact this.symm))

theorem pop_C {s : State} (hc : CInv s) {r : Role} (h : isPop (s.loc r).m = true) (hk : (s.loc r).k ≠ .drn) : r = .C := by
  have h1 := hc.ok r
  have h2 := hc.side r
  cases hm : (s.loc r).m <;> simp [hm, isPop, okAt] at h h1
  all_goals (rcases h1 with h1 | h1 | h1 | h1 | h1 | h1 | h1 | h1 | h1 <;>
    first | exact absurd h1 hk | (have := h2 .C (by simp [h1, kSide]); exact this.symm))

theorem not_pop_of_gone {s : State} (hc : CInv s) {q : Role} (hg : s.gone q = true) (hk : (s.loc q).k ≠ .drn) :
    isPop (s.loc q).m = false := by
  rcases hc.goneQuiet q hg with h | h | h
  · exact absurd h hk
  · simp [h, isPop]
  · cases hm : (s.loc q).m <;> simp_all [isPop, isRet]

theorem eq_other_of_ne {r q : Role} (h : r ≠ q) : q = other r := by
  cases r <;> cases q <;> simp_all [other]

theorem pop_unique {s : State} (hc : CInv s) {r q : Role} (h1 : isPop (s.loc r).m = true) (h2 : isPop (s.loc q).m = true) : r = q := by
  apply Classical.byContradiction
  intro hne
  by_cases hr : (s.loc r).k = .drn
  · have ⟨_, g2, g3⟩ := hc.drnOther r hr
    have e := eq_other_of_ne hne
    subst e
    have := not_pop_of_gone hc g2 g3
    simp [this] at h2
  · by_cases hq : (s.loc q).k = .drn
    · have ⟨_, g2, g3⟩ := hc.drnOther q hq
      have e := eq_other_of_ne (Ne.symm hne)
      subst e
      have := not_pop_of_gone hc g2 g3
      simp [this] at h1
    · exact hne (by rw [pop_C hc h1 hr, pop_C hc h2 hq])

/-- nothing has been drained while a thread is inside a normal (non-drain) pop -/
theorem drained_nil_of_pop {s : State} (hc : CInv s) {r : Role} (h : isPop (s.loc r).m = true) (hk : (s.loc r).k ≠ .drn) :
    s.drained = [] := by
  apply Classical.byContradiction
  intro hd
  have ⟨g1, g2⟩ := hc.drained hd
  have hr := pop_C hc h hk
  subst hr
  have := hc.goneQuiet .C g2
  rcases this with h' | h' | h'
  · exact hk h'
  · simp [h', isPop] at h
  · cases hm : (s.loc Role.C).m <;> simp_all [isPop, isRet]

end Fv.Chan.SpscB
