import Fv.Log.Roller
/-! C20 helper lemmas: the calendar (`civilOfDays`, `stampOfSecs`) is valid and strictly monotone. -/
namespace Fv.Log.Roller

/-! ### lexicographic order on stamps -/

theorem ltNats_irrefl (a : List Nat) : ltNats a a = false := by
  induction a with
  | nil => rfl
  | cons x xs ih => simp [ltNats, ih]

theorem ltNats_trans {a b c : List Nat} (hab : ltNats a b = true) (hbc : ltNats b c = true) : ltNats a c = true := by
  induction a generalizing b c with
  | nil =>
    cases b with
    | nil => simp [ltNats] at hab
    | cons y ys =>
      cases c with
      | nil => simp [ltNats] at hbc
      | cons z zs => simp [ltNats]
  | cons x xs ih =>
    cases b with
    | nil => simp [ltNats] at hab
    | cons y ys =>
      cases c with
      | nil => simp [ltNats] at hbc
      | cons z zs =>
        simp only [ltNats] at hab hbc ⊢
        by_cases h1 : x < y
        · by_cases h2 : y < z
          · have : x < z := by omega
            simp [this]
          · simp only [h2, if_false] at hbc
            by_cases h3 : z < y
            · simp [h3] at hbc
            · have : y = z := by omega
              subst this; simp [h1]
        · simp only [h1, if_false] at hab
          by_cases h1' : y < x
          · simp [h1'] at hab
          · have hxy : x = y := by omega
            subst hxy
            simp only [h1', if_false] at hab
            by_cases h2 : x < z
            · simp [h2]
            · simp only [h2, if_false] at hbc ⊢
              by_cases h3 : z < x
              · simp [h3] at hbc
              · simp only [h3, if_false] at hbc ⊢
                exact ih hab hbc

theorem ltNats_total {a b : List Nat} (hl : a.length = b.length) (h1 : ltNats a b = false) (h2 : ltNats b a = false) : a = b := by
  induction a generalizing b with
  | nil => cases b with
    | nil => rfl
    | cons y ys => simp at hl
  | cons x xs ih =>
    cases b with
    | nil => simp at hl
    | cons y ys =>
      simp only [ltNats] at h1 h2
      by_cases hxy : x < y
      · simp [hxy] at h1
      · by_cases hyx : y < x
        · simp [hyx] at h2
        · have : x = y := by omega
          subst this
          simp only [hxy, if_false] at h1 h2
          simp only [List.length_cons, Nat.add_right_cancel_iff] at hl
          rw [ih hl h1 h2]

theorem ltNats_asymm {a b : List Nat} (h : ltNats a b = true) : ltNats b a = false := by
  cases hb : ltNats b a with
  | false => rfl
  | true => have := ltNats_trans h hb; rw [ltNats_irrefl] at this; cases this

theorem Stamp.key_inj {a b : Stamp} (h : a.key = b.key) : a = b := by
  cases a; cases b
  simp only [Stamp.key, List.cons.injEq, and_true] at h
  obtain ⟨h1, h2, h3, h4, h5, h6⟩ := h
  subst h1 h2 h3 h4 h5 h6; rfl

theorem Stamp.lt_irrefl (a : Stamp) : a.lt a = false := ltNats_irrefl _
theorem Stamp.lt_trans {a b c : Stamp} (h1 : a.lt b = true) (h2 : b.lt c = true) : a.lt c = true := ltNats_trans h1 h2
theorem Stamp.lt_asymm {a b : Stamp} (h : a.lt b = true) : b.lt a = false := ltNats_asymm h
theorem Stamp.eq_of_not_lt {a b : Stamp} (h1 : a.lt b = false) (h2 : b.lt a = false) : a = b :=
  Stamp.key_inj (ltNats_total (by simp [Stamp.key]) h1 h2)

/-! ### years -/

theorem yearLen_pos (y : Nat) : 365 ≤ yearLen y ∧ yearLen y ≤ 366 := by
  unfold yearLen; split <;> omega

theorem splitYear_fuel (f f' y n : Nat) (h : n ≤ f) (h' : n ≤ f') : splitYear f y n = splitYear f' y n := by
  induction f generalizing f' y n with
  | zero =>
    have : n = 0 := by omega
    subst this
    cases f' with
    | zero => rfl
    | succ f' => have := yearLen_pos y; simp [splitYear]; omega
  | succ f ih =>
    cases f' with
    | zero =>
      have : n = 0 := by omega
      subst this
      have := yearLen_pos y; simp [splitYear]; omega
    | succ f' =>
      simp only [splitYear]
      split
      · rfl
      · have := yearLen_pos y
        exact ih f' (y + 1) (n - yearLen y) (by omega) (by omega)

theorem splitYear_spec (f y n : Nat) (h : n ≤ f) :
    y ≤ (splitYear f y n).1 ∧ (splitYear f y n).2 < yearLen (splitYear f y n).1 ∧ (splitYear f y n).1 ≤ y + n / 365 := by
  induction f generalizing y n with
  | zero =>
    have : n = 0 := by omega
    subst this
    have := yearLen_pos y
    simp [splitYear]; omega
  | succ f ih =>
    simp only [splitYear]
    split
    · refine ⟨Nat.le_refl _, by assumption, by omega⟩
    · have hy := yearLen_pos y
      obtain ⟨h1, h2, h3⟩ := ih (y + 1) (n - yearLen y) (by omega)
      refine ⟨by omega, h2, ?_⟩
      have : (n - yearLen y) / 365 + 1 ≤ n / 365 := by omega
      omega

/-- lexicographic order on pairs -/
def ltPair (a b : Nat × Nat) : Prop := a.1 < b.1 ∨ (a.1 = b.1 ∧ a.2 < b.2)

theorem splitYear_ge (f y n : Nat) : y ≤ (splitYear f y n).1 := by
  induction f generalizing y n with
  | zero => simp [splitYear]
  | succ f ih =>
    simp only [splitYear]
    split
    · exact Nat.le_refl _
    · have := ih (y + 1) (n - yearLen y); omega

theorem splitYear_mono (f y n n' : Nat) (h : n < n') : ltPair (splitYear f y n) (splitYear f y n') := by
  induction f generalizing y n n' with
  | zero => simp [splitYear, ltPair, h]
  | succ f ih =>
    simp only [splitYear]
    by_cases h1 : n < yearLen y
    · simp only [h1, if_true]
      by_cases h2 : n' < yearLen y
      · simp [h2, ltPair, h]
      · simp only [h2, if_false]
        have := splitYear_ge f (y + 1) (n' - yearLen y)
        left; show y < _; omega
    · have h2 : ¬ n' < yearLen y := by omega
      simp only [h1, h2, if_false]
      exact ih (y + 1) _ _ (by omega)

/-! ### months -/

theorem daysInMonth_pos (y m : Nat) : 28 ≤ daysInMonth y m ∧ daysInMonth y m ≤ 31 := by
  unfold daysInMonth; repeat' split
  all_goals omega

theorem splitMonth_ge (f y m n : Nat) : m ≤ (splitMonth f y m n).1 := by
  induction f generalizing m n with
  | zero => simp [splitMonth]
  | succ f ih =>
    simp only [splitMonth]
    split
    · exact Nat.le_refl _
    · have := ih (m + 1) (n - daysInMonth y m); omega

theorem splitMonth_mono (f y m n n' : Nat) (h : n < n') : ltPair (splitMonth f y m n) (splitMonth f y m n') := by
  induction f generalizing m n n' with
  | zero => simp [splitMonth, ltPair, h]
  | succ f ih =>
    simp only [splitMonth]
    by_cases h1 : n < daysInMonth y m
    · simp only [h1, if_true]
      by_cases h2 : n' < daysInMonth y m
      · simp [h2, ltPair, h]
      · simp only [h2, if_false]
        have := splitMonth_ge f y (m + 1) (n' - daysInMonth y m)
        left; show m < _; omega
    · have h2 : ¬ n' < daysInMonth y m := by omega
      simp only [h1, h2, if_false]
      exact ih (m + 1) _ _ (by omega)

/-- days in the `k` months starting with month `m` -/
def restDays (y m : Nat) : Nat → Nat
  | 0 => 0
  | k + 1 => daysInMonth y m + restDays y (m + 1) k

theorem splitMonth_spec (f y m n : Nat) (h : n < restDays y m (f + 1)) :
    m ≤ (splitMonth f y m n).1 ∧ (splitMonth f y m n).1 ≤ m + f ∧
      (splitMonth f y m n).2 < daysInMonth y (splitMonth f y m n).1 := by
  induction f generalizing m n with
  | zero =>
    simp only [restDays, Nat.add_zero] at h
    simp only [splitMonth]
    exact ⟨Nat.le_refl _, Nat.le_refl _, h⟩
  | succ f ih =>
    simp only [splitMonth]
    split
    · rename_i hlt
      exact ⟨Nat.le_refl _, by omega, hlt⟩
    · rename_i hge
      have h' : n - daysInMonth y m < restDays y (m + 1) (f + 1) := by
        rw [restDays] at h; omega
      obtain ⟨h1, h2, h3⟩ := ih (m + 1) _ h'
      exact ⟨by omega, by omega, h3⟩

theorem restDays_year (y : Nat) : restDays y 1 12 = yearLen y := by
  simp only [restDays, daysInMonth, yearLen]
  by_cases hl : isLeap y = true
  · simp (decide := true) [hl]
  · simp (decide := true) [hl]

/-- within a year: month in 1..12 and day inside the month -/
theorem splitMonth_valid (y doy : Nat) (h : doy < yearLen y) :
    1 ≤ (splitMonth 11 y 1 doy).1 ∧ (splitMonth 11 y 1 doy).1 ≤ 12 ∧
      (splitMonth 11 y 1 doy).2 < daysInMonth y (splitMonth 11 y 1 doy).1 := by
  have := splitMonth_spec 11 y 1 doy (by rw [restDays_year]; exact h)
  omega

/-! ### civil dates and stamps -/

theorem civilOfDays_valid (n : Nat) :
    validDate (civilOfDays n).1 (civilOfDays n).2.1 (civilOfDays n).2.2 = true ∧
      1970 ≤ (civilOfDays n).1 ∧ (civilOfDays n).1 ≤ 1970 + n / 365 := by
  obtain ⟨h1, h2, h3⟩ := splitYear_spec n 1970 n (Nat.le_refl _)
  obtain ⟨m1, m2, m3⟩ := splitMonth_valid _ _ h2
  refine ⟨?_, h1, h3⟩
  simp only [civilOfDays, validDate, Bool.and_eq_true]
  exact ⟨⟨⟨decide_eq_true m1, decide_eq_true m2⟩, decide_eq_true (by omega)⟩, decide_eq_true (by omega)⟩

def ltTriple (a b : Nat × Nat × Nat) : Prop :=
  a.1 < b.1 ∨ (a.1 = b.1 ∧ (a.2.1 < b.2.1 ∨ (a.2.1 = b.2.1 ∧ a.2.2 < b.2.2)))

theorem civilOfDays_mono (n n' : Nat) (h : n < n') : ltTriple (civilOfDays n) (civilOfDays n') := by
  have hf : splitYear n 1970 n = splitYear n' 1970 n := splitYear_fuel _ _ _ _ (Nat.le_refl _) (by omega)
  have hm := splitYear_mono n' 1970 n n' h
  rw [← hf] at hm
  simp only [civilOfDays, ltTriple]
  rcases hm with hm | ⟨he, hm⟩
  · exact Or.inl hm
  · refine Or.inr ⟨he, ?_⟩
    rw [he]
    rcases splitMonth_mono 11 (splitYear n' 1970 n').1 1 _ _ hm with h | ⟨h1, h2⟩
    · exact Or.inl h
    · exact Or.inr ⟨h1, by omega⟩

theorem ltNats_of_ltTriple {a b : Nat × Nat × Nat} (h : ltTriple a b) (ra rb : List Nat) :
    ltNats (a.1 :: a.2.1 :: a.2.2 :: ra) (b.1 :: b.2.1 :: b.2.2 :: rb) = true := by
  rcases h with h | ⟨h1, h | ⟨h2, h3⟩⟩
  · simp [ltNats, h]
  · simp [ltNats, h1, h]
  · simp [ltNats, h1, h2, h3]

theorem stampOfSecs_mono (t t' : Nat) (h : t < t') : (stampOfSecs t).lt (stampOfSecs t') = true := by
  simp only [Stamp.lt, Stamp.key, stampOfSecs]
  by_cases hd : t / 86400 < t' / 86400
  · exact ltNats_of_ltTriple (civilOfDays_mono _ _ hd) _ _
  · have hd' : t / 86400 = t' / 86400 := by omega
    rw [hd']
    have hs : t % 86400 < t' % 86400 := by omega
    have : t % 86400 < 86400 := Nat.mod_lt _ (by decide)
    have : t' % 86400 < 86400 := Nat.mod_lt _ (by decide)
    generalize t % 86400 = s at *
    generalize t' % 86400 = s' at *
    simp only [ltNats, Nat.lt_irrefl, if_false]
    by_cases h1 : s / 3600 < s' / 3600
    · simp [h1]
    · have h1' : ¬ s' / 3600 < s / 3600 := by omega
      simp only [h1, h1', if_false]
      by_cases h2 : s % 3600 / 60 < s' % 3600 / 60
      · simp [h2]
      · have h2' : ¬ s' % 3600 / 60 < s % 3600 / 60 := by omega
        simp only [h2, h2', if_false]
        have : s % 60 < s' % 60 := by omega
        simp [this]

theorem stampOfSecs_inj {t t' : Nat} (h : stampOfSecs t = stampOfSecs t') : t = t' := by
  rcases Nat.lt_trichotomy t t' with hlt | heq | hgt
  · have := stampOfSecs_mono _ _ hlt; rw [h, Stamp.lt_irrefl] at this; cases this
  · exact heq
  · have := stampOfSecs_mono _ _ hgt; rw [h, Stamp.lt_irrefl] at this; cases this

/-- a stamp that `parse_datetime_from_str` accepts and `format_period` prints with four year digits -/
def Stamp.Valid (s : Stamp) : Prop :=
  validDate s.y s.m s.d = true ∧ s.hh < 24 ∧ s.mm < 60 ∧ s.ss < 60 ∧ s.y < 10000

/-- the clock bound used throughout: before 9994-09 (so that years have four digits) -/
def tMax : Nat := 2930950 * 86400

theorem stampOfSecs_valid (t : Nat) (h : t < tMax) : (stampOfSecs t).Valid := by
  obtain ⟨h1, h2, h3⟩ := civilOfDays_valid (t / 86400)
  have : t % 86400 < 86400 := Nat.mod_lt _ (by decide)
  refine ⟨h1, ?_, ?_, ?_, ?_⟩
  · show t % 86400 / 3600 < 24; omega
  · show t % 86400 % 3600 / 60 < 60; omega
  · show t % 86400 % 60 < 60; omega
  · show (civilOfDays (t / 86400)).1 < 10000
    unfold tMax at h; omega

/-- the fields below the granularity are zero -/
def Aligned (g : Gran) (s : Stamp) : Prop :=
  match g with
  | .minutely => s.ss = 0
  | .hourly => s.mm = 0 ∧ s.ss = 0
  | .daily => s.hh = 0 ∧ s.mm = 0 ∧ s.ss = 0
  | .never => s.hh = 0 ∧ s.mm = 0 ∧ s.ss = 0

theorem aligned_periodStart (g : Gran) (t : Nat) : Aligned g (stampOfSecs (periodStart g t)) := by
  cases g <;> simp only [Aligned, periodStart, stampOfSecs]
  · omega
  · omega
  · omega
  · decide

theorem periodStart_le (g : Gran) (t : Nat) : periodStart g t ≤ t := by
  cases g <;> simp only [periodStart] <;> omega

theorem periodStart_mono (g : Gran) {t t' : Nat} (h : t ≤ t') : periodStart g t ≤ periodStart g t' := by
  cases g <;> simp only [periodStart] <;> omega

theorem periodStart_idem (g : Gran) (t : Nat) : periodStart g (periodStart g t) = periodStart g t := by
  cases g <;> simp only [periodStart] <;> omega

end Fv.Log.Roller
