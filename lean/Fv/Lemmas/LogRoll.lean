import Fv.Lemmas.LogFS
/-! C20 helper lemmas: one `roll` (rename, reopen, retention, compression) on a directory described by `canon`. -/
namespace Fv.Log.Roller
open Fv.Log

theorem canon_perm_middle (p : Policy) (A B : List Entry) (d : Entry) (act : List (Nat × Nat)) :
    (canon p (A ++ d :: B) act).Perm (entryFS p d :: canon p (A ++ B) act) := by
  simp only [canon, List.map_append, List.map_cons]
  exact (List.Perm.cons _ List.perm_middle).trans (List.Perm.swap _ _ _)

/-- an entry with the key of `d` has a name that no other file of the directory has -/
theorem name_fresh {p : Policy} (hw : WF p) {A B : List Entry} {d : Entry} (hd : Dir p (A ++ d :: B)) (x : Entry)
    (hx : x.period = d.period ∧ x.seq = d.seq) (hxok : EntryOk p x) (act : List (Nat × Nat)) :
    entryName p x ∉ (canon p (A ++ B) act).map (·.1) := by
  simp only [canon, List.map_cons, List.mem_cons, not_or]
  refine ⟨entryName_ne_base p hw x hxok, ?_⟩
  rw [mem_names_entries]
  rintro ⟨e, he, hn⟩
  have heM : e ∈ A ++ d :: B := by
    rcases List.mem_append.mp he with h | h
    · exact List.mem_append_left _ h
    · exact List.mem_append_right _ (List.mem_cons_of_mem _ h)
  obtain ⟨h1, h2, _⟩ := entryName_inj p hw (hd.ok e heM) hxok hn
  have hasc := hd.asc
  rw [List.pairwise_append] at hasc
  obtain ⟨_, hB, hAB⟩ := hasc
  rw [List.pairwise_cons] at hB
  rcases List.mem_append.mp he with h | h
  · exact entryLt_irrefl_key (hAB e h d (by simp)) ⟨by omega, by omega⟩
  · exact entryLt_irrefl_key (hB.1 e h) ⟨by omega, by omega⟩

theorem dir_replace {p : Policy} {A B : List Entry} {d d' : Entry} (hd : Dir p (A ++ d :: B))
    (hk : d'.period = d.period ∧ d'.seq = d.seq) : Dir p (A ++ d' :: B) := by
  apply dir_of_key_eq _ hd
  simp [Entry.key, hk.1, hk.2]

/-- compressing one uncompressed rolled file renames it and tags it; nothing else changes -/
theorem compressFile_rep {p : Policy} (hw : WF p) (A B : List Entry) (d : Entry) (hdg : d.gz = false)
    (act : List (Nat × Nat)) (fs : FS) (hp : fs.Perm (canon p (A ++ d :: B) act)) (hd : Dir p (A ++ d :: B)) :
    (compressFile fs (entryName p d) (gzSuffix p)).Perm (canon p (A ++ { d with gz := true } :: B) act) := by
  have hdok : EntryOk p d := hd.ok d (by simp)
  have hd'ok : EntryOk p { d with gz := true } := ⟨hdok.aligned, hdok.inRange, hdok.seqRange⟩
  have hnd := hd.names_nodup hw act
  have hmem : (entryName p d, ({ recs := d.recs, gz := d.gz } : File)) ∈ canon p (A ++ d :: B) act := by
    simp only [canon, List.mem_cons, List.mem_map]
    exact Or.inr ⟨d, by simp, rfl⟩
  have hget := fsGet_perm hp hnd hmem
  have hname' : entryName p { d with gz := true } = entryName p d ++ gzSuffix p := by
    simp [entryName, hdg]
  simp only [compressFile, hget, hw.gzNe, if_false, fsSet]
  rw [← hname']
  -- what is left after removing the source and (absent) destination
  have h1 : (fsRemove fs (entryName p d)).Perm (canon p (A ++ B) act) := by
    refine (fsRemove_perm (hp.trans (canon_perm_middle p A B d act)) _).trans ?_
    simp only [fsRemove, List.filter_cons, entryFS, ne_eq, not_true_eq_false, decide_false, Bool.false_eq_true, if_false]
    have := fsRemove_absent (name_fresh hw hd d ⟨rfl, rfl⟩ hdok act)
    simp only [fsRemove] at this
    rw [this]
  have h2 : (fsRemove (fsRemove fs (entryName p d)) (entryName p { d with gz := true })).Perm (canon p (A ++ B) act) := by
    refine (fsRemove_perm h1 _).trans ?_
    rw [fsRemove_absent (name_fresh hw hd { d with gz := true } ⟨rfl, rfl⟩ hd'ok act)]
  refine (List.Perm.cons _ h2).trans ?_
  have := (canon_perm_middle p A B { d with gz := true } act).symm
  simpa [entryFS, hdg] using this

theorem endsWith_rolledName_sfx (p : Policy) (s : Stamp) (n : Nat) : endsWith (rolledName p s n) p.sfx = true := by
  rw [endsWith_iff]
  exact ⟨p.pfx ++ '.' :: (fmtPeriod p.gran s ++ '.' :: dec n), by simp [rolledName]⟩

/-- the compression pass keeps every entry's (period, sequence, content); only storage form changes -/
theorem compressAll_rep {p : Policy} (hw : WF p) (act : List (Nat × Nat)) (D : List Entry) :
    ∀ (M : List Entry) (fs : FS), fs.Perm (canon p M act) → Dir p M → (∀ d ∈ D, d ∈ M) → D.Pairwise (fun a b => a.key ≠ b.key) →
      ∃ M', (compressAll p (gzSuffix p) fs (D.map (toRF p))).Perm (canon p M' act) ∧ M'.map Entry.core = M.map Entry.core := by
  induction D with
  | nil => intro M fs hp _ _ _; exact ⟨M, hp, rfl⟩
  | cons d D ih =>
    intro M fs hp hd hin hpw
    rw [List.pairwise_cons] at hpw
    simp only [List.map_cons, compressAll]
    by_cases hg : d.gz = true
    · -- already compressed: skipped
      simp only [toRF, hg, Bool.not_true, Bool.false_and, Bool.false_eq_true, if_false]
      exact ih M fs hp hd (fun x hx => hin x (by simp [hx])) hpw.2
    · have hg' : d.gz = false := by simpa using hg
      obtain ⟨A, B, hM⟩ := List.append_of_mem (hin d (by simp))
      subst hM
      have hends : endsWith (entryName p d) p.sfx = true := by
        simp only [entryName, hg', Bool.false_eq_true, if_false]; exact endsWith_rolledName_sfx _ _ _
      simp only [toRF, hg', Bool.not_false, hends, Bool.and_self, if_true]
      have hstep := compressFile_rep hw A B d hg' act fs hp hd
      have hd' : Dir p (A ++ { d with gz := true } :: B) := dir_replace hd ⟨rfl, rfl⟩
      have hin' : ∀ x ∈ D, x ∈ A ++ { d with gz := true } :: B := by
        intro x hx
        have hxM := hin x (by simp [hx])
        have hne : x.key ≠ d.key := fun h => hpw.1 x hx h.symm
        rcases List.mem_append.mp hxM with h | h
        · exact List.mem_append_left _ h
        · rcases List.mem_cons.mp h with rfl | h
          · exact absurd rfl hne
          · exact List.mem_append_right _ (List.mem_cons_of_mem _ h)
      obtain ⟨M', hp', hc'⟩ := ih _ _ hstep hd' hin' hpw.2
      exact ⟨M', hp', by rw [hc']; simp [Entry.core]⟩

/-! ### `roll` -/

theorem maxSeq_ge (p : Policy) (cur : Stamp) (l : List RolledFile) :
    ∀ rf ∈ l, fmtPeriod p.gran rf.stamp = fmtPeriod p.gran cur → rf.seq ≤ maxSeq p cur l := by
  induction l with
  | nil => simp
  | cons x xs ih =>
    intro rf hrf hf
    simp only [maxSeq]
    rcases List.mem_cons.mp hrf with rfl | h
    · simp only [hf, if_true]; exact Nat.le_max_left _ _
    · have := ih rf h hf
      split
      · exact Nat.le_trans this (Nat.le_max_right _ _)
      · exact this

theorem maxSeq_witness (p : Policy) (cur : Stamp) (l : List RolledFile) :
    maxSeq p cur l = 0 ∨ ∃ rf ∈ l, rf.seq = maxSeq p cur l := by
  induction l with
  | nil => exact Or.inl rfl
  | cons x xs ih =>
    simp only [maxSeq]
    split
    · by_cases h : maxSeq p cur xs ≤ x.seq
      · exact Or.inr ⟨x, by simp, by rw [Nat.max_eq_left h]⟩
      · rcases ih with h0 | ⟨rf, hrf, hs⟩
        · omega
        · exact Or.inr ⟨rf, by simp [hrf], by rw [Nat.max_eq_right (by omega)]; exact hs⟩
    · rcases ih with h0 | ⟨rf, hrf, hs⟩
      · exact Or.inl h0
      · exact Or.inr ⟨rf, by simp [hrf], hs⟩

/-- how many of the oldest rolled files the retention pass deletes -/
def dropCount (p : Policy) (len : Nat) : Nat :=
  match p.maxRetained with
  | some n => len - n
  | none => 0

theorem removeAll_perm {fs fs' : FS} (hp : fs.Perm fs') (l : List RolledFile) : (removeAll fs l).Perm (removeAll fs' l) := by
  rw [removeAll_eq_filter, removeAll_eq_filter]; exact hp.filter _

theorem Dir.drop {p : Policy} {L : List Entry} (hd : Dir p L) (k : Nat) : Dir p (L.drop k) :=
  ⟨fun e he => hd.ok e (List.mem_of_mem_drop he), hd.asc.sublist (List.drop_sublist k L)⟩

theorem Dir.key_ne {p : Policy} {L : List Entry} (hd : Dir p L) : L.Pairwise (fun a b => a.key ≠ b.key) := by
  refine hd.asc.imp ?_
  intro a b hab hk
  simp only [Entry.key, Prod.mk.injEq] at hk
  exact entryLt_irrefl_key hab hk

theorem compress_some_rep {p : Policy} (hw : WF p) (c : Compression) (hc : p.compression = some c) (K : List Entry)
    (hdK : Dir p K) (fs1 : FS) (hp1 : fs1.Perm (canon p K [])) :
    ∃ M', (compressAll p c.suffix fs1 (((K.map (toRF p)).reverse).drop c.keep)).Perm (canon p M' []) ∧
      M'.map Entry.core = K.map Entry.core := by
  have hgz : gzSuffix p = c.suffix := by simp [gzSuffix, hc]
  rw [List.drop_reverse, List.length_map, ← List.map_take, ← List.map_reverse, ← hgz]
  exact compressAll_rep hw [] ((K.take (K.length - c.keep)).reverse) K fs1 hp1 hdK
    (fun d hd' => List.mem_of_mem_take (List.mem_reverse.mp hd'))
    (by
      rw [List.pairwise_reverse]
      exact ((hdK.key_ne).sublist (List.take_sublist _ _)).imp (fun h => Ne.symm h))

/-- `cleanup` on the directory `canon p L []` with the sorted file list the code computed -/
theorem cleanup_rep {p : Policy} (hw : WF p) (L : List Entry) (hd : Dir p L) (fs : FS) (hp : fs.Perm (canon p L [])) :
    ∃ M', (cleanup p fs ((L.map (toRF p)).reverse)).Perm (canon p M' []) ∧
      M'.map Entry.core = (L.map Entry.core).drop (dropCount p L.length) := by
  simp only [cleanup, dropCount]
  cases hmr : p.maxRetained with
  | none =>
    simp only
    cases hc : p.compression with
    | none => exact ⟨L, hp, by simp⟩
    | some c =>
      simp only
      obtain ⟨M', h1, h2⟩ := compress_some_rep hw c hc L hd fs hp
      exact ⟨M', h1, by rw [h2]; simp⟩
  | some n =>
    simp only
    have hfs1 : (removeAll fs (((L.map (toRF p)).reverse).drop n)).Perm (canon p (L.drop (L.length - n)) []) := by
      rw [List.drop_reverse, List.length_map, ← List.map_take]
      refine (removeAll_perm hp _).trans ?_
      rw [removeAll_canon hw hd [] (L.length - n)]
    have hkept : ((L.map (toRF p)).reverse).take n = ((L.drop (L.length - n)).map (toRF p)).reverse := by
      rw [List.take_reverse, List.length_map, ← List.map_drop]
    rw [hkept]
    cases hc : p.compression with
    | none => exact ⟨_, hfs1, by simp⟩
    | some c =>
      simp only
      obtain ⟨M', h1, h2⟩ := compress_some_rep hw c hc _ (hd.drop _) _ hfs1
      exact ⟨M', h1, by rw [h2]; simp⟩

theorem roll_rep {p : Policy} (hw : WF p) (fs : FS) (st : RState) (now : Nat) (rolled : List Entry) (active : List (Nat × Nat))
    (hp : fs.Perm (canon p rolled active)) (hd : Dir p rolled)
    (hps : periodStart p.gran st.pstart = st.pstart) (hpr : st.pstart < tMax)
    (hle : ∀ e ∈ rolled, e.period ≤ st.pstart) (hseq : ∀ e ∈ rolled, e.seq + 1 < 4294967296) :
    ∃ next rolled',
      ((roll p fs st now).1).Perm (canon p rolled' []) ∧
      (roll p fs st now).2 = { size := 0, pstart := periodStart p.gran now } ∧
      next = nextSeq p fs st.pstart ∧ 1 ≤ next ∧
      (∀ e ∈ rolled, e.period = st.pstart → e.seq < next) ∧ (next = 1 ∨ ∃ e ∈ rolled, next = e.seq + 1) ∧
      Dir p rolled' ∧
      rolled'.map Entry.core =
        ((rolled ++ [({ period := st.pstart, seq := next, recs := active, gz := false } : Entry)]).map Entry.core).drop
          (dropCount p (rolled.length + 1)) := by
  have hfind := findRolled_canon p hw fs rolled active hp hd.ok hd.asc
  obtain ⟨cur, hcur⟩ : ∃ c, c = stampOfSecs st.pstart := ⟨_, rfl⟩
  obtain ⟨next, hnext⟩ : ∃ n, n = maxSeq p cur (findRolled p fs) + 1 := ⟨_, rfl⟩
  have hA : ∀ e ∈ rolled, e.period = st.pstart → e.seq < next := by
    intro e he hpe
    have hm : toRF p e ∈ findRolled p fs := by rw [hfind]; simp; exact ⟨e, he, rfl⟩
    have := maxSeq_ge p cur _ (toRF p e) hm (by simp [toRF, hcur, hpe])
    simp only [toRF] at this
    omega
  have hB : next = 1 ∨ ∃ e ∈ rolled, next = e.seq + 1 := by
    rcases maxSeq_witness p cur (findRolled p fs) with h0 | ⟨rf, hrf, hs⟩
    · left; simp [hnext, h0]
    · right
      rw [hfind] at hrf
      simp only [List.mem_reverse, List.mem_map] at hrf
      obtain ⟨e, he, rfl⟩ := hrf
      exact ⟨e, he, by simp only [hnext, ← hs, toRF]⟩
  have hnext32 : next < 4294967296 := by
    rcases hB with h | ⟨e, he, h⟩
    · omega
    · have := hseq e he; omega
  obtain ⟨newE, hnewE⟩ : ∃ e : Entry, e = { period := st.pstart, seq := next, recs := active, gz := false } := ⟨_, rfl⟩
  have hnewOk : EntryOk p newE := by subst hnewE; exact ⟨hps, hpr, hnext32⟩
  obtain ⟨L, hL⟩ : ∃ l, l = rolled ++ [newE] := ⟨_, rfl⟩
  have hdL : Dir p L := by
    constructor
    · intro e he
      rw [hL] at he
      rcases List.mem_append.mp he with h | h
      · exact hd.ok e h
      · simp only [List.mem_singleton] at h; subst h; exact hnewOk
    · rw [hL, List.pairwise_append]
      refine ⟨hd.asc, List.pairwise_singleton _ _, ?_⟩
      intro a ha b hb
      simp only [List.mem_singleton] at hb; subst hb
      have h1 := hle a ha
      by_cases h2 : a.period = st.pstart
      · exact Or.inr ⟨by rw [hnewE]; exact h2, by rw [hnewE]; exact hA a ha h2⟩
      · exact Or.inl (by rw [hnewE]; show a.period < st.pstart; omega)
  -- the rename of the active file
  have hnd := hd.names_nodup hw active
  have hbase : fsGet fs (baseName p) = some { recs := active, gz := false } :=
    fsGet_perm hp hnd (by simp [canon])
  have hrpath : rolledName p cur next = entryName p newE := by simp [entryName, hnewE, hcur]
  have hnewfresh : entryName p newE ∉ (rolled.map (entryFS p)).map (·.1) := by
    rw [mem_names_entries]
    rintro ⟨e, he, hn⟩
    obtain ⟨h1, h2, _⟩ := entryName_inj p hw (hd.ok e he) hnewOk hn
    have := hA e he (by rw [h1, hnewE])
    rw [hnewE] at h2; simp only at h2; omega
  have hfs1 : (fsRename fs (baseName p) (rolledName p cur next)).Perm (entryFS p newE :: rolled.map (entryFS p)) := by
    simp only [fsRename, hbase, fsSet, hrpath]
    have hef : entryFS p newE = (entryName p newE, ({ recs := active, gz := false } : File)) := by
      rw [hnewE]; rfl
    rw [hef]
    refine List.Perm.cons _ ?_
    have h1 : (fsRemove fs (baseName p)).Perm (rolled.map (entryFS p)) := by
      refine (fsRemove_perm hp _).trans ?_
      rw [fsRemove_canon_base hw hd]
    refine (fsRemove_perm h1 _).trans ?_
    rw [fsRemove_absent hnewfresh]
  have hbase_absent : baseName p ∉ (entryFS p newE :: rolled.map (entryFS p)).map (·.1) := by
    simp only [List.map_cons, List.mem_cons, not_or]
    refine ⟨fun h => entryName_ne_base p hw newE hnewOk h.symm, ?_⟩
    rw [mem_names_entries]
    rintro ⟨e, he, hn⟩
    exact entryName_ne_base p hw e (hd.ok e he) hn
  have hopen : fsOpen (fsRename fs (baseName p) (rolledName p cur next)) (baseName p) =
      ((baseName p, {}) :: fsRename fs (baseName p) (rolledName p cur next), 0) := by
    have hg := fsGet_perm_none hfs1 hbase_absent
    simp only [fsOpen, hg, fsSet]
    rw [fsRemove_absent (fun hm => hbase_absent ((hfs1.map _).subset hm))]
  have hfs2 : ((baseName p, ({} : File)) :: fsRename fs (baseName p) (rolledName p cur next)).Perm (canon p L []) := by
    simp only [canon, hL, List.map_append, List.map_cons, List.map_nil]
    refine List.Perm.cons _ (hfs1.trans ?_)
    exact (List.perm_append_singleton _ _).symm
  -- the sorted list handed to cleanup
  have hall : sortRolled (findRolled p fs ++ [{ stamp := cur, seq := next, name := rolledName p cur next, compressed := false }])
      = (L.map (toRF p)).reverse := by
    obtain ⟨hs, hk⟩ := sorted_reverse_toRF p L hdL.asc
    apply sortRolled_eq_of_perm _ hs hk
    have : ({ stamp := cur, seq := next, name := rolledName p cur next, compressed := false } : RolledFile) = toRF p newE := by
      rw [hrpath, hnewE, hcur]; rfl
    rw [this, hfind]
    simp only [hL, List.map_append, List.map_cons, List.map_nil, List.reverse_append, List.reverse_cons, List.reverse_nil,
      List.nil_append, List.singleton_append]
    exact List.perm_append_singleton _ _
  obtain ⟨M', hpM, hcM⟩ := cleanup_rep hw L hdL _ hfs2
  refine ⟨next, M', ?_, ?_, by simp only [nextSeq, hnext, hcur], by omega, hA, hB, ?_, ?_⟩
  · simp only [roll, ← hcur, ← hnext, hopen, hall]; exact hpM
  · simp only [roll, ← hcur, ← hnext, hopen]
  · apply dir_of_key_eq _ (hdL.drop (dropCount p L.length))
    have := key_of_core_eq (M := L.drop (dropCount p L.length)) (M' := M') (by rw [hcM, List.map_drop])
    exact this
  · rw [hcM, hL, hnewE]; simp

end Fv.Log.Roller
