import Fv.Lemmas.PolicySpec
/-!
# Helper lemmas for C14: Clock (second chance)
-/
namespace Fv.Cache.Policy.Clock

theorem Inv_init : Inv init := by simp [Inv, init, tracked]

theorem length_tracked (s : State) : (tracked s).length = s.order.length := by simp [tracked]

theorem tracked_access (s : State) (k c : Nat) : tracked (access s k c) = tracked s := by
  simp only [tracked, access, List.map_map]
  apply List.map_congr_left
  intro e _; simp only [Function.comp, pair]; split <;> rfl

theorem any_iff (s : State) (k : Nat) :
    s.order.any (fun e => e.key == k) = true ↔ k ∈ keys (tracked s) := by
  simp only [List.any_eq_true, tracked, keys, List.map_map, List.mem_map, Function.comp, pair, beq_iff_eq]

theorem admit_fst (s : State) (k c : Nat) :
    (admit s k c).1 = if k ∈ keys (tracked s) then s
      else { s with order := s.order ++ [{ key := k, cost := c, ref := false }] } := by
  simp only [admit]
  by_cases h : k ∈ keys (tracked s)
  · simp [h, (any_iff s k).2 h]
  · have : ¬ (s.order.any (fun e => e.key == k) = true) := fun e => h ((any_iff s k).1 e)
    simp [h, this]

theorem remove_spec {s : State} (h : Inv s) (k : Nat) :
    Inv (remove s k) ∧ RemoveOk (tracked s) (tracked (remove s k)) k := by
  unfold remove
  split
  · next pos hpos =>
    obtain ⟨hlt, hkey, _⟩ := List.findIdx?_eq_some_iff_getElem.1 hpos
    have hget : s.order[pos]? = some s.order[pos] := List.getElem?_eq_getElem hlt
    have hp : (tracked s).Perm ((k, s.order[pos].cost) :: (s.order.eraseIdx pos).map pair) := by
      have := (perm_eraseIdx hget).map pair
      simp only [beq_iff_eq] at hkey
      simpa [tracked, pair, hkey] using this
    refine ⟨?_, RemoveOk.of_perm_cons h hp⟩
    have hnd := (keys_perm hp).nodup_iff.1 h
    simp only [keys_cons, List.nodup_cons] at hnd
    exact hnd.2
  · next hnone =>
    refine ⟨h, RemoveOk.of_not_mem ?_⟩
    rw [List.findIdx?_eq_none_iff] at hnone
    intro hk
    obtain ⟨e, he, hek⟩ := List.any_eq_true.1 ((any_iff s k).2 hk)
    simp [hnone e he] at hek

theorem sweep_some : ∀ (budget : Nat) (s s1 : State) (e : Ent), sweep budget s = (s1, some e) →
    (tracked s).Perm (pair e :: tracked s1) := by
  intro budget
  induction budget with
  | zero => intro s s1 e h; simp [sweep] at h
  | succ budget ih =>
    intro s s1 e h
    unfold sweep at h
    dsimp only at h
    split at h
    · simp at h
    · next e0 he0 =>
      split at h
      · have := ih _ _ _ h
        simp only [tracked] at this ⊢
        rwa [map_set_same (f := pair) (e' := { e0 with ref := false }) he0 rfl] at this
      · simp only [Prod.mk.injEq, Option.some.injEq] at h
        obtain ⟨rfl, rfl⟩ := h
        simp only [tracked]
        exact (perm_eraseIdx he0).map pair

theorem countP_set_clear {l : List Ent} {i : Nat} {e : Ent} (h : l[i]? = some e) (hr : e.ref = true) :
    (l.set i { e with ref := false }).countP (·.ref) + 1 = l.countP (·.ref) := by
  induction l generalizing i with
  | nil => simp at h
  | cons a l ih =>
    cases i with
    | zero => simp at h; subst h; simp [hr]
    | succ i => simp at h; simp only [List.set_cons_succ, List.countP_cons]; have := ih h; omega

/-- a sweep with more budget than referenced entries always finds a victim -/
theorem sweep_finds : ∀ (budget : Nat) (s : State), s.order ≠ [] →
    s.order.countP (·.ref) < budget → ∃ s1 e, sweep budget s = (s1, some e) := by
  intro budget
  induction budget with
  | zero => intro s _ h; omega
  | succ budget ih =>
    intro s hne hc
    unfold sweep
    dsimp only
    have hpos : 0 < s.order.length := List.length_pos_iff.2 hne
    have hlt : (if s.hand ≥ s.order.length then 0 else s.hand) < s.order.length := by
      split <;> omega
    generalize (if s.hand ≥ s.order.length then 0 else s.hand) = hd at hlt ⊢
    rw [List.getElem?_eq_getElem hlt]
    dsimp only
    by_cases href : s.order[hd].ref = true
    · rw [if_pos href]
      have hget := List.getElem?_eq_getElem hlt
      have hcnt := countP_set_clear hget href
      apply ih
      · intro he
        exact hne (by simpa using he)
      · simp only; omega
    · rw [if_neg href]; exact ⟨_, _, rfl⟩

theorem evictLoop_spec : ∀ (fuel : Nat) (s : State) (need : Nat) (vs : List Nat) (freed : Nat),
    s.order.length < fuel →
    ∃ popped, (evictLoop fuel s need vs freed).2.1 = vs ++ keys popped
      ∧ (evictLoop fuel s need vs freed).2.2 = freed + costSum popped
      ∧ (tracked s).Perm (tracked (evictLoop fuel s need vs freed).1 ++ popped)
      ∧ (need ≤ costSum popped ∨ tracked (evictLoop fuel s need vs freed).1 = []) := by
  intro fuel
  induction fuel with
  | zero => intro s _ _ _ hf; omega
  | succ fuel ih =>
    intro s need vs freed hf
    unfold evictLoop
    split
    · next hcond =>
      have hpos : 0 < s.order.length := List.length_pos_iff.2 hcond.2
      obtain ⟨s1, e, hs⟩ := sweep_finds (s.order.length * 2) s hcond.2
        (by have := List.countP_le_length (p := (·.ref)) (l := s.order); omega)
      rw [hs]
      dsimp only
      have hp := sweep_some _ _ _ _ hs
      have hlen : s1.order.length < fuel := by
        have := hp.length_eq; simp [length_tracked] at this; omega
      obtain ⟨popped, h1, h2, h3, h4⟩ := ih s1 (need - e.cost) (vs ++ [e.key]) (freed + e.cost) hlen
      refine ⟨pair e :: popped, by simp [h1, pair], by simp [h2, pair]; omega, ?_, ?_⟩
      · exact (hp.trans (List.Perm.cons _ h3)).trans List.perm_middle.symm
      · rcases h4 with h4 | h4
        · left; simp [pair]; omega
        · right; exact h4
    · next hcond =>
      refine ⟨[], by simp, by simp, by simp, ?_⟩
      by_cases hn : need > 0
      · right
        by_cases ho : s.order = []
        · simp [tracked, ho]
        · exact absurd ⟨hn, ho⟩ hcond
      · left; omega

theorem evict_spec (s : State) (n : Nat) :
    ∃ popped, (evict s n).2.1 = keys popped ∧ (evict s n).2.2 = costSum popped
      ∧ (tracked s).Perm (tracked (evict s n).1 ++ popped)
      ∧ (n ≤ costSum popped ∨ tracked (evict s n).1 = []) := by
  obtain ⟨popped, h1, h2, h3, h4⟩ := evictLoop_spec (s.order.length + 1) s n [] 0 (by omega)
  exact ⟨popped, by simpa [evict] using h1, by simpa [evict] using h2, h3, h4⟩

end Fv.Cache.Policy.Clock
