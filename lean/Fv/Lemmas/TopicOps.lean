import Fv.Lemmas.TopicList
/-! Closed forms / component-wise effects of the receiver-side building blocks. -/
namespace Fv.Chan.Topic

/-! ### subscribeCore / unsubscribeCore -/

theorem subscribeCore_txs (s : St) (r : Nat) (t : Topic) : (subscribeCore s r t).txs = s.txs := by
  unfold subscribeCore; split <;> (try rfl); split <;> (try rfl); split <;> rfl

theorem subscribeCore_rcount (s : St) (r : Nat) (t : Topic) : (subscribeCore s r t).rcount = s.rcount := by
  unfold subscribeCore; split <;> (try rfl); split <;> (try rfl); split <;> rfl

theorem unsubscribeCore_txs (s : St) (r : Nat) (t : Topic) : (unsubscribeCore s r t).txs = s.txs := by
  unfold unsubscribeCore; split <;> (try rfl); split <;> (try rfl); split <;> rfl

theorem unsubscribeCore_rcount (s : St) (r : Nat) (t : Topic) : (unsubscribeCore s r t).rcount = s.rcount := by
  unfold unsubscribeCore; split <;> (try rfl); split <;> (try rfl); split <;> rfl

/-- `subscribe` touches only the `subs` field of receiver `r` -/
theorem subscribeCore_rxs (s : St) (r : Nat) (t : Topic) :
    (subscribeCore s r t).rxs = s.rxs ∨
    (subscribeCore s r t).rxs = modAt s.rxs r (fun x => { x with subs := x.subs ++ [t] }) := by
  unfold subscribeCore; split
  · left; rfl
  · split
    · left; rfl
    · split <;> (right; rfl)

theorem unsubscribeCore_rxs (s : St) (r : Nat) (t : Topic) :
    (unsubscribeCore s r t).rxs = s.rxs ∨
    (unsubscribeCore s r t).rxs = modAt s.rxs r (fun x => { x with subs := x.subs.filter (fun u => u != t) }) := by
  unfold unsubscribeCore; split
  · left; rfl
  · split
    · left; rfl
    · split <;> (right; rfl)

theorem unsubscribeCore_noop (s : St) (r : Nat) (t : Topic) (x : Rx) (hx : s.rxs[r]? = some x)
    (ht : t ∉ x.subs) : unsubscribeCore s r t = s := by
  unfold unsubscribeCore; simp [hx, ht]

/-- the receiver's `close_internal`, unfolded for an existing receiver -/
theorem rxCloseInternal_eq (s : St) (r : Nat) (x : Rx) (hx : s.rxs[r]? = some x) :
    rxCloseInternal s r =
      if upgradable s x then
        { (x.subs.foldl (fun s t => unsubscribeCore s r t) s) with
          rcount := wrapDec (x.subs.foldl (fun s t => unsubscribeCore s r t) s).rcount }
      else s := by
  unfold rxCloseInternal
  simp only [hx]

theorem rxCloseInternal_none (s : St) (r : Nat) (hx : s.rxs[r]? = none) : rxCloseInternal s r = s := by
  unfold rxCloseInternal; simp [hx]


/-! ### exact effect of subscribe / unsubscribe on the three components -/

theorem isLive_modAt_of_live (rxs : List Rx) (r : Nat) (f : Rx → Rx) (hf : ∀ x, (f x).live = x.live) (q : Nat) :
    isLive (modAt rxs r f) q = isLive rxs q := by
  unfold isLive; rw [getElem?_modAt]
  by_cases h : r = q <;> cases hq : rxs[q]? <;> simp [h, hf]

theorem isLive_modAt_subs (rxs : List Rx) (r : Nat) (g : Rx → List Topic) (q : Nat) :
    isLive (modAt rxs r (fun x => { x with subs := g x })) q = isLive rxs q := by
  apply isLive_modAt_of_live; intro x; rfl

theorem subscribeCore_of_mem (s : St) (r : Nat) (t : Topic) (x0 : Rx) (hx0 : s.rxs[r]? = some x0)
    (hm : t ∈ x0.subs) : subscribeCore s r t = s := by
  unfold subscribeCore; simp [hx0, hm]

theorem subscribeCore_rxs_of_not_mem (s : St) (r : Nat) (t : Topic) (x0 : Rx) (hx0 : s.rxs[r]? = some x0)
    (hm : t ∉ x0.subs) :
    (subscribeCore s r t).rxs = modAt s.rxs r (fun x => { x with subs := x.subs ++ [t] }) := by
  unfold subscribeCore; simp only [hx0]
  have : x0.subs.contains t = false := by simpa using hm
  simp only [this, Bool.false_eq_true, if_false]
  split <;> rfl

theorem subscribeCore_regs_not_upg (s : St) (r : Nat) (t : Topic) (x0 : Rx) (hx0 : s.rxs[r]? = some x0)
    (hu : upgradable s x0 = false) : (subscribeCore s r t).regs = s.regs := by
  unfold subscribeCore; simp only [hx0, hu]
  split <;> rfl

theorem mem_subscribeCore_regs (s : St) (r : Nat) (t : Topic) (x0 : Rx) (hx0 : s.rxs[r]? = some x0)
    (hm : t ∉ x0.subs) (hu : upgradable s x0 = true) (u : Topic) (q : Nat) :
    (u, q) ∈ (subscribeCore s r t).regs ↔
      (((u, q) ∈ s.regs ∧ (u ≠ t ∨ isLive s.rxs q = true)) ∨ (u, q) = (t, r)) := by
  unfold subscribeCore; simp only [hx0, hu]
  have : x0.subs.contains t = false := by simpa using hm
  simp only [this, isLive_modAt_subs]
  simp only [Bool.false_eq_true, if_false, if_true]
  split
  · rename_i hin
    have hin' : (t, r) ∈ s.regs.filter (fun p => p.1 != t || isLive s.rxs p.2) := by simpa using hin
    constructor
    · intro hh
      left
      simpa using hh
    · rintro (hh | hh)
      · simpa using hh
      · cases hh; exact hin'
  · simp only [List.mem_append, List.mem_filter, List.mem_singleton]
    constructor
    · rintro (⟨h1, h2⟩ | h1)
      · left; exact ⟨h1, by simpa using h2⟩
      · right; exact h1
    · rintro (⟨h1, h2⟩ | h1)
      · left; exact ⟨h1, by simpa using h2⟩
      · right; exact h1

theorem unsubscribeCore_rxs' (s : St) (r : Nat) (t : Topic) (x0 : Rx) (hx0 : s.rxs[r]? = some x0) :
    (unsubscribeCore s r t).rxs = modAt s.rxs r (fun x => { x with subs := x.subs.filter (fun u => u != t) }) ∨
    (t ∉ x0.subs ∧ unsubscribeCore s r t = s) := by
  by_cases hm : t ∈ x0.subs
  · left
    unfold unsubscribeCore; simp only [hx0]
    have : x0.subs.contains t = true := by simpa using hm
    simp only [this, Bool.not_true, Bool.false_eq_true, if_false]
    split <;> rfl
  · right; exact ⟨hm, unsubscribeCore_noop s r t x0 hx0 hm⟩

theorem unsubscribeCore_regs_not_upg (s : St) (r : Nat) (t : Topic) (x0 : Rx) (hx0 : s.rxs[r]? = some x0)
    (hu : upgradable s x0 = false) : (unsubscribeCore s r t).regs = s.regs := by
  unfold unsubscribeCore; simp only [hx0, hu]
  split <;> rfl

theorem mem_unsubscribeCore_regs (s : St) (r : Nat) (t : Topic) (x0 : Rx) (hx0 : s.rxs[r]? = some x0)
    (hm : t ∈ x0.subs) (hu : upgradable s x0 = true) (u : Topic) (q : Nat) :
    (u, q) ∈ (unsubscribeCore s r t).regs ↔
      ((u, q) ∈ s.regs ∧ (u ≠ t ∨ (isLive s.rxs q = true ∧ q ≠ r))) := by
  unfold unsubscribeCore; simp only [hx0, hu]
  have : x0.subs.contains t = true := by simpa using hm
  simp only [this, isLive_modAt_subs]
  simp


/-! ### the unsubscribe loop of `close_internal` -/

theorem foldl_unsubscribeCore_txs (l : List Topic) (s : St) (r : Nat) :
    (l.foldl (fun s t => unsubscribeCore s r t) s).txs = s.txs := by
  induction l generalizing s with
  | nil => rfl
  | cons t l ih => simp only [List.foldl_cons]; rw [ih, unsubscribeCore_txs]

theorem foldl_unsubscribeCore_length (l : List Topic) (s : St) (r : Nat) :
    (l.foldl (fun s t => unsubscribeCore s r t) s).rxs.length = s.rxs.length := by
  induction l generalizing s with
  | nil => rfl
  | cons t l ih =>
    simp only [List.foldl_cons]; rw [ih]
    rcases unsubscribeCore_rxs s r t with h | h <;> rw [h]; exact length_modAt _ _ _

theorem foldl_unsubscribeCore_rxs_ne (l : List Topic) (s : St) (r q : Nat) (hq : r ≠ q) :
    (l.foldl (fun s t => unsubscribeCore s r t) s).rxs[q]? = s.rxs[q]? := by
  induction l generalizing s with
  | nil => rfl
  | cons t l ih =>
    simp only [List.foldl_cons]; rw [ih]
    rcases unsubscribeCore_rxs s r t with h | h <;> rw [h]; exact getElem?_modAt_ne _ _ _ _ hq

/-- after the loop over `l` the receiver's own entry differs only in `subs`, which lost the
topics of `l` -/
theorem foldl_unsubscribeCore_self (l : List Topic) (s : St) (r : Nat) (x : Rx) (hx : s.rxs[r]? = some x) :
    (l.foldl (fun s t => unsubscribeCore s r t) s).rxs[r]? =
      some { x with subs := x.subs.filter (fun u => !l.contains u) } := by
  induction l generalizing s x with
  | nil =>
    have : x.subs.filter (fun u => !([] : List Topic).contains u) = x.subs := List.filter_eq_self.2 (fun a _ => by simp)
    simp only [List.foldl_nil, hx, this]
  | cons t l ih =>
    simp only [List.foldl_cons]
    have h1 : (unsubscribeCore s r t).rxs[r]? = some { x with subs := x.subs.filter (fun u => u != t) } := by
      rcases unsubscribeCore_rxs' s r t x hx with h | ⟨hn, he⟩
      · rw [h, getElem?_modAt_self, hx]; rfl
      · rw [he, hx]
        have : x.subs.filter (fun u => u != t) = x.subs := by
          apply List.filter_eq_self.2
          intro a ha; simp only [bne_iff_ne, ne_eq]; intro hc; subst hc; exact hn ha
        rw [this]
    rw [ih _ _ h1]
    simp only [List.filter_filter, Option.some.injEq]
    congr 1
    apply List.filter_congr
    intro a _
    simp only [List.contains_cons, Bool.not_or, bne, Bool.and_comm]

end Fv.Chan.Topic
