import Fv.Lemmas.Mpmc2BWake
/-! Preservation of the structural group `InvK` (generated boilerplate, one lemma per step function). -/
namespace Fv.Chan.Mpmc2B
set_option linter.unusedVariables false
attribute [local grind] recOf sendSide recvFutRec
attribute [local grind =] nodup_snoc upd_apply bump_apply List.Nodup.mem_erase_iff
attribute [local grind →] firstW_some firstW_none' frontW_some List.mem_of_mem_erase recvFutRec_recOf
attribute [local grind ←] List.Nodup.erase nodup_filter

theorem invK_sTry {s : State} {t : Nat} {v : Nat} {r : Nat} (hi : InvK s) (hpc : s.pc t = .sTry v r) : InvK (stepSTry s t v r) := by
  obtain ⟨h1, h2, h3, h4, h5, h6, h7, h8⟩ := hi
  unfold stepSTry
  repeat' split
  wk_close

theorem invK_sReg {s : State} {t : Nat} {v : Nat} {r : Nat} (hi : InvK s) (hpc : s.pc t = .sReg v r) : InvK (stepSReg s t v r) := by
  obtain ⟨h1, h2, h3, h4, h5, h6, h7, h8⟩ := hi
  unfold stepSReg
  repeat' split
  wk_close

theorem invK_sWait {s : State} {t : Nat} {v : Nat} {r : Nat} (hi : InvK s) (hpc : s.pc t = .sWait v r) : InvK (stepSWait s t v r) := by
  obtain ⟨h1, h2, h3, h4, h5, h6, h7, h8⟩ := hi
  unfold stepSWait
  repeat' split
  wk_close

theorem invK_sUnl {s : State} {t : Nat} {v : Nat} {r : Nat} {c : Bool} (hi : InvK s) (hpc : s.pc t = .sUnl v r c) : InvK (stepSUnl s t v r c) := by
  obtain ⟨h1, h2, h3, h4, h5, h6, h7, h8⟩ := hi
  unfold stepSUnl
  repeat' split
  wk_close

theorem invK_tsTry {s : State} {t : Nat} {v : Nat} (hi : InvK s) (hpc : s.pc t = .tsTry v) : InvK (stepTsTry s t v) := by
  obtain ⟨h1, h2, h3, h4, h5, h6, h7, h8⟩ := hi
  unfold stepTsTry
  repeat' split
  wk_close

theorem invK_rTry {s : State} {t : Nat} {r : Nat} (hi : InvK s) (hpc : s.pc t = .rTry r) : InvK (stepRTry s t r) := by
  obtain ⟨h1, h2, h3, h4, h5, h6, h7, h8⟩ := hi
  unfold stepRTry
  repeat' split
  wk_close

theorem invK_rReg {s : State} {t : Nat} {r : Nat} (hi : InvK s) (hpc : s.pc t = .rReg r) : InvK (stepRReg s t r) := by
  obtain ⟨h1, h2, h3, h4, h5, h6, h7, h8⟩ := hi
  unfold stepRReg
  repeat' split
  wk_close

theorem invK_rWait {s : State} {t : Nat} {r : Nat} (hi : InvK s) (hpc : s.pc t = .rWait r) : InvK (stepRWait s t r) := by
  obtain ⟨h1, h2, h3, h4, h5, h6, h7, h8⟩ := hi
  unfold stepRWait
  repeat' split
  wk_close

theorem invK_rUnl {s : State} {t : Nat} {r : Nat} (hi : InvK s) (hpc : s.pc t = .rUnl r) : InvK (stepRUnl s t r) := by
  obtain ⟨h1, h2, h3, h4, h5, h6, h7, h8⟩ := hi
  unfold stepRUnl
  repeat' split
  wk_close

theorem invK_trTry {s : State} {t : Nat} (hi : InvK s) (hpc : s.pc t = .trTry) : InvK (stepTrTry s t ) := by
  obtain ⟨h1, h2, h3, h4, h5, h6, h7, h8⟩ := hi
  unfold stepTrTry
  repeat' split
  wk_close

theorem invK_toTry {s : State} {t : Nat} {r : Nat} (hi : InvK s) (hpc : s.pc t = .toTry r) : InvK (stepToTry s t r) := by
  obtain ⟨h1, h2, h3, h4, h5, h6, h7, h8⟩ := hi
  unfold stepToTry
  repeat' split
  wk_close

theorem invK_toReg {s : State} {t : Nat} {r : Nat} (hi : InvK s) (hpc : s.pc t = .toReg r) : InvK (stepToReg s t r) := by
  obtain ⟨h1, h2, h3, h4, h5, h6, h7, h8⟩ := hi
  unfold stepToReg
  repeat' split
  wk_close

theorem invK_toRetry {s : State} {t : Nat} {r : Nat} (hi : InvK s) (hpc : s.pc t = .toRetry r) : InvK (stepToRetry s t r) := by
  obtain ⟨h1, h2, h3, h4, h5, h6, h7, h8⟩ := hi
  unfold stepToRetry
  repeat' split
  wk_close

theorem invK_toCas {s : State} {t : Nat} {r : Nat} (hi : InvK s) (hpc : s.pc t = .toCas r) : InvK (stepToCas s t r) := by
  obtain ⟨h1, h2, h3, h4, h5, h6, h7, h8⟩ := hi
  unfold stepToCas
  repeat' split
  wk_close

theorem invK_toUnl {s : State} {t : Nat} {r : Nat} (hi : InvK s) (hpc : s.pc t = .toUnl r) : InvK (stepToUnl s t r) := by
  obtain ⟨h1, h2, h3, h4, h5, h6, h7, h8⟩ := hi
  unfold stepToUnl
  repeat' split
  wk_close

theorem invK_toFin {s : State} {t : Nat} {r : Nat} (hi : InvK s) (hpc : s.pc t = .toFin r) : InvK (stepToFin s t r) := by
  obtain ⟨h1, h2, h3, h4, h5, h6, h7, h8⟩ := hi
  unfold stepToFin
  repeat' split
  wk_close

theorem invK_asTry {s : State} {t : Nat} {v : Nat} {r : Nat} (hi : InvK s) (hpc : s.pc t = .asTry v r) : InvK (stepAsTry s t v r) := by
  obtain ⟨h1, h2, h3, h4, h5, h6, h7, h8⟩ := hi
  unfold stepAsTry
  repeat' split
  wk_close

theorem invK_asReg {s : State} {t : Nat} {v : Nat} {r : Nat} (hi : InvK s) (hpc : s.pc t = .asReg v r) : InvK (stepAsReg s t v r) := by
  obtain ⟨h1, h2, h3, h4, h5, h6, h7, h8⟩ := hi
  unfold stepAsReg
  repeat' split
  wk_close

theorem invK_asUnl {s : State} {t : Nat} {v : Nat} {r : Nat} {c : Bool} (hi : InvK s) (hpc : s.pc t = .asUnl v r c) : InvK (stepAsUnl s t v r c) := by
  obtain ⟨h1, h2, h3, h4, h5, h6, h7, h8⟩ := hi
  unfold stepAsUnl
  repeat' split
  wk_close

theorem invK_asRef {s : State} {t : Nat} {v : Nat} {r : Nat} (hi : InvK s) (hpc : s.pc t = .asRef v r) : InvK (stepAsRef s t v r) := by
  obtain ⟨h1, h2, h3, h4, h5, h6, h7, h8⟩ := hi
  unfold stepAsRef
  repeat' split
  wk_close

theorem invK_fdUnlS {s : State} {t : Nat} {v : Nat} {r : Nat} (hi : InvK s) (hpc : s.pc t = .fdUnlS v r) : InvK (stepFdUnlS s t v r) := by
  obtain ⟨h1, h2, h3, h4, h5, h6, h7, h8⟩ := hi
  unfold stepFdUnlS
  repeat' split
  wk_close

theorem invK_arTry {s : State} {t : Nat} {r : Nat} (hi : InvK s) (hpc : s.pc t = .arTry r) : InvK (stepArTry s t r) := by
  obtain ⟨h1, h2, h3, h4, h5, h6, h7, h8⟩ := hi
  unfold stepArTry
  repeat' split
  wk_close

theorem invK_arReg {s : State} {t : Nat} {r : Nat} (hi : InvK s) (hpc : s.pc t = .arReg r) : InvK (stepArReg s t r) := by
  obtain ⟨h1, h2, h3, h4, h5, h6, h7, h8⟩ := hi
  unfold stepArReg
  repeat' split
  wk_close

theorem invK_arUnl {s : State} {t : Nat} {r : Nat} (hi : InvK s) (hpc : s.pc t = .arUnl r) : InvK (stepArUnl s t r) := by
  obtain ⟨h1, h2, h3, h4, h5, h6, h7, h8⟩ := hi
  unfold stepArUnl
  repeat' split
  wk_close

theorem invK_fdUnlR {s : State} {t : Nat} {r : Nat} (hi : InvK s) (hpc : s.pc t = .fdUnlR r) : InvK (stepFdUnlR s t r) := by
  obtain ⟨h1, h2, h3, h4, h5, h6, h7, h8⟩ := hi
  unfold stepFdUnlR
  repeat' split
  wk_close

theorem invK_hWake {s : State} {t : Nat} {ws : List Nat} (hi : InvK s) (hpc : s.pc t = .hWake ws) : InvK (stepHWake s t ws) := by
  obtain ⟨h1, h2, h3, h4, h5, h6, h7, h8⟩ := hi
  unfold stepHWake
  repeat' split
  wk_close

theorem invK_sPark {s s' : State} {t : Nat} {v : Nat} {r : Nat} (hi : InvK s) (hpc : s.pc t = .sPark v r) (h : stepSPark s t v r = some s') : InvK s' := by
  obtain ⟨h1, h2, h3, h4, h5, h6, h7, h8⟩ := hi
  unfold stepSPark at h
  repeat' split at h
  all_goals (simp at h; try subst h)
  wk_close

theorem invK_rPark {s s' : State} {t : Nat} {r : Nat} (hi : InvK s) (hpc : s.pc t = .rPark r) (h : stepRPark s t r = some s') : InvK s' := by
  obtain ⟨h1, h2, h3, h4, h5, h6, h7, h8⟩ := hi
  unfold stepRPark at h
  repeat' split at h
  all_goals (simp at h; try subst h)
  wk_close

theorem invK_closeS {s s' : State} {t : Nat} (hi : InvK s) (hpc : s.pc t = .hCloseS) (h : stepCloseS s t  = some s') : InvK s' := by
  obtain ⟨h1, h2, h3, h4, h5, h6, h7, h8⟩ := hi
  unfold stepCloseS at h
  repeat' split at h
  all_goals (simp at h; try subst h)
  wk_close

theorem invK_closeR {s s' : State} {t : Nat} (hi : InvK s) (hpc : s.pc t = .hCloseR) (h : stepCloseR s t  = some s') : InvK s' := by
  obtain ⟨h1, h2, h3, h4, h5, h6, h7, h8⟩ := hi
  unfold stepCloseR at h
  repeat' split at h
  all_goals (simp at h; try subst h)
  wk_close

theorem invK_adv {s s' : State} {t : Nat} (hi : InvK s) (h : stepAdv s t = some s') : InvK s' := by
  unfold stepAdv at h
  split at h
  all_goals (first | (simp at h; done) | skip)
  all_goals rename_i hpc
  case h_1 => simp at h; subst h; exact invK_sTry hi hpc
  case h_2 => simp at h; subst h; exact invK_sReg hi hpc
  case h_3 => simp at h; subst h; exact invK_sWait hi hpc
  case h_4 => exact invK_sPark hi hpc h
  case h_5 => simp at h; subst h; exact invK_sUnl hi hpc
  case h_6 => simp at h; subst h; exact invK_tsTry hi hpc
  case h_7 => simp at h; subst h; exact invK_rTry hi hpc
  case h_8 => simp at h; subst h; exact invK_rReg hi hpc
  case h_9 => simp at h; subst h; exact invK_rWait hi hpc
  case h_10 => exact invK_rPark hi hpc h
  case h_11 => simp at h; subst h; exact invK_rUnl hi hpc
  case h_12 => simp at h; subst h; exact invK_trTry hi hpc
  case h_13 => simp at h; subst h; exact invK_toTry hi hpc
  case h_14 => simp at h; subst h; exact invK_toReg hi hpc
  case h_15 => simp at h; subst h; exact invK_toRetry hi hpc
  case h_16 => simp at h; subst h; exact invK_toCas hi hpc
  case h_17 => simp at h; subst h; exact invK_toUnl hi hpc
  case h_18 => simp at h; subst h; exact invK_toFin hi hpc
  case h_19 => simp at h; subst h; exact invK_asTry hi hpc
  case h_20 => simp at h; subst h; exact invK_asReg hi hpc
  case h_21 => simp at h; subst h; exact invK_asUnl hi hpc
  case h_22 => simp at h; subst h; exact invK_asRef hi hpc
  case h_23 => simp at h; subst h; exact invK_fdUnlS hi hpc
  case h_24 => simp at h; subst h; exact invK_arTry hi hpc
  case h_25 => simp at h; subst h; exact invK_arReg hi hpc
  case h_26 => simp at h; subst h; exact invK_arUnl hi hpc
  case h_27 => simp at h; subst h; exact invK_fdUnlR hi hpc
  case h_28 => simp at h; subst h; obtain ⟨h1, h2, h3, h4, h5, h6, h7, h8⟩ := hi; wk_close
  case h_29 => simp at h; subst h; obtain ⟨h1, h2, h3, h4, h5, h6, h7, h8⟩ := hi; wk_close
  case h_30 => exact invK_closeS hi hpc h
  case h_31 => exact invK_closeR hi hpc h
  case h_32 => simp at h; subst h; obtain ⟨h1, h2, h3, h4, h5, h6, h7, h8⟩ := hi; wk_close
  case h_33 => simp at h; subst h; exact invK_hWake hi hpc

theorem invK_call {s s' : State} {t : Nat} {op : Op} (hi : InvK s) (h : stepCall s t op = some s') : InvK s' := by
  obtain ⟨h1, h2, h3, h4, h5, h6, h7, h8⟩ := hi
  unfold stepCall at h
  split at h
  · rename_i hr
    have hr' : s.pc t = .idle ∨ ∃ x, s.pc t = .done x := by
      cases hp : s.pc t <;> simp_all [PC.atRest]
    cases op <;> simp only [] at h
    all_goals (repeat' split at h)
    all_goals (simp at h; try subst h)
    wk_close
  · simp at h

theorem invK_poll {s s' : State} {t : Nat} (hi : InvK s) (h : stepPoll s t = some s') : InvK s' := by
  obtain ⟨h1, h2, h3, h4, h5, h6, h7, h8⟩ := hi
  unfold stepPoll at h
  repeat' split at h
  all_goals (simp at h; try subst h)
  all_goals skip
  wk_close

theorem invK_dropFut {s s' : State} {t : Nat} (hi : InvK s) (h : stepDropFut s t = some s') : InvK s' := by
  obtain ⟨h1, h2, h3, h4, h5, h6, h7, h8⟩ := hi
  unfold stepDropFut at h
  repeat' split at h
  all_goals (simp at h; try subst h)
  all_goals skip
  wk_close

theorem invK_spurious {s s' : State} {t : Nat} (hi : InvK s) (h : stepSpurious s t = some s') : InvK s' := by
  obtain ⟨h1, h2, h3, h4, h5, h6, h7, h8⟩ := hi
  unfold stepSpurious at h
  repeat' split at h
  all_goals (simp at h; try subst h)
  wk_close

theorem invK_step {s s' : State} {t : Nat} {l : Label} (hi : InvK s) (h : step s t l = some s') : InvK s' := by
  cases l <;> simp only [step] at h
  · exact invK_call hi h
  · exact invK_adv hi h
  · exact invK_poll hi h
  · exact invK_dropFut hi h
  · exact invK_spurious hi h


theorem invK_reach {cap : Nat} {s : State} (h : Reach cap s) : InvK s := by
  induction h with
  | init => exact invK_init cap
  | step _ hs ih => exact invK_step ih hs

end Fv.Chan.Mpmc2B
