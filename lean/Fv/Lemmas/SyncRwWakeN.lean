import Fv.Lemmas.SyncRwWakeL2
/-!
Local (stepping-thread) lemmas for the no-lost-wakeup proof of the rwlock model, part 1: a thread
inside `wake_waiters`, and an owner in its acquisition / re-check phase.
-/
namespace Fv.Sync.RwLock
open Fv.Sync
variable {cfg : Cfg} {s s' : State} {t : Tid} {l : Lbl}

set_option maxHeartbeats 16000000 in
/-- `PreWake` of the stepping thread: it stays in `wake_waiters`, or the queue is empty, or it has
just marked the first queued writer -/
theorem prewake_local (hi : Inv s) (h : Step cfg s t l s') (hp : PreWake s t) :
    PreWake s' t ∨ s'.wl.queue = []
      ∨ ((s.th t).pc = .wnStore ∧ s'.wl.queue = s.wl.queue
          ∧ (s'.wl.node (s.th t).tgt).isWriter = (s.wl.node (s.th t).tgt).isWriter
          ∧ (s'.wl.node (s.th t).tgt).woken = true) := by
  have a1 := hi.syncCur t; have a2 := hi.asyncCur t; have a5 := hi.ffOk t
  have d : 0 < s.wl.writers → s.wl.firstWriter ≠ none := by
    intro hpos hnone
    have := hi.wf.writers
    rw [this] at hpos
    obtain ⟨n, hn, hwn⟩ := List.countP_pos_iff.1 hpos
    unfold WaitList.firstWriter at hnone
    exact absurd hwn (by simpa using List.find?_eq_none.1 hnone n hn)
  unfold PreWake at hp ⊢
  clear hi
  step_cases h
  all_goals (try norm_state)
  all_goals (first | wg | grind [List.head?_eq_none_iff, preWakePc, dropPc])

set_option maxHeartbeats 16000000 in
/-- an active owner stays active (same node) until it holds the lock - except a reader that finds
`WRITER_PENDING` set in its re-check and goes to sleep behind the queued writer -/
theorem active_local (hi : Inv s) (h : Step cfg s t l s') (ha : activePc (s.th t).pc = true) :
    (me t (s'.th t) = me t (s.th t) ∧ activePc (s'.th t).pc = true)
    ∨ (s'.word.wl = true ∨ s'.word.readers ≠ 0)
    ∨ ((s.th t).pc = .qLoad ∧ (s.th t).wr = false ∧ s.word.wp = true) := by
  have a1 := hi.syncCur t; have a2 := hi.asyncCur t; have a5 := hi.ffOk t
  clear hi
  step_cases h
  all_goals (try norm_state)
  all_goals grind [RWord.blocked, syncOnly, asyncOnly, futPc, TaK.sync, After.sync, After.async, activePc]

end Fv.Sync.RwLock
