import Fv.Lemmas.LogCal
/-! C20 helper lemmas: `Vec<RolledFile>::sort()` (newest first) yields the unique sorted arrangement. -/
namespace Fv.Log.Roller

/-- sort key of a rolled file: stamp fields then sequence (ascending = oldest first) -/
def rfKey (rf : RolledFile) : List Nat := rf.stamp.key ++ [rf.seq]

theorem ltNats_snoc (k k' : List Nat) (x y : Nat) (hl : k.length = k'.length) :
    ltNats (k ++ [x]) (k' ++ [y]) = (ltNats k k' || (k = k' && decide (x < y))) := by
  induction k generalizing k' with
  | nil =>
    cases k' with
    | nil =>
      simp only [List.nil_append, ltNats, Bool.false_or]
      by_cases h : x < y
      · simp [h]
      · by_cases h' : y < x <;> simp [h, h']
    | cons b bs => simp at hl
  | cons a as ih =>
    cases k' with
    | nil => simp at hl
    | cons b bs =>
      simp only [List.length_cons, Nat.add_right_cancel_iff] at hl
      simp only [List.cons_append, ltNats, ih bs hl]
      by_cases h1 : a < b
      · simp [h1]
      · by_cases h2 : b < a
        · have : a ≠ b := by omega
          simp [h1, h2, this]
        · have : a = b := by omega
          subst this
          simp [h1]

theorem before_eq (a b : RolledFile) : a.before b = ltNats (rfKey b) (rfKey a) := by
  simp only [RolledFile.before, rfKey]
  rw [ltNats_snoc _ _ _ _ (by simp [Stamp.key])]
  simp only [Stamp.lt]
  congr 1
  by_cases h : a.stamp = b.stamp
  · simp [h]
  · have : b.stamp.key ≠ a.stamp.key := fun hk => h (Stamp.key_inj hk).symm
    simp [h, this]

theorem rfKey_length (a : RolledFile) : (rfKey a).length = 7 := by simp [rfKey, Stamp.key]

/-- `a` sorts no later than `b` -/
def rfLe (a b : RolledFile) : Prop := b.before a = false

theorem rfLe_total (a b : RolledFile) : rfLe a b ∨ rfLe b a := by
  simp only [rfLe, before_eq]
  cases h : ltNats (rfKey a) (rfKey b) with
  | false => exact Or.inl rfl
  | true => exact Or.inr (ltNats_asymm h)

theorem rfLe_trans {a b c : RolledFile} (h1 : rfLe a b) (h2 : rfLe b c) : rfLe a c := by
  simp only [rfLe, before_eq] at *
  -- h1 : ¬ key a < key b ; h2 : ¬ key b < key c ; goal ¬ key a < key c
  cases h : ltNats (rfKey a) (rfKey c) with
  | false => rfl
  | true =>
    exfalso
    cases hbc : ltNats (rfKey c) (rfKey b) with
    | true => have := ltNats_trans h hbc; rw [h1] at this; cases this
    | false =>
      have : rfKey b = rfKey c := ltNats_total (by simp [rfKey_length]) h2 hbc
      rw [this, h] at h1; cases h1

theorem rfLe_antisymm_key {a b : RolledFile} (h1 : rfLe a b) (h2 : rfLe b a) : rfKey a = rfKey b := by
  simp only [rfLe, before_eq] at *
  exact ltNats_total (by simp [rfKey_length]) h1 h2

theorem insertSorted_perm (x : RolledFile) (l : List RolledFile) : (insertSorted x l).Perm (x :: l) := by
  induction l with
  | nil => exact List.Perm.refl _
  | cons y ys ih =>
    simp only [insertSorted]
    split
    · exact List.Perm.refl _
    · exact (List.Perm.cons y ih).trans (List.Perm.swap x y ys)

theorem foldl_insert_perm (l acc : List RolledFile) :
    (l.foldl (fun acc x => insertSorted x acc) acc).Perm (acc ++ l) := by
  induction l generalizing acc with
  | nil => simp
  | cons x xs ih =>
    simp only [List.foldl_cons]
    refine (ih _).trans ?_
    have := (insertSorted_perm x acc).append_right xs
    refine this.trans ?_
    simp only [List.cons_append]
    exact (List.perm_middle).symm

theorem sortRolled_perm (l : List RolledFile) : (sortRolled l).Perm l := by
  simpa [sortRolled] using foldl_insert_perm l []

theorem mem_insertSorted {x y : RolledFile} {l : List RolledFile} : y ∈ insertSorted x l ↔ y = x ∨ y ∈ l := by
  rw [(insertSorted_perm x l).mem_iff]; simp

theorem insertSorted_sorted (x : RolledFile) (l : List RolledFile) (h : l.Pairwise rfLe) : (insertSorted x l).Pairwise rfLe := by
  induction l with
  | nil => simp [insertSorted]
  | cons y ys ih =>
    simp only [insertSorted]
    rw [List.pairwise_cons] at h
    by_cases hb : x.before y = true
    · simp only [hb, if_true]
      have hxy : rfLe x y := by
        simp only [rfLe, before_eq] at hb ⊢
        exact ltNats_asymm hb
      rw [List.pairwise_cons]
      refine ⟨?_, List.pairwise_cons.mpr h⟩
      intro z hz
      rcases List.mem_cons.mp hz with rfl | hz
      · exact hxy
      · exact rfLe_trans hxy (h.1 z hz)
    · simp only [hb, Bool.false_eq_true, if_false]
      rw [List.pairwise_cons]
      refine ⟨?_, ih h.2⟩
      intro z hz
      rcases mem_insertSorted.mp hz with rfl | hz
      · simpa [rfLe] using hb
      · exact h.1 z hz

theorem foldl_insert_sorted (l acc : List RolledFile) (h : acc.Pairwise rfLe) :
    (l.foldl (fun acc x => insertSorted x acc) acc).Pairwise rfLe := by
  induction l generalizing acc with
  | nil => exact h
  | cons x xs ih => exact ih _ (insertSorted_sorted x acc h)

theorem sortRolled_sorted (l : List RolledFile) : (sortRolled l).Pairwise rfLe :=
  foldl_insert_sorted l [] List.Pairwise.nil

/-- sorting any arrangement of a list with pairwise distinct keys gives the one sorted arrangement -/
theorem sortRolled_eq_of_perm {l s : List RolledFile} (hp : l.Perm s) (hs : s.Pairwise rfLe)
    (hk : ∀ a ∈ s, ∀ b ∈ s, rfKey a = rfKey b → a = b) : sortRolled l = s := by
  apply List.Perm.eq_of_pairwise (le := rfLe) _ (sortRolled_sorted l) hs ((sortRolled_perm l).trans hp)
  intro a b ha hb h1 h2
  have ha' : a ∈ s := ((sortRolled_perm l).trans hp).subset ha
  exact hk a ha' b hb (rfLe_antisymm_key h1 h2)

end Fv.Log.Roller
