import Fv.Lemmas.LogRoll
/-! C20 helper lemmas: the invariant of a running roller over arbitrary write / clock / restart histories. -/
namespace Fv.Log.Roller
open Fv.Log

/-- one step of the environment -/
inductive ROp
  | write (id len : Nat)
  | advance (secs : Nat)
  | restart
  deriving Repr

/-- roller + directory + clock, with two ghosts: the records written so far (`written`, non-empty writes only)
and the number of `write` calls (`writes`) -/
structure Run where
  fs : FS
  st : RState
  now : Nat
  written : List (Nat × Nat)
  writes : Nat

def Run.init (p : Policy) (t0 : Nat) : Run :=
  { fs := (openRoller p [] t0).1, st := (openRoller p [] t0).2, now := t0, written := [], writes := 0 }

def Run.step (p : Policy) (r : Run) : ROp → Run
  | .write id len =>
    { r with fs := (write p r.fs r.st (id, len) r.now).1, st := (write p r.fs r.st (id, len) r.now).2,
             written := if len = 0 then r.written else r.written ++ [(id, len)], writes := r.writes + 1 }
  | .advance s => { r with now := r.now + s }
  | .restart => { r with fs := (openRoller p r.fs r.now).1, st := (openRoller p r.fs r.now).2 }

def Run.run (p : Policy) (r : Run) (ops : List ROp) : Run := ops.foldl (Run.step p) r

/-- content of the retained rolled files, oldest first -/
def recsOf (rolled : List Entry) : List (Nat × Nat) := rolled.flatMap (·.recs)

/-- The invariant: the directory is exactly the active file plus the listed rolled files (strictly ascending
in (period, sequence), none newer than the current period), their concatenation followed by the active file is
a suffix of what was written, sequence numbers are bounded by `bound`, and retention holds. -/
def InvC (p : Policy) (fs : FS) (st : RState) (now : Nat) (written : List (Nat × Nat)) (bound : Nat) : Prop :=
  ∃ rolled active,
    fs.Perm (canon p rolled active) ∧ Dir p rolled ∧
    (∀ e ∈ rolled, e.period ≤ st.pstart) ∧
    periodStart p.gran st.pstart = st.pstart ∧ st.pstart ≤ now ∧
    (recsOf rolled ++ active) <:+ written ∧
    (∀ e ∈ rolled, e.seq ≤ bound) ∧
    (∀ n, p.maxRetained = some n → rolled.length ≤ n)

theorem recsOf_eq_core (l : List Entry) : recsOf l = (l.map Entry.core).flatMap (·.2.2) := by
  simp [recsOf, List.flatMap_map, Entry.core]

theorem flatMap_drop_suffix {α β} (f : α → List β) (l : List α) (k : Nat) : (l.drop k).flatMap f <:+ l.flatMap f := by
  conv => rhs; rw [← List.take_append_drop k l, List.flatMap_append]
  exact List.suffix_append _ _

theorem mem_of_core_mem_drop {M L : List Entry} {k : Nat} (h : M.map Entry.core = (L.map Entry.core).drop k) {e : Entry}
    (he : e ∈ M) : ∃ e0 ∈ L, e0.core = e.core := by
  have : e.core ∈ (L.map Entry.core).drop k := by rw [← h]; exact List.mem_map.mpr ⟨e, he, rfl⟩
  obtain ⟨e0, he0, hc⟩ := List.mem_map.mp (List.mem_of_mem_drop this)
  exact ⟨e0, he0, hc⟩

theorem init_inv (p : Policy) (t0 : Nat) : InvC p (openRoller p [] t0).1 (openRoller p [] t0).2 t0 [] 0 := by
  refine ⟨[], [], ?_, Dir.nil p, by simp, ?_, ?_, by simp [recsOf], by simp, by simp⟩
  · simp [openRoller, fsOpen, fsGet, fsSet, fsRemove, canon]
  · simp only [openRoller, fsOpen, fsGet]; exact periodStart_idem _ _
  · simp only [openRoller, fsOpen, fsGet]; exact periodStart_le _ _

theorem advance_inv {p : Policy} {fs : FS} {st : RState} {now : Nat} {w : List (Nat × Nat)} {b : Nat}
    (h : InvC p fs st now w b) (now' : Nat) (hn : now ≤ now') : InvC p fs st now' w b := by
  obtain ⟨rolled, active, h1, h2, h3, h4, h5, h6, h7, h8⟩ := h
  exact ⟨rolled, active, h1, h2, h3, h4, by omega, h6, h7, h8⟩

theorem bound_mono {p : Policy} {fs : FS} {st : RState} {now : Nat} {w : List (Nat × Nat)} {b b' : Nat}
    (h : InvC p fs st now w b) (hb : b ≤ b') : InvC p fs st now w b' := by
  obtain ⟨rolled, active, h1, h2, h3, h4, h5, h6, h7, h8⟩ := h
  exact ⟨rolled, active, h1, h2, h3, h4, h5, h6, fun e he => Nat.le_trans (h7 e he) hb, h8⟩

/-- a restart (`new_at_time` over the existing directory) keeps the invariant -/
theorem open_inv {p : Policy} (hw : WF p) {fs : FS} {st : RState} {now : Nat} {w : List (Nat × Nat)} {b : Nat}
    (h : InvC p fs st now w b) : InvC p (openRoller p fs now).1 (openRoller p fs now).2 now w b := by
  obtain ⟨rolled, active, h1, h2, h3, h4, h5, h6, h7, h8⟩ := h
  have hget : fsGet fs (baseName p) = some { recs := active, gz := false } :=
    fsGet_perm h1 (h2.names_nodup hw active) (by simp [canon])
  refine ⟨rolled, active, ?_, h2, ?_, ?_, ?_, h6, h7, h8⟩
  · simpa [openRoller, fsOpen, hget] using h1
  · intro e he
    have := h3 e he
    have hm := periodStart_mono p.gran h5
    simp only [openRoller, fsOpen, hget]
    rw [h4] at hm; omega
  · simp only [openRoller, fsOpen, hget]; exact periodStart_idem _ _
  · simp only [openRoller, fsOpen, hget]; exact periodStart_le _ _

/-- appending one record to the active file -/
theorem append_inv {p : Policy} (hw : WF p) {fs : FS} {st : RState} {now : Nat} {w : List (Nat × Nat)} {b : Nat}
    (h : InvC p fs st now w b) (r : Nat × Nat) (sz : Nat) :
    InvC p (fsAppend fs (baseName p) r) { st with size := sz } now (w ++ [r]) b := by
  obtain ⟨rolled, active, h1, h2, h3, h4, h5, h6, h7, h8⟩ := h
  have hget : fsGet fs (baseName p) = some { recs := active, gz := false } :=
    fsGet_perm h1 (h2.names_nodup hw active) (by simp [canon])
  refine ⟨rolled, active ++ [r], ?_, h2, h3, h4, h5, ?_, h7, h8⟩
  · simp only [fsAppend, hget, fsSet, canon]
    refine List.Perm.cons _ ?_
    refine (fsRemove_perm h1 _).trans ?_
    rw [fsRemove_canon_base hw h2]
  · obtain ⟨pre, hpre⟩ := h6
    exact ⟨pre, by rw [← hpre]; simp [List.append_assoc]⟩

/-- a roll keeps the invariant (sequence bound grows by one) -/
theorem roll_inv {p : Policy} (hw : WF p) {fs : FS} {st : RState} {now : Nat} {w : List (Nat × Nat)} {b : Nat}
    (h : InvC p fs st now w b) (hnow : now < tMax) (hb : b + 1 < 4294967296) :
    InvC p (roll p fs st now).1 (roll p fs st now).2 now w (b + 1) := by
  obtain ⟨rolled, active, h1, h2, h3, h4, h5, h6, h7, h8⟩ := h
  obtain ⟨next, rolled', hp', hst', _, hn1, hnA, hnB, hd', hcore⟩ :=
    roll_rep hw fs st now rolled active h1 h2 h4 (by omega) h3 (fun e he => by have := h7 e he; omega)
  have hmono : st.pstart ≤ periodStart p.gran now := by
    have := periodStart_mono p.gran h5; rw [h4] at this; exact this
  have hnext : next ≤ b + 1 := by
    rcases hnB with h | ⟨e, he, h⟩
    · omega
    · have := h7 e he; omega
  refine ⟨rolled', [], hp', hd', ?_, ?_, ?_, ?_, ?_, ?_⟩
  · intro e he
    obtain ⟨e0, he0, hc⟩ := mem_of_core_mem_drop hcore he
    simp only [Entry.core, Prod.mk.injEq] at hc
    rw [hst']
    show e.period ≤ periodStart p.gran now
    rcases List.mem_append.mp he0 with h | h
    · have := h3 e0 h; omega
    · simp only [List.mem_singleton] at h; subst h; simp only at hc; omega
  · rw [hst']; exact periodStart_idem _ _
  · rw [hst']; exact periodStart_le _ _
  · rw [List.append_nil, recsOf_eq_core, hcore]
    refine (flatMap_drop_suffix _ _ _).trans ?_
    rw [← recsOf_eq_core]
    simp only [recsOf, List.flatMap_append, List.flatMap_cons, List.flatMap_nil, List.append_nil]
    exact h6
  · intro e he
    obtain ⟨e0, he0, hc⟩ := mem_of_core_mem_drop hcore he
    simp only [Entry.core, Prod.mk.injEq] at hc
    rcases List.mem_append.mp he0 with h | h
    · have := h7 e0 h; omega
    · simp only [List.mem_singleton] at h; subst h; simp only at hc; omega
  · intro n hn
    have hlen : rolled'.length = ((rolled ++ [({ period := st.pstart, seq := next, recs := active, gz := false } : Entry)]).map Entry.core).length
        - dropCount p (rolled.length + 1) := by
      rw [← List.length_drop, ← hcore, List.length_map]
    simp only [List.length_map, List.length_append, List.length_singleton, dropCount, hn] at hlen
    omega

/-- `write_internal` keeps the invariant -/
theorem write_inv {p : Policy} (hw : WF p) {fs : FS} {st : RState} {now : Nat} {w : List (Nat × Nat)} {b : Nat}
    (h : InvC p fs st now w b) (hnow : now < tMax) (hb : b + 2 < 4294967296) (r : Nat × Nat) :
    InvC p (write p fs st r now).1 (write p fs st r now).2 now (if r.2 = 0 then w else w ++ [r]) (b + 2) := by
  -- phase 1: time-triggered roll
  have h1 : InvC p (writePhase1 p fs st now).1 (writePhase1 p fs st now).2 now w (b + 1) := by
    unfold writePhase1
    split
    · exact roll_inv hw h hnow (by omega)
    · exact bound_mono h (by omega)
  unfold write
  generalize writePhase1 p fs st now = s1 at h1 ⊢
  unfold writePhase2
  by_cases hr : r.2 = 0
  · simp only [hr, if_true]; exact bound_mono h1 (by omega)
  · simp only [hr, if_false]
    have h2 := fun sz => append_inv hw h1 r sz
    cases hm : p.maxSize with
    | none => exact bound_mono (h2 _) (by omega)
    | some m =>
      simp only
      split
      · exact roll_inv hw (h2 _) hnow (by omega)
      · exact bound_mono (h2 _) (by omega)

/-! ### whole histories -/

/-- the clock stays in the modelled range and fewer than 2^31 - 1 writes happen -/
def Run.Bounded (r : Run) : Prop := r.now < tMax ∧ 2 * r.writes + 2 < 4294967296

def Run.Inv (p : Policy) (r : Run) : Prop := InvC p r.fs r.st r.now r.written (2 * r.writes)

theorem Run.init_inv (p : Policy) (t0 : Nat) : (Run.init p t0).Inv p := Roller.init_inv p t0

theorem Run.step_inv {p : Policy} (hw : WF p) {r : Run} (h : r.Inv p) (op : ROp) (hb : (r.step p op).Bounded) :
    (r.step p op).Inv p := by
  cases op with
  | write id len =>
    simp only [Run.Bounded, Run.step] at hb
    have := write_inv hw h hb.1 (by omega) (id, len)
    simpa [Run.Inv, Run.step, Nat.mul_add] using this
  | advance s => exact advance_inv h _ (Nat.le_add_right _ _)
  | restart => exact open_inv hw h

theorem Run.step_now_le (p : Policy) (r : Run) (op : ROp) : r.now ≤ (r.step p op).now ∧ r.writes ≤ (r.step p op).writes := by
  cases op <;> simp [Run.step]

theorem Run.run_now_le (p : Policy) (r : Run) (ops : List ROp) : r.now ≤ (r.run p ops).now ∧ r.writes ≤ (r.run p ops).writes := by
  induction ops generalizing r with
  | nil => exact ⟨Nat.le_refl _, Nat.le_refl _⟩
  | cons op rest ih =>
    have h1 := Run.step_now_le p r op
    have h2 := ih (r.step p op)
    simp only [Run.run, List.foldl_cons] at h2 ⊢
    exact ⟨Nat.le_trans h1.1 h2.1, Nat.le_trans h1.2 h2.2⟩

theorem Run.run_inv {p : Policy} (hw : WF p) (r : Run) (h : r.Inv p) (ops : List ROp) (hb : (r.run p ops).Bounded) :
    (r.run p ops).Inv p := by
  induction ops generalizing r with
  | nil => exact h
  | cons op rest ih =>
    simp only [Run.run, List.foldl_cons] at hb ⊢
    apply ih (r.step p op) _ hb
    apply Run.step_inv hw h
    have := Run.run_now_le p (r.step p op) rest
    simp only [Run.run] at this
    simp only [Run.Bounded] at hb ⊢
    omega

end Fv.Log.Roller
