import Fv.Lemmas.Mpsc3BHandles
/-! The handle invariant `HInv` of the `Mpsc3B` model and its consequence J1: a thread that holds a
claimed ticket keeps an open, counted sender handle busy — so `sender_count = 0` implies that no ticket
is claimed-and-unwritten (the premise of the straggler rule P5). -/
namespace Fv.Chan.Mpsc3B
set_option linter.unusedSimpArgs false

structure HInv (s : State) : Prop where
  count : s.senderCount = s.counted.length
  nodup : s.counted.Nodup
  countedUsed : ∀ h, h ∈ s.counted → s.hUsed h = true
  openCounted : ∀ h, s.hLive h = true → s.sClosed h = false → h ∈ s.counted
  busy : ∀ t, (s.th t).pc ≠ .idle → (s.th t).hb = true → s.sBusy (s.th t).h = some t
  busyLive : ∀ t, (s.th t).pc ≠ .idle → (s.th t).hb = true → (s.th t).pc ≠ .cnAdd → s.hLive (s.th t).h = true
  cloning : ∀ t, (s.th t).pc = .cnAdd → (s.th t).hb = true ∧ s.hUsed (s.th t).h = false
  closing1 : ∀ t, (s.th t).pc = .clCas → (s.th t).hb = true
  closing2 : ∀ t, (s.th t).pc = .clSub → (s.th t).hb = true ∧ (s.th t).h ∈ s.counted ∧ s.sClosed (s.th t).h = true
  sendish : ∀ t, inS (s.th t).pc = true → (s.th t).hb = true
  opened : ∀ t, inP (s.th t).pc = true → s.sClosed (s.th t).h = false

theorem hinv_init (c : Cfg) (p : Tid → List Op) : HInv (init c p) := by
  constructor <;> simp [init, inS, inP]

/-- two non-idle threads keeping a handle busy are the same thread -/
theorem HInv.busy_uniq {s : State} (hi : HInv s) {t u : Tid} (ht : (s.th t).pc ≠ .idle) (hu : (s.th u).pc ≠ .idle)
    (hbt : (s.th t).hb = true) (hbu : (s.th u).hb = true) (e : (s.th t).h = (s.th u).h) : t = u := by
  have h1 := hi.busy t ht hbt
  have h2 := hi.busy u hu hbu
  rw [e, h2] at h1; exact (Option.some.inj h1).symm

theorem special_pc {p : Pc} (h : special p = false) : p ≠ .cnAdd ∧ p ≠ .clCas ∧ p ≠ .clSub := by
  cases p <;> simp_all [special]

/-- frame for a step of thread `t` that lands on a pc outside `inS`, not `special`, keeps `h`/`hb`
and does not touch the handle tables: everything about other threads is inherited -/
theorem hinv_frame {s s' : State} {t : Tid} (hi : HInv s)
    (hth : ∀ u, u ≠ t → s'.th u = s.th u)
    (e1 : s'.sClosed = s.sClosed) (e2 : s'.hLive = s.hLive) (e2' : s'.hUsed = s.hUsed) (e3 : s'.sBusy = s.sBusy)
    (e4 : s'.counted = s.counted) (e5 : s'.senderCount = s.senderCount)
    (hni : (s.th t).pc ≠ .idle) (hnc : (s.th t).pc ≠ .cnAdd)
    (eh : (s'.th t).h = (s.th t).h) (ehb : (s'.th t).hb = (s.th t).hb)
    (hsp : special (s'.th t).pc = false) (hS : inS (s'.th t).pc = false) : HInv s' := by
  obtain ⟨m1, m2, m3⟩ := special_pc hsp
  have hP : inP (s'.th t).pc = false := by
    cases hp : inP (s'.th t).pc with
    | false => rfl
    | true => rw [inS_of_inP hp] at hS; simp at hS
  refine ⟨by rw [e5, e4]; exact hi.count, by rw [e4]; exact hi.nodup, by rw [e4, e2']; exact hi.countedUsed,
          by rw [e4, e2, e1]; exact hi.openCounted, ?_, ?_, ?_, ?_, ?_, ?_, ?_⟩
  · intro u hu hb
    by_cases e : u = t
    · subst e; rw [e3, eh]; exact hi.busy u hni (ehb ▸ hb)
    · rw [hth u e] at hu hb ⊢; rw [e3]; exact hi.busy u hu hb
  · intro u hu hb hc
    by_cases e : u = t
    · subst e; rw [e2, eh]; exact hi.busyLive u hni (ehb ▸ hb) hnc
    · rw [hth u e] at hu hb hc ⊢; rw [e2]; exact hi.busyLive u hu hb hc
  · intro u hu
    by_cases e : u = t
    · subst e; exact absurd hu m1
    · rw [hth u e] at hu ⊢; rw [e2']; exact hi.cloning u hu
  · intro u hu
    by_cases e : u = t
    · subst e; exact absurd hu m2
    · rw [hth u e] at hu ⊢; exact hi.closing1 u hu
  · intro u hu
    by_cases e : u = t
    · subst e; exact absurd hu m3
    · rw [hth u e] at hu ⊢; rw [e4, e1]; exact hi.closing2 u hu
  · intro u hu
    by_cases e : u = t
    · subst e; rw [hS] at hu; simp at hu
    · rw [hth u e] at hu ⊢; exact hi.sendish u hu
  · intro u hu
    by_cases e : u = t
    · subst e; rw [hP] at hu; simp at hu
    · rw [hth u e] at hu ⊢; rw [e1]; exact hi.opened u hu

section Special
variable {c : Cfg} {s s' : State} {t : Tid} {a : Act}

/-- clauses about the other threads after a step of `t` that changes the tables only at `t`'s own handle -/
theorem hinv_cnAdd (hi : HInv s) (hpc : (s.th t).pc = .cnAdd) (h : nxCnAdd c s t = some (a, s')) : HInv s' := by
  simp only [nxCnAdd, Option.some.injEq, Prod.mk.injEq] at h
  obtain ⟨-, rfl⟩ := h
  obtain ⟨hb, hl⟩ := hi.cloning t hpc
  have hni : (s.th t).pc ≠ .idle := by rw [hpc]; simp
  have hbusy := hi.busy t hni hb
  have other : ∀ u, u ≠ t → (s.th u).pc ≠ .idle → (s.th u).hb = true → (s.th u).h ≠ (s.th t).h := by
    intro u hu hp hbu e
    exact hu (hi.busy_uniq hp hni hbu hb e)
  refine ⟨?_, ?_, ?_, ?_, ?_, ?_, ?_, ?_, ?_, ?_, ?_⟩
  · simp [hi.count]
  · simp only [List.nodup_cons]
    exact ⟨fun hm => by have := hi.countedUsed _ hm; rw [hl] at this; simp at this, hi.nodup⟩
  · intro h hm
    simp only [List.mem_cons] at hm
    simp only [upd_apply]; split
    · rfl
    · rcases hm with e | hm
      · contradiction
      · exact hi.countedUsed h hm
  · intro h h1 h2
    simp only [upd_apply] at h1 h2
    simp only [List.mem_cons]
    by_cases e : h = (s.th t).h
    · exact Or.inl e
    · simp [e] at h1 h2; exact Or.inr (hi.openCounted h h1 h2)
  · intro u hu hbu
    by_cases e : u = t
    · subst e; simp only [upd_same] at hu hbu ⊢; rw [h_retWith]; exact hbusy
    · simp only [upd_other _ _ _ _ e] at hu hbu ⊢; exact hi.busy u hu hbu
  · intro u hu hbu hc
    by_cases e : u = t
    · subst e; simp only [upd_same, h_retWith, upd_apply]
    · simp only [upd_other _ _ _ _ e] at hu hbu hc ⊢
      simp only [upd_apply]; split
      · rfl
      · exact hi.busyLive u hu hbu hc
  · intro u hu
    by_cases e : u = t
    · subst e; simp [upd_same, retWith] at hu
    · simp only [upd_other _ _ _ _ e] at hu ⊢
      obtain ⟨h1, h2⟩ := hi.cloning u hu
      refine ⟨h1, ?_⟩
      have := other u e (by rw [hu]; simp) h1
      simp [upd_apply, this, h2]
  · intro u hu
    by_cases e : u = t
    · subst e; simp [upd_same, retWith] at hu
    · simp only [upd_other _ _ _ _ e] at hu ⊢; exact hi.closing1 u hu
  · intro u hu
    by_cases e : u = t
    · subst e; simp [upd_same, retWith] at hu
    · simp only [upd_other _ _ _ _ e] at hu ⊢
      obtain ⟨h1, h2, h3⟩ := hi.closing2 u hu
      have := other u e (by rw [hu]; simp) h1
      exact ⟨h1, List.mem_cons_of_mem _ h2, by simp [upd_apply, this, h3]⟩
  · intro u hu
    by_cases e : u = t
    · subst e; simp [upd_same, retWith, inS, inP] at hu
    · simp only [upd_other _ _ _ _ e] at hu ⊢; exact hi.sendish u hu
  · intro u hu
    by_cases e : u = t
    · subst e; simp [upd_same, retWith, inP] at hu
    · simp only [upd_other _ _ _ _ e] at hu ⊢
      have hbu := hi.sendish u (inS_of_inP hu)
      have := other u e (by intro e2; rw [e2] at hu; simp [inP] at hu) hbu
      simp [upd_apply, this]; exact hi.opened u hu

theorem hinv_clCas (hi : HInv s) (hpc : (s.th t).pc = .clCas) (h : nxClCas c s t = some (a, s')) : HInv s' := by
  have hb := hi.closing1 t hpc
  have hni : (s.th t).pc ≠ .idle := by rw [hpc]; simp
  have hbusy := hi.busy t hni hb
  have hlive := hi.busyLive t hni hb (by rw [hpc]; simp)
  have other : ∀ u, u ≠ t → (s.th u).pc ≠ .idle → (s.th u).hb = true → (s.th u).h ≠ (s.th t).h := by
    intro u hu hp hbu e
    exact hu (hi.busy_uniq hp hni hbu hb e)
  simp only [nxClCas] at h
  split at h <;> simp only [Option.some.injEq, Prod.mk.injEq] at h <;> obtain ⟨-, rfl⟩ := h
  · -- CAS failed: already closed
    exact hinv_frame (t := t) hi (fun u hu => upd_other _ _ _ _ hu) rfl rfl rfl rfl rfl rfl hni (by rw [hpc]; simp)
      (by simp only [upd_same, h_retWith]) (by simp only [upd_same, hb_retWith])
      (by simp only [upd_same]; cases (s.th t).op <;> rfl) (by simp only [upd_same]; cases (s.th t).op <;> rfl)
  · -- CAS succeeded
    rename_i hc
    have hc' : s.sClosed (s.th t).h = false := by simpa using hc
    have hcnt := hi.openCounted _ hlive hc'
    refine ⟨hi.count, hi.nodup, hi.countedUsed, ?_, ?_, ?_, ?_, ?_, ?_, ?_, ?_⟩
    · intro h h1 h2
      simp only [upd_apply] at h2
      split at h2
      · simp at h2
      · exact hi.openCounted h h1 h2
    · intro u hu hbu
      by_cases e : u = t
      · subst e; simp only [upd_same] at hu hbu ⊢; exact hbusy
      · simp only [upd_other _ _ _ _ e] at hu hbu ⊢; exact hi.busy u hu hbu
    · intro u hu hbu hcn
      by_cases e : u = t
      · subst e; simp only [upd_same]; exact hlive
      · simp only [upd_other _ _ _ _ e] at hu hbu hcn ⊢; exact hi.busyLive u hu hbu hcn
    · intro u hu
      by_cases e : u = t
      · subst e; simp [upd_same] at hu
      · simp only [upd_other _ _ _ _ e] at hu ⊢; exact hi.cloning u hu
    · intro u hu
      by_cases e : u = t
      · subst e; simp [upd_same] at hu
      · simp only [upd_other _ _ _ _ e] at hu ⊢; exact hi.closing1 u hu
    · intro u hu
      by_cases e : u = t
      · subst e; simp only [upd_same]; exact ⟨hb, hcnt, by simp⟩
      · simp only [upd_other _ _ _ _ e] at hu ⊢
        obtain ⟨h1, h2, h3⟩ := hi.closing2 u hu
        have := other u e (by rw [hu]; simp) h1
        exact ⟨h1, h2, by simp [upd_apply, this, h3]⟩
    · intro u hu
      by_cases e : u = t
      · subst e; simp [upd_same, inS, inP] at hu
      · simp only [upd_other _ _ _ _ e] at hu ⊢; exact hi.sendish u hu
    · intro u hu
      by_cases e : u = t
      · subst e; simp [upd_same, inP] at hu
      · simp only [upd_other _ _ _ _ e] at hu ⊢
        have hbu := hi.sendish u (inS_of_inP hu)
        have := other u e (by intro e2; rw [e2] at hu; simp [inP] at hu) hbu
        simp [upd_apply, this]; exact hi.opened u hu

theorem hinv_clSub (hi : HInv s) (hpc : (s.th t).pc = .clSub) (h : nxClSub c s t = some (a, s')) : HInv s' := by
  obtain ⟨hb, hcnt, hcl⟩ := hi.closing2 t hpc
  have hni : (s.th t).pc ≠ .idle := by rw [hpc]; simp
  have hbusy := hi.busy t hni hb
  have hlive := hi.busyLive t hni hb (by rw [hpc]; simp)
  have other : ∀ u, u ≠ t → (s.th u).pc ≠ .idle → (s.th u).hb = true → (s.th u).h ≠ (s.th t).h := by
    intro u hu hp hbu e
    exact hu (hi.busy_uniq hp hni hbu hb e)
  simp only [nxClSub, Option.some.injEq, Prod.mk.injEq] at h
  obtain ⟨-, rfl⟩ := h
  have hpc' : ∀ p, (if s.senderCount = 1 then ({ s.th t with pc := Pc.waSLock } : Th) else retWith (s.th t) Res.ok).pc = p →
      p = .waSLock ∨ p = .ret := by
    intro p hp; split at hp
    · exact Or.inl hp.symm
    · exact Or.inr hp.symm
  have hh : (if s.senderCount = 1 then ({ s.th t with pc := Pc.waSLock } : Th) else retWith (s.th t) Res.ok).h = (s.th t).h := by
    split <;> rfl
  have hhb : (if s.senderCount = 1 then ({ s.th t with pc := Pc.waSLock } : Th) else retWith (s.th t) Res.ok).hb = (s.th t).hb := by
    split <;> rfl
  refine ⟨?_, ?_, ?_, ?_, ?_, ?_, ?_, ?_, ?_, ?_, ?_⟩
  · simp only []; rw [List.length_erase_of_mem hcnt, hi.count]
  · exact hi.nodup.erase _
  · intro h hm; exact hi.countedUsed h (List.mem_of_mem_erase hm)
  · intro h h1 h2
    have hne : h ≠ (s.th t).h := by intro e; rw [e, hcl] at h2; simp at h2
    exact (List.mem_erase_of_ne hne).2 (hi.openCounted h h1 h2)
  · intro u hu hbu
    by_cases e : u = t
    · subst e; simp only [upd_same] at hu hbu ⊢; rw [hh]; exact hbusy
    · simp only [upd_other _ _ _ _ e] at hu hbu ⊢; exact hi.busy u hu hbu
  · intro u hu hbu hcn
    by_cases e : u = t
    · subst e; simp only [upd_same]; rw [hh]; exact hlive
    · simp only [upd_other _ _ _ _ e] at hu hbu hcn ⊢; exact hi.busyLive u hu hbu hcn
  · intro u hu
    by_cases e : u = t
    · subst e; simp only [upd_same] at hu; rcases hpc' _ hu with h | h <;> simp at h
    · simp only [upd_other _ _ _ _ e] at hu ⊢; exact hi.cloning u hu
  · intro u hu
    by_cases e : u = t
    · subst e; simp only [upd_same] at hu; rcases hpc' _ hu with h | h <;> simp at h
    · simp only [upd_other _ _ _ _ e] at hu ⊢; exact hi.closing1 u hu
  · intro u hu
    by_cases e : u = t
    · subst e; simp only [upd_same] at hu; rcases hpc' _ hu with h | h <;> simp at h
    · simp only [upd_other _ _ _ _ e] at hu ⊢
      obtain ⟨h1, h2, h3⟩ := hi.closing2 u hu
      have := other u e (by rw [hu]; simp) h1
      exact ⟨h1, (List.mem_erase_of_ne this).2 h2, h3⟩
  · intro u hu
    by_cases e : u = t
    · subst e; simp only [upd_same] at hu
      split at hu <;> simp [retWith, inS, inP] at hu
    · simp only [upd_other _ _ _ _ e] at hu ⊢; exact hi.sendish u hu
  · intro u hu
    by_cases e : u = t
    · subst e; simp only [upd_same] at hu
      split at hu <;> simp [retWith, inP] at hu
    · simp only [upd_other _ _ _ _ e] at hu ⊢; exact hi.opened u hu

end Special

/-- `HInv` from a handle summary (shared by visible actions and spurious park returns) -/
theorem hinv_of_sum {s s' : State} {t : Tid} (hi : HInv s)
    (hsum : (∀ u, u ≠ t → s'.th u = s.th u) ∧ (s.th t).pc ≠ .idle ∧
      s'.sClosed = s.sClosed ∧ s'.hLive = s.hLive ∧ s'.hUsed = s.hUsed ∧ s'.sBusy = s.sBusy ∧ s'.counted = s.counted ∧
      s'.senderCount = s.senderCount ∧ s'.resurrect = s.resurrect ∧
      special (s'.th t).pc = false ∧
      (inS (s'.th t).pc = true → inS (s.th t).pc = true ∨ ((s.th t).pc = .boPark ∧ (s.th t).hb = true)) ∧
      (inP (s'.th t).pc = true → inP (s.th t).pc = true ∨ ((s.th t).pc = .cClosed ∧ s.sClosed (s.th t).h = false)))
    (hhb : (s'.th t).h = (s.th t).h ∧ (s'.th t).hb = (s.th t).hb) (hsp : special (s.th t).pc = false) : HInv s' := by
  obtain ⟨hth, hni, e1, e2, e2', e3, e4, e5, -, hsp', hS, hP⟩ := hsum
  obtain ⟨eh, ehb⟩ := hhb
  obtain ⟨n1, n2, n3⟩ := special_pc hsp
  obtain ⟨m1, m2, m3⟩ := special_pc hsp'
  have thu : ∀ u, u ≠ t → s'.th u = s.th u := hth
  refine ⟨by rw [e5, e4]; exact hi.count, by rw [e4]; exact hi.nodup, by rw [e4, e2']; exact hi.countedUsed,
          by rw [e4, e2, e1]; exact hi.openCounted, ?_, ?_, ?_, ?_, ?_, ?_, ?_⟩
  · intro u hu hb
    by_cases e : u = t
    · subst e; rw [e3, eh]; exact hi.busy u hni (ehb ▸ hb)
    · rw [thu u e] at hu hb ⊢; rw [e3]; exact hi.busy u hu hb
  · intro u hu hb hc
    by_cases e : u = t
    · subst e; rw [e2, eh]; exact hi.busyLive u hni (ehb ▸ hb) n1
    · rw [thu u e] at hu hb hc ⊢; rw [e2]; exact hi.busyLive u hu hb hc
  · intro u hu
    by_cases e : u = t
    · subst e; exact absurd hu m1
    · rw [thu u e] at hu ⊢; rw [e2']; exact hi.cloning u hu
  · intro u hu
    by_cases e : u = t
    · subst e; exact absurd hu m2
    · rw [thu u e] at hu ⊢; exact hi.closing1 u hu
  · intro u hu
    by_cases e : u = t
    · subst e; exact absurd hu m3
    · rw [thu u e] at hu ⊢; rw [e4, e1]; exact hi.closing2 u hu
  · intro u hu
    by_cases e : u = t
    · subst e
      rw [ehb]
      rcases hS hu with h1 | ⟨_, h2⟩
      · exact hi.sendish u h1
      · exact h2
    · rw [thu u e] at hu ⊢; exact hi.sendish u hu
  · intro u hu
    by_cases e : u = t
    · subst e
      rw [e1, eh]
      rcases hP hu with h1 | ⟨_, h2⟩
      · exact hi.opened u h1
      · exact h2
    · rw [thu u e] at hu ⊢; rw [e1]; exact hi.opened u hu

theorem hinv_next {c s t a s'} (hi : HInv s) (h : next c s t = some (a, s')) : HInv s' := by
  cases hsp : special (s.th t).pc with
  | false => exact hinv_of_sum hi (handle_sum h hsp) (next_hhb h) hsp
  | true =>
    unfold next at h
    cases hpc : (s.th t).pc <;> simp only [hpc] at h <;> rw [hpc] at hsp <;> simp [special] at hsp
    · exact hinv_cnAdd hi hpc h
    · exact hinv_clCas hi hpc h
    · exact hinv_clSub hi hpc h

theorem hinv_spurious {s t a s'} (hi : HInv s) (h : stepSpurious s t = some (a, s')) : HInv s' := by
  simp only [stepSpurious] at h
  split at h <;> simp only [Option.some.injEq, Prod.mk.injEq, reduceCtorEq] at h
  all_goals (obtain ⟨-, rfl⟩ := h; rename_i hpc)
  · exact hinv_of_sum (t := t) hi ⟨fun u hu => upd_other _ _ _ _ hu, by rw [hpc]; simp, rfl, rfl, rfl, rfl, rfl, rfl, rfl,
      by simp [special], by simp [inS, hpc], by simp [inP]⟩ ⟨by simp, by simp⟩ (by rw [hpc]; rfl)
  · exact hinv_of_sum (t := t) hi ⟨fun u hu => upd_other _ _ _ _ hu, by rw [hpc]; simp, rfl, rfl, rfl, rfl, rfl, rfl, rfl,
      by simp [special], by simp [inS, inP], by simp [inP]⟩ ⟨by simp, by simp⟩ (by rw [hpc]; rfl)
  · exact hinv_of_sum (t := t) hi ⟨fun u hu => upd_other _ _ _ _ hu, by rw [hpc]; simp, rfl, rfl, rfl, rfl, rfl, rfl, rfl,
      by simp [notSp_pollEntry], by simp only [upd_same, hpc]; unfold pollEntry retWith; (repeat' split) <;> simp_all [inS, inP],
      by simp [notP_pollEntry]⟩ ⟨by simp [h_pollEntry], by simp [hb_pollEntry]⟩ (by rw [hpc]; rfl)

theorem callTh_facts (c : Cfg) (s : State) (x x0 : Th) (op : Op)
    (h0 : x0.hb = (opHandle s op).isSome) (h1 : x0.h = (opHandle s op).getD 0) :
    (callTh c s x x0 op).hb = (opHandle s op).isSome ∧
    (∀ h, opHandle s op = some h → (callTh c s x x0 op).h = h) ∧
    ((callTh c s x x0 op).pc = .cnAdd → ∃ a b, op = .clone a b) ∧
    ((callTh c s x x0 op).pc ≠ .cnAdd → ∀ a b, op ≠ .clone a b) ∧
    (callTh c s x x0 op).pc ≠ .clSub ∧ (callTh c s x x0 op).pc ≠ .idle ∧
    ((callTh c s x x0 op).pc = .clCas → (opHandle s op).isSome = true) ∧
    (inS (callTh c s x x0 op).pc = true → (opHandle s op).isSome = true) ∧
    inP (callTh c s x x0 op).pc = false := by
  cases op <;> simp only [callTh, retWith, deqCall] <;> (try (repeat' split)) <;> simp_all [opHandle, inS, inP]

theorem callOk_handle {s : State} {op : Op} (hok : callOk s op = true) :
    ∀ h, opHandle s op = some h → (s.sBusy h).isNone = true ∧ ((∀ a b, op ≠ .clone a b) → s.hLive h = true) ∧
      ((∃ a, op = .clone a h) → s.hUsed h = false) := by
  intro h hh
  cases op <;> simp_all [callOk, opHandle]
  all_goals (try (split at hh <;> simp_all))

theorem hinv_call {c s t a s'} (hi : HInv s) (h : stepCall c s t = some (a, s')) : HInv s' := by
  simp only [stepCall] at h
  split at h
  · split at h
    · simp only [Option.some.injEq, Prod.mk.injEq] at h
      obtain ⟨-, rfl⟩ := h
      rename_i op rest hpc hprog hok
      have hf := callTh_facts c s (s.th t) (callX0 s t op) op rfl rfl
      generalize callTh c s (s.th t) (callX0 s t op) op = y at hf ⊢
      obtain ⟨f1, f2, f3, f3', f4, f4', f5, f6, f7⟩ := hf
      have hk := callOk_handle hok
      have other : ∀ u, u ≠ t → (s.th u).pc ≠ .idle → (s.th u).hb = true → ∀ h, opHandle s op = some h → (s.th u).h ≠ h := by
        intro u hu hp hbu h hh e
        have := hi.busy u hp hbu
        rw [e] at this
        have h2 := (hk h hh).1
        rw [this] at h2; simp at h2
      refine ⟨hi.count, hi.nodup, hi.countedUsed, hi.openCounted, ?_, ?_, ?_, ?_, ?_, ?_, ?_⟩
      · intro u hu hbu
        by_cases e : u = t
        · subst e
          simp only [upd_same] at hu hbu ⊢
          rw [f1] at hbu
          cases hh : opHandle s op with
          | none => rw [hh] at hbu; simp at hbu
          | some h => simp only []; rw [f2 h hh]; simp
        · simp only [upd_other _ _ _ _ e] at hu hbu ⊢
          cases hh : opHandle s op with
          | none => exact hi.busy u hu hbu
          | some h => simp only []; rw [upd_other _ _ _ _ (other u e hu hbu h hh)]; exact hi.busy u hu hbu
      · intro u hu hbu hc
        by_cases e : u = t
        · subst e
          simp only [upd_same] at hu hbu hc ⊢
          rw [f1] at hbu
          cases hh : opHandle s op with
          | none => rw [hh] at hbu; simp at hbu
          | some h => rw [f2 h hh]; exact (hk h hh).2.1 (f3' hc)
        · simp only [upd_other _ _ _ _ e] at hu hbu hc ⊢; exact hi.busyLive u hu hbu hc
      · intro u hu
        by_cases e : u = t
        · subst e
          simp only [upd_same] at hu ⊢
          obtain ⟨a, b, hop⟩ := f3 hu
          have hh : opHandle s op = some b := by rw [hop]; rfl
          refine ⟨by rw [f1, hh]; rfl, ?_⟩
          rw [f2 b hh]; exact (hk b hh).2.2 ⟨a, hop⟩
        · simp only [upd_other _ _ _ _ e] at hu ⊢; exact hi.cloning u hu
      · intro u hu
        by_cases e : u = t
        · subst e; simp only [upd_same] at hu ⊢; rw [f1]; exact f5 hu
        · simp only [upd_other _ _ _ _ e] at hu ⊢; exact hi.closing1 u hu
      · intro u hu
        by_cases e : u = t
        · subst e; simp only [upd_same] at hu; exact absurd hu f4
        · simp only [upd_other _ _ _ _ e] at hu ⊢; exact hi.closing2 u hu
      · intro u hu
        by_cases e : u = t
        · subst e; simp only [upd_same] at hu ⊢; rw [f1]; exact f6 hu
        · simp only [upd_other _ _ _ _ e] at hu ⊢; exact hi.sendish u hu
      · intro u hu
        by_cases e : u = t
        · subst e; simp only [upd_same] at hu; exact absurd hu (by rw [f7]; simp)
        · simp only [upd_other _ _ _ _ e] at hu ⊢; exact hi.opened u hu
    · simp at h
  · simp at h

theorem retHLive_true {x : Th} {hl : Hid → Bool} {h : Hid} (hh : retHLive x hl h = true) : hl h = true := by
  unfold retHLive at hh
  cases hop : x.op <;> rw [hop] at hh <;> simp only [] at hh
  case dropS =>
    split at hh
    · simp only [upd_apply] at hh; split at hh
      · simp at hh
      · exact hh
    · exact hh
  all_goals exact hh

theorem retHLive_other {x : Th} {hl : Hid → Bool} {h : Hid} (hne : x.hb = true → h ≠ x.h) : retHLive x hl h = hl h := by
  unfold retHLive
  cases hop : x.op <;> simp only []
  case dropS =>
    split
    · rename_i hb; exact upd_other _ _ _ _ (hne hb)
    · rfl

theorem hinv_ret {s t a s'} (hi : HInv s) (h : stepRet s t = some (a, s')) : HInv s' := by
  simp only [stepRet] at h
  split at h
  · simp only [Option.some.injEq, Prod.mk.injEq] at h
    obtain ⟨-, rfl⟩ := h
    rename_i hpc
    have hni : (s.th t).pc ≠ .idle := by rw [hpc]; simp
    have other : ∀ u, u ≠ t → (s.th u).pc ≠ .idle → (s.th u).hb = true → (s.th t).hb = true → (s.th u).h ≠ (s.th t).h := by
      intro u hu hp hbu hbt e
      exact hu (hi.busy_uniq hp hni hbu hbt e)
    refine ⟨hi.count, hi.nodup, hi.countedUsed, fun h h1 h2 => hi.openCounted h (retHLive_true h1) h2, ?_, ?_, ?_, ?_, ?_, ?_, ?_⟩
    · intro u hu hbu
      by_cases e : u = t
      · subst e; simp [upd_same] at hu
      · simp only [upd_other _ _ _ _ e] at hu hbu ⊢
        split
        · rename_i hbt; rw [upd_other _ _ _ _ (other u e hu hbu hbt)]; exact hi.busy u hu hbu
        · exact hi.busy u hu hbu
    · intro u hu hbu hc
      by_cases e : u = t
      · subst e; simp [upd_same] at hu
      · simp only [upd_other _ _ _ _ e] at hu hbu hc ⊢
        rw [retHLive_other (fun hbt => other u e hu hbu hbt)]
        exact hi.busyLive u hu hbu hc
    · intro u hu
      by_cases e : u = t
      · subst e; simp [upd_same] at hu
      · simp only [upd_other _ _ _ _ e] at hu ⊢; exact hi.cloning u hu
    · intro u hu
      by_cases e : u = t
      · subst e; simp [upd_same] at hu
      · simp only [upd_other _ _ _ _ e] at hu ⊢; exact hi.closing1 u hu
    · intro u hu
      by_cases e : u = t
      · subst e; simp [upd_same] at hu
      · simp only [upd_other _ _ _ _ e] at hu ⊢; exact hi.closing2 u hu
    · intro u hu
      by_cases e : u = t
      · subst e; simp [upd_same, inS, inP] at hu
      · simp only [upd_other _ _ _ _ e] at hu ⊢; exact hi.sendish u hu
    · intro u hu
      by_cases e : u = t
      · subst e; simp [upd_same, inP] at hu
      · simp only [upd_other _ _ _ _ e] at hu ⊢; exact hi.opened u hu
  · simp at h

theorem hinv_step {c s t l s'} (hi : HInv s) (h : step c s t l = some s') : HInv s' := by
  unfold step at h
  cases hA : stepA c s t l with
  | none => simp [hA] at h
  | some r =>
    obtain ⟨a, s1⟩ := r
    simp [hA] at h; subst h
    cases l <;> simp only [stepA] at hA
    · exact hinv_next hi hA
    · exact hinv_call hi hA
    · exact hinv_ret hi hA
    · exact hinv_spurious hi hA

theorem hinv_reach {c p s} (h : Reach c p s) : HInv s := by
  induction h with
  | init => exact hinv_init c p
  | step _ hs ih => exact hinv_step ih hs

end Fv.Chan.Mpsc3B
