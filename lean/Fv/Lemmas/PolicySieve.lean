import Fv.Lemmas.PolicySpec
/-!
# Helper lemmas for C14: SIEVE
-/
namespace Fv.Cache.Policy.Sieve

theorem Inv_init : Inv init := by simp [Inv, init, tracked]

theorem tracked_access (s : State) (k c : Nat) : tracked (access s k c) = tracked s := by
  simp only [tracked, access, List.map_map]
  apply List.map_congr_left
  intro e _; simp only [Function.comp, pair]; split <;> rfl

theorem tracked_admit (s : State) (k c : Nat) :
    tracked (admit s k c).1 = (k, c) :: LruList.without (tracked s) k := by
  simp only [tracked, admit, List.map_cons, without_map]; rfl

theorem tracked_remove (s : State) (k : Nat) :
    tracked (remove s k) = LruList.without (tracked s) k := by
  simp only [tracked, remove, without_map]; rfl

theorem scan_some : ∀ (fuel : Nat) (s s1 : State) (e : Ent), scan fuel s = (s1, some e) →
    (tracked s).Perm (pair e :: tracked s1) := by
  intro fuel
  induction fuel with
  | zero => intro s s1 e h; simp [scan] at h
  | succ fuel ih =>
    intro s s1 e h
    unfold scan at h
    split at h
    · dsimp only at h
      split at h
      · simp at h
      · next e0 he0 =>
        split at h
        · simp only [Prod.mk.injEq, Option.some.injEq] at h
          obtain ⟨rfl, rfl⟩ := h
          simp only [tracked]
          exact (perm_eraseIdx he0).map pair
        · have := ih _ _ _ h
          simp only [tracked] at this ⊢
          rwa [map_set_same (f := pair) (e' := { e0 with visited := false }) he0 rfl] at this
    · simp at h

theorem scan_none : ∀ (fuel : Nat) (s s1 : State), scan fuel s = (s1, none) →
    tracked s1 = tracked s := by
  intro fuel
  induction fuel with
  | zero => intro s s1 h; simp [scan] at h; rw [h]
  | succ fuel ih =>
    intro s s1 h
    unfold scan at h
    split at h
    · dsimp only at h
      split at h
      · simp at h; rw [h]
      · next e0 he0 =>
        split at h
        · simp at h
        · have := ih _ _ h
          simp only [tracked] at this ⊢
          rwa [map_set_same (f := pair) (e' := { e0 with visited := false }) he0 rfl] at this
    · simp at h; rw [h]

theorem length_tracked (s : State) : (tracked s).length = s.order.length := by simp [tracked]

theorem evictLoop_spec : ∀ (fuel : Nat) (s : State) (need : Nat) (vs : List Nat) (freed : Nat),
    s.order.length < fuel →
    ∃ popped, (evictLoop fuel s need vs freed).2.1 = vs ++ keys popped
      ∧ (evictLoop fuel s need vs freed).2.2 = freed + costSum popped
      ∧ (tracked s).Perm (tracked (evictLoop fuel s need vs freed).1 ++ popped)
      ∧ (need ≤ costSum popped ∨ tracked (evictLoop fuel s need vs freed).1 = []) := by
  intro fuel
  induction fuel with
  | zero => intro s _ _ _ hf; omega
  | succ fuel ih =>
    intro s need vs freed hf
    unfold evictLoop
    split
    · next hcond =>
      split
      · next s1 e hs =>
        have hp := scan_some _ _ _ _ hs
        have hlen : s1.order.length < fuel := by
          have := hp.length_eq; simp [length_tracked] at this; omega
        obtain ⟨popped, h1, h2, h3, h4⟩ := ih s1 (need - e.cost) (vs ++ [e.key]) (freed + e.cost) hlen
        refine ⟨pair e :: popped, by simp [h1, pair], by simp [h2, pair]; omega, ?_, ?_⟩
        · exact (hp.trans (List.Perm.cons _ h3)).trans List.perm_middle.symm
        · rcases h4 with h4 | h4
          · left; simp [pair]; omega
          · right; exact h4
      · next s1 hs =>
        have ht := scan_none _ _ _ hs
        dsimp only
        split
        · next e hl =>
          obtain ⟨init, hinit⟩ := List.getLast?_eq_some_iff.1 hl
          have hp : (tracked s).Perm (pair e :: init.map pair) := by
            rw [← ht]; simp only [tracked, hinit, List.map_append, List.map_cons, List.map_nil]
            exact List.perm_append_comm
          have hdl : s1.order.dropLast = init := by rw [hinit]; simp
          simp only [hdl]
          have hlen : init.length < fuel := by
            have := hp.length_eq; simp [length_tracked] at this; omega
          obtain ⟨popped, h1, h2, h3, h4⟩ :=
            ih { order := init, hand := 0 } (need - e.cost) (vs ++ [e.key]) (freed + e.cost) hlen
          refine ⟨pair e :: popped, by simp [h1, pair], by simp [h2, pair]; omega, ?_, ?_⟩
          · have h3' : (init.map pair).Perm _ := h3
            exact (hp.trans (List.Perm.cons _ h3')).trans List.perm_middle.symm
          · rcases h4 with h4 | h4
            · left; simp [pair]; omega
            · right; exact h4
        · next hl =>
          have hnil : s1.order = [] := by simpa using hl
          refine ⟨[], by simp, by simp, ?_, Or.inr (by simp [tracked, hnil])⟩
          rw [← ht]; simp [tracked]
    · next hcond =>
      refine ⟨[], by simp, by simp, by simp, ?_⟩
      by_cases hn : need > 0
      · right
        by_cases ho : s.order = []
        · simp [tracked, ho]
        · exact absurd ⟨hn, ho⟩ hcond
      · left; omega

theorem evict_spec (s : State) (n : Nat) :
    ∃ popped, (evict s n).2.1 = keys popped ∧ (evict s n).2.2 = costSum popped
      ∧ (tracked s).Perm (tracked (evict s n).1 ++ popped)
      ∧ (n ≤ costSum popped ∨ tracked (evict s n).1 = []) := by
  obtain ⟨popped, h1, h2, h3, h4⟩ := evictLoop_spec (s.order.length + 1) s n [] 0 (by omega)
  exact ⟨popped, by simpa [evict] using h1, by simpa [evict] using h2, h3, h4⟩

end Fv.Cache.Policy.Sieve
