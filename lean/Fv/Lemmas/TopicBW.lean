import Fv.Lemmas.TopicB
import Fv.Lemmas.TopicExact
import Fv.Lemmas.TopicDisc2
/-! Model B: what enters a mailbox was published while its receiver was subscribed (contract
sense) at the snapshot instant — schedules that never call `subscribe` on a closed handle. -/
namespace Fv.Chan.TopicB
open Fv.Chan.Topic

def subscribedAt (pubs : List BPub) (i m : Nat) : Bool :=
  match pubs[i]? with
  | some p => p.subscribed m
  | none => false

theorem subscribedAt_append_lt (pubs : List BPub) (p : BPub) (i m : Nat) (h : i < pubs.length) :
    subscribedAt (pubs ++ [p]) i m = subscribedAt pubs i m := by
  unfold subscribedAt; rw [List.getElem?_append_left h]

theorem subscribedAt_append_last (pubs : List BPub) (p : BPub) (m : Nat) :
    subscribedAt (pubs ++ [p]) pubs.length m = p.subscribed m := by
  unfold subscribedAt; simp

structure BW (b : BSt) : Prop where
  bi : BI b
  ri : RI True b.q
  fl : ∀ f, f ∈ b.flights → ∀ m, m ∈ f.rem →
        m < b.q.rxs.length ∧ (isLive b.q.rxs m = true → subscribedAt b.pubs f.pid m = true)
  acc : ∀ m i, i ∈ b.acc m → subscribedAt b.pubs i m = true

theorem BW_binit (cap : Nat) (k : Kind) : BW (binit cap k) :=
  ⟨BI_binit cap k, RI_init cap k True, by simp [binit], by simp [binit]⟩

theorem isLive_true_iff (rxs : List Rx) (m : Nat) : isLive rxs m = true ↔ ∃ y, rxs[m]? = some y ∧ y.live = true := by
  unfold isLive
  cases rxs[m]? with
  | none => simp
  | some y => simp

theorem BW_bapi (b : BSt) (op : Op) (hop : OkSub b.q op) (hb : BW b) : BW (bapi b op) := by
  have hbi := BI_bapi b op hb.bi
  unfold bapi at hbi ⊢
  by_cases hs : isSend op = true
  · simp only [hs, if_true]; exact hb
  · simp only [hs] at hbi ⊢
    refine ⟨hbi, RI_step b.q op (fun _ => hop) hb.ri, ?_, hb.acc⟩
    intro f hf m hm
    obtain ⟨h1, h2⟩ := hb.fl f hf m hm
    refine ⟨Nat.lt_of_lt_of_le h1 (step_rxs_length_le b.q op), ?_⟩
    intro hl
    obtain ⟨y, hy, hyl⟩ := (isLive_true_iff _ _).1 hl
    obtain ⟨x, hx, hxl⟩ := live_step b.q op m y hy hyl h1
    exact h2 ((isLive_true_iff _ _).2 ⟨x, hx, hxl⟩)

theorem BW_bbegin (b : BSt) (tid h : Nat) (t : Topic) (v : Val) (hb : BW b) : BW (bbegin b tid h t v) := by
  have hbi := BI_bbegin b tid h t v hb.bi
  unfold bbegin at hbi ⊢
  cases hfo : flightOf b.flights tid with
  | some f => exact hb
  | none =>
    simp only [hfo] at hbi ⊢
    cases htx : txLive b.q h with
    | none => exact hb
    | some x =>
      simp only [htx] at hbi ⊢
      split
      · exact hb
      · rename_i hc
        simp only [hc] at hbi
        have hda := dispAlive_of_txLive b.q h x htx
        refine ⟨hbi, hb.ri, ?_, ?_⟩
        · intro f hf m hm
          simp only [List.mem_append, List.mem_singleton] at hf
          rcases hf with hf | hf
          · obtain ⟨h1, h2⟩ := hb.fl f hf m hm
            refine ⟨h1, fun hl => ?_⟩
            rw [subscribedAt_append_lt _ _ _ _ (hb.bi.fl f hf).lt]; exact h2 hl
          · subst hf
            simp only [] at hm ⊢
            have hreg : (t, m) ∈ b.q.regs := (mem_subsOf b.q t m).1 hm
            refine ⟨hb.ri.inRange t m hreg, fun hl => ?_⟩
            rw [subscribedAt_append_last]
            exact (routed_iff b.q hb.ri hda t m).1 ⟨hreg, hl⟩
        · intro m i hi
          rw [subscribedAt_append_lt _ _ _ _ (hb.bi.bnd m i hi)]; exact hb.acc m i hi

theorem visitQ_rxs_get (q : St) (m : Nat) (msg : Msg) (x : Nat) (y : Rx) (hy : (visitQ q m msg).rxs[x]? = some y) :
    ∃ z, q.rxs[x]? = some z ∧ SameCore z y := by
  unfold visitQ at hy
  exact core_deliverTo msg q.rxs [m] x y hy

theorem isLive_visitQ (q : St) (m : Nat) (msg : Msg) (x : Nat) : isLive (visitQ q m msg).rxs x = isLive q.rxs x := by
  unfold visitQ
  apply isLive_modAt_of_live
  intro y
  by_cases hl : y.live = true
  · rw [if_pos hl]; unfold deliver; split <;> rfl
  · rw [if_neg hl]

theorem RI_visitQ (q : St) (m : Nat) (msg : Msg) {P : Prop} (h : RI P q) : RI P (visitQ q m msg) := by
  refine RI_frame_core q _ ?_ ?_ ?_ ?_ h
  · rfl
  · simp [visitQ, length_modAt]
  · exact fun h => h
  · intro x y hy _; exact visitQ_rxs_get q m msg x y hy

/-- the visited mailbox takes the message only if its receiver is alive -/
theorem grew_live (q : St) (m : Nat) (msg : Msg) (h : grewAt q (visitQ q m msg) m = true) : isLive q.rxs m = true := by
  unfold grewAt at h
  have hb := bufOf_visit q m msg m
  simp only [decide_eq_true_eq] at h
  unfold isLive
  unfold bufOf at h hb
  cases hq : q.rxs[m]? with
  | none => simp [hq] at hb; rw [hb] at h; simp [hq] at h
  | some y =>
    simp only [hq, true_and] at hb
    by_cases hl : y.live = true
    · exact hl
    · simp only [hl, false_and, if_false] at hb
      rw [hb] at h; simp [hq] at h

theorem BW_bdeliver (b : BSt) (tid : Nat) (hb : BW b) : BW (bdeliver b tid) := by
  have hbi := BI_bdeliver b tid hb.bi
  unfold bdeliver at hbi ⊢
  cases hfo : flightOf b.flights tid with
  | none => exact hb
  | some f =>
    obtain ⟨hfm, hft⟩ := flightOf_some b.flights tid f hfo
    simp only [hfo] at hbi ⊢
    cases hrem : f.rem with
    | nil =>
      simp only [hrem] at hbi ⊢
      exact ⟨hbi, hb.ri, fun g hg => hb.fl g (List.mem_filter.1 hg).1, hb.acc⟩
    | cons m rest =>
      simp only [hrem] at hbi ⊢
      by_cases hheld : b.held.contains m = true
      · simp only [hheld, if_true]; exact hb
      have hheld' : b.held.contains m = false := by cases hc : b.held.contains m with | true => exact absurd hc hheld | false => rfl
      simp only [hheld', Bool.false_eq_true, if_false] at hbi ⊢
      have hmrem : m ∈ f.rem := by rw [hrem]; exact List.mem_cons_self ..
      refine ⟨hbi, RI_visitQ _ _ _ hb.ri, ?_, ?_⟩
      · intro g hg x hx
        obtain ⟨g0, hg0, rfl⟩ := List.mem_map.1 hg
        have hx0 : x ∈ g0.rem := by
          by_cases hgt : (g0.tid == tid) = true
          · simp only [hgt, if_true] at hx
            have : g0 = f := tid_inj b.flights hb.bi.tids g0 f hg0 hfm (by rw [hft]; simpa using hgt)
            subst this; rw [hrem]; exact List.mem_cons_of_mem _ hx
          · simp only [hgt] at hx; exact hx
        have hpid : (if (g0.tid == tid) = true then { g0 with rem := rest } else g0).pid = g0.pid := by
          split <;> rfl
        obtain ⟨h1, h2⟩ := hb.fl g0 hg0 x hx0
        rw [hpid]
        refine ⟨by simpa [visitQ, length_modAt] using h1, fun hl => h2 ?_⟩
        rw [isLive_visitQ] at hl; exact hl
      · intro x i hi
        change i ∈ bumpAcc b.acc m f.pid (grewAt b.q (visitQ b.q m (f.t, f.v)) m) x at hi
        unfold bumpAcc at hi
        split at hi
        · rename_i hc
          rw [List.mem_append] at hi
          rcases hi with hi | hi
          · exact hb.acc x i hi
          · simp only [List.mem_singleton] at hi; subst hi
            obtain ⟨hxm, hg⟩ := hc
            subst hxm
            exact (hb.fl f hfm x hmrem).2 (grew_live _ _ _ hg)
        · exact hb.acc x i hi

/-- `subscribe` is never called on a receiver handle that is closed at that moment -/
def OkSubsB : BSt → List BOp → Prop
  | _, [] => True
  | b, o :: os => (∀ op, o = .api op → OkSub b.q op) ∧ OkSubsB (bstep b o) os

theorem BW_of_same (b b' : BSt) (h1 : b'.q = b.q) (h2 : b'.flights = b.flights) (h3 : b'.pubs = b.pubs)
    (h4 : b'.acc = b.acc) (h5 : b'.got = b.got) (hb : BW b) : BW b' :=
  ⟨BI_of_same b b' h1 h2 h3 h4 h5 hb.bi, h1 ▸ hb.ri,
    fun f hf m hm => by rw [h1, h3]; exact hb.fl f (h2 ▸ hf) m hm,
    fun m i hi => by rw [h3]; exact hb.acc m i (h4 ▸ hi)⟩

theorem BW_bstep (b : BSt) (o : BOp) (ho : ∀ op, o = .api op → OkSub b.q op) (hb : BW b) : BW (bstep b o) := by
  cases o with
  | api op => exact BW_bapi b op (ho op rfl) hb
  | begin tid h t v => exact BW_bbegin b tid h t v hb
  | deliver tid => exact BW_bdeliver b tid hb
  | park r => obtain ⟨h1, h2, h3, h4, h5⟩ := bpark_same b r false; exact BW_of_same b _ h1 h2 h3 h4 h5 hb
  | wake r => exact BW_of_same b _ rfl rfl rfl rfl rfl hb
  | parkHolding r => obtain ⟨h1, h2, h3, h4, h5⟩ := bpark_same b r true; exact BW_of_same b _ h1 h2 h3 h4 h5 hb

theorem BW_brun (b : BSt) (os : List BOp) (ho : OkSubsB b os) (hb : BW b) : BW (brun b os) := by
  induction os generalizing b with
  | nil => exact hb
  | cons o os ih => exact ih _ ho.2 (BW_bstep b o ho.1 hb)

end Fv.Chan.TopicB
