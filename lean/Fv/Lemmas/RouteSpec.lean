import Fv.Lemmas.Route
/-!
C19 (routing): `route` in closed form, its relation to `RouteSpec`, and the pre-filters.
-/
namespace Fv.Log

/-! ### `route` in closed form -/

theorem zip_map_filter_map {α β γ} (xs : List α) (g : α → β) (P : α × β → Bool) (h : α × β → γ) :
    ((xs.zip (xs.map g)).filter P).map h = (xs.filter (fun x => P (x, g x))).map (fun x => h (x, g x)) := by
  induction xs with
  | nil => rfl
  | cons x xs ih =>
    simp only [List.map_cons, List.zip_cons_cons, List.filter_cons]
    split <;> simp [ih]

/-- what the delivery loop decides for appender `a` -/
def decision (cfg : Config) (ev : Event) (a : Appender) : Bool :=
  deliverTo (gateOf (winnerOf cfg ev)) ev (a, buildFilter cfg a) (ruleOf cfg ev a)

theorem route_eq_filter (cfg : Config) (ev : Event) :
    route cfg ev = cfg.appenders.filter (decision cfg ev) := by
  unfold route processEvent
  simp only []
  rw [zip_map_filter_map]
  unfold actors
  rw [List.filter_map, List.map_map, List.map_map]
  have : cfg.appenders.map ((fun a : Appender × Filter => findMostSpecificRule a.2 ev.target) ∘
      fun a => (a, buildFilter cfg a)) = cfg.appenders.map (ruleOf cfg ev) := rfl
  rw [this]
  have h2 : ∀ l : List Appender, l.map ((fun x : Appender × Filter =>
      (x, findMostSpecificRule x.2 ev.target).1.1) ∘ fun a => (a, buildFilter cfg a)) = l := by
    intro l; induction l with
    | nil => rfl
    | cons a l ih => rw [List.map_cons, ih]; rfl
  rw [h2]
  rfl

theorem mem_route {cfg : Config} {ev : Event} {a : Appender} :
    a ∈ route cfg ev ↔ a ∈ cfg.appenders ∧ decision cfg ev a = true := by
  rw [route_eq_filter, List.mem_filter]

theorem route_nodup {cfg : Config} (wf : cfg.WF) (ev : Event) : (route cfg ev).Nodup := by
  rw [route_eq_filter]; exact wf.appenders_nodup.filter _

/-- the level part of the decision -/
def levelOk (cfg : Config) (ev : Event) (a : Appender) : Bool :=
  match ruleOf cfg ev a with
  | some r => decide (ev.level ≤ r.2.1)
  | none => decide (ev.level ≤ (buildFilter cfg a).defaultLevel)

/-- the gate part of the decision -/
def gatePass (cfg : Config) (ev : Event) (a : Appender) : Bool :=
  match gateOf (winnerOf cfg ev) with
  | some g => (match ruleOf cfg ev a with | some r => r.1 == g | none => false)
  | none => true

theorem decision_eq (cfg : Config) (ev : Event) (a : Appender) :
    decision cfg ev a = (gatePass cfg ev a && levelOk cfg ev a) := rfl

theorem levelOk_eq_enabled (cfg : Config) (ev : Event) (a : Appender) :
    levelOk cfg ev a = (buildFilter cfg a).enabled ev := rfl

/-! ### level part = `Admits` -/

theorem msn_unique {cfg : Config} (wf : cfg.WF) {ev : Event} {a : Appender} {l l' : Logger}
    (h : MostSpecificNaming cfg ev a l) (h' : MostSpecificNaming cfg ev a l') : l = l' := by
  obtain ⟨hl, hm, ha, hmax⟩ := h
  obtain ⟨hl', hm', ha', hmax'⟩ := h'
  have h1 := hmax l' hl' hm' ha'
  have h2 := hmax' l hl hm ha
  exact logger_unique wf hl hl' hm hm' (by omega)

theorem levelOk_iff_admits {cfg : Config} (wf : cfg.WF) {ev : Event} (hev : 0 < ev.level) (a : Appender) :
    levelOk cfg ev a = true ↔ Admits cfg ev a := by
  unfold levelOk Admits
  cases hr : ruleOf cfg ev a with
  | some r =>
    obtain ⟨l, hmsn, rfl⟩ := ruleOf_some hr
    dsimp only [ruleOfLogger]
    constructor
    · intro hlev
      exact Or.inl ⟨l, hmsn.1, hmsn.2.1, hmsn.2.2.1, hmsn.2.2.2, of_decide_eq_true hlev⟩
    · rintro (⟨l', hl', hm', ha', hmax', hlev⟩ | ⟨hno, _, _⟩)
      · have : l = l' := msn_unique wf hmsn ⟨hl', hm', ha', hmax'⟩
        rw [this]; exact decide_eq_true hlev
      · exact absurd hmsn.2.2.1 (hno l hmsn.1 hmsn.2.1)
  | none =>
    have hno := ruleOf_none.1 hr
    dsimp only [buildFilter]
    simp only [List.contains_iff_mem]
    constructor
    · intro hlev
      have hlev := of_decide_eq_true hlev
      right
      by_cases hroot : a ∈ cfg.rootAppenders
      · simp only [hroot, if_true] at hlev; exact ⟨hno, hroot, hlev⟩
      · simp only [hroot, if_false] at hlev
        exact absurd hev (Nat.not_lt.2 hlev)
    · rintro (⟨l', hl', hm', ha', _, _⟩ | ⟨_, hroot, hlev⟩)
      · exact absurd ha' (hno l' hl' hm')
      · apply decide_eq_true
        simp only [hroot, if_true]; exact hlev

/-! ### gate part = `GateOk` (needs the winner to be visible to the code) -/

theorem gatePass_iff_gateOk {cfg : Config} (wf : cfg.WF) {ev : Event} (hw : WinnerWired cfg ev) (a : Appender) :
    gatePass cfg ev a = true ↔ GateOk cfg ev a := by
  by_cases hex : ∃ l ∈ cfg.loggers, matchesB l ev = true
  · obtain ⟨w, hwl, hwm, hwmax⟩ := exists_longest (fun l => matchesB l ev = true) cfg.loggers hex
    have hW : MostSpecificOverall cfg ev w := ⟨hwl, hwm, hwmax⟩
    have hwired : Wired w := hw w hwl hwm hwmax
    have hwin := winnerOf_of_overall wf hW hwired
    have huniq : ∀ w' ∈ cfg.loggers, matchesB w' ev = true →
        (∀ l' ∈ cfg.loggers, matchesB l' ev = true → l'.name.length ≤ w'.name.length) → w' = w := by
      intro w' hw'l hw'm hw'max
      have h1 := hw'max w hwl hwm
      have h2 := hwmax w' hw'l hw'm
      exact logger_unique wf hw'l hwl hw'm hwm (by omega)
    unfold gatePass GateOk
    rw [hwin]
    cases hadd : w.additive with
    | true =>
      simp only [gateOf, true_iff]
      intro w' hw'l hw'm hw'max hna
      rw [huniq w' hw'l hw'm hw'max, hadd] at hna; cases hna
    | false =>
      simp only [gateOf]
      constructor
      · intro h w' hw'l hw'm hw'max _
        rw [huniq w' hw'l hw'm hw'max]
        cases hr : ruleOf cfg ev a with
        | none => rw [hr] at h; cases h
        | some r =>
          rw [hr] at h
          obtain ⟨l, hmsn, rfl⟩ := ruleOf_some hr
          simp only [ruleOfLogger, beq_iff_eq] at h
          have : l = w := eq_of_nodup_map (·.name) wf.names_nodup hmsn.1 hwl h
          rw [← this]; exact hmsn.2.2.1
      · intro h
        have ha : a ∈ w.appenders := h w hwl hwm hwmax hadd
        have hmsn : MostSpecificNaming cfg ev a w :=
          ⟨hwl, hwm, ha, fun l' hl' hm' _ => hwmax l' hl' hm'⟩
        rw [ruleOf_of_mostSpecificNaming wf hmsn]
        simp [ruleOfLogger]
  · have hno : ∀ l ∈ cfg.loggers, matchesB l ev = false := by
      intro l hl
      cases hm : matchesB l ev with
      | false => rfl
      | true => exact absurd ⟨l, hl, hm⟩ hex
    unfold gatePass GateOk
    rw [winnerOf_none_of_no_match wf hno]
    simp only [gateOf, true_iff]
    intro w hwl hwm
    rw [hno w hwl] at hwm; cases hwm

/-- **routing = specification**, whenever the most specific matching logger names an appender. -/
theorem mem_route_iff_spec {cfg : Config} (wf : cfg.WF) {ev : Event} (hev : 0 < ev.level)
    (hw : WinnerWired cfg ev) (a : Appender) : a ∈ route cfg ev ↔ RouteSpec cfg ev a := by
  rw [mem_route, decision_eq, Bool.and_eq_true, gatePass_iff_gateOk wf hw, levelOk_iff_admits wf hev]
  unfold RouteSpec
  constructor
  · rintro ⟨h1, h2, h3⟩; exact ⟨h1, h3, h2⟩
  · rintro ⟨h1, h2, h3⟩; exact ⟨h1, h3, h2⟩

/-! ### what the code does in general (F12a / F12c included) -/

/-- the gate the code applies: like `GateOk`, but loggers that name no appender are invisible -/
def GateOkWired (cfg : Config) (ev : Event) (a : Appender) : Prop :=
  ∀ w ∈ cfg.loggers, matchesB w ev = true → w.appenders ≠ [] →
    (∀ l' ∈ cfg.loggers, matchesB l' ev = true → l'.appenders ≠ [] → l'.name.length ≤ w.name.length) →
    w.additive = false → a ∈ w.appenders

/-- exact, order-independent description of `route` -/
def CodeSpec (cfg : Config) (ev : Event) (a : Appender) : Prop :=
  a ∈ cfg.appenders ∧ Admits cfg ev a ∧ GateOkWired cfg ev a

theorem gatePass_iff_gateOkWired {cfg : Config} (wf : cfg.WF) {ev : Event} (a : Appender) :
    gatePass cfg ev a = true ↔ GateOkWired cfg ev a := by
  by_cases hex : ∃ l ∈ cfg.loggers, matchesB l ev = true ∧ Wired l
  · obtain ⟨w, hwl, ⟨hwm, hwired⟩, hwmax0⟩ :=
      exists_longest (fun l => matchesB l ev = true ∧ Wired l) cfg.loggers hex
    have hwmax : ∀ l' ∈ cfg.loggers, matchesB l' ev = true → Wired l' → l'.name.length ≤ w.name.length :=
      fun l' hl' hm' hw' => hwmax0 l' hl' ⟨hm', hw'⟩
    have hwin := winnerOf_of_wiredMost wf hwl hwm hwired hwmax
    have huniq : ∀ w' ∈ cfg.loggers, matchesB w' ev = true → Wired w' →
        (∀ l' ∈ cfg.loggers, matchesB l' ev = true → Wired l' → l'.name.length ≤ w'.name.length) → w' = w := by
      intro w' hw'l hw'm hw'w hw'max
      have h1 := hw'max w hwl hwm hwired
      have h2 := hwmax w' hw'l hw'm hw'w
      exact logger_unique wf hw'l hwl hw'm hwm (by omega)
    unfold gatePass GateOkWired
    rw [hwin]
    cases hadd : w.additive with
    | true =>
      simp only [gateOf, true_iff]
      intro w' hw'l hw'm hw'w hw'max hna
      rw [huniq w' hw'l hw'm hw'w hw'max, hadd] at hna; cases hna
    | false =>
      simp only [gateOf]
      constructor
      · intro h w' hw'l hw'm hw'w hw'max _
        rw [huniq w' hw'l hw'm hw'w hw'max]
        cases hr : ruleOf cfg ev a with
        | none => rw [hr] at h; cases h
        | some r =>
          rw [hr] at h
          obtain ⟨l, hmsn, rfl⟩ := ruleOf_some hr
          simp only [ruleOfLogger, beq_iff_eq] at h
          have : l = w := eq_of_nodup_map (·.name) wf.names_nodup hmsn.1 hwl h
          rw [← this]; exact hmsn.2.2.1
      · intro h
        have ha : a ∈ w.appenders := h w hwl hwm hwired hwmax hadd
        have hmsn : MostSpecificNaming cfg ev a w :=
          ⟨hwl, hwm, ha, fun l' hl' hm' ha' => hwmax l' hl' hm' (fun hnil => by rw [hnil] at ha'; cases ha')⟩
        rw [ruleOf_of_mostSpecificNaming wf hmsn]
        simp [ruleOfLogger]
  · have hno : ∀ l ∈ cfg.loggers, matchesB l ev = true → ¬ Wired l :=
      fun l hl hm hw => hex ⟨l, hl, hm, hw⟩
    unfold gatePass GateOkWired
    rw [winnerOf_none_of_no_wired_match wf hno]
    simp only [gateOf, true_iff]
    intro w hwl hwm hww
    exact absurd hww (hno w hwl hwm)

/-- **what the code does, exactly** (no hypothesis about appender-less loggers). -/
theorem mem_route_iff_codeSpec {cfg : Config} (wf : cfg.WF) {ev : Event} (hev : 0 < ev.level)
    (a : Appender) : a ∈ route cfg ev ↔ CodeSpec cfg ev a := by
  rw [mem_route, decision_eq, Bool.and_eq_true, gatePass_iff_gateOkWired wf, levelOk_iff_admits wf hev]
  unfold CodeSpec
  constructor
  · rintro ⟨h1, h2, h3⟩; exact ⟨h1, h3, h2⟩
  · rintro ⟨h1, h2, h3⟩; exact ⟨h1, h3, h2⟩

/-- `CodeSpec` only looks at membership: it does not depend on hash-map iteration order. -/
theorem codeSpec_congr {cfg cfg' : Config} (ha : ∀ x, x ∈ cfg'.appenders ↔ x ∈ cfg.appenders)
    (hl : ∀ l, l ∈ cfg'.loggers ↔ l ∈ cfg.loggers) (hrl : cfg'.rootLevel = cfg.rootLevel)
    (hra : ∀ x, x ∈ cfg'.rootAppenders ↔ x ∈ cfg.rootAppenders) (ev : Event) (a : Appender) :
    CodeSpec cfg' ev a ↔ CodeSpec cfg ev a := by
  unfold CodeSpec Admits GateOkWired
  simp only [ha, hl, hrl, hra]

theorem allWired_winnerWired {cfg : Config} (h : AllWired cfg) (ev : Event) : WinnerWired cfg ev :=
  fun w hw _ _ => h w hw

/-! ### pre-filters -/

theorem foldl_max_ge_init (l : List Nat) (i : Nat) : i ≤ l.foldl max i := by
  induction l generalizing i with
  | nil => exact Nat.le_refl _
  | cons x l ih => exact Nat.le_trans (Nat.le_max_left i x) (ih (max i x))

theorem foldl_max_ge_mem (l : List Nat) (i : Nat) {x : Nat} (hx : x ∈ l) : x ≤ l.foldl max i := by
  induction l generalizing i with
  | nil => cases hx
  | cons y l ih =>
    rcases List.mem_cons.1 hx with rfl | hx
    · exact Nat.le_trans (Nat.le_max_right i x) (foldl_max_ge_init l (max i x))
    · exact ih (max i y) hx

/-- an event the level part accepts is within the filter's `max_level` -/
theorem levelOk_le_filterMax {cfg : Config} {ev : Event} {a : Appender} (h : levelOk cfg ev a = true) :
    ev.level ≤ (buildFilter cfg a).maxLevel := by
  unfold levelOk at h
  unfold Filter.maxLevel
  cases hr : ruleOf cfg ev a with
  | some r =>
    rw [hr] at h
    simp only [decide_eq_true_eq] at h
    have hmem : r ∈ (buildFilter cfg a).rules := by
      unfold ruleOf findMostSpecificRule at hr
      exact (List.mem_filter.1 (maxByLen_some hr).1).1
    exact Nat.le_trans h (foldl_max_ge_mem _ _ (List.mem_map.2 ⟨r, hmem, rfl⟩))
  | none =>
    rw [hr] at h
    simp only [decide_eq_true_eq] at h
    exact Nat.le_trans h (foldl_max_ge_init _ _)

theorem route_le_maxLevel {cfg : Config} {ev : Event} {a : Appender} (h : a ∈ route cfg ev) :
    ev.level ≤ maxLevel cfg := by
  obtain ⟨ha, hd⟩ := mem_route.1 h
  rw [decision_eq, Bool.and_eq_true] at hd
  refine Nat.le_trans (levelOk_le_filterMax hd.2) ?_
  unfold maxLevel actors
  apply foldl_max_ge_mem
  rw [List.map_map, List.mem_map]
  exact ⟨a, ha, rfl⟩

theorem route_eventEnabled {cfg : Config} {ev : Event} {a : Appender} (h : a ∈ route cfg ev) :
    eventEnabled cfg ev = true := by
  obtain ⟨ha, hd⟩ := mem_route.1 h
  rw [decision_eq, Bool.and_eq_true] at hd
  unfold eventEnabled actors
  rw [List.any_eq_true]
  exact ⟨(a, buildFilter cfg a), List.mem_map.2 ⟨a, ha, rfl⟩, by rw [← levelOk_eq_enabled]; exact hd.2⟩

theorem route_eq_nil_of_prefilter {cfg : Config} {ev : Event}
    (h : maxLevel cfg < ev.level ∨ eventEnabled cfg ev = false) : route cfg ev = [] := by
  rw [List.eq_nil_iff_forall_not_mem]
  intro a ha
  rcases h with h | h
  · exact absurd (route_le_maxLevel ha) (Nat.not_le.2 h)
  · rw [route_eventEnabled ha] at h; cases h

end Fv.Log
