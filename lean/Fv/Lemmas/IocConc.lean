import Fv.Lemmas.IocInv
/-!
# C18: threads.  Invariants of the small-step model (`stepJob`) under every schedule.
-/
namespace Fv.Ioc

/-- a resolution of a singleton slot that returns an instance leaves exactly that instance in the cell -/
theorem resolveF_singleton_some {fuel : Nat} {w w' : World} {c : Nat} {k : Key} {sc : List Dep}
    {cell : Option Nat} {r id : Nat}
    (hget : w.regs.get ⟨c, k⟩ = some (.singleton sc cell r))
    (hres : resolveF fuel w c k = (w', .some id)) :
    ∃ r', w'.regs.get ⟨c, k⟩ = some (.singleton sc (some id) r') := by
  cases cell with
  | none =>
    rcases (resolveF_active_some hget (sc := sc) rfl hres).2.2 with ⟨r0, _, h⟩ | ⟨r0, h, _⟩
    · exact ⟨_, h⟩
    · cases h
  | some a =>
    cases fuel with
    | zero => simp [resolveF] at hres
    | succ fuel =>
      by_cases hk : k ∈ w.resolving
      · simp [resolveF, hk] at hres
      · rw [resolveF_filled hk hget] at hres
        simp only [Prod.mk.injEq, Outcome.some.injEq] at hres
        obtain ⟨rfl, rfl⟩ := hres
        exact ⟨r, hget⟩

theorem World.reset_idle {w : World} (h : w.resolving = []) : { w with resolving := [] } = w := by
  cases w; simp_all

theorem install_get_other (w : World) {s s' : Slot} (p : Provider) (h : s ≠ s') :
    (w.install s' p).regs.get s = w.regs.get s := by
  cases p <;> simp [World.install, World.regInstance, World.register, Reg.get_set_other _ _ h]

theorem install_resolving (w : World) (s : Slot) (p : Provider) : (w.install s p).resolving = w.resolving := by
  cases p <;> rfl

theorem mem_setJob {js : List Job} {i : Nat} {j j' : Job} (h : j ∈ setJob js i j') : j ∈ js ∨ j = j' :=
  List.mem_or_eq_of_mem_set h

/-! ### First-resolution race on one fresh singleton slot -/

/-- the cell of the racing slot and the instances handed out so far agree -/
def RaceInv (s : Slot) (sc : List Dep) (cf : Conf) : Prop :=
  cf.w.resolving = [] ∧
  (∀ j ∈ cf.jobs, ∀ s' p f, j = .registrar s' p f → s' ≠ s) ∧
  ((cf.w.regs.get s = some (.singleton sc none 0) ∧
      ∀ j ∈ cf.jobs, ∀ id, j ≠ .resolver s.c s.k (.done (.some id))) ∨
   (∃ id, cf.w.regs.get s = some (.singleton sc (some id) 1) ∧
      ∀ j ∈ cf.jobs, ∀ id', j = .resolver s.c s.k (.done (.some id')) → id' = id))

/-- replacing a job by one that is neither a registrar nor a delivered instance keeps the invariant -/
theorem RaceInv.set_neutral {s : Slot} {sc : List Dep} {cf : Conf} (h : RaceInv s sc cf) (i : Nat) (j' : Job)
    (hreg : ∀ s' p f, j' ≠ .registrar s' p f) (hdone : ∀ c k id, j' ≠ .resolver c k (.done (.some id))) :
    RaceInv s sc { cf with jobs := setJob cf.jobs i j' } := by
  obtain ⟨h1, h2, h3⟩ := h
  refine ⟨h1, ?_, ?_⟩
  · intro j hj s' p f e
    rcases mem_setJob hj with hj | rfl
    · exact h2 j hj s' p f e
    · exact absurd e (hreg s' p f)
  · rcases h3 with ⟨hg, hn⟩ | ⟨id, hg, ha⟩
    · refine Or.inl ⟨hg, ?_⟩
      intro j hj id e
      rcases mem_setJob hj with hj | rfl
      · exact hn j hj id e
      · exact hdone _ _ _ e
    · refine Or.inr ⟨id, hg, ?_⟩
      intro j hj id' e
      rcases mem_setJob hj with hj | rfl
      · exact ha j hj id' e
      · exact absurd e (hdone _ _ _)

theorem stepJob_raceInv {s : Slot} {sc : List Dep} {cf : Conf} (h : RaceInv s sc cf) (i : Nat) :
    RaceInv s sc (stepJob cf i) := by
  unfold stepJob
  cases hj : cf.jobs[i]? with
  | none => exact h
  | some job =>
    have hmem : job ∈ cf.jobs := List.mem_of_getElem? hj
    cases job with
    | resolver c k ph =>
      cases ph with
      | ready =>
        simp only
        cases cf.w.regs.get ⟨c, k⟩ with
        | none => exact h.set_neutral i _ (by intros; simp) (by intros; simp)
        | some p => exact h.set_neutral i _ (by intros; simp) (by intros; simp)
      | done o => exact h
      | pinned =>
        simp only
        obtain ⟨h1, h2, h3⟩ := h
        rw [World.reset_idle h1]
        have hext := resolve_ext cf.w c k
        cases hres : resolve cf.w c k with
        | mk w' o =>
          rw [hres] at hext
          simp only at hext ⊢
          refine ⟨hext.resolving.trans h1, ?_, ?_⟩
          · intro j hj s' p f e
            rcases mem_setJob hj with hj | rfl
            · exact h2 j hj s' p f e
            · cases e
          · -- what the new outcome can be
            have hnew : ∀ id', Job.resolver c k (.done o) = .resolver s.c s.k (.done (.some id')) →
                ∀ cell r, cf.w.regs.get s = some (.singleton sc cell r) →
                ∃ r', w'.regs.get s = some (.singleton sc (some id') r') := by
              intro id' e cell r hg
              simp only [Job.resolver.injEq, Phase.done.injEq] at e
              obtain ⟨rfl, rfl, rfl⟩ := e
              exact resolveF_singleton_some (c := s.c) (k := s.k) hg hres
            rcases h3 with ⟨hg, hn⟩ | ⟨id, hg, ha⟩
            · obtain ⟨p', hp', ev⟩ := hext.evolves s _ hg
              simp only [Provider.Evolves] at ev
              rcases ev with rfl | ⟨id, rfl⟩
              · refine Or.inl ⟨hp', ?_⟩
                intro j hj id' e
                rcases mem_setJob hj with hj | rfl
                · exact hn j hj id' e
                · obtain ⟨r', hr'⟩ := hnew id' e _ _ hg
                  rw [hp'] at hr'; cases hr'
              · refine Or.inr ⟨id, hp', ?_⟩
                intro j hj id' e
                rcases mem_setJob hj with hj | rfl
                · exact absurd e (hn j hj id')
                · obtain ⟨r', hr'⟩ := hnew id' e _ _ hg
                  rw [hp'] at hr'
                  simp only [Option.some.injEq, Provider.singleton.injEq] at hr'
                  exact hr'.2.1.symm ▸ rfl
            · obtain ⟨p', hp', ev⟩ := hext.evolves s _ hg
              simp only [Provider.Evolves] at ev
              subst ev
              refine Or.inr ⟨id, hp', ?_⟩
              intro j hj id' e
              rcases mem_setJob hj with hj | rfl
              · exact ha j hj id' e
              · obtain ⟨r', hr'⟩ := hnew id' e _ _ hg
                rw [hp'] at hr'
                simp only [Option.some.injEq, Provider.singleton.injEq] at hr'
                exact hr'.2.1.symm ▸ rfl
    | registrar s' p fin =>
      cases fin with
      | true => exact h
      | false =>
        simp only
        split
        · exact h
        · obtain ⟨h1, h2, h3⟩ := h
          have hne : s ≠ s' := fun e => h2 _ hmem s' p false rfl e.symm
          refine ⟨(install_resolving _ _ _).trans h1, ?_, ?_⟩
          · intro j hj s'' p'' f e
            rcases mem_setJob hj with hj | rfl
            · exact h2 j hj s'' p'' f e
            · simp only [Job.registrar.injEq] at e
              obtain ⟨rfl, _, _⟩ := e
              exact fun e => hne e.symm
          · simp only [install_get_other _ _ hne]
            rcases h3 with ⟨hg, hn⟩ | ⟨id, hg, ha⟩
            · refine Or.inl ⟨hg, ?_⟩
              intro j hj id e
              rcases mem_setJob hj with hj | rfl
              · exact hn j hj id e
              · cases e
            · refine Or.inr ⟨id, hg, ?_⟩
              intro j hj id' e
              rcases mem_setJob hj with hj | rfl
              · exact ha j hj id' e
              · cases e

theorem runSched_raceInv {s : Slot} {sc : List Dep} (sched : List Nat) {cf : Conf} (h : RaceInv s sc cf) :
    RaceInv s sc (runSched cf sched) := by
  induction sched generalizing cf with
  | nil => exact h
  | cons i is ih => exact ih (stepJob_raceInv h i)

/-! ### Every slot, every schedule: at most one completed run per registration -/

/-- providers as the `add_*` calls create them -/
def Provider.Fresh : Provider → Prop
  | .inst _ => True
  | .singleton _ cell r => cell = none ∧ r = 0
  | .transient _ r => r = 0

def FreshRegistrars (js : List Job) : Prop := ∀ j ∈ js, ∀ s p f, j = .registrar s p f → p.Fresh

theorem install_good {w : World} (h : w.Good) (s : Slot) {p : Provider} (hp : p.Fresh) : (w.install s p).Good := by
  obtain ⟨c, k⟩ := s
  cases p with
  | inst id => exact applyOp_good h (.regInstance c k id)
  | singleton sc cell r =>
    obtain ⟨rfl, rfl⟩ := hp
    exact applyOp_good h (.regSingleton c k sc)
  | transient sc r =>
    simp only [Provider.Fresh] at hp
    subst hp
    exact applyOp_good h (.regTransient c k sc)

theorem stepJob_good {cf : Conf} (h : cf.w.Good) (hf : FreshRegistrars cf.jobs) (i : Nat) :
    (stepJob cf i).w.Good ∧ FreshRegistrars (stepJob cf i).jobs := by
  unfold stepJob
  cases hj : cf.jobs[i]? with
  | none => exact ⟨h, hf⟩
  | some job =>
    have hmem : job ∈ cf.jobs := List.mem_of_getElem? hj
    have hset : ∀ j', (∀ s p f, j' = Job.registrar s p f → p.Fresh) → FreshRegistrars (setJob cf.jobs i j') := by
      intro j' hj' j hjm s p f e
      rcases mem_setJob hjm with hjm | rfl
      · exact hf j hjm s p f e
      · exact hj' s p f e
    cases job with
    | resolver c k ph =>
      cases ph with
      | ready =>
        simp only
        cases cf.w.regs.get ⟨c, k⟩ with
        | none => exact ⟨h, hset _ (by intros _ _ _ e; cases e)⟩
        | some p => exact ⟨h, hset _ (by intros _ _ _ e; cases e)⟩
      | done o => exact ⟨h, hf⟩
      | pinned =>
        simp only
        rw [World.reset_idle h.idle]
        have := applyOp_good h (.resolve c k)
        simp only [applyOp] at this
        cases hres : resolve cf.w c k with
        | mk w' o =>
          rw [hres] at this
          exact ⟨this, hset _ (by intros _ _ _ e; cases e)⟩
    | registrar s p fin =>
      cases fin with
      | true => exact ⟨h, hf⟩
      | false =>
        simp only
        have hp : p.Fresh := hf _ hmem s p false rfl
        split
        · exact ⟨h, hf⟩
        · exact ⟨install_good h s hp, hset _ (by intros _ _ _ e; cases e; exact hp)⟩

theorem runSched_good (sched : List Nat) {cf : Conf} (h : cf.w.Good) (hf : FreshRegistrars cf.jobs) :
    (runSched cf sched).w.Good := by
  induction sched generalizing cf with
  | nil => exact h
  | cons i is ih =>
    obtain ⟨h', hf'⟩ := stepJob_good h hf i
    exact ih h' hf'

end Fv.Ioc
