import Fv.Lemmas.PolicySlru
import Fv.Lemmas.PolicyArc
/-!
# Helper lemmas for C14: W-TinyLFU (window LRU + main SLRU + frequency sketch)
Nothing here depends on the sketch contents.
-/
namespace Fv.Cache.Policy

theorem AccessOk.append_left {t t' : List (Nat × Nat)} {k : Nat} (w : List (Nat × Nat))
    (h : AccessOk t t' k) : AccessOk (w ++ t) (w ++ t') k := by
  refine ⟨?_, ?_⟩
  · intro p hp; simp only [List.mem_append, h.others p hp]
  · simp only [keys_append, List.mem_append, h.self]

theorem AccessOk.append_right {t t' : List (Nat × Nat)} {k : Nat} (m : List (Nat × Nat))
    (h : AccessOk t t' k) : AccessOk (t ++ m) (t' ++ m) k := by
  refine ⟨?_, ?_⟩
  · intro p hp; simp only [List.mem_append, h.others p hp]
  · simp only [keys_append, List.mem_append, h.self]

theorem AccessOk.of_push {t : List (Nat × Nat)} {k : Nat} (hk : k ∈ keys t) (c : Nat) :
    AccessOk t ((k, c) :: LruList.without t k) k := by
  refine ⟨?_, by simp [hk]⟩
  intro p hp
  have : p ≠ (k, c) := fun e => hp (by simp [e])
  simp [this, hp]

/-- an admission that tracks `k` and then drops some tracked entries, reporting them -/
theorem AdmitOk.then_evict {t t1 t2 : List (Nat × Nat)} {k : Nat} {vs : List Nat} {freed : Nat}
    (h1 : AdmitOk t t1 k []) (h2 : EvictSound t1 t2 vs freed) : AdmitOk t t2 k vs := by
  refine ⟨?_, ?_, ?_⟩
  · intro p hp
    rw [h2.kept p, h1.others p hp]; simp
  · constructor
    · intro hk hv; exact h2.gone k hv hk
    · intro hv
      have : k ∈ keys t1 := h1.self.2 (by simp)
      obtain ⟨c, hc⟩ := mem_keys.1 this
      exact mem_keys_of_mem ((h2.kept (k, c)).2 ⟨hc, hv⟩)
  · intro v hv
    by_cases hvk : v = k
    · exact Or.inl hvk
    · right
      obtain ⟨c, hc⟩ := mem_keys.1 (h2.tracked v hv)
      exact mem_keys_of_mem (((h1.others (v, c) hvk).1 hc).1)

namespace TinyLfu

theorem Inv_init (cfg : Cfg) : Inv (init cfg) :=
  ⟨LruList.WF_empty, Slru.Inv_init, by simp [init]⟩

theorem nodup_tracked {s : State} (h : Inv s) : (keys (tracked s)).Nodup :=
  nodup_keys_append h.1.1 (Slru.nodup_tracked h.2.1) h.2.2

theorem main_contains_iff (m : Slru.State) (k : Nat) :
    (m.prob.contains k || m.prot.contains k) = true ↔ k ∈ keys (Slru.tracked m) := by
  simp [Slru.mem_keys_tracked, LruList.contains_iff]

/-- refresh of a key in the window -/
theorem window_push_spec {s : State} (h : Inv s) {k : Nat} (hk : k ∉ keys (Slru.tracked s.main))
    (c : Nat) (sk : Sketch) :
    Inv { s with sketch := sk, window := s.window.pushFront k c }
    ∧ tracked { s with sketch := sk, window := s.window.pushFront k c }
        = (k, c) :: LruList.without (tracked s) k := by
  refine ⟨⟨LruList.pushFront_WF h.1 k c, h.2.1, ?_⟩, ?_⟩
  · intro x hx
    rcases LruList.mem_keys_pushFront.1 hx with rfl | hx
    · exact hk
    · exact h.2.2 x hx
  · simp [tracked, LruList.pushFront_items, without_append, without_eq_self hk]

theorem main_access_spec {s : State} (h : Inv s) (k c pc : Nat) (sk : Sketch) :
    Inv { s with sketch := sk, main := Slru.accessInternal s.main k c pc }
    ∧ AccessOk (tracked s) (tracked { s with sketch := sk, main := Slru.accessInternal s.main k c pc }) k
    ∧ (k ∈ keys (Slru.tracked s.main) →
        (k, c) ∈ tracked { s with sketch := sk, main := Slru.accessInternal s.main k c pc }) := by
  obtain ⟨hi, ha, hm⟩ := Slru.accessInternal_spec h.2.1 k c pc
  refine ⟨⟨h.1, hi, ?_⟩, ha.append_left _, ?_⟩
  · intro x hx hx2; exact h.2.2 x hx ((ha.mem_keys x).1 hx2)
  · intro hk; simp only [tracked, List.mem_append]; exact Or.inr (hm hk)

theorem access_spec {s : State} (h : Inv s) (cfg : Cfg) (k c : Nat) :
    Inv (access s cfg k c) ∧ AccessOk (tracked s) (tracked (access s cfg k c)) k := by
  unfold access
  dsimp only
  split
  · next hw =>
    have hkw : k ∈ keys s.window.items := (LruList.contains_iff _ _).1 hw
    have hkm : k ∉ keys (Slru.tracked s.main) := h.2.2 k hkw
    have := window_push_spec h hkm c (s.sketch.increment k)
    refine ⟨this.1, ?_⟩
    rw [this.2]
    exact AccessOk.of_push (by simp [tracked, hkw]) c
  · have := main_access_spec h k c cfg.mainProtCap (s.sketch.increment k)
    exact ⟨this.1, this.2.1⟩

/-- the admission loop only moves window tails into the main segment or drops them, reporting
every dropped key -/
theorem admitLoop_spec : ∀ (fuel : Nat) (s : State) (cfg : Cfg) (rej : List Nat), Inv s →
    Inv (admitLoop fuel s cfg rej).1
    ∧ ∃ dropped, (admitLoop fuel s cfg rej).2 = rej ++ keys dropped
        ∧ (tracked s).Perm (tracked (admitLoop fuel s cfg rej).1 ++ dropped) := by
  intro fuel
  induction fuel with
  | zero => intro s cfg rej h; exact ⟨h, [], by simp [admitLoop], by simp [admitLoop]⟩
  | succ fuel ih =>
    intro s cfg rej h
    unfold admitLoop
    split
    · rcases List.eq_nil_or_concat s.window.items with hnil | ⟨init, ⟨ck, cc⟩, hc⟩
      · rw [LruList.popBack_nil hnil]; exact ⟨h, [], by simp, by simp⟩
      · rw [List.concat_eq_append] at hc
        rw [LruList.popBack_concat h.1 hc]
        dsimp only
        have hw' := LruList.popBack_concat_WF h.1 hc
        have hckw : ck ∈ keys s.window.items := by rw [hc]; simp
        have hckm : ck ∉ keys (Slru.tracked s.main) := h.2.2 ck hckw
        have hdis : ∀ x, x ∈ keys init → x ∉ keys (Slru.tracked s.main) :=
          fun x hx => h.2.2 x (by rw [hc]; simp [hx])
        have hckinit : ck ∉ keys init := by
          have hnd := h.1.1; rw [hc] at hnd
          simp only [keys_append, List.nodup_append] at hnd
          intro hm; exact hnd.2.2 ck hm ck (by simp) rfl
        split
        · -- candidate admitted to main
          rw [Slru.admitInternal_new hckm]
          have hp := Slru.push_new_spec h.2.1 hckm cc
          have hi : Inv { window := { items := init, cost := s.window.cost - cc },
                          main := { s.main with prob := s.main.prob.pushFront ck cc },
                          sketch := s.sketch } := by
            refine ⟨hw', hp.1, ?_⟩
            intro x hx
            rw [hp.2]; simp only [keys_cons, List.mem_cons, not_or]
            exact ⟨fun e => hckinit (e ▸ hx), hdis x hx⟩
          obtain ⟨hi2, dropped, hr, hperm⟩ := ih _ cfg rej hi
          refine ⟨hi2, dropped, hr, ?_⟩
          refine List.Perm.trans ?_ hperm
          simp only [tracked]; rw [hp.2, hc]; simp
        · -- candidate rejected (reported as victim)
          have hi : Inv { window := { items := init, cost := s.window.cost - cc },
                          main := s.main, sketch := s.sketch } := ⟨hw', h.2.1, hdis⟩
          obtain ⟨hi2, dropped, hr, hperm⟩ := ih _ cfg (rej ++ [ck]) hi
          refine ⟨hi2, (ck, cc) :: dropped, by simp [hr], ?_⟩
          have h1 : (tracked s).Perm ((ck, cc) :: (init ++ Slru.tracked s.main)) := by
            simp only [tracked, hc, List.append_assoc, List.singleton_append]
            exact List.perm_middle
          exact (h1.trans (List.Perm.cons _ hperm)).trans List.perm_middle.symm
    · exact ⟨h, [], by simp, by simp⟩

theorem victims_ite (rej : List Nat) :
    (if rej = [] then Admission.admit else Admission.admitAndEvict rej).victims = rej := by
  split
  · next h => simp [Admission.victims, h]
  · rfl

theorem admit_tail_spec {t : List (Nat × Nat)} {s1 : State} (hi1 : Inv s1) (cfg : Cfg) (F k c : Nat)
    (hpush : AdmitOk t (tracked s1) k []) (hkc : (k, c) ∈ tracked s1) :
    Inv (admitLoop F s1 cfg []).1
    ∧ AdmitOk t (tracked (admitLoop F s1 cfg []).1) k
        (if (admitLoop F s1 cfg []).2 = [] then Admission.admit
          else Admission.admitAndEvict (admitLoop F s1 cfg []).2).victims
    ∧ (k ∉ (if (admitLoop F s1 cfg []).2 = [] then Admission.admit
          else Admission.admitAndEvict (admitLoop F s1 cfg []).2).victims →
        (k, c) ∈ tracked (admitLoop F s1 cfg []).1) := by
  obtain ⟨hi2, dropped, hr, hperm⟩ := admitLoop_spec F s1 cfg [] hi1
  simp only [List.nil_append] at hr
  have hsound := EvictSound.of_perm (nodup_tracked hi1) hperm
  rw [← hr] at hsound
  simp only [victims_ite]
  exact ⟨hi2, hpush.then_evict hsound, fun hk => (hsound.kept (k, c)).2 ⟨hkc, hk⟩⟩

theorem admit_spec {s : State} (h : Inv s) (cfg : Cfg) (k c : Nat) :
    Inv (admit s cfg k c).1
    ∧ AdmitOk (tracked s) (tracked (admit s cfg k c).1) k (admit s cfg k c).2.victims
    ∧ (k ∉ (admit s cfg k c).2.victims → (k, c) ∈ tracked (admit s cfg k c).1) := by
  unfold TinyLfu.admit
  dsimp only
  split
  · next hm =>
    have hkm := (main_contains_iff s.main k).1 hm
    have := main_access_spec h k c cfg.mainProtCap (s.sketch.increment k)
    exact ⟨this.1, AdmitOk.of_access this.2.1 (mem_keys_of_mem (this.2.2 hkm)), fun _ => this.2.2 hkm⟩
  · next hm =>
    have hkm : k ∉ keys (Slru.tracked s.main) := fun e => hm ((main_contains_iff s.main k).2 e)
    obtain ⟨hi1, ht1⟩ := window_push_spec h hkm c (s.sketch.increment k)
    have hpush : AdmitOk (tracked s)
        (tracked { s with sketch := s.sketch.increment k, window := s.window.pushFront k c }) k [] := by
      rw [ht1]; exact AdmitOk.of_push _ k c
    exact admit_tail_spec hi1 cfg _ k c hpush (by rw [ht1]; simp)

theorem remove_spec {s : State} (h : Inv s) (k : Nat) :
    Inv (remove s k) ∧ tracked (remove s k) = LruList.without (tracked s) k := by
  unfold remove
  cases hc : costOf s.window.items k with
  | some c0 =>
    have hr : s.window.remove k = ((s.window.remove k).1, some c0) := by
      rw [LruList.remove_eq_some hc]
    rw [hr]
    have hkw : k ∈ keys s.window.items := costOf_isSome_iff.1 (by rw [hc]; rfl)
    have hkm : k ∉ keys (Slru.tracked s.main) := h.2.2 k hkw
    refine ⟨⟨LruList.remove_WF h.1 k, h.2.1, ?_⟩, ?_⟩
    · intro x hx; exact h.2.2 x (LruList.mem_keys_remove.1 hx).1
    · simp [tracked, LruList.remove_items, without_append, without_eq_self hkm]
  | none =>
    have hkw := costOf_eq_none_iff.1 hc
    rw [LruList.remove_eq_none hkw]
    dsimp only
    obtain ⟨hi, ht⟩ := Slru.remove_spec h.2.1 k
    refine ⟨⟨h.1, hi, ?_⟩, ?_⟩
    · intro x hx; rw [ht, mem_keys_without]; exact fun e => h.2.2 x hx e.1
    · simp [tracked, ht, without_append, without_eq_self hkw]

/-- `evict` only drains the main SLRU -/
theorem evict_spec {s : State} (h : Inv s) (cfg : Cfg) (n : Nat) :
    ∃ popped, (evict s cfg n).2.1 = keys popped ∧ (evict s cfg n).2.2 = costSum popped
      ∧ (tracked s).Perm (tracked (evict s cfg n).1 ++ popped) ∧ Inv (evict s cfg n).1
      ∧ (n ≤ costSum popped ∨ Slru.tracked (evict s cfg n).1.main = []) := by
  unfold evict
  split
  · next h0 => exact ⟨[], by simp, by simp, by simp, h, Or.inl (by simp [h0])⟩
  · obtain ⟨popped, m', he, hp, hi, hd⟩ := Slru.evictItems_spec h.2.1 n cfg.mainProtCap
    rw [he]
    refine ⟨popped, rfl, rfl, ?_, ⟨h.1, hi, ?_⟩, hd⟩
    · simp only [tracked, List.append_assoc]; exact List.Perm.append_left _ hp
    · intro x hx hx2
      exact h.2.2 x hx ((keys_perm hp).mem_iff.2 (by simp [hx2]))

end TinyLfu
end Fv.Cache.Policy
