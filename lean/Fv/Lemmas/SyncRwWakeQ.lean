import Fv.Lemmas.SyncRwWakeL2
/-!
Enabledness facts and two small extra invariants used for the quiescence corollary of the rwlock
model: a busy future has a thread operating on it; a thread at `wnWake` carries a thread handle
first (counting wakers are delivered by `drain`).
-/
namespace Fv.Sync.RwLock
open Fv.Sync
variable {cfg : Cfg} {s s' : State} {t : Tid} {l : Lbl}

/-- pcs at which a thread always has an enabled (non-spurious) step -/
def runnablePc : Pc → Bool
  | .idle | .wPark | .boPark | .wnWake => false
  | .taLoad _ | .taCas _ | .spinYield | .llSwap _ | .llLoad _ | .llSpin _ | .qRearm | .qFetchOr | .qLoad | .qCas
  | .ff1 _ | .ff2 _ | .llRel _ | .wLoad | .relSub | .relAnd | .wnStore | .wrStore | .dLoad | .ret _ => true

theorem runnable_enabled (h : runnablePc (s.th t).pc = true) :
    ∃ l s', (l, s') ∈ next cfg s t ∧ l ≠ .parkSpur := by
  unfold next
  cases hpc : (s.th t).pc <;> rw [hpc] at h <;> try (cases h)
  all_goals simp only [nTaLoad, nTaCas, nSpinYield, nLlSwap, nLlLoad, nLlSpin, nQRearm, nQFetchOr, nQLoad, nQCas,
    nFf1, nFf2, nLlRel, nWLoad, nRelSub, nRelAnd, nWnStore, nWrStore, nDLoad, nRet]
  all_goals (try split)
  all_goals exact ⟨_, _, List.mem_cons_self, by simp⟩

theorem park_enabled (h : (s.th t).pc = .wPark ∨ (s.th t).pc = .boPark) (htok : s.token t = true) :
    ∃ l s', (l, s') ∈ next cfg s t ∧ l ≠ .parkSpur := by
  unfold next
  rcases h with h | h <;> rw [h] <;> simp only [nWPark, nBoPark, htok, if_true]
  all_goals exact ⟨_, _, List.mem_append_left _ List.mem_cons_self, by simp⟩

theorem wnWake_enabled (h : (s.th t).pc = .wnWake) {u : Tid} {r : List Waiter}
    (hw : (s.th t).ws = .thread u :: r) : ∃ l s', (l, s') ∈ next cfg s t ∧ l ≠ .parkSpur := by
  unfold next
  rw [h]; simp only [nWnWake, hw]
  exact ⟨_, _, List.mem_cons_self, by simp⟩

/-! ### two small invariants -/

def PWn (s : State) : Prop := ∀ t, (s.th t).pc = .wnWake → ∃ u r, (s.th t).ws = .thread u :: r
def PBusyEx (s : State) : Prop := ∀ f, (s.fut f).busy = true → ∃ t, opOn s t f

theorem wakeRest_wn (s : State) (t : Tid) (ws : List Waiter) :
    ((wakeRest s t ws).th t).pc = .wnWake → ∃ u r, ((wakeRest s t ws).th t).ws = .thread u :: r := by
  have hc := drain_rest s.wakes ws
  unfold wakeRest
  generalize drain s.wakes ws = p at hc ⊢
  obtain ⟨wk, rest⟩ := p
  simp only at hc ⊢
  rcases hc with hc | ⟨u, r, hc⟩
  · subst hc; simp [setTh]
  · subst hc; intro _; exact ⟨u, r, by simp [setTh]⟩

set_option maxHeartbeats 16000000 in
theorem wn_local (h : Step cfg s t l s') :
    (s'.th t).pc = .wnWake → ∃ u r, (s'.th t).ws = .thread u :: r := by
  cases h
  case llRel a hpc =>
    cases a
    case wake => simp only [afterRel]; exact wakeRest_wn _ _ _
    all_goals (simp only [afterRel, pollDone, withPc, setTh]; (repeat' split) <;> simp)
  case wnWake u rest hpc hw => exact wakeRest_wn _ _ _
  all_goals (try simp only [taFail, taSucc, llEnter, callStep, spinHead, pollHead, pollDone, wakeAllNext])
  all_goals (repeat' split)
  all_goals (try cases ‹TaK›)
  all_goals (try cases ‹LlK›)
  all_goals simp [withPc, setTh]

theorem wn_step (hp : PWn s) (h : Step cfg s t l s') : PWn s' := by
  intro u
  by_cases hu : u = t
  · subst hu; exact wn_local h
  · rw [step_th_other h u hu]; exact hp u

set_option maxHeartbeats 16000000 in
theorem busyEx_local (hi : Inv s) (h : Step cfg s t l s') :
    ∀ f, (opOn s t f → opOn s' t f ∨ (s'.fut f).busy = false)
      ∧ ((s.fut f).busy = false → (s'.fut f).busy = true → opOn s' t f) := by
  have a1 := hi.syncCur t; have a2 := hi.asyncCur t; have a5 := hi.ffOk t
  have b1 : ∀ f, (s.th t).cur = some f → futPc (s.th t).pc = true → (s.fut f).busy = true :=
    fun f hc hp => (hi.busy t f hc hp).1
  unfold opOn
  clear hi
  step_cases h
  all_goals (intro f)
  all_goals (try norm_state)
  all_goals wg

theorem busyEx_step (hi : Inv s) (hp : PBusyEx s) (h : Step cfg s t l s') : PBusyEx s' := by
  intro f hb'
  obtain ⟨k1, k2⟩ := busyEx_local hi h f
  cases hb : (s.fut f).busy with
  | false => exact ⟨t, k2 hb hb'⟩
  | true =>
    obtain ⟨u, hu⟩ := hp f hb
    by_cases hut : u = t
    · subst hut
      rcases k1 hu with h1 | h1
      · exact ⟨u, h1⟩
      · rw [h1] at hb'; cases hb'
    · exact ⟨u, by unfold opOn at hu ⊢; rw [step_th_other h u hut]; exact hu⟩

theorem extra_reach {s : State} (h : Reach cfg s) : PWn s ∧ PBusyEx s := by
  refine ReachOf.inv (fun s => Inv s ∧ PWn s ∧ PBusyEx s) ?_ ?_ s h |>.2
  · rintro s ⟨prog, rfl⟩
    refine ⟨Inv_init prog, ?_, ?_⟩
    · intro t hp; simp [init] at hp
    · intro f hb; simp [init] at hb
  · intro s t l s' ⟨hi, h1, h2⟩ hm
    have hs := step_of_mem hm
    exact ⟨Inv_step hi hs, wn_step h1 hs, busyEx_step hi h2 hs⟩

end Fv.Sync.RwLock
