import Fv.Lemmas.PolicyLru
/-!
# Helper lemmas for C14: SLRU (also used by TinyLFU's main segment)
-/
namespace Fv.Cache.Policy

theorem AccessOk.trans_perm {t t1 t2 : List (Nat × Nat)} {k : Nat} (h : AccessOk t t1 k)
    (hp : t2.Perm t1) : AccessOk t t2 k :=
  ⟨fun p hpk => (hp.mem_iff).trans (h.others p hpk), ((keys_perm hp).mem_iff).trans h.self⟩

namespace Slru

theorem Inv_init : Inv init := ⟨LruList.WF_empty, LruList.WF_empty, by simp [init]⟩

theorem nodup_tracked {s : State} (h : Inv s) : (keys (tracked s)).Nodup :=
  nodup_keys_append h.1.1 h.2.1.1 h.2.2

theorem mem_keys_tracked {s : State} {x : Nat} :
    x ∈ keys (tracked s) ↔ x ∈ keys s.prob.items ∨ x ∈ keys s.prot.items := by
  simp [tracked]

/-- one demotion: the protected tail moves to the probationary head -/
theorem demote_spec {s : State} (h : Inv s) {init : List (Nat × Nat)} {k c : Nat}
    (hc : s.prot.items = init ++ [(k, c)]) :
    Inv { prob := s.prob.pushFront k c, prot := { items := init, cost := s.prot.cost - c } }
    ∧ (tracked { prob := s.prob.pushFront k c, prot := { items := init, cost := s.prot.cost - c } }).Perm
        (tracked s) := by
  have hkprot : k ∈ keys s.prot.items := by rw [hc]; simp
  have hkprob : k ∉ keys s.prob.items := fun hx => h.2.2 k hx hkprot
  have hnd := h.2.1.1; rw [hc] at hnd
  have hkinit : k ∉ keys init := by
    simp only [keys_append, List.nodup_append] at hnd
    intro hm; exact hnd.2.2 k hm k (by simp) rfl
  refine ⟨⟨LruList.pushFront_WF h.1 k c, LruList.popBack_concat_WF h.2.1 hc, ?_⟩, ?_⟩
  · intro x hx
    simp only
    rcases LruList.mem_keys_pushFront.1 hx with rfl | hx
    · exact hkinit
    · intro hxi; exact h.2.2 x hx (by rw [hc]; simp [hxi])
  · simp only [tracked]
    rw [LruList.pushFront_items, without_eq_self hkprob, hc, ← List.append_assoc]
    exact List.perm_append_comm (l₁ := [(k, c)])

theorem maintain_spec : ∀ (fuel : Nat) (s : State) (protCap : Nat), Inv s →
    Inv (maintain fuel s protCap) ∧ (tracked (maintain fuel s protCap)).Perm (tracked s) := by
  intro fuel
  induction fuel with
  | zero => intro s _ h; exact ⟨h, .refl _⟩
  | succ fuel ih =>
    intro s pc h
    unfold maintain
    split
    · rcases List.eq_nil_or_concat s.prot.items with hnil | ⟨init, ⟨k, c⟩, hc⟩
      · rw [LruList.popBack_nil hnil]; exact ⟨h, .refl _⟩
      · rw [List.concat_eq_append] at hc; rw [LruList.popBack_concat h.2.1 hc]
        have := demote_spec h hc
        have ih' := ih _ pc this.1
        exact ⟨ih'.1, ih'.2.trans this.2⟩
    · exact ⟨h, .refl _⟩

theorem maintainCapacities_spec {s : State} (h : Inv s) (protCap : Nat) :
    Inv (maintainCapacities s protCap) ∧ (tracked (maintainCapacities s protCap)).Perm (tracked s) :=
  maintain_spec _ s protCap h

/-- promotion to / refresh in the protected segment, `k` tracked -/
theorem promote_spec {s : State} (h : Inv s) (k c : Nat) (hk : k ∈ keys (tracked s)) :
    let s' : State := { prob := (s.prob.remove k).1, prot := s.prot.pushFront k c }
    Inv s' ∧ AccessOk (tracked s) (tracked s') k ∧ (k, c) ∈ tracked s' := by
  intro s'
  refine ⟨⟨LruList.remove_WF h.1 k, LruList.pushFront_WF h.2.1 k c, ?_⟩, ⟨?_, ?_⟩, ?_⟩
  · intro x hx hx2
    have hx := LruList.mem_keys_remove.1 hx
    rcases LruList.mem_keys_pushFront.1 hx2 with rfl | hx2
    · exact hx.2 rfl
    · exact h.2.2 x hx.1 hx2
  · intro p hp
    have hne : p ≠ (k, c) := fun e => hp (by simp [e])
    simp [tracked, s', LruList.mem_remove, LruList.mem_pushFront, hp, hne]
  · simp only [mem_keys_tracked, s', LruList.mem_keys_pushFront]
    simp [mem_keys_tracked.1 hk]
  · simp [tracked, s', LruList.mem_pushFront]

theorem accessInternal_spec {s : State} (h : Inv s) (k c protCap : Nat) :
    Inv (accessInternal s k c protCap)
    ∧ AccessOk (tracked s) (tracked (accessInternal s k c protCap)) k
    ∧ (k ∈ keys (tracked s) → (k, c) ∈ tracked (accessInternal s k c protCap)) := by
  unfold accessInternal
  by_cases hpt : k ∈ keys s.prot.items
  · rw [if_pos ((LruList.contains_iff _ _).2 hpt)]
    have hkprob : k ∉ keys s.prob.items := fun hx => h.2.2 k hx hpt
    have hr : (s.prob.remove k).1 = s.prob := by rw [LruList.remove_eq_none hkprob]
    have := promote_spec h k c (mem_keys_tracked.2 (Or.inr hpt))
    simp only [hr] at this
    exact ⟨this.1, this.2.1, fun _ => this.2.2⟩
  · rw [if_neg (by rw [LruList.contains_iff]; exact hpt)]
    cases hc : costOf s.prob.items k with
    | none =>
      have hkprob := costOf_eq_none_iff.1 hc
      rw [LruList.remove_eq_none hkprob]
      refine ⟨h, AccessOk.rfl' k, ?_⟩
      intro hk; rcases mem_keys_tracked.1 hk with hk | hk
      · exact absurd hk hkprob
      · exact absurd hk hpt
    | some c0 =>
      have hr : s.prob.remove k = ((s.prob.remove k).1, some c0) := by rw [LruList.remove_eq_some hc]
      rw [hr]
      have hk : k ∈ keys (tracked s) :=
        mem_keys_tracked.2 (Or.inl (costOf_isSome_iff.1 (by rw [hc]; rfl)))
      have hp := promote_spec h k c hk
      have hm := maintainCapacities_spec hp.1 protCap
      exact ⟨hm.1, hp.2.1.trans_perm hm.2, fun _ => hm.2.mem_iff.2 hp.2.2⟩

theorem admit_fst (s : State) (k c : Nat) :
    (admit s k c).1 = if k ∈ keys (tracked s) then s else { s with prob := s.prob.pushFront k c } := by
  simp only [admit, mem_keys_tracked]
  by_cases h1 : k ∈ keys s.prot.items <;> by_cases h2 : k ∈ keys s.prob.items <;>
    simp [h1, h2, (LruList.contains_iff _ _).2, (LruList.contains_false_iff _ _).2]

theorem admitInternal_new {s : State} {k : Nat} (hk : k ∉ keys (tracked s)) (c : Nat) :
    admitInternal s k c = { s with prob := s.prob.pushFront k c } := by
  have h1 : k ∉ keys s.prot.items := fun h => hk (mem_keys_tracked.2 (Or.inr h))
  have h2 : k ∉ keys s.prob.items := fun h => hk (mem_keys_tracked.2 (Or.inl h))
  simp [admitInternal, (LruList.contains_false_iff _ _).2 h1, (LruList.contains_false_iff _ _).2 h2]

theorem push_new_spec {s : State} (h : Inv s) {k : Nat} (hk : k ∉ keys (tracked s)) (c : Nat) :
    Inv { s with prob := s.prob.pushFront k c }
    ∧ tracked { s with prob := s.prob.pushFront k c } = (k, c) :: tracked s := by
  have h1 : k ∉ keys s.prot.items := fun h => hk (mem_keys_tracked.2 (Or.inr h))
  have h2 : k ∉ keys s.prob.items := fun h => hk (mem_keys_tracked.2 (Or.inl h))
  refine ⟨⟨LruList.pushFront_WF h.1 k c, h.2.1, ?_⟩, ?_⟩
  · intro x hx
    rcases LruList.mem_keys_pushFront.1 hx with rfl | hx
    · exact h1
    · exact h.2.2 x hx
  · simp [tracked, LruList.pushFront_items, without_eq_self h2]

theorem remove_spec {s : State} (h : Inv s) (k : Nat) :
    Inv (remove s k) ∧ tracked (remove s k) = LruList.without (tracked s) k := by
  unfold remove
  cases hc : costOf s.prob.items k with
  | none =>
    have hkprob := costOf_eq_none_iff.1 hc
    rw [LruList.remove_eq_none hkprob]
    refine ⟨⟨h.1, LruList.remove_WF h.2.1 k, ?_⟩, ?_⟩
    · intro x hx hx2; exact h.2.2 x hx (LruList.mem_keys_remove.1 hx2).1
    · simp [tracked, LruList.remove_items, without_append, without_eq_self hkprob]
  | some c0 =>
    have hr : s.prob.remove k = ((s.prob.remove k).1, some c0) := by rw [LruList.remove_eq_some hc]
    rw [hr]
    have hkprob : k ∈ keys s.prob.items := costOf_isSome_iff.1 (by rw [hc]; rfl)
    have hkprot : k ∉ keys s.prot.items := h.2.2 k hkprob
    refine ⟨⟨LruList.remove_WF h.1 k, h.2.1, ?_⟩, ?_⟩
    · intro x hx; exact h.2.2 x (LruList.mem_keys_remove.1 hx).1
    · simp [tracked, LruList.remove_items, without_append, without_eq_self hkprot]

/-- `evict_items`: rebalance, drain the probationary tail, then the protected tail -/
theorem evictItems_spec {s : State} (h : Inv s) (n protCap : Nat) :
    ∃ popped s', evictItems s n protCap = (s', keys popped, costSum popped)
      ∧ (tracked s).Perm (tracked s' ++ popped) ∧ Inv s'
      ∧ (n ≤ costSum popped ∨ tracked s' = []) := by
  have hm := maintainCapacities_spec h protCap
  simp only [evictItems]
  generalize maintainCapacities s protCap = s1 at hm ⊢
  obtain ⟨p1, l1, he1, hs1, hw1, hd1, _⟩ :=
    drainBack_spec (s1.prob.items.length + 1) s1.prob n [] 0 hm.1.1 (by omega)
  obtain ⟨p2, l2, he2, hs2, hw2, hd2, _⟩ :=
    drainBack_spec (s1.prot.items.length + 1) s1.prot (n - costSum p1) ([] ++ keys p1.reverse)
      (0 + costSum p1) hm.1.2.1 (by omega)
  refine ⟨p1.reverse ++ p2.reverse, { prob := l1, prot := l2 }, ?_, ?_, ⟨hw1, hw2, ?_⟩, ?_⟩
  · rw [he1]; simp only; rw [he2]; simp [keys_reverse]
  · refine hm.2.symm.trans ?_
    simp only [tracked]; rw [hs1, hs2]
    have h1 : (l1.items ++ p1 ++ (l2.items ++ p2)).Perm (l1.items ++ l2.items ++ (p1 ++ p2)) := by
      simp only [List.append_assoc]
      refine List.Perm.append_left _ ?_
      rw [← List.append_assoc, ← List.append_assoc]
      exact List.Perm.append_right _ List.perm_append_comm
    exact h1.trans (List.Perm.append_left _
      ((List.reverse_perm p1).symm.append (List.reverse_perm p2).symm))
  · intro x hx hx2
    exact hm.1.2.2 x (by rw [hs1]; simp [hx]) (by rw [hs2]; simp [hx2])
  · simp only [tracked, costSum_append, costSum_reverse]
    rcases hd1 with hd1 | hd1
    · left; omega
    · rcases hd2 with hd2 | hd2
      · left; omega
      · right; simp [hd1, hd2]

end Slru
end Fv.Cache.Policy
