import Fv.Lemmas.CacheAccounting
/-
Well-formedness (`WF`: the map binds every key at most once, and so does the stored snapshot)
is an invariant of EVERY call of the cache model — `run_maintenance` included, whatever the
eviction policy reports and whether or not the cost accounting is exact: every removal path goes
through `erase`, every write through `put`, the snapshot is only ever replaced by `snapshotOf` of a
well-formed map.  Hence every state reachable from a fresh cache is well-formed.
-/
namespace Fv.Cache
variable {P : Type}

theorem foldl_wf {α} (f : State P → α → State P) (hf : ∀ s a, WF s → WF (f s a)) :
    ∀ (l : List α) (s : State P), WF s → WF (l.foldl f s) := by
  intro l
  induction l with
  | nil => intro s h; exact h
  | cons a rest ih => intro s h; exact ih (f s a) (hf s a h)

theorem wf_of_eq {s s' : State P} (hw : WF s) (hm : s'.map = s.map) (hs : s'.snap = s.snap) : WF s' := by
  unfold WF at *
  rw [hm, hs]; exact hw

theorem wf_erase {s s' : State P} (k : Nat) (hw : WF s) (hm : s'.map = erase s.map k) (hs : s'.snap = s.snap) : WF s' := by
  unfold WF at *
  rw [hm, hs]
  exact ⟨nodup_keys_erase k hw.1, hw.2⟩

theorem wf_put {s s' : State P} (k : Nat) (e : Entry) (hw : WF s) (hm : s'.map = put s.map k e) (hs : s'.snap = s.snap) :
    WF s' := by
  unfold WF at *
  rw [hm, hs]
  exact ⟨nodup_keys_put k e hw.1, hw.2⟩

/-! ### maintenance -/
theorem evictVictim_wf (cfg : Cfg) (ops : PolicyOps P) (s : State P) (v : Nat) (hw : WF s) :
    WF (s.evictVictim cfg ops v).1 := by
  unfold State.evictVictim
  split
  · exact wf_erase v hw rfl rfl
  · exact hw

theorem evictVictims_wf (cfg : Cfg) (ops : PolicyOps P) :
    ∀ (vs : List Nat) (s : State P) (rel : Nat) (ns : List Notif), WF s →
      WF (State.evictVictims cfg ops s vs rel ns).1 := by
  intro vs
  induction vs with
  | nil => intro s rel ns hw; exact hw
  | cons v rest ih =>
    intro s rel ns hw
    have hv := evictVictim_wf cfg ops s v hw
    unfold State.evictVictims
    split
    · next s' c n heq => rw [heq] at hv; exact ih _ _ _ hv
    · next s' c heq => rw [heq] at hv; exact ih _ _ _ hv

theorem applyWrite_wf (cfg : Cfg) (ops : PolicyOps P) (s : State P) (i : Nat) (w : Nat × Nat) (hw : WF s) :
    WF (s.applyWrite cfg ops i w) := by
  have ha : WF (s.polAdmit ops i w.1 w.2).1 := (same_polAdmit ..).wf hw
  unfold State.applyWrite
  generalize s.polAdmit ops i w.1 w.2 = r at ha
  obtain ⟨s1, d⟩ := r
  cases d with
  | admit => exact ha
  | reject => exact ha
  | admitAndEvict vs =>
    simp only
    have hv := evictVictims_wf cfg ops vs s1 0 [] ha
    generalize State.evictVictims cfg ops s1 vs 0 [] = r at hv
    obtain ⟨s2, rel, ns⟩ := r
    exact (same_notifyAll cfg ns _).wf (wf_of_eq (s := s2) hv rfl rfl)

theorem applyWrites_wf (cfg : Cfg) (ops : PolicyOps P) (i : Nat) :
    ∀ (ws : List (Nat × Nat)) (s : State P), WF s → WF (State.applyWrites cfg ops i s ws) := by
  intro ws
  induction ws with
  | nil => intro s h; exact h
  | cons w rest ih => intro s h; exact ih _ (applyWrite_wf cfg ops s i w h)

theorem performShard_wf (cfg : Cfg) (ops : PolicyOps P) (o : Oracle) (s : State P) (i limit : Nat) (hw : WF s) :
    WF (s.performShard cfg ops o i limit) := by
  unfold State.performShard
  split
  · exact hw
  · next a _ =>
    refine (same_applyAccesses ops i _ _).wf ?_
    refine applyWrites_wf cfg ops i _ _ ?_
    exact ((same_applyAccesses ops i _ _).trans (same_modAux s i _)).wf hw

theorem ttlRemove_wf (cfg : Cfg) (ops : PolicyOps P) (i : Nat) (s : State P) (k : Nat) (hw : WF s) :
    WF (State.ttlRemove cfg ops i s k) := by
  unfold State.ttlRemove
  split
  · refine wf_erase k hw ?_ ?_
    · simp only [logRemoved_map, notify_map, subCost_map, polRemove_map]
    · exact (notify_snap cfg _ _).trans rfl
  · exact hw

theorem cleanupTtl_wf (cfg : Cfg) (ops : PolicyOps P) (o : Oracle) (s : State P) (i : Nat) (hw : WF s) :
    WF (s.cleanupTtl cfg ops o i) := by
  unfold State.cleanupTtl
  split
  · exact hw
  · exact foldl_wf _ (ttlRemove_wf cfg ops i) _ _ ((same_modAux s i _).wf hw)

theorem ttiRemove_wf (cfg : Cfg) (ops : PolicyOps P) (i : Nat) (s : State P) (k : Nat) (hw : WF s) :
    WF (State.ttiRemove cfg ops i s k) := by
  unfold State.ttiRemove
  split
  · exact (same_notify cfg _ _).wf (wf_erase k hw rfl rfl)
  · exact hw

theorem cleanupTti_wf (cfg : Cfg) (ops : PolicyOps P) (o : Oracle) (s : State P) (i : Nat) (hw : WF s) :
    WF (s.cleanupTti cfg ops o i) := by
  unfold State.cleanupTti
  split
  · exact hw
  · exact foldl_wf _ (ttiRemove_wf cfg ops i) _ _ hw

/-- the capacity pass: whatever victims and released amount the policy reports -/
theorem cleanupCapacity_wf (cfg : Cfg) (ops : PolicyOps P) (o : Oracle) (s : State P) (i : Nat) (hw : WF s) :
    WF (s.cleanupCapacity cfg ops o i) := by
  unfold State.cleanupCapacity
  simp only
  split
  · exact hw
  · have he : WF (s.polEvict ops i (s.met.currentCost - cfg.capacity) (o.evictHint.getD i [])).1 :=
      (same_polEvict ..).wf hw
    generalize s.polEvict ops i (s.met.currentCost - cfg.capacity) (o.evictHint.getD i []) = r at he
    obtain ⟨s1, victims, released⟩ := r
    simp only at he ⊢
    split
    · exact he
    · exact wf_of_eq (s := victims.foldl (State.capRemove cfg i) s1)
        (capRemoves_props cfg i victims s1 he).1 rfl rfl

theorem runMaintenance_wf (cfg : Cfg) (ops : PolicyOps P) (o : Oracle) (s : State P) (hw : WF s) :
    WF (s.runMaintenance cfg ops o) := by
  unfold State.runMaintenance
  refine foldl_wf _ ?_ _ _ hw
  intro s i h
  exact cleanupCapacity_wf cfg ops o _ i
    (cleanupTti_wf cfg ops o _ i (cleanupTtl_wf cfg ops o _ i (performShard_wf cfg ops o s i cfg.drainLimit h)))

theorem flush_wf (cfg : Cfg) (ops : PolicyOps P) (o : Oracle) (s : State P) (hw : WF s) : WF (s.flush cfg ops o) := by
  unfold State.flush
  split
  · exact foldl_wf _ (fun s i h => performShard_wf cfg ops o s i U64 h) _ _ hw
  · exact hw

theorem opportunistic_wf (cfg : Cfg) (ops : PolicyOps P) (o : Oracle) (s : State P) (k : Nat) (hw : WF s) :
    WF (s.opportunistic cfg ops o k) := by
  unfold State.opportunistic
  split
  · exact performShard_wf cfg ops o s _ _ hw
  · exact hw

/-! ### reads and writes -/
theorem onHit_wf (cfg : Cfg) (s : State P) (k : Nat) (e : Entry) (hw : WF s) : WF (s.onHit cfg k e) := by
  have h1 : WF ({ s with map := put s.map k (e.touch s.now cfg.tti) } : State P) := wf_put k _ hw rfl rfl
  unfold State.onHit
  dsimp only
  split
  · exact (same_modAux _ _ _).wf h1
  · exact h1

theorem get_wf (cfg : Cfg) (s : State P) (k : Nat) (hw : WF s) : WF (s.get cfg k).1 := by
  unfold State.get
  split
  · next e he =>
    split
    · exact (same_miss s 1).wf hw
    · exact (same_hit _ 1).wf (onHit_wf cfg s k e hw)
  · exact (same_miss s 1).wf hw

theorem insertCore_wf (cfg : Cfg) (s : State P) (k : Nat) (e : Entry) (td : Option Nat) (full : Bool) (hw : WF s) :
    WF (s.insertCore cfg k e td full) := by
  obtain ⟨e', _, _, hm, _, hs, _⟩ := insertCore_spec cfg s k e td full
  exact wf_put k e' hw hm hs

theorem removeKey_wf (cfg : Cfg) (ops : PolicyOps P) (s : State P) (k : Nat) (hw : WF s) :
    WF (s.removeKey cfg ops k).1 := by
  unfold State.removeKey
  split
  · exact (same_notify cfg _ _).wf (wf_erase k hw rfl rfl)
  · exact hw

theorem multiRemoveLoop_wf (cfg : Cfg) (ops : PolicyOps P) :
    ∀ (ks : List Nat) (s : State P) (acc : List (Nat × Nat)), WF s → WF (multiRemoveLoop cfg ops s ks acc).1 := by
  intro ks
  induction ks with
  | nil => intro s acc hw; exact hw
  | cons k rest ih =>
    intro s acc hw
    have hk := removeKey_wf cfg ops s k hw
    unfold multiRemoveLoop
    split
    · next s' v heq => rw [heq] at hk; exact ih _ _ hk
    · next s' heq => rw [heq] at hk; exact ih _ _ hk

theorem loadInsert_wf (cfg : Cfg) (s : State P) (k vid cost : Nat) (hw : WF s) : WF (s.loadInsert cfg k vid cost) :=
  wf_put k (Entry.mk' vid cost s.now cfg.ttl cfg.tti) hw rfl rfl

theorem fetchWith_wf (cfg : Cfg) (s : State P) (k vid cost : Nat) (hw : WF s) : WF (s.fetchWith cfg k vid cost).1 := by
  have hload : WF ((s.miss 1).loadInsert cfg k vid cost) := loadInsert_wf cfg _ k vid cost ((same_miss s 1).wf hw)
  unfold State.fetchWith
  dsimp only
  split
  · exact hload
  · next e he =>
    split
    · split
      · exact hload
      · exact (same_hit _ 1).wf (onHit_wf cfg s k e hw)
    · split
      · split
        · exact loadInsert_wf cfg s k vid cost hw
        · exact hload
      · exact hload

theorem orInsert_wf (cfg : Cfg) (s : State P) (k vid cost : Nat) (hw : WF s) : WF (s.orInsert cfg k vid cost).1 := by
  unfold State.orInsert
  split
  · exact hw
  · exact wf_put k (Entry.mk' vid cost s.now cfg.ttl cfg.tti) hw rfl rfl

theorem compute_wf (s : State P) (k vid : Nat) (hw : WF s) : WF (s.compute k vid).1 := by
  unfold State.compute
  split
  · exact hw
  · next e he =>
    split
    · exact hw
    · exact wf_put k { e with vid := vid } hw rfl rfl

theorem multigetSync_wf (cfg : Cfg) : ∀ (ks : List Nat) (s : State P) (found : List (Nat × Nat)),
    WF s → WF (multigetSync cfg s ks found).1 := by
  intro ks
  induction ks with
  | nil => intro s found hw; exact hw
  | cons k rest ih =>
    intro s found hw
    unfold multigetSync
    split
    · next e he =>
      split
      · exact ih _ _ hw
      · exact ih _ _ (onHit_wf cfg s k e hw)
    · exact ih _ _ hw

theorem multigetAsync_wf (cfg : Cfg) (ops : PolicyOps P) : ∀ (ks : List Nat) (s : State P) (found : List (Nat × Nat)),
    WF s → WF (multigetAsync cfg ops s ks found).1 := by
  intro ks
  induction ks with
  | nil => intro s found hw; exact hw
  | cons k rest ih =>
    intro s found hw
    unfold multigetAsync
    split
    · next e he =>
      split
      · exact ih _ _ hw
      · exact ih _ _ ((same_polAccess ops _ _ _ _).wf (wf_put k (e.touch s.now cfg.tti) hw rfl rfl))
    · exact ih _ _ hw

theorem snapDrive_wf (cfg : Cfg) : ∀ (ks : List Nat) (s : State P) (inter : Option (Nat × Nat)) (acc : List (Nat × Nat)),
    WF s → WF (snapDrive cfg s ks inter acc).1 := by
  intro ks
  induction ks with
  | nil =>
    intro s inter acc hw
    unfold snapDrive
    split
    · split
      · exact Same.wf ⟨rfl, rfl, rfl⟩ hw
      · exact hw
    · exact hw
  | cons k rest ih =>
    intro s inter acc hw
    unfold snapDrive
    have key : ∀ (s1 : State P) (inter1 : Option (Nat × Nat)), WF s1 →
        WF (match s1.get cfg k with
          | (s, some v) => snapDrive cfg s rest inter1 (acc ++ [(k, v)])
          | (s, none) => snapDrive cfg s rest inter1 acc).1 := by
      intro s1 inter1 h1
      have hg := get_wf cfg s1 k h1
      split
      · next s2 v heq => rw [heq] at hg; exact ih _ _ _ hg
      · next s2 heq => rw [heq] at hg; exact ih _ _ _ hg
    rcases inter with _ | ⟨after, d⟩
    · exact key s none hw
    · dsimp only
      by_cases hlen : acc.length = after
      · rw [if_pos hlen]; exact key _ none (Same.wf ⟨rfl, rfl, rfl⟩ hw)
      · rw [if_neg hlen]; exact key s (some (after, d)) hw

theorem toSnapshot_wf (cfg : Cfg) (ops : PolicyOps P) (o : Oracle) (s : State P) (hw : WF s) :
    WF (s.toSnapshot cfg ops o).1 := by
  obtain ⟨hn, _⟩ := flush_wf cfg ops o s hw
  refine ⟨hn, ?_⟩
  intro sn hsn
  have h2 : (s.toSnapshot cfg ops o).1.snap = some (snapshotOf cfg (s.flush cfg ops o).map (s.flush cfg ops o).now) := rfl
  rw [h2] at hsn
  rw [← Option.some.inj hsn]
  exact hn.sublist (snapshotOf_keys_sublist cfg _ _)

theorem hold_wf (cfg : Cfg) (s : State P) (k : Nat) (hw : WF s) :
    WF (match s.get cfg k with
      | (s, some v) =>
        ((match lookup s.map k with
         | some e => { s with map := put s.map k { e with pinned := true } }
         | none => s), Ret.val (some v))
      | (s, none) => (s, Ret.val none)).1 := by
  have hg := get_wf cfg s k hw
  split
  · next s1 v heq =>
    rw [heq] at hg
    dsimp only
    split
    · next e he => exact wf_put k { e with pinned := true } hg rfl rfl
    · exact hg
  · next s1 heq => rw [heq] at hg; exact hg

theorem release_wf (s : State P) (hw : WF s) :
    WF ({ s with map := s.map.map (fun (k, e) => (k, { e with pinned := false })) } : State P) := by
  have hk : ∀ m : List (Nat × Entry), keys (m.map (fun (k, e) => (k, { e with pinned := false }))) = keys m := by
    intro m; induction m with
    | nil => rfl
    | cons p rest ih => obtain ⟨k, e⟩ := p; simp only [List.map_cons, keys_cons, ih]
  refine ⟨?_, hw.2⟩
  show (keys (s.map.map _)).Nodup
  rw [hk]; exact hw.1

/-! ### every call, every history -/

/-- `WF` is preserved by EVERY API call — `run_maintenance` included — for every policy, oracle
    and state; no accounting hypothesis. -/
theorem WF_step (cfg : Cfg) (ops : PolicyOps P) (p0 : P) (o : Oracle) (s : State P) (op : Op) (hwf : WF s) :
    WF (stepOp cfg ops p0 o s op).1 := by
  have hw : WF s.resetLogs := (same_resetLogs s).wf hwf
  cases op with
  | get k => exact get_wf cfg _ k hw
  | peek k => exact hw
  | occupied k => exact hw
  | insert async k vid cost =>
    cases async
    · exact opportunistic_wf cfg ops o _ k (insertCore_wf cfg _ k _ _ true hw)
    · exact insertCore_wf cfg _ k _ _ true hw
  | insertTtl async k vid cost ttl =>
    cases async
    · exact opportunistic_wf cfg ops o _ k (insertCore_wf cfg _ k _ _ true hw)
    · exact insertCore_wf cfg _ k _ _ true hw
  | remove k => exact removeKey_wf cfg ops _ k hw
  | invalidate k => exact removeKey_wf cfg ops _ k hw
  | clear => exact (clearAll_invD cfg ops o _ hw).1
  | advance d => exact Same.wf ⟨rfl, rfl, rfl⟩ hw
  | runMaintenance => exact runMaintenance_wf cfg ops o _ hw
  | metrics => exact flush_wf cfg ops o _ hw
  | orInsert k vid cost => exact orInsert_wf cfg _ k vid cost hw
  | compute k vid => exact compute_wf _ k vid hw
  | fetchWith k vid cost => exact fetchWith_wf cfg _ k vid cost hw
  | multiget async ks =>
    have key : ∀ (q : State P × List (Nat × Nat)), WF q.1 →
        WF (if ks.length > q.2.length then (q.1.hit q.2.length).miss (ks.length - q.2.length)
             else q.1.hit q.2.length) := by
      intro q h
      split
      · exact (same_miss _ _).wf ((same_hit _ _).wf h)
      · exact (same_hit _ _).wf h
    cases async
    · exact key _ (multigetSync_wf cfg ks _ [] hw)
    · exact key _ (multigetAsync_wf cfg ops _ _ [] hw)
  | multiInsert items =>
    exact foldl_wf _ (fun s x h => insertCore_wf cfg s x.1 _ _ false h) _ _ hw
  | multiRemove ks => exact multiRemoveLoop_wf cfg ops ks _ [] hw
  | iter batch inter =>
    exact Same.wf (s := s.resetLogs.flush cfg ops o) ⟨rfl, rfl, rfl⟩ (flush_wf cfg ops o _ hw)
  | iterSnapshot inter => exact snapDrive_wf cfg _ _ _ _ (flush_wf cfg ops o _ hw)
  | snapshot => exact toSnapshot_wf cfg ops o _ hw
  | restore =>
    show WF (match s.resetLogs.snap with
      | some sn => (State.restore cfg p0 s.resetLogs.now sn, Ret.unit)
      | none => (s.resetLogs, Ret.unit)).1
    split
    · next sn hsn => exact (restore_inv cfg p0 _ sn (hw.2 sn hsn)).1
    · exact hw
  | hold k => exact hold_wf cfg _ k hw
  | release => exact release_wf _ hw
  | gate closed =>
    cases closed
    · exact Same.wf ⟨rfl, rfl, rfl⟩ hw
    · exact Same.wf ⟨rfl, rfl, rfl⟩ hw

theorem fresh_wf (cfg : Cfg) (p0 : P) (t0 : Nat) : WF (State.fresh cfg p0 t0) :=
  ⟨List.nodup_nil, fun _ h => nomatch h⟩

theorem run_cons_fst (cfg : Cfg) (ops : PolicyOps P) (p0 : P) (s : State P) (op : Op) (o : Oracle)
    (rest : List (Op × Oracle)) :
    (run cfg ops p0 s ((op, o) :: rest)).1 = (run cfg ops p0 (stepOp cfg ops p0 o s op).1 rest).1 := rfl

/-- `WF` after any history started in a well-formed state -/
theorem WF_run_from (cfg : Cfg) (ops : PolicyOps P) (p0 : P) :
    ∀ (hist : List (Op × Oracle)) (s : State P), WF s → WF (run cfg ops p0 s hist).1 := by
  intro hist
  induction hist with
  | nil => intro s h; exact h
  | cons x rest ih =>
    intro s h
    obtain ⟨op, o⟩ := x
    rw [run_cons_fst]
    exact ih _ (WF_step cfg ops p0 o s op h)

/-- `WF` after ANY history of a fresh cache: no hypothesis on the policy, the oracles or the ops -/
theorem WF_run (cfg : Cfg) (ops : PolicyOps P) (p0 : P) (t0 : Nat) (hist : List (Op × Oracle)) :
    WF (run cfg ops p0 (State.fresh cfg p0 t0) hist).1 :=
  WF_run_from cfg ops p0 hist _ (fresh_wf cfg p0 t0)

/-- … in particular after every prefix of a history -/
theorem WF_run_prefix (cfg : Cfg) (ops : PolicyOps P) (p0 : P) (t0 : Nat) (hist : List (Op × Oracle)) (n : Nat) :
    WF (run cfg ops p0 (State.fresh cfg p0 t0) (hist.take n)).1 :=
  WF_run cfg ops p0 t0 _

/-- `s` is the state of the cache after some history of API calls on a cache built at time `t0` -/
def Reachable (cfg : Cfg) (ops : PolicyOps P) (p0 : P) (t0 : Nat) (s : State P) : Prop :=
  ∃ hist : List (Op × Oracle), s = (run cfg ops p0 (State.fresh cfg p0 t0) hist).1

theorem Reachable.fresh (cfg : Cfg) (ops : PolicyOps P) (p0 : P) (t0 : Nat) :
    Reachable cfg ops p0 t0 (State.fresh cfg p0 t0) := ⟨[], rfl⟩

theorem run_append_fst (cfg : Cfg) (ops : PolicyOps P) (p0 : P) :
    ∀ (h1 h2 : List (Op × Oracle)) (s : State P),
      (run cfg ops p0 s (h1 ++ h2)).1 = (run cfg ops p0 (run cfg ops p0 s h1).1 h2).1 := by
  intro h1
  induction h1 with
  | nil => intro h2 s; rfl
  | cons x rest ih =>
    intro h2 s
    obtain ⟨op, o⟩ := x
    rw [List.cons_append, run_cons_fst, run_cons_fst, ih]

theorem Reachable.step {cfg : Cfg} {ops : PolicyOps P} {p0 : P} {t0 : Nat} {s : State P}
    (h : Reachable cfg ops p0 t0 s) (o : Oracle) (op : Op) :
    Reachable cfg ops p0 t0 (stepOp cfg ops p0 o s op).1 := by
  obtain ⟨hist, rfl⟩ := h
  exact ⟨hist ++ [(op, o)], by rw [run_append_fst]; rfl⟩

/-- every reachable state is well-formed -/
theorem WF_reachable {cfg : Cfg} {ops : PolicyOps P} {p0 : P} {t0 : Nat} {s : State P}
    (h : Reachable cfg ops p0 t0 s) : WF s := by
  obtain ⟨hist, rfl⟩ := h
  exact WF_run cfg ops p0 t0 hist

-- non-vacuity: a reachable state with content
example : Reachable (P := Unit) { nshards := 2 } nullOps () 0
    (run { nshards := 2 } nullOps () (State.fresh { nshards := 2 } () 0)
      [(.insert false 1 101 1, {}), (.insert false 1 102 2, {}), (.runMaintenance, {})]).1 := ⟨_, rfl⟩

end Fv.Cache
