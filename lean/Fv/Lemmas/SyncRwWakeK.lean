import Fv.Lemmas.SyncRwWakeL2
/-!
Accounting of `WOKEN` nodes in the rwlock model (`PWk`), part 1: what a waker does with the handles
it has collected (`ws`): it keeps them until they are delivered - `unpark` for a thread handle, a
bump of the wake counter for a counting waker.
-/
namespace Fv.Sync.RwLock
open Fv.Sync
variable {cfg : Cfg} {s s' : State} {t : Tid} {l : Lbl}

theorem wakeRest_token (s : State) (t : Tid) (ws : List Waiter) : (wakeRest s t ws).token = s.token := by
  unfold wakeRest
  generalize drain s.wakes ws = p
  obtain ⟨wk, rest⟩ := p
  cases rest <;> rfl

/-- after `wakeRest` every collected handle is still carried (at `wnWake`) or was a counting waker
whose counter has been bumped -/
theorem wakeRest_cover (s : State) (t : Tid) (ws : List Waiter) (w : Waiter) (hw : w ∈ ws) :
    (((wakeRest s t ws).th t).pc = .wnWake ∧ w ∈ ((wakeRest s t ws).th t).ws)
    ∨ (∃ f, w = .task f ∧ 0 < (wakeRest s t ws).wakes f) := by
  have hc := drain_cover s.wakes ws w hw
  unfold wakeRest
  generalize drain s.wakes ws = p at hc ⊢
  obtain ⟨wk, rest⟩ := p
  simp only at hc ⊢
  rcases hc with hc | ⟨f, hf, hlt⟩
  · left
    cases rest with
    | nil => cases hc
    | cons a r => refine ⟨?_, ?_⟩ <;> simp [setTh, hc]
  · right
    refine ⟨f, hf, ?_⟩
    cases rest <;> (simp only [setTh]; omega)

/-- what the stepping thread does with a handle it carries -/
theorem postwake_local (h : Step cfg s t l s') {w : Waiter}
    (hp : postWakePc (s.th t).pc = true) (hw0 : w ∈ (s.th t).ws) :
    (postWakePc (s'.th t).pc = true ∧ w ∈ (s'.th t).ws)
    ∨ (∃ u, w = .thread u ∧ s'.token u = true)
    ∨ (∃ f, w = .task f ∧ 0 < s'.wakes f) := by
  cases h
  case ff1Zero a hpc he =>
    left; rw [hpc] at hp
    cases a <;> simp_all [withPc, setTh, postWakePc]
  case ff1Pos a hpc he =>
    left; rw [hpc] at hp
    cases a <;> simp_all [withPc, setTh, postWakePc]
  case ff2Empty a hpc he =>
    left; rw [hpc] at hp
    cases a <;> simp_all [withPc, setTh, postWakePc]
  case ff2Nonempty a hpc he =>
    left; rw [hpc] at hp
    cases a <;> simp_all [withPc, setTh, postWakePc]
  case llRel a hpc =>
    rw [hpc] at hp
    cases a <;> first | cases hp | skip
    simp only [afterRel]
    rcases wakeRest_cover { s with wl := s.wl.setLocked false } t (s.th t).ws w hw0 with ⟨h1, h2⟩ | h1
    · exact Or.inl ⟨by rw [h1]; rfl, h2⟩
    · exact Or.inr (Or.inr h1)
  case wrStore hpc =>
    left
    simp only [wakeAllNext]
    split
    · simp only [withPc, setTh, upd_same]
      exact ⟨rfl, List.mem_append_left _ hw0⟩
    · simp only [setTh, upd_same]
      exact ⟨rfl, List.mem_append_left _ hw0⟩
  case wnWake u rest hpc hws =>
    rw [hws] at hw0
    rcases List.mem_cons.1 hw0 with h1 | h1
    · right; left
      refine ⟨u, h1, ?_⟩
      rw [wakeRest_token]; simp
    · rcases wakeRest_cover { s with token := upd s.token u true } t rest w h1 with ⟨h2, h3⟩ | h2
      · exact Or.inl ⟨by rw [h2]; rfl, h3⟩
      · exact Or.inr (Or.inr h2)
  all_goals (simp_all [postWakePc])

end Fv.Sync.RwLock
