import Fv.Lemmas.Mpsc3BCore
/-! Consequences of the ticket-level invariants `CInv`: capacity bound, the sequence equation
`logged = received ++ buffered`, exactly-once (no duplicates), per-producer FIFO. -/
namespace Fv.Chan.Mpsc3B

theorem buffered_length_le (slot : Nat → Slot) (lo cap : Nat) (h : ∀ t x, slot t = .set x → t < lo + cap) :
    ∀ n, (buffered slot lo n).length ≤ min n cap := by
  intro n
  induction n with
  | zero => simp [buffered]
  | succ m ih =>
    simp only [buffered, List.length_append]
    cases hs : slot (lo + m) with
    | set x =>
      have := h _ _ hs
      simp; omega
    | empty => simp; omega
    | skip => simp; omega

/-- P2 ⇒ at most `cap` values are buffered (SET slots at or after the consumer position) -/
theorem CInv.buffered_le {c : Cfg} {k : Core} (hi : CInv c k) (n : Nat) : (buffered k.slot k.pos n).length ≤ c.cap :=
  Nat.le_trans (buffered_length_le k.slot k.pos c.cap hi.capSet n) (Nat.min_le_right _ _)

theorem collect_add (log : Nat → Option Tok) (a : Nat) : ∀ n, collect log (a + n) =
    collect log a ++ (List.range n).filterMap (fun i => log (a + i)) := by
  intro n
  induction n with
  | zero => simp
  | succ m ih =>
    rw [← Nat.add_assoc, collect, ih, List.range_succ, List.filterMap_append]
    simp only [List.filterMap_cons, List.filterMap_nil, List.append_assoc]
    cases log (a + m) <;> simp

/-- sequence equation: everything logged below `pos + n` = received ++ buffered in `[pos, pos+n)` -/
theorem CInv.seq_eq {c : Cfg} {k : Core} (hi : CInv c k) : ∀ n, collect k.log (k.pos + n) = k.recvd ++ buffered k.slot k.pos n := by
  intro n
  induction n with
  | zero => simp [buffered, hi.recvdEq]
  | succ m ih =>
    rw [← Nat.add_assoc, collect, ih, buffered, List.append_assoc]
    congr 1; congr 1
    cases hs : k.slot (k.pos + m) with
    | set x => simp [(hi.logSlot _ x (by omega)).1 hs]
    | empty =>
      cases hl : k.log (k.pos + m) with
      | none => rfl
      | some x => have := (hi.logSlot _ x (by omega)).2 hl; rw [hs] at this; simp at this
    | skip =>
      cases hl : k.log (k.pos + m) with
      | none => rfl
      | some x => have := (hi.logSlot _ x (by omega)).2 hl; rw [hs] at this; simp at this

theorem mem_collect {log : Nat → Option Tok} {x : Tok} : ∀ {n}, x ∈ collect log n ↔ ∃ t, t < n ∧ log t = some x := by
  intro n
  induction n with
  | zero => simp [collect]
  | succ m ih =>
    simp only [collect, List.mem_append, ih, Option.mem_toList]
    constructor
    · rintro (⟨t, ht, hx⟩ | hx)
      · exact ⟨t, by omega, hx⟩
      · exact ⟨m, by omega, hx⟩
    · rintro ⟨t, ht, hx⟩
      by_cases e : t = m
      · subst e; exact Or.inr hx
      · exact Or.inl ⟨t, by omega, hx⟩

/-- tokens logged at different tickets are different (producer + per-producer sequence number) -/
theorem CInv.log_inj {c : Cfg} {k : Core} (hi : CInv c k) {t1 t2 : Nat} {x : Tok}
    (h1 : k.log t1 = some x) (h2 : k.log t2 = some x) : t1 = t2 := by
  rcases Nat.lt_trichotomy t1 t2 with h | h | h
  · exact absurd (hi.fifo t1 t2 x x h1 h2 rfl h) (Nat.lt_irrefl _)
  · exact h
  · exact absurd (hi.fifo t2 t1 x x h2 h1 rfl h) (Nat.lt_irrefl _)

/-- per-producer FIFO + exactly-once, as a pairwise property of the logged sequence -/
theorem CInv.collect_pairwise {c : Cfg} {k : Core} (hi : CInv c k) :
    ∀ n, (collect k.log n).Pairwise (fun a b => a ≠ b ∧ (a.p = b.p → a.k < b.k)) := by
  intro n
  induction n with
  | zero => simp [collect]
  | succ m ih =>
    rw [collect, List.pairwise_append]
    refine ⟨ih, ?_, ?_⟩
    · cases k.log m <;> simp
    · intro a ha b hb
      obtain ⟨t, ht, hta⟩ := mem_collect.1 ha
      have hb' : k.log m = some b := by simpa using hb
      refine ⟨?_, fun hp => hi.fifo t m a b hta hb' hp ht⟩
      intro e; subst e
      have := hi.log_inj hta hb'; omega

theorem CInv.collect_nodup {c : Cfg} {k : Core} (hi : CInv c k) (n : Nat) : (collect k.log n).Nodup :=
  (hi.collect_pairwise n).imp (fun h => h.1)

end Fv.Chan.Mpsc3B
