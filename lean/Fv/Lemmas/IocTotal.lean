import Fv.Lemmas.IocBasic
/-!
# C18: the resolver terminates for every registry

`World.room w` counts the registered keys that are not in the resolving set.  Every nested
resolution that runs a factory first pushes a registered key that was not in the set, so `room`
strictly decreases along the nesting and `regs.length + 1` levels of fuel always suffice.
-/
namespace Fv.Ioc

def World.room (w : World) : Nat := (w.regs.keys.filter (fun k => decide (k ∉ w.resolving))).length

theorem filter_length_lt {α} (l : List α) (p q : α → Bool) (hqp : ∀ x, q x = true → p x = true)
    (k : α) (hk : k ∈ l) (hpk : p k = true) (hqk : q k = false) :
    (l.filter q).length < (l.filter p).length := by
  induction l with
  | nil => cases hk
  | cons a l ih =>
    have hmono : (l.filter q).length ≤ (l.filter p).length := by
      clear ih hk
      induction l with
      | nil => simp
      | cons b l ih2 =>
        simp only [List.filter_cons]
        cases hq : q b with
        | true => simp [hqp b hq]; exact ih2
        | false =>
          cases hp : p b with
          | true => simp; omega
          | false => simpa using ih2
    rcases List.mem_cons.1 hk with rfl | hk'
    · simp only [List.filter_cons, hpk, hqk]
      simp; omega
    · have := ih hk'
      simp only [List.filter_cons]
      cases hq : q a with
      | true => simp [hqp a hq]; exact this
      | false =>
        cases hp : p a with
        | true => simp; omega
        | false => simpa using this

theorem World.room_le (w : World) : w.room ≤ w.regs.length := by
  have := List.length_filter_le (fun k => decide (k ∉ w.resolving)) w.regs.keys
  simpa [World.room, Reg.keys] using this

theorem World.room_push_lt {w : World} {k : Key} (hk : k ∈ w.regs.keys) (hn : k ∉ w.resolving) :
    (w.push k).room < w.room := by
  simp only [World.room, World.push]
  apply filter_length_lt _ _ _ _ k hk
  · simp [hn]
  · simp
  · intro x hx
    simp only [List.mem_cons, not_or, decide_eq_true_eq] at hx ⊢
    exact hx.2

theorem World.Ext.room_eq {w w' : World} (h : w.Ext w') : w'.room = w.room := by
  simp only [World.room, Reg.keys_eq_of_slots_eq h.slots, h.resolving]

theorem runScript_total (res : World → Nat → Key → World × Outcome) (n : Nat)
    (hext : ∀ (w : World) c k, w.Ext (res w c k).1)
    (hres : ∀ (w : World) c k, w.room = n → (res w c k).2 ≠ .diverge) :
    ∀ (ds : List Dep) (w : World), w.room = n → (runScript res w ds).2 ≠ some .diverge := by
  intro ds
  induction ds with
  | nil => intro w _; simp [runScript]
  | cons d ds ih =>
    intro w hw
    have h1 := hext w d.c d.k
    have h2 := hres w d.c d.k hw
    simp only [runScript]
    generalize res w d.c d.k = r at h1 h2
    obtain ⟨w', o⟩ := r
    have hw' : w'.room = n := by rw [h1.room_eq]; exact hw
    cases o with
    | some id => exact ih w' hw'
    | none =>
      by_cases hq : d.req
      · simp [hq]
      · simpa [hq] using ih w' hw'
    | panic p => simp
    | diverge => exact absurd rfl h2

theorem Abort.outcome_ne_diverge {a : Abort} (h : a ≠ .diverge) : a.outcome ≠ .diverge := by
  cases a with
  | panic p => simp [Abort.outcome]
  | diverge => exact absurd rfl h

theorem resolveF_total : ∀ (fuel : Nat) (w : World) (c : Nat) (k : Key),
    w.room < fuel → (resolveF fuel w c k).2 ≠ .diverge := by
  intro fuel
  induction fuel with
  | zero => intro w c k h; omega
  | succ fuel ih =>
    intro w c k hroom
    simp only [resolveF]
    by_cases hk : k ∈ w.resolving
    · simp [hk]
    · simp only [hk, if_false]
      cases hget : (w.push k).regs.get ⟨c, k⟩ with
      | none => simp
      | some p =>
        have hkey : k ∈ w.regs.keys := Reg.key_mem_of_get (s := ⟨c, k⟩) hget
        have hlt : (w.push k).room < fuel := by
          have := World.room_push_lt hkey hk
          omega
        have hscript : ∀ sc, (runScript (resolveF fuel) (w.push k) sc).2 ≠ some .diverge := fun sc =>
          runScript_total (resolveF fuel) (w.push k).room (resolveF_ext fuel)
            (fun w' c' k' hw' => ih w' c' k' (by omega)) sc (w.push k) rfl
        cases p with
        | inst id => simp
        | singleton sc cell runs =>
          cases cell with
          | some id => simp
          | none =>
            simp only
            have h := hscript sc
            generalize runScript (resolveF fuel) (w.push k) sc = r at h
            obtain ⟨w2, a⟩ := r
            cases a with
            | some a => exact Abort.outcome_ne_diverge (fun e => h (by rw [e]))
            | none => simp [World.made]
        | transient sc runs =>
          simp only
          have h := hscript sc
          generalize runScript (resolveF fuel) (w.push k) sc = r at h
          obtain ⟨w2, a⟩ := r
          cases a with
          | some a => exact Abort.outcome_ne_diverge (fun e => h (by rw [e]))
          | none => simp [World.made]

/-- `World.fuel` is enough, whatever the registry and the resolving set -/
theorem resolve_total (w : World) (c : Nat) (k : Key) : (resolve w c k).2 ≠ .diverge :=
  resolveF_total _ w c k (by have := w.room_le; simp only [World.fuel]; omega)

end Fv.Ioc
