import Fv.Chan.Mpsc3B
/-! Basic lemmas for the `Mpsc3B` model: `upd`, pcs of the continuation functions, lock discipline. -/
namespace Fv.Chan.Mpsc3B

@[simp] theorem upd_same {α} (f : Nat → α) (i : Nat) (a : α) : upd f i a i = a := by simp [upd]
theorem upd_other {α} (f : Nat → α) (i j : Nat) (a : α) (h : j ≠ i) : upd f i a j = f j := by simp [upd, h]
theorem upd_apply {α} (f : Nat → α) (i j : Nat) (a : α) : upd f i a j = if j = i then a else f j := rfl
theorem upd2_apply {α} (f : Nat → Nat → α) (i j i' j' : Nat) (a : α) :
    upd2 f i j a i' j' = if i' = i ∧ j' = j then a else f i' j' := rfl

/-- critical sections -/
def inHead : Pc → Bool
  | .dId | .dRetire | .dSlot | .dEmpty | .dDr | .dG | .dUnlock | .pDr | .pPr
  | .sFence | .sSC | .sSLock | .sSFlag | .sSCnt | .sSUnlock | .sUnpark | .sAC | .sALock | .sACnt | .sAUnlock | .sAWake
  | .fUnlock => true
  | _ => false

def inSS : Pc → Bool
  | .rgCnt | .rgUnlock | .fnCnt | .fnUnlock | .wsSFlag | .wsSCnt | .wsSUnlock | .sSFlag | .sSCnt | .sSUnlock => true
  | _ => false

def inAS : Pc → Bool
  | .uaCnt | .uaUnlock | .raCnt | .raUnlock | .wsACnt | .wsAUnlock | .sACnt | .sAUnlock => true
  | _ => false

def inSR : Pc → Bool
  | .nSCnt | .nSFlag | .nSUnlock | .waSCnt | .waSFlag | .waSUnpark | .waSUnlock | .rrUnlock | .frUnlock => true
  | _ => false

def inAR : Pc → Bool
  | .nACnt | .nAUnlock | .waACnt | .waAWake | .waAUnlock | .arUnlock | .auUnlock => true
  | _ => false

def free (p : Pc) : Bool := !inHead p && !inSS p && !inAS p && !inSR p && !inAR p

theorem inHead_of_free {p : Pc} (h : free p = true) : inHead p = false := by cases p <;> simp_all [free, inHead]
theorem inSS_of_free {p : Pc} (h : free p = true) : inSS p = false := by cases p <;> simp_all [free, inSS, inHead]
theorem inAS_of_free {p : Pc} (h : free p = true) : inAS p = false := by cases p <;> simp_all [free, inAS, inHead, inSS]
theorem inSR_of_free {p : Pc} (h : free p = true) : inSR p = false := by cases p <;> simp_all [free, inSR, inHead, inSS, inAS]
theorem inAR_of_free {p : Pc} (h : free p = true) : inAR p = false := by cases p <;> simp_all [free, inAR, inHead, inSS, inAS, inSR]

/-- unfold every per-pc step definition -/
macro "nx_unfold" "at" h:ident : tactic => `(tactic| simp only [nxIdle, nxRet, nxCClosed, nxCRx, nxTG, nxTP, nxTFadd, nxTCred, nxEId, nxERet, nxESpin, nxECas, nxWSt, nxNFence, nxNSC, nxNSLock, nxNSCnt, nxNSFlag, nxNSUnlock, nxNSUnpark, nxNAC, nxNALock, nxNACnt, nxNAUnlock, nxNAWake, nxSYield, nxRgLock, nxRgCnt, nxRgUnlock, nxRgFence, nxPkSpinLd, nxPkSpin, nxPkFlagLd, nxPkPark, nxPkSwap, nxFnLock, nxFnCnt, nxFnUnlock, nxFnFlagLd, nxFnSpin, nxUaLock, nxUaCnt, nxUaUnlock, nxRaLock, nxRaCnt, nxRaUnlock, nxRaFence, nxBoPark, nxCnAdd, nxClCas, nxClSub, nxWaSLock, nxWaSCnt, nxWaSFlag, nxWaSUnpark, nxWaSUnlock, nxWaALock, nxWaACnt, nxWaAWake, nxWaAUnlock, nxRcCas, nxRdStore, nxWsSLock, nxWsSFlag, nxWsSCnt, nxWsSUnlock, nxWsALock, nxWsACnt, nxWsAUnlock, nxWsUnpark, nxWsWake, nxRClosed, nxDLock, nxDId, nxDRetire, nxDSlot, nxDEmpty, nxDDr, nxDG, nxDUnlock, nxPDr, nxPPr, nxSFence, nxSSC, nxSSLock, nxSSFlag, nxSSCnt, nxSSUnlock, nxSUnpark, nxSAC, nxSALock, nxSACnt, nxSAUnlock, nxSAWake, nxRSc, nxFLock, nxFUnlock, nxRrLock, nxRrUnlock, nxRrCnt, nxRrFence, nxRpSpinLd, nxRpSpin, nxRpFlagLd, nxRpPark, nxFrLock, nxFrUnlock, nxFrCnt, nxFrFlagLd, nxFrSpin, nxRFlagReset, nxRYield, nxArLock, nxArUnlock, nxArCnt, nxArFence, nxAuLock, nxAuUnlock, nxAuCnt, nxLG, nxLD] at $h:ident)

theorem free_retWith (x : Th) (r : Res) : free (retWith x r).pc = true := by cases x; rfl
theorem free_retPending (x : Th) : free (retPending x).pc = true := by unfold retPending; split <;> rfl
theorem free_tsCall (x : Th) (k : TsSite) : free (tsCall x k).pc = true := by cases x; rfl
theorem free_enterLoop (x : Th) : free (enterLoop x).pc = true := by cases x; rfl
theorem free_parkSeqS (c : Cfg) (x : Th) : free (parkSeqS c x).pc = true := by unfold parkSeqS; split <;> rfl
theorem free_parkSeqR (c : Cfg) (x : Th) : free (parkSeqR c x).pc = true := by unfold parkSeqR; split <;> rfl
theorem free_deqCall (x : Th) (k : DqSite) : free (deqCall x k).pc = true := by cases x; rfl
theorem free_flushCall (x : Th) (k : FlSite) : free (flushCall x k).pc = true := by cases x; rfl
theorem free_tsErr (c : Cfg) (x : Th) : free (tsErr c x).pc = true := by
  unfold tsErr enterLoop parkSeqS retWith; repeat' split
  all_goals rfl
theorem free_tsOk (x : Th) : free (tsOk x).pc = true := by
  unfold tsOk retWith; repeat' split
  all_goals rfl
theorem free_chkClosed (x : Th) : free (chkClosed x).pc = true := by
  unfold chkClosed retWith; repeat' split
  all_goals rfl
theorem free_chkOpen (x : Th) : free (chkOpen x).pc = true := by
  unfold chkOpen retWith tsCall retPending; repeat' split
  all_goals rfl
theorem free_nrDone (x : Th) : free (nrDone x).pc = true := by
  unfold nrDone; split
  · exact free_tsOk x
  · rfl
theorem free_finDoneS (x : Th) : free (finDoneS x).pc = true := by
  unfold finDoneS retWith; repeat' split
  all_goals rfl
theorem free_finDoneR (x : Th) : free (finDoneR x).pc = true := by
  unfold finDoneR retWith; repeat' split
  all_goals rfl
theorem free_deqDone (x : Th) : free (deqDone x).pc = true := by
  unfold deqDone retWith flushCall retPending; repeat' split
  all_goals rfl
theorem free_scDone (x : Th) (n : Nat) : free (scDone x n).pc = true := by
  unfold scDone retWith flushCall retPending deqCall; repeat' split
  all_goals rfl
theorem free_flushDone (c : Cfg) (x : Th) : free (flushDone c x).pc = true := by
  unfold flushDone retWith parkSeqR deqCall; repeat' split
  all_goals rfl
theorem free_probeDone (c : Cfg) (x : Th) (d : Nat) : free (probeDone c x d).pc = true := by
  unfold probeDone retWith; repeat' split
  all_goals rfl
theorem free_pollEntry (x : Th) : free (pollEntry x).pc = true := by
  unfold pollEntry retWith; repeat' split
  all_goals rfl

theorem pubDone_pc (x : Th) : (pubDone x).pc = .dDr ∨ (pubDone x).pc = .dId ∨ (pubDone x).pc = .fUnlock := by
  unfold pubDone; split <;> simp
theorem inHead_pubDone (x : Th) : inHead (pubDone x).pc = true := by unfold pubDone; split <;> rfl
theorem inSS_pubDone (x : Th) : inSS (pubDone x).pc = false := by unfold pubDone; split <;> rfl
theorem inAS_pubDone (x : Th) : inAS (pubDone x).pc = false := by unfold pubDone; split <;> rfl
theorem inSR_pubDone (x : Th) : inSR (pubDone x).pc = false := by unfold pubDone; split <;> rfl
theorem inAR_pubDone (x : Th) : inAR (pubDone x).pc = false := by unfold pubDone; split <;> rfl

/-- how one step of thread `t` moves a mutex and `t`'s membership in its critical section -/
def LockRel (inM : Pc → Bool) (m m' : Option Tid) (pc pc' : Pc) (t : Tid) : Prop :=
  (m' = m ∧ inM pc' = inM pc) ∨ (m = none ∧ m' = some t ∧ inM pc' = true ∧ inM pc = false) ∨
  (inM pc = true ∧ m' = none ∧ inM pc' = false)

theorem free_callTh (c : Cfg) (s : State) (x x0 : Th) (op : Op) : free (callTh c s x x0 op).pc = true := by
  cases op <;> simp only [callTh, retWith, deqCall] <;> (repeat' split) <;> rfl

section LockSum
attribute [local simp] inHead_of_free inSS_of_free inAS_of_free inSR_of_free inAR_of_free
  free_retWith free_retPending free_tsCall free_enterLoop free_parkSeqS free_parkSeqR free_deqCall free_flushCall
  free_tsErr free_tsOk free_chkClosed free_chkOpen free_nrDone free_finDoneS free_finDoneR free_deqDone free_scDone
  free_flushDone free_probeDone free_pollEntry inHead_pubDone inSS_pubDone inAS_pubDone inSR_pubDone inAR_pubDone

set_option maxHeartbeats 4000000 in
/-- Lock summary of a visible action: other threads are untouched; each mutex is either unchanged
(and `t` stays in/out of its section), acquired from free by `t`, or released by `t`. -/
theorem lock_sum {c s t a s'} (h : next c s t = some (a, s')) :
    (∀ u, u ≠ t → s'.th u = s.th u) ∧
    LockRel inHead s.mHead s'.mHead (s.th t).pc (s'.th t).pc t ∧
    LockRel inSS s.mSS s'.mSS (s.th t).pc (s'.th t).pc t ∧
    LockRel inAS s.mAS s'.mAS (s.th t).pc (s'.th t).pc t ∧
    LockRel inSR s.mSR s'.mSR (s.th t).pc (s'.th t).pc t ∧
    LockRel inAR s.mAR s'.mAR (s.th t).pc (s'.th t).pc t := by
  unfold next at h
  cases hpc : (s.th t).pc <;> simp only [hpc] at h <;> nx_unfold at h
  all_goals (try (repeat' split at h))
  all_goals (try (simp only [Option.some.injEq, Prod.mk.injEq, reduceCtorEq] at h))
  all_goals (try (obtain ⟨-, rfl⟩ := h))
  all_goals (try (refine ⟨fun u hu => by simp [upd_other, hu], ?_⟩))
  all_goals (first | contradiction | skip)
  all_goals (simp only [LockRel, upd_same, hpc])
  all_goals (try simp [*])
  all_goals (try (simp [inHead, inSS, inAS, inSR, inAR] <;> done))

/-- call / return / spurious park return never touch a mutex and land outside every section -/
theorem lock_sum_env {c s t a s'} {l : Label} (hl : l ≠ .act) (h : stepA c s t l = some (a, s')) :
    (∀ u, u ≠ t → s'.th u = s.th u) ∧ free (s.th t).pc = true ∧ free (s'.th t).pc = true ∧
    s'.mHead = s.mHead ∧ s'.mSS = s.mSS ∧ s'.mAS = s.mAS ∧ s'.mSR = s.mSR ∧ s'.mAR = s.mAR := by
  cases l
  · exact absurd rfl hl
  · -- call
    simp only [stepA, stepCall] at h
    split at h
    · split at h
      · simp only [Option.some.injEq, Prod.mk.injEq] at h
        obtain ⟨-, rfl⟩ := h
        rename_i op rest hpc hprog hok
        exact ⟨fun u hu => by simp [upd_other, hu], by rw [hpc]; rfl, by simp [free_callTh], rfl, rfl, rfl, rfl, rfl⟩
      · simp at h
    · simp at h
  · -- ret
    simp only [stepA, stepRet] at h
    split at h
    · simp only [Option.some.injEq, Prod.mk.injEq] at h
      obtain ⟨-, rfl⟩ := h
      rename_i hpc
      refine ⟨fun u hu => by simp [upd_other, hu], by rw [hpc]; rfl, by simp [free, inHead, inSS, inAS, inSR, inAR], ?_⟩
      simp
    · simp at h
  · -- spurious
    simp only [stepA, stepSpurious] at h
    split at h <;> simp only [Option.some.injEq, Prod.mk.injEq, reduceCtorEq] at h
    all_goals (obtain ⟨-, rfl⟩ := h; rename_i hpc)
    all_goals (refine ⟨fun u hu => by simp [upd_other, hu], by rw [hpc]; rfl, ?_, ?_⟩)
    all_goals (first | (simp [free_pollEntry] <;> done) | (simp [free, inHead, inSS, inAS, inSR, inAR] <;> done))
end LockSum

/-- Lock discipline: a thread inside a critical section holds that section's mutex. -/
structure LInv (s : State) : Prop where
  head : ∀ u, inHead (s.th u).pc = true → s.mHead = some u
  ss : ∀ u, inSS (s.th u).pc = true → s.mSS = some u
  as : ∀ u, inAS (s.th u).pc = true → s.mAS = some u
  sr : ∀ u, inSR (s.th u).pc = true → s.mSR = some u
  ar : ∀ u, inAR (s.th u).pc = true → s.mAR = some u

theorem lock_pres {inM : Pc → Bool} {m m' : Option Tid} {th th' : Tid → Th} {t : Tid}
    (hI : ∀ u, inM (th u).pc = true → m = some u) (hth : ∀ u, u ≠ t → th' u = th u)
    (hr : LockRel inM m m' (th t).pc (th' t).pc t) : ∀ u, inM (th' u).pc = true → m' = some u := by
  intro u hu
  by_cases hut : u = t
  · subst hut
    rcases hr with ⟨h1, h2⟩ | ⟨_, h2, _, _⟩ | ⟨_, _, h3⟩
    · rw [h1]; exact hI u (by rw [← h2]; exact hu)
    · exact h2
    · rw [h3] at hu; exact absurd hu (by simp)
  · rw [hth u hut] at hu
    have hm := hI u hu
    rcases hr with ⟨h1, _⟩ | ⟨h1, _, _, _⟩ | ⟨h1, _, _⟩
    · rw [h1]; exact hm
    · rw [h1] at hm; exact absurd hm (by simp)
    · have := hI t h1; rw [this] at hm; exact absurd (Option.some.inj hm).symm hut

theorem linv_init (c : Cfg) (p : Tid → List Op) : LInv (init c p) := by
  constructor <;> intro u hu <;> simp [init, inHead, inSS, inAS, inSR, inAR] at hu

theorem linv_step {c s t l s'} (hi : LInv s) (h : step c s t l = some s') : LInv s' := by
  unfold step at h
  cases hA : stepA c s t l with
  | none => simp [hA] at h
  | some r =>
    obtain ⟨a, s1⟩ := r
    simp [hA] at h; subst h
    by_cases hl : l = .act
    · subst hl
      obtain ⟨hth, h1, h2, h3, h4, h5⟩ := lock_sum (by simpa [stepA] using hA)
      exact ⟨lock_pres hi.head hth h1, lock_pres hi.ss hth h2, lock_pres hi.as hth h3,
             lock_pres hi.sr hth h4, lock_pres hi.ar hth h5⟩
    · obtain ⟨hth, hf, hf', e1, e2, e3, e4, e5⟩ := lock_sum_env hl hA
      have rel : ∀ (inM : Pc → Bool) (m : Option Tid), inM (s.th t).pc = false → inM (s1.th t).pc = false →
          LockRel inM m m (s.th t).pc (s1.th t).pc t := fun inM m a b => Or.inl ⟨rfl, by rw [a, b]⟩
      refine ⟨?_, ?_, ?_, ?_, ?_⟩
      · rw [e1]; exact lock_pres hi.head hth (rel _ _ (inHead_of_free hf) (inHead_of_free hf'))
      · rw [e2]; exact lock_pres hi.ss hth (rel _ _ (inSS_of_free hf) (inSS_of_free hf'))
      · rw [e3]; exact lock_pres hi.as hth (rel _ _ (inAS_of_free hf) (inAS_of_free hf'))
      · rw [e4]; exact lock_pres hi.sr hth (rel _ _ (inSR_of_free hf) (inSR_of_free hf'))
      · rw [e5]; exact lock_pres hi.ar hth (rel _ _ (inAR_of_free hf) (inAR_of_free hf'))

theorem linv_reach {c p s} (h : Reach c p s) : LInv s := by
  induction h with
  | init => exact linv_init c p
  | step _ hs ih => exact linv_step ih hs

end Fv.Chan.Mpsc3B
