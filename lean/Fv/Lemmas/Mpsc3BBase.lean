import Fv.Chan.Mpsc3B
/-! Basic lemmas for the `Mpsc3B` model: `upd`, pcs of the continuation functions, lock discipline. -/
namespace Fv.Chan.Mpsc3B

@[simp] theorem upd_same {α} (f : Nat → α) (i : Nat) (a : α) : upd f i a i = a := by simp [upd]
theorem upd_other {α} (f : Nat → α) (i j : Nat) (a : α) (h : j ≠ i) : upd f i a j = f j := by simp [upd, h]
theorem upd_apply {α} (f : Nat → α) (i j : Nat) (a : α) : upd f i a j = if j = i then a else f j := rfl
theorem upd2_apply {α} (f : Nat → Nat → α) (i j i' j' : Nat) (a : α) :
    upd2 f i j a i' j' = if i' = i ∧ j' = j then a else f i' j' := rfl

/-- critical sections -/
def inHead : Pc → Bool
  | .dId | .dRetire | .dSlot | .dEmpty | .dDr | .dG | .dUnlock | .pDr | .pPr
  | .sFence | .sSC | .sSLock | .sSFlag | .sSCnt | .sSUnlock | .sUnpark | .sAC | .sALock | .sACnt | .sAUnlock | .sAWake
  | .fUnlock => true
  | _ => false

def inSS : Pc → Bool
  | .rgCnt | .rgUnlock | .fnCnt | .fnUnlock | .wsSFlag | .wsSCnt | .wsSUnlock | .sSFlag | .sSCnt | .sSUnlock => true
  | _ => false

def inAS : Pc → Bool
  | .uaCnt | .uaUnlock | .raCnt | .raUnlock | .wsACnt | .wsAUnlock | .sACnt | .sAUnlock => true
  | _ => false

def inSR : Pc → Bool
  | .nSCnt | .nSFlag | .nSUnlock | .waSCnt | .waSFlag | .waSUnpark | .waSUnlock | .rrUnlock | .frUnlock => true
  | _ => false

def inAR : Pc → Bool
  | .nACnt | .nAUnlock | .waACnt | .waAWake | .waAUnlock | .arUnlock | .auUnlock => true
  | _ => false

end Fv.Chan.Mpsc3B
