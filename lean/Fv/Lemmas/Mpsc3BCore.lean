import Fv.Lemmas.Mpsc3BBase
/-!
Ticket-level core of the `Mpsc3B` model: the projection of a model state onto the ticket counter,
the published / exact drain counters, the ticket-indexed slots, the consumer cursor and the
per-thread claim status — and the small transition system (`CStep`) the projection follows
(every model step is a `CStep` or leaves the projection unchanged: `Fv.Lemmas.Mpsc3BSim`).
The invariants P1–P3 of DESIGN Appendix A.3 are proved here, once, on `CStep`.
-/
namespace Fv.Chan.Mpsc3B

structure Claim where
  tk : Nat
  chk : Option Bool            -- `none`: `credit_ok` not yet evaluated
  deriving DecidableEq, Repr

/-- consumer phase (of the thread holding the head lock) -/
inductive CPh
  | other
  | retire                                 -- about to store `consumer_retired` and advance `cid`
  | taking (sk : Bool) (g : Option Tok)    -- read SET (`sk = false`, value `g`) / SKIP at `pos`; about to reset the slot
  | pub1 (f : Nat)                         -- `publish_progress`: `unpublished` zeroed, about to store `drained`
  | pub2 (f : Nat)                         -- about to store `progress`
  deriving DecidableEq, Repr

structure Core where
  gtail : Nat
  progress : Nat
  drained : Nat
  pos : Nat
  unpub : Nat
  cid : Nat
  idx : Nat
  slot : Nat → Slot
  log : Nat → Option Tok
  recvd : List Tok
  seq : Tid → Nat
  claim : Tid → Option Claim
  cph : CPh

def tkSlot : Bool → Option Tok → Slot
  | false, some y => .set y
  | _, _ => .skip

def tkRecv (r : List Tok) : Bool → Option Tok → List Tok
  | false, some y => r ++ [y]
  | _, _ => r

def pend : CPh → Nat
  | .pub1 f => f
  | .pub2 f => f
  | _ => 0

inductive CStep (c : Cfg) : Core → Core → Prop
  | fadd (k : Core) (p : Tid) (h : k.claim p = none) :
      CStep c k { k with gtail := k.gtail + 1, claim := upd k.claim p (some ⟨k.gtail, none⟩) }
  | cred (k : Core) (p : Tid) (tk : Nat) (cold : Bool) (h : k.claim p = some ⟨tk, none⟩) :
      CStep c k { k with claim := upd k.claim p (some ⟨tk, some (wlt tk (if cold then k.drained else k.progress) c.cap)⟩) }
  | wset (k : Core) (p : Tid) (tk v : Nat) (h : k.claim p = some ⟨tk, some true⟩) :
      CStep c k { k with slot := upd k.slot tk (.set ⟨p, k.seq p, v⟩), log := upd k.log tk (some ⟨p, k.seq p, v⟩),
                         seq := upd k.seq p (k.seq p + 1), claim := upd k.claim p none }
  | wskip (k : Core) (p : Tid) (tk : Nat) (h : k.claim p = some ⟨tk, some false⟩) :
      CStep c k { k with slot := upd k.slot tk .skip, claim := upd k.claim p none }
  | toRetire (k : Core) (h : k.cph = .other) (hi : k.idx = c.chunkCap) : CStep c k { k with cph := .retire }
  | retire (k : Core) (h : k.cph = .retire) : CStep c k { k with cid := k.cid + 1, idx := 0, cph := .other }
  | lookSet (k : Core) (y : Tok) (h : k.cph = .other) (hs : k.slot (k.cid * c.chunkCap + k.idx) = .set y) :
      CStep c k { k with cph := .taking false (some y) }
  | lookSkip (k : Core) (g : Option Tok) (h : k.cph = .other) (hs : k.slot (k.cid * c.chunkCap + k.idx) = .skip) :
      CStep c k { k with cph := .taking true g }
  | drainKeep (k : Core) (sk : Bool) (g : Option Tok) (h : k.cph = .taking sk g) :
      CStep c k { k with slot := upd k.slot (k.cid * c.chunkCap + k.idx) .empty, idx := k.idx + 1, pos := k.pos + 1,
                         unpub := k.unpub + 1, recvd := tkRecv k.recvd sk g, cph := .other }
  | drainPub (k : Core) (sk : Bool) (g : Option Tok) (h : k.cph = .taking sk g) :
      CStep c k { k with slot := upd k.slot (k.cid * c.chunkCap + k.idx) .empty, idx := k.idx + 1, pos := k.pos + 1,
                         unpub := 0, recvd := tkRecv k.recvd sk g, cph := .pub1 (k.unpub + 1) }
  | flushPub (k : Core) (h : k.cph = .other) : CStep c k { k with unpub := 0, cph := .pub1 k.unpub }
  | pubDr (k : Core) (f : Nat) (h : k.cph = .pub1 f) : CStep c k { k with drained := k.pos, cph := .pub2 f }
  | pubPr (k : Core) (f : Nat) (h : k.cph = .pub2 f) : CStep c k { k with progress := k.pos, cph := .other }
  | mirror (k : Core) (h : k.cph = .other) : CStep c k { k with drained := k.pos }

/-- tokens logged at tickets `< n`, in ticket order -/
def collect (log : Nat → Option Tok) : Nat → List Tok
  | 0 => []
  | n + 1 => collect log n ++ (log n).toList

/-- tokens in SET slots at tickets `lo ≤ t < lo + n`, in ticket order -/
def buffered (slot : Nat → Slot) (lo : Nat) : Nat → List Tok
  | 0 => []
  | n + 1 => buffered slot lo n ++ (match slot (lo + n) with | .set x => [x] | _ => [])

structure CInv (c : Cfg) (k : Core) : Prop where
  ord1 : k.progress ≤ k.drained
  ord2 : k.drained ≤ k.pos
  ord3 : k.pos ≤ k.gtail
  posEq : k.pos = k.cid * c.chunkCap + k.idx
  below : ∀ t, t < k.pos → k.slot t = .empty
  above : ∀ t, k.gtail ≤ t → k.slot t = .empty
  claimRange : ∀ p tk ch, k.claim p = some ⟨tk, ch⟩ → k.pos ≤ tk ∧ tk < k.gtail ∧ k.slot tk = .empty
  claimUniq : ∀ p q tk ch ch', k.claim p = some ⟨tk, ch⟩ → k.claim q = some ⟨tk, ch'⟩ → p = q
  claimed : ∀ t, k.pos ≤ t → t < k.gtail → k.slot t = .empty → ∃ p ch, k.claim p = some ⟨t, ch⟩
  capSet : ∀ t x, k.slot t = .set x → t < k.pos + c.cap
  okCap : ∀ p tk, k.claim p = some ⟨tk, some true⟩ → tk < k.pos + c.cap
  logSlot : ∀ t x, k.pos ≤ t → (k.slot t = .set x ↔ k.log t = some x)
  recvdEq : k.recvd = collect k.log k.pos
  logBound : ∀ t x, k.log t = some x → t < k.gtail
  seqK : ∀ t x, k.log t = some x → x.k < k.seq x.p
  fifo : ∀ t1 t2 x1 x2, k.log t1 = some x1 → k.log t2 = some x2 → x1.p = x2.p → t1 < t2 → x1.k < x2.k
  logClaim : ∀ t x tk ch, k.log t = some x → k.claim x.p = some ⟨tk, ch⟩ → t < tk
  phRetire : k.cph = .retire → k.idx = c.chunkCap
  phTaking : ∀ sk g, k.cph = .taking sk g → k.slot k.pos = tkSlot sk g
  unpubEq : k.progress + k.unpub + pend k.cph = k.pos
  phPub1 : ∀ f, k.cph = .pub1 f → k.unpub = 0
  phPub2 : ∀ f, k.cph = .pub2 f → k.unpub = 0
  phPub2d : ∀ f, k.cph = .pub2 f → k.drained = k.pos

theorem collect_upd_ge (log : Nat → Option Tok) (t : Nat) (v : Option Tok) (n : Nat) (h : n ≤ t) :
    collect (upd log t v) n = collect log n := by
  induction n with
  | zero => rfl
  | succ m ih =>
    have : upd log t v m = log m := upd_other _ _ _ _ (by omega)
    simp [collect, ih (by omega), this]

theorem buffered_upd_lt (slot : Nat → Slot) (lo n t : Nat) (v : Slot) (h : t < lo) :
    buffered (upd slot t v) lo n = buffered slot lo n := by
  induction n with
  | zero => rfl
  | succ m ih =>
    have : upd slot t v (lo + m) = slot (lo + m) := upd_other _ _ _ _ (by omega)
    simp [buffered, ih, this]

def cinit : Core :=
  { gtail := 0, progress := 0, drained := 0, pos := 0, unpub := 0, cid := 0, idx := 0, slot := fun _ => .empty,
    log := fun _ => none, recvd := [], seq := fun _ => 0, claim := fun _ => none, cph := .other }

theorem cinv_init (c : Cfg) : CInv c cinit := by
  constructor <;> simp [cinit, collect, pend]

end Fv.Chan.Mpsc3B
