import Fv.Lemmas.CacheConc
/-! Register invariant of the concurrent cache model: the ghost linearization history is accepted
by the sequential "register that may forget" specification and replays to the current map. -/
namespace Fv.Cache.Conc

structure InvR (s : State) : Prop where
  ok : histOk emptyReg s.hist = true
  reg : regOf emptyReg s.hist = vals s.map

theorem invR_init : InvR init := ⟨rfl, rfl⟩

theorem invR_same {s s' : State} (hi : InvR s) (hh : s'.hist = s.hist) (hm : s'.map = s.map) : InvR s' := by
  obtain ⟨h1, h2⟩ := hi
  exact ⟨by rw [hh]; exact h1, by rw [hh, hm]; exact h2⟩

theorem invR_of {s s' : State} (hi : InvR s) (evs : List HEv) (hh : s'.hist = s.hist ++ evs)
    (h1 : histOk (vals s.map) evs = true) (h2 : regOf (vals s.map) evs = vals s'.map) : InvR s' := by
  obtain ⟨i1, i2⟩ := hi
  constructor
  · rw [hh, histOk_append, i1, i2, h1]; rfl
  · rw [hh, regOf_append, i2, h2]

syntax "invr_close " ident : tactic
macro_rules | `(tactic| invr_close $hi) => `(tactic|
  first
  | exact invR_same $hi rfl rfl
  | (refine invR_of $hi _ rfl ?_ ?_ <;>
      simp_all [histOk, evOk, applyEv, regOf, vals_upd, vals, List.foldl] <;>
      first | rfl | (funext j; simp only [upd]; split <;> simp_all [vals])))

syntax "invr_step " ident ident ident : tactic
macro_rules | `(tactic| invr_step $hi $h $f) => `(tactic|
  (unfold $f at $h:ident
   repeat' split at $h:ident
   all_goals (simp at $h:ident; try subst $h:ident)
   all_goals invr_close $hi))

theorem invR_step {c : Cfg} {s s' : State} {t : Nat} {l : Label} (hi : InvR s) (h : step c s t l = some s') :
    InvR s' := by
  replace h := step_step0 h
  cases l <;> simp only [step0] at h
  case call op a => invr_step hi h stepCall
  case advance d => simp at h; subst h; exact ⟨hi.ok, hi.reg⟩
  case read => invr_step hi h stepRead
  case insMap => invr_step hi h stepInsMap
  case insSub => invr_step hi h stepInsSub
  case insEv => invr_step hi h stepInsEv
  case insAdd => invr_step hi h stepInsAdd
  case coopSkip => invr_step hi h stepCoopSkip
  case coopLock => invr_step hi h stepCoopLock
  case rmMap => invr_step hi h stepRmMap
  case rmPol => invr_step hi h stepRmPol
  case rmSub => invr_step hi h stepRmSub
  case rmNote sent => invr_step hi h stepRmNote
  case compute fail => invr_step hi h stepCompute
  case oiMap => invr_step hi h stepOiMap
  case oiEv => invr_step hi h stepOiEv
  case oiAdd => invr_step hi h stepOiAdd
  case clear => invr_step hi h stepClear
  case clrAcq i => invr_step hi h stepClrAcq
  case clrGet i => invr_step hi h stepClrGet
  case mLock => invr_step hi h stepMLock
  case recv => invr_step hi h stepRecv
  case admit d => invr_step hi h stepAdmit
  case victim => invr_step hi h stepVictim
  case evSub => invr_step hi h stepEvSub
  case evNote sent => invr_step hi h stepEvNote
  case ttlAdvance e => invr_step hi h stepTtlAdvance
  case ttlMap sent =>
    unfold stepTtlMap at h
    split at h
    · simp at h; subst h
      rename_i m expired _
      have := removeKeys_spec c.nShards m.sh t expired s.map
      exact invR_of hi _ rfl this.1 this.2
    · simp at h
  case ttiMap vs sent =>
    unfold stepTtiMap at h
    split at h
    · split at h
      · simp at h; subst h; exact invR_same hi rfl rfl
      · simp at h; subst h
        rename_i m _ _
        have := removeKeys_spec c.nShards m.sh t (expiredOf c s vs) s.map
        exact invR_of hi _ rfl this.1 this.2
    · simp at h
  case capLoad => invr_step hi h stepCapLoad
  case capEvict v r => invr_step hi h stepCapEvict
  case capMap sent =>
    unfold stepCapMap at h
    split at h
    · simp at h; subst h
      rename_i m victims released _
      have := removeKeys_spec c.nShards m.sh t victims s.map
      exact invR_of hi _ rfl this.1 this.2
    · simp at h
  case capSub => invr_step hi h stepCapSub
  case unlock => invr_step hi h stepUnlock

theorem invR_reach {c : Cfg} {s : State} (h : Reach c s) : InvR s := by
  induction h with
  | init => exact invR_init
  | step _ hs ih => exact invR_step ih hs

end Fv.Cache.Conc
