import Fv.Lemmas.ChainBStepP
/-! Preservation of `InvC` by every step of the slab-chain model (generated skeleton + hand proofs). -/
namespace Fv.Chan.ChainB
set_option maxHeartbeats 1000000
attribute [local grind =] upd_apply upd2_apply publishNodes_apply sealNodes_apply freeNodes_apply freeNodes_nd freeNodes_stub sealNodes_nd sealNodes_stub

macro "closeC " hC:ident : tactic => `(tactic| first | exact ($hC).len | exact ($hC).k_le | exact ($hC).at_in | exact ($hC).in_at | exact ($hC).tail | exact ($hC).head | exact ($hC).linked | exact ($hC).gap | exact ($hC).last | exact ($hC).vals | exact ($hC).valk | exact ($hC).seq | exact ($hC).nodrop | exact ($hC).gone_k | grind)

theorem invC_pStart {cfg : Cfg} {s s' : State} {h : Nat} {vals : List Nat} (hN : 0 < cfg.N) (hi : Inv cfg s)
    (hs : stepPStart s h vals = some s') : InvC s' := by
  obtain ⟨hH, hP, hC, hS⟩ := hi
  have _ := hN
  unfold stepPStart at hs
  step_elim hs
  all_goals (constructor <;> simp only [] <;> closeC hC)

theorem invC_pBump {cfg : Cfg} {s s' : State} {h : Nat} (hN : 0 < cfg.N) (hi : Inv cfg s)
    (hs : stepPBump cfg s h = some s') : InvC s' := by
  obtain ⟨hH, hP, hC, hS⟩ := hi
  have _ := hN
  unfold stepPBump at hs
  step_elim hs
  all_goals (constructor <;> simp only [] <;> closeC hC)

theorem invC_pSealDec {cfg : Cfg} {s s' : State} {h : Nat} (hN : 0 < cfg.N) (hi : Inv cfg s)
    (hs : stepPSealDec cfg s h = some s') : InvC s' := by
  obtain ⟨hH, hP, hC, hS⟩ := hi
  have _ := hN
  unfold stepPSealDec sealDec at hs
  step_elim hs
  all_goals (constructor <;> simp only [] <;> closeC hC)

theorem invC_pRelFence {cfg : Cfg} {s s' : State} {h : Nat} (hN : 0 < cfg.N) (hi : Inv cfg s)
    (hs : stepPRelFence s h = some s') : InvC s' := by
  obtain ⟨hH, hP, hC, hS⟩ := hi
  have _ := hN
  unfold stepPRelFence at hs
  step_elim hs
  all_goals (constructor <;> simp only [] <;> closeC hC)

theorem invC_pRelLock {cfg : Cfg} {s s' : State} {h : Nat} (hN : 0 < cfg.N) (hi : Inv cfg s)
    (hs : stepPRelLock s h = some s') : InvC s' := by
  obtain ⟨hH, hP, hC, hS⟩ := hi
  have _ := hN
  unfold stepPRelLock at hs
  step_elim hs
  all_goals (constructor <;> simp only [] <;> closeC hC)

theorem invC_pRelUnlock {cfg : Cfg} {s s' : State} {h : Nat} (hN : 0 < cfg.N) (hi : Inv cfg s)
    (hs : stepPRelUnlock cfg s h = some s') : InvC s' := by
  obtain ⟨hH, hP, hC, hS⟩ := hi
  have _ := hN
  unfold stepPRelUnlock at hs
  step_elim hs
  all_goals (constructor <;> simp only [] <;> closeC hC)

theorem invC_pAcqLock {cfg : Cfg} {s s' : State} {h : Nat} (hN : 0 < cfg.N) (hi : Inv cfg s)
    (hs : stepPAcqLock s h = some s') : InvC s' := by
  obtain ⟨hH, hP, hC, hS⟩ := hi
  have _ := hN
  unfold stepPAcqLock at hs
  step_elim hs
  all_goals (constructor <;> simp only [] <;> closeC hC)

theorem invC_pAcqUnlock {cfg : Cfg} {s s' : State} {h : Nat} (hN : 0 < cfg.N) (hi : Inv cfg s)
    (hs : stepPAcqUnlock s h = some s') : InvC s' := by
  obtain ⟨hH, hP, hC, hS⟩ := hi
  have _ := hN
  unfold stepPAcqUnlock at hs
  step_elim hs
  all_goals (constructor <;> simp only [] <;> closeC hC)

theorem invC_pRearmRem {cfg : Cfg} {s s' : State} {h : Nat} (hN : 0 < cfg.N) (hi : Inv cfg s)
    (hs : stepPRearmRem cfg s h = some s') : InvC s' := by
  obtain ⟨hH, hP, hC, hS⟩ := hi
  have _ := hN
  unfold stepPRearmRem at hs
  step_elim hs
  all_goals (constructor <;> simp only [] <;> closeC hC)

theorem invC_pRearmNode {cfg : Cfg} {s s' : State} {h : Nat} (hN : 0 < cfg.N) (hi : Inv cfg s)
    (hs : stepPRearmNode cfg s h = some s') : InvC s' := by
  obtain ⟨hH, hP, hC, hS⟩ := hi
  have _ := hN
  unfold stepPRearmNode at hs
  step_elim hs
  all_goals (constructor <;> simp only [] <;> closeC hC)

theorem invC_pAlloc {cfg : Cfg} {s s' : State} {h : Nat} (hN : 0 < cfg.N) (hi : Inv cfg s)
    (hs : stepPAlloc cfg s h = some s') : InvC s' := by
  obtain ⟨hH, hP, hC, hS⟩ := hi
  have _ := hN
  unfold stepPAlloc at hs
  step_elim hs
  all_goals (constructor <;> simp only [] <;> closeC hC)

theorem invC_pPrelink {cfg : Cfg} {s s' : State} {h : Nat} (hN : 0 < cfg.N) (hi : Inv cfg s)
    (hs : stepPPrelink s h = some s') : InvC s' := by
  obtain ⟨hH, hP, hC, hS⟩ := hi
  have _ := hN
  unfold stepPPrelink at hs
  step_elim hs
  all_goals (constructor <;> simp only [] <;> closeC hC)

theorem invC_pSwap {cfg : Cfg} {s s' : State} {h : Nat} (hN : 0 < cfg.N) (hi : Inv cfg s)
    (hs : stepPSwap s h = some s') : InvC s' := by
  obtain ⟨hH, hP, hC, hS⟩ := hi
  have _ := hN
  unfold stepPSwap at hs
  step_elim hs
  constructor <;> simp only []
  case seq => rw [List.take_append_of_le_length (by have := hC.k_le; have := hC.len; omega)]; exact hC.seq
  all_goals closeC hC

theorem invC_pLink {cfg : Cfg} {s s' : State} {h : Nat} (hN : 0 < cfg.N) (hi : Inv cfg s)
    (hs : stepPLink s h = some s') : InvC s' := by
  obtain ⟨hH, hP, hC, hS⟩ := hi
  have _ := hN
  unfold stepPLink at hs
  step_elim hs
  all_goals (constructor <;> simp only [] <;> closeC hC)

theorem invC_pClose {cfg : Cfg} {s s' : State} {h : Nat} (hN : 0 < cfg.N) (hi : Inv cfg s)
    (hs : stepPClose s h = some s') : InvC s' := by
  obtain ⟨hH, hP, hC, hS⟩ := hi
  have _ := hN
  unfold stepPClose at hs
  step_elim hs
  all_goals (constructor <;> simp only [] <;> closeC hC)

theorem invC_pDropDec {cfg : Cfg} {s s' : State} {h : Nat} (hN : 0 < cfg.N) (hi : Inv cfg s)
    (hs : stepPDropDec s h = some s') : InvC s' := by
  obtain ⟨hH, hP, hC, hS⟩ := hi
  have _ := hN
  unfold stepPDropDec at hs
  step_elim hs
  all_goals (constructor <;> simp only [] <;> closeC hC)

theorem invC_pClone {cfg : Cfg} {s s' : State} {h h' : Nat} (hN : 0 < cfg.N) (hi : Inv cfg s)
    (hs : stepPClone s h h' = some s') : InvC s' := by
  obtain ⟨hH, hP, hC, hS⟩ := hi
  have _ := hN
  unfold stepPClone at hs
  step_elim hs
  all_goals (constructor <;> simp only [] <;> closeC hC)

theorem invC_cPopLoad {cfg : Cfg} {s s' : State}  (hN : 0 < cfg.N) (hi : Inv cfg s)
    (hs : stepCPopLoad s = some s') : InvC s' := by
  obtain ⟨hH, hP, hC, hS⟩ := hi
  have _ := hN
  unfold stepCPopLoad leaveNode at hs
  step_elim hs
  all_goals first
    | (have hg : s.tailGone = false := by
         cases hgg : s.tailGone
         · rfl
         · have := hH.gone_fin hgg; simp_all
       obtain ⟨hlt, hnx, hpk⟩ := hC.next_tail hg (by assumption)
       have hv := hC.vals (s.k + 1) (by omega) (by omega)
       have hd := hC.nodrop (by assumption)
       have hs := hC.seq
       have hl := hC.len
       constructor <;> simp only []
       case seq =>
         rw [hd] at hs ⊢
         simp at hs ⊢
         rw [hnx, hv, List.take_add_one, ← hs]
         simp [List.getElem?_eq_getElem (show s.k < s.sent.length by omega)]
       all_goals closeC hC)
    | (constructor <;> simp only [] <;> closeC hC)

theorem invC_cRetDec {cfg : Cfg} {s s' : State}  (hN : 0 < cfg.N) (hi : Inv cfg s)
    (hs : stepCRetDec s = some s') : InvC s' := by
  obtain ⟨hH, hP, hC, hS⟩ := hi
  have _ := hN
  unfold stepCRetDec at hs
  step_elim hs
  all_goals (constructor <;> simp only [] <;> closeC hC)

theorem invC_cRelFence {cfg : Cfg} {s s' : State}  (hN : 0 < cfg.N) (hi : Inv cfg s)
    (hs : stepCRelFence s = some s') : InvC s' := by
  obtain ⟨hH, hP, hC, hS⟩ := hi
  have _ := hN
  unfold stepCRelFence at hs
  step_elim hs
  all_goals (constructor <;> simp only [] <;> closeC hC)

theorem invC_cRelLock {cfg : Cfg} {s s' : State}  (hN : 0 < cfg.N) (hi : Inv cfg s)
    (hs : stepCRelLock s = some s') : InvC s' := by
  obtain ⟨hH, hP, hC, hS⟩ := hi
  have _ := hN
  unfold stepCRelLock at hs
  step_elim hs
  all_goals (constructor <;> simp only [] <;> closeC hC)

theorem invC_cRelUnlock {cfg : Cfg} {s s' : State}  (hN : 0 < cfg.N) (hi : Inv cfg s)
    (hs : stepCRelUnlock cfg s = some s') : InvC s' := by
  obtain ⟨hH, hP, hC, hS⟩ := hi
  have _ := hN
  unfold stepCRelUnlock at hs
  step_elim hs
  all_goals (constructor <;> simp only [] <;> closeC hC)

theorem invC_cRet {cfg : Cfg} {s s' : State}  (hN : 0 < cfg.N) (hi : Inv cfg s)
    (hs : stepCRet s = some s') : InvC s' := by
  obtain ⟨hH, hP, hC, hS⟩ := hi
  have _ := hN
  unfold stepCRet at hs
  step_elim hs
  all_goals (constructor <;> simp only [] <;> closeC hC)

theorem invC_cFinStart {cfg : Cfg} {s s' : State}  (hN : 0 < cfg.N) (hi : Inv cfg s)
    (hs : stepCFinStart s = some s') : InvC s' := by
  obtain ⟨hH, hP, hC, hS⟩ := hi
  have _ := hN
  unfold stepCFinStart at hs
  step_elim hs
  all_goals (constructor <;> simp only [] <;> closeC hC)

theorem invC_cFinLoad {cfg : Cfg} {s s' : State}  (hN : 0 < cfg.N) (hi : Inv cfg s)
    (hs : stepCFinLoad s = some s') : InvC s' := by
  obtain ⟨hH, hP, hC, hS⟩ := hi
  have _ := hN
  unfold stepCFinLoad leaveNode at hs
  step_elim hs
  all_goals first
    | (have hg : s.tailGone = false := by
         have := hH.gone_pc; simp_all
       obtain ⟨hlt, hnx, hpk⟩ := hC.next_tail hg (by assumption)
       have hv := hC.vals (s.k + 1) (by omega) (by omega)
       have hs := hC.seq
       have hl := hC.len
       constructor <;> simp only []
       case seq =>
         rw [hnx, hv, List.take_add_one, ← hs]
         simp [List.getElem?_eq_getElem (show s.k < s.sent.length by omega)]
       all_goals closeC hC)
    | (have hf : s.fin = true := by have := hH.fin_pc; simp_all
       have hk := InvC.tail_none_fin hH hC hf (by assumption)
       constructor <;> simp only [] <;> closeC hC)

end Fv.Chan.ChainB
