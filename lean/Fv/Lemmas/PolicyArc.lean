import Fv.Lemmas.PolicySlru
/-!
# Helper lemmas for C14: ARC
-/
namespace Fv.Cache.Policy

theorem AdmitOk.of_access {t t' : List (Nat × Nat)} {k : Nat} (h : AccessOk t t' k)
    (hk : k ∈ keys t') : AdmitOk t t' k [] :=
  ⟨fun p hp => by simpa using h.others p hp, by simpa using hk, by simp⟩

/-- admitting an untracked `k` after one other key `k'` was dropped -/
theorem AdmitOk.of_drop_push {t t2 : List (Nat × Nat)} {k c k' : Nat} (hk : k ∉ keys t)
    (hr : RemoveOk t t2 k') (hk' : k' ∈ keys t) : AdmitOk t ((k, c) :: t2) k [k'] := by
  have hne : k ≠ k' := fun e => hk (e ▸ hk')
  refine ⟨?_, by simp [hne], by simp [hk']⟩
  intro p hp
  have : p ≠ (k, c) := fun e => hp (by simp [e])
  simp [this, hr p]

namespace Arc

/-- T1/T2 viewed as an SLRU pair (same invariant, same tracked list) -/
def toSlru (s : State) : Slru.State := { prob := s.t1, prot := s.t2 }

theorem Inv_iff (s : State) : Inv s ↔ Slru.Inv (toSlru s) := Iff.rfl
theorem tracked_eq (s : State) : tracked s = Slru.tracked (toSlru s) := rfl

theorem Inv_init : Inv init := ⟨LruList.WF_empty, LruList.WF_empty, by simp [init]⟩

theorem nodup_tracked {s : State} (h : Inv s) : (keys (tracked s)).Nodup :=
  Slru.nodup_tracked ((Inv_iff s).1 h)

theorem mem_keys_tracked {s : State} {x : Nat} :
    x ∈ keys (tracked s) ↔ x ∈ keys s.t1.items ∨ x ∈ keys s.t2.items := by
  simp [tracked]

theorem replace_some {s s' : State} {cap : Nat} {b : Bool} {k c : Nat} (h : Inv s)
    (hr : replace s cap b = (s', some (k, c))) :
    Inv s' ∧ (tracked s).Perm ((k, c) :: tracked s') ∧ s'.p = s.p := by
  unfold replace at hr
  dsimp only at hr
  split at hr
  · rcases List.eq_nil_or_concat s.t1.items with hnil | ⟨init, ⟨k0, c0⟩, hc⟩
    · rw [LruList.popBack_nil hnil] at hr; simp at hr
    · rw [List.concat_eq_append] at hc
      rw [LruList.popBack_concat h.1 hc] at hr
      simp only [Prod.mk.injEq, Option.some.injEq] at hr
      obtain ⟨rfl, rfl, rfl⟩ := hr
      refine ⟨⟨LruList.popBack_concat_WF h.1 hc, h.2.1, ?_⟩, ?_, rfl⟩
      · intro x hx; exact h.2.2 x (by rw [hc]; simp [hx])
      · simp only [tracked, hc, List.append_assoc, List.singleton_append]
        exact List.perm_middle
  · rcases List.eq_nil_or_concat s.t2.items with hnil | ⟨init, ⟨k0, c0⟩, hc⟩
    · rw [LruList.popBack_nil hnil] at hr; simp at hr
    · rw [List.concat_eq_append] at hc
      rw [LruList.popBack_concat h.2.1 hc] at hr
      simp only [Prod.mk.injEq, Option.some.injEq] at hr
      obtain ⟨rfl, rfl, rfl⟩ := hr
      refine ⟨⟨h.1, LruList.popBack_concat_WF h.2.1 hc, ?_⟩, ?_, rfl⟩
      · intro x hx hx2; exact h.2.2 x hx (by rw [hc]; simp [hx2])
      · simp only [tracked, hc, ← List.append_assoc]
        exact List.perm_append_comm (l₂ := [(k0, c0)])

/-- `replace` fails only with T2 empty and T1 worth at most the target `p` -/
theorem replace_none {s s' : State} {cap : Nat} {b : Bool} (h : Inv s)
    (hr : replace s cap b = (s', none)) : s' = s ∧ s.t2.items = [] ∧ s.t1.cost ≤ s.p := by
  unfold replace at hr
  dsimp only at hr
  split at hr
  · next hcond =>
    rcases List.eq_nil_or_concat s.t1.items with hnil | ⟨init, ⟨k0, c0⟩, hc⟩
    · have := h.1.2; rw [hnil] at this; simp at this; omega
    · rw [List.concat_eq_append] at hc
      rw [LruList.popBack_concat h.1 hc] at hr; simp at hr
  · next hcond =>
    rcases List.eq_nil_or_concat s.t2.items with hnil | ⟨init, ⟨k0, c0⟩, hc⟩
    · rw [LruList.popBack_nil hnil] at hr
      simp only [Prod.mk.injEq, and_true] at hr
      refine ⟨hr.symm, hnil, ?_⟩
      by_cases h0 : s.t1.cost > 0
      · by_cases hp : s.t1.cost ≥ s.p
        · exact absurd ⟨h0, Or.inl hp⟩ hcond
        · omega
      · omega
    · rw [List.concat_eq_append] at hc
      rw [LruList.popBack_concat h.2.1 hc] at hr; simp at hr

theorem evictLoop_spec : ∀ (fuel : Nat) (s : State) (cap need : Nat) (vs : List Nat) (freed : Nat),
    Inv s → s.t1.items.length + s.t2.items.length < fuel →
    ∃ popped, (evictLoop fuel s cap need vs freed).2.1 = vs ++ keys popped
      ∧ (evictLoop fuel s cap need vs freed).2.2 = freed + costSum popped
      ∧ (tracked s).Perm (tracked (evictLoop fuel s cap need vs freed).1 ++ popped)
      ∧ Inv (evictLoop fuel s cap need vs freed).1
      ∧ (need ≤ freed + costSum popped
          ∨ costSum (tracked (evictLoop fuel s cap need vs freed).1) ≤ s.p) := by
  intro fuel
  induction fuel with
  | zero => intro s _ _ _ _ _ hf; omega
  | succ fuel ih =>
    intro s cap need vs freed h hf
    unfold evictLoop
    dsimp only
    split
    · split
      · next s' k c hr =>
        obtain ⟨hi, hp, hpp⟩ := replace_some h hr
        have hlen : s'.t1.items.length + s'.t2.items.length < fuel := by
          have := hp.length_eq; simp [tracked] at this; omega
        obtain ⟨popped, h1, h2, h3, h4, h5⟩ := ih s' cap need (vs ++ [k]) (freed + c) hi hlen
        refine ⟨(k, c) :: popped, by simp [h1], by simp [h2]; omega, ?_, h4, ?_⟩
        · exact (hp.trans (List.Perm.cons _ h3)).trans List.perm_middle.symm
        · rcases h5 with h5 | h5
          · left; simp; omega
          · right; rw [← hpp]; exact h5
      · next s' hr =>
        obtain ⟨_, ht2, hc⟩ := replace_none h hr
        refine ⟨[], by simp, by simp, by simp, h, Or.inr ?_⟩
        simp only [tracked, ht2, List.append_nil]
        rw [← h.1.2]; exact hc
    · refine ⟨[], by simp, by simp, by simp, h, Or.inl (by simp; omega)⟩

theorem evict_spec {s : State} (h : Inv s) (n cap : Nat) :
    ∃ popped, (evict s n cap).2.1 = keys popped ∧ (evict s n cap).2.2 = costSum popped
      ∧ (tracked s).Perm (tracked (evict s n cap).1 ++ popped) ∧ Inv (evict s n cap).1
      ∧ (n ≤ costSum popped ∨ costSum (tracked (evict s n cap).1) ≤ s.p) := by
  obtain ⟨popped, h1, h2, h3, h4, h5⟩ :=
    evictLoop_spec (s.t1.items.length + s.t2.items.length + 1) s cap n [] 0 h (by omega)
  exact ⟨popped, by simpa [evict] using h1, by simpa [evict] using h2, h3, h4, by simpa [evict] using h5⟩

/-- promotion into / refresh in T2 of a tracked key -/
theorem promote_spec {s : State} (h : Inv s) (k c : Nat) (hk : k ∈ keys (tracked s)) :
    Inv { s with t1 := (s.t1.remove k).1, t2 := s.t2.pushFront k c }
    ∧ AccessOk (tracked s) (tracked { s with t1 := (s.t1.remove k).1, t2 := s.t2.pushFront k c }) k
    ∧ (k, c) ∈ tracked { s with t1 := (s.t1.remove k).1, t2 := s.t2.pushFront k c } :=
  Slru.promote_spec (s := toSlru s) h k c hk

theorem access_spec {s : State} (h : Inv s) (k c : Nat) :
    Inv (access s k c) ∧ AccessOk (tracked s) (tracked (access s k c)) k := by
  unfold access
  cases hc : costOf s.t1.items k with
  | some c0 =>
    have hr : s.t1.remove k = ((s.t1.remove k).1, some c0) := by rw [LruList.remove_eq_some hc]
    rw [hr]
    have hk : k ∈ keys (tracked s) :=
      mem_keys_tracked.2 (Or.inl (costOf_isSome_iff.1 (by rw [hc]; rfl)))
    have := promote_spec h k c hk
    exact ⟨this.1, this.2.1⟩
  | none =>
    have hk1 := costOf_eq_none_iff.1 hc
    rw [LruList.remove_eq_none hk1]
    dsimp only
    split
    · next hk2 =>
      have hk : k ∈ keys (tracked s) := mem_keys_tracked.2 (Or.inr ((LruList.contains_iff _ _).1 hk2))
      have := promote_spec h k c hk
      rw [LruList.remove_eq_none hk1] at this
      exact ⟨this.1, this.2.1⟩
    · exact ⟨h, AccessOk.rfl' k⟩

/-- the ghost-list hit handling of `on_admit` (adapts `p`, never touches T1/T2) -/
def ghostAdjust (s : State) (k cap : Nat) : State × Bool :=
  match s.b1.remove k with
  | (b1', some _) =>
    let b2c := s.b2.cost
    let b1c := b1'.cost
    let delta := max 1 (if b1c > 0 ∧ b2c > b1c then roundDiv b2c b1c else 1)
    ({ s with b1 := b1', p := min (s.p + delta) cap }, false)
  | (_, none) =>
    match s.b2.remove k with
    | (b2', some _) =>
      let b1c := s.b1.cost
      let b2c := b2'.cost
      let delta := max 1 (if b2c > 0 ∧ b1c > b2c then roundDiv b1c b2c else 1)
      ({ s with b2 := b2', p := s.p - delta }, true)
    | (_, none) => (s, false)

theorem ghostAdjust_t (s : State) (k cap : Nat) :
    (ghostAdjust s k cap).1.t1 = s.t1 ∧ (ghostAdjust s k cap).1.t2 = s.t2 := by
  unfold ghostAdjust
  split
  · simp
  · split <;> simp

theorem admit_eq (s : State) (k c cap : Nat) : admit s k c cap =
    match s.t1.remove k with
    | (t1', some _) => ({ s with t1 := t1', t2 := s.t2.pushFront k c }, .admit)
    | (_, none) =>
      if s.t2.contains k then ({ s with t2 := s.t2.pushFront k c }, .admit)
      else
        let s1 := (ghostAdjust s k cap).1
        let b := (ghostAdjust s k cap).2
        let s2 := if s1.t1.cost + s1.t2.cost ≥ cap then (replace s1 cap b).1 else s1
        ({ s2 with t1 := s2.t1.pushFront k c }, .admit) := by
  unfold admit ghostAdjust
  rfl

theorem admit_snd (s : State) (k c cap : Nat) : (admit s k c cap).2 = .admit := by
  rw [admit_eq]; split
  · rfl
  · split <;> rfl

theorem push_new_spec {s : State} (h : Inv s) {k : Nat} (hk : k ∉ keys (tracked s)) (c : Nat) :
    Inv { s with t1 := s.t1.pushFront k c }
    ∧ tracked { s with t1 := s.t1.pushFront k c } = (k, c) :: tracked s :=
  Slru.push_new_spec (s := toSlru s) h hk c

/-- `on_admit`: invariant kept, `k` tracked with cost `c`; the tracked set changes as if a list
`dropped` of at most one key (the `replace` victim the code throws away) had been nominated. -/
theorem admit_spec {s : State} (h : Inv s) (k c cap : Nat) :
    Inv (admit s k c cap).1 ∧ (k, c) ∈ tracked (admit s k c cap).1
    ∧ ∃ dropped : List Nat, dropped.length ≤ 1
        ∧ AdmitOk (tracked s) (tracked (admit s k c cap).1) k dropped
        ∧ ((k ∈ keys (tracked s) ∨ s.t1.cost + s.t2.cost < cap) → dropped = []) := by
  rw [admit_eq]
  cases hc : costOf s.t1.items k with
  | some c0 =>
    have hr : s.t1.remove k = ((s.t1.remove k).1, some c0) := by rw [LruList.remove_eq_some hc]
    rw [hr]
    have hk : k ∈ keys (tracked s) :=
      mem_keys_tracked.2 (Or.inl (costOf_isSome_iff.1 (by rw [hc]; rfl)))
    have := promote_spec h k c hk
    exact ⟨this.1, this.2.2, [], by simp,
      AdmitOk.of_access this.2.1 (mem_keys_of_mem this.2.2), fun _ => rfl⟩
  | none =>
    have hk1 := costOf_eq_none_iff.1 hc
    rw [LruList.remove_eq_none hk1]
    dsimp only
    split
    · next hk2 =>
      have hk : k ∈ keys (tracked s) := mem_keys_tracked.2 (Or.inr ((LruList.contains_iff _ _).1 hk2))
      have := promote_spec h k c hk
      rw [LruList.remove_eq_none hk1] at this
      exact ⟨this.1, this.2.2, [], by simp,
        AdmitOk.of_access this.2.1 (mem_keys_of_mem this.2.2), fun _ => rfl⟩
    · next hk2 =>
      have hk2 : k ∉ keys s.t2.items := fun e => hk2 ((LruList.contains_iff _ _).2 e)
      have hk : k ∉ keys (tracked s) := fun e => (mem_keys_tracked.1 e).elim hk1 hk2
      obtain ⟨hg1, hg2⟩ := ghostAdjust_t s k cap
      generalize (ghostAdjust s k cap).1 = s1 at hg1 hg2
      generalize (ghostAdjust s k cap).2 = b
      have hi1 : Inv s1 := by unfold Inv; rw [hg1, hg2]; exact h
      have ht1 : tracked s1 = tracked s := by unfold tracked; rw [hg1, hg2]
      rw [hg1, hg2]
      split
      · next hcap =>
        cases hrep : replace s1 cap b with
        | mk s2 r =>
          cases r with
          | none =>
            obtain ⟨rfl, _, _⟩ := replace_none hi1 hrep
            have hp := push_new_spec hi1 (ht1 ▸ hk) c
            refine ⟨hp.1, by rw [hp.2]; simp, [], by simp, ?_, fun _ => rfl⟩
            rw [hp.2, ht1]
            have := AdmitOk.of_push (tracked s) k c
            rwa [without_eq_self hk] at this
          | some kc =>
            obtain ⟨k', c'⟩ := kc
            obtain ⟨hi2, hperm, _⟩ := replace_some hi1 hrep
            rw [ht1] at hperm
            have hk' : k' ∈ keys (tracked s) := (keys_perm hperm).mem_iff.2 (by simp)
            have hk2' : k ∉ keys (tracked s2) := fun e =>
              hk ((keys_perm hperm).mem_iff.2 (by simp [e]))
            have hp := push_new_spec hi2 hk2' c
            refine ⟨hp.1, by rw [hp.2]; simp, [k'], by simp, ?_, ?_⟩
            · rw [hp.2]
              exact AdmitOk.of_drop_push hk (RemoveOk.of_perm_cons (nodup_tracked h) hperm) hk'
            · rintro (e | e)
              · exact absurd e hk
              · omega
      · have hp := push_new_spec hi1 (ht1 ▸ hk) c
        refine ⟨hp.1, by rw [hp.2]; simp, [], by simp, ?_, fun _ => rfl⟩
        rw [hp.2, ht1]
        have := AdmitOk.of_push (tracked s) k c
        rwa [without_eq_self hk] at this

theorem remove_spec {s : State} (h : Inv s) (k : Nat) :
    Inv (remove s k) ∧ tracked (remove s k) = LruList.without (tracked s) k := by
  unfold remove
  cases hc : costOf s.t1.items k with
  | some c0 =>
    have hr : s.t1.remove k = ((s.t1.remove k).1, some c0) := by rw [LruList.remove_eq_some hc]
    rw [hr]
    have hk1 : k ∈ keys s.t1.items := costOf_isSome_iff.1 (by rw [hc]; rfl)
    have hk2 : k ∉ keys s.t2.items := h.2.2 k hk1
    refine ⟨⟨LruList.remove_WF h.1 k, h.2.1, ?_⟩, ?_⟩
    · intro x hx; exact h.2.2 x (LruList.mem_keys_remove.1 hx).1
    · simp [tracked, LruList.remove_items, without_append, without_eq_self hk2]
  | none =>
    have hk1 := costOf_eq_none_iff.1 hc
    rw [LruList.remove_eq_none hk1]
    dsimp only
    cases hc2 : costOf s.t2.items k with
    | some c0 =>
      have hr : s.t2.remove k = ((s.t2.remove k).1, some c0) := by rw [LruList.remove_eq_some hc2]
      rw [hr]
      refine ⟨⟨h.1, LruList.remove_WF h.2.1 k, ?_⟩, ?_⟩
      · intro x hx hx2; exact h.2.2 x hx (LruList.mem_keys_remove.1 hx2).1
      · simp [tracked, LruList.remove_items, without_append, without_eq_self hk1]
    | none =>
      have hk2 := costOf_eq_none_iff.1 hc2
      rw [LruList.remove_eq_none hk2]
      dsimp only
      have : LruList.without (tracked s) k = tracked s := by
        simp [tracked, without_append, without_eq_self hk1, without_eq_self hk2]
      rw [this]
      split
      · exact ⟨h, rfl⟩
      · exact ⟨h, rfl⟩

end Arc
end Fv.Cache.Policy
