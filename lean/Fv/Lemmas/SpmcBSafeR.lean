import Fv.Lemmas.SpmcBSafeG2
/-! Safety invariant of `Fv.Chan.SpmcB`: preservation by the steps of the receiver operations. -/
namespace Fv.Chan.SpmcB
open Fv.Chan.LeftRightB (upd upd_apply upd_same)

/-- receiver step that leaves the core alone -/
theorem safe_R_same {s s' : State} {t r : Nat} {q : RPC} {p : PC} (ha : InvA s) (hs : Safe s) (hpc : s.pc t = .rcv r q)
    (hpc' : s'.pc = upd s.pc t p) (hso : s'.sOwner = s.sOwner)
    (hro : s'.rOwner = if isRet p then upd s.rOwner r none else s.rOwner) (hrv : s'.resv = s.resv)
    (hcore : s'.core = s.core) (hp : okR r p)
    (hnew : ∀ q', p = .rcv r q' → rFact s.core t r q') : Safe s' := by
  refine safe_R ha hs hpc hpc' hso hro hp (hcore ▸ hs.g) ?_ ?_ ?_ ?_ ?_
  · intro q' e; rw [hcore]; exact hnew q' e
  · intro q' h; rw [hcore]; exact h
  · intro u r' q' _ _ h; rw [hcore]; exact h
  · intro h
    have : s'.core.head = s'.core.sent.length ∧ s'.core.dirty = false := by rw [hcore]; exact h
    exact this
  · intro n hn; rw [hrv] at hn; exact Or.inl hn

/-- targets that only need the handle to be open -/
def PlainRB (r : Nat) (p : PC) : Prop := ∀ c t q', p = .rcv r q' → rBase c r → rFact c t r q'
/-- targets that need nothing about the handle -/
def PlainR0 (r : Nat) (p : PC) : Prop := ∀ c t q', p = .rcv r q' → (r < c.nextCell ∧ c.resv r = none) → rFact c t r q'

theorem plainRB_of_R0 {r : Nat} {p : PC} (h : PlainR0 r p) : PlainRB r p :=
  fun c t q' e hb => h c t q' e ⟨hb.1, hb.2.1⟩

theorem plainR0_ret (r : Nat) (res : Res) : PlainR0 r (.ret res) := by intro c t q' e; cases e

syntax "plainr" : tactic
macro_rules | `(tactic| plainr) => `(tactic|
  (intro c t q' e hb; cases e; simp only [rFact]; exact hb))

theorem plainRB_onEmpty (r x) : PlainRB r (onEmpty r x) := by
  unfold onEmpty; repeat' split
  all_goals first | exact plainRB_of_R0 (plainR0_ret _ _) | plainr
theorem plainR0_wkDone (r k) : PlainR0 r (wkDone k) := by unfold wkDone; split <;> apply plainR0_ret
theorem plainRB_afterRPark (r x) : PlainRB r (afterRPark r x) := by unfold afterRPark; split <;> plainr

/-- receiver step to a target that needs only `rBase` -/
theorem safe_R_B {s s' : State} {t r : Nat} {q : RPC} {p : PC} (ha : InvA s) (hs : Safe s) (hpc : s.pc t = .rcv r q)
    (hpc' : s'.pc = upd s.pc t p) (hso : s'.sOwner = s.sOwner)
    (hro : s'.rOwner = if isRet p then upd s.rOwner r none else s.rOwner) (hrv : s'.resv = s.resv)
    (hcore : s'.core = s.core) (hp : okR r p) (hpl : PlainRB r p) (hb : rBase s.core r) : Safe s' :=
  safe_R_same ha hs hpc hpc' hso hro hrv hcore hp (fun q' e => hpl _ _ q' e hb)

theorem safe_R_0 {s s' : State} {t r : Nat} {q : RPC} {p : PC} (ha : InvA s) (hs : Safe s) (hpc : s.pc t = .rcv r q)
    (hpc' : s'.pc = upd s.pc t p) (hso : s'.sOwner = s.sOwner)
    (hro : s'.rOwner = if isRet p then upd s.rOwner r none else s.rOwner) (hrv : s'.resv = s.resv)
    (hcore : s'.core = s.core) (hp : okR r p) (hpl : PlainR0 r p) : Safe s' :=
  safe_R_same ha hs hpc hpc' hso hro hrv hcore hp (fun q' e => hpl _ _ q' e (rFact_base (hs.rf t r q hpc)))

syntax "plainRB_tac" : tactic
macro_rules | `(tactic| plainRB_tac) => `(tactic|
  first | apply plainRB_onEmpty | apply plainRB_afterRPark | exact plainRB_of_R0 (plainR0_ret _ _)
        | exact plainRB_of_R0 (plainR0_wkDone _ _) | plainr)
syntax "plainR0_tac" : tactic
macro_rules | `(tactic| plainR0_tac) => `(tactic|
  first | apply plainR0_ret | apply plainR0_wkDone | plainr)

/-- an open, existing, non-reserved receiver is in the published list -/
theorem mem_pub_of_base {s : State} (hl : LRI s) (hs : Safe s) {r : Nat} (hb : rBase s.core r) : r ∈ s.core.pub := by
  have hreg := hs.g.regd r hb.1 hb.2.2 hb.2.1
  have h2 : s.lr.live < 2 := hl.live2
  simp only [Core.pub]
  have : s.core.live = 0 ∨ s.core.live = 1 := by show s.lr.live = 0 ∨ s.lr.live = 1; omega
  rcases this with e | e <;> rw [e]
  · exact hreg.1
  · exact hreg.2

/-- **what a registered receiver reads at its cursor is the value sent at that index** -/
theorem read_ok {s : State} (hl : LRI s) (hs : Safe s) {r : Nat} (hb : rBase s.core r) {i : Nat}
    (hi : s.core.cur r ≤ i) (hlt : i < s.core.sent.length) :
    s.core.val (i % s.core.cap) = s.core.sent.getD i 0 := by
  have hmem := mem_pub_of_base hl hs hb
  have h1 := hs.g.lim_pub r hmem
  have h2 := hs.g.n_le_lim
  refine hs.g.b2v i hlt (by omega) ?_
  intro e
  cases hd : s.core.dirty
  · rfl
  · have := hs.g.dirty_lim hd; omega

theorem take_one_drop {l : List Nat} {k : Nat} (h : k < l.length) : (l.drop k).take 1 = [l.getD k 0] := by
  rw [List.getD_eq_getElem?_getD, List.getElem?_eq_getElem h]
  simp only [Option.getD_some]
  rw [List.drop_eq_getElem_cons h]; simp [List.take]

theorem map_range_eq_take_drop {l : List Nat} {f : Nat → Nat} {k n : Nat} (hle : k + n ≤ l.length)
    (hf : ∀ i, i < n → f i = l.getD (k + i) 0) : (List.range n).map f = (l.drop k).take n := by
  apply List.ext_getElem
  · simp; omega
  · intro i h1 h2
    simp only [List.length_map, List.length_range] at h1
    simp only [List.getElem_map, List.getElem_range, List.getElem_take, List.getElem_drop]
    rw [hf i h1, List.getD_eq_getElem?_getD, List.getElem?_eq_getElem (by omega)]
    simp


syntax "rB " ident ident ident term : tactic
macro_rules | `(tactic| rB $ha $hs $hpc $hb) => `(tactic|
  exact safe_R_B $ha $hs $hpc rfl rfl rfl rfl rfl (by okR_tac) (by plainRB_tac) $hb)
syntax "r0 " ident ident ident : tactic
macro_rules | `(tactic| r0 $ha $hs $hpc) => `(tactic|
  exact safe_R_0 $ha $hs $hpc rfl rfl rfl rfl rfl (by okR_tac) (by plainR0_tac))

/-- sender facts across a receiver step, in terms of the states -/
theorem sFact_R_of {s s' : State} (hcap : s'.cap = s.cap) (hhead : s'.head = s.head) (hsent : s'.sent = s.sent)
    (hdirty : s'.dirty = s.dirty) (hlim : s'.lim = s.lim) (hseq : s'.seq = s.seq) (hval : s'.val = s.val)
    (hscl : s'.sclosed = s.sclosed) (hn : s.nextCell ≤ s'.nextCell) (hcur : ∀ x, x < s.nextCell → s.cur x ≤ s'.cur x) :
    ∀ q, sFact s.core q → sFact s'.core q :=
  fun _ h => sFact_mono_R (c := s.core) (c' := s'.core) hcap hhead hsent hdirty hlim hseq hval hscl hn hcur h

/-- other receivers' facts across a receiver step on cell `r` (exempt cells given by `ex`) -/
theorem rFact_R_of {s s' : State} (ex : Nat → Prop) (hg : GFact s.core) (hn : s.nextCell ≤ s'.nextCell)
    (hmaps : ∀ x, ¬ ex x → x < s.nextCell → AgreeAt s.core s'.core x)
    (hsent : s'.sent = s.sent) (hhead : s'.head = s.head)
    (hdata : ∀ i x, ¬ ex x → x ∈ s.lr.data i → x ∈ s'.lr.data i)
    {u r' : Nat} {q : RPC} (hr : ¬ ex r') (hcl : ∀ n, s.resv n = some u → ¬ ex n)
    (h : rFact s.core u r' q) (hpd : s'.pdropped = s.pdropped := by rfl) : rFact s'.core u r' q :=
  rFact_ext (c := s.core) (c' := s'.core) ex hg hn hmaps hsent hhead hpd hdata hr hcl h

theorem safe_actR1 {s s' : State} {t r : Nat} {p : RPC} (ha : InvA s) (hl : LRI s) (hs : Safe s)
    (hpc : s.pc t = .rcv r p) (h : actR s t r p = some s')
    (hnot : ∀ k q, p ≠ .mMod k q) : Safe s' := by
  have hf := hs.rf t r p hpc
  have hcap := hs.g.cap_pos
  cases p <;> simp only [actR] at h
  case rFlag x =>
    cases h; unfold stepRFlag
    split
    · r0 ha hs hpc
    · rename_i hc
      simp only [rFact] at hf
      have hc' : s.core.rclosed r = false := by show s.rclosed r = false; simpa using hc
      rB ha hs hpc ⟨hf.1, hf.2, hc'⟩
  case rCur x =>
    cases h; simp only [rFact] at hf; unfold stepRCur
    split <;> exact safe_R_same ha hs hpc rfl rfl rfl rfl rfl (by okR_tac) (fun q' e => by cases e; exact ⟨hf, rfl⟩)
  case rSeq x c =>
    cases h; simp only [rFact] at hf; unfold stepRSeq
    split
    · rename_i hseq
      have hlt : c < s.core.sent.length := (hs.g.b2r (c % s.core.cap) c (Nat.mod_lt _ hcap) hseq).1
      exact safe_R_same ha hs hpc rfl rfl rfl rfl rfl (by okR_tac) (fun q' e => by cases e; exact ⟨hf.1, hf.2, hlt⟩)
    · exact safe_R_same ha hs hpc rfl rfl rfl rfl rfl (by okR_tac) (fun q' e => by cases e; exact hf)
  case rVal x c =>
    cases h; simp only [rFact] at hf
    obtain ⟨hb, hc, hlt⟩ := hf
    have h1 : c + [s.val (c % s.cap)].length ≤ s.core.sent.length := by simp only [List.length_singleton]; omega
    have h2 : [s.val (c % s.cap)] = (s.core.sent.drop c).take [s.val (c % s.cap)].length := by
      have := read_ok hl hs hb (i := c) (by omega) hlt
      simp only [List.length_singleton]
      rw [take_one_drop hlt]; exact congrArg (fun v => [v]) this
    exact safe_R_same ha hs hpc rfl rfl rfl rfl rfl (by okR_tac) (fun q' e => by cases e; exact ⟨hb, hc, h1, h2⟩)
  case rSt x c vs =>
    cases h; simp only [rFact] at hf
    obtain ⟨hb, hc, hle, hvs⟩ := hf
    have hg' := gfact_rSt hs.g hc hle hvs
    refine safe_R ha hs hpc rfl rfl rfl (by okR_tac) hg' ?_ ?_ ?_ (fun h => h) (fun n hn => Or.inl hn)
    · intro q' e; cases e
      show rFact { s.core with cur := upd s.core.cur r (c + vs.length), got := upd s.core.got r (s.core.got r ++ vs) } t r _
      simp only [rFact]; exact ⟨hb.1, hb.2.1⟩
    · refine sFact_R_of rfl rfl rfl rfl rfl rfl rfl rfl (Nat.le_refl _) ?_
      intro y _; show s.cur y ≤ upd s.cur r (c + vs.length) y
      simp only [upd_apply]; split
      · rename_i e; subst e; have : c = s.cur y := hc; omega
      · exact Nat.le_refl _
    · intro u r' q' hut hne hq
      refine rFact_R_of (s' := stepRSt s t r c vs) (fun y => y = r) hs.g (Nat.le_refl _) ?_ rfl rfl (fun _ _ _ h => h) hne ?_ hq
      · intro y hy _
        refine ⟨?_, rfl, ?_, rfl, rfl⟩
        · show upd s.cur r (c + vs.length) y = s.cur y; simp only [upd_apply, if_neg hy]
        · show upd s.got r (s.got r ++ vs) y = s.got y; simp only [upd_apply, if_neg hy]
      · intro n hn e; subst e; have : s.core.resv n = none := hb.2.1; rw [show s.core.resv n = s.resv n from rfl, hn] at this; cases this
  case rDrop x c =>
    cases h; simp only [rFact] at hf; unfold stepRDrop
    split
    · rename_i hp
      exact safe_R_same ha hs hpc rfl rfl rfl rfl rfl (by okR_tac) (fun q' e => by cases e; exact ⟨hf.1, hf.2, hp⟩)
    · rB ha hs hpc hf.1
  case rHead x c =>
    cases h; simp only [rFact] at hf; unfold stepRHead
    split
    · r0 ha hs hpc
    · rB ha hs hpc hf.1
  case bHd x c =>
    cases h; simp only [rFact] at hf; unfold stepBHd
    split
    · exact safe_R_same ha hs hpc rfl rfl rfl rfl rfl (by okR_tac) (fun q' e => by cases e; exact hf)
    · have h1 : c + min (s.head - c) (x.max.getD 1) ≤ s.core.head := by show _ ≤ s.head; omega
      exact safe_R_same ha hs hpc rfl rfl rfl rfl rfl (by okR_tac) (fun q' e => by cases e; exact ⟨hf.1, hf.2, h1⟩)
  case bDrop x c =>
    cases h; simp only [rFact] at hf; unfold stepBDrop
    split
    · rename_i hp
      exact safe_R_same ha hs hpc rfl rfl rfl rfl rfl (by okR_tac) (fun q' e => by cases e; exact ⟨hf.1, hf.2, hp⟩)
    · rB ha hs hpc hf.1
  case bHd2 x c =>
    cases h; simp only [rFact] at hf; unfold stepBHd2
    split
    · r0 ha hs hpc
    · have h1 : c + min (s.head - c) (x.max.getD 1) ≤ s.core.head := by show _ ≤ s.head; omega
      exact safe_R_same ha hs hpc rfl rfl rfl rfl rfl (by okR_tac) (fun q' e => by cases e; exact ⟨hf.1, hf.2.1, h1⟩)
  case bVals x c k =>
    cases h; simp only [rFact] at hf
    obtain ⟨hb, hc, hle⟩ := hf
    have hhd := hs.g.head_le
    have h1 : c + ((List.range k).map (fun i => s.val ((c + i) % s.cap))).length ≤ s.core.sent.length := by
      simp only [List.length_map, List.length_range]; omega
    have h2 : (List.range k).map (fun i => s.val ((c + i) % s.cap))
        = (s.core.sent.drop c).take ((List.range k).map (fun i => s.val ((c + i) % s.cap))).length := by
      simp only [List.length_map, List.length_range]
      refine map_range_eq_take_drop (by omega) ?_
      intro i hi
      exact read_ok hl hs hb (i := c + i) (by omega) (by omega)
    exact safe_R_same ha hs hpc rfl rfl rfl rfl rfl (by okR_tac) (fun q' e => by cases e; exact ⟨hb, hc, h1, h2⟩)
  case gCur x =>
    cases h; simp only [rFact] at hf
    exact safe_R_same ha hs hpc rfl rfl rfl rfl rfl (by okR_tac) (fun q' e => by cases e; exact ⟨hf, rfl⟩)
  case gLock x c =>
    unfold stepGLock at h; split at h
    · cases h; simp only [rFact] at hf
      exact safe_R_same ha hs hpc rfl rfl rfl rfl rfl (by okR_tac) (fun q' e => by cases e; exact hf)
    · cases h
  case gUnlock x c => cases h; simp only [rFact] at hf; rB ha hs hpc hf.1
  case eDrop x =>
    cases h; simp only [rFact] at hf; unfold stepEDrop
    split
    · rename_i hp
      exact safe_R_same ha hs hpc rfl rfl rfl rfl rfl (by okR_tac) (fun q' e => by cases e; exact ⟨hf, hp⟩)
    · rB ha hs hpc hf
  case eHead x =>
    cases h; simp only [rFact] at hf
    exact safe_R_same ha hs hpc rfl rfl rfl rfl rfl (by okR_tac) (fun q' e => by cases e; exact ⟨hf.1, hf.2, rfl⟩)
  case eCur x h0 =>
    cases h; simp only [rFact] at hf; unfold stepECur
    repeat' split
    · rename_i hge _ _
      have h1 : s.core.head ≤ s.cur r := by rw [← hf.2.2]; exact hge
      exact safe_R_same ha hs hpc rfl rfl rfl rfl rfl (by okR_tac) (fun q' e => by cases e; exact ⟨hf.1, rfl, hf.2.1, h1⟩)
    · r0 ha hs hpc
    · rB ha hs hpc hf.1
  case eLock x c =>
    unfold stepELock at h; split at h
    · cases h; simp only [rFact] at hf
      exact safe_R_same ha hs hpc rfl rfl rfl rfl rfl (by okR_tac) (fun q' e => by cases e; exact hf)
    · cases h
  case eUnlock x c => cases h; r0 ha hs hpc
  case kPark x =>
    unfold stepKPark at h; split at h
    · cases h; simp only [rFact] at hf; rB ha hs hpc hf
    · cases h
  case kCur x => cases h; simp only [rFact] at hf; rB ha hs hpc hf
  case wpFence k => cases h; r0 ha hs hpc
  case wpLoad k => cases h; unfold stepWpLoad; split <;> r0 ha hs hpc
  case wpCas k => cases h; unfold stepWpCas; split <;> r0 ha hs hpc
  case wpIdle k th => cases h; unfold stepWpIdle; split <;> r0 ha hs hpc
  case wpUnpark k th => cases h; r0 ha hs hpc
  case cCur =>
    cases h; simp only [rFact] at hf
    obtain ⟨hb1, hb2, hb3⟩ := hf
    have hb1' : r < s.nextCell := hb1
    have hg' := gfact_cCur hs.g (t := t) (r := r)
    refine safe_R ha hs hpc rfl rfl rfl (by okR_tac) hg' ?_ ?_ ?_ (fun h => h) ?_
    · intro q' e; cases e
      show rFact { s.core with nextCell := s.core.nextCell + 1, cur := upd s.core.cur s.core.nextCell (s.core.cur r), c0 := upd s.core.c0 s.core.nextCell (s.core.cur r), rclosed := upd s.core.rclosed s.core.nextCell false, got := upd s.core.got s.core.nextCell [], resv := upd s.core.resv s.core.nextCell (some t) } t r _
      have hne : r ≠ s.nextCell := by omega
      simp only [rFact, rBase, cloneFact, upd_apply, show s.core.nextCell = s.nextCell from rfl, if_neg hne, if_true]
      exact ⟨⟨by omega, hb2, hb3⟩, Ne.symm hne, trivial, trivial, trivial, trivial, trivial⟩
    · refine sFact_R_of rfl rfl rfl rfl rfl rfl rfl rfl (Nat.le_succ _) ?_
      intro y hy; show s.cur y ≤ upd s.cur s.nextCell (s.cur r) y
      simp only [upd_apply, if_neg (show y ≠ s.nextCell by omega)]; exact Nat.le_refl _
    · intro u r' q' hut hne hq
      refine rFact_R_of (s' := stepCCur s t r) (fun y => y = r) hs.g (Nat.le_succ _) ?_ rfl rfl (fun _ _ _ h => h) hne ?_ hq
      · intro y _ hy
        have hyn : y ≠ s.nextCell := by omega
        refine ⟨?_, ?_, ?_, ?_, ?_⟩
        · show upd s.cur s.nextCell (s.cur r) y = s.cur y; simp only [upd_apply, if_neg hyn]
        · show upd s.c0 s.nextCell (s.cur r) y = s.c0 y; simp only [upd_apply, if_neg hyn]
        · show upd s.got s.nextCell [] y = s.got y; simp only [upd_apply, if_neg hyn]
        · show upd s.rclosed s.nextCell false y = s.rclosed y; simp only [upd_apply, if_neg hyn]
        · show upd s.resv s.nextCell (some t) y = s.resv y; simp only [upd_apply, if_neg hyn]
      · intro n hn e; subst e; rw [show s.core.resv n = s.resv n from rfl, hn] at hb2; cases hb2
    · intro n hn
      by_cases e : n = s.nextCell
      · subst e
        right
        cases ho : s.rOwner s.nextCell with
        | none => rfl
        | some u =>
          have hu := (ha.rown u s.nextCell).1 ho
          cases hq : s.pc u with
          | rcv r2 q2 =>
            rw [hq] at hu; simp only [rOf, Option.some.injEq] at hu; subst hu
            have := (rFact_base (hs.rf u _ q2 hq)).1
            exact absurd this (Nat.lt_irrefl _)
          | idle => rw [hq] at hu; cases hu
          | ret res => rw [hq] at hu; cases hu
          | snd q2 => rw [hq] at hu; cases hu
      · left
        have : (stepCCur s t r).resv n = s.resv n := by
          show upd s.resv s.nextCell (some t) n = s.resv n; simp only [upd_apply, if_neg e]
        rw [this] at hn; exact hn
  case mLock k =>
    unfold stepMLock at h; split at h
    · cases h
      cases k with
      | clone n =>
        simp only [rFact] at hf
        exact safe_R_same ha hs hpc rfl rfl rfl rfl rfl (by okR_tac)
          (fun q' e => by cases e; exact ⟨hf.1, hf.2, fun o ho => by cases ho; rfl, trivial, rfl⟩)
      | unreg =>
        simp only [rFact] at hf
        exact safe_R_same ha hs hpc rfl rfl rfl rfl rfl (by okR_tac)
          (fun q' e => by cases e; exact ⟨hf.1, hf.2.1, hf.2.2, fun o ho => by cases ho; rfl, rfl⟩)
    · cases h
  case mMod k p => exact absurd rfl (hnot k p)
  case mUnlock k =>
    cases h
    cases k with
    | clone n =>
      simp only [rFact, rBase, cloneFact] at hf
      obtain ⟨⟨hb1, hb2, hb3⟩, ⟨c1, c2, c3, c4, c5, c6⟩, hm0, hm1⟩ := hf
      have hg' := gfact_born hs.g c2 ⟨hm0, hm1⟩
      refine safe_R ha hs hpc rfl rfl rfl (by okR_tac) hg' (fun q' e => by cases e) ?_ ?_ (fun h => h) ?_
      · exact sFact_R_of rfl rfl rfl rfl rfl rfl rfl rfl (Nat.le_refl _) (fun _ _ => Nat.le_refl _)
      · intro u r' q' hut hne hq
        refine rFact_R_of (s' := stepMUnlock s t r (.clone n)) (fun y => y = r ∨ y = n) hs.g (Nat.le_refl _) ?_ rfl rfl
          (fun _ _ _ h => h) ?_ ?_ hq
        · intro y hy _
          have hyn : y ≠ n := fun e => hy (Or.inr e)
          refine ⟨rfl, rfl, rfl, rfl, ?_⟩
          show upd s.resv n none y = s.resv y; simp only [upd_apply, if_neg hyn]
        · intro e
          rcases e with e | e
          · exact hne e
          · subst e
            have := (rFact_base hq).2
            rw [c2] at this; cases this
        · intro n' hn' e
          rcases e with e | e
          · subst e; rw [show s.core.resv n' = s.resv n' from rfl, hn'] at hb2; cases hb2
          · subst e; rw [show s.core.resv n' = s.resv n' from rfl, hn'] at c2; exact hut (Option.some.inj c2)
      · intro n' hn'
        left
        by_cases e : n' = n
        · subst e
          have : (stepMUnlock s t r (.clone n')).resv n' = none := by
            show upd s.resv n' none n' = none; simp
          exact absurd this hn'
        · have : (stepMUnlock s t r (.clone n)).resv n' = s.resv n' := by
            show upd s.resv n none n' = s.resv n'; simp only [upd_apply, if_neg e]
          rw [this] at hn'; exact hn'
    | unreg => r0 ha hs hpc
  case xFlag d =>
    cases h; unfold stepXFlag
    simp only [rFact] at hf
    split
    · r0 ha hs hpc
    · have hg' := gfact_close (r := r) hs.g
      refine safe_R ha hs hpc rfl rfl rfl (by okR_tac) hg' ?_ ?_ ?_ (fun h => h) (fun n hn => Or.inl hn)
      · intro q' e; cases e
        show rFact { s.core with rclosed := upd s.core.rclosed r true } t r _
        simp only [rFact, upd_same]; exact ⟨hf.1, hf.2, trivial⟩
      · exact sFact_R_of rfl rfl rfl rfl rfl rfl rfl rfl (Nat.le_refl _) (fun _ _ => Nat.le_refl _)
      · intro u r' q' hut hne hq
        refine rFact_R_of (s' := { s.goR t r (.rcv r (.mLock .unreg)) with rclosed := upd s.rclosed r true })
          (fun y => y = r) hs.g (Nat.le_refl _) ?_ rfl rfl (fun _ _ _ h => h) hne ?_ hq
        · intro y hy _
          refine ⟨rfl, rfl, rfl, ?_, rfl⟩
          show upd s.rclosed r true y = s.rclosed y; simp only [upd_apply, if_neg hy]
        · intro n hn e; subst e; rw [show s.core.resv n = s.resv n from rfl, hn] at hf; cases hf.2
  case qDrop => cases h; unfold stepQDrop; split <;> r0 ha hs hpc
  case qHead p => cases h; r0 ha hs hpc
  case qCur p h0 => cases h; r0 ha hs hpc


/-- what the mutation of the in-progress `modify` is, for `gfact_mut` -/
theorem mod_op_ok {c : Core} {t r : Nat} {k : MK} {p : LPC} {o : LOp} (hf : rFact c t r (.mMod k p))
    (ho : opOf p = some o) :
    (∃ n u, o = .push n ∧ c.resv n = some u) ∨ (o = .remove r ∧ c.rclosed r = true) := by
  cases k with
  | clone n =>
    simp only [rFact, cloneFact] at hf
    exact Or.inl ⟨n, t, hf.2.2.1 o ho, hf.2.1.2.1⟩
  | unreg =>
    simp only [rFact] at hf
    exact Or.inr ⟨hf.2.2.2.1 o ho, hf.2.2.1⟩

/-- other threads' facts across a mutation of one copy of the list by the thread working on cell `r` -/
theorem data_mono_mut {data : Nat → List Nat} {i r : Nat} {o : LOp}
    (ho : (∃ n, o = .push n) ∨ o = .remove r) :
    ∀ j x, ¬ (x = r) → x ∈ data j → x ∈ upd data i (apL o (data i)) j := by
  intro j x hx hm
  simp only [upd_apply]
  split
  · rename_i e; subst e
    rcases ho with ⟨n, rfl⟩ | rfl
    · simp only [apL, List.mem_append]; exact Or.inl hm
    · simp only [apL, List.mem_filter]; exact ⟨hm, by simpa using hx⟩
  · exact hm

theorem safe_mMod {s s' : State} {t r : Nat} {k : MK} {p : LPC} (ha : InvA s) (hl : LRI s) (hs : Safe s)
    (hpc : s.pc t = .rcv r (.mMod k p)) (h : stepMMod s t r k p = some s') : Safe s' := by
  have hf := hs.rf t r _ hpc
  have hst := hl.stage t
  simp only [hpc, lrpc, lrpcR] at hst
  have hl2 : s.lr.live < 2 := hl.live2
  have hbase := rFact_base hf
  have hwr : isWr p = true := by cases k <;> simp only [rFact] at hf <;> first | exact hf.2.2.2.2 | exact hf.2.2.2.2
  -- the generic "nothing in the core changes" step
  have same : ∀ (p' : LPC) (s1 : State), s1.pc = upd s.pc t (.rcv r (.mMod k p')) → s1.sOwner = s.sOwner →
      s1.rOwner = s.rOwner → s1.resv = s.resv → s1.core = s.core →
      rFact s.core t r (.mMod k p') → Safe s1 := by
    intro p' s1 e1 e2 e3 e4 e5 hf'
    exact safe_R_same ha hs hpc e1 e2 (by rw [e3]; rfl) e4 e5 (by okR_tac) (fun q' e => by cases e; exact hf')
  unfold stepMMod at h
  cases p <;> simp only [isWr] at hwr <;> (first | cases hwr | skip) <;> simp only [lrLabel, LeftRightB.step] at h
  case wLock o =>
    by_cases hw : s.lr.wlock = none
    · simp only [hw, if_true] at h
      cases h
      refine same (.wLoad o) _ rfl rfl rfl rfl rfl ?_
      cases k <;> simp only [rFact, opOf, pushedAt, isWr] at hf ⊢ <;> exact hf
    · simp only [hw, if_false] at h
      cases h
  case wLoad o =>
    cases h
    refine same (.wMut1 o s.lr.live) _ rfl rfl rfl rfl rfl ?_
    cases k <;> simp only [rFact, opOf, pushedAt, isWr] at hf ⊢ <;> exact hf
  case wMut1 o l =>
    cases h
    simp only [LeftRightB.stageOK] at hst
    obtain ⟨hlv, _⟩ := hst
    have hne : 1 - l ≠ s.core.live := by show 1 - l ≠ s.lr.live; omega
    have hg' := gfact_mut (i := 1 - l) (r := r) (o := o) hs.g hne (mod_op_ok hf rfl)
    have hopr : (∃ n, o = .push n) ∨ o = .remove r := by
      rcases mod_op_ok hf (o := o) rfl with ⟨n, _, e, _⟩ | ⟨e, _⟩
      · exact Or.inl ⟨n, e⟩
      · exact Or.inr e
    refine safe_R ha hs hpc rfl rfl rfl (by okR_tac) hg' ?_ ?_ ?_ (fun h => h) (fun n hn => Or.inl hn)
    · intro q' e; cases e
      show rFact { s.core with data := upd s.core.data (1 - l) (apL o (s.core.data (1 - l))) } t r _
      cases k with
      | clone n =>
        simp only [rFact, opOf, pushedAt, isWr] at hf ⊢
        have := hf.2.2.1 o rfl; subst this
        refine ⟨hf.1, hf.2.1, hf.2.2.1, ?_, trivial⟩
        simp only [upd_same, apL, List.mem_append, List.mem_singleton, or_true]
      | unreg => simp only [rFact, opOf, isWr] at hf ⊢; exact hf
    · exact sFact_R_of rfl rfl rfl rfl rfl rfl rfl rfl (Nat.le_refl _) (fun _ _ => Nat.le_refl _)
    · intro u r' q' hut hne' hq
      refine rFact_R_of (s' := { s.goR t r (.rcv r (.mMod k (.wPub o l))) with lr := { s.lr with data := upd s.lr.data (1 - l) (apL o (s.lr.data (1 - l))) } })
        (fun y => y = r) hs.g (Nat.le_refl _) (fun _ _ _ => ⟨rfl, rfl, rfl, rfl, rfl⟩) rfl rfl ?_ hne' ?_ hq
      · exact data_mono_mut hopr
      · intro n hn e; subst e; rw [show s.core.resv n = s.resv n from rfl, hn] at hbase; cases hbase.2
  case wPub o l =>
    cases h
    simp only [LeftRightB.stageOK] at hst
    obtain ⟨hlv, hd⟩ := hst
    have hg' := gfact_pub (l := l) (r := r) (o := o) hs.g hlv (by omega) hd (by
      cases k with
      | clone n =>
        simp only [rFact, rBase, cloneFact, opOf] at hf
        exact Or.inl ⟨n, hf.2.2.1 o rfl, hf.2.1.2.2.1, hf.1.1, hf.1.2.2, hf.1.2.1⟩
      | unreg => simp only [rFact, opOf] at hf; exact Or.inr (hf.2.2.2.1 o rfl))
    refine safe_R ha hs hpc rfl rfl rfl (by okR_tac) hg' ?_ ?_ ?_ (fun h => h) (fun n hn => Or.inl hn)
    · intro q' e; cases e
      show rFact { s.core with live := 1 - l } t r _
      cases k <;> simp only [rFact, opOf, pushedAt, isWr] at hf ⊢ <;> exact hf
    · exact sFact_R_of rfl rfl rfl rfl rfl rfl rfl rfl (Nat.le_refl _) (fun _ _ => Nat.le_refl _)
    · intro u r' q' hut hne' hq
      refine rFact_R_of (s' := { s.goR t r (.rcv r (.mMod k (.wWait o l))) with lr := { s.lr with live := 1 - l } })
        (fun y => y = r) hs.g (Nat.le_refl _) (fun _ _ _ => ⟨rfl, rfl, rfl, rfl, rfl⟩) rfl rfl (fun _ _ _ h => h) hne' ?_ hq
      intro n hn e; subst e; rw [show s.core.resv n = s.resv n from rfl, hn] at hbase; cases hbase.2
  case wWait o l =>
    by_cases hz : s.lr.readers l = 0
    · simp only [hz, if_true] at h
      cases h
      refine same (.wMut2 o l) _ rfl rfl rfl rfl rfl ?_
      cases k <;> simp only [rFact, opOf, pushedAt, isWr] at hf ⊢ <;> exact hf
    · simp only [hz, if_false] at h
      cases h
      refine same (.wSpin o l) _ rfl rfl rfl rfl rfl ?_
      cases k <;> simp only [rFact, opOf, pushedAt, isWr] at hf ⊢ <;> exact hf
  case wSpin o l =>
    cases h
    refine same (.wWait o l) _ rfl rfl rfl rfl rfl ?_
    cases k <;> simp only [rFact, opOf, pushedAt, isWr] at hf ⊢ <;> exact hf
  case wMut2 o l =>
    cases h
    simp only [LeftRightB.stageOK] at hst
    obtain ⟨hlv, hl2', hd⟩ := hst
    have hne : l ≠ s.core.live := by show l ≠ s.lr.live; omega
    have hg' := gfact_mut (i := l) (r := r) (o := o) hs.g hne (mod_op_ok hf rfl)
    have hopr : (∃ n, o = .push n) ∨ o = .remove r := by
      rcases mod_op_ok hf (o := o) rfl with ⟨n, _, e, _⟩ | ⟨e, _⟩
      · exact Or.inl ⟨n, e⟩
      · exact Or.inr e
    refine safe_R ha hs hpc rfl rfl rfl (by okR_tac) hg' ?_ ?_ ?_ (fun h => h) (fun n hn => Or.inl hn)
    · intro q' e; cases e
      show rFact { s.core with data := upd s.core.data l (apL o (s.core.data l)) } t r _
      cases k with
      | clone n =>
        simp only [rFact, opOf, pushedAt, isWr] at hf ⊢
        have := hf.2.2.1 o rfl; subst this
        refine ⟨hf.1, hf.2.1, fun _ ho => by simp at ho, ?_, trivial⟩
        have hin := hf.2.2.2.1
        have : l = 0 ∨ l = 1 := by omega
        rcases this with rfl | rfl
        · refine ⟨?_, ?_⟩
          · simp only [upd_same, apL, List.mem_append, List.mem_singleton, or_true]
          · simp only [upd_apply]; simpa using hin
        · refine ⟨?_, ?_⟩
          · simp only [upd_apply]; simpa using hin
          · simp only [upd_same, apL, List.mem_append, List.mem_singleton, or_true]
      | unreg => simp only [rFact, opOf, isWr] at hf ⊢; exact ⟨hf.1, hf.2.1, hf.2.2.1, fun _ ho => by simp at ho, trivial⟩
    · exact sFact_R_of rfl rfl rfl rfl rfl rfl rfl rfl (Nat.le_refl _) (fun _ _ => Nat.le_refl _)
    · intro u r' q' hut hne' hq
      refine rFact_R_of (s' := { s.goR t r (.rcv r (.mMod k .wUnlock)) with lr := { s.lr with data := upd s.lr.data l (apL o (s.lr.data l)) } })
        (fun y => y = r) hs.g (Nat.le_refl _) (fun _ _ _ => ⟨rfl, rfl, rfl, rfl, rfl⟩) rfl rfl ?_ hne' ?_ hq
      · exact data_mono_mut hopr
      · intro n hn e; subst e; rw [show s.core.resv n = s.resv n from rfl, hn] at hbase; cases hbase.2
  case wUnlock =>
    cases h
    have hnew : rFact s.core t r (.mUnlock k) := by
      cases k with
      | clone n => simp only [rFact, pushedAt] at hf ⊢; exact ⟨hf.1, hf.2.1, hf.2.2.2.1.1, hf.2.2.2.1.2⟩
      | unreg => simp only [rFact] at hf ⊢; exact ⟨hf.1, hf.2.1, hf.2.2.1⟩
    exact safe_R_same ha hs hpc rfl rfl rfl rfl rfl (by okR_tac) (fun q' e => by cases e; exact hnew)

theorem safe_actR {s s' : State} {t r : Nat} {p : RPC} (ha : InvA s) (hl : LRI s) (hs : Safe s)
    (hpc : s.pc t = .rcv r p) (h : actR s t r p = some s') : Safe s' := by
  by_cases hm : ∃ k q, p = .mMod k q
  · obtain ⟨k, q, rfl⟩ := hm
    simp only [actR] at h
    exact safe_mMod ha hl hs hpc h
  · exact safe_actR1 ha hl hs hpc h (fun k q e => hm ⟨k, q, e⟩)

theorem safe_act {s s' : State} {t : Nat} (ha : InvA s) (hl : LRI s) (hs : Safe s) (h : act s t = some s') : Safe s' := by
  unfold act at h
  split at h
  · cases h
  · cases h
  · rename_i p hpc; exact safe_actS ha hl hs hpc h
  · rename_i r p hpc; exact safe_actR ha hl hs hpc h

end Fv.Chan.SpmcB
