import Fv.Lemmas.ChainBBasic
/-! Generated: value of every pc / slab-state observer on every constructor (for `simp` and `grind`). -/
namespace Fv.Chan.ChainB

@[simp, grind =] theorem obs_1  : pRelOf .idle = none := rfl
@[simp, grind =] theorem obs_2  : pRelOf .build = none := rfl
@[simp, grind =] theorem obs_3  : pRelOf .sealing = none := rfl
@[simp, grind =] theorem obs_4 (b : Nat) : pRelOf (.relFence b .bump) = some b := rfl
@[simp, grind =] theorem obs_5 (b : Nat) : pRelOf (.relFence b .close) = some b := rfl
@[simp, grind =] theorem obs_6 (b : Nat) : pRelOf (.relLock b .bump) = some b := rfl
@[simp, grind =] theorem obs_7 (b : Nat) : pRelOf (.relLock b .close) = some b := rfl
@[simp, grind =] theorem obs_8 (b : Nat) : pRelOf (.relUnlock b .bump) = some b := rfl
@[simp, grind =] theorem obs_9 (b : Nat) : pRelOf (.relUnlock b .close) = some b := rfl
@[simp, grind =] theorem obs_10  : pRelOf .acqLock = none := rfl
@[simp, grind =] theorem obs_11  : pRelOf .acqUnlock = none := rfl
@[simp, grind =] theorem obs_12 (b : Nat) : pRelOf (.rearmRem b) = none := rfl
@[simp, grind =] theorem obs_13 (b : Nat) (i : Nat) : pRelOf (.rearmNode b i) = none := rfl
@[simp, grind =] theorem obs_14  : pRelOf .alloc = none := rfl
@[simp, grind =] theorem obs_15  : pRelOf .prelink = none := rfl
@[simp, grind =] theorem obs_16 (i : Nat) (o : NodeId) (f : NodeId) : pRelOf (.link i o f) = none := rfl
@[simp, grind =] theorem obs_17  : pRelOf .dropDec = none := rfl
@[simp, grind =] theorem obs_18  : pHoldsLock .idle = false := rfl
@[simp, grind =] theorem obs_19  : pHoldsLock .build = false := rfl
@[simp, grind =] theorem obs_20  : pHoldsLock .sealing = false := rfl
@[simp, grind =] theorem obs_21 (b : Nat) : pHoldsLock (.relFence b .bump) = false := rfl
@[simp, grind =] theorem obs_22 (b : Nat) : pHoldsLock (.relFence b .close) = false := rfl
@[simp, grind =] theorem obs_23 (b : Nat) : pHoldsLock (.relLock b .bump) = false := rfl
@[simp, grind =] theorem obs_24 (b : Nat) : pHoldsLock (.relLock b .close) = false := rfl
@[simp, grind =] theorem obs_25 (b : Nat) : pHoldsLock (.relUnlock b .bump) = true := rfl
@[simp, grind =] theorem obs_26 (b : Nat) : pHoldsLock (.relUnlock b .close) = true := rfl
@[simp, grind =] theorem obs_27  : pHoldsLock .acqLock = false := rfl
@[simp, grind =] theorem obs_28  : pHoldsLock .acqUnlock = true := rfl
@[simp, grind =] theorem obs_29 (b : Nat) : pHoldsLock (.rearmRem b) = false := rfl
@[simp, grind =] theorem obs_30 (b : Nat) (i : Nat) : pHoldsLock (.rearmNode b i) = false := rfl
@[simp, grind =] theorem obs_31  : pHoldsLock .alloc = false := rfl
@[simp, grind =] theorem obs_32  : pHoldsLock .prelink = false := rfl
@[simp, grind =] theorem obs_33 (i : Nat) (o : NodeId) (f : NodeId) : pHoldsLock (.link i o f) = false := rfl
@[simp, grind =] theorem obs_34  : pHoldsLock .dropDec = false := rfl
@[simp, grind =] theorem obs_35  : building .idle = false := rfl
@[simp, grind =] theorem obs_36  : building .build = true := rfl
@[simp, grind =] theorem obs_37  : building .sealing = false := rfl
@[simp, grind =] theorem obs_38 (b : Nat) : building (.relFence b .bump) = true := rfl
@[simp, grind =] theorem obs_39 (b : Nat) : building (.relFence b .close) = false := rfl
@[simp, grind =] theorem obs_40 (b : Nat) : building (.relLock b .bump) = true := rfl
@[simp, grind =] theorem obs_41 (b : Nat) : building (.relLock b .close) = false := rfl
@[simp, grind =] theorem obs_42 (b : Nat) : building (.relUnlock b .bump) = true := rfl
@[simp, grind =] theorem obs_43 (b : Nat) : building (.relUnlock b .close) = false := rfl
@[simp, grind =] theorem obs_44  : building .acqLock = true := rfl
@[simp, grind =] theorem obs_45  : building .acqUnlock = true := rfl
@[simp, grind =] theorem obs_46 (b : Nat) : building (.rearmRem b) = true := rfl
@[simp, grind =] theorem obs_47 (b : Nat) (i : Nat) : building (.rearmNode b i) = true := rfl
@[simp, grind =] theorem obs_48  : building .alloc = true := rfl
@[simp, grind =] theorem obs_49  : building .prelink = true := rfl
@[simp, grind =] theorem obs_50 (i : Nat) (o : NodeId) (f : NodeId) : building (.link i o f) = false := rfl
@[simp, grind =] theorem obs_51  : building .dropDec = false := rfl
@[simp, grind =] theorem obs_52  : needing .idle = false := rfl
@[simp, grind =] theorem obs_53  : needing .build = false := rfl
@[simp, grind =] theorem obs_54  : needing .sealing = false := rfl
@[simp, grind =] theorem obs_55 (b : Nat) : needing (.relFence b .bump) = true := rfl
@[simp, grind =] theorem obs_56 (b : Nat) : needing (.relFence b .close) = false := rfl
@[simp, grind =] theorem obs_57 (b : Nat) : needing (.relLock b .bump) = true := rfl
@[simp, grind =] theorem obs_58 (b : Nat) : needing (.relLock b .close) = false := rfl
@[simp, grind =] theorem obs_59 (b : Nat) : needing (.relUnlock b .bump) = true := rfl
@[simp, grind =] theorem obs_60 (b : Nat) : needing (.relUnlock b .close) = false := rfl
@[simp, grind =] theorem obs_61  : needing .acqLock = true := rfl
@[simp, grind =] theorem obs_62  : needing .acqUnlock = true := rfl
@[simp, grind =] theorem obs_63 (b : Nat) : needing (.rearmRem b) = true := rfl
@[simp, grind =] theorem obs_64 (b : Nat) (i : Nat) : needing (.rearmNode b i) = true := rfl
@[simp, grind =] theorem obs_65  : needing .alloc = true := rfl
@[simp, grind =] theorem obs_66  : needing .prelink = false := rfl
@[simp, grind =] theorem obs_67 (i : Nat) (o : NodeId) (f : NodeId) : needing (.link i o f) = false := rfl
@[simp, grind =] theorem obs_68  : needing .dropDec = false := rfl
@[simp, grind =] theorem obs_69  : noSlab .idle = false := rfl
@[simp, grind =] theorem obs_70  : noSlab .build = false := rfl
@[simp, grind =] theorem obs_71  : noSlab .sealing = false := rfl
@[simp, grind =] theorem obs_72 (b : Nat) : noSlab (.relFence b .bump) = true := rfl
@[simp, grind =] theorem obs_73 (b : Nat) : noSlab (.relFence b .close) = true := rfl
@[simp, grind =] theorem obs_74 (b : Nat) : noSlab (.relLock b .bump) = true := rfl
@[simp, grind =] theorem obs_75 (b : Nat) : noSlab (.relLock b .close) = true := rfl
@[simp, grind =] theorem obs_76 (b : Nat) : noSlab (.relUnlock b .bump) = true := rfl
@[simp, grind =] theorem obs_77 (b : Nat) : noSlab (.relUnlock b .close) = true := rfl
@[simp, grind =] theorem obs_78  : noSlab .acqLock = true := rfl
@[simp, grind =] theorem obs_79  : noSlab .acqUnlock = true := rfl
@[simp, grind =] theorem obs_80 (b : Nat) : noSlab (.rearmRem b) = true := rfl
@[simp, grind =] theorem obs_81 (b : Nat) (i : Nat) : noSlab (.rearmNode b i) = true := rfl
@[simp, grind =] theorem obs_82  : noSlab .alloc = true := rfl
@[simp, grind =] theorem obs_83  : noSlab .prelink = false := rfl
@[simp, grind =] theorem obs_84 (i : Nat) (o : NodeId) (f : NodeId) : noSlab (.link i o f) = false := rfl
@[simp, grind =] theorem obs_85  : noSlab .dropDec = true := rfl
@[simp, grind =] theorem obs_86  : hasSlab .idle = false := rfl
@[simp, grind =] theorem obs_87  : hasSlab .build = true := rfl
@[simp, grind =] theorem obs_88  : hasSlab .sealing = true := rfl
@[simp, grind =] theorem obs_89 (b : Nat) : hasSlab (.relFence b .bump) = false := rfl
@[simp, grind =] theorem obs_90 (b : Nat) : hasSlab (.relFence b .close) = false := rfl
@[simp, grind =] theorem obs_91 (b : Nat) : hasSlab (.relLock b .bump) = false := rfl
@[simp, grind =] theorem obs_92 (b : Nat) : hasSlab (.relLock b .close) = false := rfl
@[simp, grind =] theorem obs_93 (b : Nat) : hasSlab (.relUnlock b .bump) = false := rfl
@[simp, grind =] theorem obs_94 (b : Nat) : hasSlab (.relUnlock b .close) = false := rfl
@[simp, grind =] theorem obs_95  : hasSlab .acqLock = false := rfl
@[simp, grind =] theorem obs_96  : hasSlab .acqUnlock = false := rfl
@[simp, grind =] theorem obs_97 (b : Nat) : hasSlab (.rearmRem b) = false := rfl
@[simp, grind =] theorem obs_98 (b : Nat) (i : Nat) : hasSlab (.rearmNode b i) = false := rfl
@[simp, grind =] theorem obs_99  : hasSlab .alloc = false := rfl
@[simp, grind =] theorem obs_100  : hasSlab .prelink = true := rfl
@[simp, grind =] theorem obs_101 (i : Nat) (o : NodeId) (f : NodeId) : hasSlab (.link i o f) = false := rfl
@[simp, grind =] theorem obs_102  : hasSlab .dropDec = false := rfl
@[simp, grind =] theorem obs_103  : cRelOf .idle = none := rfl
@[simp, grind =] theorem obs_104 (n : NodeId) (v : Nat) : cRelOf (.retDec n (.pop v)) = none := rfl
@[simp, grind =] theorem obs_105 (b : Nat) (v : Nat) : cRelOf (.relFence b (.pop v)) = some b := rfl
@[simp, grind =] theorem obs_106 (b : Nat) (v : Nat) : cRelOf (.relLock b (.pop v)) = some b := rfl
@[simp, grind =] theorem obs_107 (b : Nat) (v : Nat) : cRelOf (.relUnlock b (.pop v)) = some b := rfl
@[simp, grind =] theorem obs_108 (n : NodeId) : cRelOf (.retDec n .walk) = none := rfl
@[simp, grind =] theorem obs_109 (b : Nat) : cRelOf (.relFence b .walk) = some b := rfl
@[simp, grind =] theorem obs_110 (b : Nat) : cRelOf (.relLock b .walk) = some b := rfl
@[simp, grind =] theorem obs_111 (b : Nat) : cRelOf (.relUnlock b .walk) = some b := rfl
@[simp, grind =] theorem obs_112 (n : NodeId) : cRelOf (.retDec n .last) = none := rfl
@[simp, grind =] theorem obs_113 (b : Nat) : cRelOf (.relFence b .last) = some b := rfl
@[simp, grind =] theorem obs_114 (b : Nat) : cRelOf (.relLock b .last) = some b := rfl
@[simp, grind =] theorem obs_115 (b : Nat) : cRelOf (.relUnlock b .last) = some b := rfl
@[simp, grind =] theorem obs_116 (r : Option Nat) : cRelOf (.done r) = none := rfl
@[simp, grind =] theorem obs_117  : cRelOf .finLoad = none := rfl
@[simp, grind =] theorem obs_118  : cRelOf .finished = none := rfl
@[simp, grind =] theorem obs_119  : cHoldsLock .idle = false := rfl
@[simp, grind =] theorem obs_120 (n : NodeId) (v : Nat) : cHoldsLock (.retDec n (.pop v)) = false := rfl
@[simp, grind =] theorem obs_121 (b : Nat) (v : Nat) : cHoldsLock (.relFence b (.pop v)) = false := rfl
@[simp, grind =] theorem obs_122 (b : Nat) (v : Nat) : cHoldsLock (.relLock b (.pop v)) = false := rfl
@[simp, grind =] theorem obs_123 (b : Nat) (v : Nat) : cHoldsLock (.relUnlock b (.pop v)) = true := rfl
@[simp, grind =] theorem obs_124 (n : NodeId) : cHoldsLock (.retDec n .walk) = false := rfl
@[simp, grind =] theorem obs_125 (b : Nat) : cHoldsLock (.relFence b .walk) = false := rfl
@[simp, grind =] theorem obs_126 (b : Nat) : cHoldsLock (.relLock b .walk) = false := rfl
@[simp, grind =] theorem obs_127 (b : Nat) : cHoldsLock (.relUnlock b .walk) = true := rfl
@[simp, grind =] theorem obs_128 (n : NodeId) : cHoldsLock (.retDec n .last) = false := rfl
@[simp, grind =] theorem obs_129 (b : Nat) : cHoldsLock (.relFence b .last) = false := rfl
@[simp, grind =] theorem obs_130 (b : Nat) : cHoldsLock (.relLock b .last) = false := rfl
@[simp, grind =] theorem obs_131 (b : Nat) : cHoldsLock (.relUnlock b .last) = true := rfl
@[simp, grind =] theorem obs_132 (r : Option Nat) : cHoldsLock (.done r) = false := rfl
@[simp, grind =] theorem obs_133  : cHoldsLock .finLoad = false := rfl
@[simp, grind =] theorem obs_134  : cHoldsLock .finished = false := rfl
@[simp, grind =] theorem obs_135  : cRetOf .idle = none := rfl
@[simp, grind =] theorem obs_136 (n : NodeId) (v : Nat) : cRetOf (.retDec n (.pop v)) = some n := rfl
@[simp, grind =] theorem obs_137 (b : Nat) (v : Nat) : cRetOf (.relFence b (.pop v)) = none := rfl
@[simp, grind =] theorem obs_138 (b : Nat) (v : Nat) : cRetOf (.relLock b (.pop v)) = none := rfl
@[simp, grind =] theorem obs_139 (b : Nat) (v : Nat) : cRetOf (.relUnlock b (.pop v)) = none := rfl
@[simp, grind =] theorem obs_140 (n : NodeId) : cRetOf (.retDec n .walk) = some n := rfl
@[simp, grind =] theorem obs_141 (b : Nat) : cRetOf (.relFence b .walk) = none := rfl
@[simp, grind =] theorem obs_142 (b : Nat) : cRetOf (.relLock b .walk) = none := rfl
@[simp, grind =] theorem obs_143 (b : Nat) : cRetOf (.relUnlock b .walk) = none := rfl
@[simp, grind =] theorem obs_144 (n : NodeId) : cRetOf (.retDec n .last) = some n := rfl
@[simp, grind =] theorem obs_145 (b : Nat) : cRetOf (.relFence b .last) = none := rfl
@[simp, grind =] theorem obs_146 (b : Nat) : cRetOf (.relLock b .last) = none := rfl
@[simp, grind =] theorem obs_147 (b : Nat) : cRetOf (.relUnlock b .last) = none := rfl
@[simp, grind =] theorem obs_148 (r : Option Nat) : cRetOf (.done r) = none := rfl
@[simp, grind =] theorem obs_149  : cRetOf .finLoad = none := rfl
@[simp, grind =] theorem obs_150  : cRetOf .finished = none := rfl
@[simp, grind =] theorem obs_151  : cFinal .idle = false := rfl
@[simp, grind =] theorem obs_152 (n : NodeId) (v : Nat) : cFinal (.retDec n (.pop v)) = false := rfl
@[simp, grind =] theorem obs_153 (b : Nat) (v : Nat) : cFinal (.relFence b (.pop v)) = false := rfl
@[simp, grind =] theorem obs_154 (b : Nat) (v : Nat) : cFinal (.relLock b (.pop v)) = false := rfl
@[simp, grind =] theorem obs_155 (b : Nat) (v : Nat) : cFinal (.relUnlock b (.pop v)) = false := rfl
@[simp, grind =] theorem obs_156 (n : NodeId) : cFinal (.retDec n .walk) = true := rfl
@[simp, grind =] theorem obs_157 (b : Nat) : cFinal (.relFence b .walk) = true := rfl
@[simp, grind =] theorem obs_158 (b : Nat) : cFinal (.relLock b .walk) = true := rfl
@[simp, grind =] theorem obs_159 (b : Nat) : cFinal (.relUnlock b .walk) = true := rfl
@[simp, grind =] theorem obs_160 (n : NodeId) : cFinal (.retDec n .last) = true := rfl
@[simp, grind =] theorem obs_161 (b : Nat) : cFinal (.relFence b .last) = true := rfl
@[simp, grind =] theorem obs_162 (b : Nat) : cFinal (.relLock b .last) = true := rfl
@[simp, grind =] theorem obs_163 (b : Nat) : cFinal (.relUnlock b .last) = true := rfl
@[simp, grind =] theorem obs_164 (r : Option Nat) : cFinal (.done r) = false := rfl
@[simp, grind =] theorem obs_165  : cFinal .finLoad = true := rfl
@[simp, grind =] theorem obs_166  : cFinal .finished = true := rfl
@[simp, grind =] theorem obs_167  : cLast .idle = false := rfl
@[simp, grind =] theorem obs_168 (n : NodeId) (v : Nat) : cLast (.retDec n (.pop v)) = false := rfl
@[simp, grind =] theorem obs_169 (b : Nat) (v : Nat) : cLast (.relFence b (.pop v)) = false := rfl
@[simp, grind =] theorem obs_170 (b : Nat) (v : Nat) : cLast (.relLock b (.pop v)) = false := rfl
@[simp, grind =] theorem obs_171 (b : Nat) (v : Nat) : cLast (.relUnlock b (.pop v)) = false := rfl
@[simp, grind =] theorem obs_172 (n : NodeId) : cLast (.retDec n .walk) = false := rfl
@[simp, grind =] theorem obs_173 (b : Nat) : cLast (.relFence b .walk) = false := rfl
@[simp, grind =] theorem obs_174 (b : Nat) : cLast (.relLock b .walk) = false := rfl
@[simp, grind =] theorem obs_175 (b : Nat) : cLast (.relUnlock b .walk) = false := rfl
@[simp, grind =] theorem obs_176 (n : NodeId) : cLast (.retDec n .last) = true := rfl
@[simp, grind =] theorem obs_177 (b : Nat) : cLast (.relFence b .last) = true := rfl
@[simp, grind =] theorem obs_178 (b : Nat) : cLast (.relLock b .last) = true := rfl
@[simp, grind =] theorem obs_179 (b : Nat) : cLast (.relUnlock b .last) = true := rfl
@[simp, grind =] theorem obs_180 (r : Option Nat) : cLast (.done r) = false := rfl
@[simp, grind =] theorem obs_181  : cLast .finLoad = false := rfl
@[simp, grind =] theorem obs_182  : cLast .finished = true := rfl
@[simp, grind =] theorem obs_183  : hold .unalloc = 0 := rfl
@[simp, grind =] theorem obs_184 (h : Nat) : hold (.owned h) = 1 := rfl
@[simp, grind =] theorem obs_185  : hold .sealed = 0 := rfl
@[simp, grind =] theorem obs_186 (a : Agent) : hold (.releasing a) = 0 := rfl
@[simp, grind =] theorem obs_187  : hold .pooled = 0 := rfl
@[simp, grind =] theorem obs_188  : hold .freed = 0 := rfl
@[simp, grind =] theorem obs_189 (h : Nat) : hold (.popped h) = 0 := rfl
@[simp, grind =] theorem obs_190 (h : Nat) : hold (.arming h) = 1 := rfl
@[simp, grind =] theorem obs_191  : isZero .unalloc = false := rfl
@[simp, grind =] theorem obs_192 (h : Nat) : isZero (.owned h) = false := rfl
@[simp, grind =] theorem obs_193  : isZero .sealed = false := rfl
@[simp, grind =] theorem obs_194 (a : Agent) : isZero (.releasing a) = true := rfl
@[simp, grind =] theorem obs_195  : isZero .pooled = true := rfl
@[simp, grind =] theorem obs_196  : isZero .freed = true := rfl
@[simp, grind =] theorem obs_197 (h : Nat) : isZero (.popped h) = true := rfl
@[simp, grind =] theorem obs_198 (h : Nat) : isZero (.arming h) = false := rfl

@[simp, grind =] theorem pAfter_bump : pAfter .bump = .acqLock := rfl
@[simp, grind =] theorem pAfter_close : pAfter .close = .dropDec := rfl
@[simp, grind =] theorem cAfter_pop (v : Nat) : cAfter (.pop v) = .done (some v) := rfl
@[simp, grind =] theorem cAfter_walk : cAfter .walk = .finLoad := rfl
@[simp, grind =] theorem cAfter_last : cAfter .last = .finished := rfl

/-! observers on pcs with a generic continuation -/
def isBump : PCont → Bool | .bump => true | .close => false
def ccFinal : CCont → Bool | .pop _ => false | .walk => true | .last => true
def ccLast : CCont → Bool | .pop _ => false | .walk => false | .last => true
@[simp, grind =] theorem isBump_bump : isBump .bump = true := rfl
@[simp, grind =] theorem isBump_close : isBump .close = false := rfl
@[simp, grind =] theorem ccFinal_pop (v : Nat) : ccFinal (.pop v) = false := rfl
@[simp, grind =] theorem ccFinal_walk : ccFinal .walk = true := rfl
@[simp, grind =] theorem ccFinal_last : ccFinal .last = true := rfl
@[simp, grind =] theorem ccLast_pop (v : Nat) : ccLast (.pop v) = false := rfl
@[simp, grind =] theorem ccLast_walk : ccLast .walk = false := rfl
@[simp, grind =] theorem ccLast_last : ccLast .last = true := rfl
@[simp, grind =] theorem obsg_1 (b : Nat) (c : PCont) : pRelOf (.relFence b c) = some b := by rfl
@[simp, grind =] theorem obsg_2 (b : Nat) (c : PCont) : pHoldsLock (.relFence b c) = false := by rfl
@[simp, grind =] theorem obsg_3 (b : Nat) (c : PCont) : building (.relFence b c) = isBump c := by cases c <;> rfl
@[simp, grind =] theorem obsg_4 (b : Nat) (c : PCont) : needing (.relFence b c) = isBump c := by cases c <;> rfl
@[simp, grind =] theorem obsg_5 (b : Nat) (c : PCont) : noSlab (.relFence b c) = true := by rfl
@[simp, grind =] theorem obsg_6 (b : Nat) (c : PCont) : hasSlab (.relFence b c) = false := by rfl
@[simp, grind =] theorem obsg_7 (b : Nat) (c : CCont) : cRelOf (.relFence b c) = some b := by rfl
@[simp, grind =] theorem obsg_8 (b : Nat) (c : CCont) : cHoldsLock (.relFence b c) = false := by rfl
@[simp, grind =] theorem obsg_9 (b : Nat) (c : CCont) : cRetOf (.relFence b c) = none := by rfl
@[simp, grind =] theorem obsg_10 (b : Nat) (c : CCont) : cFinal (.relFence b c) = ccFinal c := by cases c <;> rfl
@[simp, grind =] theorem obsg_11 (b : Nat) (c : CCont) : cLast (.relFence b c) = ccLast c := by cases c <;> rfl
@[simp, grind =] theorem obsg_12 (b : Nat) (c : PCont) : pRelOf (.relLock b c) = some b := by rfl
@[simp, grind =] theorem obsg_13 (b : Nat) (c : PCont) : pHoldsLock (.relLock b c) = false := by rfl
@[simp, grind =] theorem obsg_14 (b : Nat) (c : PCont) : building (.relLock b c) = isBump c := by cases c <;> rfl
@[simp, grind =] theorem obsg_15 (b : Nat) (c : PCont) : needing (.relLock b c) = isBump c := by cases c <;> rfl
@[simp, grind =] theorem obsg_16 (b : Nat) (c : PCont) : noSlab (.relLock b c) = true := by rfl
@[simp, grind =] theorem obsg_17 (b : Nat) (c : PCont) : hasSlab (.relLock b c) = false := by rfl
@[simp, grind =] theorem obsg_18 (b : Nat) (c : CCont) : cRelOf (.relLock b c) = some b := by rfl
@[simp, grind =] theorem obsg_19 (b : Nat) (c : CCont) : cHoldsLock (.relLock b c) = false := by rfl
@[simp, grind =] theorem obsg_20 (b : Nat) (c : CCont) : cRetOf (.relLock b c) = none := by rfl
@[simp, grind =] theorem obsg_21 (b : Nat) (c : CCont) : cFinal (.relLock b c) = ccFinal c := by cases c <;> rfl
@[simp, grind =] theorem obsg_22 (b : Nat) (c : CCont) : cLast (.relLock b c) = ccLast c := by cases c <;> rfl
@[simp, grind =] theorem obsg_23 (b : Nat) (c : PCont) : pRelOf (.relUnlock b c) = some b := by rfl
@[simp, grind =] theorem obsg_24 (b : Nat) (c : PCont) : pHoldsLock (.relUnlock b c) = true := by rfl
@[simp, grind =] theorem obsg_25 (b : Nat) (c : PCont) : building (.relUnlock b c) = isBump c := by cases c <;> rfl
@[simp, grind =] theorem obsg_26 (b : Nat) (c : PCont) : needing (.relUnlock b c) = isBump c := by cases c <;> rfl
@[simp, grind =] theorem obsg_27 (b : Nat) (c : PCont) : noSlab (.relUnlock b c) = true := by rfl
@[simp, grind =] theorem obsg_28 (b : Nat) (c : PCont) : hasSlab (.relUnlock b c) = false := by rfl
@[simp, grind =] theorem obsg_29 (b : Nat) (c : CCont) : cRelOf (.relUnlock b c) = some b := by rfl
@[simp, grind =] theorem obsg_30 (b : Nat) (c : CCont) : cHoldsLock (.relUnlock b c) = true := by rfl
@[simp, grind =] theorem obsg_31 (b : Nat) (c : CCont) : cRetOf (.relUnlock b c) = none := by rfl
@[simp, grind =] theorem obsg_32 (b : Nat) (c : CCont) : cFinal (.relUnlock b c) = ccFinal c := by cases c <;> rfl
@[simp, grind =] theorem obsg_33 (b : Nat) (c : CCont) : cLast (.relUnlock b c) = ccLast c := by cases c <;> rfl
@[simp, grind =] theorem obsg_34 (n : NodeId) (c : CCont) : cRelOf (.retDec n c) = none := by rfl
@[simp, grind =] theorem obsg_35 (n : NodeId) (c : CCont) : cHoldsLock (.retDec n c) = false := by rfl
@[simp, grind =] theorem obsg_36 (n : NodeId) (c : CCont) : cRetOf (.retDec n c) = some n := by rfl
@[simp, grind =] theorem obsg_37 (n : NodeId) (c : CCont) : cFinal (.retDec n c) = ccFinal c := by cases c <;> rfl
@[simp, grind =] theorem obsg_38 (n : NodeId) (c : CCont) : cLast (.retDec n c) = ccLast c := by cases c <;> rfl
@[simp, grind =] theorem obsg_39 (c : PCont) : pRelOf (pAfter c) = none := by cases c <;> rfl
@[simp, grind =] theorem obsg_40 (c : PCont) : pHoldsLock (pAfter c) = false := by cases c <;> rfl
@[simp, grind =] theorem obsg_41 (c : PCont) : building (pAfter c) = isBump c := by cases c <;> rfl
@[simp, grind =] theorem obsg_42 (c : PCont) : needing (pAfter c) = isBump c := by cases c <;> rfl
@[simp, grind =] theorem obsg_43 (c : PCont) : noSlab (pAfter c) = true := by cases c <;> rfl
@[simp, grind =] theorem obsg_44 (c : PCont) : hasSlab (pAfter c) = false := by cases c <;> rfl
@[simp, grind =] theorem obsg_45 (c : CCont) : cRelOf (cAfter c) = none := by cases c <;> rfl
@[simp, grind =] theorem obsg_46 (c : CCont) : cHoldsLock (cAfter c) = false := by cases c <;> rfl
@[simp, grind =] theorem obsg_47 (c : CCont) : cRetOf (cAfter c) = none := by cases c <;> rfl
@[simp, grind =] theorem obsg_48 (c : CCont) : cFinal (cAfter c) = ccFinal c := by cases c <;> rfl
@[simp, grind =] theorem obsg_49 (c : CCont) : cLast (cAfter c) = ccLast c := by cases c <;> rfl
theorem pAfter_ne_idle (c : PCont) : pAfter c ≠ .idle := by cases c <;> simp
theorem cLast_le_cFinal (c : CPC) (h : cLast c = true) : cFinal c = true := by
  cases c <;> simp_all <;> rename_i c <;> cases c <;> simp_all

@[simp, grind =] theorem pAfter_eq_link (c : PCont) (i : Nat) (o f : NodeId) : (pAfter c = PPC.link i o f) = False := by cases c <;> simp
@[simp, grind =] theorem pAfter_eq_rearmRem (c : PCont) (b : Nat) : (pAfter c = PPC.rearmRem b) = False := by cases c <;> simp
@[simp, grind =] theorem pAfter_eq_rearmNode (c : PCont) (b i : Nat) : (pAfter c = PPC.rearmNode b i) = False := by cases c <;> simp
@[simp, grind =] theorem pAfter_eq_prelink (c : PCont) : (pAfter c = PPC.prelink) = False := by cases c <;> simp
@[simp, grind =] theorem pAfter_eq_idle (c : PCont) : (pAfter c = PPC.idle) = False := by cases c <;> simp
@[simp, grind =] theorem cAfter_eq_idle (c : CCont) : (cAfter c = CPC.idle) = False := by cases c <;> simp

@[simp, grind =] theorem canFree_unalloc : canFree .unalloc = false := rfl
@[simp, grind =] theorem canFree_owned (h : Nat) : canFree (.owned h) = true := rfl
@[simp, grind =] theorem canFree_sealed : canFree .sealed = false := rfl
@[simp, grind =] theorem canFree_releasing (a : Agent) : canFree (.releasing a) = false := rfl
@[simp, grind =] theorem canFree_pooled : canFree .pooled = false := rfl
@[simp, grind =] theorem canFree_freed : canFree .freed = false := rfl
@[simp, grind =] theorem canFree_popped (h : Nat) : canFree (.popped h) = false := rfl
@[simp, grind =] theorem canFree_arming (h : Nat) : canFree (.arming h) = true := rfl
@[simp, grind =] theorem isArming_unalloc : isArming .unalloc = false := rfl
@[simp, grind =] theorem isArming_owned (h : Nat) : isArming (.owned h) = false := rfl
@[simp, grind =] theorem isArming_sealed : isArming .sealed = false := rfl
@[simp, grind =] theorem isArming_releasing (a : Agent) : isArming (.releasing a) = false := rfl
@[simp, grind =] theorem isArming_pooled : isArming .pooled = false := rfl
@[simp, grind =] theorem isArming_freed : isArming .freed = false := rfl
@[simp, grind =] theorem isArming_popped (h : Nat) : isArming (.popped h) = false := rfl
@[simp, grind =] theorem isArming_arming (h : Nat) : isArming (.arming h) = true := rfl

end Fv.Chan.ChainB
