import Fv.Lemmas.LogRep
/-! C20 helper lemmas: file-system operations of the roller on a directory described by `canon`. -/
namespace Fv.Log.Roller
open Fv.Log

def Entry.key (e : Entry) : Nat × Nat := (e.period, e.seq)

/-- the rolled entries of a directory: all producible by this roller, strictly ascending by (period, seq) -/
structure Dir (p : Policy) (rolled : List Entry) : Prop where
  ok : ∀ e ∈ rolled, EntryOk p e
  asc : rolled.Pairwise entryLt

theorem Dir.nil (p : Policy) : Dir p [] := ⟨by simp, List.Pairwise.nil⟩

theorem dir_of_key_eq {p : Policy} {M M' : List Entry} (h : M'.map Entry.key = M.map Entry.key) (hd : Dir p M) : Dir p M' := by
  constructor
  · intro e he
    have : e.key ∈ M.map Entry.key := by rw [← h]; exact List.mem_map.mpr ⟨e, he, rfl⟩
    obtain ⟨e0, he0, hk⟩ := List.mem_map.mp this
    have h0 := hd.ok e0 he0
    simp only [Entry.key, Prod.mk.injEq] at hk
    exact ⟨by rw [← hk.1]; exact h0.aligned, by rw [← hk.1]; exact h0.inRange, by rw [← hk.2]; exact h0.seqRange⟩
  · have h1 : (M.map Entry.key).Pairwise (fun a b => a.1 < b.1 ∨ (a.1 = b.1 ∧ a.2 < b.2)) := by
      rw [List.pairwise_map]; exact hd.asc
    rw [← h, List.pairwise_map] at h1
    exact h1

theorem key_of_core_eq {M M' : List Entry} (h : M'.map Entry.core = M.map Entry.core) : M'.map Entry.key = M.map Entry.key := by
  have : ∀ l : List Entry, l.map Entry.key = (l.map Entry.core).map (fun c => (c.1, c.2.1)) := by
    intro l; simp [Entry.key, Entry.core, List.map_map]
  rw [this, this, h]

theorem entryLt_irrefl_key {a b : Entry} (h : entryLt a b) : ¬ (a.period = b.period ∧ a.seq = b.seq) := by
  rintro ⟨h1, h2⟩
  rcases h with h | ⟨_, h⟩ <;> omega

theorem Dir.name_ne {p : Policy} (hw : WF p) {M : List Entry} (hd : Dir p M) :
    M.Pairwise (fun a b => entryName p a ≠ entryName p b) := by
  have := hd.asc
  refine List.Pairwise.imp_of_mem ?_ this
  intro a b ha hb hab hn
  obtain ⟨h1, h2, _⟩ := entryName_inj p hw (hd.ok a ha) (hd.ok b hb) hn
  exact entryLt_irrefl_key hab ⟨h1, h2⟩

theorem Dir.names_nodup {p : Policy} (hw : WF p) {M : List Entry} (hd : Dir p M) (active : List (Nat × Nat)) :
    ((canon p M active).map (·.1)).Nodup := by
  simp only [canon, List.map_cons, List.map_map, List.nodup_cons]
  constructor
  · intro h
    obtain ⟨e, he, hn⟩ := List.mem_map.mp h
    exact entryName_ne_base p hw e (hd.ok e he) hn
  · show (M.map (fun e => entryName p e)).Nodup
    rw [List.Nodup, List.pairwise_map]
    exact hd.name_ne hw

/-! ### lookups -/

theorem fsGet_of_mem {fs : FS} (hnd : (fs.map (·.1)).Nodup) {n : Text} {f : File} (h : (n, f) ∈ fs) : fsGet fs n = some f := by
  induction fs with
  | nil => simp at h
  | cons e rest ih =>
    obtain ⟨k, g⟩ := e
    simp only [List.map_cons, List.nodup_cons] at hnd
    simp only [fsGet]
    rcases List.mem_cons.mp h with heq | h'
    · simp only [Prod.mk.injEq] at heq
      simp [heq.1, heq.2]
    · have : k ≠ n := by
        intro hk; subst hk
        exact hnd.1 (List.mem_map.mpr ⟨(k, f), h', rfl⟩)
      simp only [this, if_false]
      exact ih hnd.2 h'

theorem fsGet_none {fs : FS} {n : Text} (h : n ∉ fs.map (·.1)) : fsGet fs n = none := by
  induction fs with
  | nil => rfl
  | cons e rest ih =>
    obtain ⟨k, g⟩ := e
    simp only [List.map_cons, List.mem_cons, not_or] at h
    simp only [fsGet, Ne.symm h.1, if_false]
    exact ih h.2

theorem fsGet_perm {fs fs' : FS} (hp : fs.Perm fs') (hnd : (fs'.map (·.1)).Nodup) {n : Text} {f : File} (h : (n, f) ∈ fs') :
    fsGet fs n = some f :=
  fsGet_of_mem ((hp.map _).nodup_iff.mpr hnd) (hp.symm.subset h)

theorem fsGet_perm_none {fs fs' : FS} (hp : fs.Perm fs') {n : Text} (h : n ∉ fs'.map (·.1)) : fsGet fs n = none :=
  fsGet_none (fun hm => h ((hp.map _).subset hm))

theorem fsRemove_perm {fs fs' : FS} (hp : fs.Perm fs') (n : Text) : (fsRemove fs n).Perm (fsRemove fs' n) := hp.filter _

theorem fsRemove_absent {fs : FS} {n : Text} (h : n ∉ fs.map (·.1)) : fsRemove fs n = fs := by
  simp only [fsRemove, List.filter_eq_self]
  intro e he
  simp only [ne_eq, decide_eq_true_eq]
  intro hn
  exact h (List.mem_map.mpr ⟨e, he, hn⟩)

theorem mem_names_entries {p : Policy} {M : List Entry} {n : Text} :
    n ∈ (M.map (entryFS p)).map (·.1) ↔ ∃ e ∈ M, entryName p e = n := by
  simp [entryFS, List.mem_map]

theorem fsRemove_canon_base {p : Policy} (hw : WF p) {M : List Entry} (hd : Dir p M) (active : List (Nat × Nat)) :
    fsRemove (canon p M active) (baseName p) = M.map (entryFS p) := by
  simp only [canon, fsRemove, List.filter_cons, ne_eq, not_true_eq_false, decide_false, Bool.false_eq_true, if_false]
  show fsRemove (M.map (entryFS p)) (baseName p) = _
  apply fsRemove_absent
  rw [mem_names_entries]
  rintro ⟨e, he, hn⟩
  exact entryName_ne_base p hw e (hd.ok e he) hn

/-! ### retention: deleting the oldest files -/

theorem removeAll_eq_filter (fs : FS) (l : List RolledFile) :
    removeAll fs l = fs.filter (fun e => decide (e.1 ∉ l.map (·.name))) := by
  induction l generalizing fs with
  | nil => simp only [removeAll, List.map_nil, List.not_mem_nil, not_false_eq_true, decide_true]; exact (List.filter_eq_self.mpr (fun _ _ => rfl)).symm
  | cons rf rest ih =>
    simp only [removeAll, ih, fsRemove, List.filter_filter, List.map_cons, List.mem_cons, not_or]
    congr 1
    funext e
    by_cases h1 : e.1 = rf.name <;> by_cases h2 : e.1 ∈ rest.map (·.name) <;> simp [h1, h2]

theorem filter_take_names {α β} [DecidableEq β] (key : α → β) (L : List α) (k : Nat) (hnd : (L.map key).Nodup) :
    L.filter (fun x => decide (key x ∉ (L.take k).map key)) = L.drop k := by
  induction L generalizing k with
  | nil => simp
  | cons e r ih =>
    cases k with
    | zero => simp
    | succ k =>
      simp only [List.map_cons, List.nodup_cons] at hnd
      simp only [List.take_succ_cons, List.map_cons, List.mem_cons, true_or, not_true_eq_false, decide_false,
        List.filter_cons, Bool.false_eq_true, if_false, List.drop_succ_cons]
      rw [← ih k hnd.2]
      apply List.filter_congr
      intro x hx
      have : key x ≠ key e := by
        intro h; exact hnd.1 (h ▸ List.mem_map.mpr ⟨x, hx, rfl⟩)
      simp [this]

theorem removeAll_canon {p : Policy} (hw : WF p) {L : List Entry} (hd : Dir p L) (active : List (Nat × Nat)) (k : Nat) :
    removeAll (canon p L active) (((L.take k).map (toRF p)).reverse) = canon p (L.drop k) active := by
  rw [removeAll_eq_filter]
  have hnames : ∀ x : Text, x ∈ (((L.take k).map (toRF p)).reverse).map (·.name) ↔ x ∈ (L.take k).map (entryName p) := by
    intro x; simp [toRF, List.map_map, Function.comp_def]
  have hcongr : (canon p L active).filter (fun e => decide (e.1 ∉ (((L.take k).map (toRF p)).reverse).map (·.name)))
      = (canon p L active).filter (fun e => decide (e.1 ∉ (L.take k).map (entryName p))) := by
    apply List.filter_congr
    intro e _
    exact decide_eq_decide.mpr (not_congr (hnames _))
  rw [hcongr]
  simp only [canon, List.filter_cons]
  have hb : baseName p ∉ (L.take k).map (entryName p) := by
    intro h
    obtain ⟨e, he, hn⟩ := List.mem_map.mp h
    exact entryName_ne_base p hw e (hd.ok e (List.mem_of_mem_take he)) hn
  simp only [hb, not_false_eq_true, decide_true, if_true]
  congr 1
  have hnd : (L.map (entryName p)).Nodup := by
    rw [List.Nodup, List.pairwise_map]; exact hd.name_ne hw
  rw [← filter_take_names (entryName p) L k hnd, List.filter_map]
  congr 1
  apply List.filter_congr
  intro e _
  exact decide_eq_decide.mpr Iff.rfl

end Fv.Log.Roller
