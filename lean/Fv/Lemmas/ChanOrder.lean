import Fv.Lemmas.ChanSeq
/-!
Order-sensitive facts about the buffered families (everything but rendezvous): a send form appends
exactly its accepted prefix to the buffer, in input order, and touches nothing else of the abstract
state; a receive form removes exactly what it returns from the front.
-/
namespace Fv.Chan
open List

/-- the part of the state a transfer operation must not touch -/
structure Shell where
  hs : List Handle
  sc : Nat
  rc : Nat
  rd : Bool
  pd : Bool
  os : OsState
  deriving DecidableEq

def St.shell (s : St) : Shell := ⟨s.hs, s.sc, s.rc, s.rd, s.pd, s.os⟩

/-- `(s', p')` extends `(s, sent)` by pushing `γ` -/
structure Pushed (s : St) (sent : List Val) (s' : St) (p' : P) : Prop where
  ex : ∃ γ, s'.buf = s.buf ++ γ ∧ s'.sentOk = s.sentOk ++ γ ∧ sentOf p' = sent ++ γ
  shell : s'.shell = s.shell
  recvOk : s'.recvOk = s.recvOk
  consumed : s'.consumed = s.consumed

theorem Pushed.trans {s sent s1 p1 s2 p2} (h1 : Pushed s sent s1 p1) (h2 : Pushed s1 (sentOf p1) s2 p2) :
    Pushed s sent s2 p2 := by
  obtain ⟨γ1, a1, b1, c1⟩ := h1.ex
  obtain ⟨γ2, a2, b2, c2⟩ := h2.ex
  refine ⟨⟨γ1 ++ γ2, ?_, ?_, ?_⟩, h2.shell.trans h1.shell, h2.recvOk.trans h1.recvOk, h2.consumed.trans h1.consumed⟩
  · rw [a2, a1, append_assoc]
  · rw [b2, b1, append_assoc]
  · rw [c2, c1, append_assoc]

theorem failSend_pushed (fl s f tag sent rest) :
    Pushed s sent (failSend fl s f tag sent rest).1 (failSend fl s f tag sent rest).2 := by
  unfold failSend
  split <;> exact ⟨⟨[], by simp [St.lose, St.giveBack], by simp [St.lose, St.giveBack], by simp [sentOf]⟩, rfl, rfl, rfl⟩

theorem trySendEnd_pushed (fl cfg s t f sent rest) :
    Pushed s sent (trySendEnd fl cfg s t f sent rest).1 (trySendEnd fl cfg s t f sent rest).2 := by
  unfold trySendEnd
  split
  · exact ⟨⟨[], by simp [St.giveBack], by simp [St.giveBack], by simp [sentOf]⟩, rfl, rfl, rfl⟩
  · split
    · exact ⟨⟨[], by simp, by simp, by simp [sentOf]⟩, rfl, rfl, rfl⟩
    · exact failSend_pushed ..

theorem push_pushed (s : St) (idx : Nat) (sent γ : List Val) (p' : P) (h : sentOf p' = sent ++ γ) :
    Pushed s sent (s.push idx γ) p' :=
  ⟨⟨γ, rfl, rfl, h⟩, rfl, rfl, rfl⟩

theorem sendStep_pushed {fl cfg s t f h sent rest q spur s' p'}
    (hs : sendStep fl cfg s t f h sent rest q spur = some (s', p')) : Pushed s sent s' p' := by
  unfold sendStep at hs
  generalize sendK fl cfg s f rest q spur = k at hs
  split at hs
  · split at hs
    · cases hs
      exact ⟨⟨[], by simp [St.giveBack], by simp [St.giveBack], by simp [sentOf]⟩, rfl, rfl, rfl⟩
    · obtain ⟨rfl, rfl⟩ := of_some_eq hs; exact failSend_pushed ..
  · split at hs
    · cases hs; exact ⟨⟨[], by simp, by simp, by simp [sentOf]⟩, rfl, rfl, rfl⟩
    · split at hs
      · cases hs; exact push_pushed _ _ _ _ _ rfl
      · split at hs
        · split at hs
          · cases hs
          · obtain ⟨rfl, rfl⟩ := of_some_eq hs; exact trySendEnd_pushed ..
        · simp only [] at hs
          split at hs
          · cases hs; exact push_pushed _ _ _ _ _ rfl
          · obtain ⟨rfl, rfl⟩ := of_some_eq hs
            have h1 : Pushed s sent (s.push h.idx (take k rest))
                (.bsend t f h (sent ++ take k rest) (drop k rest) 0) := push_pushed _ _ _ _ _ rfl
            exact h1.trans (trySendEnd_pushed ..)

/-- operation states of a send loop -/
def SendP : P → Prop
  | .bsend .. => True
  | .bsendEnd .. => True
  | .fin _ => True
  | _ => False

theorem failSend_sendP (fl s f tag sent rest) : SendP (failSend fl s f tag sent rest).2 := by
  unfold failSend; split <;> trivial

theorem trySendEnd_sendP (fl cfg s t f sent rest) : SendP (trySendEnd fl cfg s t f sent rest).2 := by
  unfold trySendEnd; split
  · trivial
  · split
    · trivial
    · exact failSend_sendP ..

theorem sendStep_sendP {fl cfg s t f h sent rest q spur s' p'}
    (hs : sendStep fl cfg s t f h sent rest q spur = some (s', p')) : SendP p' := by
  unfold sendStep at hs
  split at hs
  · split at hs
    · cases hs; trivial
    · obtain ⟨_, rfl⟩ := of_some_eq hs; exact failSend_sendP ..
  · split at hs
    · cases hs; trivial
    · split at hs
      · cases hs; trivial
      · split at hs
        · split at hs
          · cases hs
          · obtain ⟨_, rfl⟩ := of_some_eq hs; exact trySendEnd_sendP ..
        · simp only [] at hs
          split at hs
          · cases hs; trivial
          · obtain ⟨_, rfl⟩ := of_some_eq hs; exact trySendEnd_sendP ..

theorem Pushed.refl (s : St) (p : P) : Pushed s (sentOf p) s p :=
  ⟨⟨[], by simp, by simp, by simp⟩, rfl, rfl, rfl⟩

theorem runPS_fin (fl cfg fuel s o) : runPS fl cfg fuel s (.fin o) = (s, .fin o) := by
  cases fuel <;> simp [runPS]

/-- running a send loop to completion appends exactly what the operation reports as sent -/
theorem runPS_pushed (fl cfg) : ∀ (fuel : Nat) (s : St) (p : P), SendP p →
    Pushed s (sentOf p) (runPS fl cfg fuel s p).1 (runPS fl cfg fuel s p).2 := by
  intro fuel
  induction fuel with
  | zero => intro s p _; simpa [runPS] using Pushed.refl s p
  | succ fuel ih =>
    intro s p hp
    cases p with
    | fin o => rw [runPS_fin]; exact Pushed.refl s _
    | bsend t f h sent rest q =>
      unfold runPS
      simp only [microDet]
      split
      · exact Pushed.refl s _
      · rename_i s' p' hm
        have h1 : Pushed s (sentOf (.bsend t f h sent rest q)) s' p' := sendStep_pushed hm
        exact h1.trans (ih s' p' (sendStep_sendP hm))
    | bsendEnd t f sent rest =>
      unfold runPS
      simp only [microDet]
      have h1 : Pushed s (sentOf (.bsendEnd t f sent rest))
          (failSend fl s f (if receiversGone fl s = true then Tag.closed else Tag.full) sent rest).1
          (failSend fl s f (if receiversGone fl s = true then Tag.closed else Tag.full) sent rest).2 :=
        failSend_pushed ..
      exact h1.trans (ih _ _ (failSend_sendP ..))
    | _ => exact absurd hp (by simp [SendP])


theorem create_pushed (s : St) (vs sent) (p' : P) (h : sentOf p' = sent) : Pushed s sent (s.create vs) p' :=
  ⟨⟨[], by simp [St.create], by simp [St.create], by simp [h]⟩, rfl, rfl, rfl⟩

theorem Pushed.fin0 (s : St) (o : Out) (h : o.sent = []) : Pushed s [] s (.fin o) :=
  ⟨⟨[], by simp, by simp, by simp [sentOf, h]⟩, rfl, rfl, rfl⟩

theorem startSendBuf_pushed (fl cfg s t f h hd vs) :
    Pushed s [] (startSendBuf fl cfg s (s.create vs) t f h hd vs).1 (startSendBuf fl cfg s (s.create vs) t f h hd vs).2 ∧
    SendP (startSendBuf fl cfg s (s.create vs) t f h hd vs).2 := by
  have hc : ∀ p' : P, sentOf p' = [] → Pushed s [] (s.create vs) p' := fun p' h => create_pushed s vs [] p' h
  unfold startSendBuf
  split
  · exact ⟨hc _ rfl, trivial⟩
  · exact ⟨(hc (.bsend t f h [] vs 0) rfl).trans (failSend_pushed ..), failSend_sendP ..⟩
  · split
    · exact ⟨hc _ rfl, trivial⟩
    · split
      · exact ⟨hc _ rfl, trivial⟩
      · split
        · rename_i r hr
          have hr' : sendStep fl cfg (s.create vs) t f h [] vs = some (r.1, r.2) := by rw [hr]
          exact ⟨(hc (.bsend t f h [] vs 0) rfl).trans (sendStep_pushed hr'), sendStep_sendP hr'⟩
        · exact ⟨hc _ rfl, trivial⟩

theorem startSend_pushed {fl : Flavour} (hrv : fl.fam ≠ .rv) (hos : fl.fam ≠ .os) (cfg s t f h vs) :
    Pushed s [] (startSend fl cfg s t f h vs).1 (startSend fl cfg s t f h vs).2 ∧
    SendP (startSend fl cfg s t f h vs).2 := by
  unfold startSend
  split
  · exact ⟨Pushed.fin0 s _ rfl, trivial⟩
  · split
    · exact ⟨Pushed.fin0 s _ rfl, trivial⟩
    · split
      · rename_i hf; exact absurd hf hos
      · rename_i hf; exact absurd hf hrv
      · exact startSendBuf_pushed ..

/-- **A send form on a buffered channel appends exactly its accepted values, in input order, and
changes nothing else of the abstract state** (not the handle table, not the counters, not what was
received). -/
theorem stepOpS_send_pushed {fl : Flavour} (hrv : fl.fam ≠ .rv) (hos : fl.fam ≠ .os) (s : St) (f h vs) :
    Pushed s [] (stepOpS fl s (.snd f h vs)).1 (stepOpS fl s (.snd f h vs)).2 := by
  unfold stepOpS
  unfold runPS
  simp only [microDet, seqCfg, start]
  have h1 := startSend_pushed hrv hos { hot := true, granular := false } s 0 f h vs
  simp only [Bool.false_eq_true, false_and, if_false]
  exact h1.1.trans (runPS_pushed fl _ _ _ _ h1.2)


/-! ### receive side -/

/-- `(s', p')` extends `(s, got)` by taking `γ` from the front of the buffer -/
structure Popped (s : St) (got : List Val) (s' : St) (p' : P) : Prop where
  ex : ∃ γ, s.buf = γ ++ s'.buf ∧ s'.recvOk = s.recvOk ++ γ ∧ s'.consumed = s.consumed ++ γ ∧ gotOf p' = got ++ γ
  shell : s'.shell = s.shell
  sentOk : s'.sentOk = s.sentOk

theorem Popped.refl (s : St) (p : P) : Popped s (gotOf p) s p :=
  ⟨⟨[], by simp, by simp, by simp, by simp⟩, rfl, rfl⟩

theorem Popped.trans {s got s1 p1 s2 p2} (h1 : Popped s got s1 p1) (h2 : Popped s1 (gotOf p1) s2 p2) :
    Popped s got s2 p2 := by
  obtain ⟨γ1, a1, b1, c1, d1⟩ := h1.ex
  obtain ⟨γ2, a2, b2, c2, d2⟩ := h2.ex
  refine ⟨⟨γ1 ++ γ2, ?_, ?_, ?_, ?_⟩, h2.shell.trans h1.shell, h2.sentOk.trans h1.sentOk⟩
  · rw [a1, a2, append_assoc]
  · rw [b2, b1, append_assoc]
  · rw [c2, c1, append_assoc]
  · rw [d2, d1, append_assoc]

theorem mbFlush_fields (fl) (s : St) :
    (mbFlush fl s).buf = s.buf ∧ (mbFlush fl s).recvOk = s.recvOk ∧ (mbFlush fl s).consumed = s.consumed ∧
    (mbFlush fl s).shell = s.shell ∧ (mbFlush fl s).sentOk = s.sentOk := by
  unfold mbFlush; split <;> exact ⟨rfl, rfl, rfl, rfl, rfl⟩

theorem mbFlushMid_fields (fl) (s : St) :
    (mbFlushMid fl s).buf = s.buf ∧ (mbFlushMid fl s).recvOk = s.recvOk ∧ (mbFlushMid fl s).consumed = s.consumed ∧
    (mbFlushMid fl s).shell = s.shell ∧ (mbFlushMid fl s).sentOk = s.sentOk := by
  unfold mbFlushMid; split <;> exact ⟨rfl, rfl, rfl, rfl, rfl⟩

theorem mbGot_fields (fl) (s : St) (k b) :
    (mbGot fl s k b).buf = s.buf ∧ (mbGot fl s k b).recvOk = s.recvOk ∧ (mbGot fl s k b).consumed = s.consumed ∧
    (mbGot fl s k b).shell = s.shell ∧ (mbGot fl s k b).sentOk = s.sentOk := by
  unfold mbGot; split <;> exact ⟨rfl, rfl, rfl, rfl, rfl⟩

/-- operation states of a receive loop -/
def RecvP : P → Prop
  | .brecv .. => True
  | .fin _ => True
  | _ => False

theorem recvStep_popped {fl cfg s t f hd n got s' p'} (hs : recvStep fl cfg s t f hd n got = some (s', p')) :
    Popped s got s' p' ∧ RecvP p' := by
  unfold recvStep at hs
  generalize recvK fl cfg s f n got = k at hs
  have flush : ∀ (p : P), gotOf p = got → Popped s got (mbFlush fl s) p := by
    intro p hp
    obtain ⟨a, b, c, d, e⟩ := mbFlush_fields fl s
    exact ⟨⟨[], by simp [a], by simp [b], by simp [c], by simp [hp]⟩, d, e⟩
  have pop : ∀ (s2 : St) (p : P), gotOf p = got ++ s.buf.take k →
      s2.buf = (s.pop hd.name.idx k).buf → s2.recvOk = (s.pop hd.name.idx k).recvOk →
      s2.consumed = (s.pop hd.name.idx k).consumed → s2.shell = (s.pop hd.name.idx k).shell →
      s2.sentOk = (s.pop hd.name.idx k).sentOk → Popped s got s2 p := by
    intro s2 p hp a b c d e
    exact ⟨⟨s.buf.take k, by simp [a, St.pop], by simp [b, St.pop], by simp [c, St.pop], hp⟩,
      by rw [d]; rfl, by rw [e]; rfl⟩
  split at hs
  · split at hs
    · rename_i hg
      have hg' : got = [] := by simpa using hg
      unfold emptyOutcome at hs
      simp only [] at hs
      split at hs
      · cases hs; exact ⟨flush _ (by simp [gotOf, hg']), trivial⟩
      · split at hs <;> first | (cases hs; exact ⟨flush _ (by simp [gotOf, hg']), trivial⟩) | cases hs
    · cases hs; exact ⟨flush _ rfl, trivial⟩
  · obtain ⟨g1, g2, g3, g4, g5⟩ := mbGot_fields fl (s.pop hd.name.idx k) k false
    split at hs
    · cases hs
      refine ⟨?_, trivial⟩
      split
      · obtain ⟨f1, f2, f3, f4, f5⟩ := mbFlushMid_fields fl (mbGot fl (s.pop hd.name.idx k) k false)
        exact pop _ _ rfl (f1.trans g1) (f2.trans g2) (f3.trans g3) (f4.trans g4) (f5.trans g5)
      · exact pop _ _ rfl g1 g2 g3 g4 g5
    · cases hs
      exact ⟨pop _ _ rfl g1 g2 g3 g4 g5, trivial⟩

theorem runPS_popped (fl cfg) : ∀ (fuel : Nat) (s : St) (p : P), RecvP p →
    Popped s (gotOf p) (runPS fl cfg fuel s p).1 (runPS fl cfg fuel s p).2 := by
  intro fuel
  induction fuel with
  | zero => intro s p _; simpa [runPS] using Popped.refl s p
  | succ fuel ih =>
    intro s p hp
    cases p with
    | fin o => rw [runPS_fin]; exact Popped.refl s _
    | brecv t f h n got =>
      unfold runPS
      simp only [microDet]
      split
      · exact Popped.refl s _
      · rename_i s' p' hm
        split at hm
        · cases hm
        · split at hm
          · rename_i hr
            cases hm
            have h1 := recvStep_popped hr
            exact h1.1.trans (ih s' p' h1.2)
          · split at hm
            · cases hm
              obtain ⟨a, b, c, d, e⟩ := mbFlush_fields fl s
              have h1 : Popped s (gotOf (.brecv t f h n got)) (mbFlush fl s) (.brecv t f h n got) :=
                ⟨⟨[], by simp [a], by simp [b], by simp [c], by simp⟩, d, e⟩
              exact h1.trans (ih _ _ trivial)
            · cases hm
    | _ => exact absurd hp (by simp [RecvP])

theorem startRecv_popped {fl : Flavour} (hrv : fl.fam ≠ .rv) (hos : fl.fam ≠ .os) (cfg s t f h n) :
    Popped s [] (startRecv fl cfg s t f h n).1 (startRecv fl cfg s t f h n).2 ∧
    RecvP (startRecv fl cfg s t f h n).2 := by
  have fin0 : ∀ tag, Popped s [] s (.fin { tag := tag }) ∧ RecvP (.fin { tag := tag }) :=
    fun tag => ⟨⟨⟨[], by simp, by simp, by simp, by simp [gotOf]⟩, rfl, rfl⟩, trivial⟩
  unfold startRecv
  split
  · exact fin0 _
  · split
    · exact fin0 _
    · split
      · exact fin0 _
      · exact fin0 _
      · split
        · rename_i hf; exact absurd hf hos
        · rename_i hf; exact absurd hf hrv
        · split
          · rename_i r hr
            exact recvStep_popped (by rw [hr] : recvStep fl cfg s t f _ n [] = some (r.1, r.2))
          · obtain ⟨a, b, c, d, e⟩ := mbFlush_fields fl s
            exact ⟨⟨⟨[], by simp [a], by simp [b], by simp [c], by simp [gotOf]⟩, d, e⟩, trivial⟩

/-- **A receive form on a buffered channel removes exactly what it returns from the front of the
buffer, in order, and changes nothing else of the abstract state.** -/
theorem stepOpS_recv_popped {fl : Flavour} (hrv : fl.fam ≠ .rv) (hos : fl.fam ≠ .os) (s : St) (f h n) :
    Popped s [] (stepOpS fl s (.rcv f h n)).1 (stepOpS fl s (.rcv f h n)).2 := by
  unfold stepOpS
  unfold runPS
  simp only [microDet, seqCfg, start]
  have h1 := startRecv_popped hrv hos { hot := true, granular := false } s 0 f h n
  exact h1.1.trans (runPS_popped fl _ _ _ _ h1.2)

end Fv.Chan
