import Fv.Lemmas.SyncMutexWakeG2
/-!
Local (stepping-thread) lemmas for the no-lost-wakeup proof of the mutex model; each is one pass
over the step cases with ground facts.
-/
namespace Fv.Sync.Mutex
open Fv.Sync
variable {cfg : Cfg} {s s' : State} {t : Tid} {l : Lbl}

set_option maxHeartbeats 16000000 in
/-- the `bo` flag of a future changes only while its phase is `absent` -/
theorem step_bo (h : Step cfg s t l s') :
    ∀ f, (s'.fut f).bo = (s.fut f).bo ∨ (s.fut f).phase = .absent := by
  step_cases h
  all_goals (intro f)
  all_goals (try norm_state)
  all_goals (first | exact Or.inl rfl | wg)

set_option maxHeartbeats 16000000 in
/-- a `block_on` poller stays on its future until the future's node is unlinked -/
theorem bo_poller_local (hi : Inv s) (hw : WInv s) (h : Step cfg s t l s') :
    ∀ f, (s.th t).cur = some f → futPc (s.th t).pc = true → (s.th t).blockOn = true →
      ((s'.th t).cur = some f ∧ futPc (s'.th t).pc = true) ∨ (s'.wl.node (.fut f)).linked = false := by
  have a1 := hi.syncCur t; have a2 := hi.asyncCur t; have a5 := hi.ffOk t
  have b4 := hi.phNode t; have b5 := hi.futUnl t; have b6 := hi.phFresh t; have b7 := hi.phStarted t
  have c := hi.futNode
  unfold PFutNode at c
  clear hi hw
  step_cases h
  all_goals (intro f hc hp hb)
  all_goals (try norm_state)
  all_goals wg

set_option maxHeartbeats 16000000 in
/-- `PreWake` of the stepping thread: it stays in `wake_next`, or the queue is empty, or it has
just marked the head -/
theorem prewake_local (hi : Inv s) (hw : WInv s) (h : Step cfg s t l s') (hp : PreWake s t) :
    PreWake s' t ∨ s'.wl.queue = []
      ∨ ∃ hd, s'.wl.queue.head? = some hd ∧ (s'.wl.node hd).woken = true := by
  have a1 := hi.syncCur t; have a2 := hi.asyncCur t; have a5 := hi.ffOk t
  have b5 := hw.t1 t
  unfold PreWake at hp ⊢
  clear hi hw
  step_cases h
  all_goals (try norm_state)
  all_goals (first | wg | grind [List.head?_eq_none_iff, preWakePc, dropPc])

set_option maxHeartbeats 16000000 in
/-- an active owner stays active (same node) until it holds the lock -/
theorem active_local (hi : Inv s) (h : Step cfg s t l s') (ha : activePc (s.th t).pc = true) :
    (me t (s'.th t) = me t (s.th t) ∧ activePc (s'.th t).pc = true) ∨ s'.word.locked = true := by
  have a1 := hi.syncCur t; have a2 := hi.asyncCur t; have a5 := hi.ffOk t
  clear hi
  step_cases h
  all_goals (try norm_state)
  all_goals wg

set_option maxHeartbeats 16000000 in
/-- a queued node loses `WOKEN` only by its owner's re-arm, which leaves the owner active -/
theorem woken_clear_local (hi : Inv s) (hw : WInv s) (h : Step cfg s t l s') :
    ∀ n, (s.wl.node n).woken = true → (s'.wl.node n).woken = false → (s'.wl.node n).linked = true →
      me t (s'.th t) = n ∧ activePc (s'.th t).pc = true := by
  have a1 := hi.syncCur t; have a2 := hi.asyncCur t; have a5 := hi.ffOk t
  have a4 := hi.thrNode t
  have c := hi.futNode
  have b6 := hi.phFresh t; have b7 := hi.phStarted t
  unfold PFutNode at c
  clear hi hw
  step_cases h
  all_goals (intro n h1 h2 h3)
  all_goals (try norm_state)
  all_goals wg

set_option maxHeartbeats 16000000 in
/-- unlinking steps of a thread that is not dropping a future leave it holding the lock -/
theorem unlink_holds (hi : Inv s) (hw : WInv s) (h : Step cfg s t l s')
    (hpc : (s.th t).pc = .qCas ∨ ∃ k, (s.th t).pc = .llSwap k ∧ (k = .spinUnlink ∨ k = .finish))
    (hq : s'.wl.queue ≠ s.wl.queue) : s'.word.locked = true := by
  have a1 := hi.lockedHeld; have a2 := hi.freeEmpty
  have a3 := hw.hl t
  have key := @holders_key s a1 a2 t
  unfold PLockedHeld at a1; unfold PFreeEmpty at a2
  clear hi hw
  step_cases h
  all_goals (try norm_state)
  all_goals wg

end Fv.Sync.Mutex
