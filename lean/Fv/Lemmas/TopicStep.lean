import Fv.Lemmas.TopicBuf
/-! Per-step facts: `regs` stays duplicate-free; how a step changes the buffers. -/
namespace Fv.Chan.Topic

theorem nodup_subscribeCore (s : St) (r : Nat) (t : Topic) (nd : s.regs.Nodup) : (subscribeCore s r t).regs.Nodup := by
  unfold subscribeCore
  split
  · exact nd
  · split
    · exact nd
    · split
      · simp only []
        have h1 := List.Nodup.sublist (List.filter_sublist (p := fun p => p.1 != t || isLive (modAt s.rxs r (fun x => { x with subs := x.subs ++ [t] })) p.2)) nd
        split
        · exact h1
        · rename_i hc
          rw [List.nodup_append]
          refine ⟨h1, by simp, ?_⟩
          intro a ha b hb hab
          simp only [List.mem_singleton] at hb
          subst hb; subst hab
          exact hc (by simpa using ha)
      · exact nd

theorem nodup_unsubscribeCore (s : St) (r : Nat) (t : Topic) (nd : s.regs.Nodup) : (unsubscribeCore s r t).regs.Nodup := by
  unfold unsubscribeCore
  split
  · exact nd
  · split
    · exact nd
    · split
      · exact List.Nodup.sublist List.filter_sublist nd
      · exact nd

theorem nodup_foldl_subscribeCore (l : List Topic) (s : St) (q : Nat) (nd : s.regs.Nodup) :
    (l.foldl (fun s t => subscribeCore s q t) s).regs.Nodup := by
  induction l generalizing s with
  | nil => exact nd
  | cons t l ih => simp only [List.foldl_cons]; exact ih _ (nodup_subscribeCore s q t nd)

theorem nodup_foldl_unsubscribeCore (l : List Topic) (s : St) (q : Nat) (nd : s.regs.Nodup) :
    (l.foldl (fun s t => unsubscribeCore s q t) s).regs.Nodup := by
  induction l generalizing s with
  | nil => exact nd
  | cons t l ih => simp only [List.foldl_cons]; exact ih _ (nodup_unsubscribeCore s q t nd)

theorem nodup_rxCloseInternal (s : St) (q : Nat) (nd : s.regs.Nodup) : (rxCloseInternal s q).regs.Nodup := by
  cases hx : s.rxs[q]? with
  | none => rw [rxCloseInternal_none s q hx]; exact nd
  | some x =>
    rw [rxCloseInternal_eq s q x hx]; split
    · exact nodup_foldl_unsubscribeCore _ _ _ nd
    · exact nd

/-- I1: the topic lists never hold the same mailbox twice -/
theorem step_regs_nodup (s : St) (op : Op) (nd : s.regs.Nodup) : (step s op).1.regs.Nodup := by
  cases op with
  | send h t v => simp only [step, send]; split <;> (try exact nd); split <;> exact nd
  | sClone h => simp only [step, sClone]; split <;> (try exact nd); split <;> exact nd
  | sClose h => simp only [step, sClose]; split <;> (try exact nd); split <;> exact nd
  | sDrop h =>
    simp only [step, sDrop]; split <;> (try exact nd)
    simp only [sClose]; split <;> (try exact nd); split <;> exact nd
  | sConv h => simp only [step, sConv]; split <;> exact nd
  | sIsClosed h => simp only [step, sIsClosed]; split <;> exact nd
  | subscribe r t => simp only [step, subscribe]; split <;> (try exact nd); exact nodup_subscribeCore s r t nd
  | unsubscribe r t => simp only [step, unsubscribe]; split <;> (try exact nd); exact nodup_unsubscribeCore s r t nd
  | rClone r =>
    simp only [step, rClone]; split <;> (try exact nd); split
    · exact nodup_foldl_subscribeCore _ _ _ nd
    · exact nd
  | rClose r =>
    simp only [step, rClose]; split <;> (try exact nd); split <;> (try exact nd)
    exact nodup_rxCloseInternal _ _ nd
  | rDrop r =>
    simp only [step, rDrop]; split <;> (try exact nd)
    split
    · exact nd
    · exact nodup_rxCloseInternal _ _ nd
  | rConv r => simp only [step, rConv]; split <;> exact nd
  | tryRecv r => simp only [step, tryRecv, recvWith]; split <;> (try exact nd); split <;> (try exact nd); split <;> exact nd
  | recv r =>
    simp only [step, recv, recvWith]; split <;> (try exact nd)
    split <;> (split <;> (try exact nd); split <;> exact nd)
  | recvTimeout0 r =>
    simp only [step, recvTimeout0, recvWith]; split <;> (try exact nd)
    split <;> (try exact nd)
    split <;> (split <;> (try exact nd); split <;> exact nd)
  | pollNext r =>
    simp only [step, pollNext, recvWith]; split <;> (try exact nd)
    split <;> (try exact nd)
    split <;> (try exact nd); split <;> exact nd
  | rIsClosed r => simp only [step, rIsClosed]; split <;> exact nd
  | isEmpty r => simp only [step, isEmpty]; split <;> exact nd
  | capacity r => simp only [step, capacity]; split <;> exact nd

end Fv.Chan.Topic

namespace Fv.Chan.Topic

/-! ### buffers -/

/-- ops that are neither a publish nor a receive form -/
def Op.isQuiet : Op → Bool
  | .send .. | .tryRecv _ | .recv _ | .recvTimeout0 _ | .pollNext _ => false
  | _ => true

theorem bufL_senderCloseInternal (s : St) (r : Nat) : bufL (senderCloseInternal s).rxs r = bufL s.rxs r := by
  simp only [senderCloseInternal]; exact bufL_disconnectTo _ _ r

theorem bufL_sClose (s : St) (h : Nat) (r : Nat) : bufL (sClose s h).1.rxs r = bufL s.rxs r := by
  simp only [sClose]; split <;> (try rfl); split <;> (try rfl)
  exact bufL_senderCloseInternal _ r

/-- every other operation leaves every buffer as it is -/
theorem quiet_buf (s : St) (op : Op) (hq : op.isQuiet = true) (r : Nat) : bufOf (step s op).1 r = bufOf s r := by
  simp only [bufOf_eq]
  cases op with
  | send h t v => simp [Op.isQuiet] at hq
  | tryRecv q => simp [Op.isQuiet] at hq
  | recv q => simp [Op.isQuiet] at hq
  | recvTimeout0 q => simp [Op.isQuiet] at hq
  | pollNext q => simp [Op.isQuiet] at hq
  | sClone h => simp only [step, sClone]; split <;> (try rfl); split <;> rfl
  | sClose h => exact bufL_sClose s h r
  | sDrop h =>
    simp only [step, sDrop]; split <;> (try rfl)
    exact bufL_sClose s h r
  | sConv h => simp only [step, sConv]; split <;> rfl
  | sIsClosed h => simp only [step, sIsClosed]; split <;> rfl
  | subscribe q t => simp only [step, subscribe]; split <;> (try rfl); exact bufL_subscribeCore s q t r
  | unsubscribe q t => simp only [step, unsubscribe]; split <;> (try rfl); exact bufL_unsubscribeCore s q t r
  | rClone q =>
    simp only [step, rClone]; split <;> (try rfl); split
    · rw [bufL_foldl_subscribeCore]; exact bufL_append _ _ rfl r
    · exact bufL_append _ _ rfl r
  | rClose q =>
    simp only [step, rClose]; split <;> (try rfl); split <;> (try rfl)
    rw [bufL_rxCloseInternal]; apply bufL_modAt_preserve; intro x; rfl
  | rDrop q =>
    simp only [step, rDrop]; split <;> (try rfl)
    refine Eq.trans (bufL_modAt_preserve _ _ _ ?_ r) ?_
    · intro x; rfl
    split
    · rfl
    · rw [bufL_rxCloseInternal]; apply bufL_modAt_preserve; intro x; rfl
  | rConv q => simp only [step, rConv]; split <;> (try rfl); apply bufL_modAt_preserve; intro x; rfl
  | rIsClosed q => simp only [step, rIsClosed]; split <;> rfl
  | isEmpty q => simp only [step, isEmpty]; split <;> rfl
  | capacity q => simp only [step, capacity]; split <;> rfl

/-- the two outcomes of a publish -/
theorem send_cases (s : St) (h : Nat) (t : Topic) (v : Val) :
    (∃ x, txLive s h = some x ∧ x.closed = false ∧ s.rcount ≠ 0 ∧
        send s h t v = ({ s with rxs := deliverTo (t, v) s.rxs (subsOf s t) }, .ok)) ∨
    ((send s h t v).1 = s ∧ ((send s h t v).2 = .closed ∨ (send s h t v).2 = .invalid)) := by
  unfold send
  cases htx : txLive s h with
  | none => right; simp
  | some x =>
    by_cases hc : (x.closed || s.rcount == 0) = true
    · right; simp [hc]
    · left
      refine ⟨x, rfl, ?_, ?_, by simp [hc]⟩
      · simpa using (by simpa using hc : x.closed = false ∧ ¬ s.rcount = 0).1
      · exact (by simpa using hc : x.closed = false ∧ ¬ s.rcount = 0).2

/-- a publish: accepted ⇒ exactly the live, registered, non-full mailboxes get the message at the
back -/
theorem send_ok_buf (s : St) (h : Nat) (t : Topic) (v : Val) (nd : s.regs.Nodup) (r : Nat)
    (hok : (step s (.send h t v)).2 = .ok) :
    bufOf (step s (.send h t v)).1 r =
      if (t, r) ∈ s.regs ∧ isLive s.rxs r = true ∧ mailboxFull s r = false
      then bufOf s r ++ [(t, v)] else bufOf s r := by
  simp only [step] at hok ⊢
  rcases send_cases s h t v with ⟨x, _, _, _, he⟩ | ⟨_, h2⟩
  · rw [he]
    simp only [bufOf_eq]
    rw [bufL_deliverTo (t, v) s.rxs (subsOf s t) (nodup_subsOf s t nd) r]
    simp only [mem_subsOf]
    unfold bufL isLive mailboxFull
    cases s.rxs[r]? with
    | none => simp
    | some x => simp
  · rcases h2 with h2 | h2 <;> rw [h2] at hok <;> cases hok

/-- rejected ⇒ nothing changes -/
theorem send_not_ok (s : St) (h : Nat) (t : Topic) (v : Val) (hok : (step s (.send h t v)).2 ≠ .ok) :
    (step s (.send h t v)).1 = s := by
  simp only [step] at hok ⊢
  rcases send_cases s h t v with ⟨x, _, _, _, he⟩ | ⟨h1, _⟩
  · rw [he] at hok; exact absurd rfl hok
  · exact h1

/-- the four receive forms: a message result pops the head of that receiver's buffer, any other
result changes no buffer -/
theorem recvWith_spec (s : St) (r : Nat) (x : Rx) (d e : Res) (hx : s.rxs[r]? = some x)
    (hd : ∀ t v, d ≠ .msg t v) (he : ∀ t v, e ≠ .msg t v) :
    (∃ t v, (recvWith s r x d e).2 = .msg t v ∧ bufL s.rxs r = (t, v) :: bufL (recvWith s r x d e).1.rxs r ∧
        ∀ q, q ≠ r → bufL (recvWith s r x d e).1.rxs q = bufL s.rxs q) ∨
    ((∀ t v, (recvWith s r x d e).2 ≠ .msg t v) ∧ (recvWith s r x d e).1 = s) := by
  unfold recvWith
  split
  · rename_i t v rest hb
    left
    refine ⟨t, v, rfl, ?_, ?_⟩
    · simp [bufL, hx, hb, getElem?_modAt_self]
    · intro q hq; simp [bufL, getElem?_modAt_ne _ _ _ _ (Ne.symm hq)]
  · right
    split
    · exact ⟨hd, rfl⟩
    · exact ⟨he, rfl⟩

theorem recv_forms_buf (s : St) (op : Op) (r : Nat) (ht : recvTarget op = some r) :
    (∃ t v, (step s op).2 = .msg t v ∧ bufOf s r = (t, v) :: bufOf (step s op).1 r ∧
        ∀ q, q ≠ r → bufOf (step s op).1 q = bufOf s q) ∨
    ((∀ t v, (step s op).2 ≠ .msg t v) ∧ (step s op).1 = s) := by
  simp only [bufOf_eq]
  have key : ∀ (x : Rx) (d e : Res), rxLive s r = some x → (∀ t v, d ≠ .msg t v) → (∀ t v, e ≠ .msg t v) →
      ((∃ t v, (recvWith s r x d e).2 = .msg t v ∧ bufL s.rxs r = (t, v) :: bufL (recvWith s r x d e).1.rxs r ∧
        ∀ q, q ≠ r → bufL (recvWith s r x d e).1.rxs q = bufL s.rxs q) ∨
      ((∀ t v, (recvWith s r x d e).2 ≠ .msg t v) ∧ (recvWith s r x d e).1 = s)) := by
    intro x d e hx hd he
    apply recvWith_spec s r x d e _ hd he
    unfold rxLive at hx
    cases h : s.rxs[r]? with
    | none => simp [h] at hx
    | some y => simp only [h] at hx; split at hx <;> simp_all
  cases op with
  | tryRecv q =>
    simp only [recvTarget, Option.some.injEq] at ht; subst ht
    simp only [step, tryRecv]
    split
    · right; exact ⟨by simp, rfl⟩
    · rename_i x hx; exact key x _ _ hx (by simp) (by simp)
  | recv q =>
    simp only [recvTarget, Option.some.injEq] at ht; subst ht
    simp only [step, recv]
    split
    · right; exact ⟨by simp, rfl⟩
    · rename_i x hx
      split
      · exact key x _ _ hx (by simp) (by simp)
      · exact key x _ _ hx (by simp) (by simp)
  | recvTimeout0 q =>
    simp only [recvTarget, Option.some.injEq] at ht; subst ht
    simp only [step, recvTimeout0]
    split
    · right; exact ⟨by simp, rfl⟩
    · rename_i x hx
      split
      · right; exact ⟨by simp, rfl⟩
      · split
        · exact key x _ _ hx (by simp) (by simp)
        · exact key x _ _ hx (by simp) (by simp)
  | pollNext q =>
    simp only [recvTarget, Option.some.injEq] at ht; subst ht
    simp only [step, pollNext]
    split
    · right; exact ⟨by simp, rfl⟩
    · rename_i x hx
      split
      · right; exact ⟨by simp, rfl⟩
      · exact key x _ _ hx (by simp) (by simp)
  | _ => simp [recvTarget] at ht

end Fv.Chan.Topic
