import Fv.Lemmas.SyncRwWakeM
import Fv.Lemmas.SyncRwWakeM2
import Fv.Lemmas.SyncRwWakeM3
/-!
Wake invariant of the rwlock model: `PPk`, `PFl`, `PTw` are preserved (the conjuncts that speak
about reader nodes a waker has unlinked but not yet marked).
-/
namespace Fv.Sync.RwLock
open Fv.Sync
variable {cfg : Cfg} {s s' : State} {t : Tid} {l : Lbl}

theorem live_of_linked (hi : Inv s) {n : Nid} (hl : (s.wl.node n).linked = true) : Live s n := by
  cases n with
  | thr u => trivial
  | fut f => exact hi.futNode f hl

theorem rdL_notLL {pc : Pc} (h : rdL pc = true) (hn : inLL pc = false) : pc = .wLoad ∨ pc = .wPark := by
  cases pc with
  | llRel a => cases hn
  | qFetchOr => cases hn
  | qLoad => cases hn
  | qCas => cases hn
  | wLoad => exact Or.inl rfl
  | wPark => exact Or.inr rfl
  | _ => cases h

/-- a handle keeps designating the owner of a node for as long as the node is live -/
theorem targets_step (hi : Inv s) (hw : WInv s) (h : Step cfg s t l s') {w : Waiter} {n : Nid}
    (ht : Targets s w n) (hl : Live s n) (hl' : Live s' n) : Targets s' w n := by
  cases w with
  | thread u =>
    cases n with
    | thr u' => exact ht
    | fut f =>
      obtain ⟨hb, hc, hp⟩ := ht
      have hph : (s.fut f).phase = .startedNode := hl
      have hph' : (s'.fut f).phase = .startedNode := hl'
      have hbo : (s'.fut f).bo = true := by
        rcases step_bo h f with h1 | h1
        · rw [h1]; exact hb
        · rw [hph] at h1; cases h1
      by_cases hu : u = t
      · subst hu
        have hblk : (s.th u).blockOn = true := by rw [hw.boc u f hc hp]; exact hb
        rcases bo_poller_local hi h f hc hp hblk with ⟨h1, h2⟩ | h1
        · exact ⟨hbo, h1, h2⟩
        · exact absurd hph' h1
      · refine ⟨hbo, ?_, ?_⟩ <;> rw [step_th_other h u hu] <;> assumption
  | task g =>
    cases n with
    | thr u' => cases ht
    | fut f =>
      obtain ⟨he, hb⟩ := ht
      subst he
      have hph : (s.fut g).phase = .startedNode := hl
      refine ⟨rfl, ?_⟩
      rcases step_bo h g with h1 | h1
      · rw [h1]; exact hb
      · rw [hph] at h1; cases h1

/-- "queued, or marked, or about to be marked" is kept for a node the stepping thread does not own -/
theorem markcov_kept (h : Step cfg s t l s') {n : Nid} (hk : NodeKept s s' t n)
    (hc : (s.wl.node n).linked = true ∨ (s.wl.node n).woken = true ∨ MarkPending s n) :
    (s'.wl.node n).linked = true ∨ (s'.wl.node n).woken = true ∨ MarkPending s' n := by
  obtain ⟨-, k2, k3⟩ := hk
  have hwk : (s.wl.node n).woken = true → (s'.wl.node n).woken = true := by
    intro hw
    rcases k3 with ⟨-, k3⟩ | ⟨-, -, k3⟩
    · rw [k3]; exact hw
    · exact k3
  rcases hc with hl | hw | ⟨v, hv, htg⟩
  · rcases k2 with k2 | ⟨⟨-, hp', htg', -⟩, -⟩
    · left; rw [k2]; exact hl
    · right; right; exact ⟨t, hp', htg'⟩
  · right; left; exact hwk hw
  · by_cases hvt : v = t
    · subst hvt
      right; left
      have := (step_marks h (Or.inr hv)).1
      rw [htg] at this; exact this
    · right; right
      exact ⟨v, by rw [step_th_other h v hvt]; exact hv, by rw [step_th_other h v hvt]; exact htg⟩

theorem pk_step (hi : Inv s) (hw : WInv s) (h : Step cfg s t l s') : PPk s' := by
  intro u hp
  by_cases hu : u = t
  · subst hu
    rcases pk_local hi hw h hp with hl | ⟨hp0, hme, hnode⟩
    · exact Or.inl hl
    · rw [hme, hnode]
      rcases hw.pk u hp0 with h1 | h1 | ⟨v, hv, htg⟩
      · exact Or.inl h1
      · exact Or.inr (Or.inl h1)
      · have hvu : v ≠ u := by
          intro he; subst he; rw [hv] at hp0
          rcases hp0 with h0 | h0 | h0 <;> cases h0
        exact Or.inr (Or.inr ⟨v, by rw [step_th_other h v hvu]; exact hv,
          by rw [step_th_other h v hvu]; exact htg⟩)
  · rw [step_th_other h u hu] at hp ⊢
    have hown : (s.th u).cur = none ∨ futPc (s.th u).pc = true := by
      rcases hp with hp | hp | hp
      · exact Or.inl (hi.syncCur u (by rw [hp]; rfl))
      · exact Or.inl (hi.syncCur u (by rw [hp]; rfl))
      · exact Or.inr (by rw [hp]; rfl)
    exact markcov_kept h (node_other hi h hu hown) (hw.pk u hp)

theorem fl_step (hi : Inv s) (hw : WInv s) (h : Step cfg s t l s') : PFl s' := by
  intro f hph' hb'
  rcases fl_local hi hw h f hph' hb' with ⟨hph, hb, hop⟩ | hl
  · exact markcov_kept h (step_node_fut2 h (hi.syncCur t) (hi.asyncCur t) f hph hop) (hw.fl f hph hb)
  · exact Or.inl hl

theorem tw_step (hi : Inv s) (hw : WInv s) (h : Step cfg s t l s') : PTw s' := by
  have ho := step_th_other h
  intro v hp'
  by_cases hv : v = t
  · -- the stepping thread has just unlinked the head of the queue
    subst hv
    obtain ⟨hun, hfut, hwr0, hwt, hwk⟩ := tw_arrive hi h hp'
    obtain ⟨hh, -, -, hpc⟩ := hun
    generalize (s'.th v).tgt = n at hh hwt hwk ⊢
    have hl : (s.wl.node n).linked = true := (hi.wf.linked n).2 (List.mem_of_mem_head? hh)
    have hrd : (s.wl.node n).isWriter = false := hi.wf.head_reader hh hwr0
    have hnw : (s.wl.node n).woken = false := hi.nodeWoken n hl hrd
    have hnf : futPc (s.th v).pc = false ∧ slowL (s.th v).pc = false := by
      rcases hpc with h1 | ⟨h1, -⟩ <;> rw [h1] <;> exact ⟨rfl, rfl⟩
    have hnoLL : ∀ u, u ≠ v → inLL (s.th u).pc = false := by
      intro u hu
      cases hc : inLL (s.th u).pc with
      | false => rfl
      | true =>
        obtain ⟨hlocked, huniq⟩ := hi.ll u hc
        rcases hpc with h1 | ⟨-, h1, -⟩
        · exact absurd (huniq v (by rw [h1]; rfl)).symm hu
        · rw [hlocked] at h1; cases h1
    have hown' : TgtOwn s' n := by
      cases n with
      | thr u =>
        obtain ⟨hcu, hsl, hrl⟩ := hi.thrNode u hl
        have huv : u ≠ v := by intro he; subst he; rw [hnf.2] at hsl; cases hsl
        have hwr : (s.th u).wr = false := by rw [← hi.thrWr u hcu hsl]; exact hrd
        show (s'.th u).cur = none ∧ _
        rw [ho u huv]
        exact ⟨hcu, rdL_notLL (hrl hwr) (hnoLL u huv)⟩
      | fut f =>
        refine ⟨by rw [hfut]; exact hi.futNode f hl, ?_⟩
        intro d hc hpd
        by_cases hdv : d = v
        · subst hdv; rw [hp'] at hpd; cases hpd
        · rw [ho d hdv] at hc hpd
          have := hi.futUnl d f hc (by rw [hpd]; rfl)
          rw [hl] at this; cases this
    have hlive' : Live s' n := by
      cases n with
      | thr u => trivial
      | fut f => exact hown'.1
    refine ⟨by rw [hwk]; exact hnw, ?_, hown'⟩
    cases hwt0 : (s.wl.node n).waiter with
    | none => have := hw.w2 n hl hwt0; rw [hnw] at this; cases this
    | some w =>
      exact ⟨w, by rw [hwt, hwt0], targets_step hi hw h (hw.w1 n w hl hwt0) (live_of_linked hi hl) hlive'⟩
  · -- another waker sits at `wrStore` holding the list lock
    rw [ho v hv] at hp' ⊢
    obtain ⟨hlocked, hnt⟩ := not_inLL_of_other hi hv (by rw [hp']; rfl)
    obtain ⟨hnw, ⟨w, hwt, htg⟩, hown⟩ := hw.tw v hp'
    generalize (s.th v).tgt = n at hnw hwt htg hown ⊢
    obtain ⟨f1, f2, f3⟩ := frozen_local hi h hnt
    have hnode : s'.wl.node n = s.wl.node n := by
      rcases step_node_frozen hi h hlocked hnt n with h1 | ⟨h1, h2⟩ | ⟨f, h1, h2⟩
      · exact h1
      · subst h1
        obtain ⟨-, h3⟩ := hown
        rcases h2 with h2 | h2 <;> rw [h2] at h3 <;> rcases h3 with h3 | h3 <;> cases h3
      · subst h1; exact absurd hown.1 h2
    have hown' : TgtOwn s' n := by
      cases n with
      | thr u =>
        obtain ⟨hcu, hpu⟩ := hown
        by_cases hut : u = t
        · subst hut
          have hme : me u (s.th u) = .thr u := by simp [me, hcu]
          obtain ⟨g1, g2⟩ := f1 hpu (by rw [hme]; exact hnw)
          exact ⟨by rw [g2]; exact hcu, g1⟩
        · show (s'.th u).cur = none ∧ _
          rw [ho u hut]; exact ⟨hcu, hpu⟩
      | fut f =>
        obtain ⟨hph, hnd⟩ := hown
        refine ⟨f3 f hph (fun hpd hc => hnd t hc hpd), ?_⟩
        intro d hc hpd
        by_cases hdt : d = t
        · subst hdt
          obtain ⟨g1, g2⟩ := f2 hpd
          exact hnd d (by rw [← g2]; exact hc) g1
        · rw [ho d hdt] at hc hpd; exact hnd d hc hpd
    have hlive : Live s n := by
      cases n with
      | thr u => trivial
      | fut f => exact hown.1
    have hlive' : Live s' n := by
      cases n with
      | thr u => trivial
      | fut f => exact hown'.1
    exact ⟨by rw [hnode]; exact hnw, ⟨w, by rw [hnode]; exact hwt, targets_step hi hw h htg hlive hlive'⟩, hown'⟩

end Fv.Sync.RwLock
