import Fv.Lemmas.Mpmc2BSafeStep
/-! Wake-up invariants of the mpmc v2 B-model: definitions, helper lemmas, structural group `InvK`. -/
namespace Fv.Chan.Mpmc2B

/-- the waiter record an agent's control state refers to -/
def recOf : PC → Option Nat
  | .idle => none
  | .done _ => none
  | .sTry _ r => some r
  | .sReg _ r => some r
  | .sWait _ r => some r
  | .sPark _ r => some r
  | .sUnl _ r _ => some r
  | .tsTry _ => none
  | .rTry r => some r
  | .rReg r => some r
  | .rWait r => some r
  | .rPark r => some r
  | .rUnl r => some r
  | .trTry => none
  | .toTry r => some r
  | .toReg r => some r
  | .toRetry r => some r
  | .toCas r => some r
  | .toUnl r => some r
  | .toFin r => some r
  | .asNew _ r => some r
  | .asTry _ r => some r
  | .asReg _ r => some r
  | .asPend _ r => some r
  | .asUnl _ r _ => some r
  | .asRef _ r => some r
  | .fdUnlS _ r => some r
  | .arNew r => some r
  | .arTry r => some r
  | .arReg r => some r
  | .arPend r => some r
  | .arUnl r => some r
  | .fdUnlR r => some r
  | .hCloneS => none
  | .hCloneR => none
  | .hCloseS => none
  | .hCloseR => none
  | .hProbe => none
  | .hWake _ => none

/-- receiver control states in which the record may sit in a receiver queue in state WAITING (`arTry` / `arReg`:
a `RecvFuture` that was polled again while still registered) -/
def regAtR : PC → Option Nat
  | .idle => none
  | .done _ => none
  | .sTry _ _ => none
  | .sReg _ _ => none
  | .sWait _ _ => none
  | .sPark _ _ => none
  | .sUnl _ _ _ => none
  | .tsTry _ => none
  | .rTry _ => none
  | .rReg _ => none
  | .rWait r => some r
  | .rPark r => some r
  | .rUnl _ => none
  | .trTry => none
  | .toTry _ => none
  | .toReg _ => none
  | .toRetry _ => none
  | .toCas r => some r
  | .toUnl _ => none
  | .toFin _ => none
  | .asNew _ _ => none
  | .asTry _ _ => none
  | .asReg _ _ => none
  | .asPend _ _ => none
  | .asUnl _ _ _ => none
  | .asRef _ _ => none
  | .fdUnlS _ _ => none
  | .arNew _ => none
  | .arTry r => some r
  | .arReg r => some r
  | .arPend r => some r
  | .arUnl _ => none
  | .fdUnlR _ => none
  | .hCloneS => none
  | .hCloneR => none
  | .hCloseS => none
  | .hCloseR => none
  | .hProbe => none
  | .hWake _ => none

/-- receiver control states in which the record may be in `ar` (CASed to SUCCESS, `try_recv_core` not yet re-entered) -/
def wokenRecv : PC → Option Nat
  | .idle => none
  | .done _ => none
  | .sTry _ _ => none
  | .sReg _ _ => none
  | .sWait _ _ => none
  | .sPark _ _ => none
  | .sUnl _ _ _ => none
  | .tsTry _ => none
  | .rTry r => some r
  | .rReg _ => none
  | .rWait r => some r
  | .rPark r => some r
  | .rUnl _ => none
  | .trTry => none
  | .toTry _ => none
  | .toReg _ => none
  | .toRetry _ => none
  | .toCas r => some r
  | .toUnl _ => none
  | .toFin r => some r
  | .asNew _ _ => none
  | .asTry _ _ => none
  | .asReg _ _ => none
  | .asPend _ _ => none
  | .asUnl _ _ _ => none
  | .asRef _ _ => none
  | .fdUnlS _ _ => none
  | .arNew _ => none
  | .arTry r => some r
  | .arReg r => some r
  | .arPend r => some r
  | .arUnl _ => none
  | .fdUnlR _ => none
  | .hCloneS => none
  | .hCloneR => none
  | .hCloseS => none
  | .hCloseR => none
  | .hProbe => none
  | .hWake _ => none

/-- sender control states in which the record may sit in a sender queue in state WAITING -/
def regAtS : PC → Option Nat
  | .idle => none
  | .done _ => none
  | .sTry _ _ => none
  | .sReg _ _ => none
  | .sWait _ r => some r
  | .sPark _ r => some r
  | .sUnl _ _ _ => none
  | .tsTry _ => none
  | .rTry _ => none
  | .rReg _ => none
  | .rWait _ => none
  | .rPark _ => none
  | .rUnl _ => none
  | .trTry => none
  | .toTry _ => none
  | .toReg _ => none
  | .toRetry _ => none
  | .toCas _ => none
  | .toUnl _ => none
  | .toFin _ => none
  | .asNew _ _ => none
  | .asTry _ _ => none
  | .asReg _ _ => none
  | .asPend _ r => some r
  | .asUnl _ _ _ => none
  | .asRef _ r => some r
  | .fdUnlS _ _ => none
  | .arNew _ => none
  | .arTry _ => none
  | .arReg _ => none
  | .arPend _ => none
  | .arUnl _ => none
  | .fdUnlR _ => none
  | .hCloneS => none
  | .hCloneR => none
  | .hCloseS => none
  | .hCloseR => none
  | .hProbe => none
  | .hWake _ => none

/-- sender control states in which the record may be in `asg` -/
def wokenSend : PC → Option Nat
  | .idle => none
  | .done _ => none
  | .sTry _ r => some r
  | .sReg _ _ => none
  | .sWait _ r => some r
  | .sPark _ r => some r
  | .sUnl _ r _ => some r
  | .tsTry _ => none
  | .rTry _ => none
  | .rReg _ => none
  | .rWait _ => none
  | .rPark _ => none
  | .rUnl _ => none
  | .trTry => none
  | .toTry _ => none
  | .toReg _ => none
  | .toRetry _ => none
  | .toCas _ => none
  | .toUnl _ => none
  | .toFin _ => none
  | .asNew _ _ => none
  | .asTry _ r => some r
  | .asReg _ _ => none
  | .asPend _ r => some r
  | .asUnl _ r _ => some r
  | .asRef _ r => some r
  | .fdUnlS _ _ => none
  | .arNew _ => none
  | .arTry _ => none
  | .arReg _ => none
  | .arPend _ => none
  | .arUnl _ => none
  | .fdUnlR _ => none
  | .hCloneS => none
  | .hCloneR => none
  | .hCloseS => none
  | .hCloseR => none
  | .hProbe => none
  | .hWake _ => none

/-- a `RecvFuture` that was never polled: its record is not in the queue -/
def unregA : PC → Option Nat
  | .idle => none
  | .done _ => none
  | .sTry _ _ => none
  | .sReg _ _ => none
  | .sWait _ _ => none
  | .sPark _ _ => none
  | .sUnl _ _ _ => none
  | .tsTry _ => none
  | .rTry _ => none
  | .rReg _ => none
  | .rWait _ => none
  | .rPark _ => none
  | .rUnl _ => none
  | .trTry => none
  | .toTry _ => none
  | .toReg _ => none
  | .toRetry _ => none
  | .toCas _ => none
  | .toUnl _ => none
  | .toFin _ => none
  | .asNew _ _ => none
  | .asTry _ _ => none
  | .asReg _ _ => none
  | .asPend _ _ => none
  | .asUnl _ _ _ => none
  | .asRef _ _ => none
  | .fdUnlS _ _ => none
  | .arNew r => some r
  | .arTry _ => none
  | .arReg _ => none
  | .arPend _ => none
  | .arUnl _ => none
  | .fdUnlR _ => none
  | .hCloneS => none
  | .hCloneR => none
  | .hCloseS => none
  | .hCloseR => none
  | .hProbe => none
  | .hWake _ => none

/-- control states from which the agent blocks / returns Pending without re-reading its state byte -/
def waitish : PC → Option Nat
  | .idle => none
  | .done _ => none
  | .sTry _ _ => none
  | .sReg _ _ => none
  | .sWait _ _ => none
  | .sPark _ r => some r
  | .sUnl _ _ _ => none
  | .tsTry _ => none
  | .rTry _ => none
  | .rReg _ => none
  | .rWait _ => none
  | .rPark r => some r
  | .rUnl _ => none
  | .trTry => none
  | .toTry _ => none
  | .toReg _ => none
  | .toRetry _ => none
  | .toCas _ => none
  | .toUnl _ => none
  | .toFin _ => none
  | .asNew _ _ => none
  | .asTry _ _ => none
  | .asReg _ _ => none
  | .asPend _ r => some r
  | .asUnl _ _ _ => none
  | .asRef _ r => some r
  | .fdUnlS _ _ => none
  | .arNew _ => none
  | .arTry _ => none
  | .arReg _ => none
  | .arPend r => some r
  | .arUnl _ => none
  | .fdUnlR _ => none
  | .hCloneS => none
  | .hCloneR => none
  | .hCloseS => none
  | .hCloseR => none
  | .hProbe => none
  | .hWake _ => none

/-- deferred wakes a closing agent still has to deliver -/
def wl : PC → List Nat
  | .idle => []
  | .done _ => []
  | .sTry _ _ => []
  | .sReg _ _ => []
  | .sWait _ _ => []
  | .sPark _ _ => []
  | .sUnl _ _ _ => []
  | .tsTry _ => []
  | .rTry _ => []
  | .rReg _ => []
  | .rWait _ => []
  | .rPark _ => []
  | .rUnl _ => []
  | .trTry => []
  | .toTry _ => []
  | .toReg _ => []
  | .toRetry _ => []
  | .toCas _ => []
  | .toUnl _ => []
  | .toFin _ => []
  | .asNew _ _ => []
  | .asTry _ _ => []
  | .asReg _ _ => []
  | .asPend _ _ => []
  | .asUnl _ _ _ => []
  | .asRef _ _ => []
  | .fdUnlS _ _ => []
  | .arNew _ => []
  | .arTry _ => []
  | .arReg _ => []
  | .arPend _ => []
  | .arUnl _ => []
  | .fdUnlR _ => []
  | .hCloneS => []
  | .hCloneR => []
  | .hCloseS => []
  | .hCloseR => []
  | .hProbe => []
  | .hWake ws => ws

/-- the control state belongs to a send-side operation -/
def sendSide : PC → Bool
  | .idle => false
  | .done _ => false
  | .sTry _ _ => true
  | .sReg _ _ => true
  | .sWait _ _ => true
  | .sPark _ _ => true
  | .sUnl _ _ _ => true
  | .tsTry _ => true
  | .rTry _ => false
  | .rReg _ => false
  | .rWait _ => false
  | .rPark _ => false
  | .rUnl _ => false
  | .trTry => false
  | .toTry _ => false
  | .toReg _ => false
  | .toRetry _ => false
  | .toCas _ => false
  | .toUnl _ => false
  | .toFin _ => false
  | .asNew _ _ => true
  | .asTry _ _ => true
  | .asReg _ _ => true
  | .asPend _ _ => true
  | .asUnl _ _ _ => true
  | .asRef _ _ => true
  | .fdUnlS _ _ => true
  | .arNew _ => false
  | .arTry _ => false
  | .arReg _ => false
  | .arPend _ => false
  | .arUnl _ => false
  | .fdUnlR _ => false
  | .hCloneS => false
  | .hCloneR => false
  | .hCloseS => false
  | .hCloseR => false
  | .hProbe => false
  | .hWake _ => false

/-- a `RecvFuture`'s control states up to completion -/
def recvFutRec : PC → Option Nat
  | .idle => none
  | .done _ => none
  | .sTry _ _ => none
  | .sReg _ _ => none
  | .sWait _ _ => none
  | .sPark _ _ => none
  | .sUnl _ _ _ => none
  | .tsTry _ => none
  | .rTry _ => none
  | .rReg _ => none
  | .rWait _ => none
  | .rPark _ => none
  | .rUnl _ => none
  | .trTry => none
  | .toTry _ => none
  | .toReg _ => none
  | .toRetry _ => none
  | .toCas _ => none
  | .toUnl _ => none
  | .toFin _ => none
  | .asNew _ _ => none
  | .asTry _ _ => none
  | .asReg _ _ => none
  | .asPend _ _ => none
  | .asUnl _ _ _ => none
  | .asRef _ _ => none
  | .fdUnlS _ _ => none
  | .arNew r => some r
  | .arTry r => some r
  | .arReg r => some r
  | .arPend r => some r
  | .arUnl _ => none
  | .fdUnlR _ => none
  | .hCloneS => none
  | .hCloneR => none
  | .hCloseS => none
  | .hCloseR => none
  | .hProbe => none
  | .hWake _ => none

theorem recvFutRec_recOf {p : PC} {r : Nat} (h : recvFutRec p = some r) : recOf p = some r := by
  cases p <;> simp_all [recvFutRec, recOf]

theorem regAtR_recOf {p : PC} {r : Nat} (h : regAtR p = some r) : recOf p = some r := by
  cases p <;> simp_all [regAtR, recOf]

theorem wokenRecv_recOf {p : PC} {r : Nat} (h : wokenRecv p = some r) : recOf p = some r := by
  cases p <;> simp_all [wokenRecv, recOf]

theorem regAtS_recOf {p : PC} {r : Nat} (h : regAtS p = some r) : recOf p = some r := by
  cases p <;> simp_all [regAtS, recOf]

theorem wokenSend_recOf {p : PC} {r : Nat} (h : wokenSend p = some r) : recOf p = some r := by
  cases p <;> simp_all [wokenSend, recOf]

theorem unregA_recOf {p : PC} {r : Nat} (h : unregA p = some r) : recOf p = some r := by
  cases p <;> simp_all [unregA, recOf]

theorem waitish_recOf {p : PC} {r : Nat} (h : waitish p = some r) : recOf p = some r := by
  cases p <;> simp_all [waitish, recOf]

theorem regAtR_woken {p : PC} {r : Nat} (h : regAtR p = some r) : wokenRecv p = some r := by
  cases p <;> simp_all [regAtR, wokenRecv]

theorem regAtS_woken {p : PC} {r : Nat} (h : regAtS p = some r) : wokenSend p = some r := by
  cases p <;> simp_all [regAtS, wokenSend]

theorem wokenRecv_side {p : PC} {r : Nat} (h : wokenRecv p = some r) : sendSide p = false := by
  cases p <;> simp_all [wokenRecv, sendSide]

theorem wokenSend_side {p : PC} {r : Nat} (h : wokenSend p = some r) : sendSide p = true := by
  cases p <;> simp_all [wokenSend, sendSide]

theorem firstW_some {st : Nat → WS} {q : List Nat} {r : Nat} (h : firstW st q = some r) : r ∈ q ∧ st r = .waiting := by
  unfold firstW at h
  exact ⟨List.mem_of_find?_eq_some h, by simpa using List.find?_some h⟩

theorem firstW_none {st : Nat → WS} {q : List Nat} (h : firstW st q = none) : ∀ r, r ∈ q → st r ≠ .waiting := by
  unfold firstW at h
  rw [List.find?_eq_none] at h
  intro r hr; simpa using h r hr

theorem firstW_none' {st : Nat → WS} {q : List Nat} {r : Nat} (h : firstW st q = none) (hr : r ∈ q) : st r ≠ .waiting :=
  firstW_none h r hr

theorem frontW_some {st : Nat → WS} {q : List Nat} {r : Nat} (h : frontW st q = some r) : r ∈ q ∧ st r = .waiting := by
  unfold frontW at h
  split at h
  · split at h <;> simp at h
    subst h; simp_all
  · simp at h

theorem nodup_filter {l : List Nat} (p : Nat → Bool) (h : l.Nodup) : (l.filter p).Nodup :=
  List.Nodup.sublist List.filter_sublist h

theorem length_erase_ge (l : List Nat) (a : Nat) : l.length ≤ (l.erase a).length + 1 := by
  rw [List.length_erase]; split <;> omega

theorem sendCore_none {s : State} {v : Nat} (h : sendCore s v = none) : ¬ s.queue.length < s.cap := by
  unfold sendCore at h
  repeat' split at h
  all_goals (first | (simp at h; done) | omega)

theorem recvCore_none {s : State} (h : recvCore s = none) : s.queue = [] := by
  unfold recvCore at h
  split at h
  · assumption
  · repeat' split at h
    all_goals simp at h

/-- structural group (holds on every reachable state) -/
structure InvK (s : State) : Prop where
  owner : ∀ t r, recOf (s.pc t) = some r → s.owner r = t ∧ r < s.nextRec ∧ s.kind r = sendSide (s.pc t)
  lt_wss : ∀ r, r ∈ s.wss → r < s.nextRec ∧ s.kind r = true
  lt_was : ∀ r, r ∈ s.was → r < s.nextRec ∧ s.kind r = true
  lt_wsr : ∀ r, r ∈ s.wsr → r < s.nextRec ∧ s.kind r = false
  lt_war : ∀ r, r ∈ s.war → r < s.nextRec ∧ s.kind r = false
  nd_war : s.war.Nodup
  succ_war : ∀ r, r ∈ s.war → s.st r ≠ .success
  not_canc : ∀ t r, recvFutRec (s.pc t) = some r → s.st r ≠ .cancelled

theorem invK_init (cap : Nat) : InvK (init cap) := by
  constructor <;> simp [init, recOf, recvFutRec]

set_option hygiene false in
/-- after a step function has been split into its branches: opens the `sendCore` / `recvCore`
result of the branch, if there is one (substituting the concrete post-state). -/
macro "wk_open" : tactic => `(tactic| (
  all_goals (try (have hsn := sendCore_none ‹sendCore _ _ = none›))
  all_goals (try (have hrn := recvCore_none ‹recvCore _ = none›))
  all_goals (try (have hsc := ‹sendCore _ _ = some _›; unfold sendCore at hsc; repeat' split at hsc
                  all_goals (simp at hsc; try subst hsc)))
  all_goals (try (have hrc := ‹recvCore _ = some _›; unfold recvCore at hrc; repeat' split at hrc
                  all_goals (simp at hrc; try (obtain ⟨hv, hs1⟩ := hrc; subst hv; subst hs1))))))

/-- proves every clause of an invariant structure by `grind` -/
macro "wk_fin" : tactic => `(tactic| (constructor <;> (simp only []; grind)))

macro "wk_close" : tactic => `(tactic| (wk_open; all_goals wk_fin))

end Fv.Chan.Mpmc2B
