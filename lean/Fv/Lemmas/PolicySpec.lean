import Fv.Lemmas.PolicyList
import Fv.Cache.Policy.Lru
import Fv.Cache.Policy.Fifo
import Fv.Cache.Policy.Sieve
import Fv.Cache.Policy.Clock
import Fv.Cache.Policy.Random
import Fv.Cache.Policy.Slru
import Fv.Cache.Policy.Arc
import Fv.Cache.Policy.TinyLfu
/-!
# Specification vocabulary for C14

For every policy `P`: the list of tracked (evictable) `(key, cost)` pairs `P.tracked`, the
inductive invariant `P.Inv`, and the history semantics `P.run : List Op → State` (a left fold of
`P.step` from `P.init`). Also the history-only notions of recency used by the order theorems.
-/
namespace Fv.Cache.Policy

/-- One call of the `CachePolicy` trait. `picks` is the victim sequence chosen by the random
number generator; only the Random policy looks at it (an inadmissible `picks` leaves the state
unchanged, i.e. it is not a possible run of the code). -/
inductive Op where
  | admit (k c : Nat)
  | access (k c : Nat)
  | remove (k : Nat)
  | evict (n : Nat) (picks : List Nat)
  | clear
deriving Repr, DecidableEq

/-- `op` is an admit or access of `k` -/
def Op.touches : Op → Nat → Bool
  | .admit k _, x => k == x
  | .access k _, x => k == x
  | _, _ => false

/-- 1-based position of the last admit/access of `k` in the history `ops`; `0` if there is none.
Depends on the history only, not on any policy state. -/
def lastUse (ops : List Op) (k : Nat) : Nat :=
  ops.length - ops.reverse.findIdx (fun op => op.touches k)

namespace Lru
def tracked (s : State) : List (Nat × Nat) := s.items
def Inv (s : State) : Prop := LruList.WF s
def step (s : State) : Op → State
  | .admit k c => (admit s k c).1
  | .access k c => access s k c
  | .remove k => remove s k
  | .evict n _ => (evict s n).1
  | .clear => clear s
def run (ops : List Op) : State := ops.foldl step init
end Lru

namespace Fifo
def tracked (s : State) : List (Nat × Nat) := s.items
def Inv (s : State) : Prop := LruList.WF s
def step (s : State) : Op → State
  | .admit k c => (admit s k c).1
  | .access k c => access s k c
  | .remove k => remove s k
  | .evict n _ => (evict s n).1
  | .clear => clear s
def run (ops : List Op) : State := ops.foldl step init

/-- History semantics instrumented with a ghost clock and, per key, the time of the admission
that inserted it (an `admit` of a key that is already tracked does not refresh it). -/
def stepT (x : State × (Nat → Nat) × Nat) (op : Op) : State × (Nat → Nat) × Nat :=
  (step x.1 op,
   (match op with
    | .admit k _ => if x.1.contains k then x.2.1 else fun y => if y = k then x.2.2 + 1 else x.2.1 y
    | _ => x.2.1),
   x.2.2 + 1)
def runT (ops : List Op) : State × (Nat → Nat) × Nat := ops.foldl stepT (init, fun _ => 0, 0)
/-- time (1-based op index) at which the currently tracked incarnation of `k` was inserted -/
def insertedAt (ops : List Op) (k : Nat) : Nat := (runT ops).2.1 k
end Fifo

namespace Random
def tracked (s : State) : List (Nat × Nat) := s.items
def Inv (s : State) : Prop := (keys s.items).Nodup
def step (s : State) : Op → State
  | .admit k c => (admit s k c).1
  | .access k c => access s k c
  | .remove k => remove s k
  | .evict n picks => match evictWith s n picks 0 with
    | some (s', _) => s'
    | none => s
  | .clear => clear s
def run (ops : List Op) : State := ops.foldl step init
end Random

namespace Sieve
def pair (e : Ent) : Nat × Nat := (e.key, e.cost)
def tracked (s : State) : List (Nat × Nat) := s.order.map pair
def Inv (s : State) : Prop := (keys (tracked s)).Nodup
def step (s : State) : Op → State
  | .admit k c => (admit s k c).1
  | .access k c => access s k c
  | .remove k => remove s k
  | .evict n _ => (evict s n).1
  | .clear => clear s
def run (ops : List Op) : State := ops.foldl step init
end Sieve

namespace Clock
def pair (e : Ent) : Nat × Nat := (e.key, e.cost)
def tracked (s : State) : List (Nat × Nat) := s.order.map pair
def Inv (s : State) : Prop := (keys (tracked s)).Nodup
def step (s : State) : Op → State
  | .admit k c => (admit s k c).1
  | .access k c => access s k c
  | .remove k => remove s k
  | .evict n _ => (evict s n).1
  | .clear => clear s
def run (ops : List Op) : State := ops.foldl step init
end Clock

namespace Slru
/-- probationary then protected segment -/
def tracked (s : State) : List (Nat × Nat) := s.prob.items ++ s.prot.items
/-- both segments well-formed and no key in both -/
def Inv (s : State) : Prop :=
  s.prob.WF ∧ s.prot.WF ∧ ∀ x, x ∈ keys s.prob.items → x ∉ keys s.prot.items
def step (protCap : Nat) (s : State) : Op → State
  | .admit k c => (admit s k c).1
  | .access k c => access s k c protCap
  | .remove k => remove s k
  | .evict n _ => (evict s n protCap).1
  | .clear => clear s
def run (protCap : Nat) (ops : List Op) : State := ops.foldl (step protCap) init
end Slru

namespace Arc
/-- the resident lists T1, T2; the ghost lists B1, B2 hold keys that are NOT resident -/
def tracked (s : State) : List (Nat × Nat) := s.t1.items ++ s.t2.items
/-- T1, T2 well-formed and no key in both (nothing is required of the ghost lists) -/
def Inv (s : State) : Prop :=
  s.t1.WF ∧ s.t2.WF ∧ ∀ x, x ∈ keys s.t1.items → x ∉ keys s.t2.items
def step (cap : Nat) (s : State) : Op → State
  | .admit k c => (admit s k c cap).1
  | .access k c => access s k c
  | .remove k => remove s k
  | .evict n _ => (evict s n cap).1
  | .clear => clear s
def run (cap : Nat) (ops : List Op) : State := ops.foldl (step cap) init
end Arc

namespace TinyLfu
/-- admission window, then the main SLRU -/
def tracked (s : State) : List (Nat × Nat) := s.window.items ++ Slru.tracked s.main
/-- window and main SLRU well-formed and no key in both -/
def Inv (s : State) : Prop :=
  s.window.WF ∧ Slru.Inv s.main ∧ ∀ x, x ∈ keys s.window.items → x ∉ keys (Slru.tracked s.main)
def step (cfg : Cfg) (s : State) : Op → State
  | .admit k c => (admit s cfg k c).1
  | .access k c => access s cfg k c
  | .remove k => remove s k
  | .evict n _ => (evict s cfg n).1
  | .clear => clear s
def run (cfg : Cfg) (ops : List Op) : State := ops.foldl (step cfg) (init cfg)
end TinyLfu

/-! ### generic facts about histories -/

theorem foldl_snoc {σ α} (f : σ → α → σ) (i : σ) (l : List α) (a : α) :
    (l ++ [a]).foldl f i = f (l.foldl f i) a := by simp

/-- induction on histories from the oldest op: a fact holds after every history if it holds
initially and every op preserves it -/
theorem snoc_induction {α} {P : List α → Prop} (nil : P []) (snoc : ∀ l a, P l → P (l ++ [a])) :
    ∀ l, P l := by
  intro l
  have : ∀ r : List α, P r.reverse := by
    intro r
    induction r with
    | nil => exact nil
    | cons a r ih => simpa using snoc _ a ih
  simpa using this l.reverse

theorem foldl_inv {σ α} (f : σ → α → σ) (I : σ → Prop) (hstep : ∀ s a, I s → I (f s a)) :
    ∀ (l : List α) (i : σ), I i → I (l.foldl f i) := by
  intro l
  induction l with
  | nil => intro i h; exact h
  | cons a l ih => intro i h; exact ih _ (hstep _ _ h)

@[simp] theorem lastUse_nil (k) : lastUse [] k = 0 := by simp [lastUse]

theorem lastUse_snoc (ops : List Op) (op : Op) (k) :
    lastUse (ops ++ [op]) k = if op.touches k then ops.length + 1 else lastUse ops k := by
  simp only [lastUse, List.reverse_append, List.reverse_cons, List.reverse_nil, List.nil_append,
    List.singleton_append, List.findIdx_cons, List.length_append, List.length_cons, List.length_nil]
  cases op.touches k <;> simp

theorem lastUse_le (ops : List Op) (k) : lastUse ops k ≤ ops.length := by
  simp [lastUse]

/-- A key that is not tracked can only become tracked again through an `admit` of that key. -/
theorem retracked_only_by_admit {σ} (step : σ → Op → σ) (tr : σ → List (Nat × Nat)) (I : σ → Prop)
    (hI : ∀ s op, I s → I (step s op))
    (hstep : ∀ s op x, I s → x ∈ keys (tr (step s op)) → x ∈ keys (tr s) ∨ ∃ c, op = .admit x c)
    {k : Nat} : ∀ (ops : List Op) {s : σ}, I s → k ∉ keys (tr s) →
      k ∈ keys (tr (ops.foldl step s)) → ∃ c, Op.admit k c ∈ ops := by
  intro ops
  induction ops with
  | nil => intro s _ hk hin; exact absurd hin hk
  | cons op ops ih =>
    intro s hs hk hin
    by_cases hk' : k ∈ keys (tr (step s op))
    · rcases hstep s op k hs hk' with h | ⟨c, rfl⟩
      · exact absurd h hk
      · exact ⟨c, by simp⟩
    · obtain ⟨c, hc⟩ := ih (hI s op hs) hk' hin
      exact ⟨c, List.mem_cons_of_mem _ hc⟩

theorem AdmitOk.mem_keys_imp {t t' : List (Nat × Nat)} {k : Nat} {v : List Nat} (h : AdmitOk t t' k v)
    {x : Nat} (hx : x ∈ keys t') : x ∈ keys t ∨ x = k := by
  by_cases hxk : x = k
  · exact Or.inr hxk
  · obtain ⟨c, hc⟩ := mem_keys.1 hx
    exact Or.inl (mem_keys_of_mem ((h.others (x, c) hxk).1 hc).1)

theorem RemoveOk.mem_keys_imp {t t' : List (Nat × Nat)} {k : Nat} (h : RemoveOk t t' k)
    {x : Nat} (hx : x ∈ keys t') : x ∈ keys t := by
  obtain ⟨c, hc⟩ := mem_keys.1 hx
  exact mem_keys_of_mem ((h (x, c)).1 hc).1

theorem EvictSound.mem_keys_imp {t t' : List (Nat × Nat)} {vs : List Nat} {f : Nat}
    (h : EvictSound t t' vs f) {x : Nat} (hx : x ∈ keys t') : x ∈ keys t := by
  obtain ⟨c, hc⟩ := mem_keys.1 hx
  exact mem_keys_of_mem ((h.kept (x, c)).1 hc).1

/-- assembling the per-op facts into "only `admit x` can start tracking `x`" -/
theorem tracks_only_on_admit_of {t : List (Nat × Nat)} {op : Op} {t' : List (Nat × Nat)} {x : Nat}
    (hadmit : ∀ k c, op = .admit k c → ∃ v, AdmitOk t t' k v)
    (haccess : ∀ k c, op = .access k c → AccessOk t t' k)
    (hremove : ∀ k, op = .remove k → RemoveOk t t' k)
    (hevict : ∀ n p, op = .evict n p → ∃ vs f, EvictSound t t' vs f ∨ t' = t)
    (hclear : op = .clear → t' = [])
    (hx : x ∈ keys t') : x ∈ keys t ∨ ∃ c, op = .admit x c := by
  cases op with
  | admit k c =>
    obtain ⟨v, hv⟩ := hadmit k c rfl
    rcases hv.mem_keys_imp hx with h | rfl
    · exact Or.inl h
    · exact Or.inr ⟨c, rfl⟩
  | access k c => exact Or.inl (((haccess k c rfl).mem_keys x).1 hx)
  | remove k => exact Or.inl ((hremove k rfl).mem_keys_imp hx)
  | evict n p =>
    obtain ⟨vs, f, h | h⟩ := hevict n p rfl
    · exact Or.inl (h.mem_keys_imp hx)
    · rw [h] at hx; exact Or.inl hx
  | clear => rw [hclear rfl] at hx; simp at hx

end Fv.Cache.Policy
