import Fv.Lemmas.TopicGhost
import Fv.Lemmas.TopicRouteStep
/-! Exactness: as long as `subscribe` is not called on a closed handle, the publishes that entered a
mailbox are exactly those made while the receiver was subscribed to the topic and its mailbox was
not full. -/
namespace Fv.Chan.Topic

/-- the publishes the statement owes to receiver `r` -/
def owed (pubs : List Pub) (r : Nat) : List Nat :=
  (List.range pubs.length).filter (fun i =>
    match pubs[i]? with
    | some p => p.subscribed r && !p.full r
    | none => false)

theorem owed_append (pubs : List Pub) (p : Pub) (r : Nat) :
    owed (pubs ++ [p]) r = owed pubs r ++ (if (p.subscribed r && !p.full r) = true then [pubs.length] else []) := by
  unfold owed
  simp only [List.length_append, List.length_cons, List.length_nil, List.range_succ, List.filter_append]
  congr 1
  · apply List.filter_congr
    intro i hi
    have : i < pubs.length := by simpa using hi
    rw [List.getElem?_append_left this]
  · simp only [List.filter_cons, List.filter_nil, List.getElem?_concat_length]

theorem gnext_st (g : TopicSpec) (op : Op) (s' : St) (res : Res) : (gnext g op s' res).st = s' := by
  unfold gnext
  split
  · rfl
  · split <;> rfl
  · rfl

theorem gnext_send_ok (g : TopicSpec) (h : Nat) (t : Topic) (v : Val) (s' : St) :
    gnext g (.send h t v) s' .ok =
      { st := s',
        pubs := g.pubs ++ [{ t := t, v := v, subscribed := fun r => subscribedTo g.st r t,
                             full := fun r => mailboxFull g.st r }],
        acc := fun r => if (bufOf s' r).length = (bufOf g.st r).length + 1 then g.acc r ++ [g.pubs.length] else g.acc r,
        got := g.got } := rfl

theorem gnext_no_publish (g : TopicSpec) (op : Op) (s' : St) (res : Res)
    (h : ∀ h t v, op = .send h t v → res ≠ .ok) :
    (gnext g op s' res).pubs = g.pubs ∧ (gnext g op s' res).acc = g.acc := by
  unfold gnext
  split
  · rename_i h' t v; exact absurd rfl (h h' t v rfl)
  · split <;> exact ⟨rfl, rfl⟩
  · exact ⟨rfl, rfl⟩

/-- under the routing invariant and a reachable dispatcher, "in the topic list and alive" is
"subscribed" in the sense of the API contract -/
theorem routed_iff (s : St) (hri : RI True s) (hd : dispAlive s = true) (t : Topic) (r : Nat) :
    ((t, r) ∈ s.regs ∧ isLive s.rxs r = true) ↔ subscribedTo s r t = true := by
  constructor
  · rintro ⟨hm, hl⟩
    have hlt := hri.inRange t r hm
    obtain ⟨x, hx⟩ : ∃ x, s.rxs[r]? = some x := ⟨s.rxs[r], List.getElem?_eq_getElem hlt⟩
    rw [isLive_of_get _ _ _ hx] at hl
    obtain ⟨_, b, c, _⟩ := hri.ok r x hx hl
    obtain ⟨c1, c2⟩ := c hd t hm
    have hcl : x.closed = false := by
      cases hcl : x.closed with
      | false => rfl
      | true => have := b trivial hd hcl; rw [this] at c1; simp at c1
    simp [subscribedTo, hx, hl, hcl, c1]
  · intro hs
    unfold subscribedTo at hs
    cases hx : s.rxs[r]? with
    | none => simp [hx] at hs
    | some x =>
      simp only [hx, Bool.and_eq_true, Bool.not_eq_eq_eq_not, Bool.not_true, List.contains_iff_mem] at hs
      obtain ⟨⟨hl, _⟩, hm⟩ := hs
      obtain ⟨a, _, _, d⟩ := hri.ok r x hx hl
      have hh : x.hasDisp = true := by
        cases hh : x.hasDisp with
        | true => rfl
        | false => rw [a hh] at hd; cases hd
      exact ⟨d hh hd t hm, by rw [isLive_of_get _ _ _ hx]; exact hl⟩

structure EI (g : TopicSpec) : Prop where
  gi : GI g
  ri : RI True g.st
  exact : ∀ r, g.acc r = owed g.pubs r

theorem EI_ginit (cap : Nat) (k : Kind) : EI (ginit cap k) :=
  ⟨GI_ginit cap k, RI_init cap k True, fun r => by simp [ginit, owed]⟩

theorem EI_gstep (g : TopicSpec) (op : Op) (hop : OkSub g.st op) (hg : EI g) : EI (gstep g op).1 := by
  refine ⟨GI_gstep g op hg.gi, ?_, ?_⟩
  · show RI True (gnext g op (step g.st op).1 (step g.st op).2).st
    rw [gnext_st]; exact RI_step g.st op (fun _ => hop) hg.ri
  · show ∀ r, (gnext g op (step g.st op).1 (step g.st op).2).acc r = owed (gnext g op (step g.st op).1 (step g.st op).2).pubs r
    by_cases hpub : ∃ h t v, op = .send h t v ∧ (step g.st op).2 = .ok
    · obtain ⟨h, t, v, rfl, hok⟩ := hpub
      rw [hok, gnext_send_ok]
      intro r
      simp only []
      rw [owed_append, ← hg.exact r]
      have hb := send_ok_buf g.st h t v hg.gi.nd r hok
      have hd : dispAlive g.st = true := by
        simp only [step] at hok
        rcases send_cases g.st h t v with ⟨x, hx, _, _, _⟩ | ⟨_, h2⟩
        · exact dispAlive_of_txLive g.st h x hx
        · rcases h2 with h2 | h2 <;> rw [h2] at hok <;> cases hok
      have hiff := routed_iff g.st hg.ri hd t r
      by_cases hc : (t, r) ∈ g.st.regs ∧ isLive g.st.rxs r = true ∧ mailboxFull g.st r = false
      · rw [if_pos hc] at hb
        have h1 : subscribedTo g.st r t = true := hiff.1 ⟨hc.1, hc.2.1⟩
        rw [hb]
        simp [h1, hc.2.2]
      · rw [if_neg hc] at hb
        rw [hb]
        have h1 : ¬ (subscribedTo g.st r t = true ∧ mailboxFull g.st r = false) := by
          rintro ⟨h1, h2⟩
          exact hc ⟨(hiff.2 h1).1, (hiff.2 h1).2, h2⟩
        have h2 : ¬ (bufOf g.st r).length = (bufOf g.st r).length + 1 := by omega
        rw [if_neg h2]
        have h3 : (subscribedTo g.st r t && !mailboxFull g.st r) = false := by
          cases hs : subscribedTo g.st r t <;> cases hf : mailboxFull g.st r <;> simp_all
        simp [h3]
    · have := gnext_no_publish g op (step g.st op).1 (step g.st op).2 (by
        intro h t v he hok; exact hpub ⟨h, t, v, he, hok⟩)
      intro r
      rw [this.1, this.2]; exact hg.exact r

/-- a program that never calls `subscribe` on a receiver handle that is closed at that moment -/
def OkSubs : St → List Op → Prop
  | _, [] => True
  | s, op :: ops => OkSub s op ∧ OkSubs (step s op).1 ops

theorem EI_grun (g : TopicSpec) (ops : List Op) (hops : OkSubs g.st ops) (hg : EI g) : EI (grun g ops) := by
  induction ops generalizing g with
  | nil => exact hg
  | cons op ops ih =>
    have h1 := EI_gstep g op hops.1 hg
    refine ih _ ?_ h1
    have : (gstep g op).1.st = (step g.st op).1 := by simp only [gstep, gnext_st]
    rw [this]; exact hops.2

end Fv.Chan.Topic
