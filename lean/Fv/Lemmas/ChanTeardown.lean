import Fv.Lemmas.ChanClose
/-!
Teardown (C09): in a sequential program the buffer is empty once every handle object is gone —
`TD`. The last `drop` (or the consuming oneshot `send`) runs the shared state's destructor
(`teardownIfLast`), and without a handle no operation can reach the channel any more.
-/
namespace Fv.Chan
open List

/-- no handle left ⇒ nothing buffered -/
def TD (s : St) : Prop := s.hs = [] → s.buf = []

theorem TD_teardownIfLast (s : St) : TD (teardownIfLast s) := by
  unfold teardownIfLast TD
  split
  · intro _; rfl
  · rename_i h; intro he; simp [he] at h

theorem closeEffect_hs (fl s side) : (closeEffect fl s side).hs = s.hs := by
  unfold closeEffect osDecSenders
  cases side <;> cases fl.fam <;> simp only [] <;> (repeat' split) <;> rfl

theorem findH_nil (h : HName) : findH [] h = none := rfl

theorem findH_some_ne_nil {hs : List Handle} {h hd} (hf : findH hs h = some hd) : hs ≠ [] := by
  intro he; rw [he] at hf; cases hf

/-- `TD` is inherited when the handle table is unchanged and non-empty -/
theorem TD_of_hs {s s' : St} (h : s'.hs = s.hs) (hne : s.hs ≠ []) : TD s' := by
  intro he; rw [h] at he; exact absurd he hne

theorem TD_of_same {s s' : St} (h : TD s) (h1 : s'.hs = s.hs) (h2 : s'.buf = s.buf) : TD s' := by
  intro he; rw [h2]; exact h (h1 ▸ he)

theorem osTryRecv_hs (s hd) : (osTryRecv s hd).1.hs = s.hs := by
  unfold osTryRecv
  split
  · rfl
  · rfl
  · rfl
  · split <;> rfl

theorem osRecvStep_hs {s hd s' p'} (hs : osRecvStep s hd = some (s', p')) : s'.hs = s.hs := by
  unfold osRecvStep at hs
  split at hs
  · cases hs; exact osTryRecv_hs s hd
  · split at hs
    · cases hs; exact osTryRecv_hs s hd
    · cases hs

theorem osDecSenders_hs (s : St) : (osDecSenders s).hs = s.hs := by
  unfold osDecSenders; simp only []; (repeat' split) <;> rfl

theorem teardownIfLast_hs (s : St) : (teardownIfLast s).hs = s.hs := by
  unfold teardownIfLast; split <;> rfl

theorem stgStep_hs {fl s t k h sent rest s' p'} (hs : stgStep fl s t k h sent rest = some (s', p')) : s'.hs = s.hs := by
  unfold stgStep at hs
  split at hs
  · split at hs
    · cases hs; rw [teardownIfLast_hs, osDecSenders_hs]; rfl
    · cases hs; rfl
  · split at hs
    · split at hs
      · split at hs
        · cases hs; rfl
        · cases hs
      · cases hs
    · split at hs
      · cases hs; rw [teardownIfLast_hs, osDecSenders_hs]
      · split at hs
        · cases hs; rfl
        · split at hs
          · cases hs; rw [teardownIfLast_hs]
          · cases hs

/-- every non-initial step leaves the handle table alone -/
theorem microDet_hs {fl cfg s p s' p'} (hp : ∀ t op, p ≠ .fresh t op) (hs : microDet fl cfg s p = some (s', p')) :
    s'.hs = s.hs := by
  cases p with
  | fresh t op => exact absurd rfl (hp t op)
  | bsend t f h sent rest q =>
    have := (sendStep_pushed hs).shell
    simpa [St.shell] using congrArg Shell.hs this
  | bsendEnd t f sent rest =>
    simp only [microDet] at hs
    obtain ⟨rfl, _⟩ := of_some_eq hs
    have := (failSend_pushed fl s f (if receiversGone fl s = true then Tag.closed else Tag.full) sent rest).shell
    simpa [St.shell] using congrArg Shell.hs this
  | brecv t f h n got =>
    simp only [microDet] at hs
    split at hs
    · cases hs
    · split at hs
      · rename_i hr
        cases hs
        have := (recvStep_popped hr).1.shell
        simpa [St.shell] using congrArg Shell.hs this
      · split at hs
        · cases hs
          have := (mbFlush_fields fl s).2.2.2.1
          simpa [St.shell] using congrArg Shell.hs this
        · cases hs
  | rvSend t v =>
    simp only [microDet] at hs
    split at hs
    · cases hs; rfl
    · split at hs <;> cases hs; rfl
  | rvRecv t =>
    simp only [microDet] at hs
    split at hs
    · cases hs; rfl
    · split at hs <;> cases hs; rfl
  | rvTo t stage =>
    simp only [microDet] at hs
    split at hs
    · split at hs
      · cases hs; rfl
      · split at hs <;> (cases hs; rfl)
    · cases hs; rfl
  | osRecv t h =>
    simp only [microDet] at hs
    split at hs
    · cases hs
    · exact osRecvStep_hs hs
  | stg t k h sent rest => exact stgStep_hs hs
  | fin o => simp [microDet] at hs


theorem failSend_hs (fl s f tag sent rest) : (failSend fl s f tag sent rest).1.hs = s.hs := by
  unfold failSend; split <;> rfl

theorem rvSendStep_hs (fl s t f h v) : (rvSendStep fl s t f h v).1.hs = s.hs := by
  unfold rvSendStep
  split
  · exact failSend_hs ..
  · split
    · split <;> rfl
    · split
      · rfl
      · exact failSend_hs ..

theorem TD_osSendFinish (hd s) : TD (osSendFinish hd s) := by
  unfold osSendFinish; exact TD_teardownIfLast _

theorem setH_ne_nil {hs : List Handle} (h : hs ≠ []) (n f) : setH hs n f ≠ [] := by
  unfold setH; intro he; exact h (map_eq_nil_iff.mp he)

/-- the first step of an operation keeps `TD`, and either finishes the operation or leaves the
(non-empty) handle table as it was -/
theorem start_TD (fl cfg s t op) (hg : cfg.granular = false) (htd : TD s) :
    TD (start fl cfg s t op).1 ∧
      ((∃ o, (start fl cfg s t op).2 = .fin o) ∨ ((start fl cfg s t op).1.hs = s.hs ∧ s.hs ≠ [])) := by
  cases op with
  | snd f h vs =>
    simp only [start]; unfold startSend
    split
    · exact ⟨htd, Or.inl ⟨_, rfl⟩⟩
    · rename_i hd hf
      have hne := findH_some_ne_nil hf
      split
      · exact ⟨htd, Or.inl ⟨_, rfl⟩⟩
      · split
        · split
          · unfold osSendStart
            simp only [hg, Bool.false_eq_true, false_and, if_false]
            unfold osSendStep
            split
            · exact ⟨TD_osSendFinish _ _, Or.inl ⟨_, rfl⟩⟩
            · split <;> exact ⟨TD_osSendFinish _ _, Or.inl ⟨_, rfl⟩⟩
          · exact ⟨htd, Or.inl ⟨_, rfl⟩⟩
        · split
          · split
            · rename_i v _
              have h1 : (failSend fl (s.create [v]) f .closed [] [v]).1.hs = s.hs := failSend_hs ..
              exact ⟨TD_of_hs h1 hne, Or.inr ⟨h1, hne⟩⟩
            · rename_i v _
              have h1 : (rvSendStep fl (s.create [v]) t f h v).1.hs = s.hs := rvSendStep_hs ..
              exact ⟨TD_of_hs h1 hne, Or.inr ⟨h1, hne⟩⟩
          · exact ⟨htd, Or.inl ⟨_, rfl⟩⟩
        · have hp := (startSendBuf_pushed fl cfg s t f h hd vs).1.shell
          have h1 : (startSendBuf fl cfg s (s.create vs) t f h hd vs).1.hs = s.hs := by
            simpa [St.shell] using congrArg Shell.hs hp
          exact ⟨TD_of_hs h1 hne, Or.inr ⟨h1, hne⟩⟩
  | rcv f h n =>
    simp only [start]; unfold startRecv
    split
    · exact ⟨htd, Or.inl ⟨_, rfl⟩⟩
    · rename_i hd hf
      have hne := findH_some_ne_nil hf
      split
      · exact ⟨htd, Or.inl ⟨_, rfl⟩⟩
      · split
        · exact ⟨htd, Or.inl ⟨_, rfl⟩⟩
        · exact ⟨htd, Or.inl ⟨_, rfl⟩⟩
        · split
          · split
            · have h1 := osTryRecv_hs s hd
              exact ⟨TD_of_hs h1 hne, Or.inr ⟨h1, hne⟩⟩
            · split
              · rename_i r hr
                have h1 := osRecvStep_hs (by rw [hr] : osRecvStep s hd = some (r.1, r.2))
                exact ⟨TD_of_hs h1 hne, Or.inr ⟨h1, hne⟩⟩
              · exact ⟨htd, Or.inr ⟨rfl, hne⟩⟩
          · have h1 : (rvRecvStart s t f hd).1.hs = s.hs := by
              unfold rvRecvStart
              split
              · rfl
              · split
                · rfl
                · split <;> rfl
            exact ⟨TD_of_hs h1 hne, Or.inr ⟨h1, hne⟩⟩
          · split
            · rename_i r hr
              have hp := (recvStep_popped (by rw [hr] : recvStep fl cfg s t f hd n [] = some (r.1, r.2))).1.shell
              have h1 : r.1.hs = s.hs := by simpa [St.shell] using congrArg Shell.hs hp
              exact ⟨TD_of_hs h1 hne, Or.inr ⟨h1, hne⟩⟩
            · have h1 : (mbFlush fl s).hs = s.hs := by
                have := (mbFlush_fields fl s).2.2.2.1
                simpa [St.shell] using congrArg Shell.hs this
              exact ⟨TD_of_hs h1 hne, Or.inr ⟨h1, hne⟩⟩
  | clone h h' =>
    simp only [start]; unfold startClone
    split
    · exact ⟨htd, Or.inl ⟨_, rfl⟩⟩
    · exact ⟨htd, Or.inl ⟨_, rfl⟩⟩
    · split
      · exact ⟨htd, Or.inl ⟨_, rfl⟩⟩
      · refine ⟨?_, Or.inl ⟨_, rfl⟩⟩
        intro he
        exfalso
        cases hsd : h.side <;> simp [hsd] at he
  | close h =>
    simp only [start, hg, Bool.false_eq_true, false_and, if_false]; unfold startClose
    split
    · exact ⟨htd, Or.inl ⟨_, rfl⟩⟩
    · rename_i hd hf
      have hne := findH_some_ne_nil hf
      split
      · exact ⟨htd, Or.inl ⟨_, rfl⟩⟩
      · refine ⟨?_, Or.inl ⟨_, rfl⟩⟩
        intro he
        rw [closeEffect_hs] at he
        exact absurd he (setH_ne_nil hne _ _)
  | drop h =>
    simp only [start, hg, Bool.false_eq_true, false_and, if_false]; unfold startDrop
    split
    · exact ⟨htd, Or.inl ⟨_, rfl⟩⟩
    · exact ⟨TD_teardownIfLast _, Or.inl ⟨_, rfl⟩⟩
  | probe p h =>
    simp only [start]; unfold startProbe
    split
    · exact ⟨htd, Or.inl ⟨_, rfl⟩⟩
    · split <;> exact ⟨htd, Or.inl ⟨_, rfl⟩⟩
  | toAsync h =>
    simp only [start]; unfold startConvert
    split
    · exact ⟨htd, Or.inl ⟨_, rfl⟩⟩
    · rename_i hd hf
      have hne := findH_some_ne_nil hf
      split
      · exact ⟨htd, Or.inl ⟨_, rfl⟩⟩
      · refine ⟨?_, Or.inl ⟨_, rfl⟩⟩
        intro he
        exfalso
        split at he <;> exact absurd he (setH_ne_nil hne _ _)
  | toSync h =>
    simp only [start]; unfold startConvert
    split
    · exact ⟨htd, Or.inl ⟨_, rfl⟩⟩
    · rename_i hd hf
      have hne := findH_some_ne_nil hf
      split
      · exact ⟨htd, Or.inl ⟨_, rfl⟩⟩
      · refine ⟨?_, Or.inl ⟨_, rfl⟩⟩
        intro he
        exfalso
        split at he <;> exact absurd he (setH_ne_nil hne _ _)


theorem runPS_hs (fl cfg) : ∀ (fuel : Nat) (s : St) (p : P), (∀ t op, p ≠ .fresh t op) →
    (runPS fl cfg fuel s p).1.hs = s.hs := by
  intro fuel
  induction fuel with
  | zero => intro s p _; rfl
  | succ fuel ih =>
    intro s p hp
    unfold runPS
    split
    · rfl
    · split
      · rfl
      · rename_i s' p' hm
        have h1 := microDet_hs hp hm
        have hnf : ∀ t op, p' ≠ .fresh t op := micro_nf (microDet_mem hm)
        rw [ih s' p' hnf, h1]

theorem microDet_fresh_seq (fl s t op) :
    microDet fl seqCfg s (.fresh t op) = some (start fl seqCfg s t op) := by
  cases op <;> simp [microDet, seqCfg]

theorem stepOp_TD {fl s} (htd : TD s) (op : Op) : TD (stepOp fl s op).1 := by
  show TD (stepOpS fl s op).1
  unfold stepOpS
  unfold runPS
  simp only [microDet_fresh_seq]
  have hst := start_TD fl seqCfg s 0 op rfl htd
  rcases hst.2 with ⟨o, ho⟩ | ⟨h1, hne⟩
  · rw [ho, runPS_fin]; exact hst.1
  · have hnf : ∀ t' op', (start fl seqCfg s 0 op).2 ≠ .fresh t' op' := start_nf _ _ _ _ _
    have := runPS_hs fl seqCfg (op.size + 3) (start fl seqCfg s 0 op).1 (start fl seqCfg s 0 op).2 hnf
    exact TD_of_hs (this.trans h1) hne

theorem runOps_TD {fl} : ∀ (ops : List Op) {s : St}, TD s → TD (runOps fl s ops)
  | [], _, h => h
  | op :: r, _, h => runOps_TD r (stepOp_TD h op)

theorem init_TD (fl : Flavour) : TD (init fl) := fun h => by simp [init] at h

end Fv.Chan
