import Fv.Lemmas.Mpsc3BBase
/-! Sender-handle bookkeeping of the `Mpsc3B` model: `sender_count` = number of counted handles, a
thread inside a send form keeps its (open) handle busy, hence a claimed ticket implies a live sender (J1). -/
namespace Fv.Chan.Mpsc3B
set_option linter.unusedSimpArgs false

/-- pcs of a send-form call after its handle's `closed` flag was read `false` in this pass -/
def inP : Pc → Bool
  | .cRx | .tG | .tP | .tFadd | .tCred | .eId | .eRet | .eSpin | .eCas | .wSt
  | .nFence | .nSC | .nSLock | .nSCnt | .nSFlag | .nSUnlock | .nSUnpark | .nAC | .nALock | .nACnt | .nAUnlock | .nAWake
  | .sYield | .raLock | .raCnt | .raUnlock | .raFence => true
  | _ => false

/-- pcs from which a send-form call can (re-)read its `closed` flag or claim a ticket -/
def inS : Pc → Bool
  | .cClosed | .rgLock | .rgCnt | .rgUnlock | .rgFence | .pkSpinLd | .pkSpin | .pkFlagLd | .pkPark | .pkSwap => true
  | p => inP p

/-- the three visible actions that change the handle bookkeeping -/
def special : Pc → Bool
  | .cnAdd | .clCas | .clSub => true
  | _ => false

theorem inS_of_inP {p : Pc} (h : inP p = true) : inS p = true := by cases p <;> simp_all [inS, inP]

theorem notSp_retWith (x : Th) (r : Res) : special (retWith x r).pc = false := by
  cases x; rfl
theorem notP_retWith (x : Th) (r : Res) : inP (retWith x r).pc = false := by
  cases x; rfl
theorem notS_retWith (x : Th) (r : Res) : inS (retWith x r).pc = false := by
  cases x; rfl
theorem notSp_retPending (x : Th) : special (retPending x).pc = false := by
  unfold retPending; split <;> rfl
theorem notP_retPending (x : Th) : inP (retPending x).pc = false := by
  unfold retPending; split <;> rfl
theorem notS_retPending (x : Th) : inS (retPending x).pc = false := by
  unfold retPending; split <;> rfl
theorem notSp_tsCall (x : Th) (k : TsSite) : special (tsCall x k).pc = false := by
  cases x; rfl
theorem notSp_enterLoop (x : Th) : special (enterLoop x).pc = false := by
  cases x; rfl
theorem notP_enterLoop (x : Th) : inP (enterLoop x).pc = false := by
  cases x; rfl
theorem notSp_parkSeqS (c : Cfg) (x : Th) : special (parkSeqS c x).pc = false := by
  unfold parkSeqS; split <;> rfl
theorem notP_parkSeqS (c : Cfg) (x : Th) : inP (parkSeqS c x).pc = false := by
  unfold parkSeqS; split <;> rfl
theorem notSp_parkSeqR (c : Cfg) (x : Th) : special (parkSeqR c x).pc = false := by
  unfold parkSeqR; split <;> rfl
theorem notP_parkSeqR (c : Cfg) (x : Th) : inP (parkSeqR c x).pc = false := by
  unfold parkSeqR; split <;> rfl
theorem notS_parkSeqR (c : Cfg) (x : Th) : inS (parkSeqR c x).pc = false := by
  unfold parkSeqR; split <;> rfl
theorem notSp_deqCall (x : Th) (k : DqSite) : special (deqCall x k).pc = false := by
  cases x; rfl
theorem notP_deqCall (x : Th) (k : DqSite) : inP (deqCall x k).pc = false := by
  cases x; rfl
theorem notS_deqCall (x : Th) (k : DqSite) : inS (deqCall x k).pc = false := by
  cases x; rfl
theorem notSp_flushCall (x : Th) (k : FlSite) : special (flushCall x k).pc = false := by
  cases x; rfl
theorem notP_flushCall (x : Th) (k : FlSite) : inP (flushCall x k).pc = false := by
  cases x; rfl
theorem notS_flushCall (x : Th) (k : FlSite) : inS (flushCall x k).pc = false := by
  cases x; rfl
theorem notSp_tsErr (c : Cfg) (x : Th) : special (tsErr c x).pc = false := by
  unfold tsErr enterLoop parkSeqS retWith; repeat' split
  all_goals rfl
theorem notSp_tsOk (x : Th) : special (tsOk x).pc = false := by
  unfold tsOk retWith; repeat' split
  all_goals rfl
theorem notSp_chkClosed (x : Th) : special (chkClosed x).pc = false := by
  unfold chkClosed retWith; repeat' split
  all_goals rfl
theorem notP_chkClosed (x : Th) : inP (chkClosed x).pc = false := by
  unfold chkClosed retWith; repeat' split
  all_goals rfl
theorem notSp_chkOpen (x : Th) : special (chkOpen x).pc = false := by
  unfold chkOpen retWith tsCall retPending; repeat' split
  all_goals rfl
theorem notSp_nrDone (x : Th) : special (nrDone x).pc = false := by
  unfold nrDone tsOk retWith; repeat' split
  all_goals rfl
theorem notSp_finDoneS (x : Th) : special (finDoneS x).pc = false := by
  unfold finDoneS retWith; repeat' split
  all_goals rfl
theorem notSp_finDoneR (x : Th) : special (finDoneR x).pc = false := by
  unfold finDoneR retWith; repeat' split
  all_goals rfl
theorem notP_finDoneS (x : Th) : inP (finDoneS x).pc = false := by
  unfold finDoneS retWith; repeat' split
  all_goals rfl
theorem notP_finDoneR (x : Th) : inP (finDoneR x).pc = false := by
  unfold finDoneR retWith; repeat' split
  all_goals rfl
theorem notS_finDoneS (x : Th) : inS (finDoneS x).pc = false := by
  unfold finDoneS retWith; repeat' split
  all_goals rfl
theorem notS_finDoneR (x : Th) : inS (finDoneR x).pc = false := by
  unfold finDoneR retWith; repeat' split
  all_goals rfl
theorem notSp_deqDone (x : Th) : special (deqDone x).pc = false := by
  unfold deqDone retWith flushCall retPending; repeat' split
  all_goals rfl
theorem notP_deqDone (x : Th) : inP (deqDone x).pc = false := by
  unfold deqDone retWith flushCall retPending; repeat' split
  all_goals rfl
theorem notS_deqDone (x : Th) : inS (deqDone x).pc = false := by
  unfold deqDone retWith flushCall retPending; repeat' split
  all_goals rfl
theorem notSp_scDone (x : Th) (n : Nat) : special (scDone x n).pc = false := by
  unfold scDone retWith flushCall retPending deqCall; repeat' split
  all_goals rfl
theorem notP_scDone (x : Th) (n : Nat) : inP (scDone x n).pc = false := by
  unfold scDone retWith flushCall retPending deqCall; repeat' split
  all_goals rfl
theorem notS_scDone (x : Th) (n : Nat) : inS (scDone x n).pc = false := by
  unfold scDone retWith flushCall retPending deqCall; repeat' split
  all_goals rfl
theorem notSp_flushDone (c : Cfg) (x : Th) : special (flushDone c x).pc = false := by
  unfold flushDone retWith parkSeqR deqCall; repeat' split
  all_goals rfl
theorem notP_flushDone (c : Cfg) (x : Th) : inP (flushDone c x).pc = false := by
  unfold flushDone retWith parkSeqR deqCall; repeat' split
  all_goals rfl
theorem notS_flushDone (c : Cfg) (x : Th) : inS (flushDone c x).pc = false := by
  unfold flushDone retWith parkSeqR deqCall; repeat' split
  all_goals rfl
theorem notSp_probeDone (c : Cfg) (x : Th) (d : Nat) : special (probeDone c x d).pc = false := by
  unfold probeDone retWith; repeat' split
  all_goals rfl
theorem notP_probeDone (c : Cfg) (x : Th) (d : Nat) : inP (probeDone c x d).pc = false := by
  unfold probeDone retWith; repeat' split
  all_goals rfl
theorem notS_probeDone (c : Cfg) (x : Th) (d : Nat) : inS (probeDone c x d).pc = false := by
  unfold probeDone retWith; repeat' split
  all_goals rfl
theorem notSp_pollEntry (x : Th) : special (pollEntry x).pc = false := by
  unfold pollEntry retWith; repeat' split
  all_goals rfl
theorem notP_pollEntry (x : Th) : inP (pollEntry x).pc = false := by
  unfold pollEntry retWith; repeat' split
  all_goals rfl
theorem notSp_pubDone (x : Th) : special (pubDone x).pc = false := by
  unfold pubDone; split <;> rfl
theorem notP_pubDone (x : Th) : inP (pubDone x).pc = false := by
  unfold pubDone; split <;> rfl
theorem notS_pubDone (x : Th) : inS (pubDone x).pc = false := by
  unfold pubDone; split <;> rfl
theorem notP_callTh (c : Cfg) (s : State) (x x0 : Th) (op : Op) : inP (callTh c s x x0 op).pc = false := by
  cases op <;> simp only [callTh, retWith, deqCall] <;> (repeat' split) <;> rfl

/-- `h` and `hb` of the continuation functions -/
theorem hhb_retWith (x : Th) (r : Res) : (retWith x r).h = x.h ∧ (retWith x r).hb = x.hb := by
  cases x; exact ⟨rfl, rfl⟩
theorem h_retWith (x : Th) (r : Res) : (retWith x r).h = x.h := (hhb_retWith x r).1
theorem hb_retWith (x : Th) (r : Res) : (retWith x r).hb = x.hb := (hhb_retWith x r).2
theorem hhb_retPending (x : Th) : (retPending x).h = x.h ∧ (retPending x).hb = x.hb := by
  unfold retPending; split <;> exact ⟨rfl, rfl⟩
theorem h_retPending (x : Th) : (retPending x).h = x.h := (hhb_retPending x).1
theorem hb_retPending (x : Th) : (retPending x).hb = x.hb := (hhb_retPending x).2
theorem hhb_tsCall (x : Th) (k : TsSite) : (tsCall x k).h = x.h ∧ (tsCall x k).hb = x.hb := by
  exact ⟨rfl, rfl⟩
theorem h_tsCall (x : Th) (k : TsSite) : (tsCall x k).h = x.h := (hhb_tsCall x k).1
theorem hb_tsCall (x : Th) (k : TsSite) : (tsCall x k).hb = x.hb := (hhb_tsCall x k).2
theorem hhb_enterLoop (x : Th) : (enterLoop x).h = x.h ∧ (enterLoop x).hb = x.hb := by
  exact ⟨rfl, rfl⟩
theorem h_enterLoop (x : Th) : (enterLoop x).h = x.h := (hhb_enterLoop x).1
theorem hb_enterLoop (x : Th) : (enterLoop x).hb = x.hb := (hhb_enterLoop x).2
theorem hhb_parkSeqS (c : Cfg) (x : Th) : (parkSeqS c x).h = x.h ∧ (parkSeqS c x).hb = x.hb := by
  unfold parkSeqS; split <;> exact ⟨rfl, rfl⟩
theorem h_parkSeqS (c : Cfg) (x : Th) : (parkSeqS c x).h = x.h := (hhb_parkSeqS c x).1
theorem hb_parkSeqS (c : Cfg) (x : Th) : (parkSeqS c x).hb = x.hb := (hhb_parkSeqS c x).2
theorem hhb_parkSeqR (c : Cfg) (x : Th) : (parkSeqR c x).h = x.h ∧ (parkSeqR c x).hb = x.hb := by
  unfold parkSeqR; split <;> exact ⟨rfl, rfl⟩
theorem h_parkSeqR (c : Cfg) (x : Th) : (parkSeqR c x).h = x.h := (hhb_parkSeqR c x).1
theorem hb_parkSeqR (c : Cfg) (x : Th) : (parkSeqR c x).hb = x.hb := (hhb_parkSeqR c x).2
theorem hhb_deqCall (x : Th) (k : DqSite) : (deqCall x k).h = x.h ∧ (deqCall x k).hb = x.hb := by
  exact ⟨rfl, rfl⟩
theorem h_deqCall (x : Th) (k : DqSite) : (deqCall x k).h = x.h := (hhb_deqCall x k).1
theorem hb_deqCall (x : Th) (k : DqSite) : (deqCall x k).hb = x.hb := (hhb_deqCall x k).2
theorem hhb_flushCall (x : Th) (k : FlSite) : (flushCall x k).h = x.h ∧ (flushCall x k).hb = x.hb := by
  exact ⟨rfl, rfl⟩
theorem h_flushCall (x : Th) (k : FlSite) : (flushCall x k).h = x.h := (hhb_flushCall x k).1
theorem hb_flushCall (x : Th) (k : FlSite) : (flushCall x k).hb = x.hb := (hhb_flushCall x k).2
theorem hhb_tsErr (c : Cfg) (x : Th) : (tsErr c x).h = x.h ∧ (tsErr c x).hb = x.hb := by
  unfold tsErr enterLoop parkSeqS retWith; repeat' split
  all_goals exact ⟨rfl, rfl⟩
theorem h_tsErr (c : Cfg) (x : Th) : (tsErr c x).h = x.h := (hhb_tsErr c x).1
theorem hb_tsErr (c : Cfg) (x : Th) : (tsErr c x).hb = x.hb := (hhb_tsErr c x).2
theorem hhb_tsOk (x : Th) : (tsOk x).h = x.h ∧ (tsOk x).hb = x.hb := by
  unfold tsOk retWith; repeat' split
  all_goals exact ⟨rfl, rfl⟩
theorem h_tsOk (x : Th) : (tsOk x).h = x.h := (hhb_tsOk x).1
theorem hb_tsOk (x : Th) : (tsOk x).hb = x.hb := (hhb_tsOk x).2
theorem hhb_chkClosed (x : Th) : (chkClosed x).h = x.h ∧ (chkClosed x).hb = x.hb := by
  unfold chkClosed retWith; repeat' split
  all_goals exact ⟨rfl, rfl⟩
theorem h_chkClosed (x : Th) : (chkClosed x).h = x.h := (hhb_chkClosed x).1
theorem hb_chkClosed (x : Th) : (chkClosed x).hb = x.hb := (hhb_chkClosed x).2
theorem hhb_chkOpen (x : Th) : (chkOpen x).h = x.h ∧ (chkOpen x).hb = x.hb := by
  unfold chkOpen retWith tsCall retPending; repeat' split
  all_goals exact ⟨rfl, rfl⟩
theorem h_chkOpen (x : Th) : (chkOpen x).h = x.h := (hhb_chkOpen x).1
theorem hb_chkOpen (x : Th) : (chkOpen x).hb = x.hb := (hhb_chkOpen x).2
theorem hhb_nrDone (x : Th) : (nrDone x).h = x.h ∧ (nrDone x).hb = x.hb := by
  unfold nrDone tsOk retWith; repeat' split
  all_goals exact ⟨rfl, rfl⟩
theorem h_nrDone (x : Th) : (nrDone x).h = x.h := (hhb_nrDone x).1
theorem hb_nrDone (x : Th) : (nrDone x).hb = x.hb := (hhb_nrDone x).2
theorem hhb_finDoneS (x : Th) : (finDoneS x).h = x.h ∧ (finDoneS x).hb = x.hb := by
  unfold finDoneS retWith; repeat' split
  all_goals exact ⟨rfl, rfl⟩
theorem hhb_finDoneR (x : Th) : (finDoneR x).h = x.h ∧ (finDoneR x).hb = x.hb := by
  unfold finDoneR retWith; repeat' split
  all_goals exact ⟨rfl, rfl⟩
theorem h_finDoneS (x : Th) : (finDoneS x).h = x.h := (hhb_finDoneS x).1
theorem h_finDoneR (x : Th) : (finDoneR x).h = x.h := (hhb_finDoneR x).1
theorem hb_finDoneS (x : Th) : (finDoneS x).hb = x.hb := (hhb_finDoneS x).2
theorem hb_finDoneR (x : Th) : (finDoneR x).hb = x.hb := (hhb_finDoneR x).2
theorem hhb_deqDone (x : Th) : (deqDone x).h = x.h ∧ (deqDone x).hb = x.hb := by
  unfold deqDone retWith flushCall retPending; repeat' split
  all_goals exact ⟨rfl, rfl⟩
theorem h_deqDone (x : Th) : (deqDone x).h = x.h := (hhb_deqDone x).1
theorem hb_deqDone (x : Th) : (deqDone x).hb = x.hb := (hhb_deqDone x).2
theorem hhb_scDone (x : Th) (n : Nat) : (scDone x n).h = x.h ∧ (scDone x n).hb = x.hb := by
  unfold scDone retWith flushCall retPending deqCall; repeat' split
  all_goals exact ⟨rfl, rfl⟩
theorem h_scDone (x : Th) (n : Nat) : (scDone x n).h = x.h := (hhb_scDone x n).1
theorem hb_scDone (x : Th) (n : Nat) : (scDone x n).hb = x.hb := (hhb_scDone x n).2
theorem hhb_flushDone (c : Cfg) (x : Th) : (flushDone c x).h = x.h ∧ (flushDone c x).hb = x.hb := by
  unfold flushDone retWith parkSeqR deqCall; repeat' split
  all_goals exact ⟨rfl, rfl⟩
theorem h_flushDone (c : Cfg) (x : Th) : (flushDone c x).h = x.h := (hhb_flushDone c x).1
theorem hb_flushDone (c : Cfg) (x : Th) : (flushDone c x).hb = x.hb := (hhb_flushDone c x).2
theorem hhb_probeDone (c : Cfg) (x : Th) (d : Nat) : (probeDone c x d).h = x.h ∧ (probeDone c x d).hb = x.hb := by
  unfold probeDone retWith; repeat' split
  all_goals exact ⟨rfl, rfl⟩
theorem h_probeDone (c : Cfg) (x : Th) (d : Nat) : (probeDone c x d).h = x.h := (hhb_probeDone c x d).1
theorem hb_probeDone (c : Cfg) (x : Th) (d : Nat) : (probeDone c x d).hb = x.hb := (hhb_probeDone c x d).2
theorem hhb_pollEntry (x : Th) : (pollEntry x).h = x.h ∧ (pollEntry x).hb = x.hb := by
  unfold pollEntry retWith; repeat' split
  all_goals exact ⟨rfl, rfl⟩
theorem h_pollEntry (x : Th) : (pollEntry x).h = x.h := (hhb_pollEntry x).1
theorem hb_pollEntry (x : Th) : (pollEntry x).hb = x.hb := (hhb_pollEntry x).2
theorem hhb_pubDone (x : Th) : (pubDone x).h = x.h ∧ (pubDone x).hb = x.hb := by
  unfold pubDone; split <;> exact ⟨rfl, rfl⟩
theorem h_pubDone (x : Th) : (pubDone x).h = x.h := (hhb_pubDone x).1
theorem hb_pubDone (x : Th) : (pubDone x).hb = x.hb := (hhb_pubDone x).2

section
attribute [local simp] notSp_retWith notSp_retPending notSp_tsCall notSp_enterLoop notSp_parkSeqS notSp_parkSeqR notSp_deqCall notSp_flushCall notSp_tsErr notSp_tsOk notSp_chkClosed notSp_chkOpen notSp_nrDone notSp_finDoneS notSp_finDoneR notSp_deqDone notSp_scDone notSp_flushDone notSp_probeDone notSp_pollEntry notSp_pubDone notP_retWith notS_retWith notP_retPending notS_retPending notP_enterLoop notP_parkSeqS notP_parkSeqR notS_parkSeqR notP_deqCall notS_deqCall notP_flushCall notS_flushCall notP_chkClosed notP_finDoneS notP_finDoneR notS_finDoneS notS_finDoneR notP_deqDone notS_deqDone notP_scDone notS_scDone notP_flushDone notS_flushDone notP_probeDone notS_probeDone notP_pollEntry notP_pubDone notS_pubDone notP_callTh

set_option maxHeartbeats 4000000 in
/-- handle summary of a visible action other than `clone`'s `fetch_add`, `close`'s CAS and `fetch_sub` -/
theorem handle_sum {c s t a s'} (h : next c s t = some (a, s')) (h1 : special (s.th t).pc = false) :
    (∀ u, u ≠ t → s'.th u = s.th u) ∧ (s.th t).pc ≠ .idle ∧
    s'.sClosed = s.sClosed ∧ s'.hLive = s.hLive ∧ s'.hUsed = s.hUsed ∧ s'.sBusy = s.sBusy ∧ s'.counted = s.counted ∧
    s'.senderCount = s.senderCount ∧ s'.resurrect = s.resurrect ∧
    special (s'.th t).pc = false ∧
    (inS (s'.th t).pc = true → inS (s.th t).pc = true ∨ ((s.th t).pc = .boPark ∧ (s.th t).hb = true)) ∧
    (inP (s'.th t).pc = true → inP (s.th t).pc = true ∨ ((s.th t).pc = .cClosed ∧ s.sClosed (s.th t).h = false)) := by
  unfold next at h
  cases hpc : (s.th t).pc <;> simp only [hpc] at h <;> nx_unfold at h
  all_goals (first | (rw [hpc] at h1; simp [special] at h1; done) | skip)
  all_goals (try (repeat' split at h))
  all_goals (try (simp only [Option.some.injEq, Prod.mk.injEq, reduceCtorEq] at h))
  all_goals (try (obtain ⟨-, rfl⟩ := h))
  all_goals (first | contradiction | skip)
  all_goals (refine ⟨fun u hu => upd_other _ _ _ _ hu, by simp, rfl, rfl, rfl, rfl, rfl, rfl, rfl, ?_, ?_, ?_⟩)
  all_goals (simp only [upd_same])
  all_goals (try (simp <;> done))
  all_goals (try (simp [special, inS, inP, *] <;> done))
  all_goals (try (unfold pollEntry retWith; (repeat' split) <;> simp_all [inS, inP] <;> done))

set_option maxHeartbeats 4000000 in
/-- no visible action changes the thread's handle fields -/
theorem next_hhb {c s t a s'} (h : next c s t = some (a, s')) :
    (s'.th t).h = (s.th t).h ∧ (s'.th t).hb = (s.th t).hb := by
  unfold next at h
  cases hpc : (s.th t).pc <;> simp only [hpc] at h <;> nx_unfold at h
  all_goals (try (repeat' split at h))
  all_goals (try (simp only [Option.some.injEq, Prod.mk.injEq, reduceCtorEq] at h))
  all_goals (try (obtain ⟨-, rfl⟩ := h))
  all_goals (first | contradiction | skip)
  all_goals (simp only [upd_same, h_retWith, hb_retWith, h_retPending, hb_retPending, h_tsCall, hb_tsCall, h_enterLoop, hb_enterLoop, h_parkSeqS, hb_parkSeqS, h_parkSeqR, hb_parkSeqR, h_deqCall, hb_deqCall, h_flushCall, hb_flushCall, h_tsErr, hb_tsErr, h_tsOk, hb_tsOk, h_chkClosed, hb_chkClosed, h_chkOpen, hb_chkOpen, h_nrDone, hb_nrDone, h_finDoneS, h_finDoneR, hb_finDoneS, hb_finDoneR, h_deqDone, hb_deqDone, h_scDone, hb_scDone, h_flushDone, hb_flushDone, h_probeDone, hb_probeDone, h_pollEntry, hb_pollEntry, h_pubDone, hb_pubDone])
  all_goals (first | exact ⟨rfl, rfl⟩ | exact ⟨trivial, trivial⟩)
end

end Fv.Chan.Mpsc3B
