import Fv.Lemmas.IocTotal
/-!
# C18: what one resolution returns, and the invariants of histories
-/
namespace Fv.Ioc

/-! ### Immediate outcomes -/

theorem resolveF_unregistered {fuel : Nat} {w : World} {c : Nat} {k : Key}
    (hk : k ∉ w.resolving) (hget : w.regs.get ⟨c, k⟩ = none) :
    resolveF (fuel + 1) w c k = (w, .none) := by
  have hget1 : (w.push k).regs.get ⟨c, k⟩ = none := hget
  simp [resolveF, hk, hget1, pop_push]

theorem resolveF_inst {fuel : Nat} {w : World} {c : Nat} {k : Key} {id : Nat}
    (hk : k ∉ w.resolving) (hget : w.regs.get ⟨c, k⟩ = some (.inst id)) :
    resolveF (fuel + 1) w c k = (w, .some id) := by
  have hget1 : (w.push k).regs.get ⟨c, k⟩ = some (.inst id) := hget
  simp [resolveF, hk, hget1, pop_push]

theorem resolveF_filled {fuel : Nat} {w : World} {c : Nat} {k : Key} {sc : List Dep} {id r : Nat}
    (hk : k ∉ w.resolving) (hget : w.regs.get ⟨c, k⟩ = some (.singleton sc (some id) r)) :
    resolveF (fuel + 1) w c k = (w, .some id) := by
  have hget1 : (w.push k).regs.get ⟨c, k⟩ = some (.singleton sc (some id) r) := hget
  simp [resolveF, hk, hget1, pop_push]

/-- what a successful resolution of a slot whose factory had to run looks like -/
theorem resolveF_active_some {fuel : Nat} {w : World} {c : Nat} {k : Key} {p : Provider} {sc : List Dep}
    {w' : World} {id : Nat}
    (hget : w.regs.get ⟨c, k⟩ = some p) (hact : p.active = some sc)
    (hres : resolveF fuel w c k = (w', .some id)) :
    w.next ≤ id ∧ w'.next = id + 1 ∧
    ((∃ r, p = .singleton sc none r ∧ w'.regs.get ⟨c, k⟩ = some (.singleton sc (some id) (r + 1))) ∨
     (∃ r, p = .transient sc r ∧ w'.regs.get ⟨c, k⟩ = some (.transient sc (r + 1)))) := by
  cases fuel with
  | zero => simp [resolveF] at hres
  | succ fuel =>
    simp only [resolveF] at hres
    by_cases hk : k ∈ w.resolving
    · simp [hk] at hres
    · simp only [hk, if_false] at hres
      have hget1 : (w.push k).regs.get ⟨c, k⟩ = some p := hget
      rw [hget1] at hres
      cases p with
      | inst a => simp [Provider.active] at hact
      | singleton sc0 cell r =>
        cases cell with
        | some a => simp [Provider.active] at hact
        | none =>
          simp only [Provider.active, Option.some.injEq] at hact
          subst hact
          simp only at hres
          have h12 := runScript_ext (resolveF fuel) (resolveF_ext fuel) sc0 (w.push k)
          generalize runScript (resolveF fuel) (w.push k) sc0 = rr at h12 hres
          obtain ⟨w2, a⟩ := rr
          cases a with
          | some a => cases a <;> simp [Abort.outcome] at hres
          | none =>
            simp only [World.made, World.pop, Prod.mk.injEq, Outcome.some.injEq] at hres
            obtain ⟨hw, hid⟩ := hres
            subst hw hid
            have := h12.next_le
            simp only [World.push] at this
            exact ⟨this, rfl, Or.inl ⟨r, rfl, by simp [Reg.get_set_same]⟩⟩
      | transient sc0 r =>
        simp only [Provider.active, Option.some.injEq] at hact
        subst hact
        simp only at hres
        have h12 := runScript_ext (resolveF fuel) (resolveF_ext fuel) sc0 (w.push k)
        generalize runScript (resolveF fuel) (w.push k) sc0 = rr at h12 hres
        obtain ⟨w2, a⟩ := rr
        cases a with
        | some a => cases a <;> simp [Abort.outcome] at hres
        | none =>
          simp only [World.made, World.pop, Prod.mk.injEq, Outcome.some.injEq] at hres
          obtain ⟨hw, hid⟩ := hres
          subst hw hid
          have := h12.next_le
          simp only [World.push] at this
          exact ⟨this, rfl, Or.inr ⟨r, rfl, by simp [Reg.get_set_same]⟩⟩

/-- a resolution never returns an instance out of an unregistered slot -/
theorem resolveF_some_registered {fuel : Nat} {w w' : World} {c : Nat} {k : Key} {id : Nat}
    (hres : resolveF fuel w c k = (w', .some id)) : w.regs.get ⟨c, k⟩ ≠ none := by
  intro hget
  cases fuel with
  | zero => simp [resolveF] at hres
  | succ fuel =>
    by_cases hk : k ∈ w.resolving
    · simp [resolveF, hk] at hres
    · rw [resolveF_unregistered hk hget] at hres
      simp at hres

/-! ### Instance ids: everything stored is below the counter -/

def Provider.id? : Provider → Option Nat
  | .inst id => some id
  | .singleton _ cell _ => cell
  | .transient _ _ => none

def World.IdsBelow (w : World) : Prop :=
  ∀ s p id, w.regs.get s = some p → p.id? = some id → id < w.next

theorem idsBelow_set {w : World} {s : Slot} {p : Provider} {n : Nat} (h : w.IdsBelow) (hn : w.next ≤ n)
    (hp : ∀ id, p.id? = some id → id < n) :
    World.IdsBelow { w with regs := w.regs.set s p, next := n } := by
  intro s' p' id hget hid
  by_cases hs : s' = s
  · subst hs
    simp only [Reg.get_set_same, Option.some.injEq] at hget
    subst hget
    exact hp id hid
  · simp only [Reg.get_set_other _ _ hs] at hget
    have := h s' p' id hget hid
    simp only
    omega

theorem runScript_ids (res : World → Nat → Key → World × Outcome)
    (hres : ∀ (w : World) c k, w.IdsBelow → (res w c k).1.IdsBelow) :
    ∀ (ds : List Dep) (w : World), w.IdsBelow → (runScript res w ds).1.IdsBelow := by
  intro ds
  induction ds with
  | nil => intro w h; exact h
  | cons d ds ih =>
    intro w h
    have h1 := hres w d.c d.k h
    simp only [runScript]
    generalize res w d.c d.k = r at h1
    obtain ⟨w', o⟩ := r
    cases o with
    | some id => exact ih w' h1
    | none =>
      by_cases hq : d.req
      · simpa [hq] using h1
      · simpa [hq] using ih w' h1
    | panic p => exact h1
    | diverge => exact h1

theorem resolveF_ids : ∀ (fuel : Nat) (w : World) (c : Nat) (k : Key), w.IdsBelow →
    (resolveF fuel w c k).1.IdsBelow := by
  intro fuel
  induction fuel with
  | zero => intro w c k h; exact h
  | succ fuel ih =>
    intro w c k h
    simp only [resolveF]
    by_cases hk : k ∈ w.resolving
    · simpa [hk] using h
    · simp only [hk, if_false]
      have hpush : (w.push k).IdsBelow := h
      have hpp : ((w.push k).pop k).IdsBelow := by rw [pop_push]; exact h
      cases hget : (w.push k).regs.get ⟨c, k⟩ with
      | none => exact hpp
      | some p =>
        cases p with
        | inst id => exact hpp
        | singleton sc cell runs =>
          cases cell with
          | some id => exact hpp
          | none =>
            simp only
            have h2 := runScript_ids (resolveF fuel) ih sc (w.push k) hpush
            generalize runScript (resolveF fuel) (w.push k) sc = r at h2
            obtain ⟨w2, a⟩ := r
            cases a with
            | some a => exact h2
            | none =>
              simp only [World.made, World.pop]
              exact idsBelow_set (w := w2) h2 (Nat.le_succ _) (fun id hid => by
                simp only [Provider.id?, Option.some.injEq] at hid; omega)
        | transient sc runs =>
          simp only
          have h2 := runScript_ids (resolveF fuel) ih sc (w.push k) hpush
          generalize runScript (resolveF fuel) (w.push k) sc = r at h2
          obtain ⟨w2, a⟩ := r
          cases a with
          | some a => exact h2
          | none =>
            simp only [World.made, World.pop]
            exact idsBelow_set (w := w2) h2 (Nat.le_succ _) (fun id hid => by
              simp [Provider.id?] at hid)

/-- every instance a resolution hands out is below the new counter -/
theorem resolveF_some_lt {fuel : Nat} {w w' : World} {c : Nat} {k : Key} {id : Nat} (h : w.IdsBelow)
    (hres : resolveF fuel w c k = (w', .some id)) : id < w'.next := by
  have hreg := resolveF_some_registered hres
  cases hget : w.regs.get ⟨c, k⟩ with
  | none => exact absurd hget hreg
  | some p =>
    cases hact : p.active with
    | some sc =>
      have := (resolveF_active_some hget hact hres).2.1
      omega
    | none =>
      cases fuel with
      | zero => simp [resolveF] at hres
      | succ fuel =>
        by_cases hk : k ∈ w.resolving
        · simp [resolveF, hk] at hres
        · cases p with
          | inst a =>
            rw [resolveF_inst hk hget] at hres
            simp only [Prod.mk.injEq, Outcome.some.injEq] at hres
            obtain ⟨rfl, rfl⟩ := hres
            exact h _ _ _ hget rfl
          | singleton sc cell r =>
            cases cell with
            | none => simp [Provider.active] at hact
            | some a =>
              rw [resolveF_filled hk hget] at hres
              simp only [Prod.mk.injEq, Outcome.some.injEq] at hres
              obtain ⟨rfl, rfl⟩ := hres
              exact h _ _ _ hget rfl
          | transient sc r => simp [Provider.active] at hact

/-! ### Factory-run counters -/

/-- an empty cell has seen no completed run of this registration, a filled one exactly one -/
def Provider.RunsOk : Provider → Prop
  | .singleton _ none r => r = 0
  | .singleton _ (some _) r => r = 1
  | _ => True

def World.RunsOk (w : World) : Prop := ∀ s p, w.regs.get s = some p → p.RunsOk

theorem Provider.Evolves.runsOk {p p' : Provider} (h : p.Evolves p') (hp : p.RunsOk) : p'.RunsOk := by
  cases p with
  | inst a => simp only [Provider.Evolves] at h; subst h; exact hp
  | singleton sc cell r =>
    cases cell with
    | some id => simp only [Provider.Evolves] at h; subst h; exact hp
    | none =>
      simp only [Provider.Evolves] at h
      simp only [Provider.RunsOk] at hp
      rcases h with h | ⟨id, h⟩ <;> subst h <;> simp [Provider.RunsOk, hp]
  | transient sc r =>
    obtain ⟨r', _, h⟩ := h
    subst h; trivial

theorem World.Ext.runsOk {w w' : World} (h : w.Ext w') (hw : w.RunsOk) : w'.RunsOk := by
  intro s p' hp'
  cases hget : w.regs.get s with
  | none => rw [h.get_none hget] at hp'; cases hp'
  | some p =>
    obtain ⟨p'', hp'', e⟩ := h.evolves s p hget
    rw [hp''] at hp'; cases hp'
    exact e.runsOk (hw s p hget)

/-! ### Histories -/

/-- the provider a registration stores -/
def Op.provider : Op → Option Provider
  | .regInstance _ _ id => some (.inst id)
  | .regSingleton _ _ sc => some (.singleton sc none 0)
  | .regTransient _ _ sc => some (.transient sc 0)
  | .resolve _ _ => none

/-- between the operations of a history no resolution is in progress -/
structure World.Good (w : World) : Prop where
  idle : w.resolving = []
  ids : w.IdsBelow
  runs : w.RunsOk

theorem World.good_empty : World.empty.Good :=
  ⟨rfl, fun s p id h _ => by simp [World.empty, Reg.get] at h, fun s p h => by simp [World.empty, Reg.get] at h⟩

theorem applyOp_reg_get {w : World} {op : Op} {s : Slot} {p : Provider} (hs : op.regSlot = some s)
    (hp : op.provider = some p) : (applyOp w op).1.regs.get s = some p := by
  cases op <;> simp only [Op.regSlot, Op.provider, Option.some.injEq, reduceCtorEq] at hs hp
  all_goals (subst hs; subst hp; simp [applyOp, World.regInstance, World.register, Reg.get_set_same])

theorem applyOp_reg_other {w : World} {op : Op} {s s' : Slot} (hs : op.regSlot = some s') (hne : s ≠ s') :
    (applyOp w op).1.regs.get s = w.regs.get s := by
  cases op <;> simp only [Op.regSlot, Option.some.injEq, reduceCtorEq] at hs
  all_goals (subst hs; simp [applyOp, World.regInstance, World.register, Reg.get_set_other _ _ hne])

theorem applyOp_resolve_ext {w : World} {c : Nat} {k : Key} : w.Ext (applyOp w (.resolve c k)).1 := by
  simp only [applyOp]; exact resolve_ext w c k

theorem applyOp_next_le (w : World) (op : Op) : w.next ≤ (applyOp w op).1.next := by
  cases op with
  | regInstance c k id => simp only [applyOp, World.regInstance]; omega
  | regSingleton c k sc => simp [applyOp, World.register]
  | regTransient c k sc => simp [applyOp, World.register]
  | resolve c k => exact applyOp_resolve_ext.next_le

theorem applyOp_good {w : World} (h : w.Good) (op : Op) : (applyOp w op).1.Good := by
  cases op with
  | regInstance c k id =>
    refine ⟨h.idle, ?_, ?_⟩
    · simp only [applyOp, World.regInstance]
      exact idsBelow_set h.ids (by omega) (fun i hi => by simp only [Provider.id?, Option.some.injEq] at hi; omega)
    · intro s p hp
      by_cases hs : s = ⟨c, k⟩
      · subst hs
        simp only [applyOp, World.regInstance, Reg.get_set_same, Option.some.injEq] at hp
        subst hp; trivial
      · simp only [applyOp, World.regInstance, Reg.get_set_other _ _ hs] at hp
        exact h.runs s p hp
  | regSingleton c k sc =>
    refine ⟨h.idle, ?_, ?_⟩
    · simp only [applyOp, World.register]
      have := idsBelow_set (s := ⟨c, k⟩) (p := .singleton sc none 0) h.ids (Nat.le_refl _)
        (fun i hi => by simp [Provider.id?] at hi)
      simpa using this
    · intro s p hp
      by_cases hs : s = ⟨c, k⟩
      · subst hs
        simp only [applyOp, World.register, Reg.get_set_same, Option.some.injEq] at hp
        subst hp; simp [Provider.RunsOk]
      · simp only [applyOp, World.register, Reg.get_set_other _ _ hs] at hp
        exact h.runs s p hp
  | regTransient c k sc =>
    refine ⟨h.idle, ?_, ?_⟩
    · simp only [applyOp, World.register]
      have := idsBelow_set (s := ⟨c, k⟩) (p := .transient sc 0) h.ids (Nat.le_refl _)
        (fun i hi => by simp [Provider.id?] at hi)
      simpa using this
    · intro s p hp
      by_cases hs : s = ⟨c, k⟩
      · subst hs
        simp only [applyOp, World.register, Reg.get_set_same, Option.some.injEq] at hp
        subst hp; trivial
      · simp only [applyOp, World.register, Reg.get_set_other _ _ hs] at hp
        exact h.runs s p hp
  | resolve c k =>
    have he : w.Ext (applyOp w (.resolve c k)).1 := applyOp_resolve_ext
    refine ⟨he.resolving.trans h.idle, ?_, he.runsOk h.runs⟩
    simp only [applyOp]
    exact resolveF_ids _ w c k h.ids

theorem runOps_good {w : World} (h : w.Good) (ops : List Op) : (runOps w ops).Good := by
  induction ops generalizing w with
  | nil => exact h
  | cons op ops ih => exact ih (applyOp_good h op)

theorem runOps_append (w : World) (a b : List Op) : runOps w (a ++ b) = runOps (runOps w a) b := by
  induction a generalizing w with
  | nil => rfl
  | cons op a ih => simp [runOps, ih]

theorem runOps_next_le (w : World) (ops : List Op) : w.next ≤ (runOps w ops).next := by
  induction ops generalizing w with
  | nil => exact Nat.le_refl _
  | cons op ops ih => exact Nat.le_trans (applyOp_next_le w op) (ih _)

/-- a slot no operation of the history registers stays unregistered -/
theorem runOps_get_none {w : World} {s : Slot} (ops : List Op) (hno : ∀ op ∈ ops, op.regSlot ≠ some s)
    (h : w.regs.get s = none) : (runOps w ops).regs.get s = none := by
  induction ops generalizing w with
  | nil => exact h
  | cons op ops ih =>
    apply ih (fun o ho => hno o (List.mem_cons_of_mem _ ho))
    have hop := hno op (List.mem_cons_self ..)
    cases hreg : op.regSlot with
    | some s' =>
      rw [applyOp_reg_other hreg (fun e => hop (by rw [hreg, e]))]; exact h
    | none =>
      cases op <;> simp [Op.regSlot] at hreg
      exact applyOp_resolve_ext.get_none h

/-- without a new registration of the slot, its provider only evolves -/
theorem runOps_evolves {w : World} {s : Slot} {p : Provider} (ops : List Op)
    (hno : ∀ op ∈ ops, op.regSlot ≠ some s) (h : w.regs.get s = some p) :
    ∃ p', (runOps w ops).regs.get s = some p' ∧ p.Evolves p' := by
  induction ops generalizing w p with
  | nil => exact ⟨p, h, Provider.Evolves.refl p⟩
  | cons op ops ih =>
    have hop := hno op (List.mem_cons_self ..)
    have hrest := fun o ho => hno o (List.mem_cons_of_mem _ ho)
    cases hreg : op.regSlot with
    | some s' =>
      have : (applyOp w op).1.regs.get s = some p := by
        rw [applyOp_reg_other hreg (fun e => hop (by rw [hreg, e]))]; exact h
      exact ih hrest this
    | none =>
      cases op <;> simp [Op.regSlot] at hreg
      obtain ⟨p1, hp1, e1⟩ := applyOp_resolve_ext.evolves s p h
      obtain ⟨p2, hp2, e2⟩ := ih hrest hp1
      exact ⟨p2, hp2, e1.trans e2⟩

end Fv.Ioc
