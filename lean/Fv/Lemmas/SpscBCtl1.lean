import Fv.Lemmas.SpscBRing
/-! Preservation of the control invariant `CInv` by every step of the SPSC step-level model (part 1). -/
namespace Fv.Chan.SpscB

attribute [local grind =] upd_apply
attribute [local grind] okAt kSide isRet inNotify
attribute [local grind cases] Role

syntax "cinv_step1 " ident ident " [" Lean.Parser.Tactic.simpLemma,* "]" : tactic
macro_rules
  | `(tactic| cinv_step1 $hi $h [$ls,*]) => `(tactic| (
  obtain ⟨c1, c2, c3, c4, c5⟩ := $hi
  simp only [$ls,*, setLoc, afterWake, afterClose] at $h:ident
  repeat' split at $h:ident
  all_goals (first | (simp at $h:ident <;> try subst $h:ident) | skip)
  all_goals (refine ⟨?_, ?_, ?_, ?_, ?_⟩ <;>
    (dsimp only; (try simp only [afterNotify, afterUnreg, afterPush, afterPop, loopTop, waitStep]); grind))))

set_option maxHeartbeats 2000000 in
theorem cinv_call {s s' : State} {r : Role} (hi : CInv s) (h : stepCall s r = some s') : CInv s' := by
  cinv_step1 hi h [stepCall]

set_option maxHeartbeats 2000000 in
theorem cinv_ret {s s' : State} {r : Role} (hi : CInv s) (h : stepRet s r = some s') : CInv s' := by
  cinv_step1 hi h [stepRet]

set_option maxHeartbeats 2000000 in
theorem cinv_ldTail {s s' : State} {r : Role} (hi : CInv s) (h : stepLdTail s r = some s') : CInv s' := by
  cinv_step1 hi h [stepLdTail]

set_option maxHeartbeats 2000000 in
theorem cinv_ldHead {s s' : State} {r : Role} (hi : CInv s) (h : stepLdHead s r = some s') : CInv s' := by
  cinv_step1 hi h [stepLdHead]

set_option maxHeartbeats 2000000 in
theorem cinv_stTail {s s' : State} {r : Role} (hi : CInv s) (h : stepStTail s r = some s') : CInv s' := by
  cinv_step1 hi h [stepStTail]

set_option maxHeartbeats 2000000 in
theorem cinv_stHead {s s' : State} {r : Role} (hi : CInv s) (h : stepStHead s r = some s') : CInv s' := by
  cinv_step1 hi h [stepStHead]

set_option maxHeartbeats 2000000 in
theorem cinv_fence {s s' : State} {r : Role} (hi : CInv s) (h : stepFence s r = some s') : CInv s' := by
  cinv_step1 hi h [stepFence]

set_option maxHeartbeats 2000000 in
theorem cinv_ldGate {s s' : State} {r : Role} (hi : CInv s) (h : stepLdGate s r = some s') : CInv s' := by
  cinv_step1 hi h [stepLdGate]

end Fv.Chan.SpscB
