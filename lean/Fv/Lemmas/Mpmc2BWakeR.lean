import Fv.Lemmas.Mpmc2BWakeK
/-! Registration group `InvR` of the mpmc v2 wake-up invariants (on `ReachB`; since fix cd494c8 of finding F17
a `RecvFuture` may be re-polled while still WAITING: `arTry` / `arReg` are registered control states). Generated boilerplate, one lemma per step function. -/
namespace Fv.Chan.Mpmc2B
set_option linter.unusedVariables false

/-- blocked / pending control states of a sender whose record must be enqueued while WAITING -/
def blockS : PC → Option Nat
  | .sWait _ r => some r | .sPark _ r => some r | .asPend _ r => some r | .asRef _ r => some r
  | .idle => none | .done _ => none | .sTry _ _ => none | .sReg _ _ => none | .sUnl _ _ _ => none | .tsTry _ => none
  | .rTry _ => none | .rReg _ => none | .rWait _ => none | .rPark _ => none | .rUnl _ => none | .trTry => none
  | .toTry _ => none | .toReg _ => none | .toRetry _ => none | .toCas _ => none | .toUnl _ => none | .toFin _ => none
  | .asNew _ _ => none | .asTry _ _ => none | .asReg _ _ => none | .asUnl _ _ _ => none | .fdUnlS _ _ => none
  | .arNew _ => none | .arTry _ => none | .arReg _ => none | .arPend _ => none | .arUnl _ => none | .fdUnlR _ => none
  | .hCloneS => none | .hCloneR => none | .hCloseS => none | .hCloseR => none | .hProbe => none | .hWake _ => none

def blockR : PC → Option Nat
  | .rWait r => some r | .rPark r => some r | .arPend r => some r
  | .idle => none | .done _ => none | .sTry _ _ => none | .sReg _ _ => none | .sWait _ _ => none | .sPark _ _ => none
  | .sUnl _ _ _ => none | .tsTry _ => none
  | .rTry _ => none | .rReg _ => none | .rUnl _ => none | .trTry => none
  | .toTry _ => none | .toReg _ => none | .toRetry _ => none | .toCas _ => none | .toUnl _ => none | .toFin _ => none
  | .asNew _ _ => none | .asTry _ _ => none | .asReg _ _ => none | .asPend _ _ => none | .asUnl _ _ _ => none
  | .asRef _ _ => none | .fdUnlS _ _ => none
  | .arNew _ => none | .arTry _ => none | .arReg _ => none | .arUnl _ => none | .fdUnlR _ => none
  | .hCloneS => none | .hCloneR => none | .hCloseS => none | .hCloseR => none | .hProbe => none | .hWake _ => none

theorem blockS_recOf {p : PC} {r : Nat} (h : blockS p = some r) : recOf p = some r := by
  cases p <;> simp_all [blockS, recOf]
theorem blockR_recOf {p : PC} {r : Nat} (h : blockR p = some r) : recOf p = some r := by
  cases p <;> simp_all [blockR, recOf]

structure InvR (s : State) : Prop where
  unreg_a : ∀ t r, unregA (s.pc t) = some r → r ∉ s.war
  r1 : ∀ r, r ∈ s.wsr ∨ r ∈ s.war → s.st r = .waiting → regAtR (s.pc (s.owner r)) = some r
  r2 : ∀ r, r ∈ s.wss ∨ r ∈ s.was → s.st r = .waiting → regAtS (s.pc (s.owner r)) = some r
  d1 : s.senders = 0 → ∀ r, r ∈ s.wsr ∨ r ∈ s.war → s.st r ≠ .waiting
  d2 : s.receivers = 0 → ∀ r, r ∈ s.wss ∨ r ∈ s.was → s.st r ≠ .waiting
  k4s : ∀ t r, blockS (s.pc t) = some r → s.st r = .waiting → r ∈ s.wss ∨ r ∈ s.was
  k4r : ∀ t r, blockR (s.pc t) = some r → s.st r = .waiting → r ∈ s.wsr ∨ r ∈ s.war
  fut_wsr : ∀ t r, recvFutRec (s.pc t) = some r → r ∉ s.wsr

theorem invR_init (cap : Nat) : InvR (init cap) := by
  constructor <;> simp [init, unregA, blockS, blockR, recvFutRec]

attribute [local grind] recOf sendSide recvFutRec unregA regAtR regAtS blockS blockR
attribute [local grind =] nodup_snoc upd_apply bump_apply List.Nodup.mem_erase_iff
attribute [local grind →] firstW_some firstW_none' frontW_some List.mem_of_mem_erase recvFutRec_recOf unregA_recOf
  regAtR_recOf regAtS_recOf blockS_recOf blockR_recOf
attribute [local grind ←] List.Nodup.erase nodup_filter
attribute [local grind cases] WS

theorem invR_sTry {s : State} {t : Nat} {v : Nat} {r : Nat} (hk : InvK s) (hi : InvR s) (hpc : s.pc t = .sTry v r) : InvR (stepSTry s t v r) := by
  obtain ⟨hk1, hk2, hk3, hk4, hk5, hk6, hk7, hk8⟩ := hk
  obtain ⟨h1, h2, h3, h4, h5, h6, h7, h8⟩ := hi
  unfold stepSTry
  repeat' split
  wk_close

theorem invR_sReg {s : State} {t : Nat} {v : Nat} {r : Nat} (hk : InvK s) (hi : InvR s) (hpc : s.pc t = .sReg v r) : InvR (stepSReg s t v r) := by
  obtain ⟨hk1, hk2, hk3, hk4, hk5, hk6, hk7, hk8⟩ := hk
  obtain ⟨h1, h2, h3, h4, h5, h6, h7, h8⟩ := hi
  unfold stepSReg
  repeat' split
  wk_close

theorem invR_sWait {s : State} {t : Nat} {v : Nat} {r : Nat} (hk : InvK s) (hi : InvR s) (hpc : s.pc t = .sWait v r) : InvR (stepSWait s t v r) := by
  obtain ⟨hk1, hk2, hk3, hk4, hk5, hk6, hk7, hk8⟩ := hk
  obtain ⟨h1, h2, h3, h4, h5, h6, h7, h8⟩ := hi
  unfold stepSWait
  repeat' split
  wk_close

theorem invR_sUnl {s : State} {t : Nat} {v : Nat} {r : Nat} {c : Bool} (hk : InvK s) (hi : InvR s) (hpc : s.pc t = .sUnl v r c) : InvR (stepSUnl s t v r c) := by
  obtain ⟨hk1, hk2, hk3, hk4, hk5, hk6, hk7, hk8⟩ := hk
  obtain ⟨h1, h2, h3, h4, h5, h6, h7, h8⟩ := hi
  unfold stepSUnl
  repeat' split
  wk_close

theorem invR_tsTry {s : State} {t : Nat} {v : Nat} (hk : InvK s) (hi : InvR s) (hpc : s.pc t = .tsTry v) : InvR (stepTsTry s t v) := by
  obtain ⟨hk1, hk2, hk3, hk4, hk5, hk6, hk7, hk8⟩ := hk
  obtain ⟨h1, h2, h3, h4, h5, h6, h7, h8⟩ := hi
  unfold stepTsTry
  repeat' split
  wk_close

theorem invR_rTry {s : State} {t : Nat} {r : Nat} (hk : InvK s) (hi : InvR s) (hpc : s.pc t = .rTry r) : InvR (stepRTry s t r) := by
  obtain ⟨hk1, hk2, hk3, hk4, hk5, hk6, hk7, hk8⟩ := hk
  obtain ⟨h1, h2, h3, h4, h5, h6, h7, h8⟩ := hi
  unfold stepRTry
  repeat' split
  wk_close

theorem invR_rReg {s : State} {t : Nat} {r : Nat} (hk : InvK s) (hi : InvR s) (hpc : s.pc t = .rReg r) : InvR (stepRReg s t r) := by
  obtain ⟨hk1, hk2, hk3, hk4, hk5, hk6, hk7, hk8⟩ := hk
  obtain ⟨h1, h2, h3, h4, h5, h6, h7, h8⟩ := hi
  unfold stepRReg
  repeat' split
  wk_close

theorem invR_rWait {s : State} {t : Nat} {r : Nat} (hk : InvK s) (hi : InvR s) (hpc : s.pc t = .rWait r) : InvR (stepRWait s t r) := by
  obtain ⟨hk1, hk2, hk3, hk4, hk5, hk6, hk7, hk8⟩ := hk
  obtain ⟨h1, h2, h3, h4, h5, h6, h7, h8⟩ := hi
  unfold stepRWait
  repeat' split
  wk_close

theorem invR_rUnl {s : State} {t : Nat} {r : Nat} (hk : InvK s) (hi : InvR s) (hpc : s.pc t = .rUnl r) : InvR (stepRUnl s t r) := by
  obtain ⟨hk1, hk2, hk3, hk4, hk5, hk6, hk7, hk8⟩ := hk
  obtain ⟨h1, h2, h3, h4, h5, h6, h7, h8⟩ := hi
  unfold stepRUnl
  repeat' split
  wk_close

theorem invR_trTry {s : State} {t : Nat} (hk : InvK s) (hi : InvR s) (hpc : s.pc t = .trTry) : InvR (stepTrTry s t ) := by
  obtain ⟨hk1, hk2, hk3, hk4, hk5, hk6, hk7, hk8⟩ := hk
  obtain ⟨h1, h2, h3, h4, h5, h6, h7, h8⟩ := hi
  unfold stepTrTry
  repeat' split
  wk_close

theorem invR_toTry {s : State} {t : Nat} {r : Nat} (hk : InvK s) (hi : InvR s) (hpc : s.pc t = .toTry r) : InvR (stepToTry s t r) := by
  obtain ⟨hk1, hk2, hk3, hk4, hk5, hk6, hk7, hk8⟩ := hk
  obtain ⟨h1, h2, h3, h4, h5, h6, h7, h8⟩ := hi
  unfold stepToTry
  repeat' split
  wk_close

theorem invR_toReg {s : State} {t : Nat} {r : Nat} (hk : InvK s) (hi : InvR s) (hpc : s.pc t = .toReg r) : InvR (stepToReg s t r) := by
  obtain ⟨hk1, hk2, hk3, hk4, hk5, hk6, hk7, hk8⟩ := hk
  obtain ⟨h1, h2, h3, h4, h5, h6, h7, h8⟩ := hi
  unfold stepToReg
  repeat' split
  wk_close

theorem invR_toRetry {s : State} {t : Nat} {r : Nat} (hk : InvK s) (hi : InvR s) (hpc : s.pc t = .toRetry r) : InvR (stepToRetry s t r) := by
  obtain ⟨hk1, hk2, hk3, hk4, hk5, hk6, hk7, hk8⟩ := hk
  obtain ⟨h1, h2, h3, h4, h5, h6, h7, h8⟩ := hi
  unfold stepToRetry
  repeat' split
  wk_close

theorem invR_toCas {s : State} {t : Nat} {r : Nat} (hk : InvK s) (hi : InvR s) (hpc : s.pc t = .toCas r) : InvR (stepToCas s t r) := by
  obtain ⟨hk1, hk2, hk3, hk4, hk5, hk6, hk7, hk8⟩ := hk
  obtain ⟨h1, h2, h3, h4, h5, h6, h7, h8⟩ := hi
  unfold stepToCas
  repeat' split
  wk_close

theorem invR_toUnl {s : State} {t : Nat} {r : Nat} (hk : InvK s) (hi : InvR s) (hpc : s.pc t = .toUnl r) : InvR (stepToUnl s t r) := by
  obtain ⟨hk1, hk2, hk3, hk4, hk5, hk6, hk7, hk8⟩ := hk
  obtain ⟨h1, h2, h3, h4, h5, h6, h7, h8⟩ := hi
  unfold stepToUnl
  repeat' split
  wk_close

theorem invR_toFin {s : State} {t : Nat} {r : Nat} (hk : InvK s) (hi : InvR s) (hpc : s.pc t = .toFin r) : InvR (stepToFin s t r) := by
  obtain ⟨hk1, hk2, hk3, hk4, hk5, hk6, hk7, hk8⟩ := hk
  obtain ⟨h1, h2, h3, h4, h5, h6, h7, h8⟩ := hi
  unfold stepToFin
  repeat' split
  wk_close

theorem invR_asTry {s : State} {t : Nat} {v : Nat} {r : Nat} (hk : InvK s) (hi : InvR s) (hpc : s.pc t = .asTry v r) : InvR (stepAsTry s t v r) := by
  obtain ⟨hk1, hk2, hk3, hk4, hk5, hk6, hk7, hk8⟩ := hk
  obtain ⟨h1, h2, h3, h4, h5, h6, h7, h8⟩ := hi
  unfold stepAsTry
  repeat' split
  wk_close

theorem invR_asReg {s : State} {t : Nat} {v : Nat} {r : Nat} (hk : InvK s) (hi : InvR s) (hpc : s.pc t = .asReg v r) : InvR (stepAsReg s t v r) := by
  obtain ⟨hk1, hk2, hk3, hk4, hk5, hk6, hk7, hk8⟩ := hk
  obtain ⟨h1, h2, h3, h4, h5, h6, h7, h8⟩ := hi
  unfold stepAsReg
  repeat' split
  wk_close

theorem invR_asUnl {s : State} {t : Nat} {v : Nat} {r : Nat} {c : Bool} (hk : InvK s) (hi : InvR s) (hpc : s.pc t = .asUnl v r c) : InvR (stepAsUnl s t v r c) := by
  obtain ⟨hk1, hk2, hk3, hk4, hk5, hk6, hk7, hk8⟩ := hk
  obtain ⟨h1, h2, h3, h4, h5, h6, h7, h8⟩ := hi
  unfold stepAsUnl
  repeat' split
  wk_close

theorem invR_asRef {s : State} {t : Nat} {v : Nat} {r : Nat} (hk : InvK s) (hi : InvR s) (hpc : s.pc t = .asRef v r) : InvR (stepAsRef s t v r) := by
  obtain ⟨hk1, hk2, hk3, hk4, hk5, hk6, hk7, hk8⟩ := hk
  obtain ⟨h1, h2, h3, h4, h5, h6, h7, h8⟩ := hi
  unfold stepAsRef
  repeat' split
  wk_close

theorem invR_fdUnlS {s : State} {t : Nat} {v : Nat} {r : Nat} (hk : InvK s) (hi : InvR s) (hpc : s.pc t = .fdUnlS v r) : InvR (stepFdUnlS s t v r) := by
  obtain ⟨hk1, hk2, hk3, hk4, hk5, hk6, hk7, hk8⟩ := hk
  obtain ⟨h1, h2, h3, h4, h5, h6, h7, h8⟩ := hi
  unfold stepFdUnlS
  repeat' split
  wk_close

theorem invR_arTry {s : State} {t : Nat} {r : Nat} (hk : InvK s) (hi : InvR s) (hpc : s.pc t = .arTry r) : InvR (stepArTry s t r) := by
  obtain ⟨hk1, hk2, hk3, hk4, hk5, hk6, hk7, hk8⟩ := hk
  obtain ⟨h1, h2, h3, h4, h5, h6, h7, h8⟩ := hi
  unfold stepArTry
  repeat' split
  wk_close

theorem invR_arReg {s : State} {t : Nat} {r : Nat} (hk : InvK s) (hi : InvR s) (hpc : s.pc t = .arReg r) : InvR (stepArReg s t r) := by
  obtain ⟨hk1, hk2, hk3, hk4, hk5, hk6, hk7, hk8⟩ := hk
  obtain ⟨h1, h2, h3, h4, h5, h6, h7, h8⟩ := hi
  unfold stepArReg
  repeat' split
  wk_close

theorem invR_arUnl {s : State} {t : Nat} {r : Nat} (hk : InvK s) (hi : InvR s) (hpc : s.pc t = .arUnl r) : InvR (stepArUnl s t r) := by
  obtain ⟨hk1, hk2, hk3, hk4, hk5, hk6, hk7, hk8⟩ := hk
  obtain ⟨h1, h2, h3, h4, h5, h6, h7, h8⟩ := hi
  unfold stepArUnl
  repeat' split
  wk_close

theorem invR_fdUnlR {s : State} {t : Nat} {r : Nat} (hk : InvK s) (hi : InvR s) (hpc : s.pc t = .fdUnlR r) : InvR (stepFdUnlR s t r) := by
  obtain ⟨hk1, hk2, hk3, hk4, hk5, hk6, hk7, hk8⟩ := hk
  obtain ⟨h1, h2, h3, h4, h5, h6, h7, h8⟩ := hi
  unfold stepFdUnlR
  repeat' split
  wk_close

theorem invR_hWake {s : State} {t : Nat} {ws : List Nat} (hk : InvK s) (hi : InvR s) (hpc : s.pc t = .hWake ws) : InvR (stepHWake s t ws) := by
  obtain ⟨hk1, hk2, hk3, hk4, hk5, hk6, hk7, hk8⟩ := hk
  obtain ⟨h1, h2, h3, h4, h5, h6, h7, h8⟩ := hi
  unfold stepHWake
  repeat' split
  wk_close

theorem invR_sPark {s s' : State} {t : Nat} {v : Nat} {r : Nat} (hk : InvK s) (hi : InvR s) (hpc : s.pc t = .sPark v r) (h : stepSPark s t v r = some s') : InvR s' := by
  obtain ⟨hk1, hk2, hk3, hk4, hk5, hk6, hk7, hk8⟩ := hk
  obtain ⟨h1, h2, h3, h4, h5, h6, h7, h8⟩ := hi
  unfold stepSPark at h
  repeat' split at h
  all_goals (simp at h; try subst h)
  wk_close

theorem invR_rPark {s s' : State} {t : Nat} {r : Nat} (hk : InvK s) (hi : InvR s) (hpc : s.pc t = .rPark r) (h : stepRPark s t r = some s') : InvR s' := by
  obtain ⟨hk1, hk2, hk3, hk4, hk5, hk6, hk7, hk8⟩ := hk
  obtain ⟨h1, h2, h3, h4, h5, h6, h7, h8⟩ := hi
  unfold stepRPark at h
  repeat' split at h
  all_goals (simp at h; try subst h)
  wk_close

theorem invR_closeS {s s' : State} {t : Nat} (hk : InvK s) (hi : InvR s) (hpc : s.pc t = .hCloseS) (h : stepCloseS s t  = some s') : InvR s' := by
  obtain ⟨hk1, hk2, hk3, hk4, hk5, hk6, hk7, hk8⟩ := hk
  obtain ⟨h1, h2, h3, h4, h5, h6, h7, h8⟩ := hi
  unfold stepCloseS at h
  repeat' split at h
  all_goals (simp at h; try subst h)
  wk_close

theorem invR_closeR {s s' : State} {t : Nat} (hk : InvK s) (hi : InvR s) (hpc : s.pc t = .hCloseR) (h : stepCloseR s t  = some s') : InvR s' := by
  obtain ⟨hk1, hk2, hk3, hk4, hk5, hk6, hk7, hk8⟩ := hk
  obtain ⟨h1, h2, h3, h4, h5, h6, h7, h8⟩ := hi
  unfold stepCloseR at h
  repeat' split at h
  all_goals (simp at h; try subst h)
  wk_close

theorem invR_adv {s s' : State} {t : Nat} (hk : InvK s) (hi : InvR s) (h : stepAdv s t = some s') : InvR s' := by
  unfold stepAdv at h
  split at h
  all_goals (first | (simp at h; done) | skip)
  all_goals rename_i hpc
  case h_1 => simp at h; subst h; exact invR_sTry hk hi hpc
  case h_2 => simp at h; subst h; exact invR_sReg hk hi hpc
  case h_3 => simp at h; subst h; exact invR_sWait hk hi hpc
  case h_4 => exact invR_sPark hk hi hpc h
  case h_5 => simp at h; subst h; exact invR_sUnl hk hi hpc
  case h_6 => simp at h; subst h; exact invR_tsTry hk hi hpc
  case h_7 => simp at h; subst h; exact invR_rTry hk hi hpc
  case h_8 => simp at h; subst h; exact invR_rReg hk hi hpc
  case h_9 => simp at h; subst h; exact invR_rWait hk hi hpc
  case h_10 => exact invR_rPark hk hi hpc h
  case h_11 => simp at h; subst h; exact invR_rUnl hk hi hpc
  case h_12 => simp at h; subst h; exact invR_trTry hk hi hpc
  case h_13 => simp at h; subst h; exact invR_toTry hk hi hpc
  case h_14 => simp at h; subst h; exact invR_toReg hk hi hpc
  case h_15 => simp at h; subst h; exact invR_toRetry hk hi hpc
  case h_16 => simp at h; subst h; exact invR_toCas hk hi hpc
  case h_17 => simp at h; subst h; exact invR_toUnl hk hi hpc
  case h_18 => simp at h; subst h; exact invR_toFin hk hi hpc
  case h_19 => simp at h; subst h; exact invR_asTry hk hi hpc
  case h_20 => simp at h; subst h; exact invR_asReg hk hi hpc
  case h_21 => simp at h; subst h; exact invR_asUnl hk hi hpc
  case h_22 => simp at h; subst h; exact invR_asRef hk hi hpc
  case h_23 => simp at h; subst h; exact invR_fdUnlS hk hi hpc
  case h_24 => simp at h; subst h; exact invR_arTry hk hi hpc
  case h_25 => simp at h; subst h; exact invR_arReg hk hi hpc
  case h_26 => simp at h; subst h; exact invR_arUnl hk hi hpc
  case h_27 => simp at h; subst h; exact invR_fdUnlR hk hi hpc
  case h_28 =>
    simp at h; subst h
    obtain ⟨hk1, hk2, hk3, hk4, hk5, hk6, hk7, hk8⟩ := hk
    obtain ⟨h1, h2, h3, h4, h5, h6, h7, h8⟩ := hi
    wk_close
  case h_29 =>
    simp at h; subst h
    obtain ⟨hk1, hk2, hk3, hk4, hk5, hk6, hk7, hk8⟩ := hk
    obtain ⟨h1, h2, h3, h4, h5, h6, h7, h8⟩ := hi
    wk_close
  case h_30 => exact invR_closeS hk hi hpc h
  case h_31 => exact invR_closeR hk hi hpc h
  case h_32 =>
    simp at h; subst h
    obtain ⟨hk1, hk2, hk3, hk4, hk5, hk6, hk7, hk8⟩ := hk
    obtain ⟨h1, h2, h3, h4, h5, h6, h7, h8⟩ := hi
    wk_close
  case h_33 => simp at h; subst h; exact invR_hWake hk hi hpc

set_option maxHeartbeats 1000000 in
theorem invR_call {s s' : State} {t : Nat} {op : Op} (hk : InvK s) (hi : InvR s) (h : stepCall s t op = some s') : InvR s' := by
  obtain ⟨hk1, hk2, hk3, hk4, hk5, hk6, hk7, hk8⟩ := hk
  obtain ⟨h1, h2, h3, h4, h5, h6, h7, h8⟩ := hi
  unfold stepCall at h
  split at h
  · rename_i hr
    have hr' : s.pc t = .idle ∨ ∃ x, s.pc t = .done x := by
      cases hp : s.pc t <;> simp_all [PC.atRest]
    cases op <;> simp only [] at h
    all_goals (repeat' split at h)
    all_goals (simp at h; try subst h)
    wk_close
  · simp at h

theorem invR_poll {s s' : State} {t : Nat} (hk : InvK s) (hi : InvR s) (hb : Benign s t .poll) (h : stepPoll s t = some s') : InvR s' := by
  obtain ⟨hk1, hk2, hk3, hk4, hk5, hk6, hk7, hk8⟩ := hk
  obtain ⟨h1, h2, h3, h4, h5, h6, h7, h8⟩ := hi
  unfold stepPoll at h
  repeat' split at h
  all_goals (simp at h; try subst h)
  all_goals (try simp only [Benign, *] at hb)
  wk_close

theorem invR_dropFut {s s' : State} {t : Nat} (hk : InvK s) (hi : InvR s) (hb : Benign s t .dropFut) (h : stepDropFut s t = some s') : InvR s' := by
  obtain ⟨hk1, hk2, hk3, hk4, hk5, hk6, hk7, hk8⟩ := hk
  obtain ⟨h1, h2, h3, h4, h5, h6, h7, h8⟩ := hi
  unfold stepDropFut at h
  repeat' split at h
  all_goals (simp at h; try subst h)
  all_goals (try simp only [Benign, *] at hb)
  wk_close

theorem invR_spurious {s s' : State} {t : Nat} (hk : InvK s) (hi : InvR s) (h : stepSpurious s t = some s') : InvR s' := by
  obtain ⟨hk1, hk2, hk3, hk4, hk5, hk6, hk7, hk8⟩ := hk
  obtain ⟨h1, h2, h3, h4, h5, h6, h7, h8⟩ := hi
  unfold stepSpurious at h
  repeat' split at h
  all_goals (simp at h; try subst h)
  wk_close

theorem invR_step {s s' : State} {t : Nat} {l : Label} (hk : InvK s) (hi : InvR s) (hb : Benign s t l) (h : step s t l = some s') : InvR s' := by
  cases l <;> simp only [step] at h
  · exact invR_call hk hi h
  · exact invR_adv hk hi h
  · exact invR_poll hk hi hb h
  · exact invR_dropFut hk hi hb h
  · exact invR_spurious hk hi h


theorem invR_reach {cap : Nat} {s : State} (h : ReachB cap s) : InvR s := by
  induction h with
  | init => exact invR_init cap
  | step hr hb hs ih => exact invR_step (invK_reach hr.reach) ih hb hs

end Fv.Chan.Mpmc2B
