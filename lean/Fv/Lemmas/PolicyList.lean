import Fv.Cache.Policy.LruList
/-!
# List-level vocabulary and `LruList` lemmas for C14

`keys`, `costSum`, `costOf` on association lists `List (key × cost)`; the
well-formedness invariant `LruList.WF`; exact list equations for every `LruList`
operation; and the generic contract predicates (`EvictSound`, `AccessOk`,
`AdmitOk`, `RemoveOk`) in which the C14 theorems are stated.
-/
namespace Fv.Cache.Policy

/-- keys of an association list, in list order -/
def keys (l : List (Nat × Nat)) : List Nat := l.map (·.1)
/-- total recorded cost -/
def costSum (l : List (Nat × Nat)) : Nat := (l.map (·.2)).sum
/-- recorded cost of `k` (first binding) -/
def costOf (l : List (Nat × Nat)) (k : Nat) : Option Nat :=
  (l.find? (fun p => p.1 == k)).map (·.2)

@[simp] theorem keys_nil : keys [] = [] := rfl
@[simp] theorem keys_cons (p : Nat × Nat) (l) : keys (p :: l) = p.1 :: keys l := rfl
@[simp] theorem keys_append (a b) : keys (a ++ b) = keys a ++ keys b := by simp [keys]
@[simp] theorem costSum_nil : costSum [] = 0 := rfl
@[simp] theorem costSum_cons (p : Nat × Nat) (l) : costSum (p :: l) = p.2 + costSum l := by
  simp [costSum]
@[simp] theorem costSum_append (a b) : costSum (a ++ b) = costSum a + costSum b := by
  simp [costSum]
@[simp] theorem costOf_nil (k) : costOf [] k = none := rfl
theorem costOf_cons (p : Nat × Nat) (l k) :
    costOf (p :: l) k = if p.1 = k then some p.2 else costOf l k := by
  by_cases h : p.1 = k <;> simp [costOf, h]

theorem mem_keys {l : List (Nat × Nat)} {k : Nat} : k ∈ keys l ↔ ∃ c, (k, c) ∈ l := by
  simp [keys]

theorem mem_keys_of_mem {l : List (Nat × Nat)} {p : Nat × Nat} (h : p ∈ l) : p.1 ∈ keys l :=
  List.mem_map_of_mem h

theorem keys_perm {a b : List (Nat × Nat)} (h : a.Perm b) : (keys a).Perm (keys b) := h.map _
theorem costSum_perm {a b : List (Nat × Nat)} (h : a.Perm b) : costSum a = costSum b :=
  (h.map _).sum_nat

theorem costOf_eq_none_iff {l : List (Nat × Nat)} {k : Nat} : costOf l k = none ↔ k ∉ keys l := by
  induction l with
  | nil => simp
  | cons p l ih =>
    rw [costOf_cons]
    by_cases h : p.1 = k
    · simp [h]
    · have h' : ¬ k = p.1 := fun e => h e.symm
      simp [h, h', ih]

theorem costOf_isSome_iff {l : List (Nat × Nat)} {k : Nat} : (costOf l k).isSome ↔ k ∈ keys l := by
  have := @costOf_eq_none_iff l k
  cases hc : costOf l k <;> simp_all

theorem mem_of_costOf {l : List (Nat × Nat)} {k c : Nat} (h : costOf l k = some c) : (k, c) ∈ l := by
  induction l with
  | nil => simp at h
  | cons p l ih =>
    rw [costOf_cons] at h
    by_cases hp : p.1 = k
    · simp [hp] at h; subst hp; subst h; simp
    · simp [hp] at h; exact List.mem_cons_of_mem _ (ih h)

theorem costOf_eq_some_iff {l : List (Nat × Nat)} (hnd : (keys l).Nodup) {k c : Nat} :
    costOf l k = some c ↔ (k, c) ∈ l := by
  refine ⟨mem_of_costOf, ?_⟩
  induction l with
  | nil => simp
  | cons p l ih =>
    intro hm
    rw [costOf_cons]
    simp only [keys_cons, List.nodup_cons] at hnd
    rcases List.mem_cons.1 hm with rfl | hm
    · simp
    · have : p.1 ≠ k := fun e => hnd.1 (e ▸ mem_keys_of_mem hm)
      simp [this, ih hnd.2 hm]

/-! ### `without` -/

@[simp] theorem mem_without {l : List (Nat × Nat)} {k : Nat} {p : Nat × Nat} :
    p ∈ LruList.without l k ↔ p ∈ l ∧ p.1 ≠ k := by simp [LruList.without]

theorem without_sublist (l : List (Nat × Nat)) (k) : (LruList.without l k).Sublist l :=
  List.filter_sublist

theorem keys_sublist {a b : List (Nat × Nat)} (h : a.Sublist b) : (keys a).Sublist (keys b) := h.map _

theorem nodup_without {l : List (Nat × Nat)} (k) (h : (keys l).Nodup) :
    (keys (LruList.without l k)).Nodup := (keys_sublist (without_sublist l k)).nodup h

theorem not_mem_keys_without (l : List (Nat × Nat)) (k) : k ∉ keys (LruList.without l k) := by
  simp [keys, LruList.without]

theorem mem_keys_without {l : List (Nat × Nat)} {k x : Nat} :
    x ∈ keys (LruList.without l k) ↔ x ∈ keys l ∧ x ≠ k := by
  simp only [mem_keys, mem_without]
  constructor
  · rintro ⟨c, h1, h2⟩; exact ⟨⟨c, h1⟩, h2⟩
  · rintro ⟨⟨c, h1⟩, h2⟩; exact ⟨c, h1, h2⟩

theorem without_eq_self {l : List (Nat × Nat)} {k : Nat} (h : k ∉ keys l) : LruList.without l k = l := by
  simp only [LruList.without, List.filter_eq_self]
  intro p hp
  have : p.1 ≠ k := fun e => h (e ▸ mem_keys_of_mem hp)
  simpa using this

theorem without_append (a b : List (Nat × Nat)) (k) :
    LruList.without (a ++ b) k = LruList.without a k ++ LruList.without b k := by
  simp [LruList.without]

theorem without_cons_self (l : List (Nat × Nat)) (k c) :
    LruList.without ((k, c) :: l) k = LruList.without l k := by simp [LruList.without]

theorem without_cons_ne (l : List (Nat × Nat)) {p : Nat × Nat} {k} (h : p.1 ≠ k) :
    LruList.without (p :: l) k = p :: LruList.without l k := by simp [LruList.without, h]

/-- with distinct keys, `l` is `(k,c)` plus `l` without `k`, up to order -/
theorem perm_without {l : List (Nat × Nat)} (hnd : (keys l).Nodup) {k c : Nat} (hm : (k, c) ∈ l) :
    l.Perm ((k, c) :: LruList.without l k) := by
  induction l with
  | nil => simp at hm
  | cons p l ih =>
    simp only [keys_cons, List.nodup_cons] at hnd
    rcases List.mem_cons.1 hm with rfl | hm
    · rw [without_cons_self, without_eq_self hnd.1]
    · have hne : p.1 ≠ k := fun e => hnd.1 (e ▸ mem_keys_of_mem hm)
      rw [without_cons_ne _ hne]
      exact ((ih hnd.2 hm).cons p).trans (List.Perm.swap _ _ _)

theorem costSum_without {l : List (Nat × Nat)} (hnd : (keys l).Nodup) {k c : Nat}
    (h : costOf l k = some c) : costSum (LruList.without l k) + c = costSum l := by
  have := costSum_perm (perm_without hnd (mem_of_costOf h))
  simp at this; omega

theorem without_concat_self {init : List (Nat × Nat)} {k c : Nat}
    (hnd : (keys (init ++ [(k, c)])).Nodup) : LruList.without (init ++ [(k, c)]) k = init := by
  have hk : k ∉ keys init := by
    simp only [keys_append, List.nodup_append] at hnd
    intro hm; exact hnd.2.2 k hm k (by simp) rfl
  rw [without_append, without_eq_self hk]; simp [LruList.without]

/-! ### `LruList` -/
namespace LruList

/-- distinct keys and the running total equals the sum of the recorded costs -/
def WF (l : LruList) : Prop := (keys l.items).Nodup ∧ l.cost = costSum l.items

theorem lookup_eq (l : LruList) (k) : l.lookup k = costOf l.items k := rfl

theorem contains_iff (l : LruList) (k) : l.contains k = true ↔ k ∈ keys l.items := by
  simp [contains, lookup_eq, costOf_isSome_iff]

theorem contains_false_iff (l : LruList) (k) : l.contains k = false ↔ k ∉ keys l.items := by
  rw [← contains_iff]; simp

theorem WF_empty : WF {} := by simp [WF]

/-- `push_front` always yields `(k,c)` in front of the other entries -/
theorem pushFront_items (l : LruList) (k c) : (l.pushFront k c).items = (k, c) :: without l.items k := by
  unfold pushFront
  split
  · rfl
  · next h => rw [lookup_eq, costOf_eq_none_iff] at h; simp [without_eq_self h]

theorem pushFront_WF {l : LruList} (h : l.WF) (k c) : (l.pushFront k c).WF := by
  refine ⟨?_, ?_⟩
  · rw [pushFront_items]; simp only [keys_cons, List.nodup_cons]
    exact ⟨not_mem_keys_without _ _, nodup_without k h.1⟩
  · unfold pushFront
    split
    · next old ho =>
      have := costSum_without h.1 ho
      simp [h.2]; omega
    · simp [h.2]; omega

theorem moveToFront_items (l : LruList) (k) :
    (l.moveToFront k).items = match costOf l.items k with
      | some c => (k, c) :: without l.items k
      | none => l.items := by
  unfold moveToFront; rw [lookup_eq]; split <;> simp_all

theorem moveToFront_cost (l : LruList) (k) : (l.moveToFront k).cost = l.cost := by
  unfold moveToFront; split <;> rfl

theorem moveToFront_perm {l : LruList} (h : l.WF) (k) : (l.moveToFront k).items.Perm l.items := by
  rw [moveToFront_items]; split
  · next c hc => exact (perm_without h.1 (mem_of_costOf hc)).symm
  · exact .refl _

theorem moveToFront_WF {l : LruList} (h : l.WF) (k) : (l.moveToFront k).WF := by
  have hp := moveToFront_perm h k
  exact ⟨(keys_perm hp).nodup_iff.2 h.1, by rw [moveToFront_cost, costSum_perm hp, h.2]⟩

theorem remove_items (l : LruList) (k) : (l.remove k).1.items = without l.items k := by
  unfold remove; split
  · rfl
  · next h => rw [lookup_eq, costOf_eq_none_iff] at h; simp [without_eq_self h]

theorem remove_snd (l : LruList) (k) : (l.remove k).2 = costOf l.items k := by
  unfold remove; rw [lookup_eq]; split <;> simp_all

theorem remove_WF {l : LruList} (h : l.WF) (k) : (l.remove k).1.WF := by
  refine ⟨by rw [remove_items]; exact nodup_without k h.1, ?_⟩
  unfold remove; split
  · next c hc => have := costSum_without h.1 hc; simp [h.2]; omega
  · exact h.2

theorem remove_eq_none {l : LruList} {k} (h : k ∉ keys l.items) : l.remove k = (l, none) := by
  unfold remove; rw [lookup_eq, costOf_eq_none_iff.2 h]

theorem remove_eq_some {l : LruList} {k c} (h : costOf l.items k = some c) :
    l.remove k = ({ items := without l.items k, cost := l.cost - c }, some c) := by
  unfold remove; rw [lookup_eq, h]

theorem popBack_nil {l : LruList} (h : l.items = []) : l.popBack = (l, none) := by
  unfold popBack; simp [h]

/-- `pop_back` on a well-formed list removes exactly the last entry -/
theorem popBack_concat {l : LruList} (hw : l.WF) {init k c} (h : l.items = init ++ [(k, c)]) :
    l.popBack = ({ items := init, cost := l.cost - c }, some (k, c)) := by
  have hnd := hw.1; rw [h] at hnd
  have hc : costOf l.items k = some c := (costOf_eq_some_iff hw.1).2 (by simp [h])
  unfold popBack
  simp only [h, List.getLast?_concat]
  rw [remove_eq_some hc, h, without_concat_self hnd]

theorem popBack_concat_WF {l : LruList} (hw : l.WF) {init k c} (h : l.items = init ++ [(k, c)]) :
    WF { items := init, cost := l.cost - c } := by
  have := remove_WF hw k
  have hc : costOf l.items k = some c := (costOf_eq_some_iff hw.1).2 (by simp [h])
  have hnd := hw.1; rw [h] at hnd
  rw [remove_eq_some hc, h, without_concat_self hnd] at this
  exact this

theorem tailKey_concat {l : LruList} {init k c} (h : l.items = init ++ [(k, c)]) : l.tailKey = some k := by
  simp [tailKey, h]

theorem tailKey_nil {l : LruList} (h : l.items = []) : l.tailKey = none := by simp [tailKey, h]

theorem mem_pushFront {l : LruList} {k c : Nat} {p : Nat × Nat} :
    p ∈ (l.pushFront k c).items ↔ p = (k, c) ∨ (p ∈ l.items ∧ p.1 ≠ k) := by
  rw [pushFront_items]; simp

theorem mem_keys_pushFront {l : LruList} {k c x : Nat} :
    x ∈ keys (l.pushFront k c).items ↔ x = k ∨ x ∈ keys l.items := by
  rw [pushFront_items, keys_cons, List.mem_cons, mem_keys_without]
  by_cases h : x = k <;> simp [h]

theorem mem_remove {l : LruList} {k : Nat} {p : Nat × Nat} :
    p ∈ (l.remove k).1.items ↔ p ∈ l.items ∧ p.1 ≠ k := by
  rw [remove_items]; simp

theorem mem_keys_remove {l : LruList} {k x : Nat} :
    x ∈ keys (l.remove k).1.items ↔ x ∈ keys l.items ∧ x ≠ k := by
  rw [remove_items, mem_keys_without]

theorem remove_snd_isSome {l : LruList} {k : Nat} : (l.remove k).2.isSome ↔ k ∈ keys l.items := by
  rw [remove_snd, costOf_isSome_iff]

end LruList

/-! ### Contract predicates -/

/-- Contract of one `evict` call, relating the tracked list before (`t`) and after (`t'`),
the nominated victims and the reported freed cost. -/
structure EvictSound (t t' : List (Nat × Nat)) (vs : List Nat) (freed : Nat) : Prop where
  /-- no key is nominated twice -/
  nodup : vs.Nodup
  /-- every victim was tracked -/
  tracked : ∀ k ∈ vs, k ∈ keys t
  /-- the reported cost is exactly the sum of the victims' recorded costs -/
  freed_eq : freed = (vs.map (fun k => (costOf t k).getD 0)).sum
  /-- victims are no longer tracked -/
  gone : ∀ k ∈ vs, k ∉ keys t'
  /-- every other tracked (key, cost) pair is unchanged, and nothing new is tracked -/
  kept : ∀ p, p ∈ t' ↔ p ∈ t ∧ p.1 ∉ vs
  /-- still no duplicates -/
  nodup' : (keys t').Nodup

/-- `access k` neither tracks nor untracks anything; entries of other keys are unchanged -/
structure AccessOk (t t' : List (Nat × Nat)) (k : Nat) : Prop where
  others : ∀ p, p.1 ≠ k → (p ∈ t' ↔ p ∈ t)
  self : k ∈ keys t' ↔ k ∈ keys t

/-- `admit k` returning `victims`: afterwards exactly the old keys plus `k` minus the nominated
victims are tracked; entries of other keys are unchanged; victims were tracked (or are `k`). -/
structure AdmitOk (t t' : List (Nat × Nat)) (k : Nat) (victims : List Nat) : Prop where
  others : ∀ p, p.1 ≠ k → (p ∈ t' ↔ p ∈ t ∧ p.1 ∉ victims)
  self : k ∈ keys t' ↔ k ∉ victims
  victims_tracked : ∀ v ∈ victims, v = k ∨ v ∈ keys t

/-- `remove k` untracks exactly `k` -/
def RemoveOk (t t' : List (Nat × Nat)) (k : Nat) : Prop := ∀ p, p ∈ t' ↔ p ∈ t ∧ p.1 ≠ k

/-- keys a policy's `on_admit` result nominates for eviction -/
def Admission.victims : Admission → List Nat
  | .admit => []
  | .reject => []
  | .admitAndEvict vs => vs

/-- generic source of `EvictSound`: the old tracked list is, up to order, the new one plus the
popped entries, and the victims / freed cost are read off the popped entries. -/
theorem EvictSound.of_perm {t t' popped : List (Nat × Nat)} (hnd : (keys t).Nodup)
    (hp : t.Perm (t' ++ popped)) : EvictSound t t' (keys popped) (costSum popped) := by
  have hk := keys_perm hp
  have hnd2 : (keys t' ++ keys popped).Nodup := by simpa using hk.nodup_iff.1 hnd
  rw [List.nodup_append] at hnd2
  have hmem : ∀ p, p ∈ popped → p ∈ t := fun p h => hp.mem_iff.2 (by simp [h])
  refine ⟨hnd2.2.1, ?_, ?_, ?_, ?_, hnd2.1⟩
  · intro k hk'; exact hk.mem_iff.2 (by simp [hk'])
  · simp only [costSum, keys, List.map_map]
    congr 1
    apply List.map_congr_left
    intro p hp'
    have : costOf t p.1 = some p.2 := (costOf_eq_some_iff hnd).2 (hmem p hp')
    simp [this]
  · intro k hk1 hk2; exact hnd2.2.2 k hk2 k hk1 rfl
  · intro p
    constructor
    · intro h
      exact ⟨hp.mem_iff.2 (by simp [h]), fun h2 => hnd2.2.2 _ (mem_keys_of_mem h) _ h2 rfl⟩
    · rintro ⟨h1, h2⟩
      rcases List.mem_append.1 (hp.mem_iff.1 h1) with h | h
      · exact h
      · exact absurd (mem_keys_of_mem h) h2

theorem AccessOk.of_perm {t t' : List (Nat × Nat)} (h : t'.Perm t) (k) : AccessOk t t' k :=
  ⟨fun _ _ => h.mem_iff, (keys_perm h).mem_iff⟩

theorem AccessOk.rfl' {t : List (Nat × Nat)} (k) : AccessOk t t k := AccessOk.of_perm (.refl _) k

theorem AdmitOk.of_push (t : List (Nat × Nat)) (k c) :
    AdmitOk t ((k, c) :: LruList.without t k) k [] := by
  refine ⟨?_, by simp, by simp⟩
  intro p hp
  have : p ≠ (k, c) := fun e => hp (by simp [e])
  simp [this, hp]

theorem AdmitOk.of_noop {t : List (Nat × Nat)} {k} (h : k ∈ keys t) : AdmitOk t t k [] :=
  ⟨by simp, by simp [h], by simp⟩

theorem RemoveOk.of_without (t : List (Nat × Nat)) (k) : RemoveOk t (LruList.without t k) k :=
  fun _ => mem_without

theorem costOf_push (t : List (Nat × Nat)) (k c) : costOf ((k, c) :: t) k = some c := by
  simp [costOf_cons]

theorem costOf_append (a b : List (Nat × Nat)) (k) :
    costOf (a ++ b) k = (costOf a k).or (costOf b k) := by
  induction a with
  | nil => simp
  | cons p a ih => simp only [List.cons_append, costOf_cons]; split <;> simp [ih]

theorem AccessOk.mem_keys {t t' : List (Nat × Nat)} {k : Nat} (h : AccessOk t t' k) (x : Nat) :
    x ∈ keys t' ↔ x ∈ keys t := by
  by_cases hx : x = k
  · subst hx; exact h.self
  · simp only [Fv.Cache.Policy.mem_keys]
    constructor
    · rintro ⟨c, hc⟩; exact ⟨c, (h.others (x, c) hx).1 hc⟩
    · rintro ⟨c, hc⟩; exact ⟨c, (h.others (x, c) hx).2 hc⟩

theorem nodup_keys_append {a b : List (Nat × Nat)} (ha : (keys a).Nodup) (hb : (keys b).Nodup)
    (hd : ∀ x, x ∈ keys a → x ∉ keys b) : (keys (a ++ b)).Nodup := by
  rw [keys_append, List.nodup_append]
  exact ⟨ha, hb, fun x hx y hy e => hd x hx (e ▸ hy)⟩

/-! ### generic facts for the array-backed policies (SIEVE, Clock) -/

theorem perm_eraseIdx {α} {l : List α} {i : Nat} {e : α} (h : l[i]? = some e) :
    l.Perm (e :: l.eraseIdx i) := by
  induction l generalizing i with
  | nil => simp at h
  | cons a l ih =>
    cases i with
    | zero => simp at h; subst h; simp
    | succ i =>
      simp at h
      simp only [List.eraseIdx_cons_succ]
      exact ((ih h).cons a).trans (List.Perm.swap _ _ _)

theorem map_set_same {α β} {f : α → β} {l : List α} {i : Nat} {e e' : α} (h : l[i]? = some e)
    (hf : f e' = f e) : (l.set i e').map f = l.map f := by
  induction l generalizing i with
  | nil => simp
  | cons a l ih =>
    cases i with
    | zero => simp at h; subst h; simp [hf]
    | succ i => simp at h; simp [ih h]

theorem without_map {α} (f : α → Nat × Nat) (l : List α) (k : Nat) :
    LruList.without (l.map f) k = (l.filter (fun e => (f e).1 != k)).map f := by
  simp only [LruList.without, List.filter_map]; rfl

theorem AdmitOk.of_perm {t t' t'' : List (Nat × Nat)} {k : Nat} {v : List Nat} (h : AdmitOk t t' k v)
    (hp : t''.Perm t') : AdmitOk t t'' k v :=
  ⟨fun p hpk => hp.mem_iff.trans (h.others p hpk), (keys_perm hp).mem_iff.trans h.self,
    h.victims_tracked⟩

theorem AdmitOk.of_append_new {t : List (Nat × Nat)} {k : Nat} (hk : k ∉ keys t) (c : Nat) :
    AdmitOk t (t ++ [(k, c)]) k [] := by
  have := AdmitOk.of_push t k c
  rw [without_eq_self hk] at this
  exact this.of_perm (List.perm_append_comm (l₂ := [(k, c)]))

theorem RemoveOk.of_perm_cons {t t' : List (Nat × Nat)} {k c : Nat} (hnd : (keys t).Nodup)
    (hp : t.Perm ((k, c) :: t')) : RemoveOk t t' k := by
  have hnd' := (keys_perm hp).nodup_iff.1 hnd
  simp only [keys_cons, List.nodup_cons] at hnd'
  intro p
  constructor
  · intro h
    exact ⟨hp.mem_iff.2 (List.mem_cons_of_mem _ h), fun e => hnd'.1 (e ▸ mem_keys_of_mem h)⟩
  · rintro ⟨h1, h2⟩
    rcases List.mem_cons.1 (hp.mem_iff.1 h1) with rfl | h
    · exact absurd rfl h2
    · exact h

theorem RemoveOk.of_not_mem {t : List (Nat × Nat)} {k : Nat} (hk : k ∉ keys t) : RemoveOk t t k :=
  fun _ => ⟨fun h => ⟨h, fun e => hk (e ▸ mem_keys_of_mem h)⟩, fun h => h.1⟩

end Fv.Cache.Policy
