import Fv.Lemmas.SyncMutexNlw
/-!
Accounting of `WOKEN` queued nodes (`PWk`): a marked node's owner will run, or the handle that
unblocks it is still in flight.  Assembly of `WInv_step`, `WInv_reach`.
-/
namespace Fv.Sync.Mutex
open Fv.Sync
variable {cfg : Cfg} {s s' : State} {t : Tid} {l : Lbl}

/-- the handle keeps designating the owner of a queued node (or the node leaves the queue) -/
theorem targets_step (hi : Inv s) (hw : WInv s) (h : Step cfg s t l s') {w : Waiter} {n : Nid}
    (ht : Targets s w n) (hl : (s.wl.node n).linked = true) :
    Targets s' w n ∨ (s'.wl.node n).linked = false := by
  cases w with
  | thread u =>
    cases n with
    | thr u' => exact Or.inl ht
    | fut f =>
      obtain ⟨hb, hc, hp⟩ := ht
      have hph := hi.futNode f hl
      have hbo : (s'.fut f).bo = true := by
        rcases step_bo h f with h1 | h1
        · rw [h1]; exact hb
        · rw [hph] at h1; cases h1
      by_cases hu : u = t
      · subst hu
        have hblk : (s.th u).blockOn = true := by rw [hw.boc u f hc hp]; exact hb
        rcases bo_poller_local hi hw h f hc hp hblk with ⟨h1, h2⟩ | h1
        · exact Or.inl ⟨hbo, h1, h2⟩
        · exact Or.inr h1
      · left
        refine ⟨hbo, ?_, ?_⟩ <;> rw [step_th_other h u hu] <;> assumption
  | task f =>
    cases n with
    | thr u' => cases ht
    | fut f' =>
      obtain ⟨he, hb⟩ := ht
      subst he
      have hph := hi.futNode f hl
      left
      refine ⟨rfl, ?_⟩
      rcases step_bo h f with h1 | h1
      · rw [h1]; exact hb
      · rw [hph] at h1; cases h1

set_option maxHeartbeats 16000000 in
/-- what the stepping thread does with the handle it carries -/
theorem postwake_local (hi : Inv s) (h : Step cfg s t l s') {w : Waiter}
    (hp : postWakePc (s.th t).pc = true) (hw0 : (s.th t).w = some w) :
    (postWakePc (s'.th t).pc = true ∧ (s'.th t).w = some w)
    ∨ (∃ u, w = .thread u ∧ s'.token u = true)
    ∨ (∃ f, w = .task f ∧ 0 < s'.wakes f) := by
  have a1 := hi.syncCur t; have a2 := hi.asyncCur t
  clear hi
  step_cases h
  all_goals (try norm_state)
  all_goals wg

set_option maxHeartbeats 16000000 in
/-- a node becomes `WOKEN` only through `take_and_mark_woken`, whose caller then carries the handle -/
theorem woken_set_local (hi : Inv s) (hw : WInv s) (h : Step cfg s t l s') :
    ∀ n, (s'.wl.node n).linked = true → (s'.wl.node n).woken = true →
      ((s.wl.node n).linked = true ∧ (s.wl.node n).woken = true)
      ∨ ((s.wl.node n).linked = true ∧ postWakePc (s'.th t).pc = true ∧ (s'.th t).w = (s.wl.node n).waiter
          ∧ (s.wl.node n).waiter ≠ none) := by
  have a1 := hi.syncCur t; have a2 := hi.asyncCur t; have a5 := hi.ffOk t
  have b5 := hw.t1 t
  have c := hw.w2
  have d := hi.wf.linked
  unfold PW2 at c
  clear hi hw
  step_cases h
  all_goals (intro n h1 h2)
  all_goals (try norm_state)
  all_goals (first | wg | grind [List.mem_of_mem_head?, preWakePc, postWakePc])

set_option maxHeartbeats 16000000 in
/-- the stepping thread does not become blocked on a node that is queued and `WOKEN` -/
theorem blocked_local (hi : Inv s) (hw : WInv s) (h : Step cfg s t l s') :
    (((s'.th t).pc = .wPark ∧ s'.token t = false) →
        ((s.th t).pc = .wPark ∧ s.token t = false) ∨ ((s.th t).cur = none ∧ (s.wl.node (.thr t)).woken = false))
    ∧ (∀ f, ((s'.th t).cur = some f ∧ (s'.th t).pc = .boPark ∧ s'.token t = false) →
        ((s.th t).cur = some f ∧ (s.th t).pc = .boPark ∧ s.token t = false)
        ∨ (s.wl.node (.fut f)).woken = false)
    ∧ (∀ f, (s.th t).cur = some f → futPc (s.th t).pc = true → (s'.fut f).busy = false →
        (s'.wl.node (.fut f)).linked = false ∨ (s.wl.node (.fut f)).woken = false) := by
  have a1 := hi.syncCur t; have a2 := hi.asyncCur t; have a5 := hi.ffOk t
  have b3 := hw.qz t
  have b1 : ∀ f, (s.th t).cur = some f → futPc (s.th t).pc = true → (s.fut f).busy = true :=
    fun f hc hp => (hi.busy t f hc hp).1
  have b4 := hi.phNode t; have b5 := hi.futUnl t; have b6 := hi.phFresh t; have b7 := hi.phStarted t
  have c := hi.futNode
  unfold PFutNode at c
  clear hi hw
  step_cases h
  all_goals (try norm_state)
  all_goals wg

end Fv.Sync.Mutex
