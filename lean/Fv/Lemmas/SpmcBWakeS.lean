import Fv.Lemmas.SpmcBWakeFrame
/-! Wake-up invariants, parts 1 and 2: preservation by the steps of the sender operations. -/
namespace Fv.Chan.SpmcB
open Fv.Chan.LeftRightB (upd upd_apply upd_same)

/-- the park flag is IDLE whenever the sender-side thread is outside the armed region -/
theorem flag0_of_cold {s : State} (ha : InvA s) (h2 : InvW2 s) {t : Nat} {q : SPC} (hq : s.pc t = .snd q)
    (hc : armed2 q = false) : s.flag = 0 := by
  have h1 : s.flag ≠ 1 := by
    intro h
    have := (h2.parked t q hq h).1
    cases q <;> simp_all [armed2, armed1, armed0]
  have h3 : s.flag ≠ 2 := by
    intro h; have := h2.consuming t q hq h; rw [hc] at this; cases this
  have := ha.flag2; omega

/-- shape of the targets of cold steps -/
def ColdPC (cap : Nat) (p : PC) : Prop :=
  (∀ q', p = .snd q' → armed0 q' = false ∧ kOf q' ≤ cap) ∧ (∀ k, p = .snd (.sHead k) → rk k = false)

/-- sender step outside the armed region to a control state outside `armed0` -/
theorem invW2_S_cold {s s' : State} {t : Nat} {q : SPC} {p' : PC} (ha : InvA s) (h2 : InvW2 s) (hq : s.pc t = .snd q)
    (hpc : s'.pc = upd s.pc t p') (hso : s'.sOwner = if isRet p' then none else s.sOwner) (hp : okS p')
    (hcap : s'.cap = s.cap) (hflag : s'.flag = s.flag) (hc : armed2 q = false)
    (hcold : ColdPC s.cap p') : InvW2 s' := by
  obtain ⟨hk, hsh⟩ := hcold
  have h0 := flag0_of_cold ha h2 hq hc
  refine invW2_S ha h2 hq hpc hso hp hcap ?_ ?_ ?_ ?_ ?_ ?_ hsh
  · intro q' _ hf; rw [hflag, h0] at hf; cases hf
  · intro res _; rw [hflag]; exact h0
  · intro q' _ hf; rw [hflag, h0] at hf; cases hf
  · intro q' e ha0; rw [(hk q' e).1] at ha0; cases ha0
  · intro q' _ hf; rw [hflag, h0] at hf; cases hf
  · intro q' e; exact (hk q' e).2

theorem cold_ret (cap : Nat) (res : Res) : ColdPC cap (.ret res) := by
  constructor
  · intro q' e; cases e
  · intro k e; cases e

syntax "cold_snd" : tactic
macro_rules | `(tactic| cold_snd) => `(tactic|
  (refine ⟨fun q' e => ?_, fun k e => ?_⟩
   · cases e; simp only [armed0, kOf, rk]; first | exact ⟨rfl, Nat.zero_le _⟩ | exact ⟨trivial, Nat.zero_le _⟩
   · first | (cases e; rfl) | cases e))

theorem cold_retryPC (cap : Nat) (x : SCtx) : ColdPC cap (retryPC x) := by unfold retryPC; split <;> cold_snd
theorem cold_dkCont (cap : Nat) (d : DK) : ColdPC cap (dkCont d) := by
  unfold dkCont; split <;> first | apply cold_ret | apply cold_retryPC
theorem cold_afterWrite (cap x k) : ColdPC cap (afterWrite x k) := by
  unfold afterWrite; repeat' split
  all_goals first | apply cold_ret | cold_snd
theorem cold_wakeOr (cap x k acc) : ColdPC cap (wakeOr x k acc) := by
  unfold wakeOr; split <;> first | apply cold_afterWrite | cold_snd

syntax "cold_tac" : tactic
macro_rules | `(tactic| cold_tac) => `(tactic|
  first | apply cold_ret | apply cold_retryPC | apply cold_dkCont | apply cold_afterWrite | apply cold_wakeOr | cold_snd)


/-- cold sender step: nothing but the control state (and fields no wake invariant reads) changes -/
syntax "coldS " ident ident ident : tactic
macro_rules | `(tactic| coldS $ha $hw $hq) => `(tactic|
  exact ⟨invW1_S (InvW.w1 $hw) $hq rfl (by okS_tac) rfl rfl rfl Iff.rfl,
         invW2_S_cold $ha (InvW.w2 $hw) $hq rfl rfl (by okS_tac) rfl rfl rfl (by cold_tac)⟩)

/-- warm sender step inside the armed region that keeps flag, handle, tokens and ghost sets -/
theorem invW2_S_warm {s s' : State} {t : Nat} {q q' : SPC} (ha : InvA s) (h2 : InvW2 s) (hq : s.pc t = .snd q)
    (hpc : s'.pc = upd s.pc t (.snd q')) (hso : s'.sOwner = s.sOwner) (hcap : s'.cap = s.cap)
    (hflag : s'.flag = s.flag) (hpth : s'.pthread = s.pthread) (htok : s'.token = s.token) (hupk : s'.upk = s.upk)
    (h1 : armed1 q = true → armed1 q' = true) (h2' : armed2 q = true → armed2 q' = true)
    (h0 : armed0 q' = true → armed0 q = true)
    (hwit : s.flag = 1 → witPC s q → witPC s' q') (hk : kOf q' = 0) (hsh : ∀ k, q' ≠ .sHead k) : InvW2 s' := by
  refine invW2_S ha h2 hq hpc (by rw [hso]; rfl) (okS_snd _) hcap ?_ (fun res e => by cases e) ?_ ?_ ?_ ?_ ?_
  · intro q'' e hf; cases e; rw [hflag] at hf
    have := h2.parked t q hq hf
    exact ⟨h1 this.1, by rw [hpth]; exact this.2⟩
  · intro q'' e hf; cases e; rw [hflag] at hf; exact h2' (h2.consuming t q hq hf)
  · intro q'' e ha0 hf; cases e; rw [hflag] at hf; rw [htok, hupk]; exact h2.handed t q hq (h0 ha0) hf
  · intro q'' e hf; cases e; rw [hflag] at hf; exact hwit hf (h2.wit t q hq hf)
  · intro q'' e; cases e; rw [hk]; exact Nat.zero_le _
  · intro k e; cases e; exact absurd rfl (hsh k)


/-- a cell of the producer's snapshot is still published, or its unregistration has been published
by a thread that has not yet tested the park flag -/
theorem snap_mem_pub_or_wq {s : State} (hl : LRI s) (hs : Safe s) (h1 : InvW1 s) {t : Nat} {k : ScanK} {h i : Nat}
    {done todo : List Nat} {m : Option Nat} (hq : s.pc t = .snd (.sScan k h i done todo m)) {r : Nat}
    (hr : r ∈ done ++ todo) : r ∈ s.pub ∨ s.wq ≠ [] := by
  have hst := hl.stage t
  simp only [hq, lrpc, lrpcS, LeftRightB.stageOK] at hst
  obtain ⟨hi2, hdata⟩ := hst
  have hmem : r ∈ s.lr.data i := by rw [hdata]; exact hr
  by_cases hlive : i = s.lr.live
  · left; show r ∈ s.lr.data s.lr.live; rw [← hlive]; exact hmem
  · obtain ⟨w, hw⟩ := hl.view t i (done ++ todo) (by simp only [hq, lrpc, lrpcS]) hlive
    obtain ⟨rw, kw, p, hpw, hwp⟩ := writer_is_mMod hs hw
    have hstw := hl.stage w
    simp only [hpw, lrpc, lrpcR] at hstw
    have hfw := hs.rf w rw _ hpw
    have key : ∃ o, s.lr.live = 1 - i ∧ s.lr.data (1 - i) = apL o (s.lr.data i) ∧ opOf p = some o ∧
        (p = .wWait o i ∨ p = .wSpin o i) := by
      cases p <;> simp only [LeftRightB.waitingOn] at hwp
      · subst hwp; simp only [LeftRightB.stageOK] at hstw; exact ⟨_, hstw.1, hstw.2.2, rfl, Or.inl rfl⟩
      · subst hwp; simp only [LeftRightB.stageOK] at hstw; exact ⟨_, hstw.1, hstw.2.2, rfl, Or.inr rfl⟩
    obtain ⟨o, hlv, hd, hop, hpp⟩ := key
    cases kw with
    | clone n =>
      simp only [rFact] at hfw
      have := hfw.2.2.1 o hop; subst this
      left; show r ∈ s.lr.data s.lr.live
      rw [hlv, hd]; simp only [apL, List.mem_append]; exact Or.inl hmem
    | unreg =>
      simp only [rFact] at hfw
      have := hfw.2.2.2.1 o hop; subst this
      by_cases e : r = rw
      · right
        have : w ∈ s.wq := (h1.wq_iff w).2 (by
          rw [hpw]; rcases hpp with rfl | rfl <;> rfl)
        intro hnil; rw [hnil] at this; cases this
      · left; show r ∈ s.lr.data s.lr.live
        rw [hlv, hd]; simp only [apL, List.mem_filter]; exact ⟨hmem, by simpa using e⟩


theorem wakeP_sScan {s s' : State} {t : Nat} {k : ScanK} {h0 i : Nat} {done todo : List Nat} {m : Option Nat}
    (ha : InvA s) (hl : LRI s) (hs : Safe s) (hw : InvW s)
    (hq : s.pc t = .snd (.sScan k h0 i done todo m)) (h : stepSScan s t k h0 i done todo m = some s') :
    InvW1 s' ∧ InvW2 s' := by
  unfold stepSScan at h
  cases todo with
  | nil => cases h
  | cons r rest =>
    by_cases hrk : rk k = true
    · -- armed: maintain the Dekker witness
      have hha : headAfter k = true := by cases k <;> simp_all [rk, headAfter]
      have hwit : s.flag = 1 →
          (newArg m (s.cur r) r s.argm ∈ s.pub ∧ s.cur (newArg m (s.cur r) r s.argm) = omin m (s.cur r)) ∨ s.wq ≠ [] := by
        intro hf
        have hr := snap_mem_pub_or_wq hl hs hw.w1 hq (r := r) (by simp)
        cases m with
        | none => rcases hr with hr | hr
                  · exact Or.inl ⟨hr, rfl⟩
                  · exact Or.inr hr
        | some mv =>
          simp only [newArg, omin]
          split
          · rename_i hlt
            rcases hr with hr | hr
            · exact Or.inl ⟨hr, by omega⟩
            · exact Or.inr hr
          · rename_i hge
            have := hw.w2.wit t _ hq hf
            simp only [witPC] at this
            rcases this hrk with ⟨a, b⟩ | hh
            · exact Or.inl ⟨a, by omega⟩
            · exact Or.inr hh
      cases rest with
      | nil =>
        simp only [hha, if_true] at h
        cases h
        refine ⟨invW1_S hw.w1 hq rfl (by okS_tac) rfl rfl rfl Iff.rfl, ?_⟩
        refine invW2_S_warm ha hw.w2 hq rfl rfl rfl rfl rfl rfl rfl ?_ ?_ ?_ ?_ rfl (fun _ e => by cases e)
        · intro _; simp only [armed1, armed0]; exact hrk
        · intro _; simp only [armed2, armed1, armed0]; exact hrk
        · intro _; simp only [armed0]; exact hrk
        · intro hf _; simp only [witPC]; intro _; exact hwit hf
      | cons r2 rest2 =>
        simp only [] at h
        cases h
        refine ⟨invW1_S hw.w1 hq rfl (by okS_tac) rfl rfl rfl Iff.rfl, ?_⟩
        refine invW2_S_warm ha hw.w2 hq rfl rfl rfl rfl rfl rfl rfl ?_ ?_ ?_ ?_ rfl (fun _ e => by cases e)
        · intro _; simp only [armed1, armed0]; exact hrk
        · intro _; simp only [armed2, armed1, armed0]; exact hrk
        · intro _; simp only [armed0]; exact hrk
        · intro hf _; simp only [witPC]; intro _; exact hwit hf
    · -- not a re-check: cold
      have hrk' : rk k = false := by simpa using hrk
      have hcold : armed2 (.sScan k h0 i done (r :: rest) m) = false := by simp only [armed2, armed1, armed0]; exact hrk'
      cases rest with
      | nil =>
        simp only [] at h
        split at h
        · cases h
          exact ⟨invW1_S hw.w1 hq rfl (by okS_tac) rfl rfl rfl Iff.rfl,
            invW2_S_cold ha hw.w2 hq rfl rfl (by okS_tac) rfl rfl hcold
              ⟨fun q' e => by cases e; exact ⟨hrk', Nat.zero_le _⟩, fun _ e => by cases e⟩⟩
        · cases h
          exact ⟨invW1_S hw.w1 hq rfl (by okS_tac) rfl rfl rfl Iff.rfl,
            invW2_S_cold ha hw.w2 hq rfl rfl (by okS_tac) rfl rfl hcold
              ⟨fun q' e => by cases e; exact ⟨hrk', Nat.zero_le _⟩, fun _ e => by cases e⟩⟩
      | cons r2 rest2 =>
        simp only [] at h
        cases h
        exact ⟨invW1_S hw.w1 hq rfl (by okS_tac) rfl rfl rfl Iff.rfl,
          invW2_S_cold ha hw.w2 hq rfl rfl (by okS_tac) rfl rfl hcold
            ⟨fun q' e => by cases e; exact ⟨hrk', Nat.zero_le _⟩, fun _ e => by cases e⟩⟩


theorem wakeP_sEnter {s s' : State} {t : Nat} {k : ScanK} {h0 : Nat} {p : LPC}
    (ha : InvA s) (hs : Safe s) (hw : InvW s)
    (hq : s.pc t = .snd (.sEnter k h0 p)) (h : stepSEnter s t k h0 p = some s') : InvW1 s' ∧ InvW2 s' := by
  have hf := hs.sf t _ hq
  simp only [sFact] at hf
  have f4 := hf.2.2.2
  -- every outcome is `sEnter k h0 _`, `sScan k h0 _ [] _ none` or `sExit k h0 _ _ none`
  have gen : ∀ (q' : SPC) (s1 : State), s1.pc = upd s.pc t (.snd q') → s1.sOwner = s.sOwner → s1.cap = s.cap →
      s1.flag = s.flag → s1.pthread = s.pthread → s1.token = s.token → s1.upk = s.upk → s1.wq = s.wq → s1.csm = s.csm →
      armed0 q' = rk k → kOf q' = 0 → (∀ k', q' ≠ .sHead k') → witPC s1 q' → InvW1 s1 ∧ InvW2 s1 := by
    intro q' s1 e1 e2 e3 e4 e5 e6 e7 e8 e9 ea ek esh ew
    refine ⟨invW1_S hw.w1 hq e1 (okS_snd _) e8 e7 e9 (by rw [e4]), ?_⟩
    by_cases hrk : rk k = true
    · refine invW2_S_warm ha hw.w2 hq e1 e2 e3 e4 e5 e6 e7 ?_ ?_ ?_ (fun _ _ => ew) ek esh
      · intro _; cases q' <;> simp_all [armed1, armed0]
      · intro _; cases q' <;> simp_all [armed2, armed1, armed0]
      · intro _; simp only [armed0]; exact hrk
    · have hrk' : rk k = false := by simpa using hrk
      refine invW2_S_cold ha hw.w2 hq e1 (by rw [e2]; rfl) (okS_snd _) e3 e4 ?_ ⟨?_, ?_⟩
      · simp only [armed2, armed1, armed0]; exact hrk'
      · intro q'' e; cases e; exact ⟨by rw [ea]; exact hrk', by rw [ek]; exact Nat.zero_le _⟩
      · intro k' e; cases e; exact absurd rfl (esh k')
  unfold stepSEnter at h
  cases p <;> simp only [isRd] at f4 <;> (first | cases f4 | skip) <;> simp only [lrLabel, LeftRightB.step] at h
  case rLoad => cases h; exact gen _ _ rfl rfl rfl rfl rfl rfl rfl rfl rfl rfl rfl (fun _ e => by cases e) trivial
  case rInc i => cases h; exact gen _ _ rfl rfl rfl rfl rfl rfl rfl rfl rfl rfl rfl (fun _ e => by cases e) trivial
  case rChk i =>
    by_cases hl : s.lr.live = i
    · simp only [hl, if_true] at h
      cases h
      unfold commitPC
      repeat' split
      all_goals exact gen _ _ rfl rfl rfl rfl rfl rfl rfl rfl rfl rfl rfl (fun _ e => by cases e) trivial
    · simp only [hl, if_false] at h
      cases h; exact gen _ _ rfl rfl rfl rfl rfl rfl rfl rfl rfl rfl rfl (fun _ e => by cases e) trivial
  case rBack i => cases h; exact gen _ _ rfl rfl rfl rfl rfl rfl rfl rfl rfl rfl rfl (fun _ e => by cases e) trivial


theorem spaceK_le (cap h mv n : Nat) : spaceK cap h mv n ≤ cap := by unfold spaceK; omega

theorem wakeP_sExit {s s' : State} {t : Nat} {k : ScanK} {h0 i : Nat} {L : List Nat} {m : Option Nat}
    (ha : InvA s) (hs : Safe s) (hw : InvW s)
    (hq : s.pc t = .snd (.sExit k h0 i L m)) (h : stepSExit s t k h0 i L m = some s') : InvW1 s' ∧ InvW2 s' := by
  have hf := hs.sf t _ hq
  simp only [sFact] at hf
  have hcp := hs.g.cap_pos
  unfold stepSExit at h
  simp only [LeftRightB.step] at h
  cases h
  refine ⟨invW1_S hw.w1 hq rfl (by okS_tac) rfl rfl rfl Iff.rfl, ?_⟩
  by_cases hrk : rk k = true
  · -- re-check: to pPark / dCas
    refine invW2_S ha hw.w2 hq rfl rfl (by okS_tac) rfl ?_ ?_ ?_ ?_ ?_ ?_ ?_
    · intro q' e hf1
      have := hw.w2.parked t _ hq hf1
      refine ⟨?_, this.2⟩
      cases k <;> simp only [rk] at hrk <;> (first | cases hrk | skip) <;> cases m <;> simp only [afterScan] at e
      all_goals (first | (cases e; rfl) | (split at e <;> cases e <;> rfl))
    · intro res e
      cases k <;> simp only [rk] at hrk <;> (first | cases hrk | skip) <;> cases m <;> simp only [afterScan] at e
      all_goals (first | cases e | (split at e <;> cases e))
    · intro q' e hf2
      cases k <;> simp only [rk] at hrk <;> (first | cases hrk | skip) <;> cases m <;> simp only [afterScan] at e
      all_goals (first | (cases e; rfl) | (split at e <;> cases e <;> rfl))
    · intro q' e ha0 hf0
      have hh := hw.w2.handed t _ hq (by simp only [armed0]; exact hrk) hf0
      exact hh
    · intro q' e hf1
      have hwit := hw.w2.wit t _ hq hf1
      cases k <;> simp only [rk] at hrk <;> (first | cases hrk | skip) <;> cases m <;> simp only [afterScan] at e
      all_goals (first | (cases e; trivial) | skip)
      all_goals
        rename_i x mv
        have ⟨a, _, _⟩ := hf.2.2 mv rfl
        simp only [hOK2] at a
        simp only [witPC] at hwit
        by_cases hfull : h0 - mv ≥ s.cap
        · simp only [hfull, if_true] at e
          cases e
          show (s.argm ∈ s.pub ∧ s.cur s.argm + s.cap ≤ s.head) ∨ s.wq ≠ []
          rcases hwit rfl with ⟨w1, w2⟩ | w
          · left; refine ⟨w1, ?_⟩
            have e1 : s.core.head = s.head := rfl
            have e2 : s.cap = s.core.cap := rfl
            rw [e2] at hfull ⊢
            omega
          · exact Or.inr w
        · simp only [hfull, if_false] at e
          cases e; trivial
    · intro q' e
      cases k <;> simp only [rk] at hrk <;> (first | cases hrk | skip) <;> cases m <;> simp only [afterScan] at e
      all_goals (first | (cases e; exact Nat.zero_le _) | (split at e <;> cases e <;> exact Nat.zero_le _))
    · intro k' e
      cases k <;> simp only [rk] at hrk <;> (first | cases hrk | skip) <;> cases m <;> simp only [afterScan] at e
      all_goals (first | cases e | (split at e <;> cases e))
  · have hrk' : rk k = false := by simpa using hrk
    refine invW2_S_cold ha hw.w2 hq rfl rfl (by okS_tac) rfl rfl (by simp only [armed2, armed1, armed0]; exact hrk') ⟨?_, ?_⟩
    · intro q' e
      cases k <;> simp only [rk] at hrk' <;> (first | cases hrk' | skip) <;> cases m <;> simp only [afterScan] at e
      all_goals (repeat' split at e)
      all_goals (cases e)
      all_goals (simp only [armed0, kOf])
      all_goals first | exact ⟨rfl, Nat.zero_le _⟩ | exact ⟨rfl, hcp⟩ | exact ⟨rfl, spaceK_le _ _ _ _⟩ | exact ⟨trivial, Nat.zero_le _⟩ | exact ⟨trivial, hcp⟩ | exact ⟨trivial, spaceK_le _ _ _ _⟩
    · intro k' e
      cases k <;> simp only [rk] at hrk' <;> (first | cases hrk' | skip) <;> cases m <;> simp only [afterScan] at e
      all_goals (repeat' split at e)
      all_goals cases e


theorem wakeP_actS {s s' : State} {t : Nat} {p : SPC} (ha : InvA s) (hl : LRI s) (hs : Safe s) (hw : InvW s)
    (hq : s.pc t = .snd p) (h : actS s t p = some s') : InvW1 s' ∧ InvW2 s' := by
  have hcp : 0 < s.cap := hs.g.cap_pos
  cases p <;> simp only [actS] at h
  case sFlag x => cases h; unfold stepSFlag; split <;> coldS ha hw hq
  case sHead k =>
    cases h
    have hrk := hw.w2.shead t k hq
    refine ⟨invW1_S hw.w1 hq rfl (by okS_tac) rfl rfl rfl Iff.rfl, ?_⟩
    refine invW2_S_cold ha hw.w2 hq rfl rfl (by okS_tac) rfl rfl rfl ⟨?_, fun _ e => by cases e⟩
    intro q' e; cases e; exact ⟨hrk, Nat.zero_le _⟩
  case sEnter k h0 p => exact wakeP_sEnter ha hs hw hq h
  case sScan k h0 i done todo m => exact wakeP_sScan ha hl hs hw hq h
  case sHead2 k i L m =>
    cases h
    refine ⟨invW1_S hw.w1 hq rfl (by okS_tac) rfl rfl rfl Iff.rfl, ?_⟩
    by_cases hrk : rk k = true
    · refine invW2_S_warm ha hw.w2 hq rfl rfl rfl rfl rfl rfl rfl ?_ ?_ ?_ ?_ rfl (fun _ e => by cases e)
      · intro _; simp only [armed1, armed0]; exact hrk
      · intro _; simp only [armed2, armed1, armed0]; exact hrk
      · intro _; simp only [armed0]; exact hrk
      · intro _ hwit; exact hwit
    · have hrk' : rk k = false := by simpa using hrk
      refine invW2_S_cold ha hw.w2 hq rfl rfl (by okS_tac) rfl rfl (by simp only [armed2, armed1, armed0]; exact hrk') ⟨?_, fun _ e => by cases e⟩
      intro q' e; cases e; exact ⟨hrk', Nat.zero_le _⟩
  case sExit k h0 i L m => exact wakeP_sExit ha hs hw hq h
  case bHead x k =>
    cases h
    have hk := hw.w2.kcap t _ hq
    refine ⟨invW1_S hw.w1 hq rfl (by okS_tac) rfl rfl rfl Iff.rfl, ?_⟩
    refine invW2_S_cold ha hw.w2 hq rfl rfl (by okS_tac) rfl rfl rfl ⟨?_, fun _ e => by cases e⟩
    intro q' e; cases e; exact ⟨rfl, hk⟩
  case wSeqLd x h0 j k =>
    cases h
    have hk := hw.w2.kcap t _ hq
    refine ⟨invW1_S hw.w1 hq rfl (by okS_tac) rfl rfl rfl Iff.rfl, ?_⟩
    refine invW2_S_cold ha hw.w2 hq rfl rfl (by okS_tac) rfl rfl rfl ⟨?_, fun _ e => by cases e⟩
    intro q' e; cases e; exact ⟨rfl, hk⟩
  case wVal x h0 j k q =>
    cases h
    have hk := hw.w2.kcap t _ hq
    refine ⟨invW1_S hw.w1 hq rfl (by okS_tac) rfl rfl rfl Iff.rfl, ?_⟩
    refine invW2_S_cold ha hw.w2 hq rfl rfl (by okS_tac) rfl rfl rfl ⟨?_, fun _ e => by cases e⟩
    intro q' e; cases e; exact ⟨rfl, hk⟩
  case wSeqSt x h0 j k =>
    cases h
    have hk := hw.w2.kcap t _ hq
    unfold stepWSeqSt
    split
    · refine ⟨invW1_S hw.w1 hq rfl (by okS_tac) rfl rfl rfl Iff.rfl, ?_⟩
      refine invW2_S_cold ha hw.w2 hq rfl rfl (by okS_tac) rfl rfl rfl ⟨?_, fun _ e => by cases e⟩
      intro q' e; cases e; exact ⟨rfl, hk⟩
    · refine ⟨invW1_S hw.w1 hq rfl (by okS_tac) rfl rfl rfl Iff.rfl, ?_⟩
      refine invW2_S_cold ha hw.w2 hq rfl rfl (by okS_tac) rfl rfl rfl ⟨?_, fun _ e => by cases e⟩
      intro q' e; cases e; exact ⟨rfl, hk⟩
  case wHeadSt x h0 k =>
    cases h
    have hk := hw.w2.kcap t _ hq
    refine ⟨invW1_S hw.w1 hq rfl (by okS_tac) rfl rfl rfl Iff.rfl, ?_⟩
    refine invW2_S_cold ha hw.w2 hq rfl rfl (by okS_tac) rfl rfl rfl ⟨?_, fun _ e => by cases e⟩
    intro q' e; cases e; exact ⟨rfl, hk⟩
  case wLockW x h0 j k acc =>
    have hk := hw.w2.kcap t _ hq
    unfold stepWLockW at h
    split at h
    · cases h
      refine ⟨invW1_S hw.w1 hq rfl (by okS_tac) rfl rfl rfl Iff.rfl, ?_⟩
      refine invW2_S_cold ha hw.w2 hq rfl rfl (by okS_tac) rfl rfl rfl ⟨?_, fun _ e => by cases e⟩
      intro q' e; cases e; exact ⟨rfl, hk⟩
    · cases h
  case wUnlockW x h0 j k acc =>
    cases h
    have hk := hw.w2.kcap t _ hq
    unfold stepWUnlockW
    split
    · refine ⟨invW1_S hw.w1 hq rfl (by okS_tac) rfl rfl rfl Iff.rfl, ?_⟩
      refine invW2_S_cold ha hw.w2 hq rfl rfl (by okS_tac) rfl rfl rfl ⟨?_, fun _ e => by cases e⟩
      intro q' e; cases e; exact ⟨rfl, hk⟩
    · coldS ha hw hq
  case wWake x k acc =>
    unfold stepWWake at h
    split at h
    · cases h
    · cases h; coldS ha hw hq
  case slHead x => cases h; coldS ha hw hq
  case aStore x =>
    cases h
    have h0 := flag0_of_cold ha hw.w2 hq rfl
    refine ⟨invW1_S hw.w1 hq rfl (by okS_tac) rfl rfl rfl ?_, ?_⟩
    · show (1 : Nat) = 2 ↔ s.flag = 2; rw [h0]; simp
    · refine invW2_S ha hw.w2 hq rfl rfl (by okS_tac) rfl ?_ (fun _ e => by cases e) ?_ ?_ ?_ ?_ (fun _ e => by cases e)
      · intro q' e _; cases e; exact ⟨rfl, rfl⟩
      · intro q' e hf; cases e; cases hf
      · intro q' e _ hf; cases e; cases hf
      · intro q' e _; cases e; trivial
      · intro q' e; cases e; exact Nat.zero_le _
  case aFence x =>
    cases h
    refine ⟨invW1_S hw.w1 hq rfl (by okS_tac) rfl rfl rfl Iff.rfl, ?_⟩
    refine invW2_S_warm ha hw.w2 hq rfl rfl rfl rfl rfl rfl rfl ?_ ?_ ?_ (fun _ _ => trivial) rfl (fun _ e => by cases e)
    · intro _; simp only [armed1, armed0]; split <;> rfl
    · intro _; simp only [armed2, armed1, armed0]; split <;> rfl
    · intro _; rfl
  case dCas d =>
    cases h; unfold stepDCas
    split
    · rename_i hf1
      refine ⟨invW1_S hw.w1 hq rfl (by okS_tac) rfl rfl rfl (by show (0 : Nat) = 2 ↔ s.flag = 2; rw [hf1]; simp), ?_⟩
      have hcold := cold_dkCont s.cap d
      refine invW2_S ha hw.w2 hq rfl rfl (by okS_tac) rfl ?_ (fun _ _ => rfl) ?_ ?_ ?_ ?_ hcold.2
      · intro q' _ hf; cases hf
      · intro q' _ hf; cases hf
      · intro q' e ha0; rw [(hcold.1 q' e).1] at ha0; cases ha0
      · intro q' _ hf; cases hf
      · intro q' e; exact (hcold.1 q' e).2
    · split
      · rename_i hf1 hf2
        have warm : ∀ q', (q' = .dLoad (match d with | .retry x => x | .closed x => x | .bClosed x => x | .bRetry x => x) ∨ q' = .dSpin d) →
            InvW1 (s.goS t (.snd q')) ∧ InvW2 (s.goS t (.snd q')) := by
          intro q' hq'
          refine ⟨invW1_S hw.w1 hq rfl (okS_snd _) rfl rfl rfl Iff.rfl, ?_⟩
          refine invW2_S ha hw.w2 hq rfl rfl (okS_snd _) rfl ?_ (fun _ e => by cases e) ?_ ?_ ?_ ?_ ?_
          · intro q'' _ hf; exact absurd hf hf1
          · intro q'' e _; cases e; rcases hq' with rfl | rfl <;> rfl
          · intro q'' e ha0; cases e; rcases hq' with rfl | rfl <;> cases ha0
          · intro q'' _ hf; exact absurd hf hf1
          · intro q'' e; cases e; rcases hq' with rfl | rfl <;> exact Nat.zero_le _
          · intro k' e; cases e; rcases hq' with e | e <;> cases e
        cases d <;> first | exact warm _ (Or.inl rfl) | exact warm _ (Or.inr rfl)
      · rename_i hf1 hf2
        have h0 : s.flag = 0 := by have := ha.flag2; omega
        refine ⟨invW1_S hw.w1 hq rfl (by okS_tac) rfl rfl rfl Iff.rfl, ?_⟩
        have hcold := cold_dkCont s.cap d
        refine invW2_S ha hw.w2 hq rfl rfl (by okS_tac) rfl ?_ (fun _ _ => h0) ?_ ?_ ?_ ?_ hcold.2
        · intro q' _ hf; exact absurd hf hf1
        · intro q' _ hf; exact absurd hf hf2
        · intro q' e ha0; rw [(hcold.1 q' e).1] at ha0; cases ha0
        · intro q' _ hf; exact absurd hf hf1
        · intro q' e; exact (hcold.1 q' e).2
  case dSpin d =>
    cases h
    refine ⟨invW1_S hw.w1 hq rfl (by okS_tac) rfl rfl rfl Iff.rfl, ?_⟩
    refine invW2_S ha hw.w2 hq rfl rfl (by okS_tac) rfl ?_ (fun _ e => by cases e) ?_ ?_ ?_ ?_ (fun _ e => by cases e)
    · intro q' e hf; cases e; have := (hw.w2.parked t _ hq hf).1; cases this
    · intro q' e _; cases e; rfl
    · intro q' e ha0; cases e; cases ha0
    · intro q' e _; cases e; trivial
    · intro q' e; cases e; exact Nat.zero_le _
  case dLoad x =>
    cases h; unfold stepDLoad
    split
    · rename_i h0
      refine ⟨invW1_S hw.w1 hq rfl (by okS_tac) rfl rfl rfl Iff.rfl, ?_⟩
      have hcold := cold_retryPC s.cap x
      refine invW2_S ha hw.w2 hq rfl rfl (by okS_tac) rfl ?_ (fun _ _ => h0) ?_ ?_ ?_ ?_ hcold.2
      · intro q' _ hf; have hf' : s.flag = 1 := hf; rw [h0] at hf'; cases hf'
      · intro q' _ hf; have hf' : s.flag = 2 := hf; rw [h0] at hf'; cases hf'
      · intro q' e ha0; rw [(hcold.1 q' e).1] at ha0; cases ha0
      · intro q' _ hf; have hf' : s.flag = 1 := hf; rw [h0] at hf'; cases hf'
      · intro q' e; exact (hcold.1 q' e).2
    · refine ⟨invW1_S hw.w1 hq rfl (by okS_tac) rfl rfl rfl Iff.rfl, ?_⟩
      refine invW2_S ha hw.w2 hq rfl rfl (by okS_tac) rfl ?_ (fun _ e => by cases e) ?_ ?_ ?_ ?_ (fun _ e => by cases e)
      · intro q' e hf; cases e; have := (hw.w2.parked t _ hq hf).1; cases this
      · intro q' e _; cases e; rfl
      · intro q' e ha0; cases e; cases ha0
      · intro q' e _; cases e; trivial
      · intro q' e; cases e; exact Nat.zero_le _
  case dSpin2 x =>
    cases h
    refine ⟨invW1_S hw.w1 hq rfl (by okS_tac) rfl rfl rfl Iff.rfl, ?_⟩
    refine invW2_S ha hw.w2 hq rfl rfl (by okS_tac) rfl ?_ (fun _ e => by cases e) ?_ ?_ ?_ ?_ (fun _ e => by cases e)
    · intro q' e hf; cases e; have := (hw.w2.parked t _ hq hf).1; cases this
    · intro q' e _; cases e; rfl
    · intro q' e ha0; cases e; cases ha0
    · intro q' e _; cases e; trivial
    · intro q' e; cases e; exact Nat.zero_le _
  case pPark x =>
    unfold stepPPark at h
    split at h
    · cases h
      refine ⟨invW1_S hw.w1 hq rfl (by okS_tac) rfl rfl rfl Iff.rfl, ?_⟩
      refine invW2_S ha hw.w2 hq rfl rfl (by okS_tac) rfl ?_ ?_ ?_ ?_ ?_ ?_ ?_
      · intro q' e hf
        have := hw.w2.parked t _ hq hf
        refine ⟨?_, this.2⟩
        unfold afterPark at e; split at e <;> cases e <;> rfl
      · intro res e; unfold afterPark at e; split at e <;> cases e
      · intro q' e _; unfold afterPark at e; split at e <;> cases e <;> rfl
      · intro q' e ha0; unfold afterPark at e; split at e <;> cases e <;> cases ha0
      · intro q' e _; unfold afterPark at e; split at e <;> cases e <;> trivial
      · intro q' e; unfold afterPark at e; split at e <;> cases e <;> exact Nat.zero_le _
      · intro k' e; unfold afterPark at e; split at e <;> cases e
    · cases h
  case pHead x =>
    cases h
    refine ⟨invW1_S hw.w1 hq rfl (by okS_tac) rfl rfl rfl Iff.rfl, ?_⟩
    refine invW2_S ha hw.w2 hq rfl rfl (by okS_tac) rfl ?_ (fun _ e => by cases e) ?_ ?_ ?_ ?_ (fun _ e => by cases e)
    · intro q' e hf; cases e; exact ⟨rfl, (hw.w2.parked t _ hq hf).2⟩
    · intro q' e _; cases e; rfl
    · intro q' e ha0; cases e; cases ha0
    · intro q' e _; cases e; trivial
    · intro q' e; cases e; exact Nat.zero_le _
  case pLoad x =>
    cases h; unfold stepPLoad
    split
    · rename_i hf1
      refine ⟨invW1_S hw.w1 hq rfl (by okS_tac) rfl rfl rfl Iff.rfl, ?_⟩
      refine invW2_S ha hw.w2 hq rfl rfl (by okS_tac) rfl ?_ (fun _ e => by cases e) ?_ ?_ ?_ ?_ (fun _ e => by cases e)
      · intro q' e hf; cases e; exact ⟨rfl, (hw.w2.parked t _ hq hf).2⟩
      · intro q' e _; cases e; rfl
      · intro q' e ha0; cases e; cases ha0
      · intro q' e _; cases e; trivial
      · intro q' e; cases e; exact Nat.zero_le _
    · split
      · rename_i hf1 hf2
        refine ⟨invW1_S hw.w1 hq rfl (by okS_tac) rfl rfl rfl Iff.rfl, ?_⟩
        refine invW2_S ha hw.w2 hq rfl rfl (by okS_tac) rfl ?_ (fun _ e => by cases e) ?_ ?_ ?_ ?_ (fun _ e => by cases e)
        · intro q' e hf; exact absurd hf hf1
        · intro q' e _; cases e; rfl
        · intro q' e ha0; cases e; cases ha0
        · intro q' e _; cases e; trivial
        · intro q' e; cases e; exact Nat.zero_le _
      · rename_i hf1 hf2
        have h0 : s.flag = 0 := by have := ha.flag2; omega
        refine ⟨invW1_S hw.w1 hq rfl (by okS_tac) rfl rfl rfl Iff.rfl, ?_⟩
        have hcold := cold_retryPC s.cap x
        refine invW2_S ha hw.w2 hq rfl rfl (by okS_tac) rfl ?_ (fun _ _ => h0) ?_ ?_ ?_ ?_ hcold.2
        · intro q' _ hf; exact absurd hf hf1
        · intro q' _ hf; exact absurd hf hf2
        · intro q' e ha0; rw [(hcold.1 q' e).1] at ha0; cases ha0
        · intro q' _ hf; exact absurd hf hf1
        · intro q' e; exact (hcold.1 q' e).2
  case pCas x =>
    cases h; unfold stepPCas
    split
    · rename_i hf1
      refine ⟨invW1_S hw.w1 hq rfl (by okS_tac) rfl rfl rfl (by show (0 : Nat) = 2 ↔ s.flag = 2; rw [hf1]; simp), ?_⟩
      have hcold := cold_retryPC s.cap x
      refine invW2_S ha hw.w2 hq rfl rfl (by okS_tac) rfl ?_ (fun _ _ => rfl) ?_ ?_ ?_ ?_ hcold.2
      · intro q' _ hf; cases hf
      · intro q' _ hf; cases hf
      · intro q' e ha0; rw [(hcold.1 q' e).1] at ha0; cases ha0
      · intro q' _ hf; cases hf
      · intro q' e; exact (hcold.1 q' e).2
    · rename_i hf1
      refine ⟨invW1_S hw.w1 hq rfl (by okS_tac) rfl rfl rfl Iff.rfl, ?_⟩
      refine invW2_S ha hw.w2 hq rfl rfl (by okS_tac) rfl ?_ (fun _ e => by cases e) ?_ ?_ ?_ ?_ (fun _ e => by cases e)
      · intro q' e hf; exact absurd hf hf1
      · intro q' e _; cases e; rfl
      · intro q' e ha0; cases e; cases ha0
      · intro q' e _; cases e; trivial
      · intro q' e; cases e; exact Nat.zero_le _
  case pSpin x =>
    cases h
    refine ⟨invW1_S hw.w1 hq rfl (by okS_tac) rfl rfl rfl Iff.rfl, ?_⟩
    refine invW2_S ha hw.w2 hq rfl rfl (by okS_tac) rfl ?_ (fun _ e => by cases e) ?_ ?_ ?_ ?_ (fun _ e => by cases e)
    · intro q' e hf; cases e; have := (hw.w2.parked t _ hq hf).1; cases this
    · intro q' e _; cases e; rfl
    · intro q' e ha0; cases e; cases ha0
    · intro q' e _; cases e; trivial
    · intro q' e; cases e; exact Nat.zero_le _
  case cFlag d => cases h; unfold stepCFlag; split <;> coldS ha hw hq
  case cStore => cases h; coldS ha hw hq
  case cLock j =>
    unfold stepCLock at h
    split at h
    · cases h; split <;> coldS ha hw hq
    · cases h
  case cWake j ws =>
    unfold stepCWake at h
    split at h
    · cases h
    · cases h; split <;> coldS ha hw hq
  case cUnlock j => cases h; unfold stepCUnlock; split <;> coldS ha hw hq

end Fv.Chan.SpmcB
