import Fv.Lemmas.ChainBStepC
/-! Preservation of `InvS` by every step of the slab-chain model (generated skeleton + hand proofs). -/
namespace Fv.Chan.ChainB
set_option maxHeartbeats 1000000
attribute [local grind =] upd_apply upd2_apply publishNodes_apply sealNodes_apply freeNodes_apply freeNodes_nd freeNodes_stub sealNodes_nd sealNodes_stub

macro "closeS " hS:ident : tactic => `(tactic| first | exact ($hS).fresh | exact ($hS).fresh_nodes | exact ($hS).alloc | exact ($hS).junk | exact ($hS).count | exact ($hS).zero | exact ($hS).sealed_pos | exact ($hS).owned | exact ($hS).owned_pos | exact ($hS).owned_free | exact ($hS).free_state | exact ($hS).free_pos | exact ($hS).armed_clean | exact ($hS).armed_full | exact ($hS).arming_free | exact ($hS).pool_iff | exact ($hS).pool_nodup | exact ($hS).rel_p | exact ($hS).rel_c | exact ($hS).popped | exact ($hS).arming | exact ($hS).lock_p | exact ($hS).lock_c | exact ($hS).limbo | exact ($hS).limbo_nd | exact ($hS).dead_val | grind)

theorem invS_pStart {cfg : Cfg} {s s' : State} {h : Nat} {vals : List Nat} (hN : 0 < cfg.N) (hi : Inv cfg s)
    (hs : stepPStart s h vals = some s') : InvS cfg s' := by
  obtain ⟨hH, hP, hC, hS⟩ := hi
  have _ := hN
  unfold stepPStart at hs
  step_elim hs
  all_goals (constructor <;> simp only [] <;> closeS hS)

theorem invS_pBump {cfg : Cfg} {s s' : State} {h : Nat} (hN : 0 < cfg.N) (hi : Inv cfg s)
    (hs : stepPBump cfg s h = some s') : InvS cfg s' := by
  obtain ⟨hH, hP, hC, hS⟩ := hi
  have _ := hN
  unfold stepPBump at hs
  step_elim hs
  all_goals (
    rename_i b hpc hsl hg _
    have hfree := hS.owned_free h b (s.ppos h) hsl (Nat.le_refl _) hg.2
    constructor <;> simp only []
    case count => intro b' hb'; rw [live_congr (nst := s.nst) (by grind)]; exact hS.count b' hb'
    all_goals closeS hS)

theorem invS_pSealDec {cfg : Cfg} {s s' : State} {h : Nat} (hN : 0 < cfg.N) (hi : Inv cfg s)
    (hs : stepPSealDec cfg s h = some s') : InvS cfg s' := by
  obtain ⟨hH, hP, hC, hS⟩ := hi
  have _ := hN
  unfold stepPSealDec sealDec at hs
  step_elim hs
  · rename_i b hpc hsl hcond
    have hb : b < s.nextSlab := by
      apply Classical.byContradiction; intro hn
      have := (hS.fresh b (by omega)).1
      rw [hS.owned h b hsl] at this; simp at this
    have hc := hS.count b hb
    rw [hS.owned h b hsl] at hc
    have hof := hS.owned_free h b
    have hpos := (hS.owned_pos h b hsl).1
    have ht := live_tail (cfg := cfg) (nst := s.nst) (nst' := sealNodes cfg s.nst b (s.ppos h)) (b := b) (u := s.ppos h) hpos
      (by intro i hi; simp [sealNodes_nd]; omega)
      (by intro i h1 h2; rw [hof i hsl h1 h2]; simp)
      (by intro i h1 h2; simp [sealNodes_nd, h1, h2])
    simp at hc
    constructor <;> simp only []
    case count =>
      intro b' hb'
      by_cases hbb : b' = b
      · subst hbb; simp; split <;> simp <;> omega
      · rw [live_congr (nst := s.nst) (by intro i hi; simp [sealNodes_nd, hbb])]
        simp [upd_apply, hbb]; exact hS.count b' hb'
    case sealed_pos =>
      intro b'
      by_cases hbb : b' = b
      · subst hbb; simp; omega
      · simp [upd_apply, hbb]; exact hS.sealed_pos b'
    all_goals closeS hS
  · rename_i b hpc hsl
    have hb : b < s.nextSlab := by
      apply Classical.byContradiction; intro hn
      have := (hS.fresh b (by omega)).1
      rw [hS.owned h b hsl] at this; simp at this
    have hc := hS.count b hb
    rw [hS.owned h b hsl] at hc
    have hof := hS.owned_free h b
    have hpos := (hS.owned_pos h b hsl).1
    have ht := live_tail (cfg := cfg) (nst := s.nst) (nst' := sealNodes cfg s.nst b (s.ppos h)) (b := b) (u := s.ppos h) hpos
      (by intro i hi; simp [sealNodes_nd]; omega)
      (by intro i h1 h2; rw [hof i hsl h1 h2]; simp)
      (by intro i h1 h2; simp [sealNodes_nd, h1, h2])
    simp at hc
    constructor <;> simp only []
    case count =>
      intro b' hb'
      by_cases hbb : b' = b
      · subst hbb; simp; split <;> simp <;> omega
      · rw [live_congr (nst := s.nst) (by intro i hi; simp [sealNodes_nd, hbb])]
        simp [upd_apply, hbb]; exact hS.count b' hb'
    case sealed_pos =>
      intro b'
      by_cases hbb : b' = b
      · subst hbb; simp; omega
      · simp [upd_apply, hbb]; exact hS.sealed_pos b'
    all_goals closeS hS

theorem invS_pRelFence {cfg : Cfg} {s s' : State} {h : Nat} (hN : 0 < cfg.N) (hi : Inv cfg s)
    (hs : stepPRelFence s h = some s') : InvS cfg s' := by
  obtain ⟨hH, hP, hC, hS⟩ := hi
  have _ := hN
  unfold stepPRelFence at hs
  step_elim hs
  all_goals (constructor <;> simp only [] <;> closeS hS)

theorem invS_pRelLock {cfg : Cfg} {s s' : State} {h : Nat} (hN : 0 < cfg.N) (hi : Inv cfg s)
    (hs : stepPRelLock s h = some s') : InvS cfg s' := by
  obtain ⟨hH, hP, hC, hS⟩ := hi
  have _ := hN
  unfold stepPRelLock at hs
  step_elim hs
  all_goals (constructor <;> simp only [] <;> closeS hS)

theorem invS_pRelUnlock {cfg : Cfg} {s s' : State} {h : Nat} (hN : 0 < cfg.N) (hi : Inv cfg s)
    (hs : stepPRelUnlock cfg s h = some s') : InvS cfg s' := by
  obtain ⟨hH, hP, hC, hS⟩ := hi
  have _ := hN
  unfold stepPRelUnlock at hs
  step_elim hs
  all_goals (
    rename_i b c hpc hlen
    have hrel := hS.p_relUnlock hpc
    constructor <;> simp only []
    all_goals first
      | (have hnot : b ∉ s.pool := by
           intro hm; have := (hS.pool_iff b).1 hm; rw [hrel] at this; simp at this
         exact nodup_snoc hS.pool_nodup hnot)
      | closeS hS)

theorem invS_pAcqLock {cfg : Cfg} {s s' : State} {h : Nat} (hN : 0 < cfg.N) (hi : Inv cfg s)
    (hs : stepPAcqLock s h = some s') : InvS cfg s' := by
  obtain ⟨hH, hP, hC, hS⟩ := hi
  have _ := hN
  unfold stepPAcqLock at hs
  step_elim hs
  all_goals (constructor <;> simp only [] <;> closeS hS)

theorem invS_pAcqUnlock {cfg : Cfg} {s s' : State} {h : Nat} (hN : 0 < cfg.N) (hi : Inv cfg s)
    (hs : stepPAcqUnlock s h = some s') : InvS cfg s' := by
  obtain ⟨hH, hP, hC, hS⟩ := hi
  have _ := hN
  unfold stepPAcqUnlock at hs
  step_elim hs
  all_goals first
    | (rename_i hpc _ b hlast
       obtain ⟨hnd, hnot, hmem⟩ := pool_pop_nodup hlast hS.pool_nodup
       have hpb : s.sst b = .pooled := (hS.pool_iff b).1 ((hmem b).2 (Or.inr rfl))
       constructor <;> simp only []
       case pool_nodup => exact hnd
       case pool_iff =>
         intro b'
         have := hS.pool_iff b'
         have := hmem b'
         by_cases hbb : b' = b
         · subst hbb; simp [hnot]
         · simp [upd_apply, hbb]; grind
       all_goals closeS hS)
    | (constructor <;> simp only [] <;> closeS hS)

theorem invS_pRearmRem {cfg : Cfg} {s s' : State} {h : Nat} (hN : 0 < cfg.N) (hi : Inv cfg s)
    (hs : stepPRearmRem cfg s h = some s') : InvS cfg s' := by
  obtain ⟨hH, hP, hC, hS⟩ := hi
  have _ := hN
  unfold stepPRearmRem at hs
  step_elim hs
  rename_i b hpc
  have hpop := hS.popped h b hpc
  constructor <;> simp only []
  case count =>
    intro b' hb'
    by_cases hbb : b' = b
    · subst hbb
      rw [live_all (by intro i hi; simp [freeNodes_nd, hi])]; simp; omega
    · rw [live_congr (nst := s.nst) (by intro i hi; simp [freeNodes_nd, hbb])]
      simp [upd_apply, hbb]; exact hS.count b' hb'
  all_goals closeS hS

theorem invS_pRearmNode {cfg : Cfg} {s s' : State} {h : Nat} (hN : 0 < cfg.N) (hi : Inv cfg s)
    (hs : stepPRearmNode cfg s h = some s') : InvS cfg s' := by
  obtain ⟨hH, hP, hC, hS⟩ := hi
  have _ := hN
  unfold stepPRearmNode at hs
  step_elim hs
  all_goals (constructor <;> simp only [] <;> closeS hS)

theorem invS_pAlloc {cfg : Cfg} {s s' : State} {h : Nat} (hN : 0 < cfg.N) (hi : Inv cfg s)
    (hs : stepPAlloc cfg s h = some s') : InvS cfg s' := by
  obtain ⟨hH, hP, hC, hS⟩ := hi
  have _ := hN
  unfold stepPAlloc at hs
  step_elim hs
  constructor <;> simp only []
  case count =>
    intro b' hb'
    by_cases hbb : b' = s.nextSlab
    · subst hbb
      rw [live_all (by intro i hi; rw [(hS.fresh_nodes _ i (Nat.le_refl _)).1]; simp)]; simp; omega
    · simp [upd_apply, hbb]; exact hS.count b' (by omega)
  all_goals closeS hS

theorem invS_pPrelink {cfg : Cfg} {s s' : State} {h : Nat} (hN : 0 < cfg.N) (hi : Inv cfg s)
    (hs : stepPPrelink s h = some s') : InvS cfg s' := by
  obtain ⟨hH, hP, hC, hS⟩ := hi
  have _ := hN
  unfold stepPPrelink at hs
  step_elim hs
  all_goals (constructor <;> simp only [] <;> closeS hS)

theorem invS_pSwap {cfg : Cfg} {s s' : State} {h : Nat} (hN : 0 < cfg.N) (hi : Inv cfg s)
    (hs : stepPSwap s h = some s') : InvS cfg s' := by
  obtain ⟨hH, hP, hC, hS⟩ := hi
  have _ := hN
  unfold stepPSwap at hs
  step_elim hs
  constructor <;> simp only []
  case count =>
    intro b' hb'
    rw [live_congr (nst := s.nst) (by intro i hi; grind)]; exact hS.count b' hb'
  all_goals closeS hS

theorem invS_pLink {cfg : Cfg} {s s' : State} {h : Nat} (hN : 0 < cfg.N) (hi : Inv cfg s)
    (hs : stepPLink s h = some s') : InvS cfg s' := by
  obtain ⟨hH, hP, hC, hS⟩ := hi
  have _ := hN
  unfold stepPLink at hs
  step_elim hs
  all_goals (constructor <;> simp only [] <;> closeS hS)

theorem invS_pClose {cfg : Cfg} {s s' : State} {h : Nat} (hN : 0 < cfg.N) (hi : Inv cfg s)
    (hs : stepPClose s h = some s') : InvS cfg s' := by
  obtain ⟨hH, hP, hC, hS⟩ := hi
  have _ := hN
  unfold stepPClose at hs
  step_elim hs
  all_goals (constructor <;> simp only [] <;> closeS hS)

theorem invS_pDropDec {cfg : Cfg} {s s' : State} {h : Nat} (hN : 0 < cfg.N) (hi : Inv cfg s)
    (hs : stepPDropDec s h = some s') : InvS cfg s' := by
  obtain ⟨hH, hP, hC, hS⟩ := hi
  have _ := hN
  unfold stepPDropDec at hs
  step_elim hs
  all_goals (constructor <;> simp only [] <;> closeS hS)

theorem invS_pClone {cfg : Cfg} {s s' : State} {h h' : Nat} (hN : 0 < cfg.N) (hi : Inv cfg s)
    (hs : stepPClone s h h' = some s') : InvS cfg s' := by
  obtain ⟨hH, hP, hC, hS⟩ := hi
  have _ := hN
  unfold stepPClone at hs
  step_elim hs
  all_goals (constructor <;> simp only [] <;> closeS hS)

theorem invS_cPopLoad {cfg : Cfg} {s s' : State}  (hN : 0 < cfg.N) (hi : Inv cfg s)
    (hs : stepCPopLoad s = some s') : InvS cfg s' := by
  obtain ⟨hH, hP, hC, hS⟩ := hi
  have _ := hN
  unfold stepCPopLoad leaveNode at hs
  step_elim hs
  · constructor <;> simp only [] <;> closeS hS
  ·
    have hg : s.tailGone = false := by
      cases hgg : s.tailGone
      · rfl
      · have := hH.gone_fin hgg; have := hH.gone_pc; simp_all
    obtain ⟨hlt, hnx, hpk⟩ := hC.next_tail hg (by assumption)
    have htl := hC.at_in hg s.k (Nat.le_refl _) hC.k_le
    rw [← hC.tail] at htl
    constructor <;> simp only []
    case count =>
      intro b' hb'
      rw [live_congr (nst := s.nst) (by intro i hi; grind)]; exact hS.count b' hb'
    all_goals closeS hS
  ·
    have hg : s.tailGone = false := by
      cases hgg : s.tailGone
      · rfl
      · have := hH.gone_fin hgg; have := hH.gone_pc; simp_all
    obtain ⟨hlt, hnx, hpk⟩ := hC.next_tail hg (by assumption)
    have htl := hC.at_in hg s.k (Nat.le_refl _) hC.k_le
    rw [← hC.tail] at htl
    constructor <;> simp only []
    case count =>
      intro b' hb'
      rw [live_congr (nst := s.nst) (by intro i hi; grind)]; exact hS.count b' hb'
    all_goals closeS hS

theorem invS_cRetDec {cfg : Cfg} {s s' : State}  (hN : 0 < cfg.N) (hi : Inv cfg s)
    (hs : stepCRetDec s = some s') : InvS cfg s' := by
  obtain ⟨hH, hP, hC, hS⟩ := hi
  have _ := hN
  unfold stepCRetDec at hs
  step_elim hs
  rename_i b i c hpc
  have hlim : s.nst (.nd b i) = .limbo := (hS.limbo _).2 (by rw [hpc]; rfl)
  have hi : i < cfg.N := by
    apply Classical.byContradiction; intro hn
    have := (hS.junk b i (by omega)).1; rw [this] at hlim; simp at hlim
  have hb : b < s.nextSlab := by
    apply Classical.byContradiction; intro hn
    have := (hS.fresh_nodes b i (by omega)).1; rw [this] at hlim; simp at hlim
  have hc := hS.count b hb
  have hfl := live_flip (cfg := cfg) (nst := s.nst) (nst' := upd s.nst (.nd b i) .retired) (b := b) hi
    (by rw [hlim]; simp) (by simp) (by intro j hj; simp [upd_apply, hj])
  have hz := hS.zero b
  have hsp := hS.sealed_pos b
  have hst : s.rem b = 1 → s.sst b = .sealed := by
    intro h1
    cases hs : s.sst b <;> first
      | rfl
      | (exfalso; exact hS.alloc b hb hs)
      | (exfalso; rw [hs] at hc; simp at hc; omega)
      | (exfalso; have := hz (by rw [hs]; rfl); omega)
  constructor <;> simp only []
  case count =>
    intro b' hb'
    by_cases hbb : b' = b
    · subst hbb
      simp
      split
      · rename_i h1; have := hst h1; simp; omega
      · cases hs : s.sst b' <;> simp [hs] at hc ⊢ <;> omega
    · rw [live_congr (nst := s.nst) (by intro j hj; simp [upd_apply, hbb])]
      simp [upd_apply, hbb]; exact hS.count b' hb'
  case sealed_pos =>
    intro b'
    by_cases hbb : b' = b
    · subst hbb; simp; split
      · simp
      · intro hs; simp [hs] at hc; omega
    · simp [upd_apply, hbb]; exact hS.sealed_pos b'
  case zero =>
    intro b'
    by_cases hbb : b' = b
    · subst hbb; simp; split
      · intro _; omega
      · intro hzz; have := hz hzz; omega
    · simp [upd_apply, hbb]; exact hS.zero b'
  all_goals closeS hS

theorem invS_cRelFence {cfg : Cfg} {s s' : State}  (hN : 0 < cfg.N) (hi : Inv cfg s)
    (hs : stepCRelFence s = some s') : InvS cfg s' := by
  obtain ⟨hH, hP, hC, hS⟩ := hi
  have _ := hN
  unfold stepCRelFence at hs
  step_elim hs
  all_goals (constructor <;> simp only [] <;> closeS hS)

theorem invS_cRelLock {cfg : Cfg} {s s' : State}  (hN : 0 < cfg.N) (hi : Inv cfg s)
    (hs : stepCRelLock s = some s') : InvS cfg s' := by
  obtain ⟨hH, hP, hC, hS⟩ := hi
  have _ := hN
  unfold stepCRelLock at hs
  step_elim hs
  all_goals (constructor <;> simp only [] <;> closeS hS)

theorem invS_cRelUnlock {cfg : Cfg} {s s' : State}  (hN : 0 < cfg.N) (hi : Inv cfg s)
    (hs : stepCRelUnlock cfg s = some s') : InvS cfg s' := by
  obtain ⟨hH, hP, hC, hS⟩ := hi
  have _ := hN
  unfold stepCRelUnlock at hs
  step_elim hs
  all_goals (
    rename_i b c hpc hlen
    have hrel := hS.c_relUnlock hpc
    constructor <;> simp only []
    all_goals first
      | (have hnot : b ∉ s.pool := by
           intro hm; have := (hS.pool_iff b).1 hm; rw [hrel] at this; simp at this
         exact nodup_snoc hS.pool_nodup hnot)
      | closeS hS)

theorem invS_cRet {cfg : Cfg} {s s' : State}  (hN : 0 < cfg.N) (hi : Inv cfg s)
    (hs : stepCRet s = some s') : InvS cfg s' := by
  obtain ⟨hH, hP, hC, hS⟩ := hi
  have _ := hN
  unfold stepCRet at hs
  step_elim hs
  all_goals (constructor <;> simp only [] <;> closeS hS)

theorem invS_cFinStart {cfg : Cfg} {s s' : State}  (hN : 0 < cfg.N) (hi : Inv cfg s)
    (hs : stepCFinStart s = some s') : InvS cfg s' := by
  obtain ⟨hH, hP, hC, hS⟩ := hi
  have _ := hN
  unfold stepCFinStart at hs
  step_elim hs
  all_goals (constructor <;> simp only [] <;> closeS hS)

theorem invS_cFinLoad {cfg : Cfg} {s s' : State}  (hN : 0 < cfg.N) (hi : Inv cfg s)
    (hs : stepCFinLoad s = some s') : InvS cfg s' := by
  obtain ⟨hH, hP, hC, hS⟩ := hi
  have _ := hN
  unfold stepCFinLoad leaveNode at hs
  step_elim hs
  ·
    have hg : s.tailGone = false := by
      have := hH.gone_pc; simp_all
    have htl := hC.at_in hg s.k (Nat.le_refl _) hC.k_le
    rw [← hC.tail] at htl
    constructor <;> simp only []
    case count =>
      intro b' hb'
      rw [live_congr (nst := s.nst) (by intro i hi; grind)]; exact hS.count b' hb'
    all_goals closeS hS
  ·
    have hg : s.tailGone = false := by
      have := hH.gone_pc; simp_all
    have htl := hC.at_in hg s.k (Nat.le_refl _) hC.k_le
    rw [← hC.tail] at htl
    constructor <;> simp only []
    case count =>
      intro b' hb'
      rw [live_congr (nst := s.nst) (by intro i hi; grind)]; exact hS.count b' hb'
    all_goals closeS hS
  ·
    have hg : s.tailGone = false := by
      have := hH.gone_pc; simp_all
    have htl := hC.at_in hg s.k (Nat.le_refl _) hC.k_le
    rw [← hC.tail] at htl
    constructor <;> simp only []
    case count =>
      intro b' hb'
      rw [live_congr (nst := s.nst) (by intro i hi; grind)]; exact hS.count b' hb'
    all_goals closeS hS
  ·
    have hg : s.tailGone = false := by
      have := hH.gone_pc; simp_all
    have htl := hC.at_in hg s.k (Nat.le_refl _) hC.k_le
    rw [← hC.tail] at htl
    constructor <;> simp only []
    case count =>
      intro b' hb'
      rw [live_congr (nst := s.nst) (by intro i hi; grind)]; exact hS.count b' hb'
    all_goals closeS hS

end Fv.Chan.ChainB
