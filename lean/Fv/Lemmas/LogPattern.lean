import Fv.Log.Pattern
/-! C20 helper lemmas for the pattern encoder. -/
namespace Fv.Log.Pattern
open Fv.Log

theorem padWidth_le (p : Int) : padWidth p ≤ 65535 := by unfold padWidth; omega

/-- the clamp discharges the `u16` precondition of the formatting primitive: `apply_padding` never panics -/
theorem applyPadding_total (content : Text) (p : Int) : ∃ out, applyPadding content p = some out := by
  unfold applyPadding
  split
  · exact ⟨_, rfl⟩
  · unfold fmtPad
    have : ¬ 65535 < padWidth p := by have := padWidth_le p; omega
    simp only [this, if_false]
    split <;> exact ⟨_, rfl⟩

theorem renderSeg_total (ev : Event) (s : Segment) : ∃ out, renderSeg ev s = some out := by
  cases s with
  | lit t => exact ⟨t, rfl⟩
  | spec c p o =>
    simp only [renderSeg]
    split
    · exact ⟨_, rfl⟩
    · cases p with
      | none => exact ⟨_, rfl⟩
      | some p => exact applyPadding_total _ p

theorem renderSegs_total (ev : Event) (segs : List Segment) : ∃ out, renderSegs ev segs = some out := by
  induction segs with
  | nil => exact ⟨[], rfl⟩
  | cons s rest ih =>
    obtain ⟨a, ha⟩ := renderSeg_total ev s
    obtain ⟨b, hb⟩ := ih
    exact ⟨a ++ b, by simp only [renderSegs, ha, hb]⟩

/-- what `apply_padding` produces: the content itself when it is at least `min(|p|, 65535)` bytes long,
otherwise the content with spaces on the left (`p > 0`) or on the right, `min(|p|, 65535)` characters in total -/
theorem applyPadding_eq (content : Text) (p : Int) :
    applyPadding content p = some
      (if padWidth p ≤ utf8Len content then content
       else if 0 < p then spaces (padWidth p - content.length) ++ content
       else content ++ spaces (padWidth p - content.length)) := by
  unfold applyPadding
  split
  · rfl
  · unfold fmtPad
    have : ¬ 65535 < padWidth p := by have := padWidth_le p; omega
    simp only [this, if_false, decide_eq_true_eq]
    split <;> rfl

/-! ### the message is reproduced verbatim -/

theorem infix_applyPadding {content out : Text} {p : Int} (h : applyPadding content p = some out) : content <:+: out := by
  rw [applyPadding_eq] at h
  simp only [Option.some.injEq] at h
  subst h
  split
  · exact List.infix_refl _
  · split
    · exact (List.suffix_append _ _).isInfix
    · exact (List.prefix_append _ _).isInfix

theorem renderSegs_mem {ev : Event} {segs : List Segment} {out : Text} (h : renderSegs ev segs = some out)
    {s : Segment} (hs : s ∈ segs) : ∃ a, renderSeg ev s = some a ∧ a <:+: out := by
  induction segs generalizing out with
  | nil => simp at hs
  | cons s0 rest ih =>
    simp only [renderSegs] at h
    cases h0 : renderSeg ev s0 with
    | none => simp [h0] at h
    | some a =>
      cases h1 : renderSegs ev rest with
      | none => simp [h0, h1] at h
      | some b =>
        simp only [h0, h1, Option.some.injEq] at h
        subst h
        simp only [List.mem_cons] at hs
        rcases hs with rfl | hs
        · exact ⟨a, h0, (List.prefix_append _ _).isInfix⟩
        · obtain ⟨a', ha', hin⟩ := ih h1 hs
          exact ⟨a', ha', hin.trans (List.suffix_append _ _).isInfix⟩

theorem specContent_m (o : Option Text) (ev : Event) : specContent 'm' o ev = ev.message.getD [] := by
  simp (decide := true) [specContent]

theorem infix_ensureNewline (a out : Text) (h : a <:+: out) : a <:+: ensureNewline out := by
  unfold ensureNewline
  split
  · exact h
  · exact h.trans (List.prefix_append _ _).isInfix

theorem ensureNewline_last (out : Text) : (ensureNewline out).getLast? = some '\n' := by
  unfold ensureNewline
  split
  · assumption
  · simp

/-- every `%m` segment contributes the message verbatim to the rendering -/
theorem message_verbatim_segs {ev : Event} {segs : List Segment} {out : Text} (h : renderSegs ev segs = some out)
    {p : Option Int} {o : Option Text} (hs : Segment.spec 'm' p o ∈ segs) : ev.message.getD [] <:+: out := by
  obtain ⟨a, ha, hin⟩ := renderSegs_mem h hs
  simp only [renderSeg, show ('m' : Char) ≠ 'n' by decide, if_false, specContent_m] at ha
  cases p with
  | none => simp only [Option.some.injEq] at ha; subst ha; exact hin
  | some p => exact (infix_applyPadding ha).trans hin



/-! ### paddings produced by the parser fit an `i32` -/

theorem parsePadding_range {t : Text} {p : Int} (h : parsePadding t = some p) : -2147483648 ≤ p ∧ p ≤ 2147483647 := by
  unfold parsePadding at h
  cases t with
  | nil => simp at h
  | cons c rest =>
    simp only at h
    split at h
    · split at h
      · rename_i hc
        simp only [Option.some.injEq] at h
        omega
      · cases h
    · split at h
      · rename_i hc
        simp only [Option.some.injEq] at h
        omega
      · cases h

def SpecInRange : Segment → Prop
  | .lit _ => True
  | .spec _ none _ => True
  | .spec _ (some p) _ => -2147483648 ≤ p ∧ p ≤ 2147483647

theorem matchSpec_inRange {t r : Text} {seg : Segment} (h : matchSpec t = some (seg, r)) : SpecInRange seg := by
  unfold matchSpec at h
  split at h
  · rename_i p r0 _
    split at h
    · cases h
    · split at h
      · simp only [Option.some.injEq, Prod.mk.injEq] at h
        obtain ⟨rfl, _⟩ := h
        cases hp : parsePadding p with
        | none => trivial
        | some v => exact parsePadding_range hp
      · cases h
  · split at h
    · cases h
    · split at h
      · simp only [Option.some.injEq, Prod.mk.injEq] at h
        obtain ⟨rfl, _⟩ := h
        trivial
      · cases h

theorem flushLit_inRange (acc : Text) : ∀ s ∈ flushLit acc, SpecInRange s := by
  intro s hs
  unfold flushLit at hs
  split at hs
  · simp at hs
  · simp at hs; subst hs; trivial

theorem parseGo_inRange (fuel : Nat) (t acc : Text) : ∀ s ∈ parseGo fuel t acc, SpecInRange s := by
  induction fuel generalizing t acc with
  | zero => intro s hs; simp only [parseGo] at hs; exact flushLit_inRange acc s hs
  | succ fuel ih =>
    intro s hs
    cases t with
    | nil => simp only [parseGo] at hs; exact flushLit_inRange acc s hs
    | cons c rest =>
      simp only [parseGo] at hs
      split at hs
      · split at hs
        · rename_i seg rest' hm
          simp only [List.mem_append, List.mem_cons] at hs
          rcases hs with hs | rfl | hs
          · exact flushLit_inRange acc s hs
          · exact matchSpec_inRange hm
          · exact ih _ _ s hs
        · split at hs
          · exact ih _ _ s hs
          · split at hs
            · simp only [List.mem_append, List.mem_cons] at hs
              rcases hs with hs | rfl | hs
              · exact flushLit_inRange acc s hs
              · trivial
              · exact ih _ _ s hs
            · exact ih _ _ s hs
      · exact ih _ _ s hs

end Fv.Log.Pattern
