import Fv.Log.Pattern
/-! C20 helper lemmas for the pattern encoder. -/
namespace Fv.Log.Pattern
open Fv.Log

/-- paddings for which `apply_padding` cannot panic whatever the content is -/
def PaddingOk : Segment → Prop
  | .lit _ => True
  | .spec _ none _ => True
  | .spec _ (some p) _ => -65535 ≤ p ∧ p ≤ 65535

instance (s : Segment) : Decidable (PaddingOk s) := by
  cases s with
  | lit t => exact isTrue trivial
  | spec c p o =>
    cases p with
    | none => exact isTrue trivial
    | some p => simp only [PaddingOk]; exact inferInstance

theorem applyPadding_total (content : Text) (p : Int) (h : -65535 ≤ p ∧ p ≤ 65535) :
    ∃ out, applyPadding content p = some out := by
  unfold applyPadding
  have h1 : p ≠ -2147483648 := by omega
  have h2 : ¬ 65535 < p.natAbs := by omega
  simp only [h1, if_false, h2]
  split
  · exact ⟨_, rfl⟩
  · split <;> exact ⟨_, rfl⟩

theorem renderSeg_total (ev : Event) (s : Segment) (h : PaddingOk s) : ∃ out, renderSeg ev s = some out := by
  cases s with
  | lit t => exact ⟨t, rfl⟩
  | spec c p o =>
    simp only [renderSeg]
    split
    · exact ⟨_, rfl⟩
    · cases p with
      | none => exact ⟨_, rfl⟩
      | some p => exact applyPadding_total _ p h

theorem renderSegs_total (ev : Event) (segs : List Segment) (h : ∀ s ∈ segs, PaddingOk s) :
    ∃ out, renderSegs ev segs = some out := by
  induction segs with
  | nil => exact ⟨[], rfl⟩
  | cons s rest ih =>
    obtain ⟨a, ha⟩ := renderSeg_total ev s (h s (by simp))
    obtain ⟨b, hb⟩ := ih (fun s hs => h s (by simp [hs]))
    exact ⟨a ++ b, by simp only [renderSegs, ha, hb]⟩

/-- exact panic condition of `apply_padding` -/
theorem applyPadding_eq_none_iff (content : Text) (p : Int) :
    applyPadding content p = none ↔ p = -2147483648 ∨ (utf8Len content < p.natAbs ∧ 65535 < p.natAbs) := by
  unfold applyPadding
  by_cases h1 : p = -2147483648
  · simp [h1]
  · by_cases h2 : p.natAbs ≤ utf8Len content
    · simp only [h1, if_false, h2, if_true, false_or]
      constructor
      · intro h; cases h
      · intro h; omega
    · by_cases h3 : 65535 < p.natAbs
      · simp only [h1, if_false, h2, h3, if_true, false_or, true_iff]
        exact ⟨by omega, trivial⟩
      · simp only [h1, if_false, h2, h3, false_or]
        constructor
        · intro h; split at h <;> cases h
        · intro h; exact h.2.elim

/-! ### the message is reproduced verbatim -/

theorem infix_applyPadding {content out : Text} {p : Int} (h : applyPadding content p = some out) : content <:+: out := by
  unfold applyPadding at h
  by_cases h1 : p = -2147483648
  · simp [h1] at h
  · by_cases h2 : p.natAbs ≤ utf8Len content
    · simp only [h1, if_false, h2, if_true, Option.some.injEq] at h
      subst h; exact List.infix_refl _
    · by_cases h3 : 65535 < p.natAbs
      · simp [h1, h2, h3] at h
      · by_cases h4 : 0 < p
        · simp only [h1, if_false, h2, h3, h4, if_true, Option.some.injEq] at h
          subst h; exact (List.suffix_append _ _).isInfix
        · simp only [h1, if_false, h2, h3, h4, Option.some.injEq] at h
          subst h; exact (List.prefix_append _ _).isInfix

theorem renderSegs_mem {ev : Event} {segs : List Segment} {out : Text} (h : renderSegs ev segs = some out)
    {s : Segment} (hs : s ∈ segs) : ∃ a, renderSeg ev s = some a ∧ a <:+: out := by
  induction segs generalizing out with
  | nil => simp at hs
  | cons s0 rest ih =>
    simp only [renderSegs] at h
    cases h0 : renderSeg ev s0 with
    | none => simp [h0] at h
    | some a =>
      cases h1 : renderSegs ev rest with
      | none => simp [h0, h1] at h
      | some b =>
        simp only [h0, h1, Option.some.injEq] at h
        subst h
        simp only [List.mem_cons] at hs
        rcases hs with rfl | hs
        · exact ⟨a, h0, (List.prefix_append _ _).isInfix⟩
        · obtain ⟨a', ha', hin⟩ := ih h1 hs
          exact ⟨a', ha', hin.trans (List.suffix_append _ _).isInfix⟩

theorem specContent_m (o : Option Text) (ev : Event) : specContent 'm' o ev = ev.message.getD [] := by
  simp (decide := true) [specContent]

theorem infix_ensureNewline (a out : Text) (h : a <:+: out) : a <:+: ensureNewline out := by
  unfold ensureNewline
  split
  · exact h
  · exact h.trans (List.prefix_append _ _).isInfix

theorem ensureNewline_last (out : Text) : (ensureNewline out).getLast? = some '\n' := by
  unfold ensureNewline
  split
  · assumption
  · simp

/-- every `%m` segment contributes the message verbatim to the rendering -/
theorem message_verbatim_segs {ev : Event} {segs : List Segment} {out : Text} (h : renderSegs ev segs = some out)
    {p : Option Int} {o : Option Text} (hs : Segment.spec 'm' p o ∈ segs) : ev.message.getD [] <:+: out := by
  obtain ⟨a, ha, hin⟩ := renderSegs_mem h hs
  simp only [renderSeg, show ('m' : Char) ≠ 'n' by decide, if_false, specContent_m] at ha
  cases p with
  | none => simp only [Option.some.injEq] at ha; subst ha; exact hin
  | some p => exact (infix_applyPadding ha).trans hin



/-! ### exact panic condition of a rendering -/

theorem renderSeg_eq_none_iff (ev : Event) (s : Segment) :
    renderSeg ev s = none ↔ ∃ c p o, s = .spec c (some p) o ∧ c ≠ 'n' ∧ applyPadding (specContent c o ev) p = none := by
  cases s with
  | lit t => simp [renderSeg]
  | spec c p o =>
    simp only [renderSeg]
    by_cases hn : c = 'n'
    · subst hn
      simp only [if_true, reduceCtorEq, false_iff]
      rintro ⟨c', p', o', heq, hne, _⟩
      cases heq; exact hne rfl
    · cases p with
      | none => simp [hn]
      | some p =>
        simp only [hn, if_false]
        constructor
        · intro h; exact ⟨c, p, o, rfl, hn, h⟩
        · rintro ⟨c', p', o', heq, _, h⟩
          cases heq; exact h

theorem renderSegs_eq_none_iff (ev : Event) (segs : List Segment) :
    renderSegs ev segs = none ↔ ∃ s ∈ segs, renderSeg ev s = none := by
  induction segs with
  | nil => simp [renderSegs]
  | cons s rest ih =>
    simp only [renderSegs, List.mem_cons, exists_eq_or_imp]
    cases h0 : renderSeg ev s with
    | none => simp
    | some a =>
      cases h1 : renderSegs ev rest with
      | none => simp only [true_iff]; exact Or.inr (ih.mp h1)
      | some b =>
        constructor
        · intro h; cases h
        · rintro (h | h)
          · cases h
          · have := ih.mpr h
            rw [h1] at this; cases this

/-! ### paddings produced by the parser fit an `i32` -/

theorem parsePadding_range {t : Text} {p : Int} (h : parsePadding t = some p) : -2147483648 ≤ p ∧ p ≤ 2147483647 := by
  unfold parsePadding at h
  cases t with
  | nil => simp at h
  | cons c rest =>
    simp only at h
    split at h
    · split at h
      · rename_i hc
        simp only [Option.some.injEq] at h
        omega
      · cases h
    · split at h
      · rename_i hc
        simp only [Option.some.injEq] at h
        omega
      · cases h

def SpecInRange : Segment → Prop
  | .lit _ => True
  | .spec _ none _ => True
  | .spec _ (some p) _ => -2147483648 ≤ p ∧ p ≤ 2147483647

theorem matchSpec_inRange {t r : Text} {seg : Segment} (h : matchSpec t = some (seg, r)) : SpecInRange seg := by
  unfold matchSpec at h
  split at h
  · rename_i p r0 _
    split at h
    · cases h
    · split at h
      · simp only [Option.some.injEq, Prod.mk.injEq] at h
        obtain ⟨rfl, _⟩ := h
        cases hp : parsePadding p with
        | none => trivial
        | some v => exact parsePadding_range hp
      · cases h
  · split at h
    · cases h
    · split at h
      · simp only [Option.some.injEq, Prod.mk.injEq] at h
        obtain ⟨rfl, _⟩ := h
        trivial
      · cases h

theorem flushLit_inRange (acc : Text) : ∀ s ∈ flushLit acc, SpecInRange s := by
  intro s hs
  unfold flushLit at hs
  split at hs
  · simp at hs
  · simp at hs; subst hs; trivial

theorem parseGo_inRange (fuel : Nat) (t acc : Text) : ∀ s ∈ parseGo fuel t acc, SpecInRange s := by
  induction fuel generalizing t acc with
  | zero => intro s hs; simp only [parseGo] at hs; exact flushLit_inRange acc s hs
  | succ fuel ih =>
    intro s hs
    cases t with
    | nil => simp only [parseGo] at hs; exact flushLit_inRange acc s hs
    | cons c rest =>
      simp only [parseGo] at hs
      split at hs
      · split at hs
        · rename_i seg rest' hm
          simp only [List.mem_append, List.mem_cons] at hs
          rcases hs with hs | rfl | hs
          · exact flushLit_inRange acc s hs
          · exact matchSpec_inRange hm
          · exact ih _ _ s hs
        · split at hs
          · exact ih _ _ s hs
          · split at hs
            · simp only [List.mem_append, List.mem_cons] at hs
              rcases hs with hs | rfl | hs
              · exact flushLit_inRange acc s hs
              · trivial
              · exact ih _ _ s hs
            · exact ih _ _ s hs
      · exact ih _ _ s hs

end Fv.Log.Pattern
