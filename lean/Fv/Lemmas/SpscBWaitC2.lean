import Fv.Lemmas.SpscBWaitC
/-! Preservation of `WC` (part 2) and `WD`. -/
namespace Fv.Chan.SpscB

attribute [local grind =] upd_apply
attribute [local grind] holdsSelf holdsW wkPre wkPost loopish exitK okAt inNotify isRet isUr
attribute [local grind cases] Role

syntax "wd_step2 " ident ident " [" Lean.Parser.Tactic.simpLemma,* "]" : tactic
macro_rules
  | `(tactic| wd_step2 $hi $h [$ls,*]) => `(tactic| (
  obtain ⟨d1, d2, d3, d4⟩ := $hi
  simp only [$ls,*, setLoc, afterWake, afterClose] at $h:ident
  repeat' split at $h:ident
  all_goals (first | (simp at $h:ident <;> try subst $h:ident) | skip)
  all_goals (refine ⟨?_, ?_, ?_, ?_⟩ <;>
    (dsimp only; (try simp only [afterNotify, afterUnreg, afterPush, afterPop, loopTop, waitStep]); grind))))

syntax "wc_step2 " ident ident ident ident " [" Lean.Parser.Tactic.simpLemma,* "]" : tactic
macro_rules
  | `(tactic| wc_step2 $hc $ha $hi $h [$ls,*]) => `(tactic| (
  obtain ⟨c1, c2, c3, c4, c5, c6, c7, c8, c9, c10, c11⟩ := $hi
  have ok := CInv.ok $hc
  have a1 := WA.a1 $ha
  have a4 := WA.a4 $ha
  have b3 := WA.b3 $ha
  have b4 := WA.b4 $ha
  have b5 := WA.b5 $ha
  have b6 := WA.b6 $ha
  have pw := @wkPre_holdsW
  simp only [$ls,*, setLoc, afterWake, afterClose] at $h:ident
  repeat' split at $h:ident
  all_goals (first | (simp at $h:ident <;> try subst $h:ident) | skip)
  all_goals (refine ⟨?_, ?_, ?_, ?_, ?_, ?_, ?_, ?_, ?_, ?_, ?_⟩ <;>
    (dsimp only; (try simp only [afterNotify, afterUnreg, afterPush, afterPop, loopTop, waitStep]); grind))))

set_option maxHeartbeats 4000000 in
theorem wc_unpark {s s' : State} {r : Role} (hc : CInv s) (ha : WA s) (hi : WC s) (h : stepUnpark s r = some s') : WC s' := by
  wc_step2 hc ha hi h [stepUnpark]

set_option maxHeartbeats 4000000 in
theorem wc_park {s s' : State} {r : Role} (hc : CInv s) (ha : WA s) (hi : WC s) (h : stepPark s r = some s') : WC s' := by
  wc_step2 hc ha hi h [stepPark]

set_option maxHeartbeats 4000000 in
theorem wc_spurious {s s' : State} {r : Role} (hc : CInv s) (ha : WA s) (hi : WC s) (h : stepSpurious s r = some s') : WC s' := by
  wc_step2 hc ha hi h [stepSpurious]

set_option maxHeartbeats 4000000 in
theorem wc_swapFlag {s s' : State} {r : Role} (hc : CInv s) (ha : WA s) (hi : WC s) (h : stepSwapFlag s r = some s') : WC s' := by
  wc_step2 hc ha hi h [stepSwapFlag]

set_option maxHeartbeats 4000000 in
theorem wc_spin {s s' : State} {r : Role} (hc : CInv s) (ha : WA s) (hi : WC s) (h : stepSpin s r = some s') : WC s' := by
  wc_step2 hc ha hi h [stepSpin]

set_option maxHeartbeats 4000000 in
theorem wc_deadline {s s' : State} {r : Role} (hc : CInv s) (ha : WA s) (hi : WC s) (h : stepDeadline s r = some s') : WC s' := by
  wc_step2 hc ha hi h [stepDeadline]

set_option maxHeartbeats 4000000 in
theorem wc_ldClosed {s s' : State} {r : Role} (hc : CInv s) (ha : WA s) (hi : WC s) (h : stepLdClosed s r = some s') : WC s' := by
  wc_step2 hc ha hi h [stepLdClosed]

set_option maxHeartbeats 4000000 in
theorem wc_ldDropped {s s' : State} {r : Role} (hc : CInv s) (ha : WA s) (hi : WC s) (h : stepLdDropped s r = some s') : WC s' := by
  wc_step2 hc ha hi h [stepLdDropped]

set_option maxHeartbeats 4000000 in
theorem wc_ldCount {s s' : State} {r : Role} (hc : CInv s) (ha : WA s) (hi : WC s) (h : stepLdCount s r = some s') : WC s' := by
  wc_step2 hc ha hi h [stepLdCount]

set_option maxHeartbeats 4000000 in
theorem wc_casClosed {s s' : State} {r : Role} (hc : CInv s) (ha : WA s) (hi : WC s) (h : stepCasClosed s r = some s') : WC s' := by
  wc_step2 hc ha hi h [stepCasClosed]

set_option maxHeartbeats 4000000 in
theorem wc_swapClosed {s s' : State} {r : Role} (hc : CInv s) (ha : WA s) (hi : WC s) (h : stepSwapClosed s r = some s') : WC s' := by
  wc_step2 hc ha hi h [stepSwapClosed]

set_option maxHeartbeats 4000000 in
theorem wc_stDropped {s s' : State} {r : Role} (hc : CInv s) (ha : WA s) (hi : WC s) (h : stepStDropped s r = some s') : WC s' := by
  wc_step2 hc ha hi h [stepStDropped]

set_option maxHeartbeats 4000000 in
theorem wc_subCount {s s' : State} {r : Role} (hc : CInv s) (ha : WA s) (hi : WC s) (h : stepSubCount s r = some s') : WC s' := by
  wc_step2 hc ha hi h [stepSubCount]

set_option maxHeartbeats 4000000 in
theorem wd_call {s s' : State} {r : Role} (hi : WD s) (h : stepCall s r = some s') : WD s' := by
  wd_step2 hi h [stepCall]

set_option maxHeartbeats 4000000 in
theorem wd_ret {s s' : State} {r : Role} (hi : WD s) (h : stepRet s r = some s') : WD s' := by
  wd_step2 hi h [stepRet]

set_option maxHeartbeats 4000000 in
theorem wd_ldTail {s s' : State} {r : Role} (hi : WD s) (h : stepLdTail s r = some s') : WD s' := by
  wd_step2 hi h [stepLdTail]

set_option maxHeartbeats 4000000 in
theorem wd_ldHead {s s' : State} {r : Role} (hi : WD s) (h : stepLdHead s r = some s') : WD s' := by
  wd_step2 hi h [stepLdHead]

set_option maxHeartbeats 4000000 in
theorem wd_stTail {s s' : State} {r : Role} (hi : WD s) (h : stepStTail s r = some s') : WD s' := by
  wd_step2 hi h [stepStTail]

set_option maxHeartbeats 4000000 in
theorem wd_stHead {s s' : State} {r : Role} (hi : WD s) (h : stepStHead s r = some s') : WD s' := by
  wd_step2 hi h [stepStHead]

set_option maxHeartbeats 4000000 in
theorem wd_fence {s s' : State} {r : Role} (hi : WD s) (h : stepFence s r = some s') : WD s' := by
  wd_step2 hi h [stepFence]

set_option maxHeartbeats 4000000 in
theorem wd_ldGate {s s' : State} {r : Role} (hi : WD s) (h : stepLdGate s r = some s') : WD s' := by
  wd_step2 hi h [stepLdGate]

set_option maxHeartbeats 4000000 in
theorem wd_lock {s s' : State} {r : Role} (hi : WD s) (h : stepLock s r = some s') : WD s' := by
  wd_step2 hi h [stepLock]

set_option maxHeartbeats 4000000 in
theorem wd_stGate {s s' : State} {r : Role} (hi : WD s) (h : stepStGate s r = some s') : WD s' := by
  wd_step2 hi h [stepStGate]

set_option maxHeartbeats 4000000 in
theorem wd_stFlag {s s' : State} {r : Role} (hi : WD s) (h : stepStFlag s r = some s') : WD s' := by
  wd_step2 hi h [stepStFlag]

set_option maxHeartbeats 4000000 in
theorem wd_unlock {s s' : State} {r : Role} (hi : WD s) (h : stepUnlock s r = some s') : WD s' := by
  wd_step2 hi h [stepUnlock]

set_option maxHeartbeats 4000000 in
theorem wd_unpark {s s' : State} {r : Role} (hi : WD s) (h : stepUnpark s r = some s') : WD s' := by
  wd_step2 hi h [stepUnpark]

set_option maxHeartbeats 4000000 in
theorem wd_park {s s' : State} {r : Role} (hi : WD s) (h : stepPark s r = some s') : WD s' := by
  wd_step2 hi h [stepPark]

set_option maxHeartbeats 4000000 in
theorem wd_spurious {s s' : State} {r : Role} (hi : WD s) (h : stepSpurious s r = some s') : WD s' := by
  wd_step2 hi h [stepSpurious]

set_option maxHeartbeats 4000000 in
theorem wd_swapFlag {s s' : State} {r : Role} (hi : WD s) (h : stepSwapFlag s r = some s') : WD s' := by
  wd_step2 hi h [stepSwapFlag]

set_option maxHeartbeats 4000000 in
theorem wd_spin {s s' : State} {r : Role} (hi : WD s) (h : stepSpin s r = some s') : WD s' := by
  wd_step2 hi h [stepSpin]

set_option maxHeartbeats 4000000 in
theorem wd_deadline {s s' : State} {r : Role} (hi : WD s) (h : stepDeadline s r = some s') : WD s' := by
  wd_step2 hi h [stepDeadline]

set_option maxHeartbeats 4000000 in
theorem wd_ldClosed {s s' : State} {r : Role} (hi : WD s) (h : stepLdClosed s r = some s') : WD s' := by
  wd_step2 hi h [stepLdClosed]

set_option maxHeartbeats 4000000 in
theorem wd_ldDropped {s s' : State} {r : Role} (hi : WD s) (h : stepLdDropped s r = some s') : WD s' := by
  wd_step2 hi h [stepLdDropped]

set_option maxHeartbeats 4000000 in
theorem wd_ldCount {s s' : State} {r : Role} (hi : WD s) (h : stepLdCount s r = some s') : WD s' := by
  wd_step2 hi h [stepLdCount]

set_option maxHeartbeats 4000000 in
theorem wd_casClosed {s s' : State} {r : Role} (hi : WD s) (h : stepCasClosed s r = some s') : WD s' := by
  wd_step2 hi h [stepCasClosed]

set_option maxHeartbeats 4000000 in
theorem wd_swapClosed {s s' : State} {r : Role} (hi : WD s) (h : stepSwapClosed s r = some s') : WD s' := by
  wd_step2 hi h [stepSwapClosed]

set_option maxHeartbeats 4000000 in
theorem wd_stDropped {s s' : State} {r : Role} (hi : WD s) (h : stepStDropped s r = some s') : WD s' := by
  wd_step2 hi h [stepStDropped]

set_option maxHeartbeats 4000000 in
theorem wd_subCount {s s' : State} {r : Role} (hi : WD s) (h : stepSubCount s r = some s') : WD s' := by
  wd_step2 hi h [stepSubCount]

end Fv.Chan.SpscB
