import Fv.Lemmas.SyncRwFrame
/-!
Preservation of the basic `HybridRwLock` invariant, part 1: reader/writer exclusion, CAS locals,
list-spinlock exclusion, sync/async pc discipline.
Style: for a per-thread conjunct the other threads are handled by the frame lemmas, the stepping
thread by one pass over the step cases with ground facts.
-/
namespace Fv.Sync.RwLock
open Fv.Sync
variable {cfg : Cfg} {s s' : State} {t : Tid} {l : Lbl}

/-- what a guard in `holders` says about the state word, and what is left when it is removed -/
theorem holders_key (h1 : PWlHeld s) (h2 : PFree s) {u : Tid} {b : Bool} (hm : (u, b) ∈ s.holders) :
    (b = true → s.word.wl = true ∧ s.word.readers = 0 ∧ s.holders.erase (u, b) = [])
    ∧ (b = false → s.word.wl = false ∧ (∀ h ∈ s.holders.erase (u, b), h.2 = false)
        ∧ (s.holders.erase (u, b)).length + 1 = s.word.readers) := by
  cases hl : s.word.wl
  · obtain ⟨hall, hlen⟩ := h2 hl
    have hb : b = false := hall _ hm
    subst hb
    refine ⟨fun h => (by cases h), fun _ => ⟨rfl, ?_, ?_⟩⟩
    · intro h hh; exact hall h (List.mem_of_mem_erase hh)
    · rw [List.length_erase_of_mem hm, ← hlen]
      have := List.length_pos_of_mem hm
      omega
  · obtain ⟨⟨v, hv⟩, hr⟩ := h1 hl
    rw [hv] at hm ⊢
    simp at hm
    obtain ⟨rfl, rfl⟩ := hm
    simp [hr]

theorem holders_nil (h2 : PFree s) (hw : s.word.wl = false) (hr : s.word.readers = 0) : s.holders = [] := by
  have := (h2 hw).2
  rw [hr] at this
  exact List.length_eq_zero_iff.1 this

set_option maxHeartbeats 8000000 in
theorem mx_step (hi : Inv s) (h : Step cfg s t l s') : PWlHeld s' ∧ PFree s' := by
  have h1 := hi.wlHeld; have h2 := hi.free
  have key := fun b => @holders_key s h1 h2 t b
  have hnil := holders_nil h2
  have a3 := hi.svOk t; have a4 := hi.relHolds t
  unfold PWlHeld PFree at *
  clear hi
  step_cases h
  all_goals (try norm_goal)
  all_goals (first | exact ⟨h1, h2⟩ | grind [isCas, RWord.blocked])

set_option maxHeartbeats 8000000 in
theorem pure_local_step (hi : Inv s) (h : Step cfg s t l s') :
    PSvOk s' ∧ PSyncCur s' ∧ PAsyncCur s' ∧ PFfOk s' := by
  have key : (isCas (s'.th t).pc = true → (s'.th t).sv.blocked (s'.th t).wr = false)
      ∧ (syncOnly (s'.th t).pc = true → (s'.th t).cur = none)
      ∧ (asyncOnly (s'.th t).pc = true → (s'.th t).cur ≠ none)
      ∧ ((s'.th t).pc ≠ .ff1 .parkLoad ∧ (s'.th t).pc ≠ .ff1 .pending
          ∧ (s'.th t).pc ≠ .ff2 .parkLoad ∧ (s'.th t).pc ≠ .ff2 .pending) := by
    have a1 := hi.svOk t; have a2 := hi.syncCur t; have a3 := hi.asyncCur t; have a4 := hi.ffOk t
    clear hi
    step_cases h
    all_goals (try norm_goal)
    all_goals rg
  have ho := step_th_other h
  refine ⟨?_, ?_, ?_, ?_⟩ <;> intro u <;> by_cases hu : u = t
  · subst hu; exact key.1
  · rw [ho u hu]; exact hi.svOk u
  · subst hu; exact key.2.1
  · rw [ho u hu]; exact hi.syncCur u
  · subst hu; exact key.2.2.1
  · rw [ho u hu]; exact hi.asyncCur u
  · subst hu; exact key.2.2.2
  · rw [ho u hu]; exact hi.ffOk u

set_option maxHeartbeats 8000000 in
theorem relHolds_step (hi : Inv s) (h : Step cfg s t l s') : PRelHolds s' := by
  intro u
  by_cases hu : u = t
  · subst hu
    have a4 := hi.relHolds u
    clear hi
    step_cases h
    all_goals (try norm_goal)
    all_goals (first | exact a4 | rg)
  · rw [step_th_other h u hu]
    exact ⟨fun hp => step_holders_other h u false hu ((hi.relHolds u).1 hp),
           fun hp => step_holders_other h u true hu ((hi.relHolds u).2 hp)⟩

theorem ll_step (hi : Inv s) (h : Step cfg s t l s') : PLl s' := by
  have hll := hi.ll
  have ho := step_th_other h
  obtain ⟨k1, k2⟩ := step_ll h (fun ht => (hll t ht).1)
  intro u hu
  by_cases hut : u = t
  · subst hut
    obtain ⟨hl', hor⟩ := k1 hu
    refine ⟨hl', ?_⟩
    intro v hv
    by_cases hvu : v = u
    · exact hvu
    · rw [ho v hvu] at hv
      rcases hor with hor | hor
      · exact (hll u hor).2 v hv
      · have := (hll v hv).1; rw [hor] at this; cases this
  · rw [ho u hut] at hu
    obtain ⟨hl, huniq⟩ := hll u hu
    have htn : inLL (s.th t).pc = false := by
      cases hc : inLL (s.th t).pc
      · rfl
      · exact absurd (huniq t hc).symm hut
    obtain ⟨hl', htn'⟩ := k2 htn hl
    refine ⟨hl', ?_⟩
    intro v hv
    by_cases hvt : v = t
    · subst hvt; rw [htn'] at hv; cases hv
    · rw [ho v hvt] at hv; exact huniq v hv

end Fv.Sync.RwLock
