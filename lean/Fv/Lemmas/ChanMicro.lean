import Fv.Lemmas.ChanStepB
/-! `StepOk` for `microDet`, `microSpur` and `micro`. -/
namespace Fv.Chan
open List

theorem extract_count {t : Nat} {l rest : List (Nat × Val)} {v : Val} (h : extract t l = some (v, rest)) (x : Val) :
    count x (l.map (·.2)) = count x (rest.map (·.2)) + count x [v] := by
  induction l generalizing rest with
  | nil => simp [extract] at h
  | cons a r ih =>
    obtain ⟨u, w⟩ := a
    simp only [extract] at h
    split at h
    · cases h; simp [count_cons]
    · split at h
      · rename_i w' r' hr
        cases h
        have := ih hr
        simp [count_cons] at this ⊢; omega
      · cases h

theorem erase_count {t : Nat} {l : List (Nat × Val)} {v : Val} (h : (t, v) ∈ l) (x : Val) :
    count x (l.map (·.2)) = count x ((l.erase (t, v)).map (·.2)) + count x [v] := by
  induction l with
  | nil => cases h
  | cons a r ih =>
    by_cases ha : a = (t, v)
    · subst ha; simp [count_cons]
    · have hm : (t, v) ∈ r := by
        rcases mem_cons.mp h with h | h
        · exact absurd h.symm ha
        · exact h
      have := ih hm
      rw [erase_cons_tail (by simpa using ha)]
      simp [count_cons] at this ⊢; omega

theorem startCloseSb_ok (fl s h t op) :
    StepOk fl s (.fresh t op) (startCloseSb s t h).1 (startCloseSb s t h).2 [] := by
  unfold startCloseSb
  split
  · exact StepOk.ofSameFin (same_ok fl s)
  · split
    · exact StepOk.ofSameFin (same_ok fl s)
    · have hu : (Inv fl s → Inv fl ({ s with hs := setH s.hs h (fun x => { x with closed := true }), pd := true } : St)) ∧
          SameAcct s ({ s with hs := setH s.hs h (fun x => { x with closed := true }), pd := true } : St) := by upd
      exact StepOk.ofSame hu.1 hu.2 rfl rfl rfl rfl

theorem startDropSb_ok (fl s h t op) :
    StepOk fl s (.fresh t op) (startDropSb s t h).1 (startDropSb s t h).2 [] := by
  unfold startDropSb
  split
  · exact StepOk.ofSameFin (same_ok fl s)
  · split
    · exact StepOk.ofSameFin (ok_trans (eraseHandle_ok fl s h) (teardownIfLast_ok fl _))
    · have hu : (Inv fl s → Inv fl ({ (s.eraseHandle h) with pd := true } : St)) ∧
          SameAcct s ({ (s.eraseHandle h) with pd := true } : St) := by unfold St.eraseHandle; upd
      exact StepOk.ofSame hu.1 hu.2 rfl rfl rfl rfl

theorem start_ok (fl cfg s t op) :
    ∃ δ, (δ = [] ∨ δ = op.vals) ∧ StepOk fl s (.fresh t op) (start fl cfg s t op).1 (start fl cfg s t op).2 δ := by
  cases op with
  | snd f h vs => exact startSend_ok ..
  | rcv f h n => exact ⟨[], Or.inl rfl, startRecv_ok ..⟩
  | clone h h' => exact ⟨[], Or.inl rfl, startClone_ok ..⟩
  | close h =>
    simp only [start]
    split
    · exact ⟨[], Or.inl rfl, startCloseSb_ok ..⟩
    · exact ⟨[], Or.inl rfl, startClose_ok ..⟩
  | drop h =>
    simp only [start]
    split
    · exact ⟨[], Or.inl rfl, startDropSb_ok ..⟩
    · exact ⟨[], Or.inl rfl, startDrop_ok ..⟩
  | probe p h => exact ⟨[], Or.inl rfl, startProbe_ok ..⟩
  | toAsync h => exact ⟨[], Or.inl rfl, startConvert_ok ..⟩
  | toSync h => exact ⟨[], Or.inl rfl, startConvert_ok ..⟩

/-- prefix a state-only change to a step -/
theorem StepOk.afterSame {fl s s0 p s' p' δ} (h0 : (Inv fl s → Inv fl s0) ∧ SameAcct s s0)
    (h : StepOk fl s0 p s' p' δ) : StepOk fl s p s' p' δ := by
  refine ⟨fun hi => h.inv (h0.1 hi), by rw [h.created, h0.2.created], ?_, ?_, ?_, ?_⟩
  · intro v; have := h.tok v; rw [h0.2.placed v] at this; exact this
  · intro v; have := h.recv v; simpa [h0.2.recvOk, St.owed, h0.2.rdone] using this
  · intro v; have := h.sent v; simpa [h0.2.sentOk, St.sdv, h0.2.sdone] using this
  · intro v; have := h.back v; simpa [h0.2.returned] using this

theorem microDet_ok {fl cfg s p s' p'} (hs : microDet fl cfg s p = some (s', p')) :
    ∃ δ, (δ = [] ∨ δ = freshVals p) ∧ StepOk fl s p s' p' δ := by
  cases p with
  | fresh t op =>
    simp only [microDet] at hs
    obtain ⟨rfl, rfl⟩ := of_some_eq hs
    have hb : ∀ s0 : St, (s0 = s ∨ s0 = { s with inflight := s.inflight + 1 }) →
        ∃ δ, (δ = [] ∨ δ = op.vals) ∧ StepOk fl s (.fresh t op) (start fl cfg s0 t op).1 (start fl cfg s0 t op).2 δ := by
      intro s0 h0
      obtain ⟨δ, hd, hk⟩ := start_ok fl cfg s0 t op
      refine ⟨δ, hd, ?_⟩
      rcases h0 with rfl | rfl
      · exact hk
      · exact hk.afterSame (by upd)
    cases op <;> first
      | exact hb _ (Or.inl rfl)
      | (simp only []; split
         · exact hb _ (Or.inr rfl)
         · exact hb _ (Or.inl rfl))
  | bsend t f h sent rest q => exact ⟨[], Or.inl rfl, sendStep_ok hs⟩
  | bsendEnd t f sent rest =>
    simp only [microDet] at hs
    obtain ⟨rfl, rfl⟩ := of_some_eq hs
    exact ⟨[], Or.inl rfl, (failSend_ok fl s f _ sent rest t ⟨.tx, 0⟩ 0).retarget _ rfl rfl rfl rfl⟩
  | brecv t f h n got =>
    simp only [microDet] at hs
    split at hs
    · cases hs
    · split at hs
      · rename_i hr
        cases hs
        exact ⟨[], Or.inl rfl, (recvStep_ok hr).retarget _ rfl rfl rfl rfl⟩
      · split at hs
        · cases hs
          exact ⟨[], Or.inl rfl, StepOk.ofSame (mbFlush_ok fl s).1 (mbFlush_ok fl s).2 rfl rfl rfl rfl⟩
        · cases hs
  | rvSend t v =>
    simp only [microDet] at hs
    refine ⟨[], Or.inl rfl, ?_⟩
    split at hs
    · rename_i he
      cases hs
      refine ⟨fun hi => hi.frame (by frame), by simp, ?_, ?_, ?_, ?_⟩
      · intro x; acct
      · intro x; acct
      · intro x; have := erase_count he x; revert this; acct
      · intro x; acct
    · split at hs
      · rename_i he
        cases hs
        refine ⟨fun hi => hi.frame (by unfold St.lose; frame), ?_, ?_, ?_, ?_, ?_⟩
        · acct
        · intro x; have := erase_count he x; revert this; acct
        · intro x; acct
        · intro x; acct
        · intro x; acct
      · cases hs
  | rvRecv t =>
    simp only [microDet] at hs
    refine ⟨[], Or.inl rfl, ?_⟩
    split at hs
    · rename_i w rest he
      cases hs
      refine ⟨fun hi => hi.frame (by frame), by simp, ?_, ?_, ?_, ?_⟩
      · intro x; acct
      · intro x; have := extract_count he x; revert this; acct
      · intro x; acct
      · intro x; acct
    · split at hs
      · cases hs
        exact StepOk.ofSame (fun hi => hi.frame (by frame)) (by same) rfl rfl rfl rfl
      · cases hs
  | rvTo t stage =>
    simp only [microDet] at hs
    refine ⟨[], Or.inl rfl, ?_⟩
    split at hs
    · split at hs
      · rename_i w rest he
        cases hs
        refine ⟨fun hi => hi.frame (by frame), by simp, ?_, ?_, ?_, ?_⟩
        · intro x; acct
        · intro x; have := extract_count he x; revert this; acct
        · intro x; acct
        · intro x; acct
      · split at hs
        · cases hs
          exact StepOk.ofSame (fun hi => hi.frame (by frame)) (by same) rfl rfl rfl rfl
        · cases hs
          exact StepOk.ofSame (fun hi => hi.frame (by frame)) (by same) rfl rfl rfl rfl
    · cases hs
      exact StepOk.ofSame (fun hi => hi.frame (by frame)) (by same) rfl rfl rfl rfl
  | osRecv t h =>
    simp only [microDet] at hs
    split at hs
    · cases hs
    · exact ⟨[], Or.inl rfl, osRecvStep_ok _ ⟨rfl, rfl, rfl, rfl⟩ hs⟩
  | stg t k h sent rest => exact ⟨[], Or.inl rfl, stgStep_ok hs⟩
  | fin o => simp [microDet] at hs


theorem microSpur_ok {fl cfg s p s' p'} (hs : (s', p') ∈ microSpur fl cfg s p) :
    StepOk fl s p s' p' [] := by
  cases p with
  | fresh t op =>
    cases op with
    | rcv f h n =>
      simp only [microSpur] at hs
      split at hs
      · split at hs
        · split at hs
          · simp only [mem_singleton, Prod.mk.injEq] at hs
            obtain ⟨rfl, rfl⟩ := hs
            exact (StepOk.refl' fl s (.fresh t (.rcv f h n)) (.fin { tag := emptyTag f }) rfl rfl rfl rfl).thenSame (mbFlush_ok fl s)
          · simp at hs
        · split at hs
          · simp only [mem_singleton, Prod.mk.injEq] at hs
            obtain ⟨rfl, rfl⟩ := hs
            exact (StepOk.refl' fl s (.fresh t (.rcv f h n)) (.fin { tag := emptyTag f }) rfl rfl rfl rfl).thenSame (mbFlush_ok fl s)
          · simp at hs
        · simp at hs
      · simp at hs
    | _ => simp [microSpur] at hs
  | bsend t f h sent rest q =>
    simp only [microSpur, mem_append] at hs
    rcases hs with hs | hs
    · split at hs
      · rw [Option.mem_toList] at hs
        exact (sendStep_ok hs).retarget (.bsend t f h sent rest q) rfl rfl rfl rfl
      · simp at hs
    · split at hs
      · simp only [mem_singleton] at hs
        have e1 : s' = (failSend fl s f .closed sent rest).1 := by rw [← hs]
        have e2 : p' = (failSend fl s f .closed sent rest).2 := by rw [← hs]
        subst e1 e2
        exact failSend_ok ..
      · simp at hs
  | brecv t f h n got =>
    simp only [microSpur, mem_append] at hs
    rcases hs with hs | hs
    · split at hs
      · simp only [mem_singleton, Prod.mk.injEq] at hs
        obtain ⟨rfl, rfl⟩ := hs
        exact (StepOk.refl' fl s (.brecv t f h n got) (.fin { tag := .ok, got := got }) rfl rfl rfl rfl).thenSame (mbFlush_ok fl s)
      · simp at hs
    · split at hs
      · split at hs
        · simp only [mem_singleton, Prod.mk.injEq] at hs
          obtain ⟨rfl, rfl⟩ := hs
          rename_i hc
          have hg : got = [] := by simpa using hc.2.2.2.1
          subst hg
          exact StepOk.refl' fl s' (.brecv t f h n []) (.fin { tag := .disconnected }) rfl rfl rfl rfl
        · simp at hs
      · simp at hs
  | _ => simp [microSpur] at hs

/-- Every atomic step of the model — deterministic or concurrent-only, any flavour, any
configuration — keeps the invariant and balances the ghost accounts. -/
theorem micro_ok {fl cfg s p s' p'} (hs : (s', p') ∈ micro fl cfg s p) :
    ∃ δ, (δ = [] ∨ δ = freshVals p) ∧ StepOk fl s p s' p' δ := by
  unfold micro at hs
  rw [mem_append] at hs
  rcases hs with hs | hs
  · rw [Option.mem_toList] at hs
    exact microDet_ok hs
  · split at hs
    · exact ⟨[], Or.inl rfl, microSpur_ok hs⟩
    · simp at hs

theorem micro_inv {fl cfg s p s' p'} (hs : (s', p') ∈ micro fl cfg s p) (hi : Inv fl s) : Inv fl s' := by
  obtain ⟨_, _, h⟩ := micro_ok hs
  exact h.inv hi

end Fv.Chan
