import Fv.Lemmas.ChanInv
/-!
`StepOk` for every atomic step of the operational model: each function of `Fv/Chan/Seq.lean` that
produces a successor `(state, operation-in-progress)` keeps `Inv` and balances the ghost accounts.
-/
namespace Fv.Chan
open List

macro "acct" : tactic =>
  `(tactic| (simp [St.lose, St.giveBack, St.push, St.pop, St.create, St.drainBuf, St.handOff, St.handOffLost,
      P.inHand, gotOf, sentOf, backOf, freshVals, Op.vals, St.placed, St.parked, St.owed, St.sdv, count_append,
      count_cons, count_nil] <;> omega))

theorem of_some_eq {α β} {X : α × β} {a : α} {b : β} (h : some X = some (a, b)) : X.1 = a ∧ X.2 = b := by
  cases X; cases h; exact ⟨rfl, rfl⟩

theorem StepOk.trans {fl s p s1 p1 s2 p2 δ} (h1 : StepOk fl s p s1 p1 δ) (h2 : StepOk fl s1 p1 s2 p2 []) :
    StepOk fl s p s2 p2 δ := by
  refine ⟨fun hi => h2.inv (h1.inv hi), ?_, ?_, ?_, ?_, ?_⟩
  · rw [h2.created, h1.created]; simp
  · intro v; have a := h1.tok v; have b := h2.tok v; simp at b; omega
  · intro v; have a := h1.recv v; have b := h2.recv v; omega
  · intro v; have a := h1.sent v; have b := h2.sent v; omega
  · intro v; have a := h1.back v; have b := h2.back v; omega

theorem failSend_ok (fl : Flavour) (s : St) (f : Form) (tag : Tag) (sent rest : List Val) (t h q) :
    StepOk fl s (.bsend t f h sent rest q) (failSend fl s f tag sent rest).1 (failSend fl s f tag sent rest).2 [] := by
  unfold failSend
  split
  · refine ⟨fun hi => hi.frame (frame_lose _ _), ?_, ?_, ?_, ?_, ?_⟩ <;> acct
  · refine ⟨fun hi => hi.frame (frame_giveBack _ _), ?_, ?_, ?_, ?_, ?_⟩ <;> acct

theorem trySendEnd_ok (fl : Flavour) (cfg s t f sent rest h q) :
    StepOk fl s (.bsend t f h sent rest q) (trySendEnd fl cfg s t f sent rest).1 (trySendEnd fl cfg s t f sent rest).2 [] := by
  unfold trySendEnd
  split
  · refine ⟨fun hi => hi.frame (frame_giveBack _ _), ?_, ?_, ?_, ?_, ?_⟩ <;> acct
  · split
    · refine ⟨fun hi => hi, ?_, ?_, ?_, ?_, ?_⟩ <;> acct
    · exact failSend_ok ..

theorem sendAvail_le_room (fl cfg s f rest) :
    match room fl s with
    | some r => sendAvail fl cfg s f rest ≤ r
    | none => True := by
  unfold sendAvail hotRoom room
  by_cases hc : (f.blocking = true ∧ cfg.hot = true) <;>
    cases fl.fam <;> simp [hc] <;> omega

theorem sendK_le (fl cfg s f rest q spur) :
    sendK fl cfg s f rest q spur ≤ sendAvail fl cfg s f rest := by
  unfold sendK sendQuota
  split <;> split <;> (try split) <;> omega

theorem sendAvail_le_len (fl cfg s f rest) : sendAvail fl cfg s f rest ≤ rest.length := by
  unfold sendAvail; split <;> omega

theorem sendK_room (fl cfg s f rest q spur) :
    match room fl s with
    | some r => sendK fl cfg s f rest q spur ≤ r
    | none => True := by
  have h1 := sendAvail_le_room fl cfg s f rest
  have h2 := sendK_le fl cfg s f rest q spur
  split <;> simp_all <;> omega

theorem count_take_drop' (v : Val) (k : Nat) (l : List Val) :
    count v l = count v (l.take k) + count v (l.drop k) := (count_take_add_drop v k l).symm

theorem push_take_ok {fl : Flavour} {s : St} {t f h sent rest q k q'}
    (hroom : match room fl s with | some r => k ≤ r | none => True) (hlen : k ≤ rest.length) :
    StepOk fl s (.bsend t f h sent rest q) (s.push h.idx (rest.take k))
      (.bsend t f h (sent ++ rest.take k) (rest.drop k) q') [] := by
  refine ⟨fun hi => hi.push _ _ (capOk_push_room hi.cap _ _ ?_), ?_, ?_, ?_, ?_, ?_⟩
  · split <;> simp_all [length_take] <;> omega
  all_goals (try (intro v; have := count_take_drop' v k rest; revert this)); acct

theorem sendStep_ok {fl : Flavour} {cfg s t f h sent rest q spur s' p'}
    (hs : sendStep fl cfg s t f h sent rest q spur = some (s', p')) :
    StepOk fl s (.bsend t f h sent rest q) s' p' [] := by
  unfold sendStep at hs
  have hroom := sendK_room fl cfg s f rest q spur
  have hlen : sendK fl cfg s f rest q spur ≤ rest.length :=
    Nat.le_trans (sendK_le ..) (sendAvail_le_len ..)
  generalize sendK fl cfg s f rest q spur = k at hs hroom hlen
  generalize sendQuota fl cfg s f rest q spur = qq at hs
  split at hs
  · split at hs
    · cases hs
      refine ⟨fun hi => hi.frame (frame_giveBack _ _), ?_, ?_, ?_, ?_, ?_⟩ <;> acct
    · obtain ⟨rfl, rfl⟩ := of_some_eq hs; exact failSend_ok ..
  · split at hs
    · cases hs
      refine ⟨fun hi => hi, ?_, ?_, ?_, ?_, ?_⟩ <;> acct
    · split at hs
      · cases hs
        refine ⟨fun hi => hi.push _ _ (capOk_push_room hi.cap _ _ ?_), ?_, ?_, ?_, ?_, ?_⟩
        · split <;> simp_all
        all_goals acct
      · split at hs
        · split at hs
          · cases hs
          · obtain ⟨rfl, rfl⟩ := of_some_eq hs; exact trySendEnd_ok ..
        · simp only [] at hs
          split at hs
          · cases hs; exact push_take_ok hroom hlen
          · obtain ⟨rfl, rfl⟩ := of_some_eq hs
            exact (push_take_ok (q' := 0) hroom hlen).trans (trySendEnd_ok ..)


/-! ### steps that only touch the shared counters / flags / waiter bookkeeping -/

/-- `s'` has the same ghost accounts as `s` (tokens may have moved between channel-side locations) -/
structure SameAcct (s s' : St) : Prop where
  created : s'.created = s.created
  placed : ∀ v, count v s'.placed = count v s.placed
  recvOk : s'.recvOk = s.recvOk
  rdone : s'.rdone = s.rdone
  sentOk : s'.sentOk = s.sentOk
  sdone : s'.sdone = s.sdone
  returned : s'.returned = s.returned

theorem SameAcct.refl (s : St) : SameAcct s s := ⟨rfl, fun _ => rfl, rfl, rfl, rfl, rfl, rfl⟩

theorem SameAcct.trans {a b c : St} (h1 : SameAcct a b) (h2 : SameAcct b c) : SameAcct a c :=
  ⟨h2.created.trans h1.created, fun v => (h2.placed v).trans (h1.placed v), h2.recvOk.trans h1.recvOk,
   h2.rdone.trans h1.rdone, h2.sentOk.trans h1.sentOk, h2.sdone.trans h1.sdone, h2.returned.trans h1.returned⟩

theorem StepOk.ofSame {fl s s' p p'} (hI : Inv fl s → Inv fl s') (hA : SameAcct s s')
    (h1 : P.inHand p' = P.inHand p) (h2 : gotOf p' = gotOf p) (h3 : sentOf p' = sentOf p) (h4 : backOf p' = backOf p) :
    StepOk fl s p s' p' [] := by
  refine ⟨hI, by simp [hA.created], ?_, ?_, ?_, ?_⟩
  · intro v; simp [h1, hA.placed v]
  · intro v; simp [h2, hA.recvOk, St.owed, hA.rdone]
  · intro v; simp [h3, hA.sentOk, St.sdv, hA.sdone]
  · intro v; simp [h4, hA.returned]

/-- closes `SameAcct s <record update of s that leaves the ghost lists alone>` -/
macro "same" : tactic =>
  `(tactic| (refine ⟨?_, ?_, ?_, ?_, ?_, ?_, ?_⟩ <;> first | rfl | (intro v; simp [St.placed, St.parked, St.drainBuf, count_append, Function.comp_def]; try omega)))

theorem drainBuf_same (s : St) : SameAcct s s.drainBuf := by unfold St.drainBuf; same

theorem osDecSenders_ok (fl) (s : St) : (Inv fl s → Inv fl (osDecSenders s)) ∧ SameAcct s (osDecSenders s) := by
  unfold osDecSenders
  simp only []
  split
  · split
    · exact ⟨fun hi => hi.frame (by frame), by same⟩
    · split
      · refine ⟨fun hi => ?_, ?_⟩
        · have h1 : Inv fl { s with sc := wdec s.sc } := hi.frame (by frame)
          exact h1.drainBuf.frame (by unfold St.drainBuf; frame)
        · unfold St.drainBuf; same
      · exact ⟨fun hi => hi.frame (by frame), by same⟩
  · exact ⟨fun hi => hi.frame (by frame), by same⟩

theorem teardownIfLast_ok (fl) (s : St) : (Inv fl s → Inv fl (teardownIfLast s)) ∧ SameAcct s (teardownIfLast s) := by
  unfold teardownIfLast
  split
  · exact ⟨fun hi => hi.drainBuf, drainBuf_same s⟩
  · exact ⟨id, SameAcct.refl s⟩


/-- the two obligations of a state-only step whose result is a record update of `s` -/
macro "upd" : tactic => `(tactic| (refine ⟨fun hi => hi.frame ?_, ?_⟩; (· frame); (· same)))

theorem closeEffect_ok (fl : Flavour) (s : St) (side : Side) :
    (Inv fl s → Inv fl (closeEffect fl s side)) ∧ SameAcct s (closeEffect fl s side) := by
  unfold closeEffect
  cases side <;> cases hf : fl.fam <;> simp only []
  case tx.sb => upd
  case tx.mb => upd
  case tx.mu => upd
  case tx.pb => upd
  case tx.pu => upd
  case tx.rv => split <;> upd
  case tx.os => exact osDecSenders_ok fl s
  case rx.sb => upd
  case rx.mb => upd
  case rx.mu =>
    refine ⟨fun hi => hi.drainBuf.frame ?_, ?_⟩
    · unfold St.drainBuf; frame
    · unfold St.drainBuf; same
  case rx.pb => upd
  case rx.pu => upd
  case rx.rv => split <;> upd
  case rx.os =>
    split
    · upd
    · split
      · refine ⟨fun hi => ?_, ?_⟩
        · have h1 : Inv fl { s with rd := true } := hi.frame (by frame)
          exact h1.drainBuf.frame (by unfold St.drainBuf; frame)
        · unfold St.drainBuf; same
      · upd


/-- `StepOk` of a step that finishes a non-transfer operation -/
theorem StepOk.ofSameFin {fl s s' t op tag val} (h : (Inv fl s → Inv fl s') ∧ SameAcct s s') :
    StepOk fl s (.fresh t op) s' (.fin { tag := tag, val := val }) [] :=
  StepOk.ofSame h.1 h.2 rfl rfl rfl rfl

theorem same_ok (fl) (s : St) : (Inv fl s → Inv fl s) ∧ SameAcct s s := ⟨id, SameAcct.refl s⟩

theorem ok_trans {fl a b c} (h1 : (Inv fl a → Inv fl b) ∧ SameAcct a b) (h2 : (Inv fl b → Inv fl c) ∧ SameAcct b c) :
    (Inv fl a → Inv fl c) ∧ SameAcct a c := ⟨fun hi => h2.1 (h1.1 hi), h1.2.trans h2.2⟩

theorem startClose_ok (fl s h t op) :
    StepOk fl s (.fresh t op) (startClose fl s h).1 (startClose fl s h).2 [] := by
  unfold startClose
  split
  · exact StepOk.ofSameFin (same_ok fl s)
  · split
    · exact StepOk.ofSameFin (same_ok fl s)
    · exact StepOk.ofSameFin (ok_trans (by upd) (closeEffect_ok ..))

theorem eraseHandle_ok (fl) (s : St) (h) : (Inv fl s → Inv fl (s.eraseHandle h)) ∧ SameAcct s (s.eraseHandle h) := by
  unfold St.eraseHandle; upd

theorem startDrop_ok (fl s h t op) :
    StepOk fl s (.fresh t op) (startDrop fl s h).1 (startDrop fl s h).2 [] := by
  unfold startDrop
  split
  · exact StepOk.ofSameFin (same_ok fl s)
  · split
    · exact StepOk.ofSameFin (ok_trans (eraseHandle_ok ..) (teardownIfLast_ok ..))
    · exact StepOk.ofSameFin (ok_trans (ok_trans (eraseHandle_ok ..) (closeEffect_ok ..)) (teardownIfLast_ok ..))

theorem startClone_ok (fl s h h' t op) :
    StepOk fl s (.fresh t op) (startClone fl s h h').1 (startClone fl s h h').2 [] := by
  unfold startClone
  split
  · exact StepOk.ofSameFin (same_ok fl s)
  · exact StepOk.ofSameFin (same_ok fl s)
  · split
    · exact StepOk.ofSameFin (same_ok fl s)
    · simp only []
      cases h.side <;> exact StepOk.ofSameFin (by upd)

theorem startConvert_ok (fl s h b t op) :
    StepOk fl s (.fresh t op) (startConvert fl s h b).1 (startConvert fl s h b).2 [] := by
  unfold startConvert
  split
  · exact StepOk.ofSameFin (same_ok fl s)
  · split
    · exact StepOk.ofSameFin (same_ok fl s)
    · simp only []
      split <;> exact StepOk.ofSameFin (by upd)

theorem startProbe_ok (fl s pr h t op) :
    StepOk fl s (.fresh t op) (startProbe fl s pr h).1 (startProbe fl s pr h).2 [] := by
  unfold startProbe
  split
  · exact StepOk.ofSameFin (same_ok fl s)
  · split <;> exact StepOk.ofSameFin (same_ok fl s)


/-! ### send starts -/

theorem capOk_handOff {fl : Flavour} {s : St} (h : capOk fl s) (hf : fl.fam = .rv) : ∀ s' : St,
    s'.buf = s.buf → capOk fl s' := by
  intro s' hb
  unfold capOk Flavour.capOf at h ⊢
  simp only [hf] at h ⊢
  rw [hb]; exact h

theorem Inv.handOff {fl s} (h : Inv fl s) (hf : fl.fam = .rv) (p r v) : Inv fl (s.handOff p r v) := by
  refine ⟨?_, ?_, ?_, ?_, capOk_handOff h.cap hf _ rfl, ?_, ?_⟩
  · have hb : s.buf = [] := by
      have := h.cap; unfold capOk Flavour.capOf at this; simpa [hf] using this
    simp [St.handOff, h.seq, hb]
  · exact Sublist.append h.sub (Sublist.refl _)
  · intro x; simp [St.handOff, count_append, h.cons x]; omega
  · intro hd; simp [St.handOff, h.nodrop hd]
  · simp [St.handOff, h.tagS]
  · simp [St.handOff, h.tagR]

theorem Inv.handOffLost {fl s} (h : Inv fl s) (hf : fl.fam = .rv) (p v) : Inv fl (s.handOffLost p v) := by
  refine ⟨?_, ?_, ?_, ?_, capOk_handOff h.cap hf _ rfl, ?_, h.tagR⟩
  · have hb : s.buf = [] := by
      have := h.cap; unfold capOk Flavour.capOf at this; simpa [hf] using this
    simp [St.handOffLost, h.seq, hb]
  · exact h.sub.trans (sublist_append_left _ _)
  · intro x; simp [St.handOffLost, count_append, h.cons x]; omega
  · intro hd; simp [St.handOffLost] at hd
  · simp [St.handOffLost, h.tagS]

theorem rvSendStep_ok (fl : Flavour) (hf : fl.fam = .rv) (s t f h v q) :
    StepOk fl s (.bsend t f h [] [v] q) (rvSendStep fl s t f h v).1 (rvSendStep fl s t f h v).2 [] := by
  unfold rvSendStep
  split
  · exact failSend_ok ..
  · split
    · split
      · refine ⟨fun hi => (hi.handOffLost hf _ _).frame (by unfold St.handOffLost; frame), ?_, ?_, ?_, ?_, ?_⟩ <;> acct
      · refine ⟨fun hi => (hi.handOff hf _ _ _).frame (by unfold St.handOff; frame), ?_, ?_, ?_, ?_, ?_⟩ <;> acct
    · split
      · refine ⟨fun hi => hi.frame (by frame), ?_, ?_, ?_, ?_, ?_⟩ <;> acct
      · exact failSend_ok ..

end Fv.Chan
