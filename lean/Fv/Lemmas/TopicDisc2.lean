import Fv.Lemmas.TopicDisc
/-! Sender handles: the tx list under a step; `sendersGone` is stable without `Clone`;
the disconnected flag is sticky; single-sender invariant. -/
namespace Fv.Chan.Topic

theorem foldl_subscribeCore_txs (l : List Topic) (s : St) (q : Nat) :
    (l.foldl (fun s t => subscribeCore s q t) s).txs = s.txs := by
  induction l generalizing s with
  | nil => rfl
  | cons t l ih => simp only [List.foldl_cons]; rw [ih, subscribeCore_txs]

theorem recvWith_txs (s : St) (q : Nat) (x : Rx) (d e : Res) : (recvWith s q x d e).1.txs = s.txs := by
  unfold recvWith; split
  · rfl
  · split <;> rfl

theorem sClose_txs (s : St) (h : Nat) :
    (sClose s h).1.txs = s.txs ∨ (sClose s h).1.txs = modAt s.txs h (fun x => { x with closed := true }) := by
  unfold sClose; split
  · left; rfl
  · split
    · left; rfl
    · right; rfl

/-- how a step may change the list of sender handles -/
theorem step_txs (s : St) (op : Op) :
    (step s op).1.txs = s.txs ∨
    (∃ h, op = .sClone h ∧ (step s op).1.txs = s.txs ++ [{ kind := .sync, closed := false, live := true }]) ∨
    (∃ h, (step s op).1.txs = modAt s.txs h (fun x => { x with closed := true })) ∨
    (∃ h, (step s op).1.txs = modAt s.txs h (fun x => { x with live := false })) ∨
    (∃ h, (step s op).1.txs = modAt (modAt s.txs h (fun x => { x with closed := true })) h (fun x => { x with live := false })) ∨
    (∃ h, (step s op).1.txs = modAt s.txs h (fun x => { x with kind := x.kind.flip })) := by
  cases op with
  | send h t v =>
    left; simp only [step]
    rcases send_cases s h t v with ⟨x, _, _, _, he⟩ | ⟨h1, _⟩
    · rw [he]
    · rw [h1]
  | sClone h =>
    simp only [step, sClone]; split
    · left; rfl
    · split
      · left; rfl
      · right; left; exact ⟨h, rfl, rfl⟩
  | sClose h =>
    rcases sClose_txs s h with h1 | h1
    · left; exact h1
    · right; right; left; exact ⟨h, h1⟩
  | sDrop h =>
    simp only [step, sDrop]; split
    · left; rfl
    · rcases sClose_txs s h with h1 | h1
      · right; right; right; left; exact ⟨h, by simp only [h1]⟩
      · right; right; right; right; left; exact ⟨h, by simp only [h1]⟩
  | sConv h =>
    simp only [step, sConv]; split
    · left; rfl
    · right; right; right; right; right; exact ⟨h, rfl⟩
  | sIsClosed h => left; simp only [step, sIsClosed]; split <;> rfl
  | subscribe q t => left; simp only [step, subscribe]; split <;> (try rfl); exact subscribeCore_txs s q t
  | unsubscribe q t => left; simp only [step, unsubscribe]; split <;> (try rfl); exact unsubscribeCore_txs s q t
  | rClone q =>
    left; simp only [step, rClone]; split <;> (try rfl); split
    · rw [foldl_subscribeCore_txs]
    · rfl
  | rClose q =>
    left; simp only [step, rClose]; split <;> (try rfl); split <;> (try rfl)
    rw [rxCloseInternal_txs]
  | rDrop q =>
    left; simp only [step, rDrop]; split <;> (try rfl)
    simp only []
    split
    · rfl
    · rw [rxCloseInternal_txs]
  | rConv q => left; simp only [step, rConv]; split <;> rfl
  | tryRecv q => left; simp only [step, tryRecv]; split <;> (try rfl); exact recvWith_txs ..
  | recv q => left; simp only [step, recv]; split <;> (try rfl); split <;> exact recvWith_txs ..
  | recvTimeout0 q =>
    left; simp only [step, recvTimeout0]; split <;> (try rfl); split <;> (try rfl)
    split <;> exact recvWith_txs ..
  | pollNext q =>
    left; simp only [step, pollNext]; split <;> (try rfl); split <;> (try rfl)
    exact recvWith_txs ..
  | rIsClosed q => left; simp only [step, rIsClosed]; split <;> rfl
  | isEmpty q => left; simp only [step, isEmpty]; split <;> rfl
  | capacity q => left; simp only [step, capacity]; split <;> rfl

theorem all_modAt (l : List Tx) (i : Nat) (f : Tx → Tx) (p : Tx → Bool) (hf : ∀ x, p x = true → p (f x) = true) :
    l.all p = true → (modAt l i f).all p = true := by
  fun_induction modAt l i f with
  | case1 => exact id
  | case2 a l f =>
    simp only [List.all_cons, Bool.and_eq_true]
    rintro ⟨h1, h2⟩; exact ⟨hf a h1, h2⟩
  | case3 a l n f ih =>
    simp only [List.all_cons, Bool.and_eq_true]
    rintro ⟨h1, h2⟩; exact ⟨h1, ih hf h2⟩

def gonePred (x : Tx) : Bool := x.closed || !x.live

theorem sendersGone_eq (s : St) : sendersGone s = s.txs.all gonePred := rfl

/-- without `Clone` on a sender, "every sender handle is gone" is stable -/
theorem sendersGone_step (s : St) (op : Op) (hop : ∀ h, op ≠ .sClone h) (hg : sendersGone s = true) :
    sendersGone (step s op).1 = true := by
  rw [sendersGone_eq] at hg ⊢
  rcases step_txs s op with h | ⟨h, rfl, _⟩ | ⟨h, h1⟩ | ⟨h, h1⟩ | ⟨h, h1⟩ | ⟨h, h1⟩
  · rw [h]; exact hg
  · exact absurd rfl (hop h)
  · rw [h1]; exact all_modAt _ _ _ _ (fun x _ => by simp [gonePred]) hg
  · rw [h1]; exact all_modAt _ _ _ _ (fun x _ => by simp [gonePred]) hg
  · rw [h1]; exact all_modAt _ _ _ _ (fun x _ => by simp [gonePred]) (all_modAt _ _ _ _ (fun x _ => by simp [gonePred]) hg)
  · rw [h1]; exact all_modAt _ _ _ _ (fun x hx => by simpa [gonePred] using hx) hg

theorem txs_length_step (s : St) (op : Op) (hop : ∀ h, op ≠ .sClone h) : (step s op).1.txs.length = s.txs.length := by
  rcases step_txs s op with h | ⟨h, rfl, _⟩ | ⟨h, h1⟩ | ⟨h, h1⟩ | ⟨h, h1⟩ | ⟨h, h1⟩
  · rw [h]
  · exact absurd rfl (hop h)
  all_goals (rw [h1]; simp [length_modAt])

/-- the `is_disconnected` flag of a mailbox is never reset -/
theorem disc_stable_step (s : St) (op : Op) (r : Nat) (x : Rx) (hx : s.rxs[r]? = some x) (hd : x.disc = true) :
    ∃ y, (step s op).1.rxs[r]? = some y ∧ y.disc = true := by
  have hlt : r < s.rxs.length := (List.getElem?_eq_some_iff.1 hx).1
  have hlt' : r < (step s op).1.rxs.length := Nat.lt_of_lt_of_le hlt (step_rxs_length_le s op)
  refine ⟨(step s op).1.rxs[r], List.getElem?_eq_getElem hlt', ?_⟩
  obtain ⟨x', hx', hR⟩ := rel_step (fun x y => x.disc = true → y.disc = true) (fun _ h => h)
    (fun _ _ _ h1 h2 h => h2 (h1 h)) (fun m x h => by unfold deliver; split <;> exact h)
    (fun _ _ h => h) (fun _ _ h => h) (fun _ _ => rfl) (fun _ h => h) (fun _ _ h => h)
    s op (fun _ _ _ => rfl) r _ (List.getElem?_eq_getElem hlt') hlt
  rw [hx] at hx'; cases hx'; exact hR hd

/-- a dropped receiver handle never comes back -/
theorem live_step (s : St) (op : Op) (r : Nat) (y : Rx) (hy : (step s op).1.rxs[r]? = some y) (hl : y.live = true)
    (hlt : r < s.rxs.length) : ∃ x, s.rxs[r]? = some x ∧ x.live = true := by
  obtain ⟨x, hx, hR⟩ := rel_step (fun x y => y.live = true → x.live = true) (fun _ h => h)
    (fun _ _ _ h1 h2 h => h1 (h2 h)) (fun m x h => by unfold deliver at h; split at h <;> exact h)
    (fun _ _ h => h) (fun _ _ h => h) (fun _ h => by simp at h) (fun _ h => h) (fun _ _ h => h)
    s op (fun _ _ h => h) r y hy hlt
  exact ⟨x, hx, hR hl⟩

end Fv.Chan.Topic
