import Fv.Lemmas.Mpsc3BBase
/-! Receiver exclusivity in the `Mpsc3B` model: a thread at a receiver-side pc holds the (single)
receiver handle busy, so at most one thread is ever inside a receiver operation. -/
namespace Fv.Chan.Mpsc3B
set_option linter.unusedSimpArgs false

/-- pcs of receiver-side code -/
def recvPc : Pc → Bool
  | .rClosed | .dLock | .dId | .dRetire | .dSlot | .dEmpty | .dDr | .dG | .dUnlock | .pDr | .pPr
  | .sFence | .sSC | .sSLock | .sSFlag | .sSCnt | .sSUnlock | .sUnpark | .sAC | .sALock | .sACnt | .sAUnlock | .sAWake
  | .rSc | .fLock | .fUnlock | .rrLock | .rrUnlock | .rrCnt | .rrFence | .rpSpinLd | .rpSpin | .rpFlagLd | .rpPark
  | .frLock | .frUnlock | .frCnt | .frFlagLd | .frSpin | .rFlagReset | .rYield
  | .arLock | .arUnlock | .arCnt | .arFence | .auLock | .auUnlock | .auCnt
  | .rcCas | .rdStore | .wsSLock | .wsSFlag | .wsSCnt | .wsSUnlock | .wsALock | .wsACnt | .wsAUnlock | .wsUnpark | .wsWake => true
  | _ => false

theorem notR_retWith (x : Th) (r : Res) : recvPc (retWith x r).pc = false := by
  cases x; rfl
theorem notR_retPending (x : Th) : recvPc (retPending x).pc = false := by
  unfold retPending; split <;> rfl
theorem notR_tsCall (x : Th) (k : TsSite) : recvPc (tsCall x k).pc = false := by
  cases x; rfl
theorem notR_enterLoop (x : Th) : recvPc (enterLoop x).pc = false := by
  cases x; rfl
theorem notR_parkSeqS (c : Cfg) (x : Th) : recvPc (parkSeqS c x).pc = false := by
  unfold parkSeqS; split <;> rfl
theorem notR_tsErr (c : Cfg) (x : Th) : recvPc (tsErr c x).pc = false := by
  unfold tsErr enterLoop parkSeqS retWith; repeat' split
  all_goals rfl
theorem notR_tsOk (x : Th) : recvPc (tsOk x).pc = false := by
  unfold tsOk retWith; repeat' split
  all_goals rfl
theorem notR_chkClosed (x : Th) : recvPc (chkClosed x).pc = false := by
  unfold chkClosed retWith; repeat' split
  all_goals rfl
theorem notR_chkOpen (x : Th) : recvPc (chkOpen x).pc = false := by
  unfold chkOpen retWith tsCall retPending; repeat' split
  all_goals rfl
theorem notR_nrDone (x : Th) : recvPc (nrDone x).pc = false := by
  unfold nrDone tsOk retWith; repeat' split
  all_goals rfl
theorem notR_finDoneS (x : Th) : recvPc (finDoneS x).pc = false := by
  unfold finDoneS retWith; repeat' split
  all_goals rfl
theorem notR_probeDone (c : Cfg) (x : Th) (d : Nat) : recvPc (probeDone c x d).pc = false := by
  unfold probeDone retWith; repeat' split
  all_goals rfl
theorem rb_retWith (x : Th) (r : Res) : (retWith x r).rb = x.rb := by
  rfl
theorem rb_retPending (x : Th) : (retPending x).rb = x.rb := by
  unfold retPending; split <;> rfl
theorem rb_tsCall (x : Th) (k : TsSite) : (tsCall x k).rb = x.rb := by
  rfl
theorem rb_enterLoop (x : Th) : (enterLoop x).rb = x.rb := by
  rfl
theorem rb_parkSeqS (c : Cfg) (x : Th) : (parkSeqS c x).rb = x.rb := by
  unfold parkSeqS; split <;> rfl
theorem rb_parkSeqR (c : Cfg) (x : Th) : (parkSeqR c x).rb = x.rb := by
  unfold parkSeqR; split <;> rfl
theorem rb_deqCall (x : Th) (k : DqSite) : (deqCall x k).rb = x.rb := by
  rfl
theorem rb_flushCall (x : Th) (k : FlSite) : (flushCall x k).rb = x.rb := by
  rfl
theorem rb_tsErr (c : Cfg) (x : Th) : (tsErr c x).rb = x.rb := by
  unfold tsErr enterLoop parkSeqS retWith; repeat' split
  all_goals rfl
theorem rb_tsOk (x : Th) : (tsOk x).rb = x.rb := by
  unfold tsOk retWith; repeat' split
  all_goals rfl
theorem rb_chkClosed (x : Th) : (chkClosed x).rb = x.rb := by
  unfold chkClosed retWith; repeat' split
  all_goals rfl
theorem rb_chkOpen (x : Th) : (chkOpen x).rb = x.rb := by
  unfold chkOpen retWith tsCall retPending; repeat' split
  all_goals rfl
theorem rb_nrDone (x : Th) : (nrDone x).rb = x.rb := by
  unfold nrDone tsOk retWith; repeat' split
  all_goals rfl
theorem rb_finDoneS (x : Th) : (finDoneS x).rb = x.rb := by
  unfold finDoneS retWith; repeat' split
  all_goals rfl
theorem rb_finDoneR (x : Th) : (finDoneR x).rb = x.rb := by
  unfold finDoneR retWith; repeat' split
  all_goals rfl
theorem rb_deqDone (x : Th) : (deqDone x).rb = x.rb := by
  unfold deqDone retWith flushCall retPending; repeat' split
  all_goals rfl
theorem rb_scDone (x : Th) (n : Nat) : (scDone x n).rb = x.rb := by
  unfold scDone retWith flushCall retPending deqCall; repeat' split
  all_goals rfl
theorem rb_flushDone (c : Cfg) (x : Th) : (flushDone c x).rb = x.rb := by
  unfold flushDone retWith parkSeqR deqCall; repeat' split
  all_goals rfl
theorem rb_probeDone (c : Cfg) (x : Th) (d : Nat) : (probeDone c x d).rb = x.rb := by
  unfold probeDone retWith; repeat' split
  all_goals rfl
theorem rb_pollEntry (x : Th) : (pollEntry x).rb = x.rb := by
  unfold pollEntry retWith; repeat' split
  all_goals rfl
theorem rb_pubDone (x : Th) : (pubDone x).rb = x.rb := by
  unfold pubDone; split <;> rfl

section
attribute [local simp] notR_retWith notR_retPending notR_tsCall notR_enterLoop notR_parkSeqS notR_tsErr notR_tsOk notR_chkClosed notR_chkOpen notR_nrDone notR_finDoneS notR_probeDone

set_option maxHeartbeats 4000000 in
theorem recv_sum {c s t a s'} (h : next c s t = some (a, s')) :
    (∀ u, u ≠ t → s'.th u = s.th u) ∧ (s.th t).pc ≠ .idle ∧ s'.rBusy = s.rBusy ∧ (s'.th t).rb = (s.th t).rb ∧
    (recvPc (s'.th t).pc = true → recvPc (s.th t).pc = true ∨ ((s.th t).pc = .boPark ∧ (s.th t).rb = true)) := by
  unfold next at h
  cases hpc : (s.th t).pc <;> simp only [hpc] at h <;> nx_unfold at h
  all_goals (try (repeat' split at h))
  all_goals (try (simp only [Option.some.injEq, Prod.mk.injEq, reduceCtorEq] at h))
  all_goals (try (obtain ⟨-, rfl⟩ := h))
  all_goals (first | contradiction | skip)
  all_goals (refine ⟨fun u hu => upd_other _ _ _ _ hu, by simp, rfl, ?_, ?_⟩)
  all_goals (simp only [upd_same, rb_retWith, rb_retPending, rb_tsCall, rb_enterLoop, rb_parkSeqS, rb_parkSeqR, rb_deqCall, rb_flushCall, rb_tsErr, rb_tsOk, rb_chkClosed, rb_chkOpen, rb_nrDone, rb_finDoneS, rb_finDoneR, rb_deqDone, rb_scDone, rb_flushDone, rb_probeDone, rb_pollEntry, rb_pubDone])
  all_goals (try (simp <;> done))
  all_goals (try (simp [recvPc, *] <;> done))
  all_goals (try (unfold pollEntry retWith; (repeat' split) <;> simp_all [recvPc] <;> done))
end

/-- receiver exclusivity -/
structure RInv (s : State) : Prop where
  busy : ∀ t, (s.th t).pc ≠ .idle → (s.th t).rb = true → s.rBusy = some t
  recvish : ∀ t, recvPc (s.th t).pc = true → (s.th t).rb = true

theorem RInv.uniq {s : State} (hi : RInv s) {t u : Tid} (ht : recvPc (s.th t).pc = true) (hu : recvPc (s.th u).pc = true) : t = u := by
  have h1 := hi.busy t (by intro e; rw [e] at ht; simp [recvPc] at ht) (hi.recvish t ht)
  have h2 := hi.busy u (by intro e; rw [e] at hu; simp [recvPc] at hu) (hi.recvish u hu)
  rw [h1] at h2; exact Option.some.inj h2

theorem rinv_init (c : Cfg) (p : Tid → List Op) : RInv (init c p) := by
  constructor <;> simp [init, recvPc]

theorem rinv_next {c s t a s'} (hi : RInv s) (h : next c s t = some (a, s')) : RInv s' := by
  obtain ⟨hth, hni, e1, e2, hcl⟩ := recv_sum h
  refine ⟨?_, ?_⟩
  · intro u hu hb
    by_cases e : u = t
    · subst e; rw [e1]; exact hi.busy u hni (e2 ▸ hb)
    · rw [hth u e] at hu hb; rw [e1]; exact hi.busy u hu hb
  · intro u hu
    by_cases e : u = t
    · subst e; rw [e2]
      rcases hcl hu with h1 | ⟨_, h2⟩
      · exact hi.recvish u h1
      · exact h2
    · rw [hth u e] at hu ⊢; exact hi.recvish u hu

theorem callTh_rb (c : Cfg) (s : State) (x x0 : Th) (op : Op) :
    (callTh c s x x0 op).rb = x0.rb ∧ (recvPc (callTh c s x x0 op).pc = true → opRecv s op = true) := by
  cases op <;> simp only [callTh, retWith, deqCall] <;> (try (repeat' split)) <;> simp_all [opRecv, recvPc]

theorem rinv_step {c s t l s'} (hi : RInv s) (h : step c s t l = some s') : RInv s' := by
  unfold step at h
  cases hA : stepA c s t l with
  | none => simp [hA] at h
  | some r =>
    obtain ⟨a, s1⟩ := r
    simp [hA] at h; subst h
    cases l <;> simp only [stepA] at hA
    · exact rinv_next hi hA
    · -- call
      simp only [stepCall] at hA
      split at hA
      · split at hA
        · simp only [Option.some.injEq, Prod.mk.injEq] at hA
          obtain ⟨-, rfl⟩ := hA
          rename_i op rest hpc hprog hok
          obtain ⟨f1, f2⟩ := callTh_rb c s (s.th t) (callX0 s t op) op
          have hfree : opRecv s op = true → s.rBusy = none := by
            intro ho
            simp only [callOk, ho, if_true, Bool.and_eq_true] at hok
            exact Option.isNone_iff_eq_none.1 hok.1.2.2
          refine ⟨?_, ?_⟩
          · intro u hu hb
            by_cases e : u = t
            · subst e
              simp only [upd_same] at hb ⊢
              rw [f1] at hb
              have : opRecv s op = true := hb
              simp only [this, if_true]
            · simp only [upd_other _ _ _ _ e] at hu hb ⊢
              have hbu := hi.busy u hu hb
              split
              · rename_i ho; rw [hfree ho] at hbu; simp at hbu
              · exact hbu
          · intro u hu
            by_cases e : u = t
            · subst e; simp only [upd_same] at hu ⊢; rw [f1]; exact f2 hu
            · simp only [upd_other _ _ _ _ e] at hu ⊢; exact hi.recvish u hu
        · simp at hA
      · simp at hA
    · -- ret
      simp only [stepRet] at hA
      split at hA
      · simp only [Option.some.injEq, Prod.mk.injEq] at hA
        obtain ⟨-, rfl⟩ := hA
        rename_i hpc
        refine ⟨?_, ?_⟩
        · intro u hu hb
          by_cases e : u = t
          · subst e; simp [upd_same] at hu
          · simp only [upd_other _ _ _ _ e] at hu hb ⊢
            have hbu := hi.busy u hu hb
            split
            · rename_i hbt
              have := hi.busy t (by rw [hpc]; simp) hbt
              rw [this] at hbu; exact absurd (Option.some.inj hbu).symm e
            · exact hbu
        · intro u hu
          by_cases e : u = t
          · subst e; simp [upd_same, recvPc] at hu
          · simp only [upd_other _ _ _ _ e] at hu ⊢; exact hi.recvish u hu
      · simp at hA
    · -- spurious
      simp only [stepSpurious] at hA
      split at hA <;> simp only [Option.some.injEq, Prod.mk.injEq, reduceCtorEq] at hA
      all_goals (obtain ⟨-, rfl⟩ := hA; rename_i hpc)
      all_goals
        have hni : (s.th t).pc ≠ .idle := by rw [hpc]; simp
        refine ⟨?_, ?_⟩
        · intro u hu hb
          by_cases e : u = t
          · subst e; simp only [upd_same, rb_pollEntry] at hb ⊢; exact hi.busy u hni hb
          · simp only [upd_other _ _ _ _ e] at hu hb ⊢; exact hi.busy u hu hb
        · intro u hu
          by_cases e : u = t
          · subst e
            simp only [upd_same, rb_pollEntry] at hu ⊢
            first
              | exact hi.recvish u (by rw [hpc]; rfl)
              | (simp [recvPc] at hu; done)
              | (unfold pollEntry retWith at hu; (repeat' split at hu) <;> simp_all [recvPc])
          · simp only [upd_other _ _ _ _ e] at hu ⊢; exact hi.recvish u hu

theorem rinv_reach {c p s} (h : Reach c p s) : RInv s := by
  induction h with
  | init => exact rinv_init c p
  | step _ hs ih => exact rinv_step ih hs

end Fv.Chan.Mpsc3B
