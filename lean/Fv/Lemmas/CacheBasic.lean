import Fv.Cache.Model
/-
Basic facts about the association-list map, `Entry.isExpired`, and the null policy used by the
witness theorems.
-/
namespace Fv.Cache

/-- the no-op policy of an unbounded cache (`policy/null.rs`) -/
def nullOps : PolicyOps Unit where
  access := fun _ _ _ => ()
  admit := fun _ _ _ => ((), .admit)
  remove := fun _ _ => ()
  evict := fun _ _ _ => some ((), [], 0)
  clear := fun _ => ()

theorem lookup_mem {m : List (Nat × Entry)} {k : Nat} {e : Entry} (h : lookup m k = some e) : (k, e) ∈ m := by
  induction m with
  | nil => simp [lookup] at h
  | cons p rest ih =>
    obtain ⟨k', e'⟩ := p
    unfold lookup at h
    split at h
    · next hk => cases h; subst hk; simp
    · exact List.mem_cons_of_mem _ (ih h)

theorem mem_erase {m : List (Nat × Entry)} {k k' : Nat} {e : Entry} :
    (k', e) ∈ erase m k ↔ (k', e) ∈ m ∧ k' ≠ k := by
  simp [erase]

theorem mem_put {m : List (Nat × Entry)} {k k' : Nat} {e e' : Entry} :
    (k', e') ∈ put m k e ↔ (k' = k ∧ e' = e) ∨ ((k', e') ∈ m ∧ k' ≠ k) := by
  simp [put, mem_erase]

/-- the reading of `is_expired = false`: no TTL or TTL deadline not reached, and idle deadline not reached -/
theorem isExpired_false_iff (e : Entry) (now : Nat) (tti : Option Nat) :
    e.isExpired now tti = false ↔
      (e.expiresAt = 0 ∨ now < e.expiresAt) ∧ (∀ d, tti = some d → now < e.lastAccessed + d) := by
  unfold Entry.isExpired
  cases tti with
  | none => simp; omega
  | some d => simp; omega

end Fv.Cache
