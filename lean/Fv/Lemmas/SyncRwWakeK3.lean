import Fv.Lemmas.SyncRwWakeM4
import Fv.Lemmas.SyncRwWakeK
import Fv.Lemmas.SyncRwWakeK2
/-!
Accounting of `WOKEN` nodes in the rwlock model: `PWk` is preserved.  A node that is `WOKEN` while
its owner is blocked (parked without a token / `Pending` with no wake recorded) has its handle
still in flight: some waker carries it and is about to deliver it.
-/
namespace Fv.Sync.RwLock
open Fv.Sync
variable {cfg : Cfg} {s s' : State} {t : Tid} {l : Lbl}

/-- a blocked owner of a `WOKEN` live node was blocked before the step, with the node live -/
theorem blocked_before (hi : Inv s) (hw : WInv s) (h : Step cfg s t l s') {n : Nid}
    (hwk' : (s'.wl.node n).woken = true) (hlive' : Live s' n) (hb' : OwnerBlocked s' n) :
    Live s n ∧ OwnerBlocked s n := by
  have ho := step_th_other h
  obtain ⟨k1, k2, k3, k4⟩ := blocked_local hi hw h
  have tok : ∀ u, u ≠ t → s'.token u = false → s.token u = false := by
    intro u hu htk'
    rcases step_token h u with h1 | h1 | ⟨h1, _⟩
    · rw [← h1]; exact htk'
    · rw [h1] at htk'; cases htk'
    · exact absurd h1 hu
  cases n with
  | thr u =>
    refine ⟨trivial, ?_⟩
    obtain ⟨hpc', htk'⟩ := hb'
    by_cases hu : u = t
    · subst hu
      rcases k1 ⟨hpc', htk'⟩ with hb | hwf
      · exact hb
      · rw [hwk'] at hwf; cases hwf
    · rw [ho u hu] at hpc'
      exact ⟨hpc', tok u hu htk'⟩
  | fut f =>
    have hph' : (s'.fut f).phase = .startedNode := hlive'
    have hph : (s.fut f).phase = .startedNode := by
      rcases k4 f hph' with h1 | h1
      · exact h1
      · rw [hwk'] at h1; cases h1
    refine ⟨hph, ?_⟩
    have hbo : (s'.fut f).bo = (s.fut f).bo := by
      rcases step_bo h f with h1 | h1
      · exact h1
      · rw [hph] at h1; cases h1
    unfold OwnerBlocked at hb' ⊢
    simp only [hbo] at hb'
    cases hb : (s.fut f).bo with
    | true =>
      simp only [hb, if_true] at hb' ⊢
      obtain ⟨u, hc', hpc', htk'⟩ := hb'
      by_cases hu : u = t
      · subst hu
        rcases k2 f ⟨hc', hpc', htk'⟩ with hbk | hwf
        · exact ⟨u, hbk⟩
        · rw [hwk'] at hwf; cases hwf
      · rw [ho u hu] at hc' hpc'
        exact ⟨u, hc', hpc', tok u hu htk'⟩
    | false =>
      simp only [hb, Bool.false_eq_true, if_false] at hb' ⊢
      obtain ⟨hbz', hwz'⟩ := hb'
      have hbz : (s.fut f).busy = false := by
        cases hbs : (s.fut f).busy with
        | false => rfl
        | true =>
          exfalso
          by_cases hop : opOn s t f
          · rcases k3 f hop.1 hop.2 hbz' with h1 | h1
            · exact h1 hph'
            · rw [hwk'] at h1; cases h1
          · have := (step_fut_other h (hi.syncCur t) (hi.asyncCur t) f hbs hop).1
            rw [this, hbs] at hbz'; cases hbz'
      refine ⟨hbz, ?_⟩
      rcases step_wakes h f with h1 | ⟨_, h1⟩
      · rw [hwz'] at h1; exact Nat.le_zero.1 h1
      · rw [hbz'] at h1; cases h1

/-- a delivered handle unblocks the owner it designates -/
theorem delivered_not_blocked (hi : Inv s) {w : Waiter} {n : Nid} (htg : Targets s w n)
    (hd : (∃ u, w = .thread u ∧ s.token u = true) ∨ (∃ f, w = .task f ∧ 0 < s.wakes f))
    (hb : OwnerBlocked s n) : False := by
  rcases hd with ⟨v, hv, htok⟩ | ⟨f, hf, hwak⟩
  · subst hv
    cases n with
    | thr v' =>
      have : v = v' := htg
      subst this
      rw [hb.2] at htok; cases htok
    | fut f =>
      obtain ⟨hbo', hc', hfp'⟩ := htg
      unfold OwnerBlocked at hb
      simp only [hbo', if_true] at hb
      obtain ⟨u', hcu, hpu, htu⟩ := hb
      have := (hi.busy v f hc' hfp').2 u' hcu (by rw [hpu]; rfl)
      subst this
      rw [htok] at htu; cases htu
  · subst hf
    cases n with
    | thr v' => cases htg
    | fut f' =>
      obtain ⟨he, hbo'⟩ := htg
      subst he
      unfold OwnerBlocked at hb
      simp only [hbo', Bool.false_eq_true, if_false] at hb
      rw [hb.2] at hwak; cases hwak

theorem wk_step (hi : Inv s) (hw : WInv s) (h : Step cfg s t l s') : PWk s' := by
  have hi' := Inv_step hi h
  have ho := step_th_other h
  intro n hwk' hlive' hb'
  obtain ⟨hlive, hb⟩ := blocked_before hi hw h hwk' hlive' hb'
  cases hwk : (s.wl.node n).woken with
  | true =>
    obtain ⟨u, hp, w, hw0, htg⟩ := hw.wk n hwk hlive hb
    have htg' := targets_step hi hw h htg hlive hlive'
    by_cases hu : u = t
    · subst hu
      rcases postwake_local h hp hw0 with ⟨hp', hw'⟩ | hd
      · exact ⟨u, hp', w, hw', htg'⟩
      · exact (delivered_not_blocked hi' htg' hd hb').elim
    · exact ⟨u, by rw [ho u hu]; exact hp, w, by rw [ho u hu]; exact hw0, htg'⟩
  | false =>
    -- freshly marked by the stepping thread, which now carries the handle
    obtain ⟨⟨hpc, hn⟩, hpp, hws⟩ := woken_set_local hi h n hwk' hwk
    have hex : ∃ w, (s.wl.node n).waiter = some w ∧ Targets s w n := by
      rcases hpc with hpc | hpc
      · obtain ⟨hl, -⟩ := hi.wnTgt t hpc
        rw [← hn] at hl
        cases hwt : (s.wl.node n).waiter with
        | none => have := hw.w2 n hl hwt; rw [hwk] at this; cases this
        | some w => exact ⟨w, rfl, hw.w1 n w hl hwt⟩
      · have := (hw.tw t hpc).2.1
        rw [← hn] at this; exact this
    obtain ⟨w, hwt, htg⟩ := hex
    refine ⟨t, hpp, w, ?_, targets_step hi hw h htg hlive hlive'⟩
    rcases hws with hws | hws <;> rw [hws, hwt] <;> simp

end Fv.Sync.RwLock
