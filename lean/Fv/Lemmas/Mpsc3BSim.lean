import Fv.Lemmas.Mpsc3BCoreInv
/-! Every step of the `Mpsc3B` model is a core transition (`CStep`) on the ticket-level projection
`absC` or leaves it unchanged; hence `CInv` holds of every reachable state. -/
namespace Fv.Chan.Mpsc3B

def claimOf (x : Th) : Option Claim :=
  match x.pc with
  | .tCred => some ⟨x.tk, none⟩
  | .eId | .eRet | .eSpin | .eCas | .wSt => some ⟨x.tk, some x.okc⟩
  | _ => none

def phOf (x : Th) : CPh :=
  match x.pc with
  | .dRetire => .retire
  | .dEmpty => .taking x.skipd x.got
  | .pDr => .pub1 x.freed
  | .pPr => .pub2 x.freed
  | _ => .other

def cphOf (s : State) : CPh :=
  match s.mHead with
  | some t => phOf (s.th t)
  | none => .other

def absC (s : State) : Core :=
  { gtail := s.gtail, progress := s.progress, drained := s.drained, pos := s.hPos, unpub := s.hUnpub,
    cid := s.hCid, idx := s.hIdx, slot := s.slot, log := s.log, recvd := s.recvd, seq := s.seq,
    claim := fun p => claimOf (s.th p), cph := cphOf s }

/-- pcs that hold no claim and are not a distinguished consumer phase -/
def quiet : Pc → Bool
  | .tCred | .eId | .eRet | .eSpin | .eCas | .wSt | .dRetire | .dEmpty | .pDr | .pPr => false
  | _ => true

theorem claimOf_quiet {x : Th} (h : quiet x.pc = true) : claimOf x = none := by
  unfold claimOf; cases hp : x.pc <;> simp_all [quiet]
theorem phOf_quiet {x : Th} (h : quiet x.pc = true) : phOf x = .other := by
  unfold phOf; cases hp : x.pc <;> simp_all [quiet]

theorem quiet_retWith (x : Th) (r : Res) : quiet (retWith x r).pc = true := by cases x; rfl
theorem quiet_retPending (x : Th) : quiet (retPending x).pc = true := by unfold retPending; split <;> rfl
theorem quiet_tsCall (x : Th) (k : TsSite) : quiet (tsCall x k).pc = true := by cases x; rfl
theorem quiet_enterLoop (x : Th) : quiet (enterLoop x).pc = true := by cases x; rfl
theorem quiet_parkSeqS (c : Cfg) (x : Th) : quiet (parkSeqS c x).pc = true := by unfold parkSeqS; split <;> rfl
theorem quiet_parkSeqR (c : Cfg) (x : Th) : quiet (parkSeqR c x).pc = true := by unfold parkSeqR; split <;> rfl
theorem quiet_deqCall (x : Th) (k : DqSite) : quiet (deqCall x k).pc = true := by cases x; rfl
theorem quiet_flushCall (x : Th) (k : FlSite) : quiet (flushCall x k).pc = true := by cases x; rfl
theorem quiet_tsErr (c : Cfg) (x : Th) : quiet (tsErr c x).pc = true := by
  unfold tsErr enterLoop parkSeqS retWith; repeat' split
  all_goals rfl
theorem quiet_tsOk (x : Th) : quiet (tsOk x).pc = true := by
  unfold tsOk retWith; repeat' split
  all_goals rfl
theorem quiet_chkClosed (x : Th) : quiet (chkClosed x).pc = true := by
  unfold chkClosed retWith; repeat' split
  all_goals rfl
theorem quiet_chkOpen (x : Th) : quiet (chkOpen x).pc = true := by
  unfold chkOpen retWith tsCall retPending; repeat' split
  all_goals rfl
theorem quiet_nrDone (x : Th) : quiet (nrDone x).pc = true := by
  unfold nrDone; split
  · exact quiet_tsOk x
  · rfl
theorem quiet_finDoneS (x : Th) : quiet (finDoneS x).pc = true := by
  unfold finDoneS retWith; repeat' split
  all_goals rfl
theorem quiet_finDoneR (x : Th) : quiet (finDoneR x).pc = true := by
  unfold finDoneR retWith; repeat' split
  all_goals rfl
theorem quiet_deqDone (x : Th) : quiet (deqDone x).pc = true := by
  unfold deqDone retWith flushCall retPending; repeat' split
  all_goals rfl
theorem quiet_scDone (x : Th) (n : Nat) : quiet (scDone x n).pc = true := by
  unfold scDone retWith flushCall retPending deqCall; repeat' split
  all_goals rfl
theorem quiet_flushDone (c : Cfg) (x : Th) : quiet (flushDone c x).pc = true := by
  unfold flushDone retWith parkSeqR deqCall; repeat' split
  all_goals rfl
theorem quiet_probeDone (c : Cfg) (x : Th) (d : Nat) : quiet (probeDone c x d).pc = true := by
  unfold probeDone retWith; repeat' split
  all_goals rfl
theorem quiet_pollEntry (x : Th) : quiet (pollEntry x).pc = true := by
  unfold pollEntry retWith; repeat' split
  all_goals rfl
theorem quiet_pubDone (x : Th) : quiet (pubDone x).pc = true := by unfold pubDone; split <;> rfl
theorem quiet_callTh (c : Cfg) (s : State) (x x0 : Th) (op : Op) : quiet (callTh c s x x0 op).pc = true := by
  cases op <;> simp only [callTh, retWith, deqCall] <;> (repeat' split) <;> rfl

theorem claimOf_retWith (x : Th) (r : Res) : claimOf (retWith x r) = none := claimOf_quiet (quiet_retWith x r)
theorem phOf_retWith (x : Th) (r : Res) : phOf (retWith x r) = .other := phOf_quiet (quiet_retWith x r)
theorem claimOf_retPending (x : Th) : claimOf (retPending x) = none := claimOf_quiet (quiet_retPending x)
theorem phOf_retPending (x : Th) : phOf (retPending x) = .other := phOf_quiet (quiet_retPending x)
theorem claimOf_tsCall (x : Th) (k : TsSite) : claimOf (tsCall x k) = none := claimOf_quiet (quiet_tsCall x k)
theorem phOf_tsCall (x : Th) (k : TsSite) : phOf (tsCall x k) = .other := phOf_quiet (quiet_tsCall x k)
theorem claimOf_enterLoop (x : Th) : claimOf (enterLoop x) = none := claimOf_quiet (quiet_enterLoop x)
theorem phOf_enterLoop (x : Th) : phOf (enterLoop x) = .other := phOf_quiet (quiet_enterLoop x)
theorem claimOf_parkSeqS (c : Cfg) (x : Th) : claimOf (parkSeqS c x) = none := claimOf_quiet (quiet_parkSeqS c x)
theorem phOf_parkSeqS (c : Cfg) (x : Th) : phOf (parkSeqS c x) = .other := phOf_quiet (quiet_parkSeqS c x)
theorem claimOf_parkSeqR (c : Cfg) (x : Th) : claimOf (parkSeqR c x) = none := claimOf_quiet (quiet_parkSeqR c x)
theorem phOf_parkSeqR (c : Cfg) (x : Th) : phOf (parkSeqR c x) = .other := phOf_quiet (quiet_parkSeqR c x)
theorem claimOf_deqCall (x : Th) (k : DqSite) : claimOf (deqCall x k) = none := claimOf_quiet (quiet_deqCall x k)
theorem phOf_deqCall (x : Th) (k : DqSite) : phOf (deqCall x k) = .other := phOf_quiet (quiet_deqCall x k)
theorem claimOf_flushCall (x : Th) (k : FlSite) : claimOf (flushCall x k) = none := claimOf_quiet (quiet_flushCall x k)
theorem phOf_flushCall (x : Th) (k : FlSite) : phOf (flushCall x k) = .other := phOf_quiet (quiet_flushCall x k)
theorem claimOf_tsErr (c : Cfg) (x : Th) : claimOf (tsErr c x) = none := claimOf_quiet (quiet_tsErr c x)
theorem phOf_tsErr (c : Cfg) (x : Th) : phOf (tsErr c x) = .other := phOf_quiet (quiet_tsErr c x)
theorem claimOf_tsOk (x : Th) : claimOf (tsOk x) = none := claimOf_quiet (quiet_tsOk x)
theorem phOf_tsOk (x : Th) : phOf (tsOk x) = .other := phOf_quiet (quiet_tsOk x)
theorem claimOf_chkClosed (x : Th) : claimOf (chkClosed x) = none := claimOf_quiet (quiet_chkClosed x)
theorem phOf_chkClosed (x : Th) : phOf (chkClosed x) = .other := phOf_quiet (quiet_chkClosed x)
theorem claimOf_chkOpen (x : Th) : claimOf (chkOpen x) = none := claimOf_quiet (quiet_chkOpen x)
theorem phOf_chkOpen (x : Th) : phOf (chkOpen x) = .other := phOf_quiet (quiet_chkOpen x)
theorem claimOf_nrDone (x : Th) : claimOf (nrDone x) = none := claimOf_quiet (quiet_nrDone x)
theorem phOf_nrDone (x : Th) : phOf (nrDone x) = .other := phOf_quiet (quiet_nrDone x)
theorem claimOf_finDoneS (x : Th) : claimOf (finDoneS x) = none := claimOf_quiet (quiet_finDoneS x)
theorem claimOf_finDoneR (x : Th) : claimOf (finDoneR x) = none := claimOf_quiet (quiet_finDoneR x)
theorem phOf_finDoneS (x : Th) : phOf (finDoneS x) = .other := phOf_quiet (quiet_finDoneS x)
theorem phOf_finDoneR (x : Th) : phOf (finDoneR x) = .other := phOf_quiet (quiet_finDoneR x)
theorem claimOf_deqDone (x : Th) : claimOf (deqDone x) = none := claimOf_quiet (quiet_deqDone x)
theorem phOf_deqDone (x : Th) : phOf (deqDone x) = .other := phOf_quiet (quiet_deqDone x)
theorem claimOf_scDone (x : Th) (n : Nat) : claimOf (scDone x n) = none := claimOf_quiet (quiet_scDone x n)
theorem phOf_scDone (x : Th) (n : Nat) : phOf (scDone x n) = .other := phOf_quiet (quiet_scDone x n)
theorem claimOf_flushDone (c : Cfg) (x : Th) : claimOf (flushDone c x) = none := claimOf_quiet (quiet_flushDone c x)
theorem phOf_flushDone (c : Cfg) (x : Th) : phOf (flushDone c x) = .other := phOf_quiet (quiet_flushDone c x)
theorem claimOf_probeDone (c : Cfg) (x : Th) (d : Nat) : claimOf (probeDone c x d) = none := claimOf_quiet (quiet_probeDone c x d)
theorem phOf_probeDone (c : Cfg) (x : Th) (d : Nat) : phOf (probeDone c x d) = .other := phOf_quiet (quiet_probeDone c x d)
theorem claimOf_pollEntry (x : Th) : claimOf (pollEntry x) = none := claimOf_quiet (quiet_pollEntry x)
theorem phOf_pollEntry (x : Th) : phOf (pollEntry x) = .other := phOf_quiet (quiet_pollEntry x)
theorem claimOf_pubDone (x : Th) : claimOf (pubDone x) = none := claimOf_quiet (quiet_pubDone x)
theorem phOf_pubDone (x : Th) : phOf (pubDone x) = .other := phOf_quiet (quiet_pubDone x)
theorem claimOf_callTh (c : Cfg) (s : State) (x x0 : Th) (op : Op) : claimOf (callTh c s x x0 op) = none := claimOf_quiet (quiet_callTh c s x x0 op)
theorem phOf_callTh (c : Cfg) (s : State) (x x0 : Th) (op : Op) : phOf (callTh c s x x0 op) = .other := phOf_quiet (quiet_callTh c s x x0 op)

/-- rewrite `claimOf` / `phOf` of every continuation function -/
macro "quiet_simp" : tactic => `(tactic| simp only [upd_same, claimOf_retWith, phOf_retWith, claimOf_retPending, phOf_retPending, claimOf_tsCall, phOf_tsCall, claimOf_enterLoop, phOf_enterLoop, claimOf_parkSeqS, phOf_parkSeqS, claimOf_parkSeqR, phOf_parkSeqR, claimOf_deqCall, phOf_deqCall, claimOf_flushCall, phOf_flushCall, claimOf_tsErr, phOf_tsErr, claimOf_tsOk, phOf_tsOk, claimOf_chkClosed, phOf_chkClosed, claimOf_chkOpen, phOf_chkOpen, claimOf_nrDone, phOf_nrDone, claimOf_finDoneS, claimOf_finDoneR, phOf_finDoneS, phOf_finDoneR, claimOf_deqDone, phOf_deqDone, claimOf_scDone, phOf_scDone, claimOf_flushDone, phOf_flushDone, claimOf_probeDone, phOf_probeDone, claimOf_pollEntry, phOf_pollEntry, claimOf_pubDone, phOf_pubDone, claimOf_callTh, phOf_callTh])

/-- A step that changes no core field, keeps the head mutex, and moves the thread between pcs
with the same claim / phase leaves the projection unchanged. -/
theorem absC_congr {s s' : State} {t : Tid}
    (hth : ∀ u, u ≠ t → s'.th u = s.th u)
    (h1 : s'.gtail = s.gtail) (h2 : s'.progress = s.progress) (h3 : s'.drained = s.drained)
    (h4 : s'.hPos = s.hPos) (h5 : s'.hUnpub = s.hUnpub) (h6 : s'.hCid = s.hCid) (h7 : s'.hIdx = s.hIdx)
    (h8 : s'.slot = s.slot) (h9 : s'.log = s.log) (h10 : s'.recvd = s.recvd) (h11 : s'.seq = s.seq)
    (hm : s'.mHead = s.mHead) (hc : claimOf (s'.th t) = claimOf (s.th t)) (hp : phOf (s'.th t) = phOf (s.th t)) :
    absC s' = absC s := by
  have hcl : (fun p => claimOf (s'.th p)) = (fun p => claimOf (s.th p)) := by
    funext p; by_cases e : p = t
    · subst e; exact hc
    · rw [hth p e]
  have hph : cphOf s' = cphOf s := by
    unfold cphOf; rw [hm]
    cases s.mHead with
    | none => rfl
    | some u =>
      by_cases e : u = t
      · subst e; exact hp
      · simp only []; rw [hth u e]
  simp only [absC, h1, h2, h3, h4, h5, h6, h7, h8, h9, h10, h11, hcl, hph]

theorem Core.ext' {a b : Core} (h1 : a.gtail = b.gtail) (h2 : a.progress = b.progress) (h3 : a.drained = b.drained)
    (h4 : a.pos = b.pos) (h5 : a.unpub = b.unpub) (h6 : a.cid = b.cid) (h7 : a.idx = b.idx) (h8 : a.slot = b.slot)
    (h9 : a.log = b.log) (h10 : a.recvd = b.recvd) (h11 : a.seq = b.seq) (h12 : a.claim = b.claim) (h13 : a.cph = b.cph) :
    a = b := by
  cases a; cases b; simp_all

theorem claims_upd (th : Tid → Th) (t : Tid) (x : Th) :
    (fun p => claimOf (upd th t x p)) = upd (fun p => claimOf (th p)) t (claimOf x) := by
  funext p; simp only [upd_apply]; split <;> rfl

theorem claims_upd_same (th : Tid → Th) (t : Tid) (x : Th) (h : claimOf x = claimOf (th t)) :
    (fun p => claimOf (upd th t x p)) = (fun p => claimOf (th p)) := by
  funext p; simp only [upd_apply]; split
  · rename_i e; subst e; exact h
  · rfl

theorem cphOf_holder {s : State} {t : Tid} (h : s.mHead = some t) : cphOf s = phOf (s.th t) := by
  simp [cphOf, h]

theorem cphOf_free {s : State} (h : s.mHead = none) : cphOf s = .other := by
  simp [cphOf, h]

/-- the phase is unchanged by a step of `t` that keeps the head mutex and `t`'s phase -/
theorem cphOf_congr {s s' : State} {t : Tid} (hth : ∀ u, u ≠ t → s'.th u = s.th u) (hm : s'.mHead = s.mHead)
    (hp : phOf (s'.th t) = phOf (s.th t)) : cphOf s' = cphOf s := by
  unfold cphOf; rw [hm]
  cases s.mHead with
  | none => rfl
  | some u =>
    by_cases e : u = t
    · subst e; exact hp
    · simp only []; rw [hth u e]

theorem tkRecv_match (r : List Tok) (sk : Bool) (g : Option Tok) :
    (match sk, g with
     | false, some y => r ++ [y]
     | _, _ => r) = tkRecv r sk g := by
  cases sk <;> cases g <;> rfl

theorem CStep_of_eq {c : Cfg} {k k' k'' : Core} (e : k' = k'') (h : CStep c k k'') : CStep c k k' := e ▸ h

/-- a producer-side step: the head mutex and the thread's (trivial) phase are untouched -/
theorem cph_prod {s : State} {t : Tid} {x' : Th} {s' : State} (hth : s'.th = upd s.th t x') (hm : s'.mHead = s.mHead)
    (h1 : phOf (s.th t) = .other) (h2 : phOf x' = .other) : cphOf s' = cphOf s :=
  cphOf_congr (t := t) (fun u hu => by rw [hth]; exact upd_other _ _ _ _ hu) hm (by rw [hth, upd_same, h1, h2])

theorem sim_tFadd {c s t a s'} (hpc : (s.th t).pc = .tFadd) (h : nxTFadd c s t = some (a, s')) :
    CStep c (absC s) (absC s') := by
  simp only [nxTFadd, Option.some.injEq, Prod.mk.injEq] at h
  obtain ⟨-, rfl⟩ := h
  refine CStep_of_eq ?_ (CStep.fadd (absC s) t (by simp [absC, claimOf, hpc]))
  apply Core.ext' <;> try rfl
  · simp only [absC, claims_upd]; rfl
  · exact cph_prod rfl rfl (by simp [phOf, hpc]) (by simp [phOf])

theorem sim_tCred {c s t a s'} (hpc : (s.th t).pc = .tCred) (h : nxTCred c s t = some (a, s')) :
    CStep c (absC s) (absC s') := by
  simp only [nxTCred, Option.some.injEq, Prod.mk.injEq] at h
  obtain ⟨-, rfl⟩ := h
  refine CStep_of_eq ?_ (CStep.cred (absC s) t (s.th t).tk (s.th t).cold (by simp [absC, claimOf, hpc]))
  apply Core.ext' <;> try rfl
  · simp only [absC, claims_upd]; rfl
  · exact cph_prod rfl rfl (by simp [phOf, hpc]) (by simp [phOf])

theorem sim_wSt {c s t a s'} (hpc : (s.th t).pc = .wSt) (h : nxWSt c s t = some (a, s')) :
    CStep c (absC s) (absC s') := by
  simp only [nxWSt] at h
  split at h
  · rename_i hok
    simp only [Option.some.injEq, Prod.mk.injEq] at h
    obtain ⟨-, rfl⟩ := h
    refine CStep_of_eq ?_ (CStep.wset (absC s) t (s.th t).tk (s.th t).v (by simp [absC, claimOf, hpc, hok]))
    apply Core.ext' <;> try rfl
    · simp only [absC, claims_upd]; rfl
    · exact cph_prod rfl rfl (by simp [phOf, hpc]) (by simp [phOf])
  · rename_i hok
    simp only [Option.some.injEq, Prod.mk.injEq] at h
    obtain ⟨-, rfl⟩ := h
    refine CStep_of_eq ?_ (CStep.wskip (absC s) t (s.th t).tk (by simp [absC, claimOf, hpc]; simpa using hok))
    apply Core.ext' <;> try rfl
    · simp only [absC, claims_upd]; rfl
    · exact cph_prod rfl rfl (by simp [phOf, hpc]) (by simp [phOf])

/-- claim / phase components of the projection after a step of the head-lock holder -/
theorem claim_holder {s : State} {t : Tid} {x' : Th} {s' : State} (hth : s'.th = upd s.th t x')
    (hq : claimOf x' = claimOf (s.th t)) : (absC s').claim = (absC s).claim := by
  simp only [absC, hth]; exact claims_upd_same _ _ _ hq

theorem cph_holder {s' : State} {t : Tid} {x' : Th} {th : Tid → Th} (hm' : s'.mHead = some t) (hth : s'.th = upd th t x') :
    (absC s').cph = phOf x' := by
  simp only [absC]; rw [cphOf_holder hm', hth, upd_same]

theorem cph_abs_holder {s : State} {t : Tid} (hm : s.mHead = some t) : (absC s).cph = phOf (s.th t) := by
  simp only [absC]; exact cphOf_holder hm

/-- solve a goal about `(absC _).cph` given the head-mutex fact `hm` -/
syntax "cph_solve " ident ident : tactic
macro_rules | `(tactic| cph_solve $hm $hpc) => `(tactic|
  (simp only [absC, cphOf, $hm:ident, upd_same]; (try simp [phOf, $hpc:ident]); (try rfl)))

theorem sim_dId {c s t a s'} (hL : LInv s) (hpc : (s.th t).pc = .dId) (h : nxDId c s t = some (a, s')) :
    absC s' = absC s ∨ CStep c (absC s) (absC s') := by
  have hm := hL.head t (by simp [hpc, inHead])
  simp only [nxDId, Option.some.injEq, Prod.mk.injEq] at h
  obtain ⟨-, rfl⟩ := h
  split
  · left; apply Core.ext' <;> try rfl
    · exact claim_holder rfl (by simp [claimOf, hpc])
    · cph_solve hm hpc
  · split
    · rename_i hx
      right
      refine CStep_of_eq ?_ (CStep.toRetire (absC s) (by cph_solve hm hpc) hx)
      apply Core.ext' <;> try rfl
      · exact claim_holder rfl (by simp [claimOf, hpc])
      · cph_solve hm hpc
    · left; apply Core.ext' <;> try rfl
      · exact claim_holder rfl (by simp [claimOf, hpc])
      · cph_solve hm hpc

theorem sim_dRetire {c s t a s'} (hL : LInv s) (hpc : (s.th t).pc = .dRetire) (h : nxDRetire c s t = some (a, s')) :
    CStep c (absC s) (absC s') := by
  have hm := hL.head t (by simp [hpc, inHead])
  simp only [nxDRetire, Option.some.injEq, Prod.mk.injEq] at h
  obtain ⟨-, rfl⟩ := h
  refine CStep_of_eq ?_ (CStep.retire (absC s) (by cph_solve hm hpc))
  apply Core.ext' <;> try rfl
  · exact claim_holder rfl (by simp [claimOf, hpc])
  · cph_solve hm hpc

theorem sim_dSlot {c s t a s'} (hL : LInv s) (hpc : (s.th t).pc = .dSlot) (h : nxDSlot c s t = some (a, s')) :
    absC s' = absC s ∨ CStep c (absC s) (absC s') := by
  have hm := hL.head t (by simp [hpc, inHead])
  simp only [nxDSlot] at h
  split at h <;> simp only [Option.some.injEq, Prod.mk.injEq] at h <;> obtain ⟨-, rfl⟩ := h
  · rename_i y hs
    right
    refine CStep_of_eq ?_ (CStep.lookSet (absC s) y (by cph_solve hm hpc) hs)
    apply Core.ext' <;> try rfl
    · exact claim_holder rfl (by simp [claimOf, hpc])
    · cph_solve hm hpc
  · rename_i hs
    right
    refine CStep_of_eq ?_ (CStep.lookSkip (absC s) (s.th t).got (by cph_solve hm hpc) hs)
    apply Core.ext' <;> try rfl
    · exact claim_holder rfl (by simp [claimOf, hpc])
    · cph_solve hm hpc
  · left; apply Core.ext' <;> try rfl
    · exact claim_holder rfl (by simp [claimOf, hpc])
    · cph_solve hm hpc

theorem sim_dEmpty {c s t a s'} (hL : LInv s) (hpc : (s.th t).pc = .dEmpty) (h : nxDEmpty c s t = some (a, s')) :
    CStep c (absC s) (absC s') := by
  have hm := hL.head t (by simp [hpc, inHead])
  have hph : (absC s).cph = .taking (s.th t).skipd (s.th t).got := by cph_solve hm hpc
  simp only [nxDEmpty, Option.some.injEq, Prod.mk.injEq] at h
  obtain ⟨-, rfl⟩ := h
  by_cases hp : s.hK ≤ s.hUnpub + 1
  · refine CStep_of_eq ?_ (CStep.drainPub (absC s) _ _ hph)
    apply Core.ext' <;> try rfl
    case h5 => simp [absC, hp]
    case h12 => exact claim_holder rfl (by simp [claimOf, hp, hpc])
    case h13 => simp only [absC, cphOf, hm, upd_same]; simp [hp, phOf]
  · refine CStep_of_eq ?_ (CStep.drainKeep (absC s) _ _ hph)
    apply Core.ext' <;> try rfl
    case h5 => simp [absC, hp]
    case h12 => exact claim_holder rfl (by simp [hp]; split <;> simp [claimOf, hpc])
    case h13 => simp only [absC, cphOf, hm, upd_same]; simp [hp]; split <;> simp [phOf]

theorem sim_dDr {c s t a s'} (hL : LInv s) (hpc : (s.th t).pc = .dDr) (h : nxDDr c s t = some (a, s')) :
    CStep c (absC s) (absC s') := by
  have hm := hL.head t (by simp [hpc, inHead])
  simp only [nxDDr, Option.some.injEq, Prod.mk.injEq] at h
  obtain ⟨-, rfl⟩ := h
  refine CStep_of_eq ?_ (CStep.mirror (absC s) (by cph_solve hm hpc))
  apply Core.ext' <;> try rfl
  · exact claim_holder rfl (by split <;> simp [claimOf, hpc])
  · simp only [absC, cphOf, hm, upd_same]; split <;> simp [phOf, hpc]

theorem sim_pDr {c s t a s'} (hL : LInv s) (hpc : (s.th t).pc = .pDr) (h : nxPDr c s t = some (a, s')) :
    CStep c (absC s) (absC s') := by
  have hm := hL.head t (by simp [hpc, inHead])
  simp only [nxPDr, Option.some.injEq, Prod.mk.injEq] at h
  obtain ⟨-, rfl⟩ := h
  refine CStep_of_eq ?_ (CStep.pubDr (absC s) (s.th t).freed (by cph_solve hm hpc))
  apply Core.ext' <;> try rfl
  · exact claim_holder rfl (by simp [claimOf, hpc])
  · cph_solve hm hpc

theorem sim_pPr {c s t a s'} (hL : LInv s) (hpc : (s.th t).pc = .pPr) (h : nxPPr c s t = some (a, s')) :
    CStep c (absC s) (absC s') := by
  have hm := hL.head t (by simp [hpc, inHead])
  simp only [nxPPr, Option.some.injEq, Prod.mk.injEq] at h
  obtain ⟨-, rfl⟩ := h
  refine CStep_of_eq ?_ (CStep.pubPr (absC s) (s.th t).freed (by cph_solve hm hpc))
  apply Core.ext' <;> try rfl
  · exact claim_holder rfl (by simp [claimOf, hpc])
  · cph_solve hm hpc

theorem sim_fLock {c s t a s'} (hpc : (s.th t).pc = .fLock) (h : nxFLock c s t = some (a, s')) :
    absC s' = absC s ∨ CStep c (absC s) (absC s') := by
  simp only [nxFLock] at h
  split at h
  · rename_i hm
    split at h <;> simp only [Option.some.injEq, Prod.mk.injEq] at h <;> obtain ⟨-, rfl⟩ := h
    · right
      refine CStep_of_eq ?_ (CStep.flushPub (absC s) (by cph_solve hm hpc))
      apply Core.ext' <;> try rfl
      · exact claim_holder rfl (by simp [claimOf, hpc])
      · cph_solve hm hpc
    · left
      apply Core.ext' <;> try rfl
      · exact claim_holder rfl (by simp [claimOf, hpc])
      · cph_solve hm hpc
  · simp at h

theorem sim_dLock {c s t a s'} (hpc : (s.th t).pc = .dLock) (h : nxDLock c s t = some (a, s')) : absC s' = absC s := by
  simp only [nxDLock] at h
  split at h
  · rename_i hm
    simp only [Option.some.injEq, Prod.mk.injEq] at h
    obtain ⟨-, rfl⟩ := h
    apply Core.ext' <;> try rfl
    · exact claim_holder rfl (by simp [claimOf, hpc])
    · cph_solve hm hpc
  · simp at h

theorem sim_dUnlock {c s t a s'} (hL : LInv s) (hpc : (s.th t).pc = .dUnlock) (h : nxDUnlock c s t = some (a, s')) :
    absC s' = absC s := by
  have hm := hL.head t (by simp [hpc, inHead])
  simp only [nxDUnlock, Option.some.injEq, Prod.mk.injEq] at h
  obtain ⟨-, rfl⟩ := h
  apply Core.ext' <;> try rfl
  · exact claim_holder rfl (by rw [claimOf_deqDone]; simp [claimOf, hpc])
  · cph_solve hm hpc

theorem sim_fUnlock {c s t a s'} (hL : LInv s) (hpc : (s.th t).pc = .fUnlock) (h : nxFUnlock c s t = some (a, s')) :
    absC s' = absC s := by
  have hm := hL.head t (by simp [hpc, inHead])
  simp only [nxFUnlock, Option.some.injEq, Prod.mk.injEq] at h
  obtain ⟨-, rfl⟩ := h
  apply Core.ext' <;> try rfl
  · exact claim_holder rfl (by rw [claimOf_flushDone]; simp [claimOf, hpc])
  · cph_solve hm hpc

section Main
attribute [local simp] quiet_retWith quiet_retPending quiet_tsCall quiet_enterLoop
  quiet_parkSeqS quiet_parkSeqR quiet_deqCall quiet_flushCall quiet_tsErr quiet_tsOk quiet_chkClosed quiet_chkOpen
  quiet_nrDone quiet_finDoneS quiet_finDoneR quiet_deqDone quiet_scDone quiet_flushDone quiet_probeDone quiet_pollEntry
  quiet_pubDone quiet_callTh

set_option maxHeartbeats 4000000 in
/-- every visible action is a core transition or invisible at ticket level -/
theorem sim_next {c s t a s'} (hL : LInv s) (h : next c s t = some (a, s')) :
    absC s' = absC s ∨ CStep c (absC s) (absC s') := by
  unfold next at h
  cases hpc : (s.th t).pc <;> simp only [hpc] at h
  case tFadd => exact Or.inr (sim_tFadd hpc h)
  case tCred => exact Or.inr (sim_tCred hpc h)
  case wSt => exact Or.inr (sim_wSt hpc h)
  case dId => exact sim_dId hL hpc h
  case dRetire => exact Or.inr (sim_dRetire hL hpc h)
  case dSlot => exact sim_dSlot hL hpc h
  case dEmpty => exact Or.inr (sim_dEmpty hL hpc h)
  case dDr => exact Or.inr (sim_dDr hL hpc h)
  case pDr => exact Or.inr (sim_pDr hL hpc h)
  case pPr => exact Or.inr (sim_pPr hL hpc h)
  case fLock => exact sim_fLock hpc h
  case dLock => exact Or.inl (sim_dLock hpc h)
  case dUnlock => exact Or.inl (sim_dUnlock hL hpc h)
  case fUnlock => exact Or.inl (sim_fUnlock hL hpc h)
  all_goals nx_unfold at h
  all_goals (try (repeat' split at h))
  all_goals (try (simp only [Option.some.injEq, Prod.mk.injEq, reduceCtorEq] at h))
  all_goals (try (obtain ⟨-, rfl⟩ := h))
  all_goals (first | contradiction | skip)
  all_goals (left; refine absC_congr (t := t) (fun u hu => upd_other _ _ _ _ hu) rfl rfl rfl rfl rfl rfl rfl rfl rfl rfl rfl rfl ?_ ?_ <;> (try quiet_simp) <;> simp [hpc, claimOf, phOf] <;> done)
end Main

theorem sim_env {c s t a s'} {l : Label} (hl : l ≠ .act) (h : stepA c s t l = some (a, s')) : absC s' = absC s := by
  cases l
  · exact absurd rfl hl
  · simp only [stepA, stepCall] at h
    split at h
    · split at h
      · simp only [Option.some.injEq, Prod.mk.injEq] at h
        obtain ⟨-, rfl⟩ := h
        rename_i op rest hpc hprog hok
        refine absC_congr (t := t) (fun u hu => upd_other _ _ _ _ hu) rfl rfl rfl rfl rfl rfl rfl rfl rfl rfl rfl rfl ?_ ?_
        · simp only [upd_same, claimOf_callTh]; simp [claimOf, hpc]
        · simp only [upd_same, phOf_callTh]; simp [phOf, hpc]
      · simp at h
    · simp at h
  · simp only [stepA, stepRet] at h
    split at h
    · simp only [Option.some.injEq, Prod.mk.injEq] at h
      obtain ⟨-, rfl⟩ := h
      rename_i hpc
      refine absC_congr (t := t) (fun u hu => upd_other _ _ _ _ hu) rfl rfl rfl rfl rfl rfl rfl rfl rfl rfl rfl rfl ?_ ?_
      · simp [claimOf, hpc]
      · simp [phOf, hpc]
    · simp at h
  · simp only [stepA, stepSpurious] at h
    split at h <;> simp only [Option.some.injEq, Prod.mk.injEq, reduceCtorEq] at h
    all_goals (obtain ⟨-, rfl⟩ := h; rename_i hpc)
    all_goals (refine absC_congr (t := t) (fun u hu => upd_other _ _ _ _ hu) rfl rfl rfl rfl rfl rfl rfl rfl rfl rfl rfl rfl ?_ ?_)
    all_goals (try quiet_simp)
    all_goals simp [claimOf, phOf, hpc]

theorem sim_step {c s t l s'} (hL : LInv s) (h : step c s t l = some s') :
    absC s' = absC s ∨ CStep c (absC s) (absC s') := by
  unfold step at h
  cases hA : stepA c s t l with
  | none => simp [hA] at h
  | some r =>
    obtain ⟨a, s1⟩ := r
    simp [hA] at h; subst h
    by_cases hl : l = .act
    · subst hl; exact sim_next hL (by simpa [stepA] using hA)
    · exact Or.inl (sim_env hl hA)

theorem absC_init (c : Cfg) (p : Tid → List Op) : absC (init c p) = cinit := by
  apply Core.ext' <;> rfl

/-- the ticket-level invariants hold in every reachable state -/
theorem cinv_reach {c p s} (h : Reach c p s) : CInv c (absC s) := by
  induction h with
  | init => rw [absC_init]; exact cinv_init c
  | step hr hs ih =>
    rcases sim_step (linv_reach hr) hs with e | e
    · rw [e]; exact ih
    · exact cinv_step ih e

end Fv.Chan.Mpsc3B
