import Fv.Lemmas.SpscBRingStep2
/-! Every reachable state of the SPSC step-level model satisfies the control and ring invariants. -/
namespace Fv.Chan.SpscB

theorem cinv_step {s s' : State} {r : Role} {l : Label} (hc : CInv s) (h : step s r l = some s') : CInv s' := by
  cases l with
  | load o => cases o <;> simp only [step] at h <;> (try split at h) <;>
      first | exact cinv_ldTail hc h | exact cinv_ldHead hc h | exact cinv_ldGate hc h | exact cinv_ldClosed hc h
            | exact cinv_ldDropped hc h | exact cinv_ldCount hc h | exact absurd h (by simp)
  | store o => cases o <;> simp only [step] at h <;> (try split at h) <;>
      first | exact cinv_stTail hc h | exact cinv_stHead hc h | exact cinv_stGate hc h | exact cinv_stFlag hc h
            | exact cinv_stDropped hc h | exact absurd h (by simp)
  | swap o => cases o <;> simp only [step] at h <;> (try split at h) <;>
      first | exact cinv_swapFlag hc h | exact cinv_swapClosed hc h | exact absurd h (by simp)
  | cas o => cases o <;> simp only [step] at h <;> (try split at h) <;>
      first | exact cinv_casClosed hc h | exact absurd h (by simp)
  | fsub o => cases o <;> simp only [step] at h <;> (try split at h) <;>
      first | exact cinv_subCount hc h | exact absurd h (by simp)
  | call => exact cinv_call hc h
  | ret => exact cinv_ret hc h
  | fence => exact cinv_fence hc h
  | lock q => simp only [step] at h; split at h <;> first | exact cinv_lock hc h | exact absurd h (by simp)
  | unlock q => simp only [step] at h; split at h <;> first | exact cinv_unlock hc h | exact absurd h (by simp)
  | unpark q => simp only [step] at h; split at h <;> first | exact cinv_unpark hc h | exact absurd h (by simp)
  | park => exact cinv_park hc h
  | spurious => exact cinv_spurious hc h
  | spin => exact cinv_spin hc h
  | deadline => exact cinv_deadline hc h

theorem rinv_step {s s' : State} {r : Role} {l : Label} (hc : CInv s) (hi : RInv s) (h : step s r l = some s') : RInv s' := by
  cases l with
  | load o => cases o <;> simp only [step] at h <;> (try split at h) <;>
      first | exact rinv_ldTail hc hi h | exact rinv_ldHead hc hi h | exact rinv_ldGate hi h | exact rinv_ldClosed hi h
            | exact rinv_ldDropped hi h | exact rinv_ldCount hi h | exact absurd h (by simp)
  | store o => cases o <;> simp only [step] at h <;> (try split at h) <;>
      first | exact rinv_stTail hc hi h | exact rinv_stHead hc hi h | exact rinv_stGate hi h | exact rinv_stFlag hi h
            | exact rinv_stDropped hi h | exact absurd h (by simp)
  | swap o => cases o <;> simp only [step] at h <;> (try split at h) <;>
      first | exact rinv_swapFlag hi h | exact rinv_swapClosed hi h | exact absurd h (by simp)
  | cas o => cases o <;> simp only [step] at h <;> (try split at h) <;>
      first | exact rinv_casClosed hi h | exact absurd h (by simp)
  | fsub o => cases o <;> simp only [step] at h <;> (try split at h) <;>
      first | exact rinv_subCount hi h | exact absurd h (by simp)
  | call => exact rinv_call hi h
  | ret => exact rinv_ret hi h
  | fence => exact rinv_fence hi h
  | lock q => simp only [step] at h; split at h <;> first | exact rinv_lock hi h | exact absurd h (by simp)
  | unlock q => simp only [step] at h; split at h <;> first | exact rinv_unlock hi h | exact absurd h (by simp)
  | unpark q => simp only [step] at h; split at h <;> first | exact rinv_unpark hi h | exact absurd h (by simp)
  | park => exact rinv_park hi h
  | spurious => exact rinv_spurious hi h
  | spin => exact rinv_spin hi h
  | deadline => exact rinv_deadline hi h

theorem reach_cinv {cap : Nat} {pp pc : List Op} {s : State} (h : Reach cap pp pc s) : CInv s := by
  induction h with
  | init => exact cinv_init _ _ _
  | step _ hs ih => exact cinv_step ih hs

theorem reach_rinv {cap : Nat} {pp pc : List Op} {s : State} (hcap : 0 < cap) (h : Reach cap pp pc s) : RInv s := by
  induction h with
  | init => exact rinv_init _ _ _ hcap
  | step hr hs ih => exact rinv_step (reach_cinv hr) ih hs

end Fv.Chan.SpscB
