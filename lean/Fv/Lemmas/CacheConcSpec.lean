import Fv.Lemmas.CacheConc
/-! Pure list lemmas about histories accepted by the forgetful-register specification:
where the value of a key comes from (latest write + increments since), no resurrection,
`or_insert` at most once per absent period. -/
namespace Fv.Cache.Conc

/-- `e` binds key `k` to a fresh value (`insert`, or `entry().or_insert` on a vacant entry) -/
def isWriteOf (k : Nat) : HEv → Option Nat
  | .wr _ k' v => if k' = k then some v else none
  | .oiIns _ k' v => if k' = k then some v else none
  | _ => none

/-- `e` takes key `k` out of the cache (`remove`, eviction/expiry, `clear`) -/
def kills (k : Nat) : HEv → Bool
  | .rm _ k' _ => k' = k
  | .forget _ k' _ => k' = k
  | .clear _ => true
  | _ => false

/-- increment applied to key `k` by `e` (a successful `compute`) -/
def incOf (k : Nat) : HEv → Nat
  | .upd _ k' _ d => if k' = k then d else 0
  | _ => 0

def incs (k : Nat) : List HEv → Nat
  | [] => 0
  | e :: es => incOf k e + incs k es

/-- no event of `mid` rebinds or removes key `k` (reads and computes are allowed) -/
def Stable (k : Nat) (mid : List HEv) : Prop := ∀ e ∈ mid, kills k e = false ∧ isWriteOf k e = none

theorem incs_append (k : Nat) (a b : List HEv) : incs k (a ++ b) = incs k a + incs k b := by
  induction a with
  | nil => simp [incs]
  | cons e es ih => simp [incs, ih]; omega

theorem rev_ind {α} {P : List α → Prop} (h0 : P []) (h1 : ∀ l a, P l → P (l ++ [a])) : ∀ l, P l := by
  have : ∀ l : List α, P l.reverse := by
    intro l; induction l with
    | nil => exact h0
    | cons a l ih => rw [List.reverse_cons]; exact h1 _ _ ih
  intro l; have := this l.reverse; rwa [List.reverse_reverse] at this

theorem histOk_snoc (r : Reg) (h : List HEv) (e : HEv) :
    histOk r (h ++ [e]) = (histOk r h && evOk (regOf r h) e) := by
  rw [histOk_append]; simp [histOk]

theorem regOf_snoc (r : Reg) (h : List HEv) (e : HEv) : regOf r (h ++ [e]) = applyEv (regOf r h) e := by
  rw [regOf_append]; rfl

/-- effect of one accepted event on key `k` -/
theorem applyEv_key (r : Reg) (e : HEv) (k : Nat) (hok : evOk r e = true) :
    applyEv r e k =
      match isWriteOf k e with
      | some v => some v
      | none => if kills k e then none else (r k).map (· + incOf k e) := by
  cases e <;> simp [applyEv, isWriteOf, kills, incOf, upd_apply, evOk] at hok ⊢
  case wr t k' v =>
    by_cases h : k' = k
    · subst h; simp_all
    · have : ¬ k = k' := fun e => h e.symm
      simp [h, this]
  case rm t k' x =>
    by_cases h : k' = k
    · subst h; simp_all
    · have : ¬ k = k' := fun e => h e.symm
      simp [h, this]
  case upd t k' old d =>
    by_cases h : k' = k
    · subst h; simp [hok]
    · have : ¬ k = k' := fun e => h e.symm
      simp [h, this]
  case oiIns t k' v =>
    by_cases h : k' = k
    · subst h; simp_all
    · have : ¬ k = k' := fun e => h e.symm
      simp [h, this]
  case forget t k' v =>
    by_cases h : k' = k
    · subst h; simp_all
    · have : ¬ k = k' := fun e => h e.symm
      simp [h, this]

/-- **origin of a value**: if the accepted history leaves `k ↦ x`, then `x` is the value of the
latest write of `k`, not followed by any removal of `k`, plus the increments applied since. -/
theorem regOf_some_origin (k : Nat) : ∀ (h : List HEv) (x : Nat), histOk emptyReg h = true →
    regOf emptyReg h k = some x →
    ∃ pre e mid v, h = pre ++ e :: mid ∧ isWriteOf k e = some v ∧ Stable k mid ∧ x = v + incs k mid := by
  intro h
  induction h using rev_ind with
  | h0 => intro x _ hx; simp [regOf, emptyReg] at hx
  | h1 l a ih =>
    intro x hok hx
    rw [histOk_snoc] at hok
    simp only [Bool.and_eq_true] at hok
    rw [regOf_snoc, applyEv_key _ _ _ hok.2] at hx
    cases hw : isWriteOf k a with
    | some v =>
      rw [hw] at hx; simp at hx
      exact ⟨l, a, [], v, by simp, hw, by intro e he; simp at he, by simp [incs, hx]⟩
    | none =>
      rw [hw] at hx; simp only at hx
      by_cases hk : kills k a = true
      · simp [hk] at hx
      · simp only [hk] at hx
        cases hr : regOf emptyReg l k with
        | none => rw [hr] at hx; simp at hx
        | some y =>
          rw [hr] at hx; simp at hx
          obtain ⟨pre, e, mid, v, e1, e2, e3, e4⟩ := ih y hok.1 hr
          refine ⟨pre, e, mid ++ [a], v, by simp [e1], e2, ?_, ?_⟩
          · intro e' he'
            rw [List.mem_append] at he'
            rcases he' with he' | he'
            · exact e3 e' he'
            · simp at he'; subst he'; exact ⟨by simpa using hk, hw⟩
          · rw [incs_append]; simp [incs]; omega

/-- **no lost update / latest write wins**: after a write of `v` to `k`, as long as `k` is neither
rebound nor removed, the register holds `v` plus every increment applied since. -/
theorem regOf_stable (k : Nat) : ∀ (mid : List HEv) (r : Reg) (v : Nat), histOk r mid = true → Stable k mid →
    r k = some v → regOf r mid k = some (v + incs k mid) := by
  intro mid
  induction mid with
  | nil => intro r v _ _ hr; simp [incs, hr]
  | cons e es ih =>
    intro r v hok hst hr
    simp only [histOk, Bool.and_eq_true] at hok
    have he := hst e (by simp)
    have h1 := applyEv_key r e k hok.1
    rw [he.2] at h1; simp only [he.1] at h1
    rw [hr] at h1; simp at h1
    have := ih (applyEv r e) (v + incOf k e) hok.2 (fun e' h' => hst e' (by simp [h'])) h1
    rw [regOf_cons, this]; simp [incs]; omega

theorem regOf_after_write (k : Nat) (r : Reg) (pre mid : List HEv) (e : HEv) (v : Nat)
    (hok : histOk r (pre ++ e :: mid) = true) (hw : isWriteOf k e = some v) (hst : Stable k mid) :
    regOf r (pre ++ e :: mid) k = some (v + incs k mid) := by
  rw [histOk_append] at hok
  simp only [histOk, Bool.and_eq_true] at hok
  rw [regOf_append, regOf_cons]
  apply regOf_stable k mid _ v hok.2.2 hst
  rw [applyEv_key _ _ _ hok.2.1, hw]

/-- **no resurrection**: after a removal of `k`, as long as `k` is not written, it stays absent. -/
theorem regOf_after_kill (k : Nat) : ∀ (mid : List HEv) (r : Reg), histOk r mid = true →
    (∀ e ∈ mid, isWriteOf k e = none) → r k = none → regOf r mid k = none := by
  intro mid
  induction mid with
  | nil => intro r _ _ hr; simpa
  | cons e es ih =>
    intro r hok hnw hr
    simp only [histOk, Bool.and_eq_true] at hok
    have h1 := applyEv_key r e k hok.1
    rw [hnw e (by simp), hr] at h1
    have : applyEv r e k = none := by rw [h1]; simp
    rw [regOf_cons]
    exact ih _ hok.2 (fun e' h' => hnw e' (by simp [h'])) this

/-- while nothing removes `k`, a bound key stays bound -/
theorem regOf_isSome_of_no_kill (k : Nat) : ∀ (mid : List HEv) (r : Reg), histOk r mid = true →
    (∀ e ∈ mid, kills k e = false) → (r k).isSome = true → (regOf r mid k).isSome = true := by
  intro mid
  induction mid with
  | nil => intro r _ _ hr; simpa
  | cons e es ih =>
    intro r hok hnk hr
    simp only [histOk, Bool.and_eq_true] at hok
    have h1 := applyEv_key r e k hok.1
    have : (applyEv r e k).isSome = true := by
      rw [h1]; split
      · rfl
      · simp only [hnk e (by simp)]
        cases hrk : r k with
        | none => rw [hrk] at hr; simp at hr
        | some y => simp
    rw [regOf_cons]
    exact ih _ hok.2 (fun e' h' => hnk e' (by simp [h'])) this

/-- **`or_insert` inserts at most once per absent period** -/
theorem oiIns_twice_needs_kill (r : Reg) (a mid post : List HEv) (t1 t2 k v1 v2 : Nat)
    (hok : histOk r (a ++ .oiIns t1 k v1 :: (mid ++ .oiIns t2 k v2 :: post)) = true) :
    ∃ e ∈ mid, kills k e = true := by
  apply Classical.byContradiction
  intro hne
  have hnk : ∀ e ∈ mid, kills k e = false := by
    intro e he
    cases hk : kills k e with
    | false => rfl
    | true => exact absurd ⟨e, he, hk⟩ hne
  rw [histOk_append] at hok
  simp only [histOk, Bool.and_eq_true] at hok
  obtain ⟨_, _, hrest⟩ := hok
  rw [histOk_append] at hrest
  simp only [histOk, Bool.and_eq_true] at hrest
  obtain ⟨hmid, h2, _⟩ := hrest
  have := regOf_isSome_of_no_kill k mid _ hmid hnk (by simp [applyEv])
  simp [evOk] at h2
  rw [h2] at this; simp at this

end Fv.Cache.Conc
