import Fv.Lemmas.SyncRwWakeL2
/-!
Wake invariant of the rwlock model: local (stepping-thread) lemmas about futures - the `bo` flag,
the `block_on` poller, and how a future becomes idle with an allocated node.
-/
namespace Fv.Sync.RwLock
open Fv.Sync
variable {cfg : Cfg} {s s' : State} {t : Tid} {l : Lbl}

set_option maxHeartbeats 16000000 in
/-- the `bo` flag of a future changes only while its phase is `absent` -/
theorem step_bo (h : Step cfg s t l s') :
    ∀ f, (s'.fut f).bo = (s.fut f).bo ∨ (s.fut f).phase = .absent := by
  step_cases h
  all_goals (intro f)
  all_goals (try norm_state)
  all_goals (first | exact Or.inl rfl | wg)

set_option maxHeartbeats 16000000 in
/-- a `block_on` poller stays on its future as long as the future's node is allocated -/
theorem bo_poller_local (hi : Inv s) (h : Step cfg s t l s') :
    ∀ f, (s.th t).cur = some f → futPc (s.th t).pc = true → (s.th t).blockOn = true →
      ((s'.th t).cur = some f ∧ futPc (s'.th t).pc = true) ∨ (s'.fut f).phase ≠ .startedNode := by
  have a1 := hi.syncCur t; have a2 := hi.asyncCur t; have a5 := hi.ffOk t
  have b4 := hi.phNode t; have b5 := hi.futUnl t; have b6 := hi.phFresh t; have b7 := hi.phStarted t
  clear hi
  step_cases h
  all_goals (intro f hc hp hb)
  all_goals (try norm_state)
  all_goals wg

set_option maxHeartbeats 16000000 in
/-- a future that is idle with an allocated node after the step was so before (and the stepping
thread was not operating on it), or its poll has just returned `Pending` with the node queued -/
theorem fl_local (hi : Inv s) (hw : WInv s) (h : Step cfg s t l s') :
    ∀ f, (s'.fut f).phase = .startedNode → (s'.fut f).busy = false →
      ((s.fut f).phase = .startedNode ∧ (s.fut f).busy = false ∧ ¬ opOn s t f)
      ∨ (s'.wl.node (.fut f)).linked = true := by
  have a1 := hi.syncCur t; have a2 := hi.asyncCur t; have a5 := hi.ffOk t
  have b1 : ∀ f, (s.th t).cur = some f → futPc (s.th t).pc = true → (s.fut f).busy = true :=
    fun f hc hp => (hi.busy t f hc hp).1
  have b3 := hw.qz t
  have b4 := hi.phNode t
  unfold opOn
  clear hi hw
  step_cases h
  all_goals (intro f h1 h2)
  all_goals (try norm_state)
  all_goals wg

end Fv.Sync.RwLock
