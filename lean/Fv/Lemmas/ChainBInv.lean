import Fv.Lemmas.ChainBObs
/-!
The inductive invariant of the slab-chain model, in four groups:
`InvH` handles and program counters, `InvP` the runs producers are building, `InvC` the chain
(DESIGN Appendix A.7: V1, V2), `InvS` the slab machine (`remaining` accounting, recycling).
-/
namespace Fv.Chan.ChainB

structure InvH (s : State) : Prop where
  cnt : s.senders = s.liveS.length
  nodup : s.liveS.Nodup
  live : ∀ h, h ∈ s.liveS ↔ s.hst h = .live
  active : ∀ h, s.ppc h ≠ .idle → s.hst h = .live
  slab_live : ∀ h, s.pslab h ≠ none → s.hst h = .live
  no_slab : ∀ h, noSlab (s.ppc h) = true → s.pslab h = none
  has_slab : ∀ h, hasSlab (s.ppc h) = true → s.pslab h ≠ none
  fin_live : s.fin = true → s.liveS = []
  fin_pc : cFinal s.cpc = s.fin
  gone_pc : cLast s.cpc = s.tailGone
  gone_fin : s.tailGone = true → s.fin = true

structure InvP (s : State) : Prop where
  rlen_le : ∀ h, building (s.ppc h) = true → s.rlen h ≤ (s.pvals h).length ∧ 0 < (s.pvals h).length
  rlen_zero : ∀ h, building (s.ppc h) = false → s.rlen h = 0
  need : ∀ h, needing (s.ppc h) = true → s.rlen h < (s.pvals h).length
  prelink : ∀ h, s.ppc h = .prelink → 2 ≤ s.rlen h
  held : ∀ h j, j < s.rlen h → s.nst (s.run h j) = .held h j
  held' : ∀ n h j, s.nst n = .held h j → j < s.rlen h ∧ s.run h j = n
  hval : ∀ h j, j < s.rlen h → s.val (s.run h j) = (s.pvals h)[j]?
  hnext : ∀ h j, j < s.rlen h →
    s.next (s.run h j) =
      if j + 1 < s.rlen h ∧ ¬ (s.ppc h = .prelink ∧ j + 2 = s.rlen h) then some (s.run h (j + 1)) else none

structure InvC (s : State) : Prop where
  len : s.len = s.sent.length
  k_le : s.k ≤ s.len
  at_in : s.tailGone = false → ∀ i, s.k ≤ i → i ≤ s.len → s.nst (s.at_ i) = .inchain i
  in_at : ∀ n i, s.nst n = .inchain i → s.tailGone = false ∧ s.k ≤ i ∧ i ≤ s.len ∧ s.at_ i = n
  tail : s.tail = s.at_ s.k
  head : s.head = s.at_ s.len
  linked : ∀ i, s.k ≤ i → i < s.len → s.pend i = none → s.next (s.at_ i) = some (s.at_ (i + 1))
  gap : ∀ i h, s.pend i = some h →
    s.ppc h = .link i (s.at_ i) (s.at_ (i + 1)) ∧ s.k ≤ i ∧ i < s.len ∧ s.next (s.at_ i) = none
  gap' : ∀ h i o f, s.ppc h = .link i o f → s.pend i = some h
  last : s.tailGone = false → s.next (s.at_ s.len) = none
  vals : ∀ i, s.k < i → i ≤ s.len → s.val (s.at_ i) = s.sent[i - 1]?
  valk : s.tailGone = false → s.val (s.at_ s.k) = none
  seq : s.recvd ++ s.dropped = s.sent.take s.k
  nodrop : s.fin = false → s.dropped = []
  gone_k : s.tailGone = true → s.k = s.len

structure InvS (cfg : Cfg) (s : State) : Prop where
  fresh : ∀ b, s.nextSlab ≤ b → s.sst b = .unalloc ∧ s.rem b = 0
  fresh_nodes : ∀ b i, s.nextSlab ≤ b →
    s.nst (.nd b i) = .free ∧ s.next (.nd b i) = none ∧ s.val (.nd b i) = none
  alloc : ∀ b, b < s.nextSlab → s.sst b ≠ .unalloc
  junk : ∀ b i, cfg.N ≤ i → s.nst (.nd b i) = .free ∧ s.next (.nd b i) = none ∧ s.val (.nd b i) = none
  count : ∀ b, b < s.nextSlab → s.rem b = hold (s.sst b) + live cfg s.nst b
  zero : ∀ b, isZero (s.sst b) = true → s.rem b = 0
  sealed_pos : ∀ b, s.sst b = .sealed → 0 < s.rem b
  owned : ∀ h b, s.pslab h = some b → s.sst b = .owned h
  owned' : ∀ h b, s.sst b = .owned h → s.pslab h = some b
  owned_pos : ∀ h b, s.pslab h = some b → s.ppos h ≤ cfg.N ∧ s.armed b = cfg.N
  owned_free : ∀ h b i, s.pslab h = some b → s.ppos h ≤ i → i < cfg.N → s.nst (.nd b i) = .free
  free_state : ∀ b i, b < s.nextSlab → i < cfg.N → s.nst (.nd b i) = .free → canFree (s.sst b) = true
  free_pos : ∀ b i h, i < cfg.N → s.nst (.nd b i) = .free → s.sst b = .owned h → s.ppos h ≤ i
  armed_clean : ∀ b i, b < s.nextSlab → s.nst (.nd b i) = .free → i < s.armed b →
    s.next (.nd b i) = none ∧ s.val (.nd b i) = none
  armed_full : ∀ b, b < s.nextSlab → isArming (s.sst b) = false → s.armed b = cfg.N
  arming_free : ∀ b h i, s.sst b = .arming h → i < cfg.N → s.nst (.nd b i) = .free
  pool_iff : ∀ b, b ∈ s.pool ↔ s.sst b = .pooled
  pool_nodup : s.pool.Nodup
  rel_p : ∀ h b, pRelOf (s.ppc h) = some b → s.sst b = .releasing (.prod h)
  rel_p' : ∀ h b, s.sst b = .releasing (.prod h) → pRelOf (s.ppc h) = some b
  rel_c : ∀ b, cRelOf s.cpc = some b → s.sst b = .releasing .cons
  rel_c' : ∀ b, s.sst b = .releasing .cons → cRelOf s.cpc = some b
  popped : ∀ h b, s.ppc h = .rearmRem b → s.sst b = .popped h
  popped' : ∀ h b, s.sst b = .popped h → s.ppc h = .rearmRem b
  arming : ∀ h b i, s.ppc h = .rearmNode b i → s.sst b = .arming h ∧ s.armed b = i ∧ i < cfg.N
  arming' : ∀ h b, s.sst b = .arming h → s.ppc h = .rearmNode b (s.armed b)
  lock_p : ∀ h, s.poolLock = some (.prod h) ↔ pHoldsLock (s.ppc h) = true
  lock_c : s.poolLock = some .cons ↔ cHoldsLock s.cpc = true
  limbo : ∀ n, s.nst n = .limbo ↔ cRetOf s.cpc = some n
  limbo_nd : cRetOf s.cpc ≠ some .stub
  dead_val : ∀ n, (s.nst n = .retired ∨ s.nst n = .limbo) → s.val n = none


/-! e-matching patterns for the invariant clauses (used by `grind` in the preservation proofs) -/
grind_pattern InvH.live => InvH s, s.hst h
grind_pattern InvH.live => InvH s, h ∈ s.liveS
grind_pattern InvH.active => InvH s, s.ppc h
grind_pattern InvH.slab_live => InvH s, s.pslab h
grind_pattern InvH.no_slab => InvH s, s.ppc h
grind_pattern InvH.has_slab => InvH s, s.ppc h
grind_pattern InvH.fin_live => InvH s
grind_pattern InvH.fin_pc => InvH s
grind_pattern InvH.gone_pc => InvH s
grind_pattern InvH.gone_fin => InvH s

grind_pattern InvP.rlen_le => InvP s, s.ppc h
grind_pattern InvP.rlen_zero => InvP s, s.ppc h
grind_pattern InvP.need => InvP s, s.ppc h
grind_pattern InvP.prelink => InvP s, s.ppc h
grind_pattern InvP.held => InvP s, s.run h j
grind_pattern InvP.held' => InvP s, s.nst n, NodeSt.held h j
grind_pattern InvP.hval => InvP s, s.val (s.run h j)
grind_pattern InvP.hnext => InvP s, s.next (s.run h j)

grind_pattern InvC.len => InvC s
grind_pattern InvC.k_le => InvC s
grind_pattern InvC.at_in => InvC s, s.at_ i
grind_pattern InvC.in_at => InvC s, s.nst n, NodeSt.inchain i
grind_pattern InvC.tail => InvC s
grind_pattern InvC.head => InvC s
grind_pattern InvC.linked => InvC s, s.pend i
grind_pattern InvC.gap => InvC s, s.pend i, some h
grind_pattern InvC.gap' => InvC s, s.ppc h, PPC.link i o f
grind_pattern InvC.last => InvC s
grind_pattern InvC.vals => InvC s, s.val (s.at_ i)
grind_pattern InvC.valk => InvC s
grind_pattern InvC.nodrop => InvC s
grind_pattern InvC.gone_k => InvC s

grind_pattern InvS.fresh => InvS cfg s, s.sst b
grind_pattern InvS.fresh => InvS cfg s, s.rem b
grind_pattern InvS.fresh_nodes => InvS cfg s, s.nst (.nd b i)
grind_pattern InvS.fresh_nodes => InvS cfg s, s.next (.nd b i)
grind_pattern InvS.fresh_nodes => InvS cfg s, s.val (.nd b i)
grind_pattern InvS.alloc => InvS cfg s, s.sst b
grind_pattern InvS.junk => InvS cfg s, s.nst (.nd b i)
grind_pattern InvS.junk => InvS cfg s, s.next (.nd b i)
grind_pattern InvS.junk => InvS cfg s, s.val (.nd b i)
grind_pattern InvS.count => InvS cfg s, s.rem b
grind_pattern InvS.zero => InvS cfg s, s.sst b
grind_pattern InvS.sealed_pos => InvS cfg s, s.sst b
grind_pattern InvS.owned => InvS cfg s, s.pslab h, some b
grind_pattern InvS.owned' => InvS cfg s, s.sst b, SlabSt.owned h
grind_pattern InvS.owned_pos => InvS cfg s, s.pslab h, some b
grind_pattern InvS.owned_free => InvS cfg s, s.pslab h, s.nst (.nd b i)
grind_pattern InvS.free_state => InvS cfg s, s.nst (.nd b i)
grind_pattern InvS.free_pos => InvS cfg s, s.nst (.nd b i), SlabSt.owned h
grind_pattern InvS.armed_clean => InvS cfg s, s.next (.nd b i)
grind_pattern InvS.armed_clean => InvS cfg s, s.val (.nd b i)
grind_pattern InvS.armed_full => InvS cfg s, s.armed b
grind_pattern InvS.arming_free => InvS cfg s, s.sst b, SlabSt.arming h, s.nst (.nd b i)
grind_pattern InvS.pool_iff => InvS cfg s, b ∈ s.pool
grind_pattern InvS.pool_iff => InvS cfg s, s.sst b
grind_pattern InvS.rel_p => InvS cfg s, pRelOf (s.ppc h), some b
grind_pattern InvS.rel_p' => InvS cfg s, s.sst b, SlabSt.releasing (.prod h)
grind_pattern InvS.rel_c => InvS cfg s, s.sst b
grind_pattern InvS.rel_c' => InvS cfg s, s.sst b
grind_pattern InvS.popped => InvS cfg s, s.ppc h, PPC.rearmRem b
grind_pattern InvS.popped' => InvS cfg s, s.sst b, SlabSt.popped h
grind_pattern InvS.arming => InvS cfg s, s.ppc h, PPC.rearmNode b i
grind_pattern InvS.arming' => InvS cfg s, s.sst b, SlabSt.arming h
grind_pattern InvS.lock_p => InvS cfg s, s.ppc h
grind_pattern InvS.lock_c => InvS cfg s
grind_pattern InvS.limbo => InvS cfg s, s.nst n
grind_pattern InvS.limbo => InvS cfg s, cRetOf s.cpc, some n
grind_pattern InvS.limbo_nd => InvS cfg s
grind_pattern InvS.dead_val => InvS cfg s, s.val n

/-- once the `Drop` walk has started no sender handle is inside an operation -/
theorem InvH.fin_idle {s : State} (hH : InvH s) (hf : s.fin = true) (h : Nat) : s.ppc h = .idle := by
  have h1 := hH.fin_live hf
  have h2 := hH.live h
  have h3 := hH.active h
  rw [h1] at h2
  simp at h2
  exact Classical.byContradiction (fun hn => h2 (h3 hn))
grind_pattern InvH.fin_idle => InvH s, s.ppc h

theorem InvH.fin_slab {s : State} (hH : InvH s) (hf : s.fin = true) (h : Nat) : s.pslab h = none := by
  have h1 := hH.fin_live hf
  have h2 := hH.live h
  have h3 := hH.slab_live h
  rw [h1] at h2
  simp at h2
  exact Classical.byContradiction (fun hn => h2 (h3 hn))
grind_pattern InvH.fin_slab => InvH s, s.pslab h

/-- a slab whose count is zero has every node retired: nothing in it holds a token, is in the chain
or is in a producer's hands -/
theorem InvS.zero_retired {cfg : Cfg} {s : State} (hS : InvS cfg s) (b i : Nat)
    (hz : isZero (s.sst b) = true) (hi : i < cfg.N) : s.nst (.nd b i) = .retired := by
  have hb : b < s.nextSlab := by
    apply Classical.byContradiction; intro hn
    have := (hS.fresh b (by omega)).1
    rw [this] at hz; simp at hz
  have h0 := hS.zero b hz
  have hc := hS.count b hb
  rw [h0] at hc
  have hl : live cfg s.nst b = 0 := by omega
  have := cnt_zero hl i hi
  simpa using this
grind_pattern InvS.zero_retired => InvS cfg s, isZero (s.sst b), s.nst (.nd b i)

/-- what the consumer finds behind its cursor is the next node in swap order -/
theorem InvC.next_tail {s : State} (hC : InvC s) (hg : s.tailGone = false) {nx : NodeId}
    (hn : s.next s.tail = some nx) : s.k < s.len ∧ nx = s.at_ (s.k + 1) ∧ s.pend s.k = none := by
  rw [hC.tail] at hn
  have hk := hC.k_le
  have hlt : s.k < s.len := by
    apply Classical.byContradiction; intro hnl
    have : s.k = s.len := by omega
    rw [this, hC.last hg] at hn; simp at hn
  have hp : s.pend s.k = none := by
    cases hpe : s.pend s.k with
    | none => rfl
    | some h => have := (hC.gap _ _ hpe).2.2.2; rw [this] at hn; simp at hn
  have := hC.linked s.k (Nat.le_refl _) hlt hp
  rw [this] at hn
  exact ⟨hlt, (Option.some.inj hn).symm, hp⟩
grind_pattern InvC.next_tail => InvC s, s.next s.tail, some nx

/-- V2: an empty-looking chain is empty, or the publisher of the next run is between its swap and
its link store -/
theorem InvC.tail_none {s : State} (hC : InvC s) (hn : s.next s.tail = none) :
    s.k = s.len ∨ (s.k < s.len ∧ ∃ h, s.pend s.k = some h) := by
  rw [hC.tail] at hn
  have hk := hC.k_le
  by_cases hlt : s.k < s.len
  · right
    refine ⟨hlt, ?_⟩
    cases hpe : s.pend s.k with
    | none => have := hC.linked s.k (Nat.le_refl _) hlt hpe; rw [this] at hn; simp at hn
    | some h => exact ⟨h, rfl⟩
  · left; omega

theorem InvC.tail_none_fin {s : State} (hH : InvH s) (hC : InvC s) (hf : s.fin = true)
    (hn : s.next s.tail = none) : s.k = s.len := by
  rcases hC.tail_none hn with h | ⟨_, h, hp⟩
  · exact h
  · have := (hC.gap _ _ hp).1
    rw [hH.fin_idle hf h] at this; simp at this

theorem InvS.p_relFence {cfg : Cfg} {s : State} (hS : InvS cfg s) {h b : Nat} {c : PCont}
    (e : s.ppc h = .relFence b c) : s.sst b = .releasing (.prod h) := hS.rel_p h b (by rw [e]; rfl)
grind_pattern InvS.p_relFence => InvS cfg s, s.ppc h, PPC.relFence b c
theorem InvS.c_relFence {cfg : Cfg} {s : State} (hS : InvS cfg s) {b : Nat} {c : CCont}
    (e : s.cpc = .relFence b c) : s.sst b = .releasing .cons := hS.rel_c b (by rw [e]; rfl)
grind_pattern InvS.c_relFence => InvS cfg s, s.cpc, CPC.relFence b c
theorem InvS.p_relLock {cfg : Cfg} {s : State} (hS : InvS cfg s) {h b : Nat} {c : PCont}
    (e : s.ppc h = .relLock b c) : s.sst b = .releasing (.prod h) := hS.rel_p h b (by rw [e]; rfl)
grind_pattern InvS.p_relLock => InvS cfg s, s.ppc h, PPC.relLock b c
theorem InvS.c_relLock {cfg : Cfg} {s : State} (hS : InvS cfg s) {b : Nat} {c : CCont}
    (e : s.cpc = .relLock b c) : s.sst b = .releasing .cons := hS.rel_c b (by rw [e]; rfl)
grind_pattern InvS.c_relLock => InvS cfg s, s.cpc, CPC.relLock b c
theorem InvS.p_relUnlock {cfg : Cfg} {s : State} (hS : InvS cfg s) {h b : Nat} {c : PCont}
    (e : s.ppc h = .relUnlock b c) : s.sst b = .releasing (.prod h) := hS.rel_p h b (by rw [e]; rfl)
grind_pattern InvS.p_relUnlock => InvS cfg s, s.ppc h, PPC.relUnlock b c
theorem InvS.c_relUnlock {cfg : Cfg} {s : State} (hS : InvS cfg s) {b : Nat} {c : CCont}
    (e : s.cpc = .relUnlock b c) : s.sst b = .releasing .cons := hS.rel_c b (by rw [e]; rfl)
grind_pattern InvS.c_relUnlock => InvS cfg s, s.cpc, CPC.relUnlock b c

structure Inv (cfg : Cfg) (s : State) : Prop where
  h : InvH s
  p : InvP s
  c : InvC s
  s : InvS cfg s

/-- eliminate `stepX … = some s'`: split every `match`/`if`, discard the `none` branches, substitute `s'` -/
syntax "step_elim " ident : tactic
macro_rules | `(tactic| step_elim $hs) => `(tactic| ((repeat' split at $hs:ident); all_goals (simp at $hs:ident); all_goals (try subst $hs:ident)))

theorem invH_init : InvH init := by
  constructor <;> simp [init, noSlab, hasSlab, cFinal, cLast]

theorem invP_init : InvP init := by
  constructor <;> simp [init]
  intro n h j hn
  cases n <;> simp at hn

theorem invC_init : InvC init := by
  constructor <;> simp [init]
  intro n i hn; cases n <;> simp at hn; simp [hn]

theorem invS_init (cfg : Cfg) : InvS cfg init := by
  constructor <;> simp [init, isZero, pRelOf, cRelOf, pHoldsLock, cHoldsLock, cRetOf]
  intro n; cases n <;> simp

theorem inv_init (cfg : Cfg) : Inv cfg init := ⟨invH_init, invP_init, invC_init, invS_init cfg⟩

end Fv.Chan.ChainB
