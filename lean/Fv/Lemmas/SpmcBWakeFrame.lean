import Fv.Lemmas.SpmcBWakeDefs
/-! Wake-up invariants, parts 1 and 2 (ghost mirror, park flag): frame lemmas. -/
namespace Fv.Chan.SpmcB
open Fv.Chan.LeftRightB (upd upd_apply upd_same)

/-- frame: the step changes none of the ghost sets and keeps the classification of the thread -/
theorem invW1_frame {s s' : State} {t : Nat} {p : PC} (h : InvW1 s) (hpc : s'.pc = upd s.pc t p)
    (hwq : s'.wq = s.wq) (hupk : s'.upk = s.upk) (hcsm : s'.csm = s.csm) (hflag : s'.flag = 2 ↔ s.flag = 2)
    (h1 : preCasPC p = preCasPC (s.pc t)) (h2 : upkPC p = upkPC (s.pc t)) (h3 : csmPC p = csmPC (s.pc t)) : InvW1 s' := by
  obtain ⟨a1, a2, a3, a4, a5, a6⟩ := h
  refine ⟨?_, hwq ▸ a2, ?_, hupk ▸ a4, ?_, ?_⟩
  · intro u; rw [hwq, hpc]; simp only [upd_apply]; split
    · rename_i e; subst e; rw [h1]; exact a1 u
    · exact a1 u
  · intro u q; rw [hupk, hpc]; simp only [upd_apply]; split
    · rename_i e; subst e; rw [h2]; exact a3 u q
    · exact a3 u q
  · intro u; rw [hcsm, hpc]; simp only [upd_apply]; split
    · rename_i e; subst e; rw [h3]; exact a5 u
    · exact a5 u
  · rw [hflag, hcsm]; exact a6

theorem okS_class {p : PC} (hp : okS p) : preCasPC p = false ∧ upkPC p = none ∧ csmPC p = false := by
  rcases hp with ⟨res, rfl⟩ | ⟨q, rfl⟩ <;> simp [preCasPC, upkPC, csmPC]

/-- a sender step never touches the ghost sets; `hflag` is the only obligation -/
theorem invW1_S {s s' : State} {t : Nat} {q : SPC} {p : PC} (h : InvW1 s) (hq : s.pc t = .snd q)
    (hpc : s'.pc = upd s.pc t p) (hp : okS p)
    (hwq : s'.wq = s.wq) (hupk : s'.upk = s.upk) (hcsm : s'.csm = s.csm) (hflag : s'.flag = 2 ↔ s.flag = 2) : InvW1 s' := by
  have ⟨c1, c2, c3⟩ := okS_class hp
  exact invW1_frame h hpc hwq hupk hcsm hflag (by rw [c1, hq]; rfl) (by rw [c2, hq]; rfl) (by rw [c3, hq]; rfl)

/-- all of `InvW2` speaks about the one thread inside the sender operation: after a step of that
thread it is enough to establish the facts of its new control state -/
theorem invW2_S {s s' : State} {t : Nat} {q : SPC} {p' : PC} (ha : InvA s) (h2 : InvW2 s) (hq : s.pc t = .snd q)
    (hpc : s'.pc = upd s.pc t p') (hso : s'.sOwner = if isRet p' then none else s.sOwner) (hp : okS p')
    (hcap : s'.cap = s.cap)
    (parked' : ∀ q', p' = .snd q' → s'.flag = 1 → armed1 q' = true ∧ s'.pthread = some t)
    (idle0' : ∀ res, p' = .ret res → s'.flag = 0)
    (consuming' : ∀ q', p' = .snd q' → s'.flag = 2 → armed2 q' = true)
    (handed' : ∀ q', p' = .snd q' → armed0 q' = true → s'.flag = 0 → s'.token t = true ∨ ∃ u, (u, t) ∈ s'.upk)
    (wit' : ∀ q', p' = .snd q' → s'.flag = 1 → witPC s' q')
    (kcap' : ∀ q', p' = .snd q' → kOf q' ≤ s.cap)
    (shead' : ∀ k, p' = .snd (.sHead k) → rk k = false) : InvW2 s' := by
  have hown : s.sOwner = some t := (ha.sown t).2 (by rw [hq]; rfl)
  have only : ∀ u q', s'.pc u = .snd q' → u = t ∧ p' = .snd q' := by
    intro u q' h
    rw [hpc] at h
    by_cases hut : u = t
    · subst hut; rw [upd_same] at h; exact ⟨rfl, h⟩
    · simp only [upd_apply, if_neg hut] at h
      have := (ha.sown u).2 (by rw [h]; rfl)
      rw [hown] at this; exact absurd (Option.some.inj this).symm hut
  refine ⟨?_, ?_, ?_, ?_, ?_, ?_, ?_, ?_⟩
  · intro u q' h hf; obtain ⟨rfl, e⟩ := only u q' h; exact parked' q' e hf
  · intro h
    rcases hp with ⟨res, rfl⟩ | ⟨q', rfl⟩
    · exact idle0' res rfl
    · rw [hso] at h; simp only [isRet] at h; rw [hown] at h; simp at h
  · intro u q' h hf; obtain ⟨rfl, e⟩ := only u q' h; exact consuming' q' e hf
  · intro u r k th p q' hu hpq
    obtain ⟨rfl, _⟩ := only p q' hpq
    rw [hpc] at hu
    by_cases hut : u = p
    · subst hut; rw [upd_same] at hu; exact absurd hu (okS_not_rcv hp)
    · simp only [upd_apply, if_neg hut] at hu
      exact h2.idle_th u r k th p q hu hq
  · intro u q' h ha0 hf; obtain ⟨rfl, e⟩ := only u q' h; exact handed' q' e ha0 hf
  · intro u q' h hf; obtain ⟨rfl, e⟩ := only u q' h; exact wit' q' e hf
  · intro u q' h; obtain ⟨rfl, e⟩ := only u q' h; rw [hcap]; exact kcap' q' e
  · intro u k h; obtain ⟨rfl, e⟩ := only u _ h; exact shead' k e

/-- a receiver step that does not touch the park flag / thread handle, does not enter CONSUMING,
and only adds tokens and pending unparks -/
theorem invW2_R {s s' : State} {t r : Nat} {q : RPC} {p' : PC} (h2 : InvW2 s) (hq : s.pc t = .rcv r q)
    (hpc : s'.pc = upd s.pc t p') (hso : s'.sOwner = s.sOwner) (hp : okR r p') (hcap : s'.cap = s.cap)
    (hflag : s'.flag = s.flag) (hpth : s'.pthread = s.pthread)
    (htok : ∀ u, u ≠ t → s.token u = true → s'.token u = true)
    (hupk : ∀ u p, (u, p) ∈ s.upk → (u, p) ∈ s'.upk ∨ s'.token p = true)
    (hidle : ∀ k th, p' = .rcv r (.wpIdle k th) → ∃ k', q = .wpIdle k' th)
    (hwit : ∀ q0, s.flag = 1 → witPC s q0 → witPC s' q0) : InvW2 s' := by
  have same : ∀ u q', s'.pc u = .snd q' → s.pc u = .snd q' ∧ u ≠ t := by
    intro u q' h
    rw [hpc] at h
    by_cases hut : u = t
    · subst hut; rw [upd_same] at h; exact absurd h (okR_not_snd hp)
    · simp only [upd_apply, if_neg hut] at h; exact ⟨h, hut⟩
  refine ⟨?_, ?_, ?_, ?_, ?_, ?_, ?_, ?_⟩
  · intro u q' h hf; rw [hflag] at hf; rw [hpth]; exact h2.parked u q' (same u q' h).1 hf
  · intro h; rw [hso] at h; rw [hflag]; exact h2.idle0 h
  · intro u q' h hf; rw [hflag] at hf; exact h2.consuming u q' (same u q' h).1 hf
  · intro u r' k th p q' hu hpq
    have hp0 := (same p q' hpq).1
    rw [hpc] at hu
    by_cases hut : u = t
    · subst hut; rw [upd_same] at hu
      rcases hp with ⟨res, rfl⟩ | ⟨q'', rfl⟩
      · cases hu
      · simp only [PC.rcv.injEq] at hu; obtain ⟨rfl, rfl⟩ := hu
        obtain ⟨k', rfl⟩ := hidle k th rfl
        exact h2.idle_th u r k' th p q' hq hp0
    · simp only [upd_apply, if_neg hut] at hu
      exact h2.idle_th u r' k th p q' hu hp0
  · intro u q' h ha0 hf
    rw [hflag] at hf
    have ⟨h0, hne⟩ := same u q' h
    rcases h2.handed u q' h0 ha0 hf with ht | ⟨v, hv⟩
    · exact Or.inl (htok u hne ht)
    · rcases hupk v u hv with h | h
      · exact Or.inr ⟨v, h⟩
      · exact Or.inl h
  · intro u q' h hf
    rw [hflag] at hf
    exact hwit q' hf (h2.wit u q' (same u q' h).1 hf)
  · intro u q' h; rw [hcap]; exact h2.kcap u q' (same u q' h).1
  · intro u k h; exact h2.shead u k (same u _ h).1

end Fv.Chan.SpmcB
