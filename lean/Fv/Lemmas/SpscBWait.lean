import Fv.Lemmas.SpscBReach
/-! Waiter-protocol invariants of the SPSC step-level model: definitions.
`q` ranges over the two waiter slots (roles); `w = s.loc q` is the thread that registers in slot `q`
(the waiter), `n = s.loc (other q)` the thread that notifies it. -/
namespace Fv.Chan.SpscB

/-- `w` holds its own slot mutex (inside `register` / `unregister`) -/
def holdsSelf : Mic → Bool
  | .rgStGate | .rgUnlock | .urStGate | .urUnlock => true
  | _ => false
/-- `n` holds the other side's slot mutex (inside `wake_one`) -/
def holdsW : Mic → Bool
  | .wkStGate _ | .wkStFlag | .wkUnlock _ => true
  | _ => false
/-- `n` has taken the waiter out of the slot and has not yet set its `notified` flag -/
def wkPre : Mic → Bool
  | .wkStGate true | .wkStFlag => true
  | _ => false
/-- `n` has set the flag and is about to unlock / unpark -/
def wkPost : Mic → Bool
  | .wkUnlock true | .wkUnpark => true
  | _ => false
def isUr : Mic → Bool
  | .urLock | .urStGate | .urUnlock => true
  | _ => false
/-- call sites of the wait loops and their exits -/
def loopish : K → Bool
  | .sL | .sOk | .sClosed | .rL | .rL2 | .rOk | .rDisc | .rTo => true
  | _ => false
def exitK : K → Bool
  | .sOk | .sClosed | .rOk | .rDisc | .rTo => true
  | _ => false

/-- lock / gate / slot discipline -/
structure WA (s : State) : Prop where
  a1 : ∀ q, holdsSelf (s.loc q).m = true → s.locked q = true
  a2 : ∀ q, holdsW (s.loc (other q)).m = true → s.locked q = true
  a3 : ∀ q, s.locked q = true → holdsSelf (s.loc q).m = true ∨ holdsW (s.loc (other q)).m = true
  a4 : ∀ q, holdsSelf (s.loc q).m = true → holdsW (s.loc (other q)).m = false
  b1 : ∀ q f, s.slot q = some f → s.gate q = 1 ∨ (s.loc q).m = .rgStGate
  b2 : ∀ q, s.slot q = none → s.gate q = 0 ∨ (s.loc q).m = .urStGate ∨ (s.loc (other q)).m = .wkStGate true ∨ (s.loc (other q)).m = .wkStGate false
  b3 : ∀ q, (s.loc q).m = .rgStGate ∨ (s.loc q).m = .rgUnlock → s.slot q = some true
  b4 : ∀ q, holdsW (s.loc (other q)).m = true → s.slot q = none
  b5 : ∀ q f, s.slot q = some f → f = true
  b6 : ∀ q, (s.loc q).m = .urStGate ∨ (s.loc q).m = .urUnlock → s.slot q = none

theorem wa_init (cap : Nat) (pp pc : List Op) : WA (init cap pp pc) := by
  constructor <;> simp [init, holdsSelf, holdsW]

end Fv.Chan.SpscB
