import Fv.Chan.LinCore
/-!
Soundness of the generic search: whatever `search` accepts has a declarative linearization
(`Lin`); with `quiesce = true` the final state is quiescent.  The memo table is irrelevant here:
it only makes the search fail more often.
-/
namespace Fv.Chan.LinCore
open List

variable {σ Op Out P K : Type} [BEq Out] [LawfulBEq Out] [BEq K] [Hashable K] (sem : Sem σ Op Out P K)

/-- every thread has at most one operation in flight -/
def NodupKeys (pend : Pend P) : Prop := (pend.map (·.1)).Nodup

theorem lookup_eq_none_iff {t : Nat} {pend : Pend P} : lookup t pend = none ↔ t ∉ pend.map (·.1) := by
  induction pend with
  | nil => simp [lookup]
  | cons a r ih =>
    obtain ⟨u, p⟩ := a
    simp only [lookup, map_cons, mem_cons, not_or]
    by_cases h : u = t
    · simp [h]
    · simp only [h, if_false, ih]
      exact ⟨fun hh => ⟨fun e => h e.symm, hh⟩, fun hh => hh.2⟩

theorem lookup_of_mem {pend : Pend P} (hn : NodupKeys pend) {u : Nat} {pu : P} (h : (u, pu) ∈ pend) :
    lookup u pend = some pu := by
  induction pend with
  | nil => cases h
  | cons a r ih =>
    obtain ⟨v, pv⟩ := a
    have hn' : v ∉ r.map (·.1) ∧ NodupKeys r := by
      simpa [NodupKeys] using hn
    simp only [lookup]
    rcases mem_cons.mp h with h | h
    · cases h; simp
    · by_cases hv : v = u
      · exfalso; apply hn'.1; rw [hv]; exact mem_map_of_mem (f := (·.1)) h
      · simp only [hv, if_false]; exact ih hn'.2 h

theorem mem_of_lookup {pend : Pend P} {t : Nat} {p : P} (h : lookup t pend = some p) : (t, p) ∈ pend := by
  induction pend with
  | nil => simp [lookup] at h
  | cons a r ih =>
    obtain ⟨u, q⟩ := a
    simp only [lookup] at h
    split at h
    · rename_i hu; cases h; subst hu; exact mem_cons_self
    · exact mem_cons_of_mem _ (ih h)

theorem mem_of_mem_erase {pend : Pend P} {t : Nat} {x : Nat × P} (h : x ∈ erase t pend) : x ∈ pend := by
  induction pend with
  | nil => simp [erase] at h
  | cons a r ih =>
    obtain ⟨u, q⟩ := a
    simp only [erase] at h
    split at h
    · exact mem_cons_of_mem _ h
    · rcases mem_cons.mp h with h | h
      · exact h ▸ mem_cons_self
      · exact mem_cons_of_mem _ (ih h)

theorem mem_setP {pend : Pend P} {u : Nat} {q : P} {x : Nat × P} (h : x ∈ setP u q pend) :
    x ∈ pend ∨ x = (u, q) := by
  induction pend with
  | nil => simp [setP] at h
  | cons a r ih =>
    obtain ⟨w, p⟩ := a
    simp only [setP] at h
    split at h
    · rename_i hw
      rcases mem_cons.mp h with h | h
      · exact Or.inr (hw ▸ h)
      · exact Or.inl (mem_cons_of_mem _ h)
    · rcases mem_cons.mp h with h | h
      · exact Or.inl (h ▸ mem_cons_self)
      · rcases ih h with h | h
        · exact Or.inl (mem_cons_of_mem _ h)
        · exact Or.inr h

theorem keys_setP (u : Nat) (q : P) (pend : Pend P) : (setP u q pend).map (·.1) = pend.map (·.1) := by
  induction pend with
  | nil => rfl
  | cons a r ih =>
    obtain ⟨v, pv⟩ := a
    simp only [setP]
    split
    · rename_i h; simp [h]
    · simp [ih]

theorem NodupKeys.setP {pend : Pend P} (h : NodupKeys pend) (u q) : NodupKeys (setP u q pend) := by
  unfold NodupKeys; rw [keys_setP]; exact h

theorem keys_erase_sublist (t : Nat) (pend : Pend P) : ((erase t pend).map (·.1)).Sublist (pend.map (·.1)) := by
  induction pend with
  | nil => exact Sublist.slnil
  | cons a r ih =>
    obtain ⟨v, pv⟩ := a
    simp only [erase]
    split
    · exact sublist_cons_self _ _
    · exact Sublist.cons_cons _ ih

theorem NodupKeys.erase {pend : Pend P} (h : NodupKeys pend) (t) : NodupKeys (erase t pend) :=
  Nodup.sublist (keys_erase_sublist t pend) h

theorem NodupKeys.cons {pend : Pend P} (h : NodupKeys pend) {t : Nat} (hl : lookup t pend = none) (p : P) :
    NodupKeys ((t, p) :: pend) := by
  unfold NodupKeys
  simp only [map_cons, nodup_cons]
  exact ⟨lookup_eq_none_iff.mp hl, h⟩

theorem firstSomeM_some {α β M} {f : α → M → Option β × M} {l : List α} {m m' : M} {b : β}
    (h : firstSomeM f l m = (some b, m')) : ∃ a ∈ l, ∃ m0 m1, f a m0 = (some b, m1) := by
  induction l generalizing m with
  | nil => simp [firstSomeM] at h
  | cons a r ih =>
    simp only [firstSomeM] at h
    split at h
    · rename_i b' m'' hf
      cases h
      exact ⟨a, mem_cons_self, m, _, hf⟩
    · rename_i m'' hf
      obtain ⟨a', ha', r'⟩ := ih h
      exact ⟨a', mem_cons_of_mem _ ha', r'⟩

theorem mem_candidates {s : σ} {pend : Pend P} {c : Nat × σ × P} (h : c ∈ candidates sem s pend) :
    ∃ pu, (c.1, pu) ∈ pend ∧ (c.2.1, c.2.2) ∈ sem.micro s pu := by
  unfold candidates at h
  rw [mem_flatMap] at h
  obtain ⟨x, hx, hc⟩ := h
  rw [mem_map] at hc
  obtain ⟨r, hr, rfl⟩ := hc
  exact ⟨x.2, hx, hr⟩

/-- A final state is *quiescent* when no pending operation is finished or can move. -/
def Quiescent (s : σ) (pend : Pend P) : Prop :=
  ∀ x ∈ pend, sem.fin x.2 = none ∧ sem.micro s x.2 = []

theorem quiescent_iff (s : σ) (pend : Pend P) : quiescent sem s pend = true ↔ Quiescent sem s pend := by
  unfold quiescent Quiescent
  simp [List.all_eq_true, Option.isNone_iff_eq_none, List.isEmpty_iff]

/-- **Soundness of the search.** -/
theorem search_sound (q : Bool) : ∀ (fuel : Nat) (m : Memo K) (s : σ) (pend : Pend P) (evs : List (Event Op Out))
    (sf : σ) (pf : Pend P) (m' : Memo K), NodupKeys pend → search sem q fuel m s pend evs = (some (sf, pf), m') →
    Lin sem s pend evs sf pf ∧ (q = true → Quiescent sem sf pf) := by
  intro fuel
  induction fuel with
  | zero => intro m s pend evs sf pf m' _ h; simp [search] at h
  | succ fuel ih =>
    intro m s pend evs sf pf m' hn h
    cases evs with
    | nil =>
      simp only [search] at h
      split at h
      · rename_i hq
        cases h
        refine ⟨Lin.nil _ _, fun hq' => ?_⟩
        rw [hq'] at hq
        simpa [quiescent_iff] using hq
      · split at h
        · cases h
        · split at h
          · rename_i r m1 hf
            cases h
            obtain ⟨c, hc, m0, m1', hs⟩ := firstSomeM_some hf
            obtain ⟨pu, hpu, hmic⟩ := mem_candidates sem hc
            obtain ⟨hl, hq⟩ := ih _ _ _ _ _ _ _ (hn.setP _ _) hs
            exact ⟨Lin.step (lookup_of_mem hn hpu) hmic hl, hq⟩
          · cases h
    | cons e rest =>
      cases e with
      | call t op =>
        simp only [search] at h
        split at h
        · cases h
        · rename_i hl
          obtain ⟨hlin, hq⟩ := ih _ _ _ _ _ _ _ (hn.cons hl _) h
          exact ⟨Lin.call hl hlin, hq⟩
      | ret t out =>
        simp only [search] at h
        split at h
        · cases h
        · rename_i p hp
          split at h
          · rename_i o ho
            split at h
            · rename_i heq
              have : o = out := by simpa using heq
              subst this
              split at h
              · rename_i r m1 hr
                cases h
                obtain ⟨hlin, hq⟩ := ih _ _ _ _ _ _ _ (hn.erase _) hr
                exact ⟨Lin.ret hp ho hlin, hq⟩
              · split at h
                · cases h
                · split at h
                  · rename_i r m1 hf
                    cases h
                    obtain ⟨c, hc, m0, m1', hs⟩ := firstSomeM_some hf
                    obtain ⟨pu, hpu, hmic⟩ := mem_candidates sem hc
                    split at hs
                    · obtain ⟨hl, hq⟩ := ih _ _ _ _ _ _ _ (hn.setP _ _) hs
                      exact ⟨Lin.step (lookup_of_mem hn hpu) hmic hl, hq⟩
                    · cases hs
                  · cases h
            · cases h
          · split at h
            · cases h
            · split at h
              · rename_i r m1 hf
                cases h
                obtain ⟨c, hc, m0, m1', hs⟩ := firstSomeM_some hf
                obtain ⟨pu, hpu, hmic⟩ := mem_candidates sem hc
                split at hs
                · obtain ⟨hl, hq⟩ := ih _ _ _ _ _ _ _ (hn.setP _ _) hs
                  exact ⟨Lin.step (lookup_of_mem hn hpu) hmic hl, hq⟩
                · cases hs
              · cases h

end Fv.Chan.LinCore
