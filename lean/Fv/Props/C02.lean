import Fv.Lemmas.ChanTry
import Fv.Props.C01
/-!
# C02 — per-producer FIFO; sequential FIFO; batches keep order

From the sequence equation of C01 (`sentOk = consumed ++ buf`, `recvOk` a subsequence of `consumed`):
* `C02_fifo_prefix` — what has been taken out of the channel is a prefix of the accepted sequence, so
  the delivered values appear in the order they were accepted (every sequential program; and
  `C02_fifo_prefix_step`: preserved by every atomic step of the concurrent model);
* `C02_per_producer_fifo` — restricted to any class of values (in particular "sent through sender
  handle p", the per-producer tag `sentBy`), the delivered values are a subsequence of the accepted
  ones, a prefix as long as the channel destroyed nothing;
* `C02_batch_keeps_order` — a batch send contributes its accepted values contiguously and in input
  order; a batch receive returns a contiguous prefix of the buffer in order;
* `C02_try_send_refines_enqueue`, `C02_try_recv_refines_dequeue` — in non-overlapping histories the
  channel *is* a FIFO list queue (exact refinement, both directions);
* `C02_linearizable_fifo_partial` — every accepted concurrent history has a witnessing linearization
  whose final state satisfies the FIFO equations. Missing for the full raw-history statement: the
  embedding of each receiver's observed order into the linearization order (real-time order of
  returns), which the checker enforces but `Lin` does not yet export as a theorem.
-/
namespace Fv.Props.C02
open Fv.Chan List

/-- FIFO: the values taken out of the channel are a prefix of the accepted sequence, and the delivered
values are a subsequence of that prefix — after every sequential program. -/
theorem C02_fifo_prefix (fl : Flavour) (ops : List Op) :
    let s := runOps fl (init fl) ops
    s.consumed <+: s.sentOk ∧ s.recvOk.Sublist s.sentOk ∧ (s.chanDropped = [] → s.recvOk <+: s.sentOk) := by
  have h := runOps_inv ops (init_inv fl)
  refine ⟨⟨_, h.seq.symm⟩, h.sub.trans (by rw [h.seq]; exact sublist_append_left _ _), fun hd => ?_⟩
  rw [← h.nodrop hd]; exact ⟨_, h.seq.symm⟩

/-- The same after every atomic step of any thread (any interleaving). -/
theorem C02_fifo_prefix_step {fl : Flavour} {cfg : Cfg} {s s' : St} {p p' : P}
    (hi : Inv fl s) (hs : (s', p') ∈ micro fl cfg s p) :
    s'.consumed <+: s'.sentOk ∧ s'.recvOk.Sublist s'.sentOk := by
  have h := micro_inv hs hi
  exact ⟨⟨_, h.seq.symm⟩, h.sub.trans (by rw [h.seq]; exact sublist_append_left _ _)⟩

/-- Per-producer FIFO: for any class `q` of values — e.g. `fun v => (p, v) ∈ s.sentBy`, "sent through
sender handle `p`" — the delivered values of that class are a subsequence of the accepted values of
that class (order preserved), and a prefix of them while the channel destroyed nothing. -/
theorem C02_per_producer_fifo (fl : Flavour) (ops : List Op) (q : Val → Bool) :
    let s := runOps fl (init fl) ops
    (s.recvOk.filter q).Sublist (s.sentOk.filter q) ∧
      (s.chanDropped = [] → s.recvOk.filter q <+: s.sentOk.filter q) := by
  obtain ⟨_, h2, h3⟩ := C02_fifo_prefix fl ops
  refine ⟨h2.filter q, fun hd => ?_⟩
  obtain ⟨t, ht⟩ := h3 hd
  exact ⟨t.filter q, by rw [← ht, filter_append]⟩

/-- the per-handle tags really describe the accepted / delivered sequences -/
theorem C02_tags_consistent (fl : Flavour) (ops : List Op) :
    let s := runOps fl (init fl) ops
    s.sentBy.map (·.2) = s.sentOk ∧ s.recvBy.map (·.2) = s.recvOk := by
  have h := runOps_inv ops (init_inv fl)
  exact ⟨h.tagS, h.tagR⟩

def exProg : List Op :=
  [.clone ⟨.tx, 0⟩ ⟨.tx, 1⟩, .snd .trySend ⟨.tx, 0⟩ [1], .snd .trySend ⟨.tx, 1⟩ [2], .snd .trySend ⟨.tx, 0⟩ [3],
   .rcv .recvBatch ⟨.rx, 0⟩ 2]

example : (runOps ⟨.pb, .mpmc, 4, false⟩ (init ⟨.pb, .mpmc, 4, false⟩) exProg).sentBy = [(0, 1), (1, 2), (0, 3)] ∧
    (runOps ⟨.pb, .mpmc, 4, false⟩ (init ⟨.pb, .mpmc, 4, false⟩) exProg).recvOk = [1, 2] ∧
    (runOps ⟨.pb, .mpmc, 4, false⟩ (init ⟨.pb, .mpmc, 4, false⟩) exProg).buf = [3] := by decide

/-- Batches keep order: a batch send appends its accepted values contiguously, in input order
(`sent` is a prefix of the input), a batch receive returns a contiguous prefix of the buffer. -/
theorem C02_batch_keeps_order {fl : Flavour} (hrv : fl.fam ≠ .rv) (hos : fl.fam ≠ .os) (s : St) (f : Form)
    (h : HName) (vs : List Val) (n : Nat) :
    (∃ γ, (stepOpS fl s (.snd f h vs)).1.buf = s.buf ++ γ ∧ γ <+: vs ∨
          (stepOpS fl s (.snd f h vs)).1.buf = s.buf ++ γ ∧ γ = []) ∧
    (∃ γ, s.buf = γ ++ (stepOpS fl s (.rcv f h n)).1.buf ∧ gotOf (stepOpS fl s (.rcv f h n)).2 = γ) := by
  refine ⟨?_, ?_⟩
  · obtain ⟨⟨γ, a, _, c⟩, _⟩ := Fv.Props.C01.C01_send_effect hrv hos s f h vs
    obtain ⟨_, _, _, hp⟩ := stepOpS_ok fl s (.snd f h vs)
    refine ⟨γ, ?_⟩
    -- the operation state knows `sent ++ rest = input`
    cases hr : (stepOpS fl s (.snd f h vs)).2 with
    | fin o =>
      rw [hr] at hp c
      simp only [PInv] at hp
      rcases (hp.1 rfl).1 with e | e
      · left; refine ⟨a, ?_⟩
        simp only [sentOf] at c; rw [← c]
        exact ⟨o.back ++ o.lost, by simp only [Op.vals] at e; rw [e, append_assoc]⟩
      · right; refine ⟨a, ?_⟩; simp only [sentOf] at c; rw [← c]; exact e.2.1
    | bsend t f' h' sent rest q =>
      rw [hr] at hp c
      left; refine ⟨a, ?_⟩
      simp only [sentOf] at c; rw [← c]
      exact ⟨rest, by simpa [Op.vals] using hp.1.symm⟩
    | bsendEnd t f' sent rest =>
      rw [hr] at hp c
      left; refine ⟨a, ?_⟩
      simp only [sentOf] at c; rw [← c]
      exact ⟨rest, by simpa [Op.vals] using hp.1.symm⟩
    | stg t k h' sent rest =>
      rw [hr] at hp c
      left; refine ⟨a, ?_⟩
      simp only [sentOf] at c; rw [← c]
      exact ⟨rest, by simpa [Op.vals] using hp.1.symm⟩
    | _ => rw [hr] at c; simp only [sentOf] at c; right; exact ⟨a, c.symm⟩
  · obtain ⟨⟨γ, a, _, _, d⟩, _⟩ := Fv.Props.C01.C01_recv_effect hrv hos s f h n
    exact ⟨γ, a, d⟩

/-- the abstract FIFO list queue -/
def enqueue (q : List Val) (v : Val) : List Val := q ++ [v]
def dequeue : List Val → Option (Val × List Val)
  | [] => none
  | x :: r => some (x, r)

/-- **Sequential FIFO refinement, send side**: on an open channel with a live receiver, `try_send`
succeeds exactly when the queue is not full, and then the buffer is the enqueue of the abstract
queue; otherwise the buffer is unchanged. -/
theorem C02_try_send_refines_enqueue {fl : Flavour} (hrv : fl.fam ≠ .rv) (hos : fl.fam ≠ .os) (s : St) (h : HName)
    (v : Val) (hd : Handle) (hf : findH s.hs h = some hd) (hside : hd.name.side = .tx)
    (hopen : hd.closed = false) (hlive : receiversGone fl s = false) :
    ((stepOp fl s (.snd .trySend h [v])).2.tag = .ok ↔ full fl s = false) ∧
    (stepOp fl s (.snd .trySend h [v])).1.buf = (if full fl s then s.buf else enqueue s.buf v) := by
  have ho := stepOp_trySend hrv hos s h v hd hf hside
  simp only [hopen, hlive, Bool.false_eq_true, or_self, if_false] at ho
  obtain ⟨⟨γ, a, _, c⟩, _⟩ := Fv.Props.C01.C01_send_effect hrv hos s .trySend h [v]
  have hout : (stepOpS fl s (.snd .trySend h [v])).2.outOrBlocks = (stepOp fl s (.snd .trySend h [v])).2 := rfl
  have hbuf : (stepOp fl s (.snd .trySend h [v])).1.buf = s.buf ++ γ := a
  by_cases hfull : full fl s = true
  · rw [if_pos hfull] at ho
    refine ⟨by rw [ho]; simp [hfull], ?_⟩
    rw [hbuf, if_pos hfull]
    -- nothing was accepted
    cases hr : (stepOpS fl s (.snd .trySend h [v])).2 with
    | fin o =>
      rw [hr] at c hout; simp only [sentOf] at c
      have : o = { tag := .full, back := [v] } := by rw [← ho, ← hout]; rfl
      rw [this] at c; simp [← c]
    | _ => rw [hr] at hout; rw [← hout] at ho; simp [P.outOrBlocks, blocksOut] at ho
  · rw [if_neg hfull] at ho
    have hf' : full fl s = false := by simpa using hfull
    refine ⟨by rw [ho]; simp [hf'], ?_⟩
    rw [hbuf, hf']
    cases hr : (stepOpS fl s (.snd .trySend h [v])).2 with
    | fin o =>
      rw [hr] at c hout; simp only [sentOf] at c
      have : o = { tag := .ok, sent := [v] } := by rw [← ho, ← hout]; rfl
      rw [this] at c; simp [← c, enqueue]
    | _ => rw [hr] at hout; rw [← hout] at ho; simp [P.outOrBlocks, blocksOut] at ho

/-- **Sequential FIFO refinement, receive side**: on an open receiver, `try_recv` returns exactly the
head of the abstract queue and leaves its tail; on an empty queue it returns nothing and changes
nothing. -/
theorem C02_try_recv_refines_dequeue {fl : Flavour} (hrv : fl.fam ≠ .rv) (hos : fl.fam ≠ .os) (s : St) (h : HName)
    (hd : Handle) (hf : findH s.hs h = some hd) (hside : hd.name.side = .rx) (hopen : hd.closed = false) :
    match dequeue s.buf with
    | some (x, r) => (stepOp fl s (.rcv .tryRecv h 0)).2 = { tag := .ok, got := [x] } ∧
        (stepOp fl s (.rcv .tryRecv h 0)).1.buf = r
    | none => (stepOp fl s (.rcv .tryRecv h 0)).2.got = [] ∧ (stepOp fl s (.rcv .tryRecv h 0)).1.buf = s.buf := by
  have ho := stepOp_tryRecv hrv hos s h hd hf hside
  simp only [hopen, Bool.false_eq_true, if_false] at ho
  obtain ⟨⟨γ, a, _, _, d⟩, _⟩ := Fv.Props.C01.C01_recv_effect hrv hos s .tryRecv h 0
  have hbuf : s.buf = γ ++ (stepOp fl s (.rcv .tryRecv h 0)).1.buf := a
  have hgot : ∀ o, (stepOp fl s (.rcv .tryRecv h 0)).2 = o → o.tag ≠ .blocks → γ = o.got := by
    intro o ho' hnb
    cases hr : (stepOpS fl s (.rcv .tryRecv h 0)).2 with
    | fin o' =>
      rw [hr] at d; simp only [gotOf] at d
      have : o' = o := by rw [← ho']; simp [stepOp, hr, P.outOrBlocks]
      rw [← d, this]
    | _ =>
      exfalso; apply hnb; rw [← ho']; simp [stepOp, hr, P.outOrBlocks, blocksOut]
  cases hb : s.buf with
  | nil =>
    simp only [dequeue]
    rw [hb] at ho hbuf
    have hg : γ = [] := (append_eq_nil_iff.mp hbuf.symm).1
    refine ⟨?_, by rw [hg] at hbuf; simpa using hbuf.symm⟩
    rw [ho]; simp only []; split <;> rfl
  | cons x r =>
    simp only [dequeue]
    rw [hb] at ho hbuf
    simp only [] at ho
    refine ⟨ho, ?_⟩
    have hg := hgot _ ho (by simp)
    rw [hg] at hbuf
    simp only [singleton_append, cons.injEq, true_and] at hbuf
    exact hbuf.symm

/-- Every accepted concurrent history has a witnessing linearization whose final state satisfies the
FIFO equations (`_partial`: see the header for what is missing). -/
theorem C02_linearizable_fifo_partial (fl : Flavour) (cfg : Cfg) (h : History) (q : Bool) (sf : St)
    (hl : linearize fl cfg h q = some sf) :
    sf.consumed <+: sf.sentOk ∧ sf.recvOk.Sublist sf.sentOk ∧
      (∀ v, count v (received h) ≤ count v sf.recvOk) ∧ (∀ v, count v (accepted h) ≤ count v sf.sentOk) := by
  obtain ⟨pf, ha, _⟩ := linearize_acc hl
  refine ⟨⟨_, ha.inv.seq.symm⟩, ha.inv.sub.trans (by rw [ha.inv.seq]; exact sublist_append_left _ _), ?_, ?_⟩
  · intro v; have := ha.recv v; omega
  · intro v; have := ha.sent v; omega

end Fv.Props.C02
