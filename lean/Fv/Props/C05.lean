import Fv.Lemmas.ChanLive
import Fv.Lemmas.ChanFinal
/-!
# C05 — blocked threads are always woken (history level, safety form)

`Enabled` is what the property says a blocked operation waits for, on the abstract state: a receive
is enabled when an item is buffered or every sender is gone; a send when there is space (by the exact
occupancy) or every receiver is gone.

* `C05_recv_blocks_iff_not_enabled` — on the sequential model a blocking receive has outcome `blocks`
  exactly when it is not enabled;
* `C05_send_blocks_iff_not_enabled_partial` — the same for a blocking `send`, where the window it consults
  is the exact one: every buffered family except the bounded mpsc with unpublished consumer progress;
  `C05_fails_F14` is the witness (after one `recv` the parked sender's window is still closed although
  `len < capacity`);
* `C05_checker_sound_quiescent` — **soundness of the checker for liveness in safety form**: if the checker
  accepts a history that ended with every unfinished thread blocked (`X deadlock`, checked with
  `quiesce = true`), then there is a linearization in whose final state no operation that never returned
  is finished or can take a step; `C05_quiescent_recv_not_enabled` / `C05_quiescent_send_not_enabled`
  spell that out: a never-returned receive (send) on a buffered channel is *not enabled* there;
* consequently a history in which a blocked operation is enabled at quiescence is rejected
  (`MISMATCH … blocked-op-enabled-at-quiescence`): F14 (mpsc bounded), F18 (oneshot pending recv).
The step-level no-lost-wakeup theorems (register / fence / re-check / park) belong to the layer-B models.
-/
namespace Fv.Props.C05
open Fv.Chan List LinCore

/-- an item is available or every sender is gone -/
def EnabledRecv (s : St) : Prop := s.buf ≠ [] ∨ s.sc = 0
/-- there is space (exact occupancy) or every receiver is gone -/
def EnabledSend (fl : Flavour) (s : St) : Prop := full fl s = false ∨ receiversGone fl s = true

/-- **A blocking receive blocks ⇔ it is not enabled** (buffered families; open handle; every receive form tests
the sender count — since fix 23f212c (N6) also the spsc async batch forms, so no hypothesis on `producer_dropped`). -/
theorem C05_recv_blocks_iff_not_enabled {fl : Flavour} (hrv : fl.fam ≠ .rv) (hos : fl.fam ≠ .os) (s : St)
    (f : Form) (h : HName) (n : Nat) (hd : Handle) (hf : findH s.hs h = some hd) (hside : hd.name.side = .rx)
    (hform : f.isSend = false) (hblk : f.blocking = true) (hsup : supportsForm fl.fam hd.isAsync f = true)
    (hopen : hd.closed = false) (hn : f.isBatch = true → n ≠ 0) :
    (stepOp fl s (.rcv f h n)).2.tag = .blocks ↔ ¬ EnabledRecv s := by
  rw [stepOp_recv_blocks_iff hrv hos s f h n hd hf hside hform hsup hopen hn]
  unfold EnabledRecv goneFor sendersGone
  simp only [hblk, and_true, beq_eq_false_iff_ne, ne_eq, not_or, Decidable.not_not]

/-- **A blocking send blocks ⇔ it is not enabled**, wherever the window it consults is the exact one
(every buffered family; for the bounded mpsc only while no consumer progress is unpublished). -/
theorem C05_send_blocks_iff_not_enabled_partial {fl : Flavour} (hrv : fl.fam ≠ .rv) (hos : fl.fam ≠ .os) (s : St)
    (h : HName) (v : Val) (hd : Handle) (hf : findH s.hs h = some hd) (hside : hd.name.side = .tx)
    (hsup : supportsForm fl.fam hd.isAsync .send = true) (hopen : hd.closed = false)
    (hexact : fl.fam ≠ .mb ∨ s.unpub = 0) :
    (stepOp fl s (.snd .send h [v])).2.tag = .blocks ↔ ¬ EnabledSend fl s := by
  unfold EnabledSend
  by_cases hlive : receiversGone fl s = true
  · -- receivers gone: the send fails Closed, it does not block; and it is enabled
    simp only [hlive, or_true, not_true_eq_false, iff_false]
    obtain ⟨ht, _⟩ := stepOp_send_closed hrv hos s .send h [v] hd hf hside rfl hsup (by simp) (Or.inr hlive)
    rw [ht]; simp
  · have hl : receiversGone fl s = false := by simpa using hlive
    rw [stepOp_send_blocks_iff hrv hos s h v hd hf hside hsup hopen hl]
    have hh : hotRoom fl s = room fl s := by
      unfold hotRoom
      rcases hexact with e | e
      · cases hfm : fl.fam <;> simp_all
      · cases hfm : fl.fam <;> simp [room, e, hfm]
    rw [hh, hl]
    unfold full
    cases room fl s with
    | none => simp
    | some r => cases r <;> simp

def mbS : Flavour := ⟨.mb, .mpsc, 2, false⟩
def f14State : St :=
  runOps mbS (init mbS) [.snd .send ⟨.tx, 0⟩ [1], .snd .send ⟨.tx, 0⟩ [2], .rcv .recv ⟨.rx, 0⟩ 0]

/-- F14 (mpsc bounded v3): after `send 1; send 2; recv` on a capacity-2 channel one slot is free
(`len = 1`, `is_full = false`, `try_send` succeeds) but a blocking `send` still blocks: the consumer has
not published its progress (`unpub = 1`). -/
theorem C05_fails_F14 :
    f14State.buf = [2] ∧ full mbS f14State = false ∧ f14State.unpub = 1 ∧
      (stepOp mbS f14State (.snd .send ⟨.tx, 0⟩ [3])).2.tag = .blocks ∧
      (stepOp mbS f14State (.snd .trySend ⟨.tx, 0⟩ [3])).2.tag = .ok := by decide

/-- **Soundness of the checker for liveness (safety form).**  If the checker accepts a history under
the quiescence requirement, there is a linearization of it at whose end every operation that never
returned is unfinished and has no possible step. -/
theorem C05_checker_sound_quiescent (fl : Flavour) (cfg : Cfg) (h : History) (sf : St) (pf : Pend PL)
    (hl : linearizeP fl cfg h true = some (sf, pf)) :
    Lin (sem fl cfg) (init fl) [] h sf pf ∧
      ∀ x ∈ pf, x.2.2.out? = none ∧ micro fl cfg sf x.2.2 = [] := by
  unfold linearizeP at hl
  have hs : LinCore.search (sem fl cfg) true h.fuel {} (init fl) [] h
      = (some (sf, pf), (LinCore.search (sem fl cfg) true h.fuel {} (init fl) [] h).2) := by rw [← hl]
  obtain ⟨hlin, hq⟩ := search_sound (sem fl cfg) true _ _ _ _ _ _ _ _ (by simp [NodupKeys]) hs
  refine ⟨hlin, fun x hx => ?_⟩
  obtain ⟨h1, h2⟩ := hq rfl x hx
  refine ⟨?_, ?_⟩
  · simp only [sem, Option.map_eq_none_iff] at h1; exact h1
  · simp only [sem, map_eq_nil_iff] at h2; exact h2

/-- … so a never-returned blocking receive that has taken nothing is not enabled in that final state:
nothing is buffered for it and the senders are not gone. -/
theorem C05_quiescent_recv_not_enabled {fl : Flavour} {cfg : Cfg} {sf : St} {t : Nat} {f : Form} {h : HName}
    {n : Nat} {hd : Handle} (hf : findH sf.hs h = some hd) (hform : f.isSend = false)
    (hw : recvWant f n [] > 0) (hstuck : micro fl cfg sf (.brecv t f h n []) = []) :
    sf.buf = [] ∧ sf.sc ≠ 0 := by
  have hdet : microDet fl cfg sf (.brecv t f h n []) = none := by
    unfold micro at hstuck
    have := (append_eq_nil_iff.mp hstuck).1
    cases hm : microDet fl cfg sf (.brecv t f h n []) with
    | none => rfl
    | some x => rw [hm] at this; simp at this
  simp only [microDet, hf] at hdet
  have hdet' : recvStep fl cfg sf t f hd n [] = none := by
    cases hr : recvStep fl cfg sf t f hd n [] with
    | none => rfl
    | some r => rw [hr] at hdet; simp at hdet
  obtain ⟨hb, hg, _⟩ := (recvStep_none_iff fl cfg sf t f hd n hw hform).mp hdet'
  refine ⟨hb, ?_⟩
  unfold goneFor sendersGone at hg
  simp only [beq_eq_false_iff_ne, ne_eq] at hg
  exact hg

/-- … and a never-returned blocking `send` that has pushed nothing is not enabled: the window is closed
(with the exact window of the concurrent specification: the channel is full) and the receivers are alive. -/
theorem C05_quiescent_send_not_enabled {fl : Flavour} {sf : St} {t : Nat} {h : HName} {v : Val}
    (hstuck : micro fl linCfg sf (.bsend t .send h [] [v]) = []) :
    receiversGone fl sf = false ∧ full fl sf = true ∨ (fl.fam = .rv ∨ fl.fam = .os) ∨
      (receiversGone fl sf = false ∧ room fl sf = some 0) := by
  have hdet : microDet fl linCfg sf (.bsend t .send h [] [v]) = none := by
    unfold micro at hstuck
    have := (append_eq_nil_iff.mp hstuck).1
    cases hm : microDet fl linCfg sf (.bsend t .send h [] [v]) with
    | none => rfl
    | some x => rw [hm] at this; simp at this
  simp only [microDet] at hdet
  obtain ⟨hg, hav⟩ := (sendStep_none_iff fl linCfg sf t h v).mp hdet
  right; right
  refine ⟨hg, ?_⟩
  unfold sendAvail at hav
  simp only [linCfg, Bool.false_eq_true, and_false, if_false] at hav
  cases hr : room fl sf with
  | none => rw [hr] at hav; simp at hav
  | some r => rw [hr] at hav; cases r <;> simp_all

end Fv.Props.C05
