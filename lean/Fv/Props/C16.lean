import Fv.Lemmas.CacheNotify
import Fv.Props.C13
/-
C16 — eviction listener notifications are truthful and never duplicated.

What is proved about the model (`Fv.Cache.stepOp`, every eviction policy, every oracle, every
state) — `removed` is the ghost log of bindings taken out of the map other than by overwrite,
`sent` the notifications handed to the notifier, `delivered` what the listener received:

* `C16_sent_iff_removed`: with a listener, `sent` IS the list of non-`clear` removals of the call
  (same key, value id, reason, same order); without one nothing is sent.  Overwriting by insert
  is not a removal and is not notified.
* `removed_sound`: every removal record names a binding that was visible in the map before the
  call (or that the call itself had just written), that key is unbound afterwards, and no key is
  removed — hence notified — twice in one call.
* `removed_reasons` and corollaries: `Invalidated` only for the key(s) the caller asked to remove,
  `Capacity` only from calls that run admission-driven eviction or the capacity pass, `Expired`
  only from `run_maintenance`; `tti_cleanup_removes_expired`: the idle-timeout sweep only removes
  entries that are expired at the current time.
* "`Expired` ⇒ the entry had expired" is FALSE for the TTL sweep (F7): `C16_fails_F7`.
* delivery: `delivered_eq_sent`, `queue_bound`, `no_drop_while_closed`, `gate_open_delivers`.
-/
namespace Fv.Props.C16
open Fv.Cache
open Fv.Cache.Policy
variable {P : Type}

/-! ### notifications = removals -/

/-- C16 (1): after any call, with a listener the notifications handed to the notifier are exactly
    the removals of that call that are not due to `clear`, as lists (so: one notification per
    removal, same key / value id / reason, nothing else, in order); without a listener nothing
    is sent. -/
theorem C16_sent_iff_removed (cfg : Cfg) (ops : PolicyOps P) (p0 : P) (o : Oracle) (s : State P) (op : Op) :
    let r := stepOp cfg ops p0 o s op
    if cfg.hasListener then r.1.sent = r.1.removed.filter (fun n => n.reason != .cleared) else r.1.sent = [] := by
  intro r
  have hempty : r.1.sent = [] → r.1.removed = [] →
      (if cfg.hasListener then r.1.sent = r.1.removed.filter (fun n => n.reason != .cleared) else r.1.sent = []) := by
    intro h1 h2; rw [h1, h2]; split <;> rfl
  by_cases hr : op = .restore
  · subst hr
    have : r.1.sent = [] ∧ r.1.removed = [] := by
      show (match s.resetLogs.snap with
        | some sn => (State.restore cfg p0 s.resetLogs.now sn, Ret.unit)
        | none => (s.resetLogs, Ret.unit)).1.sent = [] ∧ (match s.resetLogs.snap with
        | some sn => (State.restore cfg p0 s.resetLogs.now sn, Ret.unit)
        | none => (s.resetLogs, Ret.unit)).1.removed = []
      split <;> exact ⟨rfl, rfl⟩
    exact hempty this.1 this.2
  · by_cases hg : ∃ c, op = .gate c
    · obtain ⟨c, rfl⟩ := hg
      have : r.1.sent = [] ∧ r.1.removed = [] := by cases c <;> exact ⟨rfl, rfl⟩
      exact hempty this.1 this.2
    · have hv := stepOp_view cfg ops p0 o s op hr (fun c h => hg ⟨c, h⟩)
      have hs : r.1.sent = (nview r.1).sent := rfl
      rw [hs, hv, NView.notifyAll_sent]
      split
      · rfl
      · rfl

/-! ### removals are real -/

/-- C16 (2): under `WF s` (distinct keys), every removal record of a call names the binding that
    `lookup` showed for that key before the call, with the same value id — or the value the call
    itself had just written (a synchronous insert followed by its own opportunistic maintenance);
    afterwards the key is unbound (no read returns that value any more); and no key occurs twice
    among the removals of one call, so by `C16_sent_iff_removed` nothing is notified twice. -/
theorem removed_sound (cfg : Cfg) (ops : PolicyOps P) (p0 : P) (o : Oracle) (s : State P) (op : Op) (hwf : WF s) :
    let r := stepOp cfg ops p0 o s op
    (∀ n, n ∈ r.1.removed →
        ((∃ e, lookup s.map n.key = some e ∧ (n.key, e) ∈ s.map ∧ e.vid = n.vid) ∨ OpWrote op n.key n.vid) ∧
        lookup r.1.map n.key = none) ∧
      (r.1.removed.map (·.key)).Nodup := by
  intro r
  obtain ⟨h1, h2⟩ := stepOp_removed cfg ops p0 o s op (fun _ => hwf.1)
  refine ⟨fun n hn => ?_, h2⟩
  obtain ⟨g1, g2, _⟩ := h1 n hn
  refine ⟨?_, g2⟩
  rcases g1 with ⟨e, he, hv⟩ | g
  · exact Or.inl ⟨e, he, lookup_mem he, hv⟩
  · exact Or.inr g

/-! ### reasons -/

/-- C16 (3): which call may log a removal with which reason (`OpQ`): `Invalidated` only
    `remove k` / `invalidate k` / `multi_remove ks` for a requested key, `Cleared` only `clear`,
    `Expired` only `run_maintenance`, `Capacity` only calls that drain write events or run the
    capacity pass. -/
theorem removed_reasons (cfg : Cfg) (ops : PolicyOps P) (p0 : P) (o : Oracle) (s : State P) (op : Op) :
    ∀ n, n ∈ (stepOp cfg ops p0 o s op).1.removed → OpQ op n := by
  intro n hn
  by_cases hc : op = .clear
  · subst hc
    obtain ⟨h1, _, _⟩ := clearAll_spec cfg ops o s.resetLogs
    have hrem : (stepOp cfg ops p0 o s .clear).1.removed =
        s.map.map (fun p => ({ key := p.1, vid := p.2.vid, reason := .cleared } : Notif)) := by
      show (s.resetLogs.clearAll cfg ops o).removed = _
      rw [h1]; rfl
    rw [hrem] at hn
    obtain ⟨p, _, rfl⟩ := List.mem_map.1 hn
    rfl
  · exact ((stepOp_removed cfg ops p0 o s op (fun h => absurd h hc)).1 n hn).2.2

theorem invalidated_only_on_request (cfg : Cfg) (ops : PolicyOps P) (p0 : P) (o : Oracle) (s : State P) (op : Op)
    (n : Notif) (hn : n ∈ (stepOp cfg ops p0 o s op).1.removed) (hr : n.reason = .invalidated) :
    op = .remove n.key ∨ op = .invalidate n.key ∨ ∃ ks, op = .multiRemove ks ∧ n.key ∈ ks := by
  have := removed_reasons cfg ops p0 o s op n hn
  unfold OpQ at this; rw [hr] at this; exact this

theorem capacity_only_from_maintenance (cfg : Cfg) (ops : PolicyOps P) (p0 : P) (o : Oracle) (s : State P) (op : Op)
    (n : Notif) (hn : n ∈ (stepOp cfg ops p0 o s op).1.removed) (hr : n.reason = .capacity) : OpDrains op := by
  have := removed_reasons cfg ops p0 o s op n hn
  unfold OpQ at this; rw [hr] at this; exact this

theorem expired_only_from_run_maintenance (cfg : Cfg) (ops : PolicyOps P) (p0 : P) (o : Oracle) (s : State P) (op : Op)
    (n : Notif) (hn : n ∈ (stepOp cfg ops p0 o s op).1.removed) (hr : n.reason = .expired) : op = .runMaintenance := by
  have := removed_reasons cfg ops p0 o s op n hn
  unfold OpQ at this; rw [hr] at this; exact this

/-- inside `run_maintenance` (and the other draining calls): the drain and the capacity pass log
    only `Capacity` removals (they are the only callers of `evictVictim` / `capRemove`), the two
    expiry sweeps only `Expired` ones. -/
theorem pass_reasons (cfg : Cfg) (ops : PolicyOps P) (o : Oracle) (s : State P) (i limit : Nat) :
    (∃ rs, (s.performShard cfg ops o i limit).removed = s.removed ++ rs ∧ ∀ n, n ∈ rs → n.reason = .capacity) ∧
    (∃ rs, (s.cleanupCapacity cfg ops o i).removed = s.removed ++ rs ∧ ∀ n, n ∈ rs → n.reason = .capacity) ∧
    (∃ rs, (s.cleanupTtl cfg ops o i).removed = s.removed ++ rs ∧ ∀ n, n ∈ rs → n.reason = .expired) ∧
    (∃ rs, (s.cleanupTti cfg ops o i).removed = s.removed ++ rs ∧ ∀ n, n ∈ rs → n.reason = .expired) := by
  refine ⟨?_, ?_, ?_, ?_⟩
  · obtain ⟨rs, h⟩ := performShard_eff cfg ops o s i limit
    exact ⟨rs, h.removed, fun n hn => by obtain ⟨_, _, _, hq⟩ := h.was n hn; exact hq⟩
  · obtain ⟨rs, h⟩ := cleanupCapacity_eff cfg ops o s i
    exact ⟨rs, h.removed, fun n hn => by obtain ⟨_, _, _, hq⟩ := h.was n hn; exact hq⟩
  · obtain ⟨rs, h⟩ := cleanupTtl_eff cfg ops o s i
    exact ⟨rs, h.removed, fun n hn => by obtain ⟨_, _, _, hq⟩ := h.was n hn; exact hq⟩
  · obtain ⟨rs, h⟩ := cleanupTti_eff cfg ops o s i
    exact ⟨rs, h.removed, fun n hn => by obtain ⟨_, _, _, hq⟩ := h.was n hn; exact hq⟩

/-- the idle-timeout sweep is truthful: every entry `cleanup_tti_for_shard` removes (and reports
    as `Expired`) is the binding the map showed, and `is_expired` holds for it at the current time.
    (The TTL sweep does NOT have this property — F7, `C16_fails_F7`.) -/
theorem tti_cleanup_removes_expired (cfg : Cfg) (ops : PolicyOps P) (o : Oracle) (s : State P) (i : Nat) :
    ∃ rs, (s.cleanupTti cfg ops o i).removed = s.removed ++ rs ∧
      ∀ n, n ∈ rs → ∃ e, lookup s.map n.key = some e ∧ e.vid = n.vid ∧ n.reason = .expired ∧
        e.isExpired s.now cfg.tti = true := by
  obtain ⟨rs, h⟩ := cleanupTti_eff_mem cfg ops o s i
  refine ⟨rs, h.removed, fun n hn => ?_⟩
  obtain ⟨e, he, hv, hq, hx⟩ := h.was n hn
  exact ⟨e, he, hv, hq, hx⟩

/-! ### delivery -/

/-- C16 (4a): while the listener's gate is open, everything handed to the notifier during a call
    has been delivered when the call returns, in order. -/
theorem delivered_eq_sent (cfg : Cfg) (ops : PolicyOps P) (p0 : P) (o : Oracle) (s : State P) (op : Op)
    (hopen : s.lis.gateClosed = false) (hg : ∀ c, op ≠ .gate c) :
    (stepOp cfg ops p0 o s op).1.delivered = (stepOp cfg ops p0 o s op).1.sent := by
  by_cases hr : op = .restore
  · subst hr
    show (match s.resetLogs.snap with
      | some sn => (State.restore cfg p0 s.resetLogs.now sn, Ret.unit)
      | none => (s.resetLogs, Ret.unit)).1.delivered = (match s.resetLogs.snap with
      | some sn => (State.restore cfg p0 s.resetLogs.now sn, Ret.unit)
      | none => (s.resetLogs, Ret.unit)).1.sent
    split <;> rfl
  · have hv := stepOp_view cfg ops p0 o s op hr hg
    have h1 : (stepOp cfg ops p0 o s op).1.delivered = (nview (stepOp cfg ops p0 o s op).1).delivered := rfl
    have h2 : (stepOp cfg ops p0 o s op).1.sent = (nview (stepOp cfg ops p0 o s op).1).sent := rfl
    rw [h1, h2, hv, NView.notifyAll_sent, (NView.notifyAll_open cfg _ ⟨[], [], s.lis⟩ hopen).1]

/-- C16 (4b): the notifier queue never exceeds `NOTIFICATION_CHANNEL_CAPACITY` — invariant of
    every call. -/
theorem queue_bound (cfg : Cfg) (ops : PolicyOps P) (p0 : P) (o : Oracle) (s : State P) (op : Op)
    (hq : s.lis.queue.length ≤ cfg.queueCap) : (stepOp cfg ops p0 o s op).1.lis.queue.length ≤ cfg.queueCap := by
  by_cases hr : op = .restore
  · subst hr
    show (match s.resetLogs.snap with
      | some sn => (State.restore cfg p0 s.resetLogs.now sn, Ret.unit)
      | none => (s.resetLogs, Ret.unit)).1.lis.queue.length ≤ cfg.queueCap
    split
    · exact Nat.zero_le _
    · exact hq
  · by_cases hg : ∃ c, op = .gate c
    · obtain ⟨c, rfl⟩ := hg
      cases c
      · exact Nat.zero_le _
      · exact hq
    · have hv := stepOp_view cfg ops p0 o s op hr (fun c h => hg ⟨c, h⟩)
      have h1 : (stepOp cfg ops p0 o s op).1.lis = (nview (stepOp cfg ops p0 o s op).1).lis := rfl
      rw [h1, hv]
      exact NView.notifyAll_queue cfg _ ⟨[], [], s.lis⟩ hq

/-- the shape invariant of the notifier (it holds a notification whenever its queue is not empty)
    is preserved by every call -/
theorem lisWF_preserved (cfg : Cfg) (ops : PolicyOps P) (p0 : P) (o : Oracle) (s : State P) (op : Op)
    (hw : LisWF s.lis) : LisWF (stepOp cfg ops p0 o s op).1.lis := by
  by_cases hr : op = .restore
  · subst hr
    show LisWF (match s.resetLogs.snap with
      | some sn => (State.restore cfg p0 s.resetLogs.now sn, Ret.unit)
      | none => (s.resetLogs, Ret.unit)).1.lis
    split
    · intro _; rfl
    · exact hw
  · by_cases hg : ∃ c, op = .gate c
    · obtain ⟨c, rfl⟩ := hg
      cases c
      · intro _; rfl
      · exact hw
    · have hv := stepOp_view cfg ops p0 o s op hr (fun c h => hg ⟨c, h⟩)
      have h1 : (stepOp cfg ops p0 o s op).1.lis = (nview (stepOp cfg ops p0 o s op).1).lis := rfl
      rw [h1, hv]
      exact NView.notifyAll_liswf cfg _ ⟨[], [], s.lis⟩ hw

/-- C16 (4c): while the gate is closed nothing is dropped as long as at most `queueCap + 1`
    notifications are outstanding (one held by the notifier thread, `queueCap` queued): the
    outstanding notifications after the call are the old ones followed by everything this call
    sent, in order; nothing is delivered; the gate stays closed. -/
theorem no_drop_while_closed (cfg : Cfg) (ops : PolicyOps P) (p0 : P) (o : Oracle) (s : State P) (op : Op)
    (hclosed : s.lis.gateClosed = true) (hw : LisWF s.lis) (hr : op ≠ .restore) (hg : ∀ c, op ≠ .gate c)
    (hroom : s.lis.outstanding.length + (stepOp cfg ops p0 o s op).1.sent.length ≤ cfg.queueCap + 1) :
    (stepOp cfg ops p0 o s op).1.lis.outstanding = s.lis.outstanding ++ (stepOp cfg ops p0 o s op).1.sent ∧
      (stepOp cfg ops p0 o s op).1.delivered = [] ∧ (stepOp cfg ops p0 o s op).1.lis.gateClosed = true := by
  have hv := stepOp_view cfg ops p0 o s op hr hg
  have h1 : (stepOp cfg ops p0 o s op).1.lis = (NView.notifyAll cfg ⟨[], [], s.lis⟩
      ((stepOp cfg ops p0 o s op).1.removed.filter notCleared)).lis := congrArg NView.lis hv
  have h2 : (stepOp cfg ops p0 o s op).1.sent = (NView.notifyAll cfg ⟨[], [], s.lis⟩
      ((stepOp cfg ops p0 o s op).1.removed.filter notCleared)).sent := congrArg NView.sent hv
  have h3 : (stepOp cfg ops p0 o s op).1.delivered = (NView.notifyAll cfg ⟨[], [], s.lis⟩
      ((stepOp cfg ops p0 o s op).1.removed.filter notCleared)).delivered := congrArg NView.delivered hv
  rw [h2] at hroom
  rw [h1, h2, h3]
  generalize (stepOp cfg ops p0 o s op).1.removed.filter notCleared = ns at hroom ⊢
  rw [NView.notifyAll_sent] at hroom ⊢
  rw [NView.notifyAll_gate]
  cases hl : cfg.hasListener with
  | false =>
    rw [NView.notifyAll_nolistener cfg hl]
    simp [hclosed]
  | true =>
    rw [hl] at hroom
    simp only [if_true, List.nil_append] at hroom ⊢
    obtain ⟨g1, _, g3⟩ := NView.notifyAll_closed cfg hl _ ⟨[], [], s.lis⟩ hclosed hw hroom
    exact ⟨g1, g3, hclosed⟩

/-- opening the gate delivers the held notification and then the queue, in order, and empties
    the notifier -/
theorem gate_open_delivers (cfg : Cfg) (ops : PolicyOps P) (p0 : P) (o : Oracle) (s : State P) :
    (stepOp cfg ops p0 o s (.gate false)).1.delivered = s.lis.outstanding ∧
      (stepOp cfg ops p0 o s (.gate false)).1.lis = {} := by
  refine ⟨?_, rfl⟩
  show (match s.lis.inFlight with | some n => [n] | none => []) ++ s.lis.queue = s.lis.inFlight.toList ++ s.lis.queue
  cases s.lis.inFlight <;> rfl

/-! ### non-vacuity: concrete runs with a listener -/
def cfgL : Cfg := { hasListener := true }
def oo : Oracle := {}

/-- explicit removal: one notification, reason `Invalidated`, delivered (gate open) -/
example : let s := (run cfgL nullOps () (State.fresh cfgL () 0) [(.insert false 1 101 1, oo), (.remove 1, oo)]).1
    s.removed = [{ key := 1, vid := 101, reason := .invalidated }] ∧ s.sent = s.removed ∧ s.delivered = s.sent := by
  decide

/-- overwrite is not a removal; `clear` removals are logged but not notified -/
example : let s := (run cfgL nullOps () (State.fresh cfgL () 0)
      [(.insert false 1 101 1, oo), (.insert false 1 102 1, oo)]).1
    s.removed = [] ∧ s.sent = [] := by decide
example : let s := (run cfgL nullOps () (State.fresh cfgL () 0)
      [(.insert false 1 101 1, oo), (.insert false 2 102 1, oo), (.clear, oo)]).1
    s.removed.length = 2 ∧ s.sent = [] ∧ WF (State.fresh cfgL () 0) :=
  ⟨by decide, by decide, (Fv.Props.C13.fresh_wf_acc cfgL () 0).1⟩

def cfgLruL : Cfg := { capacity := 5, trackReads := true, hasListener := true }

/-- a capacity pass with the LRU policy: the evicted entry is notified with reason `Capacity` -/
example : let s := (run cfgLruL Fv.Props.C13.lruOps Lru.init (State.fresh cfgLruL Lru.init 0)
      [(.insert false 2 102 3, oo), (.insert false 3 103 3, oo), (.runMaintenance, oo)]).1
    s.sent = [{ key := 2, vid := 102, reason := .capacity }] ∧ s.removed = s.sent ∧ lookup s.map 2 = none := by
  decide

/-- gate closed: notifications stay outstanding (hypotheses of `no_drop_while_closed`), opening
    the gate delivers them in order (`gate_open_delivers`) -/
def gatedRun : State Unit :=
  (run cfgL nullOps () (State.fresh cfgL () 0)
    [(.insert false 1 101 1, oo), (.insert false 2 102 1, oo), (.gate true, oo), (.remove 1, oo), (.remove 2, oo)]).1

example : gatedRun.lis.gateClosed = true ∧ gatedRun.lis.outstanding =
    [{ key := 1, vid := 101, reason := .invalidated }, { key := 2, vid := 102, reason := .invalidated }] ∧
    gatedRun.delivered = [] ∧ gatedRun.lis.queue.length ≤ cfgL.queueCap := by decide
example : LisWF gatedRun.lis := by intro h; revert h; decide

/-- the hypotheses of `no_drop_while_closed` hold for the second `remove` of that run -/
def gatedMid : State Unit :=
  (run cfgL nullOps () (State.fresh cfgL () 0)
    [(.insert false 1 101 1, oo), (.insert false 2 102 1, oo), (.gate true, oo), (.remove 1, oo)]).1

example : gatedMid.lis.gateClosed = true ∧ (gatedMid.lis.inFlight = none → gatedMid.lis.queue = []) ∧
    gatedMid.lis.outstanding.length + (stepOp cfgL nullOps () oo gatedMid (.remove 2)).1.sent.length ≤ cfgL.queueCap + 1 ∧
    (stepOp cfgL nullOps () oo gatedMid (.remove 2)).1.lis.outstanding =
      gatedMid.lis.outstanding ++ (stepOp cfgL nullOps () oo gatedMid (.remove 2)).1.sent := by decide
example : (stepOp cfgL nullOps () oo gatedRun (.gate false)).1.delivered =
    [{ key := 1, vid := 101, reason := .invalidated }, { key := 2, vid := 102, reason := .invalidated }] := by decide

/-- the TTI sweep with an idle entry: removed and reported `Expired`, and it IS expired -/
def cfgTti : Cfg := { tti := some 1000, hasListener := true }
example : let s := (run cfgTti nullOps () (State.fresh cfgTti () 0)
      [(.insert false 1 101 1, oo), (.advance 2000, oo), (.runMaintenance, oo)]).1
    s.sent = [{ key := 1, vid := 101, reason := .expired }] := by decide

/-! ### F7: `Expired` is reported for an entry that has not expired -/
def cfgF7 : Cfg := { ttl := some 3000, hasListener := true }

/-- F7 seen by the listener: four `run_maintenance` calls at age 0 of a 3 s-TTL entry, the
    listener is told `Expired`. -/
def f7Run : State Unit × List Ret :=
  run cfgF7 nullOps () (State.fresh cfgF7 () 5000)
    [(.insert false 1 101 1, {}), (.runMaintenance, {}), (.runMaintenance, {}), (.runMaintenance, {}), (.runMaintenance, {})]

theorem C16_fails_F7 :
    f7Run.1.delivered = [{ key := 1, vid := 101, reason := .expired }] ∧ f7Run.1.now = 5000 := by decide

/-- the same run one call earlier: the entry is resident, its deadline (8000) is in the future and
    `is_expired` is false at the time (5000) of the call that removes it as `Expired` -/
def f7Before : State Unit :=
  (run cfgF7 nullOps () (State.fresh cfgF7 () 5000)
    [(.insert false 1 101 1, {}), (.runMaintenance, {}), (.runMaintenance, {}), (.runMaintenance, {})]).1

theorem C16_fails_F7_unexpired :
    (lookup f7Before.map 1).map (fun e => (e.vid, e.expiresAt, e.isExpired f7Before.now cfgF7.tti)) = some (101, 8000, false) ∧
      (stepOp cfgF7 nullOps () {} f7Before .runMaintenance).1.removed = [{ key := 1, vid := 101, reason := .expired }] := by
  decide

end Fv.Props.C16
