import Fv.Lemmas.CacheFrame
/-
C16 — eviction listener notifications are truthful and never duplicated.
-/
namespace Fv.Props.C16
open Fv.Cache

def cfgF7 : Cfg := { ttl := some 3000, hasListener := true }

/-- F7 seen by the listener: four `run_maintenance` calls at age 0 of a 3 s-TTL entry, the
    listener is told `Expired`. -/
def f7Run : State Unit × List Ret :=
  run cfgF7 nullOps () (State.fresh cfgF7 () 5000)
    [(.insert false 1 101 1, {}), (.runMaintenance, {}), (.runMaintenance, {}), (.runMaintenance, {}), (.runMaintenance, {})]

theorem C16_fails_F7 :
    f7Run.1.delivered = [{ key := 1, vid := 101, reason := .expired }] ∧ f7Run.1.now = 5000 := by decide

end Fv.Props.C16
