import Fv.Chan.Topic
/-!
C08 — topic pub/sub routes by subscription; only full mailboxes drop.
Statements over the model `Fv.Chan.Topic` (Q) and its history variables (`TopicSpec`).
-/
namespace Fv.Props.C08
open Fv.Chan.Topic

/-! ## Publishing never blocks -/

/-- `send` always returns: its result is Ok, Closed (or `invalid` for a non-existent handle) in
every state — in particular whatever the occupancy of the subscribers' mailboxes. -/
theorem C08_send_never_blocks (s : St) (h : Nat) (t : Topic) (v : Val) :
    (step s (.send h t v)).2 = .ok ∨ (step s (.send h t v)).2 = .closed ∨ (step s (.send h t v)).2 = .invalid := by
  simp only [step, send]
  split
  · simp
  · split <;> simp

/-! ## Witnesses: the full statement is false on the model (and on the code, see findings/C08_topic.case) -/

/-- F4a: dropping one sender clone makes the receiver report Disconnected although sender 0 is
alive (neither closed nor dropped). -/
theorem C08_fails_F4a :
    let ops := [Op.subscribe 0 1, .sClone 0, .sDrop 1, .tryRecv 0]
    (results (init 2 .sync) ops).getLast? = some Res.disc ∧ sendersGone (exec (init 2 .sync) ops) = false := by
  decide

/-- F4b: after that Disconnected the surviving sender still delivers: value after Disconnected. -/
theorem C08_fails_F4b :
    results (init 2 .sync) [Op.subscribe 0 1, .sClone 0, .sDrop 1, .tryRecv 0, .send 0 1 7, .tryRecv 0]
      = [.unit, .handle 1, .unit, .disc, .ok, .msg 1 7] := by
  decide

/-- F4c: every sender handle is gone and the mailbox is empty, yet a receiver without
subscriptions is told Empty / Timeout / would park — never Disconnected. -/
theorem C08_fails_F4c :
    let ops := [Op.sDrop 0, .tryRecv 0, .recvTimeout0 0, .recv 0]
    results (init 2 .sync) ops = [.unit, .empty, .timeout, .wouldBlock] ∧
    sendersGone (exec (init 2 .sync) ops) = true ∧ bufOf (exec (init 2 .sync) ops) 0 = [] := by
  decide

/-- F4c (clone): a receiver cloned after the last sender was closed — although it is subscribed —
and a clone made after the last sender was dropped never see Disconnected either. -/
theorem C08_fails_F4c_clone :
    results (init 2 .sync) [Op.subscribe 0 1, .sClose 0, .rClone 0, .tryRecv 0, .tryRecv 1, .sDrop 0, .rClone 0, .tryRecv 2]
      = [.unit, .ok, .handle 1, .disc, .empty, .unit, .handle 2, .empty] := by
  decide

/-- close() of a receiver does not remove it from the topic lists: the closed handle (its
subscription set is empty) obtains a message published afterwards. -/
theorem C08_fails_close :
    let ops := [Op.rClone 0, .subscribe 0 1, .rClose 0, .send 0 1 9, .tryRecv 0]
    results (init 2 .sync) ops = [.handle 1, .unit, .ok, .ok, .msg 1 9] ∧
    subscribedTo (exec (init 2 .sync) (ops.take 3)) 0 1 = false := by
  decide

/-- subscribe() is accepted on a closed handle and a clone inherits it. -/
theorem C08_fails_close_clone :
    results (init 2 .sync) [Op.rClone 0, .rClose 0, .subscribe 0 1, .rClone 0, .send 0 1 5, .tryRecv 2]
      = [.handle 1, .ok, .unit, .handle 2, .ok, .msg 1 5] := by
  decide

end Fv.Props.C08
