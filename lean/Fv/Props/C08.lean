import Fv.Lemmas.TopicExact
import Fv.Lemmas.TopicFinal
/-!
C08 — topic pub/sub routes by subscription; only full mailboxes drop.
Statements over the model `Fv.Chan.Topic` (Q) and its history variables (`TopicSpec`).
-/
namespace Fv.Props.C08
open Fv.Chan.Topic

/-! ## Programs -/

/-- `op` is not a `subscribe` on a receiver handle that is closed in state `s` -/
def okSub (s : St) : Op → Bool
  | .subscribe r _ =>
    match s.rxs[r]? with
    | some x => !x.closed
    | none => true
  | _ => true

/-- the program never calls `subscribe` on a handle that is closed at that moment (close, drop,
clone, convert, unsubscribe … of receivers are all allowed) -/
def okSubs : St → List Op → Bool
  | _, [] => true
  | s, op :: ops => okSub s op && okSubs (step s op).1 ops

theorem okSub_spec (s : St) (op : Op) (h : okSub s op = true) : OkSub s op := by
  intro r t x he hx
  subst he
  simpa [okSub, hx] using h

theorem okSubs_spec (s : St) (ops : List Op) (h : okSubs s ops = true) : OkSubs s ops := by
  induction ops generalizing s with
  | nil => trivial
  | cons op ops ih =>
    simp only [okSubs, Bool.and_eq_true] at h
    exact ⟨okSub_spec s op h.1, ih _ h.2⟩

/-- no sender `clone()` in the program: a single sender handle -/
def noSClone (ops : List Op) : Bool := ops.all (fun op => match op with | .sClone _ => false | _ => true)

theorem noSClone_spec (ops : List Op) (h : noSClone ops = true) : ∀ op ∈ ops, ∀ q, op ≠ .sClone q := by
  intro op hop r he
  subst he
  have := List.all_eq_true.1 h _ hop
  simp at this

theorem exec_nil (s : St) : exec s [] = s := rfl
theorem exec_cons (s : St) (op : Op) (ops : List Op) : exec s (op :: ops) = exec (step s op).1 ops := rfl

theorem exec_append (s : St) (a b : List Op) : exec s (a ++ b) = exec (exec s a) b := by
  induction a generalizing s with
  | nil => rfl
  | cons op a ih => simp only [List.cons_append, exec_cons]; exact ih _

/-- the history variables ride on the model run: same states -/
theorem grun_st (g : TopicSpec) (ops : List Op) : (grun g ops).st = exec g.st ops := by
  induction ops generalizing g with
  | nil => rfl
  | cons op ops ih =>
    simp only [grun, exec_cons]
    rw [ih]; simp only [gstep, gnext_st]

/-! ## Routing -/

/-- **Order, at most once** (every program, every capacity, both flavours). What receiver `r`
obtained so far followed by what still sits in its mailbox is the image of a strictly increasing
list `acc r` of indices into the publish log: a subsequence of the accepted publishes, in publish
order, each publish at most once. -/
theorem C08_order_once (cap : Nat) (k : Kind) (ops : List Op) (r : Nat) :
    let g := grun (ginit cap k) ops
    g.got r ++ bufOf g.st r = (g.acc r).map (msgAt g.pubs) ∧
    (g.acc r).Pairwise (· < ·) ∧ (∀ i ∈ g.acc r, i < g.pubs.length) := by
  have h := GI_grun _ ops (GI_ginit cap k)
  exact ⟨h.hist r, h.inc r, h.bnd r⟩

/-- **Exactly the subscribed topics, minus full mailboxes** — partial: programs that never call
`subscribe` on a closed receiver handle (see `C08_fails_close_clone`; receiver close, drop,
clone, conversion are all covered). The publishes that entered `r`'s mailbox are exactly
those made while `r` was subscribed to the topic (open live handle, topic in its subscription
set at publish time) and its mailbox was not full: the only omission is the newest message for a
full mailbox, and never a message of a topic it was not subscribed to. -/
theorem C08_routing_partial (cap : Nat) (k : Kind) (ops : List Op) (hops : okSubs (init cap k) ops = true) (r : Nat) :
    let g := grun (ginit cap k) ops
    g.acc r = owed g.pubs r ∧
    g.got r ++ bufOf g.st r = (owed g.pubs r).map (msgAt g.pubs) := by
  have h := EI_grun _ ops (okSubs_spec _ ops hops) (EI_ginit cap k)
  exact ⟨h.exact r, by rw [← h.exact r]; exact h.gi.hist r⟩

/-- never a foreign topic (same restriction): every message `r` obtained was published to a
topic `r` was subscribed to at that publish, while its mailbox had room -/
theorem C08_no_foreign_topic_partial (cap : Nat) (k : Kind) (ops : List Op) (hops : okSubs (init cap k) ops = true) (r : Nat)
    (m : Msg) (hm : m ∈ (grun (ginit cap k) ops).got r) :
    ∃ (i : Nat) (p : Pub), (grun (ginit cap k) ops).pubs[i]? = some p ∧ m = (p.t, p.v) ∧ p.subscribed r = true ∧ p.full r = false := by
  have h := (C08_routing_partial cap k ops hops r).2
  have hm' : m ∈ (owed (grun (ginit cap k) ops).pubs r).map (msgAt (grun (ginit cap k) ops).pubs) := by
    rw [← h]; exact List.mem_append_left _ hm
  obtain ⟨i, hi, rfl⟩ := List.mem_map.1 hm'
  simp only [owed, List.mem_filter, List.mem_range] at hi
  obtain ⟨hlt, hp⟩ := hi
  cases hpi : (grun (ginit cap k) ops).pubs[i]? with
  | none => simp [hpi] at hp
  | some p =>
    simp only [hpi, Bool.and_eq_true, Bool.not_eq_eq_eq_not, Bool.not_true] at hp
    exact ⟨i, p, hpi, by simp [msgAt, hpi], hp.1, hp.2⟩

/-- nothing owed is lost (same restriction): a publish made while `r` was subscribed and its
mailbox had room is in `acc r`, hence (by `C08_order_once`) obtained or still buffered -/
theorem C08_no_loss_partial (cap : Nat) (k : Kind) (ops : List Op) (hops : okSubs (init cap k) ops = true) (r i : Nat) (p : Pub)
    (hp : (grun (ginit cap k) ops).pubs[i]? = some p) (hs : p.subscribed r = true) (hf : p.full r = false) :
    i ∈ (grun (ginit cap k) ops).acc r := by
  rw [(C08_routing_partial cap k ops hops r).1]
  simp only [owed, List.mem_filter, List.mem_range]
  exact ⟨(List.getElem?_eq_some_iff.1 hp).1, by simp [hp, hs, hf]⟩

/-! ## Publishing never blocks -/

/-- `send` always returns: its result is Ok, Closed (or `invalid` for a non-existent handle) in
every state — in particular whatever the occupancy of the subscribers' mailboxes. -/
theorem C08_send_never_blocks (s : St) (h : Nat) (t : Topic) (v : Val) :
    (step s (.send h t v)).2 = .ok ∨ (step s (.send h t v)).2 = .closed ∨ (step s (.send h t v)).2 = .invalid := by
  simp only [step, send]
  split
  · simp
  · split <;> simp

/-! ## Disconnected -/

theorem DI_exec (cap : Nat) (k : Kind) (ops : List Op) (h : noSClone ops = true) : DI (exec (init cap k) ops) := by
  have hs := noSClone_spec ops h
  suffices ∀ s, DI s → DI (exec s ops) from this _ (DI_init cap k)
  clear h
  induction ops with
  | nil => intro s hd; exact hd
  | cons op ops ih =>
    intro s hd
    rw [exec_cons]
    exact ih (fun o ho => hs o (List.mem_cons_of_mem _ ho)) _ (DI_step s op (hs op (List.mem_cons_self ..)) hd)

/-- the unguarded part of the routing invariant holds after every program -/
theorem RI_exec (cap : Nat) (k : Kind) (ops : List Op) : RI False (exec (init cap k) ops) := by
  suffices ∀ s, RI False s → RI False (exec s ops) from this _ (RI_init cap k False)
  induction ops with
  | nil => intro s hd; exact hd
  | cons op ops ih =>
    intro s hd
    rw [exec_cons]
    exact ih _ (RI_step s op (fun h => absurd h id) hd)

/-- **Disconnected only after every sender is gone and the mailbox is drained** — partial: a
single sender handle (no sender `clone()` in the program; with clones it is false, `C08_fails_F4a`).
If a receive form on a receiver whose own handle is not closed answers Disconnected (stream: end),
then every sender handle is closed or dropped and that receiver's mailbox is empty. -/
theorem C08_disc_sound_partial (cap : Nat) (k : Kind) (pre : List Op) (hpre : noSClone pre = true)
    (op : Op) (r : Nat) (ht : recvTarget op = some r)
    (hres : (step (exec (init cap k) pre) op).2 = .disc ∨ (step (exec (init cap k) pre) op).2 = .none)
    (hopen : ∀ x, (exec (init cap k) pre).rxs[r]? = some x → x.closed = false) :
    sendersGone (exec (init cap k) pre) = true ∧ bufOf (exec (init cap k) pre) r = [] := by
  obtain ⟨x, hx, hl, hb, hd⟩ := recv_disc_cases _ op r ht hres
  have hdisc : x.disc = true := by
    rcases hd with hd | ⟨hc, _⟩
    · exact hd
    · rw [hopen x hx] at hc; cases hc
  exact ⟨(DI_exec cap k pre hpre).sound r x hx hl hdisc, by simp [bufOf, hx, hb]⟩

/-- **Disconnected is final** — partial: no sender `clone()` afterwards (`C08_fails_F4b`). From a
state in which every sender handle is gone and `r`'s mailbox is empty, whatever follows, the
mailbox stays empty and no receive form on `r` ever returns a value again. -/
theorem C08_disc_final_partial (s : St) (r : Nat) (hg : sendersGone s = true) (hb : bufOf s r = [])
    (post : List Op) (hpost : noSClone post = true) :
    sendersGone (exec s post) = true ∧ bufOf (exec s post) r = [] ∧
    ∀ op, recvTarget op = some r → (∀ h, op ≠ .sClone h) → ∀ t v, (step (exec s post) op).2 ≠ .msg t v := by
  have hs := noSClone_spec post hpost
  clear hpost
  induction post generalizing s with
  | nil =>
    refine ⟨hg, hb, ?_⟩
    intro op ht hop
    exact (FI_step s op r hop hg hb).2.2 ht
  | cons o post ih =>
    rw [exec_cons]
    obtain ⟨h1, h2, _⟩ := FI_step s o r (hs o (List.mem_cons_self ..)) hg hb
    exact ih _ h1 h2 (fun o' ho => hs o' (List.mem_cons_of_mem _ ho))

theorem disc_stable_exec (s : St) (ops : List Op) (r : Nat) (x : Rx) (hx : s.rxs[r]? = some x) (hd : x.disc = true) :
    ∃ y, (exec s ops).rxs[r]? = some y ∧ y.disc = true := by
  induction ops generalizing s x with
  | nil => exact ⟨x, hx, hd⟩
  | cons op ops ih =>
    rw [exec_cons]
    obtain ⟨y, hy, hyd⟩ := disc_stable_step s op r x hx hd
    exact ih _ y hy hyd

/-- **Disconnected is observed** — partial: the receiver holds at least one subscription when a
sender handle is closed or dropped (with an empty subscription set, or for a receiver cloned
afterwards, it is false: `C08_fails_F4c`, `C08_fails_F4c_clone`). Every program. From that step on, in every continuation, the mailbox carries the
disconnected flag, so any receive form that finds it empty answers Disconnected — never Empty,
Timeout, Pending or a park. -/
theorem C08_disc_observed_partial (cap : Nat) (k : Kind) (pre : List Op)
    (op : Op) (h : Nat) (hsd : IsShutdownOf (exec (init cap k) pre) op h)
    (r : Nat) (x : Rx) (hx : (exec (init cap k) pre).rxs[r]? = some x) (hl : x.live = true) (hs : x.subs ≠ [])
    (post : List Op) :
    ∃ y, (exec (init cap k) (pre ++ op :: post)).rxs[r]? = some y ∧ y.disc = true ∧
      (y.live = true → y.buf = [] → ∀ rop, recvTarget rop = some r →
        (step (exec (init cap k) (pre ++ op :: post)) rop).2 = .disc ∨
        (step (exec (init cap k) (pre ++ op :: post)) rop).2 = .none ∨
        (step (exec (init cap k) (pre ++ op :: post)) rop).2 = .invalid) := by
  obtain ⟨y0, hy0, hd0, _⟩ := shutdown_disc _ op h hsd (RI_exec cap k pre) r x hx hl hs
  rw [exec_append, exec_cons]
  obtain ⟨y, hy, hyd⟩ := disc_stable_exec _ post r y0 hy0 hd0
  exact ⟨y, hy, hyd, fun hyl hyb rop ht => recv_when_disc _ rop r y ht hy hyl hyb hyd⟩

/-- **C08, Disconnected clause, as far as it holds today**: for a program with a single sender
handle and a receiver that holds a subscription at shutdown, (1) Disconnected is answered only when every sender handle is
gone and the mailbox is drained, (2) after that the receiver never obtains a value, (3) a
receiver holding a subscription at shutdown does observe Disconnected once drained. -/
theorem C08_partial (cap : Nat) (k : Kind) (pre post : List Op) (op : Op) (h r : Nat) (x : Rx)
    (hS : noSClone (pre ++ op :: post) = true)
    (hsd : IsShutdownOf (exec (init cap k) pre) op h)
    (hx : (exec (init cap k) pre).rxs[r]? = some x) (hl : x.live = true) (hs : x.subs ≠ []) :
    let s := exec (init cap k) (pre ++ op :: post)
    (∀ rop, recvTarget rop = some r → ((step s rop).2 = .disc ∨ (step s rop).2 = .none) →
        (∀ y, s.rxs[r]? = some y → y.closed = false) → sendersGone s = true ∧ bufOf s r = []) ∧
    (sendersGone s = true → bufOf s r = [] → ∀ more, noSClone more = true → bufOf (exec s more) r = []) ∧
    (∃ y, s.rxs[r]? = some y ∧ y.disc = true ∧
        (y.live = true → y.buf = [] → ∀ rop, recvTarget rop = some r →
          (step s rop).2 = .disc ∨ (step s rop).2 = .none ∨ (step s rop).2 = .invalid)) := by
  refine ⟨?_, ?_, ?_⟩
  · intro rop ht hres hopen
    exact C08_disc_sound_partial cap k _ hS rop r ht hres hopen
  · intro hg hb more hm
    exact (C08_disc_final_partial _ r hg hb more hm).2.1
  · exact C08_disc_observed_partial cap k pre op h hsd r x hx hl hs post

/-- the disconnected flag of a mailbox is sticky (every program) -/
theorem C08_disc_sticky (s : St) (ops : List Op) (r : Nat) (x : Rx) (hx : s.rxs[r]? = some x) (hd : x.disc = true) :
    ∃ y, (exec s ops).rxs[r]? = some y ∧ y.disc = true := disc_stable_exec s ops r x hx hd

/-! ## Non-vacuity: the hypotheses are satisfiable and the conclusions say something -/

/-- routing: capacity 1, two publishes to a subscribed topic (the second finds the mailbox full),
one to a foreign topic; the receiver is owed exactly publish 0 and obtains it -/
example :
    let ops := [Op.subscribe 0 1, .send 0 1 5, .send 0 1 6, .send 0 2 7, .tryRecv 0]
    let g := grun (ginit 1 .sync) ops
    okSubs (init 1 .sync) ops = true ∧ g.pubs.length = 3 ∧ owed g.pubs 0 = [0] ∧ g.acc 0 = [0] ∧ g.got 0 = [(1, 5)] ∧
      bufOf g.st 0 = [] := by
  decide

/-- two receivers (a clone), async flavour, unsubscribe in between -/
example :
    let ops := [Op.subscribe 0 1, .rClone 0, .send 0 1 5, .unsubscribe 1 1, .send 0 1 6, .recv 0, .pollNext 1, .pollNext 1]
    let g := grun (ginit 2 .async) ops
    okSubs (init 2 .async) ops = true ∧ owed g.pubs 0 = [0, 1] ∧ owed g.pubs 1 = [0] ∧ g.got 0 = [(1, 5)] ∧ g.got 1 = [(1, 5)] ∧
      bufOf g.st 0 = [(1, 6)] ∧ results (init 2 .async) ops = [.unit, .handle 1, .ok, .unit, .ok, .msg 1 5, .msg 1 5, .pending] := by
  decide

/-- a receiver is closed (not dropped) while another stays: after the close it is owed nothing
more and obtains nothing more; what it was owed before is still handed out -/
example :
    let ops := [Op.subscribe 0 1, .rClone 0, .send 0 1 5, .rClose 0, .send 0 1 6, .tryRecv 0, .tryRecv 0, .tryRecv 1, .tryRecv 1]
    let g := grun (ginit 2 .sync) ops
    okSubs (init 2 .sync) ops = true ∧ owed g.pubs 0 = [0] ∧ owed g.pubs 1 = [0, 1] ∧
      results (init 2 .sync) ops = [.unit, .handle 1, .ok, .ok, .ok, .msg 1 5, .empty, .msg 1 5, .msg 1 6] := by
  decide

/-- Disconnected: single sender, subscribed receiver, shutdown, drain, Disconnected, and it stays -/
example :
    let pre := [Op.subscribe 0 1, .send 0 1 5]
    let post := [Op.tryRecv 0, .tryRecv 0, .send 0 1 6, .tryRecv 0]
    noSClone (pre ++ Op.sDrop 0 :: post) = true ∧
    (∃ tx, txLive (exec (init 2 .sync) pre) 0 = some tx ∧ tx.closed = false) ∧
    results (init 2 .sync) (pre ++ Op.sDrop 0 :: post) = [.unit, .ok, .unit, .msg 1 5, .disc, .invalid, .disc] := by
  refine ⟨by decide, ⟨{ kind := .sync, closed := false, live := true }, by decide, rfl⟩, by decide⟩

example : IsShutdownOf (exec (init 2 .sync) [Op.subscribe 0 1, .send 0 1 5]) (.sDrop 0) 0 :=
  ⟨Or.inr rfl, { kind := .sync, closed := false, live := true }, by decide, rfl⟩

/-! ## Witnesses: the full statement is false on the model (and on the code, see findings/C08_topic.case) -/

/-- F4a: dropping one sender clone makes the receiver report Disconnected although sender 0 is
alive (neither closed nor dropped). -/
theorem C08_fails_F4a :
    let ops := [Op.subscribe 0 1, .sClone 0, .sDrop 1, .tryRecv 0]
    (results (init 2 .sync) ops).getLast? = some Res.disc ∧ sendersGone (exec (init 2 .sync) ops) = false := by
  decide

/-- F4b: after that Disconnected the surviving sender still delivers: value after Disconnected. -/
theorem C08_fails_F4b :
    results (init 2 .sync) [Op.subscribe 0 1, .sClone 0, .sDrop 1, .tryRecv 0, .send 0 1 7, .tryRecv 0]
      = [.unit, .handle 1, .unit, .disc, .ok, .msg 1 7] := by
  decide

/-- F4c: every sender handle is gone and the mailbox is empty, yet a receiver without
subscriptions is told Empty / Timeout / would park — never Disconnected. -/
theorem C08_fails_F4c :
    let ops := [Op.sDrop 0, .tryRecv 0, .recvTimeout0 0, .recv 0]
    results (init 2 .sync) ops = [.unit, .empty, .timeout, .wouldBlock] ∧
    sendersGone (exec (init 2 .sync) ops) = true ∧ bufOf (exec (init 2 .sync) ops) 0 = [] := by
  decide

/-- F4c (clone): a receiver cloned after the last sender was closed — although it is subscribed —
and a clone made after the last sender was dropped never see Disconnected either. -/
theorem C08_fails_F4c_clone :
    results (init 2 .sync) [Op.subscribe 0 1, .sClose 0, .rClone 0, .tryRecv 0, .tryRecv 1, .sDrop 0, .rClone 0, .tryRecv 2]
      = [.unit, .ok, .handle 1, .disc, .empty, .unit, .handle 2, .empty] := by
  decide

/-- subscribe() is accepted on a closed handle: the closed handle is registered again and obtains
messages, and a clone inherits the subscription. -/
theorem C08_fails_close_clone :
    results (init 2 .sync) [Op.rClone 0, .rClose 0, .subscribe 0 1, .rClone 0, .send 0 1 5, .tryRecv 2, .tryRecv 0]
      = [.handle 1, .ok, .unit, .handle 2, .ok, .msg 1 5, .msg 1 5] := by
  decide

end Fv.Props.C08
