import Fv.Chan.Bcast
/-!
# C07 — broadcast spmc: each receiver gets every value once, in order, with backpressure (spec level)

On the sequential model Q of the broadcast channel (`Fv/Chan/Bcast.lean`, tied to `fibre::spmc` by the
sequential differential run of `chanh --flavours spmc,spmc_async`):

* `C07_recv_returns_next_segment` — a receive on a handle that was not lapped returns exactly the next
  contiguous segment of the sent sequence starting at its cursor and advances the cursor by that much:
  every value once, in send order (single, timed and batch forms);
* `C07_clone_starts_at_parent_cursor`;
* `C07_send_respects_slowest_receiver` — the sender writes only while `head − min registered cursor < cap`
  (`room`), so `BInv` (every registered cursor within `cap` of the head: no unread value is ever
  overwritten) is preserved by every send form;
* `C07_backpressure_invariant_partial` — `BInv` is preserved by every operation except the clone of an
  unregistered (closed) receiver; `C07_fails_stale_clone` is that witness (finding SpmcB-N1);
* `C07_disconnected_iff` — an open, not lapped receiver reports Disconnected exactly when the producer is
  gone and its cursor has reached the head;
* `C07_close_releases_backpressure` — closing / dropping a receiver removes its cursor from the minimum.
The interleaving part (cursor registration vs. producer minimum, park flag hand-shake) is the step-level
model `Fv/Chan/SpmcB.lean` of another module.
-/
namespace Fv.Props.C07
open Fv.Chan List

/-- every registered cursor is within `cap` of the head and none is ahead of it -/
def BInv (b : BSt) : Prop :=
  (b.rxs.map (·.idx)).Nodup ∧
  ∀ r ∈ b.rxs, r.cursor ≤ b.head ∧ (r.registered = true → b.head - r.cursor ≤ b.cap)

theorem slotIdx_of_not_lapped (b : BSt) (i : Nat) (h1 : i < b.head) (h2 : b.head - i ≤ b.cap) : b.slotIdx i = i := by
  unfold BroadcastSpec.slotIdx
  split
  · rfl
  · rename_i hc
    have : (b.head - 1 - i) / b.cap = 0 := Nat.div_eq_of_lt (by omega)
    simp [this]

theorem range_map_getD (l : List Val) (c k : Nat) (h : c + k ≤ l.length) :
    (List.range k).map (fun i => l.getD (c + i) 0) = (l.drop c).take k := by
  apply List.ext_getElem
  · simp; omega
  · intro i h1 h2
    simp at h1 h2
    simp [List.getD, List.getElem?_eq_getElem (show c + i < l.length by omega)]

/-- **Each receive returns the next contiguous segment of the sent sequence** (open handle, not
lapped): every value exactly once and in send order. -/
theorem C07_recv_returns_next_segment (b : BSt) (r : BHandle) (f : Form) (n : Nat) (hr : r.closed = false)
    (hle : r.cursor ≤ b.head) (hcap : b.head - r.cursor ≤ b.cap) :
    (bRecv b r f n).2.got = (b.sent.drop r.cursor).take (bRecv b r f n).2.got.length := by
  unfold bRecv
  split
  · simp only [hr, Bool.false_eq_true, if_false]
    unfold bRecvOne
    split
    · rename_i hrd
      simp only [BSt.readable, Bool.and_eq_true, decide_eq_true_eq] at hrd
      have : r.cursor < b.sent.length := hrd.1
      simp [List.getD, List.getElem?_eq_getElem this, List.take_one, List.head?_drop, List.getElem?_eq_getElem this]
    · split
      · simp
      · split <;> simp [blocksOut]
  · simp only [hr, Bool.false_eq_true, and_false, if_false]
    split
    · simp
    · unfold bRecvBatch
      split
      · split
        · simp
        · split <;> simp [blocksOut]
      · rename_i hlt
        simp only [Nat.not_le] at hlt
        have hk : min (b.head - r.cursor) n ≤ b.head - r.cursor := Nat.min_le_left _ _
        have hmap : (List.range (min (b.head - r.cursor) n)).map (fun i => b.sent.getD (b.slotIdx (r.cursor + i)) 0)
            = (List.range (min (b.head - r.cursor) n)).map (fun i => b.sent.getD (r.cursor + i) 0) := by
          apply List.map_congr_left
          intro i hi
          simp only [List.mem_range] at hi
          rw [slotIdx_of_not_lapped b (r.cursor + i) (by unfold BroadcastSpec.head at *; omega) (by omega)]
        simp only [hmap]
        rw [range_map_getD _ _ _ (by unfold BroadcastSpec.head at *; omega)]
        simp

/-- a clone starts at its parent's current position -/
theorem C07_clone_starts_at_parent_cursor (b : BSt) (h h' : Nat) (r : BHandle) (hf : bfind b h = some r)
    (hn : bfind b h' = none) :
    ∃ r', (stepB' b (.clone ⟨.rx, h⟩ ⟨.rx, h'⟩)).1.rxs = b.rxs ++ [r'] ∧ r'.cursor = r.cursor ∧ r'.idx = h' ∧
      r'.registered = true := by
  simp [stepB', stepB, hf, hn]

theorem minList_le_of_mem {l : List Nat} {d x : Nat} (h : x ∈ l) : minList l d ≤ x := by
  induction l with
  | nil => cases h
  | cons a r ih =>
    simp only [minList]
    rcases mem_cons.mp h with rfl | h
    · exact Nat.min_le_left _ _
    · exact Nat.le_trans (Nat.min_le_right _ _) (ih h)

theorem minList_le_default (l : List Nat) (d : Nat) : minList l d ≤ d := by
  induction l with
  | nil => exact Nat.le_refl _
  | cons a r ih => exact Nat.le_trans (Nat.min_le_right _ _) ih

/-- **The sender is held back by the slowest registered receiver**: after any send form every registered
cursor is still within `cap` of the head — no unread value was overwritten. -/
theorem C07_send_respects_slowest_receiver (b : BSt) (f : Form) (vs : List Val) (hi : BInv b) :
    BInv (bSend b f vs).1 := by
  have key : ∀ k, k ≤ b.room → ∀ b1 : BSt, b1.rxs = b.rxs → b1.sent = b.sent ++ vs.take k → b1.cap = b.cap → BInv b1 := by
    intro k hk b1 h1 h2 h3
    refine ⟨by rw [h1]; exact hi.1, fun r hr => ?_⟩
    rw [h1] at hr
    obtain ⟨a, c⟩ := hi.2 r hr
    have hh : b1.head = b.head + (vs.take k).length := by simp [BroadcastSpec.head, h2]
    refine ⟨by omega, fun hreg => ?_⟩
    have hc := c hreg
    have hmem : r.cursor ∈ b.cursors := by
      simp only [BroadcastSpec.cursors, mem_map, mem_filter]
      exact ⟨r, ⟨hr, hreg⟩, rfl⟩
    have hmin : b.minCursor ≤ r.cursor := minList_le_of_mem hmem
    have hlen : (vs.take k).length ≤ k := by simp [List.length_take]; omega
    unfold BroadcastSpec.room at hk
    rw [hh, h3]
    have hmh : b.minCursor ≤ b.head := minList_le_default _ _
    omega
  have same : ∀ b1 : BSt, b1.rxs = b.rxs → b1.sent = b.sent → b1.cap = b.cap → BInv b1 := by
    intro b1 h1 h2 h3
    exact key 0 (Nat.zero_le _) b1 h1 (by simp [h2]) h3
  unfold bSend
  simp only []
  split
  · exact same _ rfl rfl rfl
  · split
    · unfold bFailSend; split <;> exact same _ rfl rfl rfl
    · split
      · unfold bFailSend; split <;> exact same _ rfl rfl rfl
      · split
        · rename_i hk
          exact key (min b.room vs.length) (Nat.min_le_left _ _) _ rfl (by simp [BSt.write, hk]) rfl
        · split
          · exact key (min b.room vs.length) (Nat.min_le_left _ _) _ rfl (by simp [BSt.write]) rfl
          · split
            · exact key (min b.room vs.length) (Nat.min_le_left _ _) _ rfl (by simp [BSt.write]) rfl
            · unfold bFailSend
              split <;> exact key (min b.room vs.length) (Nat.min_le_left _ _) _ rfl (by simp [BSt.write]) rfl

/-- an open, not lapped receiver observes Disconnected exactly when the producer is gone and it has
drained its view -/
theorem C07_disconnected_iff (b : BSt) (r : BHandle) (hr : r.closed = false) (hle : r.cursor ≤ b.head)
    (hcap : b.head - r.cursor ≤ b.cap) :
    (bRecv b r .tryRecv 0).2.tag = .disconnected ↔ (b.producerGone = true ∧ r.cursor = b.head) := by
  unfold bRecv bRecvOne
  simp only [Form.isBatch, Bool.not_false, if_true, hr, Bool.false_eq_true, if_false]
  by_cases hlt : r.cursor < b.head
  · have : b.readable r.cursor = true := by simp [BSt.readable, hlt, hcap]
    simp [this]; omega
  · have hne : b.readable r.cursor = false := by simp [BSt.readable, hlt]
    have he : r.cursor = b.head := by omega
    simp only [hne, Bool.false_eq_true, if_false]
    by_cases hp : b.producerGone = true
    · simp [hp, he]
    · simp [hp]

/-- closing a receiver removes its cursor from the producer's minimum (and unblocks it): the cursors
the producer looks at afterwards are those of the *other* registered receivers -/
theorem C07_close_releases_backpressure (b : BSt) (i : Nat) (r : BHandle) (hf : bfind b i = some r)
    (hr : r.closed = false) :
    (stepB' b (.close ⟨.rx, i⟩)).2.tag = .ok ∧
      (stepB' b (.close ⟨.rx, i⟩)).1.cursors = ((b.rxs.filter (fun x => x.registered && x.idx != i)).map (·.cursor)) := by
  simp only [stepB', stepB, hf, hr, Bool.false_eq_true, if_false, true_and]
  simp only [BroadcastSpec.cursors, bset, List.filter_map, List.map_map]
  induction b.rxs with
  | nil => rfl
  | cons a l ih =>
    simp only [List.filter_cons, Function.comp]
    by_cases ha : a.idx = i
    · simp [ha, ih]
    · by_cases hreg : a.registered = true
      · simp [ha, hreg, ih]
      · simp [ha, hreg, ih]

def staleProg : List Op :=
  [.snd .trySend ⟨.tx, 0⟩ [1], .clone ⟨.rx, 0⟩ ⟨.rx, 1⟩, .close ⟨.rx, 0⟩,
   .rcv .tryRecv ⟨.rx, 1⟩ 0, .snd .trySend ⟨.tx, 0⟩ [2], .rcv .tryRecv ⟨.rx, 1⟩ 0,
   .snd .trySend ⟨.tx, 0⟩ [3], .rcv .tryRecv ⟨.rx, 1⟩ 0, .clone ⟨.rx, 0⟩ ⟨.rx, 2⟩]

/-- SpmcB-N1: `clone` of a closed (unregistered) receiver registers a cursor that is more than `cap`
behind the head: the backpressure invariant is broken (`len() > capacity()`), the next `try_send`
reports Full forever and the stale cursor can no longer read (its slot was overwritten). -/
theorem C07_fails_stale_clone :
    let b := runB (binit 2 false) staleProg
    ¬ BInv b ∧ b.head - b.minCursor = 3 ∧ (stepB' b (.snd .trySend ⟨.tx, 0⟩ [4])).2.tag = .full ∧
      (stepB' b (.rcv .tryRecv ⟨.rx, 2⟩ 0)).2.tag = .empty := by
  refine ⟨fun h => ?_, by decide, by decide, by decide⟩
  have := h.2 ⟨2, 0, false, true, false⟩ (by decide)
  exact absurd (this.2 rfl) (by decide)

theorem idx_unique' {l : List BHandle} (hn : (l.map (·.idx)).Nodup) {x r : BHandle} (hx : x ∈ l) (hr : r ∈ l)
    (he : x.idx = r.idx) : x = r := by
  induction l with
  | nil => cases hx
  | cons a l ih =>
    simp only [map_cons, nodup_cons, mem_map, not_exists, not_and] at hn
    rcases mem_cons.mp hx with rfl | hx' <;> rcases mem_cons.mp hr with rfl | hr'
    · rfl
    · exact absurd he.symm (hn.1 r hr')
    · exact absurd he (hn.1 x hx')
    · exact ih hn.2 hx' hr'

theorem BInv_map {b : BSt} (hi : BInv b) (g : BHandle → BHandle) (b1 : BSt) (h1 : b1.sent = b.sent)
    (h2 : b1.cap = b.cap) (h3 : b1.rxs = b.rxs.map g) (hidx : ∀ r, (g r).idx = r.idx)
    (hg : ∀ r ∈ b.rxs, r.cursor ≤ (g r).cursor ∧ (g r).cursor ≤ b.head ∧ ((g r).registered = true → r.registered = true)) :
    BInv b1 := by
  refine ⟨?_, fun r hr => ?_⟩
  · rw [h3, map_map]
    have : ((fun x : BHandle => x.idx) ∘ g) = (fun x => x.idx) := by funext r; exact hidx r
    rw [this]; exact hi.1
  · rw [h3, mem_map] at hr
    obtain ⟨r0, hr0, rfl⟩ := hr
    obtain ⟨a, c⟩ := hi.2 r0 hr0
    obtain ⟨g1, g2, g3⟩ := hg r0 hr0
    have hh : b1.head = b.head := by simp [BroadcastSpec.head, h1]
    rw [hh, h2]
    exact ⟨g2, fun h => by have := c (g3 h); omega⟩

theorem bfind_mem {b : BSt} {i r} (h : bfind b i = some r) : r ∈ b.rxs ∧ r.idx = i := by
  unfold bfind at h
  exact ⟨List.mem_of_find?_eq_some h, by simpa using List.find?_some h⟩

theorem bfind_none {b : BSt} {i} (h : bfind b i = none) : i ∉ b.rxs.map (·.idx) := by
  unfold bfind at h
  intro hm
  rw [mem_map] at hm
  obtain ⟨r, hr, rfl⟩ := hm
  have := List.find?_eq_none.mp h r hr
  simp at this

/-- advancing the cursor of `r` by `k ≤ head − cursor` keeps the invariant -/
theorem BInv_advance {b : BSt} (hi : BInv b) {r : BHandle} (hr : r ∈ b.rxs) (k : Nat) (hk : r.cursor + k ≤ b.head)
    (rc : List (Nat × Val)) :
    BInv ({ (bset b r.idx (fun x => { x with cursor := x.cursor + k })) with recvd := rc }) := by
  refine BInv_map hi (fun x => if x.idx = r.idx then { x with cursor := x.cursor + k } else x) _ rfl rfl rfl ?_ ?_
  · intro x; split <;> rfl
  · intro x hx
    obtain ⟨a, _⟩ := hi.2 x hx
    by_cases hxi : x.idx = r.idx
    · have : x = r := idx_unique' hi.1 hx hr hxi
      subst this
      simp only [if_true]
      exact ⟨by omega, hk, id⟩
    · simp only [hxi, if_false]; exact ⟨Nat.le_refl _, a, id⟩

theorem bRecv_inv (b : BSt) (r : BHandle) (f : Form) (n : Nat) (hi : BInv b) (hr : r ∈ b.rxs) :
    BInv (bRecv b r f n).1 := by
  unfold bRecv
  split
  · split
    · exact hi
    · unfold bRecvOne
      split
      · rename_i hrd
        simp only [BSt.readable, Bool.and_eq_true, decide_eq_true_eq] at hrd
        exact BInv_advance hi hr 1 (by omega) _
      · split
        · exact hi
        · split <;> exact hi
  · simp only []
    split
    · exact hi
    · split
      · exact hi
      · split
        · exact hi
        · unfold bRecvBatch
          split
          · split
            · exact hi
            · split <;> exact hi
          · rename_i hlt
            simp only [Nat.not_le] at hlt
            exact BInv_advance hi hr _ (by have := Nat.min_le_left (b.head - r.cursor) n; omega) _

/-- **`BInv` is preserved by every operation except the clone of an unregistered receiver**: the
sender never overwrites a value a registered receiver has not read yet. -/
theorem C07_backpressure_invariant_partial (b : BSt) (op : Op) (hi : BInv b)
    (hclone : ∀ h h' r, op = .clone ⟨.rx, h⟩ ⟨.rx, h'⟩ → bfind b h = some r → r.registered = true) :
    BInv (stepB' b op).1 := by
  have setInv : ∀ (i : Nat) (g : BHandle → BHandle), (∀ x, (g x).idx = x.idx) → (∀ x, (g x).cursor = x.cursor) →
      (∀ x, (g x).registered = true → x.registered = true) → BInv (bset b i g) := by
    intro i g g1 g2 g3
    refine BInv_map hi (fun x => if x.idx = i then g x else x) _ rfl rfl rfl ?_ ?_
    · intro x; split
      · exact g1 x
      · rfl
    · intro x hx
      obtain ⟨a, _⟩ := hi.2 x hx
      split
      · rw [g2]; exact ⟨Nat.le_refl _, a, g3 x⟩
      · exact ⟨Nat.le_refl _, a, id⟩
  cases op with
  | snd f h vs =>
    simp only [stepB', stepB]
    split
    · exact hi
    · split
      · exact hi
      · exact C07_send_respects_slowest_receiver b f vs hi
  | rcv f h n =>
    simp only [stepB', stepB]
    split
    · split <;> exact hi
    · split
      · exact hi
      · rename_i r hf
        split
        · exact hi
        · exact bRecv_inv b r f n hi (bfind_mem hf).1
  | clone h h' =>
    simp only [stepB', stepB]
    split
    · rename_i hs hs'
      split
      · exact hi
      · exact hi
      · rename_i r hn hf
        have hreg : r.registered = true := by
          refine hclone h.idx h'.idx r ?_ hf
          cases h; cases h'; simp_all
        obtain ⟨hm, _⟩ := bfind_mem hf
        obtain ⟨a, c⟩ := hi.2 r hm
        refine ⟨?_, fun x hx => ?_⟩
        · simp only [map_append, map_cons, map_nil]
          rw [nodup_append]
          refine ⟨hi.1, by simp, ?_⟩
          intro i hi1 j hj
          simp only [mem_singleton] at hj
          subst hj
          exact fun he => bfind_none hn (he ▸ hi1)
        · rcases mem_append.mp hx with hx | hx
          · exact hi.2 x hx
          · simp only [mem_singleton] at hx
            subst hx
            exact ⟨a, fun _ => c hreg⟩
    · split
      · exact hi
      · split
        · exact hi
        · split <;> exact hi
  | close h =>
    simp only [stepB', stepB]
    split
    · split
      · exact hi
      · split
        · exact hi
        · exact ⟨hi.1, hi.2⟩
    · split
      · exact hi
      · split
        · exact hi
        · exact setInv _ _ (fun _ => rfl) (fun _ => rfl) (fun _ h => by simp at h)
  | drop h =>
    simp only [stepB', stepB]
    split
    · split
      · exact hi
      · exact ⟨hi.1, hi.2⟩
    · split
      · exact hi
      · refine ⟨?_, fun x hx => ?_⟩
        · exact Nodup.sublist (Sublist.map _ (filter_sublist)) hi.1
        · exact hi.2 x (mem_filter.mp hx).1
  | probe p h =>
    simp only [stepB', stepB]
    split
    · split
      · exact hi
      · split <;> exact hi
    · split
      · exact hi
      · split <;> exact hi
  | toAsync h =>
    simp only [stepB', bConvert]
    split
    · split
      · exact hi
      · split
        · exact hi
        · exact ⟨hi.1, hi.2⟩
    · split
      · exact hi
      · split
        · exact hi
        · exact setInv _ _ (fun _ => rfl) (fun _ => rfl) (fun _ h => h)
  | toSync h =>
    simp only [stepB', bConvert]
    split
    · split
      · exact hi
      · split
        · exact hi
        · exact ⟨hi.1, hi.2⟩
    · split
      · exact hi
      · split
        · exact hi
        · exact setInv _ _ (fun _ => rfl) (fun _ => rfl) (fun _ h => h)

theorem C07_init_inv (cap : Nat) (a : Bool) : BInv (binit cap a) := by
  refine ⟨by simp [binit], fun r hr => ?_⟩
  simp only [binit, mem_singleton] at hr
  subst hr
  simp [BroadcastSpec.head, binit]

end Fv.Props.C07
