import Fv.Lemmas.TopicBW
/-!
C08 on model B (`Fv.Chan.TopicB`): `send` split into its snapshot and one step per visited
mailbox, interleaved arbitrarily with every other API call and with other publishers' sends.
All statements are for EVERY schedule (list of `BOp`) unless marked `_partial`.
The step structure of B is tied to the code by the real-thread stress monitors only.
-/
namespace Fv.Props.C08B
open Fv.Chan.Topic Fv.Chan.TopicB

/-- **Order and at most once under interleaving.** What receiver `m` obtained plus what is in its
mailbox is the image of `acc m`, a duplicate-free list of publish ids in which the ids of any one
publishing thread increase: per publisher in publish order, each publish at most once. (Across
publishers racing on different threads there is no publish order to respect.) -/
theorem C08B_order_once (cap : Nat) (k : Kind) (os : List BOp) (m : Nat) :
    let b := brun (binit cap k) os
    b.got m ++ bufOf b.q m = (b.acc m).map (msgAtB b.pubs) ∧
    (b.acc m).Pairwise (fun i j => tidAt b.pubs i = tidAt b.pubs j → i < j) ∧
    (b.acc m).Nodup ∧ (∀ i, i ∈ b.acc m → i < b.pubs.length) := by
  have h := BI_brun _ os (BI_binit cap k)
  exact ⟨h.hist m, h.order m, h.once m, h.bnd m⟩

/-- **Only subscribers, at the snapshot instant.** A publish enters mailbox `m` only if `m` was in
the topic's subscriber list when that `send` took its snapshot. -/
theorem C08B_window (cap : Nat) (k : Kind) (os : List BOp) (m i : Nat)
    (hi : i ∈ (brun (binit cap k) os).acc m) : m ∈ snapshotAt (brun (binit cap k) os).pubs i :=
  (BI_brun _ os (BI_binit cap k)).window m i hi

/-- … and, for schedules that never call `subscribe` on a closed handle, being in the list then means being
subscribed in the sense of the API contract at that instant of the publish call: never a message
of a topic the receiver was not subscribed to during the call. -/
theorem C08B_window_partial (cap : Nat) (k : Kind) (os : List BOp) (hos : OkSubsB (binit cap k) os) (m i : Nat)
    (hi : i ∈ (brun (binit cap k) os).acc m) : subscribedAt (brun (binit cap k) os).pubs i m = true :=
  (BW_brun _ os hos (BW_binit cap k)).acc m i hi

/-- **The snapshot misses nobody** (same restriction): a receiver subscribed when the snapshot is
taken is in it. -/
theorem C08B_snapshot_complete_partial (cap : Nat) (k : Kind) (os : List BOp) (hos : OkSubsB (binit cap k) os)
    (h : Nat) (x : Tx) (t : Topic) (m : Nat)
    (hx : txLive (brun (binit cap k) os).q h = some x)
    (hs : subscribedTo (brun (binit cap k) os).q m t = true) :
    m ∈ subsOf (brun (binit cap k) os).q t := by
  have hw := BW_brun _ os hos (BW_binit cap k)
  have := (routed_iff _ hw.ri (dispAlive_of_txLive _ h x hx) t m).2 hs
  exact (mem_subsOf _ t m).2 this.1

/-- **One visit.** When a send visits mailbox `m`: if the receiver is alive and the mailbox has
room the message is appended at the back, otherwise (mailbox full: drop-newest; receiver
dropped meanwhile) nothing changes; no other mailbox is touched. -/
theorem C08B_visit (b : BSt) (tid : Nat) (f : Flight) (m : Nat) (rest : List Nat)
    (hf : flightOf b.flights tid = some f) (hrem : f.rem = m :: rest) (hfree : b.held.contains m = false) (x : Nat) :
    bufOf (bdeliver b tid).q x =
      match b.q.rxs[x]? with
      | some y => if x = m ∧ y.live = true ∧ y.buf.length < y.cap then y.buf ++ [(f.t, f.v)] else y.buf
      | none => [] := by
  unfold bdeliver
  simp only [hf, hrem, hfree, Bool.false_eq_true, if_false]
  exact bufOf_visit b.q m (f.t, f.v) x

/-- **Publishing never blocks — provided no mailbox mutex is held across steps.** A send in
progress whose next mailbox is not locked is enabled: its own step either visits one more mailbox
(the list of mailboxes still to visit gets shorter by one) or returns; it never waits for a
receiver, whatever the mailboxes' occupancy. The hypothesis is exactly the release of the mutex
before parking (`C08B_lock_never_held`); without it the step is not enabled
(`C08B_blocked_while_lock_held`). -/
theorem C08B_send_progress (b : BSt) (tid : Nat) (f : Flight) (hf : flightOf b.flights tid = some f)
    (hfree : ∀ m rest, f.rem = m :: rest → b.held.contains m = false) :
    (f.rem = [] ∧ flightOf (bdeliver b tid).flights tid = none) ∨
    (∃ m rest, f.rem = m :: rest ∧ flightOf (bdeliver b tid).flights tid = some { f with rem := rest }) := by
  obtain ⟨hfm, hft⟩ := flightOf_some b.flights tid f hf
  unfold bdeliver
  simp only [hf]
  cases hrem : f.rem with
  | nil =>
    left; refine ⟨rfl, ?_⟩
    simp only [flightOf]
    rw [List.find?_eq_none]
    intro g hg
    have := (List.mem_filter.1 hg).2
    simpa using this
  | cons m rest =>
    right; refine ⟨m, rest, rfl, ?_⟩
    simp only [hfree m rest hrem, Bool.false_eq_true, if_false]
    simp only [flightOf]
    rw [List.find?_map]
    have hfind : b.flights.find? (fun g => g.tid == tid) = some f := hf
    have hcomp : ((fun g : Flight => g.tid == tid) ∘ fun g => if (g.tid == tid) = true then { g with rem := rest } else g)
        = fun g => g.tid == tid := by
      funext g; simp only [Function.comp]; split <;> rfl
    rw [hcomp, hfind]
    simp [hft]

/-- the code's steps never leave a mailbox mutex held: a receiver unlocks before it parks -/
theorem C08B_lock_never_held (b : BSt) (os : List BOp) (hcode : ∀ o, o ∈ os → o.isCode = true) (h0 : b.held = []) :
    (brun b os).held = [] := by
  induction os generalizing b with
  | nil => exact h0
  | cons o os ih =>
    refine ih _ (fun o' h' => hcode o' (List.mem_cons_of_mem _ h')) ?_
    have hc := hcode o (List.mem_cons_self ..)
    cases o with
    | api op => simp only [bstep, bapi]; split <;> exact h0
    | begin tid h t v =>
      simp only [bstep, bbegin]; split
      · exact h0
      · split
        · exact h0
        · split <;> exact h0
    | deliver tid =>
      simp only [bstep, bdeliver]; split
      · exact h0
      · split
        · exact h0
        · split <;> exact h0
    | park r =>
      simp only [bstep, bpark]; split
      · exact h0
      · split
        · simpa using h0
        · exact h0
    | wake r => simp [bstep, bwake, h0]
    | parkHolding r => simp [BOp.isCode] at hc

/-- hence, on every schedule of the code's steps, a send in progress is always enabled -/
theorem C08B_send_progress_code (cap : Nat) (k : Kind) (os : List BOp) (hcode : ∀ o, o ∈ os → o.isCode = true)
    (tid : Nat) (f : Flight) (hf : flightOf (brun (binit cap k) os).flights tid = some f) :
    (f.rem = [] ∧ flightOf (bdeliver (brun (binit cap k) os) tid).flights tid = none) ∨
    (∃ m rest, f.rem = m :: rest ∧
      flightOf (bdeliver (brun (binit cap k) os) tid).flights tid = some { f with rem := rest }) := by
  apply C08B_send_progress _ tid f hf
  intro m rest _
  rw [C08B_lock_never_held (binit cap k) os hcode rfl]; rfl

/-- … and it does depend on that release: while the mutex of the next mailbox is held (a
receiver parked WITHOUT unlocking — not a step of the code, but what the code becomes if the
`drop(guard)` before `park` is lost), the send's step changes nothing: the publisher waits. -/
theorem C08B_blocked_while_lock_held (b : BSt) (tid : Nat) (f : Flight) (m : Nat) (rest : List Nat)
    (hf : flightOf b.flights tid = some f) (hrem : f.rem = m :: rest) (hheld : b.held.contains m = true) :
    bdeliver b tid = b := by
  unfold bdeliver
  simp only [hf, hrem, hheld, if_true]

/-- concrete: receiver 0 parks holding its mutex; the send stays in flight however often the
publisher is scheduled, until the receiver wakes -/
theorem C08B_blocked_witness :
    let os := [BOp.api (.subscribe 0 1), .parkHolding 0, .begin 7 0 1 10, .deliver 7, .deliver 7, .deliver 7]
    (brun (binit 2 .sync) os).flights = [{ tid := 7, pid := 0, t := 1, v := 10, rem := [0] }] ∧
    bufOf (brun (binit 2 .sync) os).q 0 = [] ∧
    (brun (binit 2 .sync) (os ++ [.wake 0, .deliver 7, .deliver 7])).flights = [] ∧
    bufOf (brun (binit 2 .sync) (os ++ [.wake 0, .deliver 7, .deliver 7])).q 0 = [(1, 10)] := by
  decide

/-- other threads' steps do not touch a send in progress -/
theorem C08B_flight_untouched (b : BSt) (o : BOp) (tid : Nat) (f : Flight) (hf : flightOf b.flights tid = some f)
    (ho : o ≠ .deliver tid) :
    flightOf (bstep b o).flights tid = some f := by
  obtain ⟨hfm, hft⟩ := flightOf_some b.flights tid f hf
  cases o with
  | api op => simp only [bstep, bapi]; split <;> exact hf
  | begin tid' h t v =>
    simp only [bstep, bbegin]
    cases hfo : flightOf b.flights tid' with
    | some g => exact hf
    | none =>
      simp only []
      cases txLive b.q h with
      | none => exact hf
      | some x =>
        simp only []
        split
        · exact hf
        · simp only [flightOf, List.find?_append]
          have : b.flights.find? (fun g => g.tid == tid) = some f := hf
          rw [this]; rfl
  | park r => simp only [bstep, bpark]; split <;> (try exact hf); split <;> exact hf
  | wake r => exact hf
  | parkHolding r => simp only [bstep, bpark]; split <;> (try exact hf); split <;> exact hf
  | deliver tid' =>
    have hne : tid' ≠ tid := fun he => ho (by rw [he])
    simp only [bstep, bdeliver]
    cases hfo : flightOf b.flights tid' with
    | none => exact hf
    | some g =>
      simp only []
      cases g.rem with
      | nil =>
        simp only [flightOf]
        have : b.flights.find? (fun g => g.tid == tid) = some f := hf
        rw [List.find?_filter]
        have hcong : (fun a : Flight => decide ((a.tid != tid') = true ∧ (a.tid == tid) = true)) = fun a => a.tid == tid := by
          funext a
          by_cases ha : a.tid = tid
          · simp [ha, Ne.symm hne]
          · simp [ha]
        rw [hcong]; exact this
      | cons m rest =>
        simp only []
        split
        · exact hf
        simp only [flightOf, List.find?_map]
        have hcomp : ((fun g : Flight => g.tid == tid) ∘ fun g => if (g.tid == tid') = true then { g with rem := rest } else g)
            = fun g => g.tid == tid := by
          funext g; simp only [Function.comp]; split <;> rfl
        have : b.flights.find? (fun g => g.tid == tid) = some f := hf
        rw [hcomp, this]
        have hft' : ¬ f.tid = tid' := by rw [hft]; exact Ne.symm hne
        simp [hft']

/-- executable form of `OkSubsB` for concrete schedules -/
def okSubsB : BSt → List BOp → Bool
  | _, [] => true
  | b, o :: os =>
    (match o with
     | .api (.subscribe r _) => (match b.q.rxs[r]? with | some x => !x.closed | none => true)
     | _ => true) && okSubsB (bstep b o) os

theorem okSubsB_spec (b : BSt) (os : List BOp) (h : okSubsB b os = true) : OkSubsB b os := by
  induction os generalizing b with
  | nil => trivial
  | cons o os ih =>
    simp only [okSubsB, Bool.and_eq_true] at h
    refine ⟨?_, ih _ h.2⟩
    intro op he r t x hop hx
    subst he; subst hop
    simpa [hx] using h.1

/-! ## Non-vacuity: two publisher threads racing with a subscriber, a closing receiver and a receiver -/

example :
    let os := [BOp.api (.subscribe 0 1), .api (.sClone 0), .api (.rClone 0),
               .begin 7 0 1 10, .begin 8 1 1 20,          -- both sends have taken their snapshot [0, 1]
               .deliver 8, .deliver 7,                    -- thread 8 reaches mailbox 0 first
               .api (.rClose 1),                          -- receiver 1 closes while both sends are in flight
               .begin 7 0 1 11,                           -- refused: thread 7 is still inside its send
               .deliver 7, .deliver 8, .deliver 7, .deliver 8,   -- both visit mailbox 1 (still alive: delivered) and return
               .begin 7 0 1 12, .deliver 7, .deliver 7,   -- after the close: snapshot [0] only
               .api (.tryRecv 0), .api (.tryRecv 0), .api (.tryRecv 0), .api (.tryRecv 1)]
    let b := brun (binit 4 .sync) os
    okSubsB (binit 4 .sync) os = true ∧ b.pubs.length = 3 ∧ b.acc 0 = [1, 0, 2] ∧ b.acc 1 = [0, 1] ∧
      b.got 0 = [(1, 20), (1, 10), (1, 12)] ∧ b.got 1 = [(1, 10)] ∧ b.flights = [] := by
  decide

end Fv.Props.C08B
