import Fv.Lemmas.Mpsc3BSim
import Fv.Lemmas.Mpsc3BCoreThm
/-!
# Mpsc3B — step-level theorems for fibre's bounded MPSC v3 (feeds C01, C02, C03, C04, C05, C06, C09)

Model: `Fv.Chan.Mpsc3B` (one visible action per step; N producers, one consumer at a time;
capacity, publish cadence K, chunk geometry, spin budgets, programs and the number of threads are
parameters).  Every theorem below quantifies over all of them and over every interleaving
(`Reach c p s`: any state reachable by any schedule of visible actions, calls, returns and spurious
park returns).

Ghost history: `log` (ticket ↦ token written SET), `recvd` (tokens drained, in order),
token = (producer thread, per-producer sequence number, payload).
-/
namespace Fv.Props.Mpsc3B
open Fv.Chan.Mpsc3B

/-- the values currently buffered: tokens in SET slots from the consumer position to the tail, in ticket order -/
def bufferedOf (s : State) : List Tok := buffered s.slot s.hPos (s.gtail - s.hPos)

/-- every token ever written SET, in ticket order -/
def loggedOf (s : State) : List Tok := collect s.log s.gtail

/-- thread `u` holds ticket `t` claimed and not yet written -/
def Claims (s : State) (u : Tid) (t : Nat) : Prop := ∃ ch, claimOf (s.th u) = some ⟨t, ch⟩

/-- **P1 (slot state partition by position).** Below the consumer position every slot is EMPTY
(drained); at or above the ticket counter every slot is EMPTY and unclaimed; in between a slot is
EMPTY and claimed by exactly one producer, or SET, or SKIP. -/
theorem P1_partition {c p s} (h : Reach c p s) (t : Nat) :
    (t < s.hPos → s.slot t = .empty) ∧
    (s.gtail ≤ t → s.slot t = .empty ∧ ∀ u, ¬ Claims s u t) ∧
    (s.hPos ≤ t → t < s.gtail →
      (s.slot t = .empty ∧ (∃ u, Claims s u t) ∧ ∀ u v, Claims s u t → Claims s v t → u = v) ∨
      (∃ x, s.slot t = .set x) ∨ s.slot t = .skip) := by
  have hi := cinv_reach h
  refine ⟨hi.below t, fun hg => ⟨hi.above t hg, ?_⟩, fun h1 h2 => ?_⟩
  · rintro u ⟨ch, hu⟩
    have := (hi.claimRange u t ch hu).2.1
    exact absurd this (by simp only [absC]; omega)
  · cases hs : s.slot t with
    | empty =>
      left
      refine ⟨rfl, ?_, ?_⟩
      · obtain ⟨u, ch, hu⟩ := hi.claimed t h1 h2 hs
        exact ⟨u, ch, hu⟩
      · rintro u v ⟨c1, h1⟩ ⟨c2, h2⟩
        exact hi.claimUniq u v t c1 c2 h1 h2
    | set x => right; left; exact ⟨x, rfl⟩
    | skip => right; right; rfl

/-- A claimed, unwritten ticket lies in the live window and its slot is still EMPTY. -/
theorem claim_in_window {c p s} (h : Reach c p s) {u t} (hc : Claims s u t) :
    s.hPos ≤ t ∧ t < s.gtail ∧ s.slot t = .empty := by
  obtain ⟨ch, hu⟩ := hc
  exact (cinv_reach h).claimRange u t ch hu

/-- counters: `progress ≤ drained ≤ pos ≤ g_tail`, and the consumer's private `unpublished` is
exactly the unpublished part of its position (outside `publish_progress`). -/
theorem counters_ordered {c p s} (h : Reach c p s) :
    s.progress ≤ s.drained ∧ s.drained ≤ s.hPos ∧ s.hPos ≤ s.gtail ∧ s.progress + s.hUnpub ≤ s.hPos := by
  have hi := cinv_reach h
  refine ⟨hi.ord1, hi.ord2, hi.ord3, ?_⟩
  have := hi.unpubEq
  simp only [absC] at this; omega

/-- **P2.** A SET slot lies within `cap` tickets of the consumer position … -/
theorem P2_set_window {c p s} (h : Reach c p s) {t x} (hs : s.slot t = .set x) : s.hPos ≤ t ∧ t < s.hPos + c.cap := by
  have hi := cinv_reach h
  refine ⟨?_, hi.capSet t x hs⟩
  rcases Nat.lt_or_ge t s.hPos with hlt | hge
  · have := hi.below t hlt; simp only [absC] at this; rw [hs] at this; simp at this
  · exact hge

/-- … **hence capacity is never exceeded (C03)**: at most `cap` values are buffered, in every
reachable state, for every number of concurrently sending producers. -/
theorem C03_capacity_never_exceeded {c p s} (h : Reach c p s) : (bufferedOf s).length ≤ c.cap :=
  (cinv_reach h).buffered_le _

/-- **P3 / C01 (sequence equation).** Everything ever written SET, in ticket order, is exactly what
has been received (in receive order) followed by what is still buffered: no value is lost, none is
invented, none is reordered. -/
theorem C01_logged_eq_received_then_buffered {c p s} (h : Reach c p s) : loggedOf s = s.recvd ++ bufferedOf s := by
  have hi := cinv_reach h
  have := hi.seq_eq (s.gtail - s.hPos)
  have h3 := hi.ord3
  simp only [absC] at this h3
  unfold loggedOf bufferedOf
  rw [← this]; congr 1; omega

/-- **C01 / C09 (exactly once).** No token occurs twice among the received and buffered values. -/
theorem C01_exactly_once {c p s} (h : Reach c p s) : (s.recvd ++ bufferedOf s).Nodup := by
  rw [← C01_logged_eq_received_then_buffered h]
  exact (cinv_reach h).collect_nodup _

/-- **C02 (per-producer FIFO).** Among received-then-buffered values, two tokens of the same producer
appear in the order of their per-producer sequence numbers (= the order of that producer's successful
sends: a producer's tickets increase along its program). -/
theorem C02_per_producer_fifo {c p s} (h : Reach c p s) :
    (s.recvd ++ bufferedOf s).Pairwise (fun a b => a.p = b.p → a.k < b.k) := by
  rw [← C01_logged_eq_received_then_buffered h]
  exact ((cinv_reach h).collect_pairwise _).imp (fun h => h.2)

/-- the received sequence alone: per-producer FIFO and no duplicates -/
theorem C02_received_fifo {c p s} (h : Reach c p s) :
    s.recvd.Pairwise (fun a b => a ≠ b ∧ (a.p = b.p → a.k < b.k)) := by
  have hi := cinv_reach h
  have := hi.collect_pairwise s.hPos
  have e := hi.recvdEq
  simp only [absC] at this e
  rw [e]; exact this

/-! ## Reachability of concrete schedules (for witnesses and non-vacuity) -/

theorem reach_runT {c p} : ∀ (tr : List Tid) (s0 s : State), Reach c p s0 → runT c s0 tr = some s → Reach c p s := by
  intro tr
  induction tr with
  | nil => intro s0 s h0 h; simp [runT] at h; subst h; exact h0
  | cons t rest ih =>
    intro s0 s h0 h
    simp only [runT, Option.bind] at h
    split at h
    · simp at h
    · rename_i s1 hs1; exact ih s1 s (Reach.step h0 hs1) h

/-- no thread below `N` has an enabled step other than a spurious park return (computable form) -/
def quiescentB (c : Cfg) (s : State) (N : Nat) : Bool :=
  (List.range N).all (fun t => (step c s t .act).isNone && (step c s t .call).isNone && (step c s t .ret).isNone)

def Quiescent (c : Cfg) (s : State) (N : Nat) : Prop :=
  ∀ t, t < N → ∀ l, l ≠ Label.spurious → step c s t l = none

theorem quiescentB_spec {c s N} (h : quiescentB c s N = true) : Quiescent c s N := by
  intro t ht l hl
  simp only [quiescentB, List.all_eq_true, List.mem_range, Bool.and_eq_true, Option.isNone_iff_eq_none] at h
  obtain ⟨⟨h1, h2⟩, h3⟩ := h t ht
  cases l
  · exact h1
  · exact h2
  · exact h3
  · exact absurd rfl hl

/-! ## The sender-side wake: where the code deviates (F14, F2) -/

/-- a thread is parked inside a blocking `send` with no wake-up token pending -/
def SendBlocked (s : State) (t : Tid) : Prop := (s.th t).pc = .pkPark ∧ s.token t = false

/-- C05, sender clause, at full strength (safety form): in a state where no thread can move any more,
no thread is still parked in `send` while there is room in the channel. -/
def C05_sender_statement : Prop :=
  ∀ (c : Cfg) (p : Tid → List Op) (N : Nat) (s : State), Reach c p s → Quiescent c s N →
    ∀ t, t < N → SendBlocked s t → c.cap ≤ (bufferedOf s).length

def cfgF14 : Cfg := { cap := 2, k0 := 2, chunkCap := 4, nChunks := 5, spinLimit := 1 }
def progF14 : Tid → List Op :=
  fun t => if t = 1 then [.send 0 1, .send 0 2, .send 0 3] else if t = 2 then [.recv] else []
/-- thread 1 runs until it parks in its third `send` (cap 2 is full), then thread 2 runs one `recv` -/
def schedF14 : List Tid := List.replicate 47 1 ++ List.replicate 9 2

set_option maxRecDepth 100000 in
theorem F14_trace :
    (runT cfgF14 (init cfgF14 progF14) schedF14).map
      (fun s => ((s.th 1).pc, s.token 1, (bufferedOf s).length, (s.th 2).res, s.hUnpub, quiescentB cfgF14 s 3)) =
    some (.pkPark, false, 1, .okv 1, 1, true) := by decide

/-- **F14 (known finding), C05 is false of the code.** cap = 2 (K = 2): a producer fills the channel
and parks in a third `send`; the consumer's `recv` returns the first value but does NOT publish the
freed credit (`unpublished = 1 < K`) and wakes nobody.  Every thread is now finished or parked: the
sender waits forever although only 1 of 2 slots is occupied.
Replay: `/verif/findings/Mpsc3B_F14.case` (`chanh run`; monitor `mpsc_b:send:blocked-with-space-available`). -/
theorem C05_fails_F14 : ¬ C05_sender_statement := by
  intro hst
  cases hr : runT cfgF14 (init cfgF14 progF14) schedF14 with
  | none => have := F14_trace; rw [hr] at this; simp at this
  | some s =>
    have h := F14_trace; rw [hr] at h
    simp only [Option.map_some, Option.some.injEq, Prod.mk.injEq] at h
    obtain ⟨h1, h2, h3, -, -, h6⟩ := h
    have := hst cfgF14 progF14 3 s (reach_runT _ _ _ Reach.init hr) (quiescentB_spec h6) 1 (by omega) ⟨h1, h2⟩
    rw [h3] at this; simp [cfgF14] at this

/-- a manually polled `SendFuture` returned `Pending` (it keeps its item and its registration) and
its waker has not been invoked since -/
def SendFutUnwoken (s : State) (f : Fid) : Prop :=
  (s.fut f).kind = .send ∧ (s.fut f).item.isSome = true ∧ (s.fut f).myId.isSome = true ∧ s.wakes f = 0

/-- C06, sender clause (safety form, with "able to complete" read GENEROUSLY as: the PUBLISHED send
window `g_tail - progress < cap` is open): in a state where no thread can move, no pending send future
is left un-woken while the window is open. -/
def C06_sender_statement : Prop :=
  ∀ (c : Cfg) (p : Tid → List Op) (N : Nat) (s : State), Reach c p s → Quiescent c s N →
    ∀ f, SendFutUnwoken s f → c.cap ≤ s.gtail - s.progress

def cfgF2 : Cfg := { cap := 1, k0 := 1, chunkCap := 4, nChunks := 5, spinLimit := 1 }
def progF2 : Tid → List Op :=
  fun t => if t = 1 then [.trySend 0 1, .futSend 0 0 2, .poll 0, .futSend 1 0 3, .poll 1, .tryRecv, .dropFut 0, .tryRecv] else []

set_option maxRecDepth 100000 in
theorem F2_trace_a :
    (runT cfgF2 (init cfgF2 progF2) (List.replicate 76 1)).map
      (fun s => ((s.fut 1).kind, (s.fut 1).item, (s.fut 1).myId, s.wakes 1)) = some (.send, some 3, some 1, 0) := by decide

set_option maxRecDepth 100000 in
theorem F2_trace_b :
    (runT cfgF2 (init cfgF2 progF2) (List.replicate 76 1)).map
      (fun s => (s.gtail, s.progress, (bufferedOf s).length, (s.th 1).res, quiescentB cfgF2 s 2)) =
    some (1, 1, 0, .errEmpty, true) := by decide

/-- **F2 (known finding), C06 is false of the code even for the published window.** Async, cap = 1
(K = 1), one thread polling by hand: `try_send` fills the channel; send futures f0 and f1 both return
Pending (registered in that order); `try_recv` drains the value and publishes progress, the drip
wakes exactly ONE waiter, f0; f0 is dropped (cancelled) — the wake it consumed is not forwarded.
f1 stays Pending and un-woken although the channel is empty and the published window is open;
a further `try_recv` (Empty) does not publish again.
Replay: `/verif/findings/Mpsc3B_F2.case`. -/
theorem C06_fails_F2_mpsc3 : ¬ C06_sender_statement := by
  intro hst
  cases hr : runT cfgF2 (init cfgF2 progF2) (List.replicate 76 1) with
  | none => have := F2_trace_a; rw [hr] at this; simp at this
  | some s =>
    have ha := F2_trace_a; rw [hr] at ha
    have hb := F2_trace_b; rw [hr] at hb
    simp only [Option.map_some, Option.some.injEq, Prod.mk.injEq] at ha hb
    obtain ⟨h1, h2, h3, h4⟩ := ha
    obtain ⟨h5, h6, -, -, h9⟩ := hb
    have := hst cfgF2 progF2 2 s (reach_runT _ _ _ Reach.init hr) (quiescentB_spec h9) 1
      ⟨h1, by rw [h2]; rfl, by rw [h3]; rfl, h4⟩
    rw [h5, h6] at this; simp [cfgF2] at this

end Fv.Props.Mpsc3B
