import Fv.Lemmas.SyncMutexQuiet
import Fv.Lemmas.SyncRwProps
import Fv.Lemmas.SyncRwWakeT
import Fv.Lemmas.SyncRwWakeW
/-!
# C10 — hybrid locks: mutual exclusion, wake on release, cancel-safe acquisition

Models (B level, one visible action per step, all programs / thread counts / interleavings):
`Fv/Sync/WaitList.lean`, `Fv/Sync/Mutex.lean` (`fibre::sync::HybridMutex`), `Fv/Sync/RwLock.lean`
(`HybridRwLock`).  `Mutex.Reach cfg s`: `s` is reachable from an initial state (any programs) by
any interleaving of thread steps (`Mutex.next`), for any spin / poll budgets `cfg`.

Theorems here (helpers in `Fv/Lemmas/Sync*.lean`):
* (a) `mutex_mutual_exclusion`, `mutex_locked_iff_held` — a holder excludes every other holder;
* (b) `mutex_try_lock_bounded` — `try_lock` is straight-line: ≤ 3 own steps, never parks/spins;
* (c) `mutex_no_lost_wakeup` — NO LOST WAKEUP, safety form: whenever a thread is parked without a
  token (or a polled future is Pending with no wake recorded) and the lock is free, the queue is
  non-empty and its head is covered: a `wake_next` is in flight (a releaser that read `HAS_QUEUED`,
  or a dropping `WOKEN` future before its forwarding call), or the head is `WOKEN` with an awake
  owner / an undelivered handle, or the head's owner is in its own re-check phase; corollary
  `mutex_quiescent_no_blocked_waiter`; `mutex_woken_node_accounted` (wake conservation);
* (d) `mutex_list_wf`, `mutex_queued_node_has_live_owner`, `mutex_list_lock_exclusive` — the wait
  list is exactly the set of linked nodes (no duplicates, counters exact) in every reachable
  state, whatever futures are dropped and whenever; every queued node belongs to a waiter that is
  still inside its acquisition (thread in `lock_slow`, or a live future whose node is allocated),
  so no wake ever touches a freed node; list critical sections exclude each other.

HybridRwLock (`RwLock.Reach cfg s`, same conventions):
* (a) `rwlock_mutual_exclusion`, `rwlock_reader_count`; (b) `rwlock_try_bounded`;
* (c) `rwlock_no_lost_wakeup` — NO LOST WAKEUP, safety form: whenever the lock is free (no writer, no
  reader) and the queue is non-empty, a `wake_waiters` is in flight (a releaser that read
  `HAS_QUEUED`, or a dropping `WOKEN` future before its forwarding call), or a covering node is
  queued: a writer node (any node if no writer is queued) that is `WOKEN` with an awake owner / an
  undelivered handle, or whose owner is in its own acquisition / re-check phase;
  `rwlock_blocked_waiter_covered` — the node of every blocked waiter is queued, or `WOKEN` with its
  handle in flight, or unlinked by a waker that is about to mark it; `rwlock_woken_node_accounted`
  (wake conservation, also for reader nodes the waker has already unlinked);
  `rwlock_drop_woken_forwards`; corollary `rwlock_quiescent_no_blocked_waiter`;
* (d) `rwlock_list_wf`, `rwlock_queued_node_has_live_owner`;
* (e) writer preference: `rwlock_writer_pending_iff_writer_queued`, `rwlock_has_queued_iff_nonempty`
  (no list critical section open), `rwlock_reader_cas_needs_flag_clear`, `rwlock_writer_gate`, and,
  in EVERY reachable state, `rwlock_writer_queued_pending` (a queued writer node implies
  `WRITER_PENDING`, except during the one step between that writer's `link_back` and its
  `fetch_or`) and `rwlock_writer_preference` (hence no read-acquiring CAS succeeds meanwhile).
The wake invariant `RwLock.WInv` (14 conjuncts, `Fv/Lemmas/SyncRwWake*.lean`) is inductive:
`RwLock.WInv_reach`.
-/
namespace Fv.Props.C10
open Fv.Sync

section MutexTheorems
open Fv.Sync.Mutex

/-! ## HybridMutex -/

/-- (a) MUTUAL EXCLUSION: in every reachable state a guard holder excludes every other holder. -/
theorem mutex_mutual_exclusion {cfg : Cfg} {s : State} (h : Reach cfg s) :
    ∀ g ∈ s.holders, s.holders = [g] := by
  have hi := Inv_reach h
  intro g hg
  cases hl : s.word.locked
  · rw [hi.freeEmpty hl] at hg; cases hg
  · obtain ⟨u, hu⟩ := hi.lockedHeld hl
    rw [hu] at hg ⊢; simp at hg; rw [hg]

/-- (a) the `LOCKED` bit is set exactly while a guard exists (ghost `holders`: added by the
acquiring CAS, removed by the releasing `fetch_and`). -/
theorem mutex_locked_iff_held {cfg : Cfg} {s : State} (h : Reach cfg s) :
    s.word.locked = true ↔ s.holders ≠ [] := by
  have hi := Inv_reach h
  constructor
  · intro hl; obtain ⟨u, hu⟩ := hi.lockedHeld hl; rw [hu]; simp
  · intro hne
    cases hl : s.word.locked
    · exact absurd (hi.freeEmpty hl) hne
    · rfl

/-- own-step budget of a `try_lock` in progress (also: a pending `ret`) -/
def tryRank : Pc → Nat
  | .taLoad .tryLock => 3
  | .taCas .tryLock => 2
  | .ret _ => 1
  | _ => 0

/-- (b) `try_lock` never blocks: after `call try_lock` the thread is at rank 3; every own step
from a positive rank is a load, a CAS or the return (never `park`, `yield`, `spin`) and strictly
decreases the rank; steps of other threads do not touch it.  Hence `try_lock` returns after at
most 3 further own steps, in every interleaving. -/
theorem mutex_try_lock_bounded {cfg : Cfg} {s s' : State} {t : Tid} {l : Lbl}
    (h : (l, s') ∈ next cfg s t) :
    (l = .call .tryLock → tryRank (s'.th t).pc = 3)
    ∧ (0 < tryRank (s.th t).pc →
        l ≠ .park ∧ l ≠ .parkSpur ∧ l ≠ .yield ∧ l ≠ .spin ∧ tryRank (s'.th t).pc < tryRank (s.th t).pc)
    ∧ (∀ u, u ≠ t → s'.th u = s.th u) := by
  have hs := step_of_mem h
  refine ⟨?_, ?_, step_th_other hs⟩
  · intro hl
    cases hs <;> simp_all [callStep, setTh, tryRank]
  · intro hr
    cases hs
    case taLoadLocked k hpc hl => cases k <;> simp_all [tryRank, taFail, withPc, setTh]
    case taLoadFree k hpc hl => cases k <;> simp_all [tryRank, setTh]
    case taCasOk k hpc he => cases k <;> simp_all [tryRank, taSucc, withPc, setTh]
    case taCasFail k hpc he => cases k <;> simp_all [tryRank, taFail, withPc, setTh]
    all_goals simp_all [tryRank]

/-- (d) LIST INVARIANT: in every reachable state the FIFO holds exactly the linked nodes, without
repetition, and `len` / `writers` are exact — across every future drop, before or after a wake. -/
theorem mutex_list_wf {cfg : Cfg} {s : State} (h : Reach cfg s) : s.wl.WF := (Inv_reach h).wf

/-- (d) NO DANGLING NODE: a queued stack node belongs to a thread that is still inside
`lock_slow` (its frame is alive); a queued heap node belongs to a future that is alive and has
its node allocated.  (A dropped, completed or never-queued future has no node in the list.) -/
theorem mutex_queued_node_has_live_owner {cfg : Cfg} {s : State} (h : Reach cfg s) :
    ∀ n ∈ s.wl.queue,
      match n with
      | .thr t => (s.th t).cur = none ∧ slowL (s.th t).pc = true
      | .fut f => (s.fut f).phase = .startedNode := by
  have hi := Inv_reach h
  intro n hn
  have hl := (hi.wf.linked n).2 hn
  cases n with
  | thr t => exact hi.thrNode t hl
  | fut f => exact hi.futNode f hl

/-- (d) the list spinlock gives exclusion: at most one thread is inside a list critical section
and the bit is set while it is. -/
theorem mutex_list_lock_exclusive {cfg : Cfg} {s : State} (h : Reach cfg s) {t u : Tid}
    (ht : inLL (s.th t).pc = true) (hu : inLL (s.th u).pc = true) : t = u ∧ s.wl.locked = true :=
  ⟨((Inv_reach h).ll u hu).2 t ht, ((Inv_reach h).ll t ht).1⟩

/-! ### non-vacuity: a reachable state with a parked waiter -/

/-- thread 0 locks, thread 1 finds the lock held, queues itself and parks -/
def progPark : Tid → List MOp := fun t => if t = 0 then [.lock, .unlock] else if t = 1 then [.lock, .unlock] else []

def schedPark : List (Tid × Nat) :=
  [(0,0),(0,0),(0,0),(0,0), (1,0),(1,0),(1,0),(1,0),(1,0),(1,0),(1,0),(1,0),(1,0),(1,0)]

theorem parked_state_reachable :
    ∃ s, Reach {} s ∧ (s.th 1).pc = .wPark ∧ s.token 1 = false ∧ s.word.locked = true
      ∧ s.wl.queue = [.thr 1] ∧ s.holders = [(0, true)] := by
  have he : ∃ s, exec {} (init progPark) schedPark = some s := by
    cases h : exec {} (init progPark) schedPark with
    | none => exact absurd h (by decide)
    | some s => exact ⟨s, rfl⟩
  obtain ⟨s, hs⟩ := he
  refine ⟨s, execOf_reach _ _ _ (ReachOf.init ⟨progPark, rfl⟩) hs, ?_⟩
  have h1 : ((exec {} (init progPark) schedPark).map fun s =>
      ((s.th 1).pc, s.token 1, s.word.locked, s.wl.queue)) = some (.wPark, false, true, [.thr 1]) := by decide
  have h2 : ((exec {} (init progPark) schedPark).map fun s => s.holders) = some [(0, true)] := by decide
  rw [hs] at h1 h2
  simp only [Option.map_some, Option.some.injEq, Prod.mk.injEq] at h1 h2
  exact ⟨h1.1, h1.2.1, h1.2.2.1, h1.2.2.2, h2⟩

example : ∃ s, Reach {} s ∧ s.holders ≠ [] := by
  obtain ⟨s, hr, _, _, _, _, hh⟩ := parked_state_reachable
  exact ⟨s, hr, by rw [hh]; simp⟩


/-! ### (c) no lost wakeup -/

/-- a thread parked without a token: a sync waiter in `lock_slow`'s park loop, or the harness
executor of a `lock_async` future that returned `Pending` -/
def ParkedBlocked (s : State) (u : Tid) : Prop :=
  ((s.th u).pc = .wPark ∨ (s.th u).pc = .boPark) ∧ s.token u = false

/-- a manually polled future that returned `Pending` (its node is allocated), is not being polled
or dropped right now, and has no wake recorded since its last poll -/
def PendingBlocked (s : State) (f : Fid) : Prop :=
  (s.fut f).phase = .startedNode ∧ (s.fut f).busy = false ∧ s.wakes f = 0

/-- (c) NO LOST WAKEUP (safety form).  In every reachable state in which the lock is free and some
waiter is blocked, the wait queue is non-empty and its head `hd` is covered:
* some thread is inside a `wake_next` that has not yet marked the head - it released the lock by
  the `fetch_and` that read `HAS_QUEUED`, or it is dropping a future whose node is `WOKEN` and has
  not yet made the forwarding call (`PreWake`); or
* `hd` is `WOKEN` and its owner is not blocked (awake thread / token present / wake recorded / being
  polled), or the handle that unblocks it is still carried by the waker (`PostWake`); or
* the owner of `hd` is itself in its acquisition / arm-and-re-check phase (`OwnerActive`).
Each of these threads has an enabled step, so a wake is always owed. -/
theorem mutex_no_lost_wakeup {cfg : Cfg} {s : State} (hr : Reach cfg s) (hfree : s.word.locked = false)
    (hb : (∃ u, ParkedBlocked s u) ∨ (∃ f, PendingBlocked s f)) :
    ∃ hd rest, s.wl.queue = hd :: rest ∧
      ((∃ t, PreWake s t)
        ∨ ((s.wl.node hd).woken = true ∧ (¬ OwnerBlocked s hd ∨ ∃ t, PostWake s t hd))
        ∨ OwnerActive s hd) := by
  obtain ⟨hi, hw⟩ := WInv_reach hr
  have hne : ∃ n, n ∈ s.wl.queue := by
    rcases hb with ⟨u, hp, _⟩ | ⟨f, hph, hbz, _⟩
    · exact ⟨_, (hi.wf.linked _).1 (hw.pk u (by rcases hp with hp | hp <;> simp [hp]))⟩
    · exact ⟨_, (hi.wf.linked _).1 (hw.fl f hph hbz)⟩
  obtain ⟨n, hn⟩ := hne
  cases hq : s.wl.queue with
  | nil => rw [hq] at hn; cases hn
  | cons hd rest =>
    refine ⟨hd, rest, rfl, ?_⟩
    have hh : s.wl.queue.head? = some hd := by rw [hq]; rfl
    rcases hw.nlw hfree hd hh with h1 | h1 | h1
    · exact Or.inl h1
    · have hl : (s.wl.node hd).linked = true := (hi.wf.linked hd).2 (by rw [hq]; exact List.mem_cons_self)
      exact Or.inr (Or.inl ⟨h1, hw.wk hd hl h1⟩)
    · exact Or.inr (Or.inr h1)

/-- (c)/(d) WAKE CONSERVATION: a queued node that has been marked `WOKEN` is always accounted for -
its owner is not blocked, or the waker still carries the handle that unblocks it.  Together with
`PreWake` covering a dropping `WOKEN` future this is: a consumed wake is used or forwarded. -/
theorem mutex_woken_node_accounted {cfg : Cfg} {s : State} (hr : Reach cfg s) {n : Nid}
    (hq : n ∈ s.wl.queue) (hwk : (s.wl.node n).woken = true) :
    ¬ OwnerBlocked s n ∨ ∃ t, PostWake s t n := by
  obtain ⟨hi, hw⟩ := WInv_reach hr
  exact hw.wk n ((hi.wf.linked n).2 hq) hwk

/-- (d) a future dropped while its node is `WOKEN` is, from the moment the drop starts until its
forwarding `wake_next` has marked the next head, a `PreWake` thread (so the wake it consumed keeps
covering the queue, see `mutex_no_lost_wakeup`); the step after its `state.load` enters `wake_next`. -/
theorem mutex_drop_woken_forwards {cfg : Cfg} {s s' : State} {t : Tid} {l : Lbl}
    (h : (l, s') ∈ next cfg s t) (hpc : (s.th t).pc = .dLoad)
    (hwk : (s.wl.node (.fut (curF (s.th t)))).woken = true) :
    (s'.th t).pc = .llSwap .wakeNext ∧ PreWake s' t := by
  have hs := step_of_mem h
  cases hs <;> simp_all [withPc, setTh, PreWake, preWakePc]

/-- no thread has an enabled step other than a spurious return from `park` -/
def Quiescent (cfg : Cfg) (s : State) : Prop := ∀ t l s', (l, s') ∈ next cfg s t → l = .parkSpur

/-- (c) corollary, QUIESCENT DEADLOCK FREEDOM: in a reachable state in which no thread can take a
step (spurious park returns aside), the lock is free, and the executor has served every recorded
wake (no idle Pending manual future has `wakes > 0` - the one thing the lock cannot do itself is
re-poll a woken task), nobody is waiting: the queue is empty, no thread is parked, no future is
Pending. -/
theorem mutex_quiescent_no_blocked_waiter {cfg : Cfg} {s : State} (hr : Reach cfg s)
    (hq : Quiescent cfg s) (hfree : s.word.locked = false)
    (hexec : ∀ g, (s.fut g).bo = false → (s.fut g).phase = .startedNode → (s.fut g).busy = false → s.wakes g = 0) :
    s.wl.queue = [] ∧ (∀ u, ¬ ParkedBlocked s u) ∧ (∀ f, ¬ PendingBlocked s f) := by
  obtain ⟨hi, hw⟩ := WInv_reach hr
  obtain ⟨hwn, hbe⟩ := extra_reach hr
  have stuck : ∀ t, (∃ l s', (l, s') ∈ next cfg s t ∧ l ≠ .parkSpur) → False := by
    rintro t ⟨l, s', hm, hne⟩; exact hne (hq t l s' hm)
  have hempty : s.wl.queue = [] := by
    cases hqe : s.wl.queue with
    | nil => rfl
    | cons hd rest =>
      exfalso
      have hh : s.wl.queue.head? = some hd := by rw [hqe]; rfl
      have hl : (s.wl.node hd).linked = true := (hi.wf.linked hd).2 (by rw [hqe]; exact List.mem_cons_self)
      have act : ∀ u, activePc (s.th u).pc = true → False := fun u ha =>
        stuck u (runnable_enabled (by cases hp : (s.th u).pc <;> rw [hp] at ha <;> first | rfl | cases ha))
      have pre : ∀ u, PreWake s u → False := by
        intro u hp
        refine stuck u (runnable_enabled ?_)
        rcases hp with hp | ⟨hp, _⟩ <;> cases hpc : (s.th u).pc <;> rw [hpc] at hp <;> first | rfl | cases hp
      have post : ∀ u n, PostWake s u n → False := by
        rintro u n ⟨hp, w, hw0, _⟩
        cases hpc : (s.th u).pc <;> rw [hpc] at hp <;> try (cases hp)
        · exact stuck u (runnable_enabled (by rw [hpc]; rfl))
        · obtain ⟨v, hv⟩ := hwn u hpc
          exact stuck u (wnWake_enabled hpc hv)
      rcases hw.nlw hfree hd hh with ⟨u, hu⟩ | hwk | ⟨u, _, hu⟩
      · exact pre u hu
      · rcases hw.wk hd hl hwk with hnb | ⟨u, hu⟩
        · apply hnb
          cases hd with
          | thr v =>
            obtain ⟨_, hsl⟩ := hi.thrNode v hl
            by_cases hp : (s.th v).pc = .wPark
            · refine ⟨hp, ?_⟩
              cases htk : s.token v with
              | false => rfl
              | true => exact (stuck v (park_enabled (Or.inl hp) htk)).elim
            · exfalso
              refine stuck v (runnable_enabled ?_)
              cases hpc : (s.th v).pc <;> rw [hpc] at hsl hp <;> first | rfl | exact absurd rfl hp | cases hsl
          | fut g =>
            have hph := hi.futNode g hl
            cases hbo : (s.fut g).bo with
            | true =>
              simp only [OwnerBlocked, hbo, ↓reduceIte]
              have hbusy : (s.fut g).busy = true := by
                rcases hw.bb g hbo with h1 | h1
                · exact h1
                · rw [hph] at h1; cases h1
              obtain ⟨v, hc, hp⟩ := hbe g hbusy
              by_cases hpb : (s.th v).pc = .boPark
              · refine ⟨v, hc, hpb, ?_⟩
                cases htk : s.token v with
                | false => rfl
                | true => exact (stuck v (park_enabled (Or.inr hpb) htk)).elim
              · exfalso
                refine stuck v (runnable_enabled ?_)
                cases hpc : (s.th v).pc <;> rw [hpc] at hp hpb <;> first | rfl | exact absurd rfl hpb | cases hp
            | false =>
              simp only [OwnerBlocked, hbo, Bool.false_eq_true, ↓reduceIte]
              have hnb : (s.fut g).busy = false := by
                cases hbz : (s.fut g).busy with
                | false => rfl
                | true =>
                  exfalso
                  obtain ⟨v, hc, hp⟩ := hbe g hbz
                  have hbk : (s.th v).pc ≠ .boPark := by
                    intro hpb
                    have := hw.boPark v hpb
                    rw [hw.boc v g hc hp, hbo] at this; cases this
                  refine stuck v (runnable_enabled ?_)
                  cases hpc : (s.th v).pc <;> rw [hpc] at hp hbk <;> first | rfl | exact absurd rfl hbk | cases hp
              exact ⟨hnb, hexec g hbo hph hnb⟩
        · exact post u hd hu
      · exact act u hu
  refine ⟨hempty, ?_, ?_⟩
  · intro u ⟨hp, _⟩
    have := (hi.wf.linked _).1 (hw.pk u (by rcases hp with hp | hp <;> simp [hp]))
    rw [hempty] at this; cases this
  · intro f ⟨hph, hbz, _⟩
    have := (hi.wf.linked _).1 (hw.fl f hph hbz)
    rw [hempty] at this; cases this

/-! non-vacuity of (c): thread 0 has released (its `fetch_and` read `HAS_QUEUED`) and is about to
take the list lock in `wake_next`; thread 1 is parked without a token; the lock is free. -/

def schedRel : List (Tid × Nat) := schedPark ++ [(0,0),(0,0)]

theorem nlw_hypotheses_reachable :
    ∃ s, Reach {} s ∧ s.word.locked = false ∧ ParkedBlocked s 1 ∧ PreWake s 0 := by
  have he : ∃ s, exec {} (init progPark) schedRel = some s := by
    cases h : exec {} (init progPark) schedRel with
    | none => exact absurd h (by decide)
    | some s => exact ⟨s, rfl⟩
  obtain ⟨s, hs⟩ := he
  refine ⟨s, execOf_reach _ _ _ (ReachOf.init ⟨progPark, rfl⟩) hs, ?_⟩
  have h1 : ((exec {} (init progPark) schedRel).map fun s =>
      (s.word.locked, (s.th 1).pc, s.token 1, (s.th 0).pc)) = some (false, .wPark, false, .llSwap .wakeNext) := by
    decide
  rw [hs] at h1
  simp only [Option.map_some, Option.some.injEq, Prod.mk.injEq] at h1
  exact ⟨h1.1, ⟨Or.inl h1.2.1, h1.2.2.1⟩, Or.inl (by rw [h1.2.2.2]; rfl)⟩

example : ∃ s hd rest, Reach {} s ∧ s.wl.queue = hd :: rest := by
  obtain ⟨s, hr, hf, hb, _⟩ := nlw_hypotheses_reachable
  obtain ⟨hd, rest, hq, _⟩ := mutex_no_lost_wakeup hr hf (Or.inl ⟨1, hb⟩)
  exact ⟨s, hd, rest, hr, hq⟩

/-- the state in which every program has ended is quiescent (and satisfies the corollary's hypotheses) -/
example : Reach {} (init fun _ => []) ∧ Quiescent {} (init fun _ => []) ∧ (init fun _ => []).word.locked = false :=
  ⟨ReachOf.init ⟨_, rfl⟩, by intro t l s' h; simp [next, init, nIdle] at h, rfl⟩

end MutexTheorems

/-! ## HybridRwLock -/

section RwLockTheorems
open Fv.Sync.RwLock

/-- (a) MUTUAL EXCLUSION: in every reachable state a write holder excludes every other holder
(read guards may coexist, see `rwlock_reader_count`). -/
theorem rwlock_mutual_exclusion {cfg : RwLock.Cfg} {s : RwLock.State} (hr : RwLock.Reach cfg s) :
    ∀ g ∈ s.holders, g.2 = true → s.holders = [g] := RwLock.mutual_exclusion hr

/-- (a) while `WRITE_LOCKED` is clear every guard is a read guard and the reader count of the state
word is exactly the number of read guards. -/
theorem rwlock_reader_count {cfg : RwLock.Cfg} {s : RwLock.State} (hr : RwLock.Reach cfg s)
    (hl : s.word.wl = false) : (∀ g ∈ s.holders, g.2 = false) ∧ s.holders.length = s.word.readers :=
  RwLock.reader_count hr hl

/-- (b) `try_read` / `try_write` are straight-line: ≤ 3 own steps, never park / yield / spin. -/
theorem rwlock_try_bounded {cfg : RwLock.Cfg} {s s' : RwLock.State} {t : Tid} {l : RwLock.Lbl}
    (h : (l, s') ∈ RwLock.next cfg s t) :
    ((l = .call .tryRead ∨ l = .call .tryWrite) → RwLock.tryRank (s'.th t).pc = 3)
    ∧ (0 < RwLock.tryRank (s.th t).pc →
        l ≠ .park ∧ l ≠ .parkSpur ∧ l ≠ .yield ∧ l ≠ .spin
          ∧ RwLock.tryRank (s'.th t).pc < RwLock.tryRank (s.th t).pc)
    ∧ (∀ u, u ≠ t → s'.th u = s.th u) := RwLock.try_bounded h

/-- (d) the wait-list invariant holds in every reachable state (wake_waiters unlinking other
threads' reader nodes, future drops before / after a wake included). -/
theorem rwlock_list_wf {cfg : RwLock.Cfg} {s : RwLock.State} (hr : RwLock.Reach cfg s) : s.wl.WF :=
  RwLock.list_wf hr

/-- (d) no dangling node: a queued stack node belongs to a thread inside `read_slow`/`write_slow`,
a queued heap node to a live future whose node is allocated. -/
theorem rwlock_queued_node_has_live_owner {cfg : RwLock.Cfg} {s : RwLock.State} (hr : RwLock.Reach cfg s) :
    ∀ n ∈ s.wl.queue,
      match n with
      | .thr t => (s.th t).cur = none ∧ RwLock.slowL (s.th t).pc = true
      | .fut f => (s.fut f).phase = .startedNode := by
  have hi := RwLock.Inv_reach hr
  intro n hn
  have hl := (hi.wf.linked n).2 hn
  cases n with
  | thr t => exact ⟨(hi.thrNode t hl).1, (hi.thrNode t hl).2.1⟩
  | fut f => exact hi.futNode f hl

/-- (e) WRITER GATE, part 1: whenever no list critical section is open, `WRITER_PENDING` is set
exactly while a writer node is queued. -/
theorem rwlock_writer_pending_iff_writer_queued {cfg : RwLock.Cfg} {s : RwLock.State}
    (hr : RwLock.Reach cfg s) (hl : s.wl.locked = false) :
    s.word.wp = true ↔ ∃ n ∈ s.wl.queue, (s.wl.node n).isWriter = true := RwLock.wp_iff_writer_queued hr hl

/-- (e) WRITER GATE, part 2: a read-acquiring CAS succeeds only from a state word with
`WRITER_PENDING` and `WRITE_LOCKED` clear. -/
theorem rwlock_reader_cas_needs_flag_clear {cfg : RwLock.Cfg} {s s' : RwLock.State} {t : Tid} {l : RwLock.Lbl}
    (hr : RwLock.Reach cfg s) (h : (l, s') ∈ RwLock.next cfg s t) {w : Bool} {old new : Nat}
    (hl : l = .cas .state w .acquire .relaxed old new true) (hw : (s.th t).wr = false) :
    s.word.wp = false ∧ s.word.wl = false :=
  ⟨(RwLock.reader_cas_needs_flag_clear hr h hl hw).1, (RwLock.reader_cas_needs_flag_clear hr h hl hw).2.1⟩

/-- (e) WRITER NON-STARVATION, safety form: while a writer node is queued (and no list critical
section is open) no reader can acquire the lock - every read-acquiring CAS fails. -/
theorem rwlock_writer_gate {cfg : RwLock.Cfg} {s s' : RwLock.State} {t : Tid} {l : RwLock.Lbl}
    (hr : RwLock.Reach cfg s) (hl : s.wl.locked = false) {n : Nid} (hn : n ∈ s.wl.queue)
    (hnw : (s.wl.node n).isWriter = true) (h : (l, s') ∈ RwLock.next cfg s t) (hw : (s.th t).wr = false)
    {w : Bool} {old new : Nat} : l ≠ .cas .state w .acquire .relaxed old new true :=
  RwLock.writer_gate hr hl hn hnw h hw

/-- (e) `HAS_QUEUED` is set exactly while the queue is non-empty (no list critical section open). -/
theorem rwlock_has_queued_iff_nonempty {cfg : RwLock.Cfg} {s : RwLock.State}
    (hr : RwLock.Reach cfg s) (hl : s.wl.locked = false) : s.word.hq = true ↔ s.wl.queue ≠ [] :=
  RwLock.hq_iff_nonempty hr hl


/-! ### (c) no lost wakeup, wake conservation, cancel safety -/

/-- (c) NO LOST WAKEUP (safety form).  In every reachable state in which the lock is free (no
writer, no reader) and the wait queue is non-empty,
* some thread is inside a `wake_waiters` that may still mark queued nodes - it released the lock by
  the `fetch_and` / last `fetch_sub` that read `HAS_QUEUED`, or it is dropping a future whose node
  is `WOKEN` and has not yet made the forwarding call (`PreWake`); or
* a covering node `n` is queued: `n` is a writer node, or no writer is queued at all (this is
  what `wake_waiters` would pick: the first writer, else everybody), and
  - `n` is `WOKEN` and its owner is not blocked (awake thread / token present / wake recorded /
    being polled), or the handle that unblocks it is still carried by the waker (`PostWake`); or
  - the owner of `n` is itself in its acquisition / arm-and-re-check phase (`OwnerActive`).
Each of these threads has an enabled step, so a wake is always owed; a reader parked behind a queued
writer is woken by that writer's release (or by the drop of its future, see below). -/
theorem rwlock_no_lost_wakeup {cfg : RwLock.Cfg} {s : RwLock.State} (hr : RwLock.Reach cfg s)
    (hfree : s.word.wl = false ∧ s.word.readers = 0) (hq : s.wl.queue ≠ []) :
    (∃ t, RwLock.PreWake s t)
    ∨ ∃ n ∈ s.wl.queue,
        ((s.wl.node n).isWriter = true ∨ ∀ m ∈ s.wl.queue, (s.wl.node m).isWriter = false)
        ∧ (((s.wl.node n).woken = true ∧ (¬ RwLock.OwnerBlocked s n ∨ ∃ t, RwLock.PostWake s t n))
            ∨ RwLock.OwnerActive s n) :=
  RwLock.no_lost_wakeup hr hfree hq

/-- (c) every blocked waiter is covered, in every reachable state: the node of a thread parked
without a token (sync waiter or `block_on` executor), resp. of a `Pending` manually polled future
with no wake recorded, is still queued (then `rwlock_no_lost_wakeup` speaks about the queue once the
lock is free), or it is `WOKEN` and the handle that unblocks the owner is carried by a waker about to
deliver it, or a waker in the reader loop of `wake_waiters` has unlinked it and is about to mark it. -/
theorem rwlock_blocked_waiter_covered {cfg : RwLock.Cfg} {s : RwLock.State} (hr : RwLock.Reach cfg s) :
    (∀ u, RwLock.ParkedBlocked s u →
      RwLock.me u (s.th u) ∈ s.wl.queue
      ∨ ((s.wl.node (RwLock.me u (s.th u))).woken = true ∧ ∃ t, RwLock.PostWake s t (RwLock.me u (s.th u)))
      ∨ RwLock.MarkPending s (RwLock.me u (s.th u)))
    ∧ (∀ f, RwLock.PendingBlocked s f →
      .fut f ∈ s.wl.queue
      ∨ ((s.wl.node (.fut f)).woken = true ∧ ∃ t, RwLock.PostWake s t (.fut f))
      ∨ RwLock.MarkPending s (.fut f)) :=
  RwLock.blocked_waiter_covered hr

/-- (c)/(d) WAKE CONSERVATION: a node marked `WOKEN` whose owner still exists (a stack node; a heap
node while the future has it allocated) - a queued writer node, or a reader node the waker has
already unlinked - is always accounted for: its owner is not blocked, or a waker still carries the
handle that unblocks it. -/
theorem rwlock_woken_node_accounted {cfg : RwLock.Cfg} {s : RwLock.State} (hr : RwLock.Reach cfg s) {n : Nid}
    (hlive : match n with | .thr _ => True | .fut f => (s.fut f).phase = .startedNode)
    (hwk : (s.wl.node n).woken = true) :
    ¬ RwLock.OwnerBlocked s n ∨ ∃ t, RwLock.PostWake s t n := by
  refine RwLock.woken_node_accounted hr ?_ hwk
  cases n <;> exact hlive

/-- (d) a Read/WriteFuture dropped while its node is `WOKEN` is, from the moment the drop starts
until its forwarding `wake_waiters` has done its marking, a `PreWake` thread (so the wake it consumed
keeps covering the queue, see `rwlock_no_lost_wakeup`); the step after its `state.load` enters
`wake_waiters`. -/
theorem rwlock_drop_woken_forwards {cfg : RwLock.Cfg} {s s' : RwLock.State} {t : Tid} {l : RwLock.Lbl}
    (h : (l, s') ∈ RwLock.next cfg s t) (hpc : (s.th t).pc = .dLoad)
    (hwk : (s.wl.node (.fut (RwLock.curF (s.th t)))).woken = true) :
    (s'.th t).pc = .llSwap .wake ∧ RwLock.PreWake s' t :=
  RwLock.drop_woken_forwards h hpc hwk

/-- (c) corollary, QUIESCENT DEADLOCK FREEDOM: in a reachable state in which no thread can take a
step (spurious park returns aside), the lock is free, and the executor has served every recorded
wake (no idle Pending manual future has `wakes > 0`), nobody is waiting: the queue is empty, no
thread is parked, no future is Pending. -/
theorem rwlock_quiescent_no_blocked_waiter {cfg : RwLock.Cfg} {s : RwLock.State} (hr : RwLock.Reach cfg s)
    (hq : RwLock.Quiescent cfg s) (hfree : s.word.wl = false ∧ s.word.readers = 0)
    (hexec : ∀ g, (s.fut g).bo = false → (s.fut g).phase = .startedNode → (s.fut g).busy = false → s.wakes g = 0) :
    s.wl.queue = [] ∧ (∀ u, ¬ RwLock.ParkedBlocked s u) ∧ (∀ f, ¬ RwLock.PendingBlocked s f) :=
  RwLock.quiescent_no_blocked_waiter hr hq hfree hexec

/-! ### (e) writer preference in every reachable state -/

/-- (e) in EVERY reachable state (list critical sections open or not) a queued writer node implies
that `WRITER_PENDING` is set - the only exception is the single step, under the list lock, between a
writer's `link_back` and its own `fetch_or(HAS_QUEUED | WRITER_PENDING)`. -/
theorem rwlock_writer_queued_pending {cfg : RwLock.Cfg} {s : RwLock.State} (hr : RwLock.Reach cfg s)
    {n : Nid} (hn : n ∈ s.wl.queue) (hnw : (s.wl.node n).isWriter = true) :
    s.word.wp = true ∨ ∃ t, (s.th t).pc = .qFetchOr ∧ (s.th t).wr = true :=
  RwLock.writer_queued_pending hr hn hnw

/-- (e) WRITER NON-STARVATION, safety form, without the "no critical section open" proviso of
`rwlock_writer_gate`: while a writer node is queued no read-acquiring CAS succeeds (fast path, spin
loop, poll, re-check under the list lock alike), outside that one-step window. -/
theorem rwlock_writer_preference {cfg : RwLock.Cfg} {s s' : RwLock.State} {t : Tid} {l : RwLock.Lbl}
    (hr : RwLock.Reach cfg s) {n : Nid} (hn : n ∈ s.wl.queue) (hnw : (s.wl.node n).isWriter = true)
    (hwin : ∀ u, (s.th u).pc = .qFetchOr → (s.th u).wr = false)
    (h : (l, s') ∈ RwLock.next cfg s t) (hw : (s.th t).wr = false)
    {w : Bool} {old new : Nat} : l ≠ .cas .state w .acquire .relaxed old new true :=
  RwLock.writer_preference hr hn hnw hwin h hw

/-! ### non-vacuity -/

/-- thread 0 takes and releases a read guard; thread 1 wants to write -/
def progRwRel : Tid → List RwLock.ROp :=
  fun u => if u = 0 then [.read, .unread] else if u = 1 then [.write] else []

/-- thread 0 reads; thread 1 calls `write`, spins, queues its node, re-checks and parks; thread 0
calls `unread`: its `fetch_sub` reads `readers = 1` and `HAS_QUEUED` -/
def schedRwRel : List (Tid × Nat) := RwLock.schedGate ++ [(0,0),(0,0)]

/-- … then thread 0 takes the list lock, marks the writer node (`wnStore`) and drops the guard; it
now carries the handle `Thread(1)` -/
def schedRwMarked : List (Tid × Nat) := schedRwRel ++ [(0,0),(0,0),(0,0)]

theorem rwlock_exec_some {sched : List (Tid × Nat)}
    (h : (RwLock.exec {} (RwLock.init progRwRel) sched).isSome = true) :
    ∃ s, RwLock.exec {} (RwLock.init progRwRel) sched = some s ∧ RwLock.Reach {} s := by
  cases he : RwLock.exec {} (RwLock.init progRwRel) sched with
  | none => rw [he] at h; cases h
  | some s => exact ⟨s, rfl, execOf_reach _ _ _ (ReachOf.init ⟨progRwRel, rfl⟩) he⟩

/-- the hypotheses of `rwlock_no_lost_wakeup` / `rwlock_blocked_waiter_covered` are satisfiable:
the lock is free, the writer of thread 1 is queued and parked without a token, thread 0 is on its
way into `wake_waiters` -/
theorem rwlock_nlw_hypotheses_reachable :
    ∃ s, RwLock.Reach {} s ∧ (s.word.wl = false ∧ s.word.readers = 0) ∧ s.wl.queue = [.thr 1]
      ∧ RwLock.ParkedBlocked s 1 ∧ RwLock.PreWake s 0 := by
  obtain ⟨s, hs, hr⟩ := rwlock_exec_some (sched := schedRwRel) (by decide)
  refine ⟨s, hr, ?_⟩
  have h1 : ((RwLock.exec {} (RwLock.init progRwRel) schedRwRel).map fun s =>
      (s.word.wl, s.word.readers, s.wl.queue, (s.th 1).pc, s.token 1, (s.th 0).pc))
      = some (false, 0, [.thr 1], .wPark, false, .llSwap .wake) := by decide
  rw [hs] at h1
  simp only [Option.map_some, Option.some.injEq, Prod.mk.injEq] at h1
  obtain ⟨a, b, c, d, e, f⟩ := h1
  exact ⟨⟨a, b⟩, c, ⟨Or.inl d, e⟩, Or.inl (by rw [f]; rfl)⟩

/-- a marked node with a blocked owner: the lock is free, the writer node of thread 1 is queued and
`WOKEN`, thread 1 is still parked without a token, thread 0 carries the handle -/
theorem rwlock_marked_state_reachable :
    ∃ s, RwLock.Reach {} s ∧ (s.word.wl = false ∧ s.word.readers = 0) ∧ s.wl.queue = [.thr 1]
      ∧ (s.wl.node (.thr 1)).woken = true ∧ (s.wl.node (.thr 1)).isWriter = true
      ∧ RwLock.OwnerBlocked s (.thr 1) ∧ RwLock.PostWake s 0 (.thr 1) := by
  obtain ⟨s, hs, hr⟩ := rwlock_exec_some (sched := schedRwMarked) (by decide)
  refine ⟨s, hr, ?_⟩
  have h1 : ((RwLock.exec {} (RwLock.init progRwRel) schedRwMarked).map fun s =>
      (s.word.wl, s.word.readers, s.wl.queue, (s.th 1).pc, s.token 1, (s.th 0).pc))
      = some (false, 0, [.thr 1], .wPark, false, .wnWake) := by decide
  have h2 : ((RwLock.exec {} (RwLock.init progRwRel) schedRwMarked).map fun s =>
      ((s.wl.node (.thr 1)).woken, (s.wl.node (.thr 1)).isWriter, (s.th 0).ws))
      = some (true, true, [.thread 1]) := by decide
  rw [hs] at h1 h2
  simp only [Option.map_some, Option.some.injEq, Prod.mk.injEq] at h1 h2
  obtain ⟨a, b, c, d, e, f⟩ := h1
  obtain ⟨g, i, j⟩ := h2
  exact ⟨⟨a, b⟩, c, g, i, ⟨d, e⟩, by rw [f]; rfl, .thread 1, by rw [j]; simp, rfl⟩

example : ∃ s, RwLock.Reach {} s ∧ (∃ t, RwLock.PreWake s t) := by
  obtain ⟨s, hr, _, _, _, hp⟩ := rwlock_nlw_hypotheses_reachable
  exact ⟨s, hr, 0, hp⟩

/-- in the marked state the conclusion of `rwlock_no_lost_wakeup` holds through its second
disjunct's `WOKEN` branch with the handle in flight -/
example : ∃ s n, RwLock.Reach {} s ∧ n ∈ s.wl.queue ∧ (s.wl.node n).woken = true
    ∧ (¬ RwLock.OwnerBlocked s n ∨ ∃ t, RwLock.PostWake s t n) := by
  obtain ⟨s, hr, _, hq, hwk, _, _, _⟩ := rwlock_marked_state_reachable
  exact ⟨s, .thr 1, hr, by rw [hq]; simp, hwk, rwlock_woken_node_accounted hr trivial hwk⟩

/-- `rwlock_blocked_waiter_covered` is not vacuous: thread 1 is `ParkedBlocked` -/
example : ∃ s, RwLock.Reach {} s ∧ RwLock.ParkedBlocked s 1 ∧ s.wl.queue ≠ [] := by
  obtain ⟨s, hr, _, hq, hb, _⟩ := rwlock_nlw_hypotheses_reachable
  exact ⟨s, hr, hb, by rw [hq]; simp⟩

/-- the state in which every program has ended is quiescent (and satisfies the corollary's hypotheses) -/
example : RwLock.Reach {} (RwLock.init fun _ => []) ∧ RwLock.Quiescent {} (RwLock.init fun _ => [])
    ∧ (RwLock.init fun _ => []).word.wl = false ∧ (RwLock.init fun _ => []).word.readers = 0 :=
  ⟨ReachOf.init ⟨_, rfl⟩, by intro t l s' h; simp [RwLock.next, RwLock.init, RwLock.nIdle] at h, rfl, rfl⟩

/-- the hypotheses of `rwlock_writer_queued_pending` / `rwlock_writer_preference` are satisfiable,
with a reader (thread 2) about to step: the parked writer of `RwLock.gate_state_reachable` -/
example : ∃ s n, RwLock.Reach {} s ∧ n ∈ s.wl.queue ∧ (s.wl.node n).isWriter = true
    ∧ (∀ u, (s.th u).pc = .qFetchOr → (s.th u).wr = false) ∧ s.word.wp = true
    ∧ (RwLock.next {} s 2).length = 1 := by
  obtain ⟨s, hr, h1, h2, _, _, h5, h6, _, _, h9⟩ := RwLock.gate_state_reachable
  refine ⟨s, .thr 1, hr, by rw [h5]; simp, h6, ?_, h2, h9⟩
  intro u hu
  have := ((RwLock.Inv_reach hr).ll u (by rw [hu]; rfl)).1
  rw [h1] at this; cases this

end RwLockTheorems

end Fv.Props.C10
