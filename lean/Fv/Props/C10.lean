import Fv.Lemmas.SyncMutexQuiet
import Fv.Lemmas.SyncRwProps
/-!
# C10 — hybrid locks: mutual exclusion, wake on release, cancel-safe acquisition

Models (B level, one visible action per step, all programs / thread counts / interleavings):
`Fv/Sync/WaitList.lean`, `Fv/Sync/Mutex.lean` (`fibre::sync::HybridMutex`), `Fv/Sync/RwLock.lean`
(`HybridRwLock`).  `Mutex.Reach cfg s`: `s` is reachable from an initial state (any programs) by
any interleaving of thread steps (`Mutex.next`), for any spin / poll budgets `cfg`.

Theorems here (helpers in `Fv/Lemmas/Sync*.lean`):
* (a) `mutex_mutual_exclusion`, `mutex_locked_iff_held` — a holder excludes every other holder;
* (b) `mutex_try_lock_bounded` — `try_lock` is straight-line: ≤ 3 own steps, never parks/spins;
* (c) `mutex_no_lost_wakeup` — NO LOST WAKEUP, safety form: whenever a thread is parked without a
  token (or a polled future is Pending with no wake recorded) and the lock is free, the queue is
  non-empty and its head is covered: a `wake_next` is in flight (a releaser that read `HAS_QUEUED`,
  or a dropping `WOKEN` future before its forwarding call), or the head is `WOKEN` with an awake
  owner / an undelivered handle, or the head's owner is in its own re-check phase; corollary
  `mutex_quiescent_no_blocked_waiter`; `mutex_woken_node_accounted` (wake conservation);
* (d) `mutex_list_wf`, `mutex_queued_node_has_live_owner`, `mutex_list_lock_exclusive` — the wait
  list is exactly the set of linked nodes (no duplicates, counters exact) in every reachable
  state, whatever futures are dropped and whenever; every queued node belongs to a waiter that is
  still inside its acquisition (thread in `lock_slow`, or a live future whose node is allocated),
  so no wake ever touches a freed node; list critical sections exclude each other.
-/
namespace Fv.Props.C10
open Fv.Sync

section MutexTheorems
open Fv.Sync.Mutex

/-! ## HybridMutex -/

/-- (a) MUTUAL EXCLUSION: in every reachable state a guard holder excludes every other holder. -/
theorem mutex_mutual_exclusion {cfg : Cfg} {s : State} (h : Reach cfg s) :
    ∀ g ∈ s.holders, s.holders = [g] := by
  have hi := Inv_reach h
  intro g hg
  cases hl : s.word.locked
  · rw [hi.freeEmpty hl] at hg; cases hg
  · obtain ⟨u, hu⟩ := hi.lockedHeld hl
    rw [hu] at hg ⊢; simp at hg; rw [hg]

/-- (a) the `LOCKED` bit is set exactly while a guard exists (ghost `holders`: added by the
acquiring CAS, removed by the releasing `fetch_and`). -/
theorem mutex_locked_iff_held {cfg : Cfg} {s : State} (h : Reach cfg s) :
    s.word.locked = true ↔ s.holders ≠ [] := by
  have hi := Inv_reach h
  constructor
  · intro hl; obtain ⟨u, hu⟩ := hi.lockedHeld hl; rw [hu]; simp
  · intro hne
    cases hl : s.word.locked
    · exact absurd (hi.freeEmpty hl) hne
    · rfl

/-- own-step budget of a `try_lock` in progress (also: a pending `ret`) -/
def tryRank : Pc → Nat
  | .taLoad .tryLock => 3
  | .taCas .tryLock => 2
  | .ret _ => 1
  | _ => 0

/-- (b) `try_lock` never blocks: after `call try_lock` the thread is at rank 3; every own step
from a positive rank is a load, a CAS or the return (never `park`, `yield`, `spin`) and strictly
decreases the rank; steps of other threads do not touch it.  Hence `try_lock` returns after at
most 3 further own steps, in every interleaving. -/
theorem mutex_try_lock_bounded {cfg : Cfg} {s s' : State} {t : Tid} {l : Lbl}
    (h : (l, s') ∈ next cfg s t) :
    (l = .call .tryLock → tryRank (s'.th t).pc = 3)
    ∧ (0 < tryRank (s.th t).pc →
        l ≠ .park ∧ l ≠ .parkSpur ∧ l ≠ .yield ∧ l ≠ .spin ∧ tryRank (s'.th t).pc < tryRank (s.th t).pc)
    ∧ (∀ u, u ≠ t → s'.th u = s.th u) := by
  have hs := step_of_mem h
  refine ⟨?_, ?_, step_th_other hs⟩
  · intro hl
    cases hs <;> simp_all [callStep, setTh, tryRank]
  · intro hr
    cases hs
    case taLoadLocked k hpc hl => cases k <;> simp_all [tryRank, taFail, withPc, setTh]
    case taLoadFree k hpc hl => cases k <;> simp_all [tryRank, setTh]
    case taCasOk k hpc he => cases k <;> simp_all [tryRank, taSucc, withPc, setTh]
    case taCasFail k hpc he => cases k <;> simp_all [tryRank, taFail, withPc, setTh]
    all_goals simp_all [tryRank]

/-- (d) LIST INVARIANT: in every reachable state the FIFO holds exactly the linked nodes, without
repetition, and `len` / `writers` are exact — across every future drop, before or after a wake. -/
theorem mutex_list_wf {cfg : Cfg} {s : State} (h : Reach cfg s) : s.wl.WF := (Inv_reach h).wf

/-- (d) NO DANGLING NODE: a queued stack node belongs to a thread that is still inside
`lock_slow` (its frame is alive); a queued heap node belongs to a future that is alive and has
its node allocated.  (A dropped, completed or never-queued future has no node in the list.) -/
theorem mutex_queued_node_has_live_owner {cfg : Cfg} {s : State} (h : Reach cfg s) :
    ∀ n ∈ s.wl.queue,
      match n with
      | .thr t => (s.th t).cur = none ∧ slowL (s.th t).pc = true
      | .fut f => (s.fut f).phase = .startedNode := by
  have hi := Inv_reach h
  intro n hn
  have hl := (hi.wf.linked n).2 hn
  cases n with
  | thr t => exact hi.thrNode t hl
  | fut f => exact hi.futNode f hl

/-- (d) the list spinlock gives exclusion: at most one thread is inside a list critical section
and the bit is set while it is. -/
theorem mutex_list_lock_exclusive {cfg : Cfg} {s : State} (h : Reach cfg s) {t u : Tid}
    (ht : inLL (s.th t).pc = true) (hu : inLL (s.th u).pc = true) : t = u ∧ s.wl.locked = true :=
  ⟨((Inv_reach h).ll u hu).2 t ht, ((Inv_reach h).ll t ht).1⟩

/-! ### non-vacuity: a reachable state with a parked waiter -/

/-- thread 0 locks, thread 1 finds the lock held, queues itself and parks -/
def progPark : Tid → List MOp := fun t => if t = 0 then [.lock, .unlock] else if t = 1 then [.lock, .unlock] else []

def schedPark : List (Tid × Nat) :=
  [(0,0),(0,0),(0,0),(0,0), (1,0),(1,0),(1,0),(1,0),(1,0),(1,0),(1,0),(1,0),(1,0),(1,0)]

theorem parked_state_reachable :
    ∃ s, Reach {} s ∧ (s.th 1).pc = .wPark ∧ s.token 1 = false ∧ s.word.locked = true
      ∧ s.wl.queue = [.thr 1] ∧ s.holders = [(0, true)] := by
  have he : ∃ s, exec {} (init progPark) schedPark = some s := by
    cases h : exec {} (init progPark) schedPark with
    | none => exact absurd h (by decide)
    | some s => exact ⟨s, rfl⟩
  obtain ⟨s, hs⟩ := he
  refine ⟨s, execOf_reach _ _ _ (ReachOf.init ⟨progPark, rfl⟩) hs, ?_⟩
  have h1 : ((exec {} (init progPark) schedPark).map fun s =>
      ((s.th 1).pc, s.token 1, s.word.locked, s.wl.queue)) = some (.wPark, false, true, [.thr 1]) := by decide
  have h2 : ((exec {} (init progPark) schedPark).map fun s => s.holders) = some [(0, true)] := by decide
  rw [hs] at h1 h2
  simp only [Option.map_some, Option.some.injEq, Prod.mk.injEq] at h1 h2
  exact ⟨h1.1, h1.2.1, h1.2.2.1, h1.2.2.2, h2⟩

example : ∃ s, Reach {} s ∧ s.holders ≠ [] := by
  obtain ⟨s, hr, _, _, _, _, hh⟩ := parked_state_reachable
  exact ⟨s, hr, by rw [hh]; simp⟩


/-! ### (c) no lost wakeup -/

/-- a thread parked without a token: a sync waiter in `lock_slow`'s park loop, or the harness
executor of a `lock_async` future that returned `Pending` -/
def ParkedBlocked (s : State) (u : Tid) : Prop :=
  ((s.th u).pc = .wPark ∨ (s.th u).pc = .boPark) ∧ s.token u = false

/-- a manually polled future that returned `Pending` (its node is allocated), is not being polled
or dropped right now, and has no wake recorded since its last poll -/
def PendingBlocked (s : State) (f : Fid) : Prop :=
  (s.fut f).phase = .startedNode ∧ (s.fut f).busy = false ∧ s.wakes f = 0

/-- (c) NO LOST WAKEUP (safety form).  In every reachable state in which the lock is free and some
waiter is blocked, the wait queue is non-empty and its head `hd` is covered:
* some thread is inside a `wake_next` that has not yet marked the head - it released the lock by
  the `fetch_and` that read `HAS_QUEUED`, or it is dropping a future whose node is `WOKEN` and has
  not yet made the forwarding call (`PreWake`); or
* `hd` is `WOKEN` and its owner is not blocked (awake thread / token present / wake recorded / being
  polled), or the handle that unblocks it is still carried by the waker (`PostWake`); or
* the owner of `hd` is itself in its acquisition / arm-and-re-check phase (`OwnerActive`).
Each of these threads has an enabled step, so a wake is always owed. -/
theorem mutex_no_lost_wakeup {cfg : Cfg} {s : State} (hr : Reach cfg s) (hfree : s.word.locked = false)
    (hb : (∃ u, ParkedBlocked s u) ∨ (∃ f, PendingBlocked s f)) :
    ∃ hd rest, s.wl.queue = hd :: rest ∧
      ((∃ t, PreWake s t)
        ∨ ((s.wl.node hd).woken = true ∧ (¬ OwnerBlocked s hd ∨ ∃ t, PostWake s t hd))
        ∨ OwnerActive s hd) := by
  obtain ⟨hi, hw⟩ := WInv_reach hr
  have hne : ∃ n, n ∈ s.wl.queue := by
    rcases hb with ⟨u, hp, _⟩ | ⟨f, hph, hbz, _⟩
    · exact ⟨_, (hi.wf.linked _).1 (hw.pk u (by rcases hp with hp | hp <;> simp [hp]))⟩
    · exact ⟨_, (hi.wf.linked _).1 (hw.fl f hph hbz)⟩
  obtain ⟨n, hn⟩ := hne
  cases hq : s.wl.queue with
  | nil => rw [hq] at hn; cases hn
  | cons hd rest =>
    refine ⟨hd, rest, rfl, ?_⟩
    have hh : s.wl.queue.head? = some hd := by rw [hq]; rfl
    rcases hw.nlw hfree hd hh with h1 | h1 | h1
    · exact Or.inl h1
    · have hl : (s.wl.node hd).linked = true := (hi.wf.linked hd).2 (by rw [hq]; exact List.mem_cons_self)
      exact Or.inr (Or.inl ⟨h1, hw.wk hd hl h1⟩)
    · exact Or.inr (Or.inr h1)

/-- (c)/(d) WAKE CONSERVATION: a queued node that has been marked `WOKEN` is always accounted for -
its owner is not blocked, or the waker still carries the handle that unblocks it.  Together with
`PreWake` covering a dropping `WOKEN` future this is: a consumed wake is used or forwarded. -/
theorem mutex_woken_node_accounted {cfg : Cfg} {s : State} (hr : Reach cfg s) {n : Nid}
    (hq : n ∈ s.wl.queue) (hwk : (s.wl.node n).woken = true) :
    ¬ OwnerBlocked s n ∨ ∃ t, PostWake s t n := by
  obtain ⟨hi, hw⟩ := WInv_reach hr
  exact hw.wk n ((hi.wf.linked n).2 hq) hwk

/-- (d) a future dropped while its node is `WOKEN` is, from the moment the drop starts until its
forwarding `wake_next` has marked the next head, a `PreWake` thread (so the wake it consumed keeps
covering the queue, see `mutex_no_lost_wakeup`); the step after its `state.load` enters `wake_next`. -/
theorem mutex_drop_woken_forwards {cfg : Cfg} {s s' : State} {t : Tid} {l : Lbl}
    (h : (l, s') ∈ next cfg s t) (hpc : (s.th t).pc = .dLoad)
    (hwk : (s.wl.node (.fut (curF (s.th t)))).woken = true) :
    (s'.th t).pc = .llSwap .wakeNext ∧ PreWake s' t := by
  have hs := step_of_mem h
  cases hs <;> simp_all [withPc, setTh, PreWake, preWakePc]

/-- no thread has an enabled step other than a spurious return from `park` -/
def Quiescent (cfg : Cfg) (s : State) : Prop := ∀ t l s', (l, s') ∈ next cfg s t → l = .parkSpur

/-- (c) corollary, QUIESCENT DEADLOCK FREEDOM: in a reachable state in which no thread can take a
step (spurious park returns aside), the lock is free, and the executor has served every recorded
wake (no idle Pending manual future has `wakes > 0` - the one thing the lock cannot do itself is
re-poll a woken task), nobody is waiting: the queue is empty, no thread is parked, no future is
Pending. -/
theorem mutex_quiescent_no_blocked_waiter {cfg : Cfg} {s : State} (hr : Reach cfg s)
    (hq : Quiescent cfg s) (hfree : s.word.locked = false)
    (hexec : ∀ g, (s.fut g).bo = false → (s.fut g).phase = .startedNode → (s.fut g).busy = false → s.wakes g = 0) :
    s.wl.queue = [] ∧ (∀ u, ¬ ParkedBlocked s u) ∧ (∀ f, ¬ PendingBlocked s f) := by
  obtain ⟨hi, hw⟩ := WInv_reach hr
  obtain ⟨hwn, hbe⟩ := extra_reach hr
  have stuck : ∀ t, (∃ l s', (l, s') ∈ next cfg s t ∧ l ≠ .parkSpur) → False := by
    rintro t ⟨l, s', hm, hne⟩; exact hne (hq t l s' hm)
  have hempty : s.wl.queue = [] := by
    cases hqe : s.wl.queue with
    | nil => rfl
    | cons hd rest =>
      exfalso
      have hh : s.wl.queue.head? = some hd := by rw [hqe]; rfl
      have hl : (s.wl.node hd).linked = true := (hi.wf.linked hd).2 (by rw [hqe]; exact List.mem_cons_self)
      have act : ∀ u, activePc (s.th u).pc = true → False := fun u ha =>
        stuck u (runnable_enabled (by cases hp : (s.th u).pc <;> rw [hp] at ha <;> first | rfl | cases ha))
      have pre : ∀ u, PreWake s u → False := by
        intro u hp
        refine stuck u (runnable_enabled ?_)
        rcases hp with hp | ⟨hp, _⟩ <;> cases hpc : (s.th u).pc <;> rw [hpc] at hp <;> first | rfl | cases hp
      have post : ∀ u n, PostWake s u n → False := by
        rintro u n ⟨hp, w, hw0, _⟩
        cases hpc : (s.th u).pc <;> rw [hpc] at hp <;> try (cases hp)
        · exact stuck u (runnable_enabled (by rw [hpc]; rfl))
        · obtain ⟨v, hv⟩ := hwn u hpc
          exact stuck u (wnWake_enabled hpc hv)
      rcases hw.nlw hfree hd hh with ⟨u, hu⟩ | hwk | ⟨u, _, hu⟩
      · exact pre u hu
      · rcases hw.wk hd hl hwk with hnb | ⟨u, hu⟩
        · apply hnb
          cases hd with
          | thr v =>
            obtain ⟨_, hsl⟩ := hi.thrNode v hl
            by_cases hp : (s.th v).pc = .wPark
            · refine ⟨hp, ?_⟩
              cases htk : s.token v with
              | false => rfl
              | true => exact (stuck v (park_enabled (Or.inl hp) htk)).elim
            · exfalso
              refine stuck v (runnable_enabled ?_)
              cases hpc : (s.th v).pc <;> rw [hpc] at hsl hp <;> first | rfl | exact absurd rfl hp | cases hsl
          | fut g =>
            have hph := hi.futNode g hl
            cases hbo : (s.fut g).bo with
            | true =>
              simp only [OwnerBlocked, hbo, ↓reduceIte]
              have hbusy : (s.fut g).busy = true := by
                rcases hw.bb g hbo with h1 | h1
                · exact h1
                · rw [hph] at h1; cases h1
              obtain ⟨v, hc, hp⟩ := hbe g hbusy
              by_cases hpb : (s.th v).pc = .boPark
              · refine ⟨v, hc, hpb, ?_⟩
                cases htk : s.token v with
                | false => rfl
                | true => exact (stuck v (park_enabled (Or.inr hpb) htk)).elim
              · exfalso
                refine stuck v (runnable_enabled ?_)
                cases hpc : (s.th v).pc <;> rw [hpc] at hp hpb <;> first | rfl | exact absurd rfl hpb | cases hp
            | false =>
              simp only [OwnerBlocked, hbo, Bool.false_eq_true, ↓reduceIte]
              have hnb : (s.fut g).busy = false := by
                cases hbz : (s.fut g).busy with
                | false => rfl
                | true =>
                  exfalso
                  obtain ⟨v, hc, hp⟩ := hbe g hbz
                  have hbk : (s.th v).pc ≠ .boPark := by
                    intro hpb
                    have := hw.boPark v hpb
                    rw [hw.boc v g hc hp, hbo] at this; cases this
                  refine stuck v (runnable_enabled ?_)
                  cases hpc : (s.th v).pc <;> rw [hpc] at hp hbk <;> first | rfl | exact absurd rfl hbk | cases hp
              exact ⟨hnb, hexec g hbo hph hnb⟩
        · exact post u hd hu
      · exact act u hu
  refine ⟨hempty, ?_, ?_⟩
  · intro u ⟨hp, _⟩
    have := (hi.wf.linked _).1 (hw.pk u (by rcases hp with hp | hp <;> simp [hp]))
    rw [hempty] at this; cases this
  · intro f ⟨hph, hbz, _⟩
    have := (hi.wf.linked _).1 (hw.fl f hph hbz)
    rw [hempty] at this; cases this

/-! non-vacuity of (c): thread 0 has released (its `fetch_and` read `HAS_QUEUED`) and is about to
take the list lock in `wake_next`; thread 1 is parked without a token; the lock is free. -/

def schedRel : List (Tid × Nat) := schedPark ++ [(0,0),(0,0)]

theorem nlw_hypotheses_reachable :
    ∃ s, Reach {} s ∧ s.word.locked = false ∧ ParkedBlocked s 1 ∧ PreWake s 0 := by
  have he : ∃ s, exec {} (init progPark) schedRel = some s := by
    cases h : exec {} (init progPark) schedRel with
    | none => exact absurd h (by decide)
    | some s => exact ⟨s, rfl⟩
  obtain ⟨s, hs⟩ := he
  refine ⟨s, execOf_reach _ _ _ (ReachOf.init ⟨progPark, rfl⟩) hs, ?_⟩
  have h1 : ((exec {} (init progPark) schedRel).map fun s =>
      (s.word.locked, (s.th 1).pc, s.token 1, (s.th 0).pc)) = some (false, .wPark, false, .llSwap .wakeNext) := by
    decide
  rw [hs] at h1
  simp only [Option.map_some, Option.some.injEq, Prod.mk.injEq] at h1
  exact ⟨h1.1, ⟨Or.inl h1.2.1, h1.2.2.1⟩, Or.inl (by rw [h1.2.2.2]; rfl)⟩

example : ∃ s hd rest, Reach {} s ∧ s.wl.queue = hd :: rest := by
  obtain ⟨s, hr, hf, hb, _⟩ := nlw_hypotheses_reachable
  obtain ⟨hd, rest, hq, _⟩ := mutex_no_lost_wakeup hr hf (Or.inl ⟨1, hb⟩)
  exact ⟨s, hd, rest, hr, hq⟩

/-- the state in which every program has ended is quiescent (and satisfies the corollary's hypotheses) -/
example : Reach {} (init fun _ => []) ∧ Quiescent {} (init fun _ => []) ∧ (init fun _ => []).word.locked = false :=
  ⟨ReachOf.init ⟨_, rfl⟩, by intro t l s' h; simp [next, init, nIdle] at h, rfl⟩

end MutexTheorems

/-! ## HybridRwLock -/

section RwLockTheorems
open Fv.Sync.RwLock

/-- (a) MUTUAL EXCLUSION: in every reachable state a write holder excludes every other holder
(read guards may coexist, see `rwlock_reader_count`). -/
theorem rwlock_mutual_exclusion {cfg : RwLock.Cfg} {s : RwLock.State} (hr : RwLock.Reach cfg s) :
    ∀ g ∈ s.holders, g.2 = true → s.holders = [g] := RwLock.mutual_exclusion hr

/-- (a) while `WRITE_LOCKED` is clear every guard is a read guard and the reader count of the state
word is exactly the number of read guards. -/
theorem rwlock_reader_count {cfg : RwLock.Cfg} {s : RwLock.State} (hr : RwLock.Reach cfg s)
    (hl : s.word.wl = false) : (∀ g ∈ s.holders, g.2 = false) ∧ s.holders.length = s.word.readers :=
  RwLock.reader_count hr hl

/-- (b) `try_read` / `try_write` are straight-line: ≤ 3 own steps, never park / yield / spin. -/
theorem rwlock_try_bounded {cfg : RwLock.Cfg} {s s' : RwLock.State} {t : Tid} {l : RwLock.Lbl}
    (h : (l, s') ∈ RwLock.next cfg s t) :
    ((l = .call .tryRead ∨ l = .call .tryWrite) → RwLock.tryRank (s'.th t).pc = 3)
    ∧ (0 < RwLock.tryRank (s.th t).pc →
        l ≠ .park ∧ l ≠ .parkSpur ∧ l ≠ .yield ∧ l ≠ .spin
          ∧ RwLock.tryRank (s'.th t).pc < RwLock.tryRank (s.th t).pc)
    ∧ (∀ u, u ≠ t → s'.th u = s.th u) := RwLock.try_bounded h

/-- (d) the wait-list invariant holds in every reachable state (wake_waiters unlinking other
threads' reader nodes, future drops before / after a wake included). -/
theorem rwlock_list_wf {cfg : RwLock.Cfg} {s : RwLock.State} (hr : RwLock.Reach cfg s) : s.wl.WF :=
  RwLock.list_wf hr

/-- (d) no dangling node: a queued stack node belongs to a thread inside `read_slow`/`write_slow`,
a queued heap node to a live future whose node is allocated. -/
theorem rwlock_queued_node_has_live_owner {cfg : RwLock.Cfg} {s : RwLock.State} (hr : RwLock.Reach cfg s) :
    ∀ n ∈ s.wl.queue,
      match n with
      | .thr t => (s.th t).cur = none ∧ RwLock.slowL (s.th t).pc = true
      | .fut f => (s.fut f).phase = .startedNode := by
  have hi := RwLock.Inv_reach hr
  intro n hn
  have hl := (hi.wf.linked n).2 hn
  cases n with
  | thr t => exact ⟨(hi.thrNode t hl).1, (hi.thrNode t hl).2.1⟩
  | fut f => exact hi.futNode f hl

/-- (e) WRITER GATE, part 1: whenever no list critical section is open, `WRITER_PENDING` is set
exactly while a writer node is queued. -/
theorem rwlock_writer_pending_iff_writer_queued {cfg : RwLock.Cfg} {s : RwLock.State}
    (hr : RwLock.Reach cfg s) (hl : s.wl.locked = false) :
    s.word.wp = true ↔ ∃ n ∈ s.wl.queue, (s.wl.node n).isWriter = true := RwLock.wp_iff_writer_queued hr hl

/-- (e) WRITER GATE, part 2: a read-acquiring CAS succeeds only from a state word with
`WRITER_PENDING` and `WRITE_LOCKED` clear. -/
theorem rwlock_reader_cas_needs_flag_clear {cfg : RwLock.Cfg} {s s' : RwLock.State} {t : Tid} {l : RwLock.Lbl}
    (hr : RwLock.Reach cfg s) (h : (l, s') ∈ RwLock.next cfg s t) {w : Bool} {old new : Nat}
    (hl : l = .cas .state w .acquire .relaxed old new true) (hw : (s.th t).wr = false) :
    s.word.wp = false ∧ s.word.wl = false :=
  ⟨(RwLock.reader_cas_needs_flag_clear hr h hl hw).1, (RwLock.reader_cas_needs_flag_clear hr h hl hw).2.1⟩

/-- (e) WRITER NON-STARVATION, safety form: while a writer node is queued (and no list critical
section is open) no reader can acquire the lock - every read-acquiring CAS fails. -/
theorem rwlock_writer_gate {cfg : RwLock.Cfg} {s s' : RwLock.State} {t : Tid} {l : RwLock.Lbl}
    (hr : RwLock.Reach cfg s) (hl : s.wl.locked = false) {n : Nid} (hn : n ∈ s.wl.queue)
    (hnw : (s.wl.node n).isWriter = true) (h : (l, s') ∈ RwLock.next cfg s t) (hw : (s.th t).wr = false)
    {w : Bool} {old new : Nat} : l ≠ .cas .state w .acquire .relaxed old new true :=
  RwLock.writer_gate hr hl hn hnw h hw

/-- (e) `HAS_QUEUED` is set exactly while the queue is non-empty (no list critical section open). -/
theorem rwlock_has_queued_iff_nonempty {cfg : RwLock.Cfg} {s : RwLock.State}
    (hr : RwLock.Reach cfg s) (hl : s.wl.locked = false) : s.word.hq = true ↔ s.wl.queue ≠ [] :=
  RwLock.hq_iff_nonempty hr hl

end RwLockTheorems

end Fv.Props.C10
