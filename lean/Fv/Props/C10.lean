import Fv.Lemmas.SyncMutexInv2
/-!
# C10 — hybrid locks: mutual exclusion, wake on release, cancel-safe acquisition

Models (B level, one visible action per step, all programs / thread counts / interleavings):
`Fv/Sync/WaitList.lean`, `Fv/Sync/Mutex.lean` (`fibre::sync::HybridMutex`), `Fv/Sync/RwLock.lean`
(`HybridRwLock`).  `Mutex.Reach cfg s`: `s` is reachable from an initial state (any programs) by
any interleaving of thread steps (`Mutex.next`), for any spin / poll budgets `cfg`.

Theorems here (helpers in `Fv/Lemmas/Sync*.lean`):
* (a) `mutex_mutual_exclusion`, `mutex_locked_iff_held` — a holder excludes every other holder;
* (b) `mutex_try_lock_bounded` — `try_lock` is straight-line: ≤ 3 own steps, never parks/spins;
* (d) `mutex_list_wf`, `mutex_queued_node_has_live_owner`, `mutex_list_lock_exclusive` — the wait
  list is exactly the set of linked nodes (no duplicates, counters exact) in every reachable
  state, whatever futures are dropped and whenever; every queued node belongs to a waiter that is
  still inside its acquisition (thread in `lock_slow`, or a live future whose node is allocated),
  so no wake ever touches a freed node; list critical sections exclude each other.
-/
namespace Fv.Props.C10
open Fv.Sync Fv.Sync.Mutex

/-! ## HybridMutex -/

/-- (a) MUTUAL EXCLUSION: in every reachable state a guard holder excludes every other holder. -/
theorem mutex_mutual_exclusion {cfg : Cfg} {s : State} (h : Reach cfg s) :
    ∀ g ∈ s.holders, s.holders = [g] := by
  have hi := Inv_reach h
  intro g hg
  cases hl : s.word.locked
  · rw [hi.freeEmpty hl] at hg; cases hg
  · obtain ⟨u, hu⟩ := hi.lockedHeld hl
    rw [hu] at hg ⊢; simp at hg; rw [hg]

/-- (a) the `LOCKED` bit is set exactly while a guard exists (ghost `holders`: added by the
acquiring CAS, removed by the releasing `fetch_and`). -/
theorem mutex_locked_iff_held {cfg : Cfg} {s : State} (h : Reach cfg s) :
    s.word.locked = true ↔ s.holders ≠ [] := by
  have hi := Inv_reach h
  constructor
  · intro hl; obtain ⟨u, hu⟩ := hi.lockedHeld hl; rw [hu]; simp
  · intro hne
    cases hl : s.word.locked
    · exact absurd (hi.freeEmpty hl) hne
    · rfl

/-- own-step budget of a `try_lock` in progress (also: a pending `ret`) -/
def tryRank : Pc → Nat
  | .taLoad .tryLock => 3
  | .taCas .tryLock => 2
  | .ret _ => 1
  | _ => 0

/-- (b) `try_lock` never blocks: after `call try_lock` the thread is at rank 3; every own step
from a positive rank is a load, a CAS or the return (never `park`, `yield`, `spin`) and strictly
decreases the rank; steps of other threads do not touch it.  Hence `try_lock` returns after at
most 3 further own steps, in every interleaving. -/
theorem mutex_try_lock_bounded {cfg : Cfg} {s s' : State} {t : Tid} {l : Lbl}
    (h : (l, s') ∈ next cfg s t) :
    (l = .call .tryLock → tryRank (s'.th t).pc = 3)
    ∧ (0 < tryRank (s.th t).pc →
        l ≠ .park ∧ l ≠ .parkSpur ∧ l ≠ .yield ∧ l ≠ .spin ∧ tryRank (s'.th t).pc < tryRank (s.th t).pc)
    ∧ (∀ u, u ≠ t → s'.th u = s.th u) := by
  have hs := step_of_mem h
  refine ⟨?_, ?_, step_th_other hs⟩
  · intro hl
    cases hs <;> simp_all [callStep, setTh, tryRank]
  · intro hr
    cases hs
    case taLoadLocked k hpc hl => cases k <;> simp_all [tryRank, taFail, withPc, setTh]
    case taLoadFree k hpc hl => cases k <;> simp_all [tryRank, setTh]
    case taCasOk k hpc he => cases k <;> simp_all [tryRank, taSucc, withPc, setTh]
    case taCasFail k hpc he => cases k <;> simp_all [tryRank, taFail, withPc, setTh]
    all_goals simp_all [tryRank]

/-- (d) LIST INVARIANT: in every reachable state the FIFO holds exactly the linked nodes, without
repetition, and `len` / `writers` are exact — across every future drop, before or after a wake. -/
theorem mutex_list_wf {cfg : Cfg} {s : State} (h : Reach cfg s) : s.wl.WF := (Inv_reach h).wf

/-- (d) NO DANGLING NODE: a queued stack node belongs to a thread that is still inside
`lock_slow` (its frame is alive); a queued heap node belongs to a future that is alive and has
its node allocated.  (A dropped, completed or never-queued future has no node in the list.) -/
theorem mutex_queued_node_has_live_owner {cfg : Cfg} {s : State} (h : Reach cfg s) :
    ∀ n ∈ s.wl.queue,
      match n with
      | .thr t => (s.th t).cur = none ∧ slowL (s.th t).pc = true
      | .fut f => (s.fut f).phase = .startedNode := by
  have hi := Inv_reach h
  intro n hn
  have hl := (hi.wf.linked n).2 hn
  cases n with
  | thr t => exact hi.thrNode t hl
  | fut f => exact hi.futNode f hl

/-- (d) the list spinlock gives exclusion: at most one thread is inside a list critical section
and the bit is set while it is. -/
theorem mutex_list_lock_exclusive {cfg : Cfg} {s : State} (h : Reach cfg s) {t u : Tid}
    (ht : inLL (s.th t).pc = true) (hu : inLL (s.th u).pc = true) : t = u ∧ s.wl.locked = true :=
  ⟨((Inv_reach h).ll u hu).2 t ht, ((Inv_reach h).ll t ht).1⟩

/-! ### non-vacuity: a reachable state with a parked waiter -/

/-- thread 0 locks, thread 1 finds the lock held, queues itself and parks -/
def progPark : Tid → List MOp := fun t => if t = 0 then [.lock, .unlock] else if t = 1 then [.lock, .unlock] else []

def schedPark : List (Tid × Nat) :=
  [(0,0),(0,0),(0,0),(0,0), (1,0),(1,0),(1,0),(1,0),(1,0),(1,0),(1,0),(1,0),(1,0),(1,0)]

theorem parked_state_reachable :
    ∃ s, Reach {} s ∧ (s.th 1).pc = .wPark ∧ s.token 1 = false ∧ s.word.locked = true
      ∧ s.wl.queue = [.thr 1] ∧ s.holders = [(0, true)] := by
  have he : ∃ s, exec {} (init progPark) schedPark = some s := by
    cases h : exec {} (init progPark) schedPark with
    | none => exact absurd h (by decide)
    | some s => exact ⟨s, rfl⟩
  obtain ⟨s, hs⟩ := he
  refine ⟨s, execOf_reach _ _ _ (ReachOf.init ⟨progPark, rfl⟩) hs, ?_⟩
  have h1 : ((exec {} (init progPark) schedPark).map fun s =>
      ((s.th 1).pc, s.token 1, s.word.locked, s.wl.queue)) = some (.wPark, false, true, [.thr 1]) := by decide
  have h2 : ((exec {} (init progPark) schedPark).map fun s => s.holders) = some [(0, true)] := by decide
  rw [hs] at h1 h2
  simp only [Option.map_some, Option.some.injEq, Prod.mk.injEq] at h1 h2
  exact ⟨h1.1, h1.2.1, h1.2.2.1, h1.2.2.2, h2⟩

example : ∃ s, Reach {} s ∧ s.holders ≠ [] := by
  obtain ⟨s, hr, _, _, _, _, hh⟩ := parked_state_reachable
  exact ⟨s, hr, by rw [hh]; simp⟩

end Fv.Props.C10
