import Fv.Lemmas.TopicDisc3
/-!
C04 (disconnect protocol) — the topic channel's part, on the model `Fv.Chan.Topic`.
What holds is proved for every state; what the code violates is shown false by `decide`
witnesses that are also replayed on the implementation (findings/C04_topic.case).
The sender-side Disconnected clauses (drain then Disconnected, final, one-of-several handles)
are in `Fv.Props.C08` (`C08_disc_*`, `C08_fails_F4*`).
-/
namespace Fv.Props.C04Topic
open Fv.Chan.Topic

/-- (vi) sender: `close` on a handle whose flag is set reports `CloseError` and changes nothing -/
theorem sender_close_twice (s : St) (h : Nat) (x : Tx) (hx : txLive s h = some x) (hc : x.closed = true) :
    step s (.sClose h) = (s, .closeErr) := by
  simp [step, sClose, hx, hc]

/-- (v) sender: a handle that was itself closed rejects `send`, touching nothing -/
theorem send_on_closed_sender (s : St) (h : Nat) (x : Tx) (t : Topic) (v : Val) (hx : txLive s h = some x)
    (hc : x.closed = true) : step s (.send h t v) = (s, .closed) := by
  simp [step, send, hx, hc]

/-- (iii) after `receiver_count` reached zero every send is refused with Closed (the value is
not consumed: `SendError::Closed` carries no payload in this flavour) -/
theorem send_without_receivers (s : St) (h : Nat) (x : Tx) (t : Topic) (v : Val) (hx : txLive s h = some x)
    (hc : s.rcount = 0) : step s (.send h t v) = (s, .closed) := by
  simp [step, send, hx, hc]

/-- (vi) receiver: `close` on a handle whose flag is set reports `CloseError` -/
theorem receiver_close_twice (s : St) (r : Nat) (x : Rx) (hx : rxLive s r = some x) (hc : x.closed = true) :
    step s (.rClose r) = (s, .closeErr) := by
  simp [step, rClose, hx, hc]

/-- drain-then-Disconnected at the mailbox: a receive form never answers Disconnected while the
mailbox holds a value -/
theorem drain_before_disconnected (s : St) (op : Op) (r : Nat) (ht : recvTarget op = some r)
    (hres : (step s op).2 = .disc ∨ (step s op).2 = .none) : bufOf s r = [] := by
  obtain ⟨x, hx, _, hb, _⟩ := recv_disc_cases s op r ht hres
  simp [bufOf, hx, hb]

/-- (iv)/(vi) dropping a receiver handle (either flavour) whose `close()` already succeeded gives up
nothing a second time: `receiver_count` and the topic lists are untouched -/
theorem drop_after_close_keeps_count (s : St) (r : Nat) (x : Rx) (hx : rxLive s r = some x) (hc : x.closed = true) :
    (step s (.rDrop r)).1.rcount = s.rcount ∧ (step s (.rDrop r)).1.regs = s.regs := by
  simp [step, rDrop, hx, hc]

/-- regression of the fixed double decrement: async `close()` then drop, a second receiver stays
reachable for `send` -/
theorem async_close_then_drop_ok :
    results (init 2 .async) [Op.rClone 0, .subscribe 1 1, .rClose 0, .rDrop 0, .send 0 1 1, .tryRecv 1]
      = [.handle 1, .unit, .ok, .unit, .ok, .msg 1 1] := by
  decide

/-! ### false on the model and on the code -/

/-- F3 (topic): `try_recv` and `recv` hand out values on a receiver handle whose `close()`
succeeded; the second `close` correctly reports `CloseError` -/
theorem fails_F3_recv_on_closed_receiver :
    results (init 2 .sync) [Op.subscribe 0 1, .send 0 1 5, .send 0 1 6, .rClose 0, .rClose 0, .tryRecv 0, .recv 0]
      = [.unit, .ok, .ok, .ok, .closeErr, .msg 1 5, .msg 1 6] := by
  decide

/-- `to_async`/`to_sync` of a receiver reset its `closed` flag: `is_closed()` turns false, the
drop decrements again, `send` is refused while receiver 1 is alive -/
theorem fails_convert_resets_closed :
    results (init 2 .sync) [Op.rClone 0, .subscribe 1 1, .rClose 0, .rConv 0, .rIsClosed 0, .rDrop 0, .send 0 1 1]
      = [.handle 1, .unit, .ok, .unit, .bool false, .unit, .closed] := by
  decide

/-- … and `close()` succeeds a second time after the conversion -/
theorem fails_convert_close_twice_ok :
    results (init 2 .sync) [Op.rClose 0, .rConv 0, .rClose 0, .send 0 1 1] = [.ok, .unit, .ok, .ok] := by
  decide

end Fv.Props.C04Topic
