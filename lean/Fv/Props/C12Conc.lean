import Fv.Props.CacheConc
/-!
# C12 under interleavings — no expired entry is served

Model: `Fv.Cache.Conc` with a virtual clock (`State.now`, advanced by the environment label `advance` at
any point of any interleaving), a global TTL and TTI (`Cfg.ttl`, `Cfg.tti`), per-insert TTL
(`insert_with_ttl`), and the code's placement of its clock reads relative to its locks:
`get`/`fetch`/`peek` evaluate `is_expired` (which reads the clock) INSIDE the shard read-lock section;
`insert` builds its entry — deadline = clock + TTL — before taking any lock (at the call);
`entry().or_insert` builds it inside the write-lock section. The tie checks that placement on every
step (footprint: acquisitions and clock reads in program order).

Programs may MIX calls on the sync handle (`Cache`) and on the async handle (`AsyncCache`): the environment
label `call op async` chooses the handle per call, and every theorem below quantifies over such mixed
programs (see `Fv.Props.CacheConcAsync` for what differs between the two handles).
-/
namespace Fv.Props.C12Conc
open Fv.Cache.Conc

/-- the key a value-returning step looks up -/
def keyOf : PC → Option Nat
  | .rd k _ => some k
  | .oi k _ _ => some k
  | _ => none

/-- "a step with label `l` that returns a value returns it from a binding that is unexpired at that
moment" -/
def ServesOnlyUnexpired (l : Label) : Prop :=
  ∀ (c : Cfg) (s s' : State) (t v : Nat), Reach c s → step c s t l = some s' →
    s'.pc t = .done (some v) → (∀ r, s.pc t ≠ .done r) →
    ∀ k e, keyOf (s.pc t) = some k → s.map k = some e → expired c s.now e = false

/-- **get / fetch / peek never serve an expired entry**, for every interleaving of operations,
maintenance and clock advances: a read that returns a value returns it from a binding whose TTL deadline
is unset or in the future and which has not been idle for the TTI, at the time of its critical section. -/
theorem C12c_read_serves_only_unexpired : ServesOnlyUnexpired .read := by
  intro c s s' t v _ h hd _ k e hk hm
  replace h := step_step0 h
  simp only [step0] at h
  unfold stepRead at h
  split at h
  · rename_i k' pk hpc
    rw [hpc] at hk; simp [keyOf] at hk; subst hk
    rw [hm] at h
    simp only at h
    split at h
    · simp at h; subst h; simp at hd
    · rename_i hne; simpa using hne
  · simp at h

/-- spelled out: TTL deadline not reached and not idle for the TTI -/
theorem C12c_read_unexpired_spelled {c : Cfg} {s s' : State} {t v k : Nat} {e : Entry} (hr : Reach c s)
    (h : step c s t .read = some s') (hd : s'.pc t = .done (some v)) (hn : ∀ r, s.pc t ≠ .done r)
    (hk : keyOf (s.pc t) = some k) (hm : s.map k = some e) :
    (e.exp = 0 ∨ s.now < e.exp) ∧ (c.tti = 0 ∨ s.now < e.la + c.tti) := by
  have := C12c_read_serves_only_unexpired c s s' t v hr h hd hn k e hk hm
  simp only [expired, Bool.or_eq_false_iff, Bool.and_eq_false_iff, decide_eq_false_iff_not] at this
  omega

/-- a read of a resident but expired binding returns `none` and is recorded as such (`rdExp`) -/
theorem C12c_expired_read_returns_none {c : Cfg} {s s' : State} {t k : Nat} {pk : Bool} {e : Entry}
    (hpc : s.pc t = .rd k pk) (hm : s.map k = some e) (he : expired c s.now e = true)
    (h : step c s t .read = some s') : s'.pc t = .done none ∧ s'.hist = s.hist ++ [.rdExp t k, .ret t none] ∧ s'.map = s.map := by
  replace h := step_step0 h
  simp only [step0, stepRead, hpc, hm, he, if_true] at h
  simp at h; subst h; simp

/-- an `rdExp` event in the history had a binding in the register: the miss was due to expiry -/
theorem C12c_expired_read_had_binding {c : Cfg} {s : State} (h : Reach c s) {pre post : List HEv} {t k : Nat}
    (hs : s.hist = pre ++ .rdExp t k :: post) : (regOf emptyReg pre k).isSome = true := by
  have := (invR_reach h).ok
  rw [hs] at this
  simpa [evOk] using (Fv.Props.CacheConc.prefix_ok this).2

/-- **peek does not refresh the idle time** (nor anything else in the map) -/
theorem C12c_peek_no_refresh {c : Cfg} {s s' : State} {t k : Nat} (hpc : s.pc t = .rd k true)
    (h : step c s t .read = some s') (j : Nat) : s'.map j = s.map j := by
  replace h := step_step0 h
  simp only [step0, stepRead, hpc] at h
  split at h
  · simp at h; subst h; rfl
  · split at h
    · simp at h; subst h; rfl
    · simp at h; subst h
      simp only [upd_apply]; split
      · rename_i e _ _ hj; subst hj; simp_all
      · rfl

/-- a hit of get / fetch refreshes exactly the idle time of the binding it served -/
theorem C12c_get_refreshes_idle_time {c : Cfg} {s s' : State} {t k : Nat} {e : Entry} (hpc : s.pc t = .rd k false)
    (hm : s.map k = some e) (he : expired c s.now e = false) (htti : c.tti ≠ 0)
    (h : step c s t .read = some s') : s'.map k = some { e with la := s.now } ∧ s'.pc t = .done (some e.val) := by
  replace h := step_step0 h
  simp only [step0, stepRead, hpc, hm, he] at h
  simp [htti] at h; subst h; simp

/-- `insert` fixes the deadline when it is CALLED (the entry is built before any lock is taken):
deadline = clock at the call + TTL (per-insert TTL if given, else the global one; none if neither) -/
theorem C12c_insert_deadline_from_call {c : Cfg} {s s' : State} {t k v co : Nat} {o : Option Nat}
    (h : step c s t (.call (.insert k v co o) false) = some s') :
    s'.pc t = .ins k v co (deadline c s.now o) (if c.tti = 0 then 0 else s.now) := by
  replace h := step_step0 h
  simp only [step0] at h
  unfold stepCall at h
  repeat' split at h
  all_goals (simp at h; try subst h)
  all_goals simp [startPC]

/-- `entry().or_insert` fixes the deadline inside its write-lock section -/
theorem C12c_or_insert_deadline_in_section {c : Cfg} {s s' : State} {t k v co : Nat}
    (hpc : s.pc t = .oi k v co) (hm : s.map k = none) (h : step c s t .oiMap = some s') :
    s'.map k = some ⟨v, co, deadline c s.now none, if c.tti = 0 then 0 else s.now⟩ := by
  replace h := step_step0 h
  simp only [step0, stepOiMap, hpc, hm] at h
  simp at h; subst h; simp

/-- the TTI cleanup removes only expired entries: what it leaves out of the map was expired -/
theorem C12c_tti_cleanup_removes_only_expired {c : Cfg} {s : State} (vs : List Nat) :
    ∀ k ∈ expiredOf c s vs, ∃ e, s.map k = some e ∧ expired c s.now e = true := by
  intro k hk
  simp only [expiredOf, List.mem_filter] at hk
  cases hm : s.map k with
  | none => simp [hm] at hk
  | some e => exact ⟨e, rfl, by simpa [hm] using hk.2⟩

/-! ## known deviations (C12 findings F6, F17) restated on the concurrent model -/

def cfgTtl : Cfg := { nThreads := 2, nShards := 1, capacity := 100, ttl := 10 }

/-- thread 0 inserts key 1 (TTL 10), the clock advances by 10; then a `get`, an `entry().or_insert` and a
`compute` of key 1 by thread 1 -/
def prefixExpired : List (Nat × Label) :=
  [(0, .call (.insert 1 10 1 none) false), (0, .insMap), (0, .insEv), (0, .insAdd), (0, .coopSkip), (1, .advance 10)]

/-- non-vacuity of `C12c_read_serves_only_unexpired` / `C12c_expired_read_returns_none`: the `get`
returns `none` although the binding is resident -/
example : (run cfgTtl init (prefixExpired ++ [(1, .call (.get 1) false), (1, .read)])).map
    (fun s => (s.pc 1, (s.map 1).map (·.val))) = some (.done none, some 10) := by decide

/-- **F6**: `entry()` tests `contains_key` only, so `or_insert` hands out the expired value:
`ServesOnlyUnexpired` is false for the `oiMap` step. -/
theorem C12c_or_insert_serves_expired_fails_F6 : ¬ ServesOnlyUnexpired .oiMap := by
  intro hst
  let tr := prefixExpired ++ [(1, .call (.orInsert 1 11 1) false)]
  cases hr : run cfgTtl init tr with
  | none => exact absurd hr (by decide)
  | some s =>
    have h1 : (run cfgTtl init tr).map (fun s => (s.pc 1, s.map 1, s.now)) =
        some (.oi 1 11 1, some ⟨10, 1, 10, 0⟩, 10) := by decide
    rw [hr] at h1; simp at h1
    obtain ⟨hpc, hm, hnow⟩ := h1
    have hreach := Fv.Props.CacheConc.reach_of_run tr _ _ Reach.init hr
    have hb : (run cfgTtl init tr).map (fun s => blocked cfgTtl s 1 .oiMap) = some false := by decide
    rw [hr] at hb; simp at hb
    have hex : ∃ s', step cfgTtl s 1 .oiMap = some s' ∧ s'.pc 1 = .done (some 10) := by
      simp [step, hb, step0, stepOiMap, hpc, hm]
    obtain ⟨s', hstep, hd⟩ := hex
    have := hst cfgTtl s s' 1 10 hreach hstep hd (by rw [hpc]; simp) 1 ⟨10, 1, 10, 0⟩ (by rw [hpc]; rfl) hm
    rw [hnow] at this
    exact absurd this (by decide)

/-- **F17**: `compute` / `try_compute` look the key up without an expiry check: they modify an expired
entry and report success. -/
theorem C12c_compute_on_expired_fails_F17 :
    (run cfgTtl init (prefixExpired ++ [(1, .call (.compute 1 1000) false), (1, .compute false)])).map
      (fun s => (s.pc 1, (s.map 1).map (fun e => (e.val, expired cfgTtl s.now e)))) =
      some (.done (some 1), some (1010, true)) := by decide

end Fv.Props.C12Conc
