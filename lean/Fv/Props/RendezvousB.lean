import Fv.Lemmas.RendezvousBSend
import Fv.Lemmas.RendezvousBNoLoss
import Fv.Lemmas.RendezvousBWake
/-!
# rendezvous core — B-model theorems (feed C01, C03, C05, C06 for the rdv_* flavours)

Model: `Fv.Chan.RendezvousB` (critical-section granularity small-step model of `internal/rendezvous.rs`).
Every theorem quantifies over every number of threads/tasks, every program and every interleaving.
-/
namespace Fv.Props.RendezvousB
open Fv.Chan.RendezvousB

/-! ## every reachable state -/

/-- **R1** a parked sender and a parked receiver never coexist (each arrival serves the opposite queue first). -/
theorem rdv_R1 {s} (h : Reach s) : s.sq = [] ∨ s.rq = [] := (invRK_reach h).r1

/-- **R2** a parked sender's record holds its item. -/
theorem rdv_R2 {s} (h : Reach s) {r : Nat} (hr : r ∈ s.sq) : s.slot r ≠ none := (invRK_reach h).r2 r hr

/-- **R3** DONE implies the sender wrote the item: a receiver that is about to read its record in state DONE finds its
destination filled; hence neither `expect` of the core can fire. -/
theorem rdv_R3 {s} (h : Reach s) {t r : Nat} (hw : recvWait (s.pc t) = some r) (hd : s.st r = .done) : s.slot r ≠ none :=
  (invRP_reach h).r3 t r hw hd

theorem rdv_no_panic {s} (h : Reach s) (t : Nat) : s.pc t ≠ .done .panicked := (invRP_reach h).np t

/-- **R4, the form that does hold**: a linked record is WAITING, or it is CANCELLED and its owner is exactly in the
window between its cancel CAS and its unlink under the lock. -/
theorem rdv_R4_weak {s} (h : Reach s) {r : Nat} (hr : r ∈ s.rq) :
    s.st r = .waiting ∨ (s.st r = .cancelled ∧ (s.pc (s.owner r) = .toUnl r ∨ s.pc (s.owner r) = .fdUnlR r)) := by
  have hk := invRK_reach h
  rcases hk.rq_st r hr with hw | hc
  · exact Or.inl hw
  · refine Or.inr ⟨hc, ?_⟩
    have ho := hk.rq_owner r hr
    have hl := hk.canc_r (s.owner r) r
    cases hp : s.pc (s.owner r) <;> simp [hp, recvIn] at ho <;> subst ho <;> simp [hp, liveR] at hl <;>
      first | exact absurd hc hl | simp

/-- **R4 as intended** (every linked record is WAITING) — FALSE on the code as it stands: `cancel_receiver` /
`cancel_sender` CAS `WAITING→CANCELLED` before taking the lock. -/
def R4_rdv_statement : Prop := ∀ s, Reach s → ∀ r, r ∈ s.rq → s.st r = .waiting

theorem reach_of_run (tr : List (Nat × Label)) (s0 s : State) (h0 : Reach s0) (h : run s0 tr = some s) : Reach s := by
  induction tr generalizing s0 with
  | nil => simp [run] at h; subst h; exact h0
  | cons a rest ih =>
    obtain ⟨t, l⟩ := a
    simp only [run, Option.bind] at h
    split at h
    · simp at h
    · rename_i s1 hs1; exact ih s1 (Reach.step h0 hs1) h

theorem R4_rdv_fails : ¬ R4_rdv_statement := by
  intro hC
  let tr : List (Nat × Label) := [(1, .call .recvTimeout0), (1, .adv), (1, .adv), (1, .adv)]
  cases hr : run init tr with
  | none => exact absurd hr (by decide)
  | some s =>
    have h1 : (run init tr).map (fun s => (s.rq, s.st 0)) = some ([0], .cancelled) := by decide
    rw [hr] at h1; simp at h1
    have := hC s (reach_of_run tr _ s .init hr) 0 (by rw [h1.1]; simp)
    rw [h1.2] at this; cases this

/-- **C03** a send reports Ok only after its token was handed over: the sender-initiated form decides Ok in the very
lock section that writes the receiver's destination, a parked sender reads DONE only after a receiver's lock section
took the item out of its slot. -/
theorem rdv_send_ok_only_by_handoff {s} (h : Reach s) {t v : Nat}
    (hp : s.pc t = .done (.sendOk v) ∨ ∃ a, s.pc t = .wakeThen a (.sendOk v)) : v ∈ s.handed := by
  have hS := invRS_reach h
  rcases hp with hp | ⟨a, hp⟩
  · exact hS.ok1 t v hp
  · exact hS.ok2 t a v hp

/-- a parked / Pending sender whose record reads DONE has had its token handed over; while the record is WAITING
its slot still holds exactly that token. -/
theorem rdv_parked_sender {s} (h : Reach s) {t r v : Nat} (hr : sendReg (s.pc t) = some r) (hv : sendTok (s.pc t) = some v) :
    (s.st r = .done → v ∈ s.handed) ∧ (s.slot r = none ∨ s.slot r = some v) := by
  have hS := invRS_reach h
  refine ⟨hS.reg_done t r v hr hv, ?_⟩
  have := hS.reg_tok t r hr; rwa [hv] at this

/-! ## C01: no loss — FALSE today (F1), true outside the F1 window -/

/-- Full statement: a send that reported Ok has been received, or its token sits in the destination of a
receiver that is going to return it. -/
def C01_rdv_statement : Prop :=
  ∀ s, Reach s → ∀ t v, s.pc t = .done (.sendOk v) → v ∈ s.recvd ∨ Pending s v

/-- **F1**: thread 1 is parked in `recv_timeout(0)`; its deadline passes and `cancel_receiver` CASes
WAITING→CANCELLED (outside the lock); before it gets the lock, `try_send(7)` pops the record, writes 7 into the
destination, stores DONE over CANCELLED and returns Ok; thread 1 then unlinks nothing and returns Timeout, dropping 7. -/
def trF1 : List (Nat × Label) :=
  [(1, .call .recvTimeout0), (1, .adv), (1, .adv), (1, .adv),
   (0, .call (.trySend 7)), (0, .adv), (0, .adv),
   (1, .adv)]

theorem F1_run : (run init trF1).map (fun s => (s.pc 0, s.pc 1, s.recvd, s.dropped)) =
    some (.done (.sendOk 7), .done .recvTimeout, [], [7]) := by decide
theorem F1_run_b : (run init trF1).map (fun s => (s.slot (s.destOf 7), s.handed)) = some (none, [7]) := by decide

theorem C01_fails_F1 : ¬ C01_rdv_statement := by
  intro hC
  cases hr : run init trF1 with
  | none => exact absurd hr (by decide)
  | some s =>
    have ha := F1_run; have hb := F1_run_b
    rw [hr] at ha hb; simp at ha hb
    rcases hC s (reach_of_run trF1 _ s .init hr) 0 7 ha.1 with h | h
    · rw [ha.2.2.1] at h; simp at h
    · unfold Pending at h; rw [hb.1] at h; simp at h

/-- **F1, future shape (C06)**: the same race with a `RecvFuture` that is dropped while Pending. -/
def trF1fut : List (Nat × Label) :=
  [(1, .call .recvFut), (1, .poll), (1, .adv),
   (1, .dropFut),
   (0, .call (.trySend 7)), (0, .adv), (0, .adv),
   (1, .adv)]

theorem C06_fails_F1_rdv_dropped_recv_future :
    (run init trF1fut).map (fun s => (s.pc 0, s.pc 1, s.recvd, s.dropped)) =
    some (.done (.sendOk 7), .done .futDropped, [], [7]) := by decide

/-- **F1, third shape**: a `RecvFuture` dropped after the hand-off committed and before it was polled abandons the
item (by the code's own comment). -/
theorem C06_fails_F1_rdv_done_future_dropped :
    (run init [(1, .call .recvFut), (1, .poll), (1, .adv), (0, .call (.trySend 7)), (0, .adv), (0, .adv), (1, .dropFut)]).map
      (fun s => (s.pc 0, s.pc 1, s.recvd, s.dropped)) =
    some (.done (.sendOk 7), .done .futDropped, [], [7]) := by decide

/-- **C01 for rendezvous, partial**: on every run in which no lock section pops a record that is no longer WAITING
(the window between a canceller's CAS and its unlink) and no `RecvFuture` is dropped after its hand-off committed,
a send that reported Ok has been received or sits in the destination of a receiver that will return it. -/
theorem C01_rdv_partial {s} (h : ReachB s) {t v : Nat} (hp : s.pc t = .done (.sendOk v)) : v ∈ s.recvd ∨ Pending s v :=
  (invRB_reach h).nl v ((invRS_reach h.reach).ok1 t v hp)

/-- every handed-over token (committed send) is accounted for, on the same runs -/
theorem rdv_no_loss_partial {s} (h : ReachB s) {v : Nat} (hv : v ∈ s.handed) : v ∈ s.recvd ∨ Pending s v :=
  (invRB_reach h).nl v hv

/-! ## C05 / C06: wake-ups -/

/-- **wake delivery**: a thread parked / a task Pending on a record whose state is already terminal (DONE,
DISCONNECTED) has a park token / a counted wake, or the peer that matched it (or the closing thread) has left the
lock and is about to issue that wake. -/
theorem rdv_wake_owed {s} (h : Reach s) {t r : Nat} (hw : waitish (s.pc t) = some r) (hf : s.st r ≠ .waiting) :
    0 < s.wakes t ∨ t ∈ owes (s.pc (s.wakeBy r)) := by
  by_cases h0 : s.wakes t = 0
  · exact Or.inr ((invRW_reach h).k3 t r hw hf h0)
  · exact Or.inl (Nat.pos_of_ne_zero h0)

/-- **no missed partner**: a receiver that is parked / Pending on a WAITING record is linked in the receiver store,
no sender is parked at the same time, and a sender handle is still alive — so it sleeps only while its
operation is impossible. -/
theorem rdv_no_missed_partner {s} (h : Reach s) {t r : Nat}
    (hb : s.pc t = .rPark r ∨ s.pc t = .arPend r) (hw : s.st r = .waiting) :
    r ∈ s.rq ∧ s.sq = [] ∧ s.senders ≠ 0 := by
  have hk := invRK_reach h
  have hm : r ∈ s.rq := hk.k4r t r (by rcases hb with hb | hb <;> simp [hb, recvReg]) hw
  refine ⟨hm, ?_, ?_⟩
  · rcases hk.r1 with h1 | h1
    · exact h1
    · rw [h1] at hm; simp at hm
  · intro h0; have := (invRP_reach h).d1 h0; rw [this] at hm; simp at hm

/-! ### non-vacuity -/

/-- a reachable hand-off: blocking send parked first, receiver takes the item, both return Ok -/
example : (run init [(0, .call (.send 7)), (0, .adv), (0, .adv), (1, .call .recv), (1, .adv), (1, .adv), (0, .spurious), (0, .adv)]).map
    (fun s => (s.pc 0, s.pc 1, s.handed, s.recvd, s.sq)) =
    some (.done (.sendOk 7), .done (.recvOk 7), [7], [7], []) := by decide

instance (s : State) (t : Nat) (l : Label) : Decidable (Benign s t l) := by
  unfold Benign
  cases l
  case adv =>
    simp only []
    cases hp : popTarget s t with
    | none => exact isTrue (by simp)
    | some r => exact decidable_of_iff (s.st r = .waiting) (by simp)
  case dropFut =>
    simp only []
    cases hp : s.pc t
    case arPend r' => exact decidable_of_iff (s.st r' ≠ .done) (by simp)
    all_goals exact isTrue (by simp)
  all_goals exact isTrue trivial

def runB (s : State) : List (Nat × Label) → Option State
  | [] => some s
  | (t, l) :: rest => if Benign s t l then (step s t l).bind (fun s' => runB s' rest) else none

theorem reachB_of_runB (tr : List (Nat × Label)) (s0 s : State) (h0 : ReachB s0) (h : runB s0 tr = some s) : ReachB s := by
  induction tr generalizing s0 with
  | nil => simp [runB] at h; subst h; exact h0
  | cons a rest ih =>
    obtain ⟨t, l⟩ := a
    simp only [runB] at h
    split at h
    · rename_i hb
      simp only [Option.bind] at h
      split at h
      · simp at h
      · rename_i s1 hs1; exact ih s1 (ReachB.step h0 hb hs1) h
    · simp at h

/-- non-vacuity of `C01_rdv_partial`: a benign run in which a send returned Ok while its token still sits in the
receiver's destination (the receiver has not been scheduled yet). -/
example : ∃ s, ReachB s ∧ s.pc 0 = .done (.sendOk 7) ∧ s.recvd = [] ∧ Pending s 7 := by
  let tr : List (Nat × Label) :=
    [(1, .call .recv), (1, .adv), (1, .adv), (0, .call (.trySend 7)), (0, .adv), (0, .adv)]
  cases hr : runB init tr with
  | none => exact absurd hr (by decide)
  | some s =>
    have h1 : (runB init tr).map (fun s => (s.pc 0, s.recvd)) = some (.done (.sendOk 7), []) := by decide
    have h2 : (runB init tr).map (fun s => (s.slot (s.destOf 7), s.st (s.destOf 7), recvWait (s.pc (s.owner (s.destOf 7))), s.destOf 7)) =
        some (some 7, .done, some 0, 0) := by decide
    rw [hr] at h1 h2; simp at h1 h2
    refine ⟨s, reachB_of_runB tr _ s .init hr, h1.1, h1.2, ?_⟩
    unfold Pending; rw [h2.1, h2.2.1, h2.2.2.1, h2.2.2.2]; simp

/-- the F1 run is (of course) not benign -/
example : runB init trF1 = none := by decide

end Fv.Props.RendezvousB
