import Fv.Lemmas.SpmcBWake
import Fv.Lemmas.SpmcBDrop
/-!
# SpmcB — step-level theorems about the broadcast SPMC channel (feeds C07; spmc parts of C03/C04/C05/C09)

Model: `Fv.Chan.SpmcB` (one step = one visible action of `spmc/ring_buffer.rs` / `spmc/mod.rs`, with
`internal/left_right.rs` embedded through `Fv.Chan.LeftRightB`). Every theorem quantifies over every
capacity `cap > 0`, every program (calls are environment choices), every number of threads and of
receivers (cloned / closed / dropped at any time), single and batch forms, and every interleaving
(`Reach cap s`). "Untainted" (`s.taint = false`) excludes exactly two uses of the API in which the code
forgets a handle's `closed` flag (`clone` of a closed receiver, `to_async`/`to_sync` of a closed
handle); for those the statements are FALSE of the code — see the `…_fails_…` witnesses below.
-/
namespace Fv.Props.SpmcB
open Fv.Chan Fv.Chan.SpmcB
open Fv.Chan.LeftRightB (upd)

/-! ## Left-right, as a component (any data, any mutations, any number of readers) -/
section LeftRight
variable {α Op : Type} (ap : Op → α → α) {a : α} {s : LeftRightB.Sys α Op}

/-- **A guard dereferences to a stable, consistent copy**: while a reader holds a guard on copy `i`,
copy `i` is exactly what the reader saw when it committed — it has not been mutated since. -/
theorem LR_snapshot_stable (h : LeftRightB.Reach ap a s) {t i : Nat} {v : α}
    (hg : s.pcs t = .rHold i v) : s.sh.data i = v := by
  have := (LeftRightB.inv_reach ap h).stage t
  rw [hg] at this; exact this.2

/-- **A copy is mutated only while no guard is on it** (first mutation of `modify`: the stale copy). -/
theorem LR_mut1_exclusive (h : LeftRightB.Reach ap a s) {w l : Nat} {o : Op}
    (hw : s.pcs w = .wMut1 o l) (t : Nat) (v : α) : s.pcs t ≠ .rHold (1 - l) v := by
  have hi := LeftRightB.inv_reach ap h
  intro hg
  have hst := hi.stage w; rw [hw] at hst
  have hl : l = s.sh.live := hst.1
  have h2 := hi.live2
  obtain ⟨u, hu⟩ := hi.view t (1 - l) v hg (by omega)
  have := LeftRightB.writer_unique hi.wl (LeftRightB.waiting_inW hu) (show LeftRightB.inW (s.pcs w) = true by rw [hw]; rfl)
  subst this; rw [hw] at hu; exact hu

/-- … second mutation of `modify`: the old live copy, after the readers drained. -/
theorem LR_mut2_exclusive (h : LeftRightB.Reach ap a s) {w l : Nat} {o : Op}
    (hw : s.pcs w = .wMut2 o l) (t : Nat) (v : α) : s.pcs t ≠ .rHold l v := by
  have hi := LeftRightB.inv_reach ap h
  intro hg
  have hst := hi.stage w; rw [hw] at hst
  obtain ⟨hl, hl2, _⟩ := hst
  obtain ⟨u, hu⟩ := hi.view t l v hg (by omega)
  have := LeftRightB.writer_unique hi.wl (LeftRightB.waiting_inW hu) (show LeftRightB.inW (s.pcs w) = true by rw [hw]; rfl)
  subst this; rw [hw] at hu; exact hu

/-- **Both copies are equal outside `modify`.** -/
theorem LR_copies_equal (h : LeftRightB.Reach ap a s) (hw : s.sh.wlock = none) : s.sh.data 0 = s.sh.data 1 :=
  (LeftRightB.inv_reach ap h).free hw

/-- **A reader's snapshot is one of the two consistent copies**: it is the published copy, or the
published copy is exactly one mutation ahead of it and the writer of that mutation is still waiting
for this reader to leave. -/
theorem LR_snapshot_one_of_two (h : LeftRightB.Reach ap a s) {t i : Nat} {v : α} (hg : s.pcs t = .rHold i v) :
    s.sh.data s.sh.live = v ∨
    ∃ w o, (s.pcs w = .wWait o i ∨ s.pcs w = .wSpin o i) ∧ s.sh.data s.sh.live = ap o v := by
  have hi := LeftRightB.inv_reach ap h
  have hv := LR_snapshot_stable ap h hg
  by_cases hl : i = s.sh.live
  · left; rw [← hl]; exact hv
  · right
    obtain ⟨w, hw⟩ := hi.view t i v hg hl
    have hst := hi.stage w
    cases hp : s.pcs w <;> rw [hp] at hw hst <;> simp only [LeftRightB.waitingOn] at hw
    · subst hw; exact ⟨w, _, Or.inl hp, by rw [hst.1, hst.2.2, hv]⟩
    · subst hw; exact ⟨w, _, Or.inr hp, by rw [hst.1, hst.2.2, hv]⟩

end LeftRight

/-! ## The channel -/

/-- The embedded left-right instance satisfies the component invariant in every reachable state
(tainted or not). -/
theorem lr_embedded {cap : Nat} {s : State} (h : Reach cap s) : LRI s := lri_reach h

/-- **One thread per handle**: the sender handle (and each receiver handle) is inside at most one
operation at a time — the premise "single producer" of the ring is a theorem of the model's API discipline. -/
theorem single_producer {cap : Nat} {s : State} (h : Reach cap s) {t u : Nat} {p q : SPC}
    (ht : s.pc t = .snd p) (hu : s.pc u = .snd q) : t = u := by
  have ha := invA_reach h
  have h1 := (ha.sown t).2 (by rw [ht]; rfl)
  have h2 := (ha.sown u).2 (by rw [hu]; rfl)
  rw [h1] at h2; exact Option.some.inj h2

/-- a receiver handle that exists and has not been closed -/
def Registered (s : State) (r : Nat) : Prop := s.rAlive r = true ∧ s.rclosed r = false

theorem registered_base {cap : Nat} {s : State} (hc : 0 < cap) (h : Reach cap s) (hnt : s.taint = false)
    {r : Nat} (hr : Registered s r) : rBase s.core r := by
  have hs := safe_reach hc h hnt
  exact ⟨hs.g.alive_lt r hr.1, resv_none_of_alive hs.g (r := r) hr.1, hr.2⟩

/-- **Every open receiver is in the published cursor list** (and in both copies). -/
theorem registered_published {cap : Nat} {s : State} (hc : 0 < cap) (h : Reach cap s) (hnt : s.taint = false)
    {r : Nat} (hr : Registered s r) : r ∈ s.pub :=
  mem_pub_of_base (lri_reach h) (safe_reach hc h hnt) (registered_base hc h hnt hr)

/-- **B1 — backpressure window.** For every open receiver `r`: its cursor never passes what has been
published, the producer is never more than `cap` ahead of it (counting sequence numbers already
published, which is ≥ `head`), hence `head − cursor ≤ cap`. -/
theorem B1_window {cap : Nat} {s : State} (hc : 0 < cap) (h : Reach cap s) (hnt : s.taint = false)
    {r : Nat} (hr : Registered s r) :
    s.cur r ≤ s.sent.length ∧ s.sent.length ≤ s.cur r + s.cap ∧ s.head ≤ s.sent.length ∧ s.head - s.cur r ≤ s.cap := by
  have hs := safe_reach hc h hnt
  have hm := registered_published hc h hnt hr
  have h1 := hs.g.lim_pub r hm
  have h2 := hs.g.n_le_lim
  have h3 := hs.g.cur_le r
  have h4 := hs.g.head_le
  simp only [State.core] at h1 h2 h3 h4
  exact ⟨h3, by omega, h4, by omega⟩

/-- … and whenever no slot write is in progress (`head` published), `cursor ≤ head` literally. -/
theorem B1_cursor_le_head {cap : Nat} {s : State} (hc : 0 < cap) (h : Reach cap s) (hnt : s.taint = false)
    (hidle : s.sOwner = none) (r : Nat) : s.cur r ≤ s.head := by
  have hs := safe_reach hc h hnt
  have := hs.idle hidle
  have h3 := hs.g.cur_le r
  simp only [State.core] at h3
  omega

/-- **The minimum over a SNAPSHOT of the cursor list is a lower bound of every cursor published NOW**
(cursors only grow; a clone starts at its parent's cursor and its `modify` cannot finish while the
producer still holds the guard of the older snapshot; a drop only removes a cursor). -/
theorem snapshot_min_is_lower_bound {cap : Nat} {s : State} (hc : 0 < cap) (h : Reach cap s) (hnt : s.taint = false)
    {t : Nat} {k : ScanK} {h0 i : Nat} {done : List Nat} {r : Nat} {m : Option Nat}
    (hpc : s.pc t = .snd (.sScan k h0 i done [r] m)) :
    ∀ x, x ∈ s.pub → omin m (s.cur r) ≤ s.cur x :=
  lb_all (lri_reach h) (safe_reach hc h hnt) hpc

/-- **The producer's subtraction `head − min` never underflows**: the minimum it computed is ≤ head. -/
theorem no_underflow {cap : Nat} {s : State} (hc : 0 < cap) (h : Reach cap s) (hnt : s.taint = false)
    {t : Nat} {k : ScanK} {h0 i : Nat} {L : List Nat} {m : Nat}
    (hpc : s.pc t = .snd (.sExit k h0 i L (some m))) (hk : sendK k = true) : m ≤ h0 ∧ h0 = s.head := by
  have hs := safe_reach hc h hnt
  have hf := hs.sf t _ hpc
  simp only [sFact] at hf
  obtain ⟨⟨f1, _⟩, _, f3⟩ := hf
  obtain ⟨a, _, c⟩ := f3 m rfl
  have : h0 = s.core.head := by cases k <;> simp_all [hOK2, sendK]
  exact ⟨by omega, this⟩

/-- **C03 / C07 backpressure: an unread value is never overwritten.** When the producer is about to
overwrite the slot of index `h+j` (which still holds index `h+j−cap`), every open receiver has
already moved past that old index. -/
theorem no_overwrite_unread {cap : Nat} {s : State} (hc : 0 < cap) (h : Reach cap s) (hnt : s.taint = false)
    {t : Nat} {x : SCtx} {h0 j k q : Nat} (hpc : s.pc t = .snd (.wVal x h0 j k q))
    {r : Nat} (hr : Registered s r) : h0 + j < s.cur r + s.cap := by
  have hs := safe_reach hc h hnt
  have hf := hs.sf t _ hpc
  simp only [sFact] at hf
  obtain ⟨_, _, f3, f4, _⟩ := hf
  have h1 := hs.g.lim_pub r (registered_published hc h hnt hr)
  simp only [State.core] at h1 f4
  omega

/-- **Data-race freedom of the slot payloads**: the producer's non-atomic write of a slot never
coincides with a receiver's non-atomic read of the same slot (single-item form). -/
theorem slot_write_read_disjoint {cap : Nat} {s : State} (hc : 0 < cap) (h : Reach cap s) (hnt : s.taint = false)
    {t u : Nat} {x : SCtx} {h0 j k q : Nat} (hpc : s.pc t = .snd (.wVal x h0 j k q))
    {r : Nat} {y : RCtx} {c : Nat} (hu : s.pc u = .rcv r (.rVal y c)) :
    c % s.cap ≠ (h0 + j) % s.cap := by
  have hs := safe_reach hc h hnt
  have hf := hs.sf t _ hpc
  simp only [sFact] at hf
  obtain ⟨_, f2, f3, f4, _⟩ := hf
  have hg := hs.rf u r _ hu
  simp only [rFact] at hg
  obtain ⟨hb, hcu, hlt⟩ := hg
  have h1 := hs.g.lim_pub r (mem_pub_of_base (lri_reach h) hs hb)
  simp only [State.core] at h1 f2 f4 hcu hlt
  exact mod_ne_of_lt (by omega) (by omega)

/-- … batch form: none of the `n` slots a `recv_batch` is cloning out is the one being written. -/
theorem slot_write_read_disjoint_batch {cap : Nat} {s : State} (hc : 0 < cap) (h : Reach cap s) (hnt : s.taint = false)
    {t u : Nat} {x : SCtx} {h0 j k q : Nat} (hpc : s.pc t = .snd (.wVal x h0 j k q))
    {r : Nat} {y : RCtx} {c n : Nat} (hu : s.pc u = .rcv r (.bVals y c n)) (i : Nat) (hi : i < n) :
    (c + i) % s.cap ≠ (h0 + j) % s.cap := by
  have hs := safe_reach hc h hnt
  have hf := hs.sf t _ hpc
  simp only [sFact] at hf
  obtain ⟨f1, f2, f3, f4, _⟩ := hf
  have hg := hs.rf u r _ hu
  simp only [rFact] at hg
  obtain ⟨hb, hcu, hle⟩ := hg
  have h1 := hs.g.lim_pub r (mem_pub_of_base (lri_reach h) hs hb)
  simp only [State.core] at h1 f1 f2 f4 hcu hle
  exact mod_ne_of_lt (by omega) (by omega)

/-- **B2 — slot contents.** Every index of the live window `[sent−cap, sent)` has its sequence number
`2i+1` in slot `i % cap`, and its payload too unless it is the single oldest one whose slot the
producer is overwriting right now. -/
theorem B2_slots {cap : Nat} {s : State} (hc : 0 < cap) (h : Reach cap s) (hnt : s.taint = false)
    (i : Nat) (hi : i < s.sent.length) (hw : s.sent.length ≤ i + s.cap) :
    s.seq (i % s.cap) = 2 * i + 1 ∧
    ((s.sent.length = i + s.cap → s.dirty = false) → s.val (i % s.cap) = s.sent.getD i 0) := by
  have hs := safe_reach hc h hnt
  exact ⟨hs.g.b2s i hi hw, hs.g.b2v i hi hw⟩

/-- **A receiver reads what was sent**: at the moment an open receiver clones the payload at its
cursor `c` out of slot `c % cap`, that slot holds exactly the `c`-th value ever sent. -/
theorem read_is_sent {cap : Nat} {s : State} (hc : 0 < cap) (h : Reach cap s) (hnt : s.taint = false)
    {u r : Nat} {y : RCtx} {c : Nat} (hu : s.pc u = .rcv r (.rVal y c)) :
    c = s.cur r ∧ c < s.sent.length ∧ s.val (c % s.cap) = s.sent.getD c 0 := by
  have hs := safe_reach hc h hnt
  have hg := hs.rf u r _ hu
  simp only [rFact] at hg
  obtain ⟨hb, hcu, hlt⟩ := hg
  exact ⟨hcu, hlt, read_ok (lri_reach h) hs hb (i := c) (by omega) hlt⟩

/-- **B3 — every value once, in order.** What the handle on cell `r` has returned so far is exactly the
contiguous segment `sent[c₀ r .. cursor r)` of the values sent: every value sent from its creation
point on, exactly once, in send order, nothing else. -/
theorem B3_exactly_once_in_order {cap : Nat} {s : State} (hc : 0 < cap) (h : Reach cap s) (hnt : s.taint = false)
    (r : Nat) : s.c0 r ≤ s.cur r ∧ s.got r = (s.sent.drop (s.c0 r)).take (s.cur r - s.c0 r) :=
  (safe_reach hc h hnt).g.got_ok r

/-- **A clone starts at its parent's current position**: the cell allocated by `clone` holds the
parent's cursor, which cannot move until the clone is registered and `clone` returns. -/
theorem clone_starts_at_parent {cap : Nat} {s : State} (hc : 0 < cap) (h : Reach cap s) (hnt : s.taint = false)
    {t r n : Nat} {p : LPC} (hpc : s.pc t = .rcv r (.mMod (.clone n) p)) :
    s.cur n = s.cur r ∧ s.c0 n = s.cur r ∧ s.got n = [] := by
  have hf := (safe_reach hc h hnt).rf t r _ hpc
  simp only [rFact, cloneFact] at hf
  exact ⟨hf.2.1.2.2.1, hf.2.1.2.2.2.1, hf.2.1.2.2.2.2.1⟩

/-- **Disconnected ⇒ sender gone ∧ drained.** When a receive is about to answer `Disconnected` from
the shared state (the three places that compare the cursor with `head` after reading
`producer_dropped`), the producer has been dropped/closed, nothing is being written, and the
receiver's cursor is at (or past) the final `head = |sent|`. -/
theorem disconnected_means_drained {cap : Nat} {s : State} (hc : 0 < cap) (h : Reach cap s) (hnt : s.taint = false)
    {u r : Nat} {y : RCtx} {c : Nat}
    (hu : s.pc u = .rcv r (.rHead y c) ∨ s.pc u = .rcv r (.bHd2 y c) ∨ s.pc u = .rcv r (.eUnlock y c))
    (hge : c ≥ s.head) :
    s.pdropped = true ∧ s.cur r = c ∧ s.head = s.sent.length ∧ s.cur r = s.sent.length := by
  have hs := safe_reach hc h hnt
  have hcl := hs.g.cur_le r
  have key : s.pdropped = true ∧ c = s.cur r := by
    rcases hu with hu | hu | hu <;> have hg := hs.rf u r _ hu <;> simp only [rFact] at hg
    · exact ⟨hg.2.2, hg.2.1⟩
    · exact ⟨hg.2.2, hg.2.1⟩
    · exact ⟨hg.2.2.1, hg.2.1⟩
  obtain ⟨hp, hcu⟩ := key
  -- the producer is not writing: its handle is closed
  have hclosed : s.sclosed = true := hs.g.pd_closed hp
  have hidle : s.head = s.sent.length := by
    cases ho : s.sOwner with
    | none => exact (hs.idle ho).1
    | some w =>
      have := ((invA_reach h).sown w).1 ho
      cases hq : s.pc w with
      | snd q =>
        have hf := hs.sf w q hq
        by_cases hw : inWr q = true
        · have : sendQ q = true := by cases q <;> simp_all [inWr, sendQ]
          have := open_of_sFact hf this
          rw [show s.core.sclosed = s.sclosed from rfl, hclosed] at this; cases this
        · exact (idle_of_sFact hf (by simpa using hw)).1
      | idle => rw [hq] at this; cases this
      | ret res => rw [hq] at this; cases this
      | rcv r2 q2 => rw [hq] at this; cases this
  simp only [State.core] at hcl
  exact ⟨hp, hcu.symm, hidle, by omega⟩

/-- **Disconnected is final**: once `producer_dropped` is set, nothing is ever sent again and the flag
stays set, whatever any thread does next. -/
theorem sender_gone_is_final {cap : Nat} {s s' : State} (hc : 0 < cap) (h : Reach cap s) {t : Nat} {l : Label}
    (hst : step s t l = some s') (hnt : s'.taint = false) (hp : s.pdropped = true) :
    s'.pdropped = true ∧ s'.sent = s.sent := by
  have hnt0 := taint_mono hst hnt
  have hs := safe_reach hc h hnt0
  have hs' := safe_step (invA_reach h) (lri_reach h) hs hst hnt
  have hclosed : s.sclosed = true := hs.g.pd_closed hp
  cases l <;> simp only [step] at hst
  case call op =>
    unfold stepCall at hst
    split at hst
    · cases op <;> simp only [] at hst
      all_goals (repeat' split at hst)
      all_goals (cases hst)
      all_goals exact ⟨hp, rfl⟩
    · cases hst
  case spurious =>
    unfold stepSpurious at hst
    split at hst <;> cases hst <;> exact ⟨hp, rfl⟩
  case teardown =>
    unfold stepTeardown at hst
    split at hst <;> cases hst; exact ⟨hp, rfl⟩
  case act =>
    unfold act at hst
    split at hst
    · cases hst
    · cases hst
    · rename_i q hq
      have hf := hs.sf t q hq
      cases q <;> simp only [actS] at hst
      case wSeqSt x h0 j k =>
        simp only [sFact] at hf
        have := hf.2.2.2.2.2.2
        rw [show s.core.sclosed = s.sclosed from rfl, hclosed] at this; cases this
      case sEnter k h0 p => unfold stepSEnter at hst; repeat' split at hst
                            all_goals (cases hst; try exact ⟨hp, rfl⟩)
      case sScan k h0 i done todo m => unfold stepSScan at hst; repeat' split at hst
                                       all_goals (cases hst; try exact ⟨hp, rfl⟩)
      case sExit k h0 i L m => unfold stepSExit at hst; repeat' split at hst
                               all_goals (cases hst; try exact ⟨hp, rfl⟩)
      case wLockW x h0 j k acc => unfold stepWLockW at hst; split at hst <;> cases hst; exact ⟨hp, rfl⟩
      case wWake x k acc => unfold stepWWake at hst; split at hst <;> cases hst; exact ⟨hp, rfl⟩
      case pPark x => unfold stepPPark at hst; split at hst <;> cases hst; exact ⟨hp, rfl⟩
      case cLock j => unfold stepCLock at hst; split at hst <;> cases hst; exact ⟨hp, rfl⟩
      case cWake j ws => unfold stepCWake at hst; split at hst <;> cases hst; exact ⟨hp, rfl⟩
      case sFlag x => cases hst; unfold stepSFlag; split <;> exact ⟨hp, rfl⟩
      case wUnlockW x h0 j k acc => cases hst; exact ⟨hp, rfl⟩
      case dCas d => cases hst; unfold stepDCas; repeat' split
                     all_goals exact ⟨hp, rfl⟩
      case dLoad x => cases hst; unfold stepDLoad; split <;> exact ⟨hp, rfl⟩
      case pLoad x => cases hst; unfold stepPLoad; repeat' split
                      all_goals exact ⟨hp, rfl⟩
      case pCas x => cases hst; unfold stepPCas; split <;> exact ⟨hp, rfl⟩
      case cFlag d => cases hst; unfold stepCFlag; split <;> exact ⟨hp, rfl⟩
      case cStore => cases hst; exact ⟨rfl, rfl⟩
      case cUnlock j => cases hst; exact ⟨hp, rfl⟩
      all_goals (cases hst; exact ⟨hp, rfl⟩)
    · rename_i r q hq
      cases q <;> simp only [actR] at hst
      case gLock x c => unfold stepGLock at hst; split at hst <;> cases hst; exact ⟨hp, rfl⟩
      case eLock x c => unfold stepELock at hst; split at hst <;> cases hst; exact ⟨hp, rfl⟩
      case kPark x => unfold stepKPark at hst; split at hst <;> cases hst; exact ⟨hp, rfl⟩
      case mLock k => unfold stepMLock at hst; split at hst <;> cases hst; exact ⟨hp, rfl⟩
      case mMod k p => unfold stepMMod at hst; repeat' split at hst
                       all_goals (cases hst; try exact ⟨hp, rfl⟩)
      case rFlag x => cases hst; unfold stepRFlag; split <;> exact ⟨hp, rfl⟩
      case rCur x => cases hst; unfold stepRCur; split <;> exact ⟨hp, rfl⟩
      case rSeq x c => cases hst; unfold stepRSeq; split <;> exact ⟨hp, rfl⟩
      case rDrop x c => cases hst; unfold stepRDrop; split <;> exact ⟨hp, rfl⟩
      case rHead x c => cases hst; unfold stepRHead; split <;> exact ⟨hp, rfl⟩
      case bHd x c => cases hst; unfold stepBHd; split <;> exact ⟨hp, rfl⟩
      case bDrop x c => cases hst; unfold stepBDrop; split <;> exact ⟨hp, rfl⟩
      case bHd2 x c => cases hst; unfold stepBHd2; split <;> exact ⟨hp, rfl⟩
      case eDrop x => cases hst; unfold stepEDrop; split <;> exact ⟨hp, rfl⟩
      case eCur x h0 => cases hst; unfold stepECur; repeat' split
                        all_goals exact ⟨hp, rfl⟩
      case wpLoad k => cases hst; unfold stepWpLoad; split <;> exact ⟨hp, rfl⟩
      case wpCas k => cases hst; unfold stepWpCas; split <;> exact ⟨hp, rfl⟩
      case wpIdle k th => cases hst; unfold stepWpIdle; split <;> exact ⟨hp, rfl⟩
      case mUnlock k => cases hst; unfold stepMUnlock; split <;> exact ⟨hp, rfl⟩
      case xFlag d => cases hst; unfold stepXFlag; split <;> exact ⟨hp, rfl⟩
      case qDrop => cases hst; unfold stepQDrop; split <;> exact ⟨hp, rfl⟩
      all_goals (cases hst; exact ⟨hp, rfl⟩)

/-! ## Blocked threads are always woken (C05, safety form) -/

/-- the ring is genuinely full for some published receiver -/
def StillFull (s : State) : Prop := ∃ r, r ∈ s.pub ∧ s.cur r + s.cap ≤ s.head

/-- **Producer: no lost wake-up (three-state park flag).** If the producer is parked in `send` /
`park_until_not_full` without a token, then

* the flag is PARKED and either the ring is still genuinely full for a published cursor, or some
  consumer that advanced its cursor / published its unregistration has not yet tested the flag
  (it will find PARKED and win or lose the CAS to another consumer);
* or the flag is CONSUMING and the consumer that took the thread handle is about to store IDLE and unpark;
* or the flag is IDLE and a consumer is at its `unpark(producer)` call.

Closing or dropping a receiver is covered: from the publication of the removal until its
`wake_producer` has tested the flag the dropping thread is one of the "consumers" of the first case
(see `unregister_owes_wake`). -/
theorem producer_no_lost_wakeup {cap : Nat} {s : State} (hc : 0 < cap) (h : Reach cap s) (hnt : s.taint = false)
    {p : Nat} {x : SCtx} (hp : s.pc p = .snd (.pPark x)) (htok : s.token p = false) :
    (s.flag = 1 ∧ (StillFull s ∨ ∃ u r q, s.pc u = .rcv r q ∧ preCas q = true)) ∨
    (s.flag = 2 ∧ ∃ u r k, s.pc u = .rcv r (.wpIdle k (some p))) ∨
    (s.flag = 0 ∧ ∃ u r k, s.pc u = .rcv r (.wpUnpark k p)) := by
  have ha := invA_reach h
  have hw := wake_reach hc h hnt
  have hf2 := ha.flag2
  have h012 : s.flag = 0 ∨ s.flag = 1 ∨ s.flag = 2 := by omega
  rcases h012 with h0 | h1 | h2
  · right; right
    refine ⟨h0, ?_⟩
    rcases hw.w2.handed p _ hp rfl h0 with ht | ⟨u, hu⟩
    · rw [htok] at ht; cases ht
    · have := (hw.w1.upk_iff u p).1 hu
      cases hq : s.pc u with
      | rcv r q =>
        rw [hq] at this
        cases q <;> simp only [upkPC] at this <;> (first | cases this | skip)
        rename_i k
        exact ⟨u, r, k, hq⟩
      | idle => rw [hq] at this; cases this
      | ret res => rw [hq] at this; cases this
      | snd q => rw [hq] at this; cases this
  · left
    refine ⟨h1, ?_⟩
    have := hw.w2.wit p _ hp h1
    simp only [witPC] at this
    rcases this with ⟨a, b⟩ | hne
    · exact Or.inl ⟨s.argm, a, b⟩
    · right
      cases hwq : s.wq with
      | nil => exact absurd hwq hne
      | cons u rest =>
        have hu : u ∈ s.wq := by rw [hwq]; simp
        have := (hw.w1.wq_iff u).1 hu
        cases hq : s.pc u with
        | rcv r q => rw [hq] at this; exact ⟨u, r, q, hq, this⟩
        | idle => rw [hq] at this; cases this
        | ret res => rw [hq] at this; cases this
        | snd q => rw [hq] at this; cases this
  · right; left
    refine ⟨h2, ?_⟩
    have hne := hw.w1.flag_csm.1 h2
    cases hcs : s.csm with
    | none => exact absurd hcs hne
    | some u =>
      have := (hw.w1.csm_iff u).1 hcs
      cases hq : s.pc u with
      | rcv r q =>
        rw [hq] at this
        cases q <;> simp only [csmPC] at this <;> (first | (exfalso; cases this; done) | skip)
        rename_i k th
        have e := hw.w2.idle_th u r k th p _ hq hp
        subst e; exact ⟨u, r, k, hq⟩
      | idle => rw [hq] at this; cases this
      | ret res => rw [hq] at this; cases this
      | snd q => rw [hq] at this; cases this

/-- **Dropping / closing a receiver releases the backpressure it caused and owes the producer a
wake**: from the step that publishes the removal of its cursor, the cursor is out of the published
list (so out of every later minimum) and the thread counts as a consumer that still has to test the
park flag. -/
theorem unregister_owes_wake {cap : Nat} {s : State} (hc : 0 < cap) (h : Reach cap s) (hnt : s.taint = false)
    {u r : Nat} {o : LOp} {l : Nat} (hu : s.pc u = .rcv r (.mMod .unreg (.wWait o l))) :
    r ∉ s.pub ∧ u ∈ s.wq ∧ preCas (.mMod .unreg (.wWait o l)) = true := by
  have hs := safe_reach hc h hnt
  have hw := wake_reach hc h hnt
  have hl := lri_reach h
  have hst := hl.stage u
  simp only [hu, lrpc, lrpcR, LeftRightB.stageOK] at hst
  obtain ⟨hlv, _, hd⟩ := hst
  have hf := hs.rf u r _ hu
  simp only [rFact, opOf] at hf
  have := hf.2.2.2.1 o rfl; subst this
  refine ⟨?_, (hw.w1.wq_iff u).2 (by rw [hu]; rfl), rfl⟩
  show r ∉ s.lr.data s.lr.live
  rw [hlv, hd]; simp [apL]

/-- **Receivers: no lost wake-up (slot waker lists).** If a blocking receive is parked without a token
while its next item has been published (or the sender is gone), then the sender-side thread either
already holds this thread's waker in its to-wake list, or is still before the drain of the slot
list in which the waker sits (it publishes `head` / `producer_dropped` first, then drains). -/
theorem receiver_no_lost_wakeup {cap : Nat} {s : State} (hc : 0 < cap) (h : Reach cap s) (hnt : s.taint = false)
    {t r : Nat} {x : RCtx} (hp : s.pc t = .rcv r (.kPark x)) (htok : s.token t = false)
    (hen : s.cur r < s.sent.length ∨ s.pdropped = true) :
    ∃ p q, s.pc p = .snd q ∧
      (t ∈ accOf q ∨ (t ∈ s.wk (s.cur r % s.cap) ∧ (willDrain q (s.cur r) ∨ willDrainC q (s.cur r % s.cap)))) := by
  have hw := wake_reach hc h hnt
  obtain ⟨_, h2, h3⟩ := hw.w3.all t r _ hp
  have owed : OwedL s t → ∃ p q, s.pc p = .snd q ∧ t ∈ accOf q := by
    rintro (a | ⟨p, q, hpq, hm⟩)
    · rw [htok] at a; cases a
    · exact ⟨p, q, hpq, hm⟩
  rcases hen with hlt | hpd
  · rcases h2 2 rfl (by omega) hlt with a | ⟨a, p, q, hpq, hd⟩
    · obtain ⟨p, q, hpq, hm⟩ := owed a; exact ⟨p, q, hpq, Or.inl hm⟩
    · exact ⟨p, q, hpq, Or.inr ⟨a, Or.inl hd⟩⟩
  · rcases h3 rfl hpd with a | ⟨a, p, q, hpq, hd⟩
    · obtain ⟨p, q, hpq, hm⟩ := owed a; exact ⟨p, q, hpq, Or.inl hm⟩
    · exact ⟨p, q, hpq, Or.inr ⟨a, Or.inr hd⟩⟩

/-- The sender-side thread named by the two theorems above is never stuck: the control states that
hold wakers or owe a drain are straight-line (`lock` of an uncontended-or-eventually-released slot
mutex, `unpark`, stores) — in particular they are not park points. -/
theorem waker_holder_not_parked {q : SPC} {t c j : Nat} (h : t ∈ accOf q ∨ willDrain q c ∨ willDrainC q j) :
    ∀ x, q ≠ .pPark x := by
  intro x e; subst e
  rcases h with h | h | h <;> simp [accOf, willDrain, willDrainC] at h

/-! ## Every payload is dropped exactly once (C09, ring payloads) -/

/-- While the channel lives, the payloads it has dropped are exactly those more than a lap behind
what has been written (each dropped by the overwrite `assume_init_drop` of the next lap). -/
theorem overwritten_payloads_dropped {cap : Nat} {s : State} (hc : 0 < cap) (h : Reach cap s) (hnt : s.taint = false)
    (ht : s.torn = false) : s.dropped = List.range (s.sent.length + (if s.dirty then 1 else 0) - s.cap) :=
  dropInv_reach hc h hnt ht

/-- **At teardown (`Slot::drop` of every odd-sequence slot) every value ever written into the ring has
been dropped by the channel exactly once.** (The clones handed to receivers are owned by the callers.) -/
theorem C09_ring_payload_dropped_exactly_once {cap : Nat} {s s' : State} (hc : 0 < cap) (h : Reach cap s)
    (hnt : s.taint = false) (ht : stepTeardown s = some s') :
    s'.dropped.Nodup ∧ ∀ i, i ∈ s'.dropped ↔ i < s'.sent.length :=
  teardown_drops_each_once hc h hnt ht

/-! ## Witnesses: what goes wrong in the two tainted uses (proved by evaluation of the model) -/

/-- run one operation of thread `t` to completion with nobody else running (`fuel` actions) -/
def runOp (s : State) (t : Nat) (op : Op) (fuel : Nat) : Option State :=
  (stepCall s t op).bind (fun s1 =>
    (List.range fuel).foldl (fun (o : Option State) _ => o.bind (fun s => match act s t with | some s' => some s' | none => some s)) (some s1))

def runOps (s : State) : List (Nat × Op) → Option State
  | [] => some s
  | (t, op) :: rest => (runOp s t op 40).bind (fun s' => runOps s' rest)

/-- the finding's program: cap 1; `clone r0 → r1; close r0; send 1; recv r1; send 2; recv r1; clone r0 → r2` -/
def staleCloneProg : List (Nat × Op) :=
  [(0, .clone 0), (0, .rClose 0), (0, .send 1), (0, .recv 1 .try none), (0, .send 2), (0, .recv 1 .try none),
   (0, .clone 0)]

/-- **B1 is FALSE of the code when a closed receiver is cloned** (`Clone` does not look at `closed`): the
clone `r2` is registered with the parent's stale cursor 0 while `head = 2 > cursor + cap = 1`; then
`try_send` answers Full although every other receiver has drained, `try_recv r2` answers Empty (its
slot was overwritten), `len()` of the sender exceeds the capacity, and a blocking `send` parks
forever. Replay: `/verif/findings/SpmcB_stale_clone.case`. -/
theorem B1_fails_stale_clone :
    ((runOps (init 1) staleCloneProg).map (fun s => (s.taint, s.rAlive 2, s.rclosed 2, decide (2 ∈ s.pub)))
      = some (true, true, false, true)) ∧
    ((runOps (init 1) staleCloneProg).map (fun s => (s.cur 2, s.head, s.cap)) = some (0, 2, 1)) := by
  constructor <;> decide

theorem stale_clone_try_send_full :
    ((runOps (init 1) (staleCloneProg ++ [(0, .trySend 3)])).map (fun s => s.pc 0)) = some (.ret .sFull) := by decide

theorem stale_clone_try_recv_empty :
    ((runOps (init 1) (staleCloneProg ++ [(0, .recv 2 .try none)])).map (fun s => s.pc 0)) = some (.ret .rEmpty) := by decide

theorem stale_clone_len_exceeds_cap :
    ((runOps (init 1) (staleCloneProg ++ [(0, .sProbe .len)])).map (fun s => s.pc 0)) = some (.ret (.num 2)) := by decide

/-- … and the blocking `send` ends parked with nobody left to wake it (all receivers idle, r1 drained). -/
theorem stale_clone_send_parks_forever :
    ((runOps (init 1) (staleCloneProg ++ [(0, .send 3)])).map (fun s => (s.pc 0, s.token 0, s.flag)))
      = some (.snd (.pPark { items := [3], done := 0, batch := false, blk := true }), false, 1) := by decide

/-- **"Disconnected is final" is FALSE of the code when a closed sender is converted**
(`to_async`/`to_sync` build the new handle with `closed = false`): after `close s; to_async s; to_sync s`
the sender sends again although `producer_dropped` is set; a receiver that had observed
Disconnected then receives a value. -/
theorem disconnected_final_fails_reopened_sender :
    ((runOps (init 2) [(0, .sClose), (0, .recv 0 .try none)]).map (fun s => s.pc 0) = some (.ret .rDisc)) ∧
    ((runOps (init 2) [(0, .sClose), (0, .recv 0 .try none), (0, .sConv), (0, .trySend 7), (0, .recv 0 .try none)]).map
        (fun s => (s.pc 0, s.pdropped, s.taint)) = some (.ret (.rOk [7]), true, true)) := by
  constructor <;> decide

/-! ## Non-vacuity -/

/-- non-vacuity: a complete life cycle with wrap-around ends in a teardown after which the indices 0, 1, 2 have each been dropped once
(0 by the overwrite of its slot, 2 and 1 by `Slot::drop` of slots 0 and 1) -/
example : ((runOps (init 2) [(0, .send 7), (0, .recv 0 .try none), (0, .send 8), (0, .recv 0 .try none), (0, .send 9),
      (0, .rDrop 0), (0, .sDrop)]).bind stepTeardown).map (fun s => (s.dropped, s.sent)) = some ([0, 2, 1], [7, 8, 9]) := by
  decide


/-- a reachable untainted state with two registered receivers, a value in flight and a full ring -/
example : ∃ s, Reach 1 s ∧ s.taint = false ∧ Registered s 0 ∧ Registered s 1 ∧ s.sent = [5] ∧ s.head = 1 := by
  have lift : ∀ (tr : List (Nat × Label)) (s0 s : State), Reach 1 s0 → run s0 tr = some s → Reach 1 s := by
    intro tr; induction tr with
    | nil => intro s0 s h0 h; simp [run] at h; subst h; exact h0
    | cons a rest ih =>
      intro s0 s h0 h
      obtain ⟨t, l⟩ := a
      simp only [run, Option.bind] at h
      split at h
      · simp at h
      · rename_i s1 hs1; exact ih s1 s (Reach.step h0 hs1) h
  let tr : List (Nat × Label) :=
    (0, .call (.clone 0)) :: (List.replicate 10 (0, Label.act)) ++ (0, .call (.send 5)) :: List.replicate 13 (0, Label.act)
  cases hr : run (init 1) tr with
  | none => exact absurd hr (by decide)
  | some s =>
    refine ⟨s, lift tr _ s Reach.init hr, ?_⟩
    have h1 : (run (init 1) tr).map (fun s => (s.taint, s.rAlive 0, s.rclosed 0)) = some (false, true, false) := by decide
    have h2 : (run (init 1) tr).map (fun s => (s.rAlive 1, s.rclosed 1, s.sent, s.head)) = some (true, false, [5], 1) := by decide
    rw [hr] at h1 h2
    simp only [Option.map_some, Option.some.injEq, Prod.mk.injEq] at h1 h2
    obtain ⟨a, b, c⟩ := h1
    obtain ⟨d, e, f, g⟩ := h2
    exact ⟨a, ⟨b, c⟩, ⟨d, e⟩, f, g⟩

end Fv.Props.SpmcB
