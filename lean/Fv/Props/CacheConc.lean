import Fv.Lemmas.CacheConcReg
import Fv.Lemmas.CacheConcAcct
import Fv.Lemmas.CacheConcSpec
/-!
# C11 / C13 under interleavings — the concurrent layer

Model: `Fv.Cache.Conc` (critical-section-granularity small-step model of the sync handle paths,
maintenance passes and the `current_cost` counter). Every theorem quantifies over every
configuration (thread count, shard count, capacity, buffer sizes), every program (the environment
`call`s any operation on any idle thread), every key/value/cost, every policy behaviour (admission
decisions, victims and released costs are oracle parameters of the labels) and every interleaving.

`s.hist` is the ghost concurrent history: `inv`/`ret` events bracket each call, the other events are
linearization points appended by the critical section in which the call takes effect.

Programs may MIX calls on the sync handle (`Cache`) and on the async handle (`AsyncCache`): the environment
label `call op async` chooses the handle per call, and every theorem below quantifies over such mixed
programs (see `Fv.Props.CacheConcAsync` for what differs between the two handles).
-/
namespace Fv.Props.CacheConc
open Fv.Cache.Conc

theorem reach_of_run {c : Cfg} (tr : List (Nat × Label)) : ∀ (s0 s : State), Reach c s0 → run c s0 tr = some s → Reach c s := by
  induction tr with
  | nil => intro s0 s h0 h; simp [run] at h; subst h; exact h0
  | cons a rest ih =>
    intro s0 s h0 h
    obtain ⟨t, l⟩ := a
    simp only [run, Option.bind] at h
    split at h
    · simp at h
    · rename_i s1 hs1; exact ih s1 s (Reach.step h0 hs1) h

/-! ## (a) linearizability w.r.t. the per-key register that may forget -/

/-- **The linearization history is accepted by the sequential specification and replays to the
current map**: every read / remove / compute / or_insert observed exactly the register content
at its linearization point, and the map holds exactly what the history says. -/
theorem C11c_history_linearizable {c : Cfg} {s : State} (h : Reach c s) :
    histOk emptyReg s.hist = true ∧ regOf emptyReg s.hist = vals s.map :=
  ⟨(invR_reach h).ok, (invR_reach h).reg⟩

theorem prefix_ok {r : Reg} {pre post : List HEv} {e : HEv} (h : histOk r (pre ++ e :: post) = true) :
    histOk r pre = true ∧ evOk (regOf r pre) e = true := by
  rw [histOk_append] at h
  simp only [histOk, Bool.and_eq_true] at h
  exact ⟨h.1, h.2.1⟩

/-- a read returns the register content of ITS key at its linearization point -/
theorem C11c_read_returns_register {c : Cfg} {s : State} (h : Reach c s) {pre post : List HEv} {t k : Nat}
    {r : Option Nat} (hs : s.hist = pre ++ .rd t k r :: post) : regOf emptyReg pre k = r := by
  have := (invR_reach h).ok
  rw [hs] at this
  simpa [evOk] using (prefix_ok this).2

/-- **Every read that returns a value returns the value of the latest linearized write of THAT key,
not followed by a linearized removal of it, plus the increments `compute` applied since.** -/
theorem C11c_read_latest_write {c : Cfg} {s : State} (h : Reach c s) {pre post : List HEv} {t k x : Nat}
    (hs : s.hist = pre ++ .rd t k (some x) :: post) :
    ∃ pre' e mid v, pre = pre' ++ e :: mid ∧ isWriteOf k e = some v ∧ Stable k mid ∧ x = v + incs k mid := by
  have hok := (invR_reach h).ok
  rw [hs] at hok
  exact regOf_some_origin k pre x (prefix_ok hok).1 (C11c_read_returns_register h hs)

/-- **No resurrection, no stale value**: a read linearized after a removal of its key (remove,
eviction, expiry, clear) with no write of that key in between returns `none`. -/
theorem C11c_no_resurrection {c : Cfg} {s : State} (h : Reach c s) {pre mid post : List HEv} {e : HEv} {t k : Nat}
    {r : Option Nat} (hs : s.hist = pre ++ e :: (mid ++ .rd t k r :: post)) (hk : kills k e = true)
    (hnw : ∀ e' ∈ mid, isWriteOf k e' = none) : r = none := by
  have hok := (invR_reach h).ok
  have hr : regOf emptyReg (pre ++ e :: mid) k = r := by
    apply C11c_read_returns_register h (post := post) (t := t); rw [hs]; simp
  rw [hs] at hok
  have hok' : histOk emptyReg ((pre ++ e :: mid) ++ .rd t k r :: post) = true := by simpa using hok
  have hp := (prefix_ok hok').1
  rw [histOk_append] at hp
  simp only [histOk, Bool.and_eq_true] at hp
  rw [regOf_append, regOf_cons] at hr
  rw [← hr]
  apply regOf_after_kill k mid _ hp.2.2 hnw
  rw [applyEv_key _ _ _ hp.2.1]
  cases hw : isWriteOf k e with
  | none => simp [hk]
  | some v => cases e <;> simp [isWriteOf, kills] at hw hk

/-- the value `remove` returns is the register content at its linearization point -/
theorem C11c_remove_returns_register {c : Cfg} {s : State} (h : Reach c s) {pre post : List HEv} {t k : Nat}
    {r : Option Nat} (hs : s.hist = pre ++ .rm t k r :: post) : regOf emptyReg pre k = r := by
  have := (invR_reach h).ok
  rw [hs] at this
  simpa [evOk] using (prefix_ok this).2

/-! ## (b) compute is atomic per key; or_insert inserts at most once per absent period -/

/-- a successful `compute` read-modify-writes the CURRENT binding -/
theorem C11c_compute_on_current {c : Cfg} {s : State} (h : Reach c s) {pre post : List HEv} {t k old d : Nat}
    (hs : s.hist = pre ++ .upd t k old d :: post) : regOf emptyReg pre k = some old := by
  have := (invR_reach h).ok
  rw [hs] at this
  simpa [evOk] using (prefix_ok this).2

/-- **No lost update**: after a write of `v` to `k`, as long as `k` is neither rebound nor removed
(evicted, expired, cleared), the resident value is `v` plus EVERY increment linearized since —
`n` concurrent `compute(+d)` from `v` yield `v + n·d`. -/
theorem C11c_no_lost_update {c : Cfg} {s : State} (h : Reach c s) {pre mid : List HEv} {e : HEv} {k v : Nat}
    (hs : s.hist = pre ++ e :: mid) (hw : isWriteOf k e = some v) (hst : Stable k mid) :
    (s.map k).map (·.val) = some (v + incs k mid) := by
  have hi := invR_reach h
  have := regOf_after_write k emptyReg pre mid e v (by rw [← hs]; exact hi.ok) hw hst
  rw [← hs, hi.reg] at this
  exact this

/-- **`entry().or_insert` inserts at most once per absent period**: between two inserting
`or_insert`s of the same key there is a removal of that key. -/
theorem C11c_or_insert_once {c : Cfg} {s : State} (h : Reach c s) {a mid post : List HEv} {t1 t2 k v1 v2 : Nat}
    (hs : s.hist = a ++ .oiIns t1 k v1 :: (mid ++ .oiIns t2 k v2 :: post)) : ∃ e ∈ mid, kills k e = true := by
  have := (invR_reach h).ok
  rw [hs] at this
  exact oiIns_twice_needs_kill emptyReg a mid post t1 t2 k v1 v2 this

/-- an `or_insert` that finds the entry occupied returns the current binding -/
theorem C11c_or_insert_occupied {c : Cfg} {s : State} (h : Reach c s) {pre post : List HEv} {t k v : Nat}
    (hs : s.hist = pre ++ .oiOcc t k v :: post) : regOf emptyReg pre k = some v := by
  have := (invR_reach h).ok
  rw [hs] at this
  simpa [evOk] using (prefix_ok this).2

/-! ## (c) cost accounting -/

/-- **Accounting identity, every reachable state**: `current_cost` plus the adjustments in-flight
operations still owe equals the resident cost plus the ghost `drift`. -/
theorem C13c_accounting_identity {c : Cfg} {s : State} (h : Reach c s) :
    s.cur + pendingAdj c s = residentCost s + s.drift := (invA_reach h).acct

theorem pending_zero_of_quiescent {c : Cfg} {s : State} (hq : Quiescent c s) : pendingAdj c s = 0 := by
  unfold pendingAdj
  apply sumF_zero
  intro t ht
  have := hq t (by simpa using ht)
  cases hpc : s.pc t <;> simp [hpc, isRest] at this <;> rfl

/-- at quiescence `current_cost` is off by exactly `drift` -/
theorem C13c_quiescent_exact {c : Cfg} {s : State} (h : Reach c s) (hq : Quiescent c s) :
    s.cur = residentCost s + s.drift := by
  have := C13c_accounting_identity h
  rw [pending_zero_of_quiescent hq] at this; omega

/-- `drift` changes only in the capacity pass's map section -/
theorem C13c_drift_frame {c : Cfg} {s s' : State} {t : Nat} {l : Label} (h : step c s t l = some s')
    (h2 : ∀ b, l ≠ .capMap b) : s'.drift = s.drift ∧ s'.dirty = s.dirty := by
  replace h := step_step0 h
  cases l <;> simp only [step0] at h
  case capMap b => exact absurd rfl (h2 b)
  case advance d => simp at h; subst h; exact ⟨rfl, rfl⟩
  case call op a =>
    unfold stepCall at h; repeat' split at h
    all_goals (simp at h; try subst h)
    all_goals exact ⟨rfl, rfl⟩
  all_goals
    first
    | (unfold stepRead at h) | (unfold stepInsMap at h) | (unfold stepInsSub at h) | (unfold stepInsEv at h)
    | (unfold stepInsAdd at h) | (unfold stepCoopSkip at h) | (unfold stepCoopLock at h) | (unfold stepRmMap at h)
    | (unfold stepRmPol at h) | (unfold stepRmSub at h) | (unfold stepRmNote at h) | (unfold stepCompute at h)
    | (unfold stepOiMap at h) | (unfold stepOiEv at h) | (unfold stepOiAdd at h) | (unfold stepMLock at h)
    | (unfold stepRecv at h) | (unfold stepAdmit at h) | (unfold stepVictim at h) | (unfold stepEvSub at h)
    | (unfold stepEvNote at h) | (unfold stepTtlAdvance at h) | (unfold stepTtlMap at h) | (unfold stepCapLoad at h)
    | (unfold stepCapEvict at h) | (unfold stepCapSub at h) | (unfold stepUnlock at h) | (unfold stepClear at h)
    | (unfold stepTtiMap at h) | (unfold stepClrAcq at h) | (unfold stepClrGet at h)
  all_goals (repeat' split at h)
  all_goals (simp at h; try subst h)
  all_goals exact ⟨rfl, rfl⟩

/-- **`clear` is exact** (since /repo 7e5c084): it takes out every resident entry and subtracts exactly
their cost in the same critical section; the adjustments other threads still owe are untouched. -/
theorem C13c_clear_exact {c : Cfg} {s s' : State} {t : Nat} (h : step c s t .clear = some s') :
    s'.cur = s.cur - residentCost s ∧ residentCost s' = 0 ∧ s'.drift = s.drift ∧ s'.dirty = s.dirty := by
  replace h := step_step0 h
  simp only [step0] at h
  unfold stepClear at h; split at h
  · simp at h; obtain ⟨_, h⟩ := h; subst h
    refine ⟨rfl, ?_, rfl, rfl⟩
    simp only [residentCost]
    exact sumF_zero (by intros; rfl)
  · simp at h

/-- what the capacity pass's map section does to `drift`: it moves by (cost actually removed) −
(cost the policy reported as released) -/
theorem C13c_drift_capMap {c : Cfg} {s s' : State} {t : Nat} {b : Bool} (h : step c s t (.capMap b) = some s') :
    ∃ m victims released, s.pc t = .mCapMap m victims released ∧
      s'.drift = s.drift + removedCost (removeKeys c.nShards m.sh s.map victims).2 - released := by
  replace h := step_step0 h
  simp only [step0] at h
  unfold stepCapMap at h; split at h
  · rename_i m victims released hpc
    simp at h; subst h; exact ⟨m, victims, released, hpc, rfl⟩
  · simp at h

/-- **C13 accounting, partial**: in every QUIESCENT reachable state, `current_cost` equals the sum
of the costs of the resident entries — PROVIDED every capacity pass was told by its policy exactly
the cost of what it removed (`dirty = false`; `dirty` is set by `capMap` steps only, see
`C13c_drift_frame` / `C13c_drift_capMap`). Every other path — insert, overwrite with another cost,
remove, or_insert, admission-driven eviction, TTL cleanup, `clear` — under every interleaving adds each
entry's cost exactly once and subtracts it exactly once. -/
theorem C13c_quiescent_accounting_partial {c : Cfg} {s : State} (h : Reach c s) (hq : Quiescent c s)
    (hc : s.dirty = false) : s.cur = residentCost s := by
  have := C13c_quiescent_exact h hq
  rw [(invA_reach h).clean hc] at this; omega

/-- the `u64` the implementation reports, under the same hypotheses -/
theorem C13c_quiescent_obs_partial {c : Cfg} {s : State} (h : Reach c s) (hq : Quiescent c s)
    (hc : s.dirty = false) (hb : residentCost s < two64) (h0 : 0 ≤ residentCost s) :
    (obs s : Int) = residentCost s := by
  unfold obs
  rw [C13c_quiescent_accounting_partial h hq hc]
  rw [Int.emod_eq_of_lt h0 hb]
  omega

/-- the full statement of the accounting clause of C13 on this model -/
def C13c_accounting_statement : Prop :=
  ∀ (c : Cfg) (s : State), Reach c s → Quiescent c s → s.cur = residentCost s

def cfg2 : Cfg := { nThreads := 2, nShards := 1, capacity := 100 }
def cfg3 : Cfg := { nThreads := 2, nShards := 1, capacity := 3 }

/-- the schedule that broke accounting before /repo 7e5c084 (`clear` stored 0): thread 0 inserts key 1
(cost 5), the map write is done, the cost not yet added; thread 1 clears; thread 0 then adds 5.
With `clear` subtracting the removed cost the counter passes through −5 (the `u64` wraps) and ends at
0 = resident cost. Kept as a regression example. -/
def traceClearOverlap : List (Nat × Label) :=
  [(0, .call (.insert 1 10 5 none) false), (0, .insMap), (1, .call .clear false), (1, .clrAcq 0), (1, .clear),
   (0, .insEv), (0, .insAdd), (0, .coopSkip)]

/-- capacity 3; thread 0 inserts keys 0 and 1 (cost 2 each); thread 1's maintenance pass admits
both, loads `current_cost = 4`, asks the policy, which names key 0 (released 2); thread 0 removes key 0
(and subtracts 2); the pass finds key 0 gone, removes nothing, and subtracts 2 all the same.
Quiescent, key 1 resident (cost 2), `current_cost = 0`. -/
def traceCapacityRace : List (Nat × Label) :=
  [(0, .call (.insert 0 10 2 none) false), (0, .insMap), (0, .insEv), (0, .insAdd), (0, .coopSkip),
   (0, .call (.insert 1 11 2 none) false), (0, .insMap), (0, .insEv), (0, .insAdd), (0, .coopSkip),
   (1, .call (.maint 0 16 true) false), (1, .mLock), (1, .recv), (1, .recv), (1, .recv),
   (1, .admit .admit), (1, .admit .admit), (1, .ttlAdvance []), (1, .ttiMap [] true), (1, .capLoad), (1, .capEvict [0] 2),
   (0, .call (.remove 0) false), (0, .rmMap), (0, .rmPol), (0, .rmSub), (0, .rmNote true),
   (1, .capMap true), (1, .capSub), (1, .unlock)]

theorem run_clearOverlap :
    (run cfg2 init traceClearOverlap).map (fun s => (s.cur, residentCost s, decide (Quiescent cfg2 s), s.dirty)) = some (0, 0, true, false) := by
  decide

theorem run_capacityRace :
    (run cfg3 init traceCapacityRace).map (fun s => (s.cur, residentCost s, decide (Quiescent cfg3 s))) = some (0, 2, true) := by
  decide

theorem fails_of_run {c : Cfg} {tr : List (Nat × Label)} {a b : Int}
    (h : (run c init tr).map (fun s => (s.cur, residentCost s, decide (Quiescent c s))) = some (a, b, true))
    (hab : a ≠ b) : ¬ C13c_accounting_statement := by
  intro hst
  cases hr : run c init tr with
  | none => rw [hr] at h; simp at h
  | some s =>
    rw [hr] at h; simp at h
    have := hst c s (reach_of_run tr _ _ Reach.init hr) h.2.2
    rw [h.1, h.2.1] at this; exact hab this

/-- **`remove ‖ capacity pass`** (F8c under interleaving): the cost of one removal is subtracted twice. -/
theorem C13c_accounting_fails_capacity_race : ¬ C13c_accounting_statement :=
  fails_of_run run_capacityRace (by decide)

/-- **Observation (not a violation of C13's quiescent clause)**: `insert` subtracts the old cost before
it adds the new one, and another thread's overwrite can subtract a cost that has not been added yet, so
the counter is transiently negative — the `u64` wraps — while entries are resident. A capacity pass that
loads the counter in that window sees 2^64 − 5, concludes the cache is over capacity and asks the policy
to free 2^64 − 5 − capacity: everything the policy tracks is evicted. -/
def traceTransientWrap : List (Nat × Label) :=
  [(0, .call (.insert 1 10 5 none) false), (0, .insMap), (1, .call (.insert 1 11 3 none) false), (1, .insMap), (1, .insSub)]

theorem C13c_transient_wrap_reachable :
    (run cfg2 init traceTransientWrap).map (fun s => (s.cur, obs s, residentCost s)) =
      some (-5, 18446744073709551611, 3) := by decide

/-! ## non-vacuity -/

/-- two concurrent increments from 10 on key 1 with a concurrent reader: hypotheses of
`C11c_no_lost_update` hold with two `upd` events in `mid`; the resident value is 10 + 2·1000. -/
def traceTwoComputes : List (Nat × Label) :=
  [(0, .call (.insert 1 10 1 none) false), (0, .insMap), (1, .call (.compute 1 1000) false), (0, .insEv),
   (1, .compute false), (0, .insAdd), (0, .coopSkip), (0, .call (.compute 1 1000) false), (0, .compute false)]

example : (run cfg2 init traceTwoComputes).map (fun s => ((s.map 1).map (·.val), s.cur, s.dirty)) = some (some 2010, 1, false) := by
  decide

/-- a quiescent reachable clean state with a resident entry (hypotheses of the partial theorem) -/
example : ∃ s, Reach cfg2 s ∧ Quiescent cfg2 s ∧ s.dirty = false ∧ s.cur = 1 := by
  cases hr : run cfg2 init traceTwoComputes with
  | none => exact absurd hr (by decide)
  | some s =>
    have h : (run cfg2 init traceTwoComputes).map (fun s => (decide (Quiescent cfg2 s), s.dirty, s.cur)) = some (true, false, 1) := by decide
    rw [hr] at h; simp at h
    exact ⟨s, reach_of_run _ _ _ Reach.init hr, h.1, h.2.1, h.2.2⟩

end Fv.Props.CacheConc
