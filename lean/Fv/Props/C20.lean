import Fv.Lemmas.LogJsonMain
import Fv.Lemmas.LogPattern
/-!
# C20 — log encoders are total and lossless; file rolling never loses or tears records

Property theorems only. Models: `Fv/Log/{Text,Event,Json,Pattern,Roller}.lean`; helper lemmas:
`Fv/Lemmas/Log*.lean`.
-/
namespace Fv.Props.C20
open Fv.Log

/-! ## JSON strings -/

/-- serde_json's escaping is lossless for every string: the decoder returns exactly the input. -/
theorem json_string_roundtrip (s : Text) : Json.decodeString (Json.encodeString s) = some s :=
  Json.decodeString_encodeString s

example : Json.decodeString (Json.encodeString "a\"\\\n\x01é".toList) = some "a\"\\\n\x01é".toList := json_string_roundtrip _

/-- An encoded string contains no character below 0x20 — in particular no raw newline. -/
theorem json_string_no_control (s : Text) : ∀ c ∈ Json.encodeString s, 0x20 ≤ c.toNat :=
  Json.encodeString_no_control s

/-! ## JSON-lines records

`Json.FloatsOk ev`: the renderings supplied for *finite* float fields are number tokens that are not
integer tokens (serde_json/ryu always prints a `.` or an exponent; trusted, and checked by the engine on
every generated case). `Json.KeysDistinct ev`: `fields` is a `HashMap`. Nothing is assumed about any string. -/

/-- The decoder reads back exactly the key/value map that `format_event` serialised — for every
event content (arbitrary strings, ints, bools, non-finite floats), nested or flattened. -/
theorem json_record_roundtrip (flatten : Bool) (ev : Event) (hf : Json.FloatsOk ev) :
    Json.parseLine (Json.formatEvent flatten ev) = some (Json.record flatten ev) :=
  Json.parseLine_formatEvent flatten ev hf

/-- A JSON-lines record is one line: `body ++ "\n"` where `body` has no character below 0x20
(no raw newline, carriage return or other control character). -/
theorem json_record_one_line (flatten : Bool) (ev : Event) (hf : Json.FloatsOk ev) :
    ∃ body, Json.formatEvent flatten ev = body ++ ['\n'] ∧ ∀ c ∈ body, 0x20 ≤ c.toNat :=
  Json.formatEvent_one_line flatten ev hf

/-- Nested (default) layout: decoding the record yields the event's level, target and message, and
under every custom field name exactly the field's JSON image (`toJson`: strings/ints/bools/debug
strings as themselves, finite floats as their number token) — and nothing under any other name. -/
theorem json_event_roundtrip (ev : Event) (hk : Json.KeysDistinct ev) (hf : Json.FloatsOk ev) :
    ∃ v, Json.decodeEvent false (Json.formatEvent false ev) = some v ∧ v.level = ev.level.text ∧
      v.target = ev.target ∧ v.message = ev.message ∧
      ∀ k, lookup k v.fields = (lookup k ev.fields).map Json.toJson := by
  obtain ⟨v, hv, h⟩ := Json.viewOf_nested ev hk
  exact ⟨v, by simp only [Json.decodeEvent, Json.parseLine_formatEvent false ev hf, hv], h⟩

/-- strings, ints and bools are their own JSON image (definitionally) -/
theorem json_toJson_faithful (s : Text) (i : Int) (b : Bool) :
    Json.toJson (.str s) = .str s ∧ Json.toJson (.int i) = .int i ∧ Json.toJson (.bool b) = .bool b ∧
      Json.toJson (.debug s) = .str s :=
  ⟨rfl, rfl, rfl, rfl⟩

/-- Flattened layout, partial: the same round trip holds when no custom field uses one of the nine
reserved core names (false without that hypothesis: `C20_fails_F13b`). -/
theorem json_event_roundtrip_flat_partial (ev : Event) (hk : Json.KeysDistinct ev) (hf : Json.FloatsOk ev)
    (hres : ∀ k ∈ ev.fields.map (·.1), Json.coreKeys.contains k = false) :
    ∃ v, Json.decodeEvent true (Json.formatEvent true ev) = some v ∧ v.level = ev.level.text ∧
      v.target = ev.target ∧ v.message = ev.message ∧
      ∀ k, lookup k v.fields = (lookup k ev.fields).map Json.toJson := by
  obtain ⟨v, hv, h⟩ := Json.viewOf_flat ev hk hres
  exact ⟨v, by simp only [Json.decodeEvent, Json.parseLine_formatEvent true ev hf, hv], h⟩


/-! ## pattern encoder

All statements are about an *arbitrary* pattern string `pat` (parsed by the leftmost-first regex grammar of
`PatternFormatter::parse`) and an arbitrary event. `none` is the panic outcome of the one partial primitive
on the path, `{:>width$}` with a width above `u16::MAX` (`Pattern.fmtPad`). -/

/-- Totality: `format_event` never panics — for every pattern (hence every padding the parser can
produce, including `i32::MIN` and values above 65 535) and every event. -/
theorem pattern_total (pat : Text) (ev : Event) : ∃ out, Pattern.formatEvent pat ev = some out := by
  obtain ⟨out, ho⟩ := Pattern.renderSegs_total ev (Pattern.parse pat)
  exact ⟨Pattern.ensureNewline out, by simp only [Pattern.formatEvent, ho, Option.map_some]⟩

example : Pattern.formatEvent "%-2147483648m|%65536p".toList { timestamp := [], level := .info, target := [], name := [], message := some ['x'] } ≠ none := by
  intro h; obtain ⟨o, ho⟩ := pattern_total "%-2147483648m|%65536p".toList { timestamp := [], level := .info, target := [], name := [], message := some ['x'] }
  rw [h] at ho; cases ho

/-- What padding does: content at least `min(|p|, 65535)` bytes long is written unchanged, otherwise
spaces are added on the left (`p > 0`) or right up to `min(|p|, 65535)` characters. -/
theorem pattern_padding_spec (content : Text) (p : Int) :
    Pattern.applyPadding content p = some
      (if Pattern.padWidth p ≤ utf8Len content then content
       else if 0 < p then spaces (Pattern.padWidth p - content.length) ++ content
       else content ++ spaces (Pattern.padWidth p - content.length)) :=
  Pattern.applyPadding_eq content p

/-- every padding the parser produces fits an `i32` (a padding text outside that range means "no padding") -/
theorem pattern_padding_in_i32 (pat : Text) : ∀ s ∈ Pattern.parse pat, Pattern.SpecInRange s :=
  Pattern.parseGo_inRange _ _ _

/-- `%m` reproduces the message verbatim: whenever the pattern contains an `m` specifier (with or
without padding/options), the output contains the message as a contiguous substring (padding only
adds spaces around it). -/
theorem pattern_message_verbatim (pat : Text) (ev : Event) (p : Option Int) (o : Option Text)
    (hm : Pattern.Segment.spec 'm' p o ∈ Pattern.parse pat) :
    ∃ out, Pattern.formatEvent pat ev = some out ∧ ev.message.getD [] <:+: out := by
  obtain ⟨raw, hr⟩ := Pattern.renderSegs_total ev (Pattern.parse pat)
  refine ⟨Pattern.ensureNewline raw, by simp only [Pattern.formatEvent, hr, Option.map_some], ?_⟩
  exact Pattern.infix_ensureNewline _ _ (Pattern.message_verbatim_segs hr hm)

example : Pattern.Segment.spec 'm' (some 20) none ∈ Pattern.parse "[%d] %-5p %t - %20m%n".toList := by decide

/-- every rendered record ends with a newline -/
theorem pattern_ends_with_newline (pat : Text) (ev : Event) (out : Text) (h : Pattern.formatEvent pat ev = some out) :
    out.getLast? = some '\n' := by
  simp only [Pattern.formatEvent, Option.map_eq_some_iff] at h
  obtain ⟨raw, _, rfl⟩ := h
  exact Pattern.ensureNewline_last raw

def evF13 : Event :=
  { timestamp := "t".toList, level := .info, target := "a".toList, name := "n".toList, message := some "m".toList }

def evEx : Event :=
  { evF13 with fields := [("k\n".toList, .str "v\"".toList), ("n".toList, .int (-3)), ("f".toList, .float (some "1.5".toList) "1.5".toList),
                          ("inf".toList, .float none "inf".toList)] }

example : Json.KeysDistinct evEx := by unfold Json.KeysDistinct; decide
example : Json.FloatsOk evEx := by
  intro k r d h
  simp [evEx, evF13] at h
  obtain ⟨_, rfl, _⟩ := h
  exact ⟨by decide, by decide, by decide⟩

/-- F13a: a non-finite float field is written as `null`; what is decoded is not the field's value. -/
theorem C20_fails_F13a :
    let ev := { evF13 with fields := [("r".toList, LogValue.float none "NaN".toList)] }
    (Json.decodeEvent false (Json.formatEvent false ev)).map (·.fields) = some [("r".toList, Json.Scalar.null)] := by
  decide +kernel

/-- F13b: with `flatten_fields` a custom field named like a present core key is dropped. -/
theorem C20_fails_F13b :
    let ev := { evF13 with fields := [("level".toList, LogValue.str "custom".toList)] }
    (Json.decodeEvent true (Json.formatEvent true ev)).map (·.fields) = some []
    ∧ (Json.decodeEvent true (Json.formatEvent true ev)).map (·.level) = some "INFO".toList := by
  decide +kernel

end Fv.Props.C20
