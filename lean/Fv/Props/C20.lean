import Fv.Lemmas.LogJsonMain
import Fv.Lemmas.LogPattern
import Fv.Lemmas.LogRun
/-!
# C20 — log encoders are total and lossless; file rolling never loses or tears records

Property theorems only. Models: `Fv/Log/{Text,Event,Json,Pattern,Roller}.lean`; helper lemmas:
`Fv/Lemmas/Log*.lean`.
-/
namespace Fv.Props.C20
open Fv.Log

/-! ## JSON strings -/

/-- serde_json's escaping is lossless for every string: the decoder returns exactly the input. -/
theorem json_string_roundtrip (s : Text) : Json.decodeString (Json.encodeString s) = some s :=
  Json.decodeString_encodeString s

example : Json.decodeString (Json.encodeString "a\"\\\n\x01é".toList) = some "a\"\\\n\x01é".toList := json_string_roundtrip _

/-- An encoded string contains no character below 0x20 — in particular no raw newline. -/
theorem json_string_no_control (s : Text) : ∀ c ∈ Json.encodeString s, 0x20 ≤ c.toNat :=
  Json.encodeString_no_control s

/-! ## JSON-lines records

`Json.FloatsOk ev`: the renderings supplied for *finite* float fields are number tokens that are not
integer tokens (serde_json/ryu always prints a `.` or an exponent; trusted, and checked by the engine on
every generated case). `Json.KeysDistinct ev`: `fields` is a `HashMap`. Nothing is assumed about any string. -/

/-- The decoder reads back exactly the key/value map that `format_event` serialised — for every
event content (arbitrary strings, ints, bools, non-finite floats), nested or flattened. -/
theorem json_record_roundtrip (flatten : Bool) (ev : Event) (hf : Json.FloatsOk ev) :
    Json.parseLine (Json.formatEvent flatten ev) = some (Json.record flatten ev) :=
  Json.parseLine_formatEvent flatten ev hf

/-- A JSON-lines record is one line: `body ++ "\n"` where `body` has no character below 0x20
(no raw newline, carriage return or other control character). -/
theorem json_record_one_line (flatten : Bool) (ev : Event) (hf : Json.FloatsOk ev) :
    ∃ body, Json.formatEvent flatten ev = body ++ ['\n'] ∧ ∀ c ∈ body, 0x20 ≤ c.toNat :=
  Json.formatEvent_one_line flatten ev hf

/-- Nested (default) layout: decoding the record yields the event's level, target and message, and
under every custom field name exactly the field's JSON image (`toJson`: strings/ints/bools/debug
strings as themselves, finite floats as their number token) — and nothing under any other name. -/
theorem json_event_roundtrip (ev : Event) (hk : Json.KeysDistinct ev) (hf : Json.FloatsOk ev) :
    ∃ v, Json.decodeEvent false (Json.formatEvent false ev) = some v ∧ v.level = ev.level.text ∧
      v.target = ev.target ∧ v.message = ev.message ∧
      ∀ k, lookup k v.fields = (lookup k ev.fields).map Json.toJson := by
  obtain ⟨v, hv, h⟩ := Json.viewOf_nested ev hk
  exact ⟨v, by simp only [Json.decodeEvent, Json.parseLine_formatEvent false ev hf, hv], h⟩

/-- strings, ints and bools are their own JSON image (definitionally) -/
theorem json_toJson_faithful (s : Text) (i : Int) (b : Bool) :
    Json.toJson (.str s) = .str s ∧ Json.toJson (.int i) = .int i ∧ Json.toJson (.bool b) = .bool b ∧
      Json.toJson (.debug s) = .str s :=
  ⟨rfl, rfl, rfl, rfl⟩

/-- Flattened layout, partial: the same round trip holds when no custom field uses one of the nine
reserved core names (false without that hypothesis: `C20_fails_F13b`). -/
theorem json_event_roundtrip_flat_partial (ev : Event) (hk : Json.KeysDistinct ev) (hf : Json.FloatsOk ev)
    (hres : ∀ k ∈ ev.fields.map (·.1), Json.coreKeys.contains k = false) :
    ∃ v, Json.decodeEvent true (Json.formatEvent true ev) = some v ∧ v.level = ev.level.text ∧
      v.target = ev.target ∧ v.message = ev.message ∧
      ∀ k, lookup k v.fields = (lookup k ev.fields).map Json.toJson := by
  obtain ⟨v, hv, h⟩ := Json.viewOf_flat ev hk hres
  exact ⟨v, by simp only [Json.decodeEvent, Json.parseLine_formatEvent true ev hf, hv], h⟩


/-! ## pattern encoder

All statements are about an *arbitrary* pattern string `pat` (parsed by the leftmost-first regex grammar of
`PatternFormatter::parse`) and an arbitrary event. `none` is the panic outcome of the one partial primitive
on the path, `{:>width$}` with a width above `u16::MAX` (`Pattern.fmtPad`). -/

/-- Totality: `format_event` never panics — for every pattern (hence every padding the parser can
produce, including `i32::MIN` and values above 65 535) and every event. -/
theorem pattern_total (pat : Text) (ev : Event) : ∃ out, Pattern.formatEvent pat ev = some out := by
  obtain ⟨out, ho⟩ := Pattern.renderSegs_total ev (Pattern.parse pat)
  exact ⟨Pattern.ensureNewline out, by simp only [Pattern.formatEvent, ho, Option.map_some]⟩

example : Pattern.formatEvent "%-2147483648m|%65536p".toList { timestamp := [], level := .info, target := [], name := [], message := some ['x'] } ≠ none := by
  intro h; obtain ⟨o, ho⟩ := pattern_total "%-2147483648m|%65536p".toList { timestamp := [], level := .info, target := [], name := [], message := some ['x'] }
  rw [h] at ho; cases ho

/-- What padding does: content at least `min(|p|, 65535)` bytes long is written unchanged, otherwise
spaces are added on the left (`p > 0`) or right up to `min(|p|, 65535)` characters. -/
theorem pattern_padding_spec (content : Text) (p : Int) :
    Pattern.applyPadding content p = some
      (if Pattern.padWidth p ≤ utf8Len content then content
       else if 0 < p then spaces (Pattern.padWidth p - content.length) ++ content
       else content ++ spaces (Pattern.padWidth p - content.length)) :=
  Pattern.applyPadding_eq content p

/-- every padding the parser produces fits an `i32` (a padding text outside that range means "no padding") -/
theorem pattern_padding_in_i32 (pat : Text) : ∀ s ∈ Pattern.parse pat, Pattern.SpecInRange s :=
  Pattern.parseGo_inRange _ _ _

/-- `%m` reproduces the message verbatim: whenever the pattern contains an `m` specifier (with or
without padding/options), the output contains the message as a contiguous substring (padding only
adds spaces around it). -/
theorem pattern_message_verbatim (pat : Text) (ev : Event) (p : Option Int) (o : Option Text)
    (hm : Pattern.Segment.spec 'm' p o ∈ Pattern.parse pat) :
    ∃ out, Pattern.formatEvent pat ev = some out ∧ ev.message.getD [] <:+: out := by
  obtain ⟨raw, hr⟩ := Pattern.renderSegs_total ev (Pattern.parse pat)
  refine ⟨Pattern.ensureNewline raw, by simp only [Pattern.formatEvent, hr, Option.map_some], ?_⟩
  exact Pattern.infix_ensureNewline _ _ (Pattern.message_verbatim_segs hr hm)

example : Pattern.Segment.spec 'm' (some 20) none ∈ Pattern.parse "[%d] %-5p %t - %20m%n".toList := by decide

/-- every rendered record ends with a newline -/
theorem pattern_ends_with_newline (pat : Text) (ev : Event) (out : Text) (h : Pattern.formatEvent pat ev = some out) :
    out.getLast? = some '\n' := by
  simp only [Pattern.formatEvent, Option.map_eq_some_iff] at h
  obtain ⟨raw, _, rfl⟩ := h
  exact Pattern.ensureNewline_last raw


/-! ## rolling file appender

Vocabulary (`Fv/Lemmas/LogRep.lean`, `LogRun.lean`): a `Roller.Run` is a roller over a directory with a clock;
`Run.init p t0` starts it on an empty directory, `Run.run p r ops` performs any sequence of
`write id len` / `advance secs` / `restart` (a new `CustomRoller` over the existing directory).
`r.written` is the ghost sequence of records handed to `write`. `Roller.canon p rolled active` is the directory
holding exactly the active file `prefix++suffix` with content `active` and, per entry of `rolled`, the file
`prefix.PERIOD.SEQ suffix[gz]` with that entry's records. `Roller.WF p` restricts the *names* only
(no `.digit` inside prefix/suffix, suffix not starting with a digit, compressed suffix non-empty, digit-free and
not a suffix of the suffix); every size limit, granularity, retention count and compression setting is allowed.
`Run.Bounded`: clock before year 9994 and fewer than 2^31-1 writes (u32 sequence numbers, four-digit years). -/

/- The three theorems below carry the hypothesis `WF p` on the *name* configuration and are therefore `_partial`
with respect to "every rolling policy": the code does not validate prefix / suffix / compressed suffix, and without
`WF` the statements are false of the code (`C20_fails_F17a`, `C20_fails_F17b`); they are also about one roller in its
own directory (`C20_fails_F15`). -/

open Roller in
/-- For every policy with well-formed names and every history of writes, clock steps and restarts:
the directory consists of exactly the active file and rolled files whose (period, sequence) keys are
strictly ascending; the rolled files' records in that order followed by the active file's are a *suffix*
of the written sequence (nothing lost in the middle, duplicated or reordered; only whole oldest files
disappear); and at most `max_retained_sequences` rolled files remain. -/
theorem roller_retained_suffix_partial (p : Roller.Policy) (hw : WF p) (t0 : Nat) (ops : List ROp)
    (hb : ((Run.init p t0).run p ops).Bounded) :
    ∃ rolled active,
      ((Run.init p t0).run p ops).fs.Perm (canon p rolled active) ∧
      rolled.Pairwise entryLt ∧
      (recsOf rolled ++ active) <:+ ((Run.init p t0).run p ops).written ∧
      (∀ n, p.maxRetained = some n → rolled.length ≤ n) := by
  obtain ⟨rolled, active, h1, h2, _, _, _, h6, _, h8⟩ := Run.run_inv hw _ (Run.init_inv p t0) ops hb
  exact ⟨rolled, active, h1, h2.asc, h6, h8⟩

open Roller in
/-- Consequence: if the written records are pairwise distinct, no record occurs twice in the directory. -/
theorem roller_no_duplicates_partial (p : Roller.Policy) (hw : WF p) (t0 : Nat) (ops : List ROp)
    (hb : ((Run.init p t0).run p ops).Bounded) (hnd : ((Run.init p t0).run p ops).written.Nodup) :
    ∃ rolled active, ((Run.init p t0).run p ops).fs.Perm (canon p rolled active) ∧ (recsOf rolled ++ active).Nodup := by
  obtain ⟨rolled, active, h1, _, h3, _⟩ := roller_retained_suffix_partial p hw t0 ops hb
  exact ⟨rolled, active, h1, hnd.sublist h3.sublist⟩

open Roller in
/-- `rolled_path` never equals an existing name — for *any* directory content: the name `roll` renames
the active file to (period of the current period start, sequence `nextSeq` = 1 + highest discovered sequence
of that period) is not the name of any existing file. -/
theorem roller_no_clobber_partial (p : Roller.Policy) (hw : WF p) (fs : FS) (pstart : Nat)
    (hps : periodStart p.gran pstart = pstart) (hpr : pstart < tMax) (hseq : nextSeq p fs pstart < 4294967296) :
    rolledName p (stampOfSecs pstart) (nextSeq p fs pstart) ∉ fs.map (·.1) := by
  intro hmem
  obtain ⟨e, he, hn⟩ := List.mem_map.mp hmem
  have hv : (stampOfSecs pstart).Valid := stampOfSecs_valid _ hpr
  have ha : Aligned p.gran (stampOfSecs pstart) := by rw [← hps]; exact aligned_periodStart _ _
  have hparse := parseRolledName_rolledName p hw (stampOfSecs pstart) hv ha (nextSeq p fs pstart) hseq
  have hin : ({ stamp := stampOfSecs pstart, seq := nextSeq p fs pstart,
                name := rolledName p (stampOfSecs pstart) (nextSeq p fs pstart), compressed := false } : RolledFile)
      ∈ findRolled p fs := by
    rw [findRolled, (sortRolled_perm _).mem_iff, List.mem_filterMap]
    exact ⟨e, he, by rw [hn]; exact hparse⟩
  have := maxSeq_ge p (stampOfSecs pstart) _ _ hin rfl
  simp only [nextSeq] at this
  omega

open Roller in
/-- the file `roll` creates is named with `nextSeq` — the name `roller_no_clobber_partial` speaks about -/
theorem roller_roll_uses_nextSeq (p : Roller.Policy) (fs : FS) (st : RState) (now : Nat) :
    ∃ rest, (roll p fs st now).1 =
      cleanup p (fsOpen (fsRename fs (baseName p) (rolledName p (stampOfSecs st.pstart) (nextSeq p fs st.pstart))) (baseName p)).1 rest :=
  ⟨_, rfl⟩

section examples
open Roller
def polEx : Roller.Policy :=
  { pfx := "app".toList, sfx := ".log".toList, gran := .minutely, maxSize := some 40, maxRetained := some 2,
    compression := some { suffix := ".gz".toList, keep := 1 } }

example : WF polEx :=
  { clean := by decide, sfxHead := by decide, gzNe := by decide, gzNoDigit := by decide, sfxNotGz := by decide }

example : ((Run.init polEx 0).run polEx [.write 1 30, .write 2 30, .advance 70, .write 3 8, .restart, .write 4 50]).Bounded := by
  unfold Run.Bounded; decide +kernel
end examples


/-! ### F15: two rolling appenders in one directory whose prefixes are prefixes of each other -/

section F15
open Roller
def polA : Roller.Policy := { pfx := "app".toList, sfx := ".log".toList, gran := .daily, maxSize := some 20, maxRetained := some 1 }
def polB : Roller.Policy := { pfx := "app2".toList, sfx := ".log".toList, gran := .daily, maxSize := some 20, maxRetained := none }

example : WF polA := { clean := by decide, sfxHead := by decide, gzNe := by decide, gzNoDigit := by decide, sfxNotGz := by decide }
example : WF polB := { clean := by decide, sfxHead := by decide, gzNe := by decide, gzNoDigit := by decide, sfxNotGz := by decide }

/-- the shared directory after: A and B open, B writes records 1 and 2 (each write reaches B's size limit and rolls) -/
def f15Before : FS × RState :=
  let a := openRoller polA [] 0
  let b := openRoller polB a.1 0
  let b1 := write polB b.1 b.2 (1, 30) 0
  let b2 := write polB b1.1 b1.2 (2, 30) 0
  (b2.1, a.2)

/-- ... and then A writes record 3 (reaches A's size limit and rolls, retention `Some(1)`) -/
def f15After : FS := (write polA f15Before.1 f15Before.2 (3, 30) 0).1

def holdsRecord (fs : FS) (id : Nat) : Bool := fs.any (fun e => e.2.recs.any (fun r => r.1 = id))

/-- F15: both well-formed rollers alone satisfy `roller_retained_suffix`; together, A's retention pass deletes
B's rolled files although B has no retention limit (records 1 and 2 of B vanish), and A's sequence number is
computed from the union (A's first rolled file gets sequence 3). -/
theorem C20_fails_F15 :
    polB.maxRetained = none ∧
    holdsRecord f15Before.1 1 = true ∧ holdsRecord f15Before.1 2 = true ∧
    holdsRecord f15After 1 = false ∧ holdsRecord f15After 2 = false ∧
    (fsGet f15After "app.1970-01-01.3.log".toList).isSome = true := by
  decide +kernel
end F15


/-! ### F17: name configurations the code accepts but its own file-name scheme cannot handle -/

section F17
open Roller
/-- prefix containing text the date/sequence regex matches -/
def polStamp : Roller.Policy := { pfx := "a.2020-01-01.7x".toList, sfx := ".log".toList, gran := .daily, maxSize := some 20 }
/-- empty `compressed_file_suffix`, compress everything -/
def polNoGz : Roller.Policy :=
  { pfx := "app".toList, sfx := ".log".toList, gran := .daily, maxSize := some 20, compression := some { suffix := [], keep := 0 } }

def runWrites (p : Roller.Policy) (ids : List Nat) : Run := (Run.init p 0).run p (ids.map (fun i => ROp.write i 30))

/-- F17a: with the prefix `a.2020-01-01.7x` every rolled file is "discovered" as (2020-01-01, 7), the sequence of the
current period is never found, every roll uses sequence 1 and renames over the previous rolled file: after two
writes (each reaches the size limit) record 1 is gone although there is no retention limit. -/
theorem C20_fails_F17a :
    polStamp.maxRetained = none ∧ holdsRecord (runWrites polStamp [1]).fs 1 = true ∧
      holdsRecord (runWrites polStamp [1, 2]).fs 1 = false ∧ holdsRecord (runWrites polStamp [1, 2]).fs 2 = true := by
  decide +kernel

/-- F17b: with an empty compressed suffix `compress_file` truncates and then removes the rolled file itself:
the record written is in no file afterwards although there is no retention limit. -/
theorem C20_fails_F17b :
    polNoGz.maxRetained = none ∧ (runWrites polNoGz [1]).written = [(1, 30)] ∧ holdsRecord (runWrites polNoGz [1]).fs 1 = false := by
  decide +kernel
end F17

def evF13 : Event :=
  { timestamp := "t".toList, level := .info, target := "a".toList, name := "n".toList, message := some "m".toList }

def evEx : Event :=
  { evF13 with fields := [("k\n".toList, .str "v\"".toList), ("n".toList, .int (-3)), ("f".toList, .float (some "1.5".toList) "1.5".toList),
                          ("inf".toList, .float none "inf".toList)] }

example : Json.KeysDistinct evEx := by unfold Json.KeysDistinct; decide
example : Json.FloatsOk evEx := by
  intro k r d h
  simp [evEx, evF13] at h
  obtain ⟨_, rfl, _⟩ := h
  exact ⟨by decide, by decide, by decide⟩

/-- F13a: a non-finite float field is written as `null`; what is decoded is not the field's value. -/
theorem C20_fails_F13a :
    let ev := { evF13 with fields := [("r".toList, LogValue.float none "NaN".toList)] }
    (Json.decodeEvent false (Json.formatEvent false ev)).map (·.fields) = some [("r".toList, Json.Scalar.null)] := by
  decide +kernel

/-- F13b: with `flatten_fields` a custom field named like a present core key is dropped. -/
theorem C20_fails_F13b :
    let ev := { evF13 with fields := [("level".toList, LogValue.str "custom".toList)] }
    (Json.decodeEvent true (Json.formatEvent true ev)).map (·.fields) = some []
    ∧ (Json.decodeEvent true (Json.formatEvent true ev)).map (·.level) = some "INFO".toList := by
  decide +kernel

end Fv.Props.C20
