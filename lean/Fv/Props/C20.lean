import Fv.Lemmas.LogJsonMain
import Fv.Lemmas.LogPattern
/-!
# C20 — log encoders are total and lossless; file rolling never loses or tears records

Property theorems only. Models: `Fv/Log/{Text,Event,Json,Pattern,Roller}.lean`; helper lemmas:
`Fv/Lemmas/Log*.lean`.
-/
namespace Fv.Props.C20
open Fv.Log

/-! ## JSON strings -/

/-- serde_json's escaping is lossless for every string: the decoder returns exactly the input. -/
theorem json_string_roundtrip (s : Text) : Json.decodeString (Json.encodeString s) = some s :=
  Json.decodeString_encodeString s

example : Json.decodeString (Json.encodeString "a\"\\\n\x01é".toList) = some "a\"\\\n\x01é".toList := json_string_roundtrip _

/-- An encoded string contains no character below 0x20 — in particular no raw newline. -/
theorem json_string_no_control (s : Text) : ∀ c ∈ Json.encodeString s, 0x20 ≤ c.toNat :=
  Json.encodeString_no_control s

/-! ## JSON-lines records

`Json.FloatsOk ev`: the renderings supplied for *finite* float fields are number tokens that are not
integer tokens (serde_json/ryu always prints a `.` or an exponent; trusted, and checked by the engine on
every generated case). `Json.KeysDistinct ev`: `fields` is a `HashMap`. Nothing is assumed about any string. -/

/-- The decoder reads back exactly the key/value map that `format_event` serialised — for every
event content (arbitrary strings, ints, bools, non-finite floats), nested or flattened. -/
theorem json_record_roundtrip (flatten : Bool) (ev : Event) (hf : Json.FloatsOk ev) :
    Json.parseLine (Json.formatEvent flatten ev) = some (Json.record flatten ev) :=
  Json.parseLine_formatEvent flatten ev hf

/-- A JSON-lines record is one line: `body ++ "\n"` where `body` has no character below 0x20
(no raw newline, carriage return or other control character). -/
theorem json_record_one_line (flatten : Bool) (ev : Event) (hf : Json.FloatsOk ev) :
    ∃ body, Json.formatEvent flatten ev = body ++ ['\n'] ∧ ∀ c ∈ body, 0x20 ≤ c.toNat :=
  Json.formatEvent_one_line flatten ev hf

/-- Nested (default) layout: decoding the record yields the event's level, target and message, and
under every custom field name exactly the field's JSON image (`toJson`: strings/ints/bools/debug
strings as themselves, finite floats as their number token) — and nothing under any other name. -/
theorem json_event_roundtrip (ev : Event) (hk : Json.KeysDistinct ev) (hf : Json.FloatsOk ev) :
    ∃ v, Json.decodeEvent false (Json.formatEvent false ev) = some v ∧ v.level = ev.level.text ∧
      v.target = ev.target ∧ v.message = ev.message ∧
      ∀ k, lookup k v.fields = (lookup k ev.fields).map Json.toJson := by
  obtain ⟨v, hv, h⟩ := Json.viewOf_nested ev hk
  exact ⟨v, by simp only [Json.decodeEvent, Json.parseLine_formatEvent false ev hf, hv], h⟩

/-- strings, ints and bools are their own JSON image (definitionally) -/
theorem json_toJson_faithful (s : Text) (i : Int) (b : Bool) :
    Json.toJson (.str s) = .str s ∧ Json.toJson (.int i) = .int i ∧ Json.toJson (.bool b) = .bool b ∧
      Json.toJson (.debug s) = .str s :=
  ⟨rfl, rfl, rfl, rfl⟩

/-- Flattened layout, partial: the same round trip holds when no custom field uses one of the nine
reserved core names (false without that hypothesis: `C20_fails_F13b`). -/
theorem json_event_roundtrip_flat_partial (ev : Event) (hk : Json.KeysDistinct ev) (hf : Json.FloatsOk ev)
    (hres : ∀ k ∈ ev.fields.map (·.1), Json.coreKeys.contains k = false) :
    ∃ v, Json.decodeEvent true (Json.formatEvent true ev) = some v ∧ v.level = ev.level.text ∧
      v.target = ev.target ∧ v.message = ev.message ∧
      ∀ k, lookup k v.fields = (lookup k ev.fields).map Json.toJson := by
  obtain ⟨v, hv, h⟩ := Json.viewOf_flat ev hk hres
  exact ⟨v, by simp only [Json.decodeEvent, Json.parseLine_formatEvent true ev hf, hv], h⟩


/-! ## pattern encoder

All statements are about `Pattern.parse pat` for an *arbitrary* pattern string `pat` (the leftmost-first
regex grammar of `PatternFormatter::parse`) and an arbitrary event. -/

/-- Exact panic condition: `format_event` panics iff some specifier other than `%n` carries a padding
that is `i32::MIN`, or whose absolute value exceeds both 65 535 and the byte length of the content. -/
theorem pattern_panics_iff (pat : Text) (ev : Event) :
    Pattern.formatEvent pat ev = none ↔
      ∃ c p o, Pattern.Segment.spec c (some p) o ∈ Pattern.parse pat ∧ c ≠ 'n' ∧
        (p = -2147483648 ∨ (utf8Len (Pattern.specContent c o ev) < p.natAbs ∧ 65535 < p.natAbs)) := by
  simp only [Pattern.formatEvent, Option.map_eq_none_iff, Pattern.renderSegs_eq_none_iff]
  constructor
  · rintro ⟨s, hs, h⟩
    obtain ⟨c, p, o, rfl, hn, hp⟩ := (Pattern.renderSeg_eq_none_iff ev s).mp h
    exact ⟨c, p, o, hs, hn, (Pattern.applyPadding_eq_none_iff _ p).mp hp⟩
  · rintro ⟨c, p, o, hs, hn, hp⟩
    exact ⟨_, hs, (Pattern.renderSeg_eq_none_iff ev _).mpr ⟨c, p, o, rfl, hn, (Pattern.applyPadding_eq_none_iff _ p).mpr hp⟩⟩

/-- Totality, partial: rendering never panics when every padding satisfies |padding| ≤ 65 535.
(The property wants this for every pattern; false for larger paddings: `C20_fails_F13c`, `C20_fails_F13d`.) -/
theorem pattern_total_partial (pat : Text) (ev : Event) (h : ∀ s ∈ Pattern.parse pat, Pattern.PaddingOk s) :
    ∃ out, Pattern.formatEvent pat ev = some out := by
  obtain ⟨out, ho⟩ := Pattern.renderSegs_total ev (Pattern.parse pat) h
  exact ⟨Pattern.ensureNewline out, by simp only [Pattern.formatEvent, ho, Option.map_some]⟩

example : ∀ s ∈ Pattern.parse "[%d] %-5p %t - %20m%n".toList, Pattern.PaddingOk s := by decide

/-- every padding the parser produces fits an `i32` (so the only panicking paddings are
`i32::MIN` and 65 535 < |padding| ≤ `i32::MAX`) -/
theorem pattern_padding_in_i32 (pat : Text) : ∀ s ∈ Pattern.parse pat, Pattern.SpecInRange s :=
  Pattern.parseGo_inRange _ _ _

/-- `%m` reproduces the message verbatim: whenever the pattern contains an `m` specifier (with or
without padding/options) and rendering does not panic, the output contains the message as a contiguous
substring (padding only adds spaces around it). -/
theorem pattern_message_verbatim (pat : Text) (ev : Event) (out : Text) (h : Pattern.formatEvent pat ev = some out)
    (p : Option Int) (o : Option Text) (hm : Pattern.Segment.spec 'm' p o ∈ Pattern.parse pat) :
    ev.message.getD [] <:+: out := by
  simp only [Pattern.formatEvent, Option.map_eq_some_iff] at h
  obtain ⟨raw, hr, rfl⟩ := h
  exact Pattern.infix_ensureNewline _ _ (Pattern.message_verbatim_segs hr hm)

example : Pattern.Segment.spec 'm' (some 20) none ∈ Pattern.parse "[%d] %-5p %t - %20m%n".toList := by decide

/-- every rendered record ends with a newline -/
theorem pattern_ends_with_newline (pat : Text) (ev : Event) (out : Text) (h : Pattern.formatEvent pat ev = some out) :
    out.getLast? = some '\n' := by
  simp only [Pattern.formatEvent, Option.map_eq_some_iff] at h
  obtain ⟨raw, _, rfl⟩ := h
  exact Pattern.ensureNewline_last raw

def evF13 : Event :=
  { timestamp := "t".toList, level := .info, target := "a".toList, name := "n".toList, message := some "m".toList }

def evEx : Event :=
  { evF13 with fields := [("k\n".toList, .str "v\"".toList), ("n".toList, .int (-3)), ("f".toList, .float (some "1.5".toList) "1.5".toList),
                          ("inf".toList, .float none "inf".toList)] }

example : Json.KeysDistinct evEx := by unfold Json.KeysDistinct; decide
example : Json.FloatsOk evEx := by
  intro k r d h
  simp [evEx, evF13] at h
  obtain ⟨_, rfl, _⟩ := h
  exact ⟨by decide, by decide, by decide⟩

/-- F13a: a non-finite float field is written as `null`; what is decoded is not the field's value. -/
theorem C20_fails_F13a :
    let ev := { evF13 with fields := [("r".toList, LogValue.float none "NaN".toList)] }
    (Json.decodeEvent false (Json.formatEvent false ev)).map (·.fields) = some [("r".toList, Json.Scalar.null)] := by
  decide +kernel

/-- F13b: with `flatten_fields` a custom field named like a present core key is dropped. -/
theorem C20_fails_F13b :
    let ev := { evF13 with fields := [("level".toList, LogValue.str "custom".toList)] }
    (Json.decodeEvent true (Json.formatEvent true ev)).map (·.fields) = some []
    ∧ (Json.decodeEvent true (Json.formatEvent true ev)).map (·.level) = some "INFO".toList := by
  decide +kernel

/-- F13c: `%-2147483648m` panics (`i32::abs` overflow in `apply_padding`). -/
theorem C20_fails_F13c : Pattern.formatEvent "%-2147483648m".toList evF13 = none := by decide +kernel

/-- F13d: `%65536m` panics when the message is shorter than 65 536 bytes (`core::fmt` width is `u16`). -/
theorem C20_fails_F13d : Pattern.formatEvent "%65536m".toList evF13 = none := by decide +kernel

end Fv.Props.C20
