import Fv.Lemmas.LogJson
import Fv.Log.Pattern
/-!
# C20 — log encoders are total and lossless; file rolling never loses or tears records

Property theorems only. Models: `Fv/Log/{Text,Event,Json,Pattern,Roller}.lean`; helper lemmas:
`Fv/Lemmas/Log*.lean`.
-/
namespace Fv.Props.C20
open Fv.Log

/-! ## JSON strings -/

/-- serde_json's escaping is lossless for every string: the decoder returns exactly the input. -/
theorem json_string_roundtrip (s : Text) : Json.decodeString (Json.encodeString s) = some s :=
  Json.decodeString_encodeString s

example : Json.decodeString (Json.encodeString "a\"\\\n\x01é".toList) = some "a\"\\\n\x01é".toList := json_string_roundtrip _

/-- An encoded string contains no character below 0x20 — in particular no raw newline. -/
theorem json_string_no_control (s : Text) : ∀ c ∈ Json.encodeString s, 0x20 ≤ c.toNat :=
  Json.encodeString_no_control s

def evF13 : Event :=
  { timestamp := "t".toList, level := .info, target := "a".toList, name := "n".toList, message := some "m".toList }

/-- F13a: a non-finite float field is written as `null`; what is decoded is not the field's value. -/
theorem C20_fails_F13a :
    let ev := { evF13 with fields := [("r".toList, LogValue.float none "NaN".toList)] }
    (Json.decodeEvent false (Json.formatEvent false ev)).map (·.fields) = some [("r".toList, Json.Scalar.null)] := by
  decide +kernel

/-- F13b: with `flatten_fields` a custom field named like a present core key is dropped. -/
theorem C20_fails_F13b :
    let ev := { evF13 with fields := [("level".toList, LogValue.str "custom".toList)] }
    (Json.decodeEvent true (Json.formatEvent true ev)).map (·.fields) = some []
    ∧ (Json.decodeEvent true (Json.formatEvent true ev)).map (·.level) = some "INFO".toList := by
  decide +kernel

/-- F13c: `%-2147483648m` panics (`i32::abs` overflow in `apply_padding`). -/
theorem C20_fails_F13c : Pattern.formatEvent "%-2147483648m".toList evF13 = none := by decide +kernel

/-- F13d: `%65536m` panics when the message is shorter than 65 536 bytes (`core::fmt` width is `u16`). -/
theorem C20_fails_F13d : Pattern.formatEvent "%65536m".toList evF13 = none := by decide +kernel

end Fv.Props.C20
