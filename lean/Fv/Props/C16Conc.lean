import Fv.Lemmas.CacheConcNote
import Fv.Lemmas.CacheConcLock
import Fv.Props.CacheConc
/-!
# C16 under interleavings — no removal is notified twice; maintenance-lock discipline

Model: `Fv.Cache.Conc`. `s.removed` is the ghost log of every removal of a binding from a shard map
by `remove`/`invalidate`, admission-driven eviction, the capacity pass and TTL cleanup, each with a
fresh removal id; `s.notifs` is the log of notifications accepted by the notification channel
(`try_send` succeeded; a full channel drops the notification — `sent = false`).

Programs may MIX calls on the sync handle (`Cache`) and on the async handle (`AsyncCache`): the environment
label `call op async` chooses the handle per call, and every theorem below quantifies over such mixed
programs (see `Fv.Props.CacheConcAsync` for what differs between the two handles).
-/
namespace Fv.Props.C16Conc
open Fv.Cache.Conc

/-- **No removal is notified twice**, under every interleaving: the removal ids of the accepted
notifications are pairwise distinct. -/
theorem C16c_no_duplicate_notification {c : Cfg} {s : State} (h : Reach c s) :
    (s.notifs.map (·.rid)).Nodup := (invN_reach h).not_nodup

/-- removal ids identify removals: the removal log has no two entries with the same id -/
theorem C16c_removal_ids_unique {c : Cfg} {s : State} (h : Reach c s) :
    (s.removed.map (·.rid)).Nodup := (invM_reach h).nodup

/-- **Notifications are truthful**: every accepted notification `(k, v, reason)` is the record of a
logged removal of the binding `k ↦ v` with that reason. -/
theorem C16c_notification_truthful {c : Cfg} {s : State} (h : Reach c s) :
    ∀ n ∈ s.notifs, n ∈ s.removed := (invN_reach h).not_sub

/-- a notification still to be sent is owned by exactly one thread — the one whose critical section
removed the binding — and has not been sent yet -/
theorem C16c_pending_owned_once {c : Cfg} {s : State} (h : Reach c s) {t1 t2 : Nat} {a b : Note}
    (ha : a ∈ pend (s.pc t1)) (hb : b ∈ pend (s.pc t2)) (e : a.rid = b.rid) :
    t1 = t2 ∧ ∀ m ∈ s.notifs, m.rid ≠ a.rid := by
  have hi := invN_reach h
  refine ⟨?_, hi.pend_fresh t1 a ha⟩
  apply Classical.byContradiction
  intro hne
  exact hi.pend_disj t1 t2 hne a ha b hb e

/-- **Overwrite by `insert` is not a removal**: the map section of `insert` neither logs a removal
nor sends a notification (stated explicitly, as in the sequential development). -/
theorem C16c_overwrite_is_silent {c : Cfg} {s s' : State} {t : Nat} (h : step c s t .insMap = some s') :
    s'.notifs = s.notifs ∧ s'.removed = s.removed := by
  replace h := step_step0 h
  simp only [step0] at h
  unfold stepInsMap at h
  split at h
  · simp at h; subst h; exact ⟨rfl, rfl⟩
  · simp at h

/-- `clear` notifies nobody -/
theorem C16c_clear_is_silent {c : Cfg} {s s' : State} {t : Nat} (h : step c s t .clear = some s') :
    s'.notifs = s.notifs := by
  replace h := step_step0 h
  simp only [step0] at h
  unfold stepClear at h
  split at h
  · simp at h; obtain ⟨_, h⟩ := h; subst h; rfl
  · simp at h

/-- **Maintenance-lock discipline**: two threads inside a maintenance pass of the same shard are the
same thread — so at most one thread at a time drains a shard's write-event buffer. -/
theorem C16c_maintenance_exclusive {c : Cfg} {s : State} (h : Reach c s) {t1 t2 sh : Nat}
    (h1 : holds (s.pc t1) = some sh) (h2 : holds (s.pc t2) = some sh) : t1 = t2 := by
  have hi := invL_reach h
  have e1 := hi.held t1 sh h1
  have e2 := hi.held t2 sh h2
  rw [e1] at e2; exact Option.some.inj e2

/-- no maintenance lock is leaked: a held lock has its holder inside the pass -/
theorem C16c_no_leaked_maintenance_lock {c : Cfg} {s : State} (h : Reach c s) (hq : Quiescent c s)
    (sh : Nat) : s.mlock sh = none := by
  have hfresh := (invA_reach h).fresh
  cases hm : s.mlock sh with
  | none => rfl
  | some t =>
    have := (invL_reach h).owner t sh hm
    by_cases ht : t < c.nThreads
    · have hr := hq t ht
      cases hpc : s.pc t <;> simp [hpc, isRest, holds] at hr this
    · rw [hfresh t (by omega)] at this; simp [holds] at this

/-- non-vacuity: a remove and a concurrent capacity eviction of two different keys, both notified:
two accepted notifications with distinct removal ids. -/
def traceTwoNotifs : List (Nat × Label) :=
  [(0, .call (.insert 0 10 2 none) false), (0, .insMap), (0, .insEv), (0, .insAdd), (0, .coopSkip),
   (0, .call (.insert 1 11 2 none) false), (0, .insMap), (0, .insEv), (0, .insAdd), (0, .coopSkip),
   (1, .call (.maint 0 16 true) false), (1, .mLock), (1, .recv), (1, .recv), (1, .recv),
   (1, .admit .admit), (1, .admit .admit), (1, .ttlAdvance []), (1, .ttiMap [] true), (1, .capLoad), (1, .capEvict [0] 2),
   (0, .call (.remove 1) false), (0, .rmMap), (1, .capMap true), (0, .rmPol), (0, .rmSub), (0, .rmNote true),
   (1, .capSub), (1, .unlock)]

example : (run Fv.Props.CacheConc.cfg3 init traceTwoNotifs).map (fun s => (s.notifs.map (·.rid), s.cur, s.dirty)) =
    some ([1, 0], 0, false) := by decide

end Fv.Props.C16Conc
