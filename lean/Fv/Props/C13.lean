import Fv.Lemmas.CacheFrame
import Fv.Cache.Policy.Lru
/-
C13 — capacity is enforced and cost accounting matches residency.
-/
namespace Fv.Props.C13
open Fv.Cache
open Fv.Cache.Policy

/-- the LRU policy as a `PolicyOps` (used by the witness theorems) -/
def lruOps : PolicyOps Lru.State where
  access := Lru.access
  admit := Lru.admit
  remove := Lru.remove
  evict := fun s n _ => some (Lru.evict s n)
  clear := Lru.clear

def residentCost {P} (s : State P) : Nat := (s.map.map (·.2.cost)).sum

def cfgLru5 : Cfg := { capacity := 5, trackReads := true }

/-- F8c (ghost victim): insert k, remove k, maintenance admits the removed key into the policy;
    two more inserts put the cache over capacity; the capacity pass "evicts" the ghost key and
    subtracts its cost although nothing left the map. -/
def f8cRun : State Lru.State × List Ret :=
  run cfgLru5 lruOps Lru.init (State.fresh cfgLru5 Lru.init 0)
    [(.insert false 1 101 3, {}), (.remove 1, {}), (.runMaintenance, {}),
     (.insert false 2 102 3, {}), (.insert false 3 103 3, {}), (.runMaintenance, {})]

theorem C13_fails_F8c : f8cRun.1.met.currentCost = 3 ∧ residentCost f8cRun.1 = 6 ∧ cfgLru5.capacity = 5 := by decide

end Fv.Props.C13
