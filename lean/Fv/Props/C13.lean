import Fv.Lemmas.CacheAccounting
import Fv.Lemmas.CacheWF
import Fv.Cache.Policy.Lru
/-
C13 — capacity is enforced and cost accounting matches residency.

What is proved about the model (`Fv.Cache.stepOp`, every eviction policy, every oracle):

* `C13_accounting_step`: every API call except `run_maintenance` preserves "keys are distinct and
  `current_cost` = cost sum of the resident entries (mod 2^64)" — unconditionally, whatever the
  policy answers.
* `C13_accounting_partial`: `run_maintenance` preserves it IF every capacity pass is honest
  (`CapHonest`); the real code is not (F8c, `C13_fails_F8c`).
* `capacity_pass_enforces_partial`, `capacity_bridge`: an honest capacity pass whose policy can
  release the overage brings the cache back under its capacity; F8a/F8b show passes that cannot
  (`C13_fails_F8a`, `C13_fails_F8b`).
-/
namespace Fv.Props.C13
open Fv.Cache
open Fv.Cache.Policy

/-- the LRU policy as a `PolicyOps` (used by the witness theorems) -/
def lruOps : PolicyOps Lru.State where
  access := Lru.access
  admit := Lru.admit
  remove := Lru.remove
  evict := fun s n _ => some (Lru.evict s n)
  clear := Lru.clear

def residentCost {P} (s : State P) : Nat := (s.map.map (·.2.cost)).sum

/-- `residentCost` is the `costSum` of the accounting lemmas -/
theorem residentCost_eq {P} (s : State P) : residentCost s = costSum s := rfl

variable {P : Type}

/-! ### accounting -/

/-- C13 (accounting), every call but `run_maintenance`: if the keys of the map are distinct and
    `current_cost` equals the resident cost sum modulo 2^64, the same holds after the call.  No
    hypothesis on the policy: inserts (also overwriting with a different cost), multi ops, remove,
    clear, the entry API, compute, `fetch_with`, restore, iteration, snapshots, the opportunistic
    maintenance of a synchronous insert and the flush of the introspection calls (admission-driven
    evictions subtract exactly the cost of the entries they removed). -/
theorem C13_accounting_step (cfg : Cfg) (ops : PolicyOps P) (p0 : P) (o : Oracle) (s : State P) (op : Op)
    (hop : op ≠ .runMaintenance) (hwf : WF s) (hacc : Acc s) :
    let r := stepOp cfg ops p0 o s op
    WF r.1 ∧ Acc r.1 := by
  intro r
  have hi : Inv s.resetLogs := (same_resetLogs s).inv ⟨hwf, hacc⟩
  show Inv (stepOp cfg ops p0 o s op).1
  cases op with
  | get k => exact get_inv cfg _ k hi
  | peek k => exact hi
  | occupied k => exact hi
  | insert async k vid cost =>
    cases async
    · exact opportunistic_inv cfg ops o _ k (insertCore_inv cfg _ k _ _ true hi)
    · exact insertCore_inv cfg _ k _ _ true hi
  | insertTtl async k vid cost ttl =>
    cases async
    · exact opportunistic_inv cfg ops o _ k (insertCore_inv cfg _ k _ _ true hi)
    · exact insertCore_inv cfg _ k _ _ true hi
  | remove k => exact removeKey_inv cfg ops _ k hi
  | invalidate k => exact removeKey_inv cfg ops _ k hi
  | clear => exact clearAll_inv cfg ops o _ hi
  | advance d => exact Same.inv ⟨rfl, rfl, rfl⟩ hi
  | runMaintenance => exact absurd rfl hop
  | metrics => exact flush_inv cfg ops o _ hi
  | orInsert k vid cost => exact orInsert_inv cfg _ k vid cost hi
  | compute k vid => exact compute_inv _ k vid hi
  | fetchWith k vid cost => exact fetchWith_inv cfg _ k vid cost hi
  | multiget async ks =>
    have key : ∀ (q : State P × List (Nat × Nat)), Inv q.1 →
        Inv (if ks.length > q.2.length then (q.1.hit q.2.length).miss (ks.length - q.2.length)
             else q.1.hit q.2.length) := by
      intro q h
      split
      · exact (same_miss _ _).inv ((same_hit _ _).inv h)
      · exact (same_hit _ _).inv h
    cases async
    · exact key _ (multigetSync_inv cfg ks _ [] hi)
    · exact key _ (multigetAsync_inv cfg ops _ _ [] hi)
  | multiInsert items =>
    exact foldl_inv _ (fun s x h => insertCore_inv cfg s x.1 _ _ false h) _ _ hi
  | multiRemove ks => exact multiRemoveLoop_inv cfg ops ks _ [] hi
  | iter batch inter => exact iterAll_inv cfg ops o _ batch inter hi
  | iterSnapshot inter => exact iterSnapshotAll_inv cfg ops o _ inter hi
  | snapshot => exact toSnapshot_inv cfg ops o _ hi
  | restore =>
    show Inv (match s.resetLogs.snap with
      | some sn => (State.restore cfg p0 s.resetLogs.now sn, Ret.unit)
      | none => (s.resetLogs, Ret.unit)).1
    split
    · next sn hsn => exact restore_inv cfg p0 _ sn (hi.1.2 sn hsn)
    · exact hi
  | hold k => exact hold_inv cfg _ k hi
  | release => exact release_inv _ hi
  | gate closed =>
    cases closed
    · exact Same.inv ⟨rfl, rfl, rfl⟩ hi
    · exact Same.inv ⟨rfl, rfl, rfl⟩ hi

/-- C13 (accounting) for `run_maintenance`, PARTIAL: the same conclusion under the explicit
    hypothesis that every capacity pass is honest — the amount the policy reports as released
    equals (mod 2^64) the cost of the entries the pass really removes (`CapHonest`).  This is the
    clause F8c breaks: `cleanup_capacity_for_shard` subtracts what the POLICY reports for its
    victims whether or not they were resident (ghost keys, stale costs) — see `C13_fails_F8c`.
    The drain (`perform_shard_maintenance`) and the TTL / TTI cleanups need no hypothesis. -/
theorem C13_accounting_partial (cfg : Cfg) (ops : PolicyOps P) (p0 : P) (o : Oracle) (s : State P)
    (hhonest : ∀ (s1 : State P) (i : Nat), WF s1 → CapHonest cfg ops o s1 i) (hwf : WF s) (hacc : Acc s) :
    let r := stepOp cfg ops p0 o s .runMaintenance
    WF r.1 ∧ Acc r.1 := by
  intro r
  have hi : Inv s.resetLogs := (same_resetLogs s).inv ⟨hwf, hacc⟩
  exact runMaintenance_inv cfg ops o _ hi hhonest

/-- whole histories: the invariant holds after any history in which every capacity pass is honest -/
theorem C13_accounting_run_partial (cfg : Cfg) (ops : PolicyOps P) (p0 : P)
    (hhonest : ∀ (o : Oracle) (s1 : State P) (i : Nat), WF s1 → CapHonest cfg ops o s1 i) :
    ∀ (h : List (Op × Oracle)) (s : State P), WF s → Acc s →
      WF (run cfg ops p0 s h).1 ∧ Acc (run cfg ops p0 s h).1 := by
  intro h
  induction h with
  | nil => intro s hw ha; exact ⟨hw, ha⟩
  | cons x rest ih =>
    intro s hw ha
    obtain ⟨op, o⟩ := x
    have hstep : WF (stepOp cfg ops p0 o s op).1 ∧ Acc (stepOp cfg ops p0 o s op).1 := by
      by_cases hop : op = .runMaintenance
      · subst hop; exact C13_accounting_partial cfg ops p0 o s (hhonest o) hw ha
      · exact C13_accounting_step cfg ops p0 o s op hop hw ha
    exact ih _ hstep.1 hstep.2

/-! ### capacity -/

/-- with exact accounting and no u64 wrap, `current_cost ≤ capacity` IS the capacity bound on
    the resident entries -/
theorem capacity_bridge (cfg : Cfg) (s : State P) (ha : Acc s) (hlt : costSum s < U64)
    (hc : s.met.currentCost ≤ cfg.capacity) : costSum s ≤ cfg.capacity := by
  unfold Fv.Cache.Acc at ha
  rw [Nat.mod_eq_of_lt hlt] at ha
  omega

/-- C13 (capacity), PARTIAL: one `cleanup_capacity_for_shard` pass started with exact accounting
    brings the cache back under its capacity PROVIDED the pass is honest (`CapHonest`, broken by
    F8c) and the policy released at least the overage without underflow.  "The policy can release
    the overage" needs every resident key to be tracked by the policy with its exact cost; the
    real code breaks that in four ways: F8a (only 16 write events are drained per shard and call),
    F8b (the write-event buffer drops events when it holds 512), F9 and F11 (entries written by
    the loader / restored from a snapshot are unknown to the policy) — `C13_fails_F8a`,
    `C13_fails_F8b`, `Fv.Props.C17.C17_fails_F11`. -/
theorem capacity_pass_enforces_partial (cfg : Cfg) (ops : PolicyOps P) (o : Oracle) (s : State P) (i : Nat)
    (hw : WF s) (ha : Acc s) (hlt : costSum s < U64) (hh : CapHonest cfg ops o s i)
    (hrel : s.met.currentCost - cfg.capacity ≤
      (s.polEvict ops i (s.met.currentCost - cfg.capacity) (o.evictHint.getD i [])).2.2)
    (hno : (s.polEvict ops i (s.met.currentCost - cfg.capacity) (o.evictHint.getD i [])).2.2 ≤ s.met.currentCost) :
    (s.cleanupCapacity cfg ops o i).met.currentCost ≤ cfg.capacity ∧
      costSum (s.cleanupCapacity cfg ops o i) ≤ cfg.capacity := by
  have hinv := cleanupCapacity_inv cfg ops o s i ⟨hw, ha⟩ hh
  have hle := cleanupCapacity_costSum_le cfg ops o s i hw
  have hcc : (s.cleanupCapacity cfg ops o i).met.currentCost ≤ cfg.capacity := by
    have hccs : s.met.currentCost = costSum s := by
      unfold Fv.Cache.Acc at ha; rw [Nat.mod_eq_of_lt hlt] at ha; exact ha
    unfold CapHonest at hh
    unfold State.cleanupCapacity
    simp only
    split
    · next h => exact h
    · next hover =>
      have he : Same (s.polEvict ops i (s.met.currentCost - cfg.capacity) (o.evictHint.getD i [])).1 s :=
        same_polEvict ..
      generalize s.polEvict ops i (s.met.currentCost - cfg.capacity) (o.evictHint.getD i []) = r at he hh hrel hno
      obtain ⟨s1, victims, released⟩ := r
      simp only at he hh hrel hno ⊢
      split
      · next hemp =>
        exfalso
        have hv : victims = [] := by simpa using hemp
        subst hv
        unfold capRemovedCost at hh
        simp only [List.foldl_nil, Nat.sub_self] at hh
        unfold U64 at hh hlt
        omega
      · show subW (victims.foldl (State.capRemove cfg i) s1).met.currentCost released ≤ cfg.capacity
        rw [(capRemoves_props cfg i victims s1 (he.wf hw)).2.1, he.2.1]
        unfold subW U64
        unfold U64 at hlt
        omega
  exact ⟨hcc, capacity_bridge cfg _ hinv.2 (Nat.lt_of_le_of_lt hle hlt) hcc⟩

/-! ### non-vacuity -/
def cfgLru5 : Cfg := { capacity := 5, trackReads := true }

/-- the empty oracle (no hints: the model falls back to map order) -/
def o0 : Oracle := {}

/-- a fresh cache satisfies the hypotheses of the accounting theorems -/
theorem fresh_wf_acc (cfg : Cfg) (p0 : P) (now : Nat) : WF (State.fresh cfg p0 now) ∧ Acc (State.fresh cfg p0 now) :=
  ⟨⟨List.nodup_nil, fun _ h => by cases h⟩, rfl⟩

example : (WF (State.fresh cfgLru5 Lru.init 0) ∧ Acc (State.fresh cfgLru5 Lru.init 0)) ∧
    (Op.insert false 1 101 3) ≠ .runMaintenance := ⟨fresh_wf_acc _ _ _, by decide⟩

/-- the theorem applied to a state with content: overwrite with a different cost -/
example : let s := (run cfgLru5 lruOps Lru.init (State.fresh cfgLru5 Lru.init 0)
      [(.insert false 1 101 3, {}), (.insert false 1 102 2, {}), (.insert false 2 103 1, {})]).1
    s.met.currentCost = 3 ∧ residentCost s = 3 := by decide

/-- the null policy (unbounded cache) makes every capacity pass honest: the hypothesis of
    `C13_accounting_partial` is satisfiable -/
theorem nullOps_honest (cfg : Cfg) (o : Oracle) (s1 : State Unit) (i : Nat) : CapHonest cfg nullOps o s1 i := by
  unfold CapHonest State.polEvict
  cases s1.aux[i]? <;> simp [nullOps, capRemovedCost]

example (cfg : Cfg) (o : Oracle) : ∀ (s1 : State Unit) (i : Nat), WF s1 → CapHonest cfg nullOps o s1 i :=
  fun s1 i _ => nullOps_honest cfg o s1 i

/-- a state that satisfies every hypothesis of `capacity_pass_enforces_partial`: two resident
    entries of cost 3, both known to the LRU policy with their exact cost (the write events have been
    drained), capacity 5 -/
def capDemo : State Lru.State :=
  ((run cfgLru5 lruOps Lru.init (State.fresh cfgLru5 Lru.init 0)
    [(.insert false 2 102 3, {}), (.insert false 3 103 3, {})]).1).performShard cfgLru5 lruOps o0 0 16

example : WF capDemo ∧ Fv.Cache.Acc capDemo ∧ costSum capDemo < U64 ∧ CapHonest cfgLru5 lruOps o0 capDemo 0 ∧
    capDemo.met.currentCost - cfgLru5.capacity ≤
      (capDemo.polEvict lruOps 0 (capDemo.met.currentCost - cfgLru5.capacity) (o0.evictHint.getD 0 [])).2.2 ∧
    (capDemo.polEvict lruOps 0 (capDemo.met.currentCost - cfgLru5.capacity) (o0.evictHint.getD 0 [])).2.2 ≤
      capDemo.met.currentCost := by
  refine ⟨⟨by decide, fun sn h => ?_⟩, by unfold Fv.Cache.Acc; decide, by decide, by unfold CapHonest; decide, by decide, by decide⟩
  have : capDemo.snap = none := by decide
  rw [this] at h; cases h

/-- … and the pass does bring it back under the capacity -/
example : (capDemo.cleanupCapacity cfgLru5 lruOps o0 0).met.currentCost = 3 ∧
    residentCost (capDemo.cleanupCapacity cfgLru5 lruOps o0 0) = 3 := by decide

/-! ### well-formedness needs no hypothesis at all -/

/-- the `WF` half of the invariant is preserved by EVERY call, `run_maintenance` included,
    whatever the policy reports and whether or not the accounting is exact (F8c does not break it) -/
theorem C13_WF_step (cfg : Cfg) (ops : PolicyOps P) (p0 : P) (o : Oracle) (s : State P) (op : Op) (hwf : WF s) :
    WF (stepOp cfg ops p0 o s op).1 := Fv.Cache.WF_step cfg ops p0 o s op hwf

/-- the keys of the map (and of the stored snapshot) are distinct after ANY history of a fresh cache -/
theorem C13_WF_run (cfg : Cfg) (ops : PolicyOps P) (p0 : P) (t0 : Nat) (hist : List (Op × Oracle)) :
    WF (run cfg ops p0 (State.fresh cfg p0 t0) hist).1 := Fv.Cache.WF_run cfg ops p0 t0 hist

/-- every reachable state (the state after some history, hence after every prefix) is well-formed -/
theorem C13_WF_reachable (cfg : Cfg) (ops : PolicyOps P) (p0 : P) (t0 : Nat) (s : State P)
    (h : Reachable cfg ops p0 t0 s) : WF s := Fv.Cache.WF_reachable h

-- non-vacuity: the F8c run (inexact accounting) is reachable, hence well-formed
example : Reachable cfgLru5 lruOps Lru.init 0
    (run cfgLru5 lruOps Lru.init (State.fresh cfgLru5 Lru.init 0)
      [(.insert false 1 101 3, {}), (.remove 1, {}), (.runMaintenance, {})]).1 := ⟨_, rfl⟩

/-! ### witnesses: the full statements are false on the model (as on the code) -/

/-- F8c (ghost victim): insert k, remove k, maintenance admits the removed key into the policy;
    two more inserts put the cache over capacity; the capacity pass "evicts" the ghost key and
    subtracts its cost although nothing left the map. -/
def f8cRun : State Lru.State × List Ret :=
  run cfgLru5 lruOps Lru.init (State.fresh cfgLru5 Lru.init 0)
    [(.insert false 1 101 3, {}), (.remove 1, {}), (.runMaintenance, {}),
     (.insert false 2 102 3, {}), (.insert false 3 103 3, {}), (.runMaintenance, {})]

theorem C13_fails_F8c : f8cRun.1.met.currentCost = 3 ∧ residentCost f8cRun.1 = 6 ∧ cfgLru5.capacity = 5 := by decide

/-- F8a: 22 unit-cost inserts of distinct keys (no opportunistic maintenance), then ONE
    `run_maintenance` with the real drain limit 16: the policy learns 16 keys, the capacity pass
    evicts all 16, six entries stay resident in a cache of capacity 5 — and the accounting is
    exact, so this is purely a capacity violation. -/
def f8aRun : State Lru.State × List Ret :=
  run cfgLru5 lruOps Lru.init (State.fresh cfgLru5 Lru.init 0)
    ((List.range 22).map (fun k => (Op.insert false k (100 + k) 1, o0)) ++ [(Op.runMaintenance, o0)])

theorem C13_fails_F8a :
    residentCost f8aRun.1 = 6 ∧ f8aRun.1.met.currentCost = 6 ∧ cfgLru5.capacity = 5 ∧
      cfgLru5.drainLimit = 16 ∧ cfgLru5.mcAlways = false := by decide

/-- F8b, the general fact (any `eventCap`, in particular the real 512): `try_send` on a full
    write-event buffer changes nothing — the event is dropped, so the entry `insertCore` has just
    put into the map stays resident and no policy will ever be told about it. -/
theorem C13_F8b_pushEvent_full_drops (cfg : Cfg) (s : State P) (k c : Nat) (a : Aux P)
    (ha : s.aux[cfg.shardOf k]? = some a) (hfull : cfg.eventCap ≤ a.events.length) :
    (s.pushEvent cfg k c).aux = s.aux ∧ (s.pushEvent cfg k c).map = s.map :=
  ⟨pushEvent_full cfg s k c a ha hfull, rfl⟩

/-- F8b is stated on a scaled-down configuration (kernel evaluation of 530 inserts is too slow):
    buffer of 8 events, 4 drained per call, capacity 2 — the code path is the same for 512 / 16 -/
def cfgF8b : Cfg := { capacity := 2, trackReads := true, eventCap := 8, drainLimit := 4 }

/-- 12 unit-cost inserts without maintenance (the buffer keeps 8 events and drops 4), then `n`
    `run_maintenance` calls -/
def f8bRun (n : Nat) : State Lru.State × List Ret :=
  run cfgF8b lruOps Lru.init (State.fresh cfgF8b Lru.init 0)
    ((Op.multiInsert ((List.range 12).map (fun k => (k, 100 + k, 1))), o0) :: List.replicate n (Op.runMaintenance, o0))

/-- F8b: after the buffer overflowed, two `run_maintenance` calls drain it completely and evict
    every key the policy knows; the four entries whose events were dropped stay resident in a cache
    of capacity 2, and further `run_maintenance` calls change nothing (`current_cost` is exact: 4). -/
theorem C13_fails_F8b :
    (f8bRun 0).1.aux.map (·.events.length) = [8] ∧ residentCost (f8bRun 0).1 = 12 ∧
    (f8bRun 2).1.aux.map (·.events.length) = [0] ∧ residentCost (f8bRun 2).1 = 4 ∧
    residentCost (f8bRun 4).1 = 4 ∧ (f8bRun 4).1.met.currentCost = 4 ∧
    (f8bRun 4).1.map = (f8bRun 2).1.map ∧ cfgF8b.capacity = 2 := by decide

/-- the hypotheses of `C13_F8b_pushEvent_full_drops` hold in that run -/
example : ∃ a, (f8bRun 0).1.aux[cfgF8b.shardOf 12]? = some a ∧ cfgF8b.eventCap ≤ a.events.length := by
  refine ⟨_, rfl, ?_⟩; decide

end Fv.Props.C13
