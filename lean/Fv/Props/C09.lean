import Fv.Lemmas.ChanTeardown
import Fv.Props.C01
/-!
# C09 — every value entrusted to a channel is dropped exactly once

Token locations are *derived* from the model's ghost lists (`St.placed`: buffered, delivered,
returned, lost = dropped by a failing `send`, destroyed by the channel, parked in a rendezvous sender
record) plus the values still in the hands of an operation in progress (`P.inHand`), so "every token is
in exactly one location" is a theorem about the model, not a by-construction fact.

* `C09_step_conserves_tokens` — every atomic step of any thread moves tokens between locations without
  creating, duplicating or losing one (any flavour / configuration / interleaving);
* `C09_token_ledger`, `C09_each_token_in_exactly_one_place` — after every sequential program: the created
  tokens are exactly the stranded (held by an operation that blocked for good) plus the placed ones; with
  distinct offered values each created token sits in exactly one location, once;
* `C09_buffer_empty_after_teardown` — once every handle object is gone nothing is buffered: the last
  `drop` (or the consuming oneshot `send`) ran the shared state's destructor;
* `C09_dropped_exactly_once_after_teardown` — **after teardown every created token has been dropped
  exactly once** (`dropCount = 1`: delivered → dropped by the receiving side, returned → by the sending
  side, otherwise by the channel), provided no operation is stuck holding values;
* `C09_linearizable_token_ledger` — every accepted concurrent history ends in a state whose ledger
  balances (tokens of pending operations included).
Not covered: addresses / storage reuse (use-after-free, double free of the *slot*), see DESIGN §3; the
harness' per-value `Drop` counters (`D` lines) are compared with `St.dropCount` on every run.
-/
namespace Fv.Props.C09
open Fv.Chan List

/-- Every atomic step conserves tokens: what the step newly takes from its caller (`δ`) plus what the
operation held plus what was placed equals what it holds afterwards plus what is placed afterwards. -/
theorem C09_step_conserves_tokens {fl : Flavour} {cfg : Cfg} {s s' : St} {p p' : P}
    (hs : (s', p') ∈ micro fl cfg s p) :
    ∃ δ, s'.created = s.created ++ δ ∧ (δ = [] ∨ δ = freshVals p) ∧
      ∀ v, count v δ + count v p.inHand + count v s.placed = count v p'.inHand + count v s'.placed := by
  obtain ⟨δ, hδ, hok⟩ := micro_ok hs
  exact ⟨δ, hok.created, hδ, hok.tok⟩

/-- The ledger of every sequential program balances. -/
theorem C09_token_ledger (fl : Flavour) (ops : List Op) (v : Val) :
    count v (runOps fl (init fl) ops).created =
      count v (stranded fl (init fl) ops) + count v (runOps fl (init fl) ops).placed := by
  have := runOps_ledger fl ops (init_ledger fl) v
  simpa using this

/-- With pairwise distinct offered values, every created token is in exactly one location, exactly
once: stranded in a blocked operation, buffered, delivered, returned, lost, destroyed by the channel,
or parked in a rendezvous sender record. -/
theorem C09_each_token_in_exactly_one_place (fl : Flavour) (ops : List Op) (hn : (ops.flatMap Op.vals).Nodup)
    (v : Val) (hv : v ∈ (runOps fl (init fl) ops).created) :
    count v (stranded fl (init fl) ops) + count v (runOps fl (init fl) ops).buf +
      count v (runOps fl (init fl) ops).recvOk + count v (runOps fl (init fl) ops).returned +
      count v (runOps fl (init fl) ops).lost + count v (runOps fl (init fl) ops).chanDropped +
      count v (runOps fl (init fl) ops).parked = 1 := by
  have h1 := C09_token_ledger fl ops v
  have h2 : count v (runOps fl (init fl) ops).created ≤ count v (ops.flatMap Op.vals) := by
    have := runOps_created_le fl ops (init fl) v
    have e : (init fl).created = [] := rfl
    rw [e] at this; simpa using this
  have h3 := (nodup_iff_count.mp hn) v
  have h4 : 0 < count v (runOps fl (init fl) ops).created := count_pos_iff.mpr hv
  simp only [St.placed, count_append] at h1
  omega

/-- Once every handle object is gone, nothing is buffered any more. -/
theorem C09_buffer_empty_after_teardown (fl : Flavour) (ops : List Op)
    (hgone : (runOps fl (init fl) ops).hs = []) : (runOps fl (init fl) ops).buf = [] :=
  runOps_TD ops (init_TD fl) hgone

/-- **After teardown every created token has been dropped exactly once.** (No operation stuck holding
values, no sender left parked in a rendezvous record — both are deadlocks, where the harness prints no
`D` line either.) -/
theorem C09_dropped_exactly_once_after_teardown (fl : Flavour) (ops : List Op)
    (hn : (ops.flatMap Op.vals).Nodup) (hgone : (runOps fl (init fl) ops).hs = [])
    (hstr : stranded fl (init fl) ops = []) (hpark : (runOps fl (init fl) ops).parked = [])
    (v : Val) (hv : v ∈ (runOps fl (init fl) ops).created) :
    (runOps fl (init fl) ops).dropCount v = 1 := by
  have h1 := C09_each_token_in_exactly_one_place fl ops hn v hv
  have hb := C09_buffer_empty_after_teardown fl ops hgone
  simp only [hstr, hpark, hb, count_nil] at h1
  unfold St.dropCount
  omega

def exFl : Flavour := ⟨.sb, .spsc, 2, false⟩
def exOps : List Op :=
  [.snd .trySend ⟨.tx, 0⟩ [1], .snd .trySend ⟨.tx, 0⟩ [2], .snd .trySend ⟨.tx, 0⟩ [3], .rcv .recv ⟨.rx, 0⟩ 0,
   .drop ⟨.rx, 0⟩, .snd .send ⟨.tx, 0⟩ [4], .drop ⟨.tx, 0⟩]

/-- non-vacuity: 1 delivered, 2 destroyed at teardown, 3 handed back (Full), 4 dropped by the failing `send` -/
example : (runOps exFl (init exFl) exOps).hs = [] ∧ stranded exFl (init exFl) exOps = [] ∧
    (runOps exFl (init exFl) exOps).recvOk = [1] ∧ (runOps exFl (init exFl) exOps).chanDropped = [2] ∧
    (runOps exFl (init exFl) exOps).returned = [3] ∧ (runOps exFl (init exFl) exOps).lost = [4] := by decide

/-- Every accepted concurrent history ends in a state whose ledger balances: created = held by the
operations still pending + placed; and nothing is created that was not offered. -/
theorem C09_linearizable_token_ledger (fl : Flavour) (cfg : Cfg) (h : History) (q : Bool) (sf : St)
    (hl : linearize fl cfg h q = some sf) :
    ∃ pf : LinCore.Pend PL, (∀ v, count v sf.created = pendSum P.inHand v pf + count v sf.placed) ∧
      (∀ v, count v sf.created ≤ count v (offered h)) := by
  obtain ⟨pf, ha, _⟩ := linearize_acc hl
  exact ⟨pf, ha.tok, fun v => by have := ha.off v; omega⟩

end Fv.Props.C09
