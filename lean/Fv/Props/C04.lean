import Fv.Lemmas.ChanClose
import Fv.Props.C01
/-!
# C04 — disconnect protocol: drain then Disconnected; Closed returns the value

Q-level statements are for the buffered families (spsc / mpsc / mpmc, bounded or unbounded); all of
them for every state, capacity, sync/async handle, single/batch/in-place form.

* `C04_disconnected_only_after_drain` — a receive returns Disconnected only when its own handle was
  closed or the buffer is empty and the senders are gone;
* `C04_disconnected_final_partial` — once `senders = 0 ∧ buffered = []`, further receives keep seeing
  exactly that (partial: only receive forms in between; `C04_fails_F3_*` show how a conversion /
  clone of a closed handle re-opens the channel);
* `C04_send_fails_closed_after_receivers_gone` — every send form fails Closed, accepts nothing, returns
  every value, leaves the channel untouched;
* `C04_close_one_of_several` — closing one of several handles changes only the count;
* `C04_own_closed_rejected_partial` — operations on a handle whose own flag is set are rejected
  without effect, at every call site that checks the flag (`checksOwn`); the unchecked sites are
  `C04_fails_F3_mpmc_async_send` … (the three sync sites of F3 were repaired in /repo);
* `C04_close_twice` — the second `close` reports CloseError and changes nothing;
* `C04_fails_F3_conversion_*` — `to_async` / `to_sync` rebuild the handle with `closed = false`
  (spsc, mpmc bounded, all rendezvous wrappers): the converted handle sends, and its drop decrements
  the sender count a second time (wraps to 2^64 − 1: receivers never see Disconnected again);
* `C04_fails_F17` — mpmc bounded: a parked receiver woken by the last sender's close returns
  Disconnected although a value is buffered (concurrent-only branch of the model);
* `C04_disconnected_needs_count_zero`, `C04_spsc_parked_disconnected_needs_count_zero`,
  `C04_N6_fixed_spsc_close_window` — no receive form observes `producer_dropped`: the two-step spsc sender close
  (finding N6, repaired by 23f212c in /repo) cannot make Disconnected non-final.
History level: the checker accepts exactly the histories explained by this model, including the
explicit defect branches; a raw-history formulation of the protocol is not exported (see report).
-/
namespace Fv.Props.C04
open Fv.Chan List

/-- **Drain, then Disconnected.** -/
theorem C04_disconnected_only_after_drain {fl : Flavour} (hrv : fl.fam ≠ .rv) (hos : fl.fam ≠ .os) (s : St)
    (f : Form) (h : HName) (n : Nat) (hd : Handle) (hf : findH s.hs h = some hd)
    (ht : (stepOp fl s (.rcv f h n)).2.tag = .disconnected) :
    hd.closed = true ∨ (s.buf = [] ∧ s.sc = 0) :=
  stepOp_recv_disconnected hrv hos s f h n hd hf ht

example : (stepOp ⟨.mu, .mpsc, 0, false⟩
    (runOps ⟨.mu, .mpsc, 0, false⟩ (init ⟨.mu, .mpsc, 0, false⟩) [.snd .send ⟨.tx, 0⟩ [1], .drop ⟨.tx, 0⟩, .rcv .recv ⟨.rx, 0⟩ 0])
    (.rcv .recv ⟨.rx, 0⟩ 0)).2.tag = .disconnected := by decide

/-- Disconnected is final as long as only receives happen: `senders = 0 ∧ buffered = []` is preserved
by every receive form (partial — conversions and clones of closed handles break it, see below). -/
theorem C04_disconnected_final_partial {fl : Flavour} (hrv : fl.fam ≠ .rv) (hos : fl.fam ≠ .os) (s : St)
    (f : Form) (h : HName) (n : Nat) (hsc : s.sc = 0) (hb : s.buf = []) :
    (stepOp fl s (.rcv f h n)).1.sc = 0 ∧ (stepOp fl s (.rcv f h n)).1.buf = [] ∧
      gotOf (stepOpS fl s (.rcv f h n)).2 = [] := by
  obtain ⟨⟨γ, a, _, _, d⟩, e, _⟩ := Fv.Props.C01.C01_recv_effect hrv hos s f h n
  rw [hb] at a
  have hg := append_eq_nil_iff.mp a.symm
  refine ⟨?_, hg.2, by rw [d]; exact hg.1⟩
  have : (stepOpS fl s (.rcv f h n)).1.shell.sc = s.shell.sc := by rw [e]
  show (stepOpS fl s (.rcv f h n)).1.sc = 0
  simpa [St.shell, hsc] using this

/-- **After the last receiver is gone every send form fails with Closed**, accepts nothing, hands every
value back (or drops it: `send`'s error carries none) and leaves buffer, handles and counters
untouched. -/
theorem C04_send_fails_closed_after_receivers_gone {fl : Flavour} (hrv : fl.fam ≠ .rv) (hos : fl.fam ≠ .os)
    (s : St) (f : Form) (h : HName) (vs : List Val) (hd : Handle) (hf : findH s.hs h = some hd)
    (hside : hd.name.side = .tx) (hform : f.isSend = true) (hsup : supportsForm fl.fam hd.isAsync f = true)
    (hne : vs ≠ []) (hgone : receiversGone fl s = true) :
    let o := (stepOp fl s (.snd f h vs)).2
    o.tag = .closed ∧ o.sent = [] ∧ ((o.back = vs ∧ o.lost = []) ∨ (o.back = [] ∧ o.lost = vs)) ∧
      (stepOp fl s (.snd f h vs)).1.buf = s.buf ∧ (stepOp fl s (.snd f h vs)).1.shell = s.shell := by
  intro o
  obtain ⟨h1, h2, h3⟩ := stepOp_send_closed hrv hos s f h vs hd hf hside hform hsup hne (Or.inr hgone)
  obtain ⟨⟨γ, a, _, c⟩, d, _, _⟩ := Fv.Props.C01.C01_send_effect hrv hos s f h vs
  refine ⟨h1, h2, h3, ?_, d⟩
  have hγ : γ = [] := by
    cases hr : (stepOpS fl s (.snd f h vs)).2 with
    | fin o' =>
      rw [hr] at c; simp only [sentOf] at c
      have : o' = o := by show o' = (stepOpS fl s (.snd f h vs)).2.outOrBlocks; rw [hr]; rfl
      rw [← c, this]; exact h2
    | bsend t f' h' sent rest q =>
      exfalso
      have : (stepOp fl s (.snd f h vs)).2 = blocksOut := by
        show (stepOpS fl s (.snd f h vs)).2.outOrBlocks = _; rw [hr]; rfl
      rw [this] at h1; simp [blocksOut] at h1
    | bsendEnd t f' sent rest =>
      exfalso
      have : (stepOp fl s (.snd f h vs)).2 = blocksOut := by
        show (stepOpS fl s (.snd f h vs)).2.outOrBlocks = _; rw [hr]; rfl
      rw [this] at h1; simp [blocksOut] at h1
    | stg t k h' sent rest =>
      exfalso
      have : (stepOp fl s (.snd f h vs)).2 = blocksOut := by
        show (stepOpS fl s (.snd f h vs)).2.outOrBlocks = _; rw [hr]; rfl
      rw [this] at h1; simp [blocksOut] at h1
    | _ => rw [hr] at c; simpa [sentOf] using c.symm
  show (stepOpS fl s (.snd f h vs)).1.buf = s.buf
  rw [a, hγ, append_nil]

/-- **Operations on a handle that was itself closed are rejected without effect** — at every call site
that checks the flag. Send forms: Closed, everything returned; receive forms: Disconnected. -/
theorem C04_own_closed_rejected_partial {fl : Flavour} (hrv : fl.fam ≠ .rv) (hos : fl.fam ≠ .os) (s : St)
    (f : Form) (h : HName) (hd : Handle) (hf : findH s.hs h = some hd) (hc : hd.closed = true)
    (hsup : supportsForm fl.fam hd.isAsync f = true) (hchk : checksOwn fl.fam hd.isAsync f = true) :
    (∀ vs, hd.name.side = .tx → f.isSend = true → vs ≠ [] →
      (stepOp fl s (.snd f h vs)).2.tag = .closed ∧ (stepOp fl s (.snd f h vs)).2.sent = []) ∧
    (∀ n, hd.name.side = .rx → f.isSend = false → n ≠ 0 →
      stepOp fl s (.rcv f h n) = (s, { tag := .disconnected })) := by
  refine ⟨fun vs hside hform hne => ?_, fun n hside hform hn => ?_⟩
  · obtain ⟨h1, h2, _⟩ := stepOp_send_closed hrv hos s f h vs hd hf hside hform hsup hne (Or.inl ⟨hc, hchk⟩)
    exact ⟨h1, h2⟩
  · exact stepOp_recv_own_closed s f h n hd hf hside hform hsup hn hc hchk

/-- **`close` twice ⇒ CloseError**, and the failed close changes nothing. -/
theorem C04_close_twice (fl : Flavour) (s : St) (h : HName) (hd : Handle) (hf : findH s.hs h = some hd)
    (hc : hd.closed = true) : stepOp fl s (.close h) = (s, { tag := .closeErr }) := by
  unfold stepOp stepOpS
  unfold runPS
  simp only [microDet, seqCfg, start]
  unfold startClose
  simp [hf, hc, runPS_fin, P.outOrBlocks]

example : (stepOp ⟨.pb, .mpmc, 1, false⟩ (stepOp ⟨.pb, .mpmc, 1, false⟩ (init ⟨.pb, .mpmc, 1, false⟩) (.close ⟨.tx, 0⟩)).1
    (.close ⟨.tx, 0⟩)).2.tag = .closeErr := by decide

/-- **Closing one of several cloned handles changes only the count**: buffer, flags and the other
side's counter are untouched and the side is not reported gone, in every family with cloneable
handles of that side. -/
theorem C04_close_one_of_several (fl : Flavour) (s : St) (hn : s.sc ≥ 2) (hw : s.sc < WORD)
    (hf : fl.fam = .mb ∨ fl.fam = .mu ∨ fl.fam = .pb ∨ fl.fam = .pu) :
    let s' := closeEffect fl s .tx
    s'.sc = s.sc - 1 ∧ s'.buf = s.buf ∧ s'.rc = s.rc ∧ s'.rd = s.rd ∧ sendersGone s' = false := by
  intro s'
  have hd : wdec s.sc = s.sc - 1 := by unfold wdec; split <;> omega
  rcases hf with e | e | e | e <;>
    simp [s', closeEffect, e, hd, sendersGone] <;> omega

/-! ### what the code does not honour (sequential witnesses, replayed on the implementation) -/

def pbA : Flavour := ⟨.pb, .mpmc, 2, true⟩

/-- F3: the mpmc async send futures never read the handle's `closed` flag. -/
theorem C04_fails_F3_mpmc_async_send :
    (stepOp pbA (stepOp pbA (init pbA) (.close ⟨.tx, 0⟩)).1 (.snd .send ⟨.tx, 0⟩ [1])).2.tag = .ok := by decide

/-- F3: … nor do the mpmc async receive futures. -/
theorem C04_fails_F3_mpmc_async_recv :
    (stepOp pbA (runOps pbA (init pbA) [.snd .trySend ⟨.tx, 0⟩ [1], .close ⟨.rx, 0⟩]) (.rcv .recv ⟨.rx, 0⟩ 0)).2
      = { tag := .ok, got := [1] } := by decide

def sbS : Flavour := ⟨.sb, .spsc, 2, false⟩

/-- F3: `to_async` rebuilds the handle with `closed = false`: the closed spsc sender sends again. -/
theorem C04_fails_F3_conversion_resurrects :
    (stepOp sbS (runOps sbS (init sbS) [.close ⟨.tx, 0⟩, .toAsync ⟨.tx, 0⟩]) (.snd .trySend ⟨.tx, 0⟩ [1])).2.tag = .ok := by
  decide

/-- F3: … and its drop decrements `sender_count` a second time: it wraps to 2^64 − 1, so the receiver
sees Empty instead of Disconnected forever after. -/
theorem C04_fails_F3_conversion_wraps_count :
    (runOps sbS (init sbS) [.close ⟨.tx, 0⟩, .toAsync ⟨.tx, 0⟩, .drop ⟨.tx, 0⟩]).sc = WORD - 1 ∧
    (stepOp sbS (runOps sbS (init sbS) [.close ⟨.tx, 0⟩, .toAsync ⟨.tx, 0⟩, .drop ⟨.tx, 0⟩]) (.rcv .tryRecv ⟨.rx, 0⟩ 0)).2.tag
      = .empty := by decide

def pbS : Flavour := ⟨.pb, .mpmc, 2, false⟩

/-- F17 (mpmc bounded): receiver `r1` is parked; a sender pushes 1 and the last sender closes; the woken
`r1` may return Disconnected although 1 is buffered. The state below is reached by
`clone r0 r1 ; (r1 parks in recv) ; try_send s0 1 ; close s0`. -/
def f17State : St :=
  runOps pbS (init pbS) [.clone ⟨.rx, 0⟩ ⟨.rx, 1⟩, .snd .trySend ⟨.tx, 0⟩ [1], .close ⟨.tx, 0⟩]

theorem C04_fails_F17 :
    f17State.buf = [1] ∧
      (f17State, P.fin { tag := .disconnected }) ∈ micro pbS linCfg f17State (.brecv 3 .recv ⟨.rx, 1⟩ 0 []) := by
  decide

def sbA : Flavour := ⟨.sb, .spsc, 2, true⟩

/-- The spsc close window (finding N6, repaired in /repo by 23f212c): `close_internal` of the sender stores
`producer_dropped` and decrements `sender_count` in two steps (bounded_async.rs:37-40, bounded_sync.rs:51-54); the
concurrent specification keeps the two steps (`startCloseSb` / `startDropSb`, then `stgStep` 10 / 11).  The state
between the two is the first step of `drop s0`. -/
def closeWindow : St := (start sbA linCfg (init sbA) 1 (.drop ⟨.tx, 0⟩)).1

/-- **Disconnected needs the sender COUNT to be zero** — every receive form, every buffered family, every
configuration (sequential model and concurrent specification), every state: a receive on an open handle answers
Disconnected only when the buffer is empty and `sender_count = 0`.  No receive form observes `producer_dropped`:
in particular the first half of a two-step spsc close cannot produce a Disconnected that a later receive
contradicts.  (Until 23f212c the spsc async batch receives tested the flag: `C04_fails_N6_spsc_close_window`.) -/
theorem C04_disconnected_needs_count_zero {fl : Flavour} (hrv : fl.fam ≠ .rv) (hos : fl.fam ≠ .os) (cfg : Cfg)
    (s : St) (t : Nat) (f : Form) (h : HName) (n : Nat) (hd : Handle) (hf : findH s.hs h = some hd)
    (hopen : hd.closed = false) {s' : St} {o : Out} (hs : start fl cfg s t (.rcv f h n) = (s', .fin o))
    (ht : o.tag = .disconnected) : s.buf = [] ∧ s.sc = 0 :=
  startRecv_disconnected_any hrv hos cfg s t f h n hd hf hopen hs ht

/-- … and the same for a receive that was parked and is re-run (`.brecv`), spsc: all behaviours of the concurrent
specification (`micro`, spurious branches included). -/
theorem C04_spsc_parked_disconnected_needs_count_zero {fl : Flavour} (hsb : fl.fam = .sb) (cfg : Cfg) (s : St)
    (t : Nat) (f : Form) (h : HName) (n : Nat) (hn : recvWant f n [] > 0) {s' : St} {o : Out}
    (hs : (s', P.fin o) ∈ micro fl cfg s (.brecv t f h n [])) (ht : o.tag = .disconnected) :
    s.buf = [] ∧ s.sc = 0 := by
  unfold micro at hs
  rcases List.mem_append.mp hs with hs | hs
  · simp only [microDet] at hs
    split at hs
    · simp at hs
    · rename_i hd hf
      split at hs
      · rename_i r hr
        simp only [Option.toList, List.mem_singleton] at hs
        obtain ⟨r1, r2⟩ := r
        cases hs
        exact recvStep_disconnected_any hn hr ht
      · split at hs
        · rename_i hmb; rw [hsb] at hmb; simp at hmb
        · simp at hs
  · split at hs
    · simp only [microSpur, hidesBehindInflight, hsb] at hs
      simp at hs
      split at hs <;> simp at hs
    · simp at hs

/-- **N6 repaired — Disconnected is final for spsc across the close window.**  In the window (`producer_dropped`
set, `sender_count` still 1) the async batch receive does not answer Disconnected any more: it waits (`.brecv`,
exactly like `recv`), `try_recv` / `try_recv_batch` answer Empty; once the second step has run (`sender_count = 0`)
the parked batch receive and every later receive answer Disconnected, and the count stays 0
(`C04_disconnected_final_partial`).  Regression schedule: corpus/chan/C04_N6_fixed_spsc_async_close_window.case. -/
theorem C04_N6_fixed_spsc_close_window :
    closeWindow.pd = true ∧ closeWindow.sc = 1 ∧
    (start sbA linCfg closeWindow 2 (.rcv .recvBatch ⟨.rx, 0⟩ 1)).2 = P.brecv 2 .recvBatch ⟨.rx, 0⟩ 1 [] ∧
    (start sbA linCfg closeWindow 2 (.rcv .recvBatchMut ⟨.rx, 0⟩ 1)).2 = P.brecv 2 .recvBatchMut ⟨.rx, 0⟩ 1 [] ∧
    (start sbA linCfg closeWindow 2 (.rcv .tryRecv ⟨.rx, 0⟩ 0)).2 = P.fin { tag := .empty } ∧
    (start sbA linCfg closeWindow 2 (.rcv .tryRecvBatch ⟨.rx, 0⟩ 1)).2 = P.fin { tag := .empty } ∧
    micro sbA linCfg closeWindow (.brecv 2 .recvBatch ⟨.rx, 0⟩ 1 []) = [] ∧
    (microDet sbA linCfg closeWindow (.stg 1 11 ⟨.tx, 0⟩ [] [])).map (fun r => (r.1.sc, r.2)) =
      some (0, P.fin { tag := .ok }) ∧
    ((microDet sbA linCfg closeWindow (.stg 1 11 ⟨.tx, 0⟩ [] [])).map (fun r =>
        ((micro sbA linCfg r.1 (.brecv 2 .recvBatch ⟨.rx, 0⟩ 1 [])).map (·.2),
         (start sbA linCfg r.1 2 (.rcv .tryRecv ⟨.rx, 0⟩ 0)).2))) =
      some ([P.fin { tag := .disconnected }], P.fin { tag := .disconnected }) := by
  decide

example : (start sbA linCfg (runOps sbA (init sbA) [.drop ⟨.tx, 0⟩]) 2 (.rcv .recvBatch ⟨.rx, 0⟩ 1)).2
    = .fin { tag := .disconnected } := by decide

end Fv.Props.C04
